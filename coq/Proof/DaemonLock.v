(* Proofs about Model/DaemonLock.v (C28). *)
From Coq Require Import List Arith Bool Lia.
Import ListNotations.
From Mv Require Import Model.DaemonLock.

(* ---------- lists ---------- *)

Lemma upd_length : forall A (l : list A) i x, length (upd l i x) = length l.
Proof. induction l as [|h t IH]; intros [|i] x; cbn; auto. Qed.

Lemma nth_upd_same : forall A (l : list A) i x d, i < length l -> nth i (upd l i x) d = x.
Proof.
  induction l as [|h t IH]; intros [|i] x d H; cbn in *; try lia; auto.
  apply IH. lia.
Qed.

Lemma nth_upd_other : forall A (l : list A) i j x d, i <> j -> nth j (upd l i x) d = nth j l d.
Proof.
  induction l as [|h t IH]; intros [|i] [|j] x d H; cbn; auto; try congruence.
Qed.

Lemma getp_put_same : forall s p q t w, p < length (procs s) -> getp (put s p q t w) p = q.
Proof. intros. unfold getp, put. cbn. apply nth_upd_same. auto. Qed.

Lemma getp_put_other : forall s p q t w r, p <> r -> getp (put s p q t w) r = getp s r.
Proof. intros. unfold getp, put. cbn. apply nth_upd_other. auto. Qed.

Lemma put_length : forall s p q t w, length (procs (put s p q t w)) = length (procs s).
Proof. intros. unfold put. cbn. apply upd_length. Qed.

(* ---------- the Locker ---------- *)

(* Lock on a Locker that already holds fails with "lock already held" and
   does not touch the lock table or the Locker *)
Lemma lock_while_held : forall t p l, l_held l = true -> lk_lock t p l = (t, l, EHeld).
Proof. intros t p l H. unfold lk_lock. rewrite H. reflexivity. Qed.

Lemma unlock_while_not_held : forall t p l, l_held l = false -> lk_unlock t p l = (t, l, ENotHeld).
Proof. intros t p l H. unfold lk_unlock. rewrite H. reflexivity. Qed.

Lemma os_drop_self : forall p, os_drop (Some p) p = None.
Proof. intros p. cbn. rewrite Nat.eqb_refl. reflexivity. Qed.

Lemma os_drop_other : forall t p, t <> Some p -> os_drop t p = t.
Proof.
  intros [q|] p H; cbn; auto. destruct (Nat.eqb_spec p q); auto. subst. congruence.
Qed.

Lemma os_drop_not : forall t p, os_drop t p <> Some p.
Proof.
  intros [q|] p; cbn; try discriminate.
  destruct (Nat.eqb_spec p q); try discriminate. congruence.
Qed.

(* ---------- invariant of the process system ---------- *)

Definition pinv (t : table) (p : pid) (q : pst) : Prop :=
  (believes q = true -> t = Some p /\ l_held (p_lk q) = true /\ l_open (p_lk q) = true)
  /\ (believes q = false -> t <> Some p)
  /\ (believes q = false -> p_pc q <> Dead -> l_held (p_lk q) = false)
  /\ (p_pc q <> Dead ->
      match p_kind q with
      | KLocker => l_open (p_lk q) = true /\ p_nfd q = 1
      | KDaemon => if believes q then p_nfd q = 1 else (p_nfd q = 0 /\ l_open (p_lk q) = false)
      end).

Definition inv (s : sys) : Prop :=
  (forall p, p < length (procs s) -> pinv (tbl s) p (getp s p))
  /\ (forall p, tbl s = Some p -> p < length (procs s)).

Lemma getp_sys0 : forall ks p, p < length ks ->
  getp (sys0 ks) p = pst0 (nth p ks KDaemon).
Proof.
  intros ks p H. unfold getp, sys0. cbn.
  rewrite (nth_indep _ dflt (pst0 KDaemon)) by (rewrite map_length; exact H).
  apply map_nth.
Qed.

Lemma inv0 : forall ks, inv (sys0 ks).
Proof.
  intros ks. split.
  - intros p H. unfold sys0 in H. cbn in H. rewrite map_length in H.
    rewrite getp_sys0 by exact H. cbn [tbl sys0].
    destruct (nth p ks KDaemon); unfold pinv; cbn; repeat split; auto; try discriminate.
  - cbn. discriminate.
Qed.

(* at most one process believes it has the lock *)
Lemma inv_mutex : forall s p q, inv s ->
  p < length (procs s) -> q < length (procs s) ->
  believes (getp s p) = true -> believes (getp s q) = true -> p = q.
Proof.
  intros s p q [I _] Hp Hq Bp Bq.
  destruct (I p Hp) as (Ap & _). destruct (I q Hq) as (Aq & _).
  destruct (Ap Bp) as (Tp & _). destruct (Aq Bq) as (Tq & _). congruence.
Qed.

Lemma inv_table_holder : forall s p, inv s -> tbl s = Some p ->
  p < length (procs s) /\ believes (getp s p) = true.
Proof.
  intros s p [I T] H. pose proof (T p H) as L. split; auto.
  destruct (I p L) as (_ & N & _).
  destruct (believes (getp s p)); auto. exfalso. apply N; auto.
Qed.

(* a step of process p that leaves the table unchanged, or changes it only
   from/to p's own entry, keeps the invariant of the others *)
Lemma pinv_frame : forall t t' p r q,
  r <> p -> pinv t r q ->
  (t = Some r -> t' = Some r) -> (t' = Some r -> t = Some r) ->
  pinv t' r q.
Proof.
  intros t t' p r q NE (A & B & C & D) F1 F2. unfold pinv. repeat split; auto.
  - destruct (A H) as (A1 & _). auto.
  - destruct (A H) as (_ & A2 & _). auto.
  - destruct (A H) as (_ & _ & A3). auto.
  - intros H X. apply (B H). auto.
Qed.

Lemma pinv_ext : forall t p q q',
  p_pc q' = p_pc q -> p_lk q' = p_lk q -> p_kind q' = p_kind q -> p_nfd q' = p_nfd q ->
  pinv t p q -> pinv t p q'.
Proof.
  intros t p q q' E1 E2 E3 E4 H. unfold pinv, believes in *. rewrite E1, E2, E3, E4. exact H.
Qed.

Lemma pinv_dead : forall t p q, pinv (os_drop t p) p (set_pc q Dead).
Proof.
  intros t p q. unfold pinv, believes. cbn [set_pc p_pc]. repeat split; intros; try discriminate.
  - apply os_drop_not.
  - congruence.
  - congruence.
Qed.

Lemma os_drop_frame : forall t p r, r <> p -> (t = Some r <-> os_drop t p = Some r).
Proof.
  intros [y|] p r NE; cbn; [|tauto].
  destruct (Nat.eqb_spec p y) as [->|N]; [|tauto].
  split; intros X; [inversion X; congruence|discriminate].
Qed.

Lemma step_inv : forall s a s', inv s -> step s a = Some s' -> inv s'.
Proof.
  intros s a s' [I T] H.
  (* generic closing argument: p's new state satisfies pinv, the table moved
     only on p's entry *)
  assert (CLOSE : forall p q' t' w,
            p < length (procs s) ->
            pinv t' p q' ->
            (forall r, r <> p -> (tbl s = Some r <-> t' = Some r)) ->
            (forall r, t' = Some r -> r < length (procs s)) ->
            inv (put s p q' t' w)).
  { intros p q' t' w Lp Pq FR TB. split.
    - intros r Hr. rewrite put_length in Hr. cbn [tbl put].
      destruct (Nat.eq_dec r p) as [->|NE].
      + rewrite getp_put_same by exact Lp. exact Pq.
      + rewrite getp_put_other by congruence.
        eapply (pinv_frame (tbl s) t' p); eauto; apply FR; auto.
    - intros r Hr. rewrite put_length. cbn in Hr. apply TB. exact Hr. }
  destruct a as [p|p|p|p|p]; cbn [step] in H;
    destruct (length (procs s) <=? p) eqn:LE; try discriminate;
    apply Nat.leb_gt in LE; pose proof (I p LE) as (A & B & C & D).
  - (* a witness record: the table does not move *)
    assert (SAME : forall c, (believes (set_pc (getp s p) c) = believes (getp s p)) ->
              (c <> Dead) -> (p_pc (getp s p) <> Dead) ->
              inv (put s p (set_pc (getp s p) c) (tbl s) ((p, LAcqCall) :: wl s)) -> True) by auto.
    destruct (p_pc (getp s p)) eqn:PC; try discriminate; inversion H; subst; clear H;
      apply CLOSE; auto; try (intros; tauto);
      unfold pinv, believes in *; cbn [set_pc p_pc p_lk p_kind p_nfd] in *; rewrite PC in *;
      repeat split; intros; auto; try discriminate;
      try (apply A; auto); try (apply B; auto); try (apply C; auto; discriminate);
      try (apply D; discriminate).
  - (* a lock operation *)
    destruct (p_pc (getp s p)) eqn:PC; try discriminate.
    + (* Trying *)
      assert (NB : believes (getp s p) = false) by (unfold believes; rewrite PC; auto).
      assert (NT : tbl s <> Some p) by (apply B; auto).
      assert (NH : l_held (p_lk (getp s p)) = false) by (apply C; auto; try rewrite PC; discriminate).
      assert (D0 := D). clear D.
      assert (D : match p_kind (getp s p) with
                  | KLocker => l_open (p_lk (getp s p)) = true /\ p_nfd (getp s p) = 1
                  | KDaemon => if believes (getp s p) then p_nfd (getp s p) = 1
                               else (p_nfd (getp s p) = 0 /\ l_open (p_lk (getp s p)) = false)
                  end) by (apply D0; try rewrite PC; discriminate).
      destruct (p_kind (getp s p)) eqn:KD.
      * (* daemon.AcquireLock *)
        unfold acquire_lock, lk_lock in H. cbn [lk_new l_held l_open negb] in H.
        rewrite NB in D. destruct D as [D1 D2].
        destruct (tbl s) as [r|] eqn:TB; cbn [os_setlk] in H.
        -- destruct (Nat.eqb_spec p r) as [->|NE]; [congruence|].
           cbn in H. inversion H; subst; clear H.
           assert (EQ : Nat.eqb p r = false) by (apply Nat.eqb_neq; auto).
           rewrite ?EQ.
           apply (CLOSE p _ _ _ LE); [|intros; tauto|exact T].
           unfold pinv, believes. cbn [set_pc p_pc p_lk p_kind p_nfd]. rewrite KD, ?EQ.
           repeat split; intros; auto; try discriminate; congruence.
        -- inversion H; subst; clear H.
           apply (CLOSE p _ _ _ LE).
           ++ unfold pinv, believes. cbn. repeat split; intros; auto; discriminate.
           ++ intros x NE. split; intros X; try discriminate. inversion X; congruence.
           ++ intros x Hx. inversion Hx; subst; auto.
      * (* Locker.Lock *)
        destruct D as [D1 D2].
        unfold lk_lock in H. rewrite NH, D1 in H. cbn [negb] in H.
        destruct (tbl s) as [r|] eqn:TB; cbn [os_setlk] in H.
        -- destruct (Nat.eqb_spec p r) as [->|NE]; [congruence|].
           inversion H; subst; clear H.
           apply (CLOSE p _ _ _ LE); [|intros; tauto|exact T].
           unfold pinv, believes. cbn.
           repeat split; intros; auto; try discriminate; congruence.
        -- inversion H; subst; clear H.
           apply (CLOSE p _ _ _ LE).
           ++ unfold pinv, believes. cbn. rewrite ?D1. repeat split; intros; auto; discriminate.
           ++ intros x NE. split; intros X; try discriminate. inversion X; congruence.
           ++ intros x Hx. inversion Hx; subst; auto.
    + (* Releasing *)
      assert (BB : believes (getp s p) = true) by (unfold believes; rewrite PC; auto).
      destruct (A BB) as (TP & HL & OP).
      assert (D0 := D). clear D.
      assert (D : match p_kind (getp s p) with
                  | KLocker => l_open (p_lk (getp s p)) = true /\ p_nfd (getp s p) = 1
                  | KDaemon => if believes (getp s p) then p_nfd (getp s p) = 1
                               else (p_nfd (getp s p) = 0 /\ l_open (p_lk (getp s p)) = false)
                  end) by (apply D0; try rewrite PC; discriminate).
      destruct (p_kind (getp s p)) eqn:KD.
      * (* Lock.Release *)
        unfold release_lock, lk_unlock in H. rewrite HL, OP in H. cbn [negb] in H.
        unfold lk_close in H. cbn [l_open l_held] in H. rewrite ?OP in H.
        inversion H; subst; clear H. rewrite TP, os_drop_self. cbn [os_drop].
        rewrite BB in D.
        apply (CLOSE p _ _ _ LE).
        -- unfold pinv, believes. cbn. rewrite ?D. repeat split; intros; auto; discriminate.
        -- intros x NE. rewrite TP. split; intros X; try discriminate. inversion X; congruence.
        -- intros x Hx. discriminate.
      * unfold lk_unlock in H. rewrite HL, OP in H. cbn [negb] in H.
        inversion H; subst; clear H. rewrite TP, os_drop_self.
        destruct D as [D1 D2].
        apply (CLOSE p _ _ _ LE).
        -- unfold pinv, believes. cbn. rewrite ?OP, ?D2. repeat split; intros; auto; discriminate.
        -- intros x NE. rewrite TP. split; intros X; try discriminate. inversion X; congruence.
        -- intros x Hx. discriminate.
  - (* kill call: only the flag and the log *)
    destruct (p_kcall (getp s p)); try discriminate. inversion H; subst; clear H.
    apply (CLOSE p _ _ _ LE); [|intros; tauto|exact T].
    eapply pinv_ext; [| | | |exact (I p LE)]; reflexivity.
  - (* the kill takes effect *)
    destruct (p_kcall (getp s p)); try discriminate.
    assert (X : s' = put s p (set_pc (getp s p) Dead) (os_drop (tbl s) p) (wl s)).
    { destruct (p_pc (getp s p)); try discriminate; inversion H; reflexivity. }
    subst s'. clear H.
    apply (CLOSE p _ _ _ LE).
    + apply pinv_dead.
    + intros r NE. apply os_drop_frame. exact NE.
    + intros r Hr. apply T. destruct (tbl s) as [y|]; cbn in Hr; try discriminate.
      destruct (Nat.eqb_spec p y); try discriminate. exact Hr.
  - (* dead written *)
    destruct (p_pc (getp s p)) eqn:PC; try discriminate.
    destruct (p_dlog (getp s p)); try discriminate. inversion H; subst; clear H.
    apply (CLOSE p _ _ _ LE); [|intros; tauto|exact T].
    eapply pinv_ext; [| | | |exact (I p LE)]; cbn; auto.
Qed.

Lemma run_inv : forall sched s s', inv s -> run s sched = Some s' -> inv s'.
Proof.
  induction sched as [|a t IH]; intros s s' I H; cbn in H.
  - inversion H; subst; auto.
  - destruct (step s a) eqn:E; try discriminate. eapply IH; [eapply step_inv; eauto|eauto].
Qed.

Lemma step_length : forall s a s', step s a = Some s' -> length (procs s') = length (procs s).
Proof.
  intros s a s' H. destruct a as [p|p|p|p|p]; cbn [step] in H;
    destruct (length (procs s) <=? p); try discriminate.
  - destruct (p_pc (getp s p)); try discriminate; inversion H; apply put_length.
  - destruct (p_pc (getp s p)); try discriminate; destruct (p_kind (getp s p)).
    + destruct (acquire_lock (tbl s) p) as [[t' [l'|]] e]; inversion H; apply put_length.
    + destruct (lk_lock (tbl s) p (p_lk (getp s p))) as [[t' l'] e];
        destruct e; inversion H; apply put_length.
    + destruct (release_lock (tbl s) p (p_lk (getp s p))) as [[t' l'] e]; inversion H; apply put_length.
    + destruct (lk_unlock (tbl s) p (p_lk (getp s p))) as [[t' l'] e]; inversion H; apply put_length.
  - destruct (p_kcall (getp s p)); try discriminate. inversion H; apply put_length.
  - destruct (p_kcall (getp s p)); try discriminate.
    destruct (p_pc (getp s p)); try discriminate; inversion H; apply put_length.
  - destruct (p_pc (getp s p)); try discriminate.
    destruct (p_dlog (getp s p)); try discriminate. inversion H; apply put_length.
Qed.

(* ---------- the lock becomes available again ---------- *)

(* the holder's release empties the table *)
Lemma release_frees : forall s p s', inv s -> p < length (procs s) ->
  p_pc (getp s p) = Releasing -> step s (SEff p) = Some s' ->
  tbl s' = None /\ p_pc (getp s' p) = Released.
Proof.
  intros s p s' [I T] L PC H. cbn [step] in H.
  assert (LE : (length (procs s) <=? p) = false) by (apply Nat.leb_gt; exact L).
  rewrite LE, PC in H.
  destruct (I p L) as (A & _).
  assert (BB : believes (getp s p) = true) by (unfold believes; rewrite PC; auto).
  destruct (A BB) as (TP & HL & OP).
  destruct (p_kind (getp s p)).
  - unfold release_lock, lk_unlock in H. rewrite HL, OP in H. cbn [negb] in H.
    unfold lk_close in H. cbn [l_open l_held] in H. rewrite ?OP in H.
    inversion H; subst; clear H. rewrite getp_put_same by exact L. cbn [tbl put p_pc].
    rewrite TP, os_drop_self. cbn. auto.
  - unfold lk_unlock in H. rewrite HL, OP in H. cbn [negb] in H.
    inversion H; subst; clear H. rewrite getp_put_same by exact L. cbn [tbl put p_pc].
    rewrite TP, os_drop_self. auto.
Qed.

(* so does the holder's death, by SIGKILL at any point *)
Lemma kill_frees : forall s p s', inv s -> p < length (procs s) ->
  believes (getp s p) = true -> step s (SKill p) = Some s' ->
  tbl s' = None /\ p_pc (getp s' p) = Dead.
Proof.
  intros s p s' [I T] L BB H. cbn [step] in H.
  assert (LE : (length (procs s) <=? p) = false) by (apply Nat.leb_gt; exact L).
  rewrite LE in H. destruct (p_kcall (getp s p)); try discriminate.
  destruct (I p L) as (A & _). destruct (A BB) as (TP & _).
  assert (X : s' = put s p (set_pc (getp s p) Dead) (os_drop (tbl s) p) (wl s)).
  { destruct (p_pc (getp s p)); try discriminate; inversion H; reflexivity. }
  subst s'. rewrite getp_put_same by exact L. cbn [tbl put]. rewrite TP, os_drop_self. auto.
Qed.

(* with the table empty, the next attempt by anyone succeeds *)
Lemma free_acquire : forall s q, inv s -> q < length (procs s) ->
  tbl s = None -> p_pc (getp s q) = Trying ->
  exists s', step s (SEff q) = Some s' /\ p_pc (getp s' q) = Got /\ tbl s' = Some q.
Proof.
  intros s q [I T] L TB PC. cbn [step].
  assert (LE : (length (procs s) <=? q) = false) by (apply Nat.leb_gt; exact L).
  rewrite LE, PC.
  destruct (I q L) as (_ & _ & C & D).
  assert (NB : believes (getp s q) = false) by (unfold believes; rewrite PC; auto).
  assert (NH : l_held (p_lk (getp s q)) = false) by (apply C; auto; rewrite PC; discriminate).
  assert (D1 : match p_kind (getp s q) with
               | KLocker => l_open (p_lk (getp s q)) = true /\ p_nfd (getp s q) = 1
               | KDaemon => if believes (getp s q) then p_nfd (getp s q) = 1
                            else (p_nfd (getp s q) = 0 /\ l_open (p_lk (getp s q)) = false)
               end) by (apply D; rewrite PC; discriminate).
  destruct (p_kind (getp s q)).
  - unfold acquire_lock, lk_lock. cbn [lk_new l_held l_open negb]. rewrite TB. cbn [os_setlk].
    eexists. split; [reflexivity|]. rewrite getp_put_same by exact L. cbn. auto.
  - destruct D1 as [D1 _]. unfold lk_lock. rewrite NH, D1, TB. cbn [negb os_setlk].
    eexists. split; [reflexivity|]. rewrite getp_put_same by exact L. cbn. auto.
Qed.

(* ---------- the list of holders ---------- *)

Lemma holders_from_spec : forall l i x, In x (holders_from i l) ->
  i <= x /\ x - i < length l /\ believes (nth (x - i) l dflt) = true.
Proof.
  induction l as [|q t IH]; intros i x H; cbn in H; [contradiction|].
  destruct (believes q) eqn:B.
  - destruct H as [<-|H].
    + rewrite Nat.sub_diag. cbn. repeat split; auto; lia.
    + apply IH in H. destruct H as (H1 & H2 & H3).
      replace (x - i) with (S (x - S i)) by lia. cbn. repeat split; auto; lia.
  - apply IH in H. destruct H as (H1 & H2 & H3).
    replace (x - i) with (S (x - S i)) by lia. cbn. repeat split; auto; lia.
Qed.

Lemma holders_from_NoDup : forall l i, NoDup (holders_from i l).
Proof.
  induction l as [|q t IH]; intros i; cbn; [constructor|].
  destruct (believes q); [|apply IH].
  constructor; [|apply IH]. intros H. apply holders_from_spec in H. lia.
Qed.

Lemma holders_at_most_one : forall s, inv s -> length (holders s) <= 1.
Proof.
  intros s I. unfold holders.
  pose proof (holders_from_NoDup (procs s) 0) as ND.
  destruct (holders_from 0 (procs s)) as [|x [|y r]] eqn:E; cbn; try lia.
  exfalso.
  assert (Hx : In x (holders_from 0 (procs s))) by (rewrite E; left; auto).
  assert (Hy : In y (holders_from 0 (procs s))) by (rewrite E; right; left; auto).
  apply holders_from_spec in Hx. apply holders_from_spec in Hy.
  rewrite Nat.sub_0_r in *. destruct Hx as (_ & Lx & Bx). destruct Hy as (_ & Ly & By).
  assert (x = y) by (eapply inv_mutex; eauto).
  subst. inversion ND; subst. apply H1. left. reflexivity.
Qed.

(* ---------- the checker's lists ---------- *)

Lemma memb_cons : forall x y l, memb x (y :: l) = Nat.eqb x y || memb x l.
Proof. reflexivity. Qed.

Lemma memb_delb_other : forall r p m, r <> p -> memb r (delb p m) = memb r m.
Proof.
  intros r p m NE. unfold memb, delb. induction m as [|y m IH]; cbn; auto.
  destruct (Nat.eqb_spec p y) as [->|N]; cbn.
  - destruct (Nat.eqb_spec r y); [congruence|]. exact IH.
  - rewrite IH. reflexivity.
Qed.

Lemma others_cons : forall q p m, others q (p :: m) = negb (Nat.eqb q p) || others q m.
Proof. reflexivity. Qed.

Lemma others_mem : forall q r m, memb r m = true -> r <> q -> others q m = true.
Proof.
  intros q r m H NE. unfold memb, others in *. apply existsb_exists in H.
  destruct H as (y & Y1 & Y2). apply Nat.eqb_eq in Y2. subst y.
  apply existsb_exists. exists r. split; auto.
  destruct (Nat.eqb_spec q r); [congruence|reflexivity].
Qed.

Lemma others_delb : forall q p m, others q (delb p m) = true -> others q m = true.
Proof.
  intros q p m H. unfold others, delb in *. apply existsb_exists in H.
  destruct H as (y & Y1 & Y2). apply filter_In in Y1. destruct Y1 as [Y1 _].
  apply existsb_exists. exists y. auto.
Qed.

Lemma pend_get_del_other : forall q p l, q <> p -> pend_get q (pend_del p l) = pend_get q l.
Proof.
  intros q p l NE. unfold pend_del. induction l as [|[y b] l IH]; cbn; auto.
  destruct (Nat.eqb_spec p y) as [->|N]; cbn.
  - destruct (Nat.eqb_spec q y); [congruence|]. exact IH.
  - rewrite IH. reflexivity.
Qed.

Lemma pend_get_mark : forall q l,
  pend_get q (pend_mark l) = match pend_get q l with Some _ => Some true | None => None end.
Proof.
  intros q l. unfold pend_mark. induction l as [|[y b] l IH]; cbn; auto.
  destruct (Nat.eqb q y); auto.
Qed.

Lemma clear_cur_some : forall c p r, clear_cur c p = Some r -> c = Some r /\ r <> p.
Proof.
  intros [y|] p r H; cbn in H; try discriminate.
  destruct (Nat.eqb_spec p y); try discriminate. inversion H; subst. auto.
Qed.

Lemma krun_snoc : forall l k x,
  krun k (l ++ [x]) = match krun k l with Some k1 => kstep k1 x | None => None end.
Proof.
  induction l as [|y l IH]; intros k x; cbn.
  - destruct (kstep k x); auto.
  - destruct (kstep k y); auto.
Qed.

Lemma rrun_snoc : forall l s x,
  rrun s (l ++ [x]) = match rrun s l with Some s1 => rstep s1 x | None => None end.
Proof.
  induction l as [|y l IH]; intros s x; cbn.
  - destruct (rstep s x); auto.
  - destruct (rstep s y); auto.
Qed.

(* ---------- every run's witness log passes the checker and the replay ---------- *)

(* the replay's view of a process *)
Definition rview (q : pst) (c : pc) : Prop :=
  match p_pc q with
  | Idle => c = Idle
  | Trying | Got | Failed _ => c = Trying
  | Holding => c = Holding
  | Releasing | Released => c = Releasing
  | Dead => True
  end.

Definition sim (s : sys) (k : kst) (rs : rst) : Prop :=
  let n := length (procs s) in
  (forall p, k_cur k = Some p ->
     p < n /\ p_pc (getp s p) = Holding /\ p_kcall (getp s p) = false)
  /\ (forall p, p < n ->
        match p_pc (getp s p) with
        | Trying | Got | Holding | Releasing => memb p (k_maybe k) = true
        | _ => True
        end)
  /\ (forall q, q < n -> p_pc (getp s q) = Trying ->
        exists b, pend_get q (k_pend k) = Some b /\ (others q (k_maybe k) = true -> b = true))
  /\ (forall q e, q < n -> p_pc (getp s q) = Failed e ->
        e = EAgain /\ pend_get q (k_pend k) = Some true)
  /\ (forall p, p < n -> memb p (k_killed k) = p_kcall (getp s p))
  /\ length rs = n
  /\ (forall p, p < n ->
        exists c, nth_error rs p = Some (p_kind (getp s p), c, p_kcall (getp s p), p_dlog (getp s p))
                  /\ rview (getp s p) c
                  /\ (p_dlog (getp s p) = true -> p_pc (getp s p) = Dead)
                  /\ (p_pc (getp s p) = Dead -> p_kcall (getp s p) = true)).

Lemma nth_error_upd_same : forall A (l : list A) i x, i < length l -> nth_error (upd l i x) i = Some x.
Proof.
  induction l as [|h t IH]; intros [|i] x H; cbn in *; try lia; auto. apply IH. lia.
Qed.

Lemma nth_error_upd_other : forall A (l : list A) i j x, i <> j -> nth_error (upd l i x) j = nth_error l j.
Proof.
  induction l as [|h t IH]; intros [|i] [|j] x H; cbn; auto; try congruence.
Qed.

Lemma sim0 : forall ks, sim (sys0 ks) kst0 (rst0 ks).
Proof.
  intros ks. unfold sim. cbn [procs sys0]. rewrite map_length.
  assert (G : forall p, p < length ks -> p_pc (getp (sys0 ks) p) = Idle
               /\ p_kcall (getp (sys0 ks) p) = false /\ p_dlog (getp (sys0 ks) p) = false
               /\ p_kind (getp (sys0 ks) p) = nth p ks KDaemon).
  { intros p L. rewrite getp_sys0 by exact L. destruct (nth p ks KDaemon); cbn; auto. }
  split; [cbn; discriminate|].
  split; [intros p L; destruct (G p L) as (E & _); rewrite E; exact I|].
  split; [intros q L E; destruct (G q L) as (E' & _); congruence|].
  split; [intros q e L E; destruct (G q L) as (E' & _); congruence|].
  split; [intros p L; destruct (G p L) as (_ & E & _); rewrite E; reflexivity|].
  split; [unfold rst0; apply map_length|].
  intros p L. destruct (G p L) as (E1 & E2 & E3 & E4). exists Idle.
  rewrite E2, E3, E4. unfold rview. rewrite E1. repeat split; try discriminate.
  unfold rst0. rewrite nth_error_map.
  rewrite (nth_error_nth' ks KDaemon L). reflexivity.
Qed.

(* a step that writes no record: only process p's state moves *)
Lemma sim_effect : forall s k rs p q' t',
  sim s k rs -> p < length (procs s) ->
  p_kind q' = p_kind (getp s p) -> p_kcall q' = p_kcall (getp s p) ->
  p_dlog q' = p_dlog (getp s p) ->
  (p_pc (getp s p) <> Holding \/ p_kcall (getp s p) = true) ->
  match p_pc q' with
  | Got => p_pc (getp s p) = Trying
  | Failed e => p_pc (getp s p) = Trying /\ e = EAgain /\ pend_get p (k_pend k) = Some true
  | Released => p_pc (getp s p) = Releasing
  | Dead => p_kcall (getp s p) = true /\ p_dlog (getp s p) = false
  | _ => False
  end ->
  sim (put s p q' t' (wl s)) k rs.
Proof.
  intros s k rs p q' t' (Sa & Sb & Sc & Sd & Se & Sf & Sg) L EK EC ED NH TR.
  unfold sim. rewrite put_length. repeat split.
  - destruct (Sa _ H) as (H1 & _). exact H1.
  - destruct (Sa _ H) as (H1 & H2 & H3).
    destruct (Nat.eq_dec p p0) as [<-|NE]; [destruct NH; congruence|].
    rewrite getp_put_other by exact NE. exact H2.
  - destruct (Sa _ H) as (H1 & H2 & H3).
    destruct (Nat.eq_dec p p0) as [<-|NE]; [destruct NH; congruence|].
    rewrite getp_put_other by exact NE. exact H3.
  - intros r Lr. destruct (Nat.eq_dec p r) as [<-|NE].
    + rewrite getp_put_same by exact L. specialize (Sb p L).
      destruct (p_pc q'); auto; try contradiction.
      rewrite TR in Sb. exact Sb.
    + rewrite getp_put_other by exact NE. apply Sb. exact Lr.
  - intros q Lq PC. destruct (Nat.eq_dec p q) as [<-|NE].
    + rewrite getp_put_same in PC by exact L. rewrite PC in TR. contradiction.
    + rewrite getp_put_other in PC by exact NE. apply Sc; auto.
  - destruct (Nat.eq_dec p q) as [<-|NE].
    + rewrite getp_put_same in H0 by exact L. rewrite H0 in TR. apply TR.
    + rewrite getp_put_other in H0 by exact NE. eapply Sd; eauto.
  - destruct (Nat.eq_dec p q) as [<-|NE].
    + rewrite getp_put_same in H0 by exact L. rewrite H0 in TR. apply TR.
    + rewrite getp_put_other in H0 by exact NE. eapply Sd; eauto.
  - intros r Lr. destruct (Nat.eq_dec p r) as [<-|NE].
    + rewrite getp_put_same by exact L. rewrite EC. apply Se. exact L.
    + rewrite getp_put_other by exact NE. apply Se. exact Lr.
  - exact Sf.
  - intros r Lr. destruct (Nat.eq_dec p r) as [<-|NE].
    + rewrite getp_put_same by exact L. destruct (Sg p L) as (c & G1 & G2 & G3 & G4).
      exists c. rewrite EK, EC, ED. split; [exact G1|]. unfold rview in *.
      destruct (p_pc q') eqn:PQ; try contradiction.
      * rewrite TR in G2. repeat split; auto; try discriminate.
        intros X. apply G3 in X. congruence.
      * destruct TR as (TR & _). rewrite TR in G2. repeat split; auto; try discriminate.
        intros X. apply G3 in X. congruence.
      * rewrite TR in G2. repeat split; auto; try discriminate.
        intros X. apply G3 in X. congruence.
      * destruct TR as (T1 & T2). repeat split; auto.
    + rewrite getp_put_other by exact NE. apply Sg. exact Lr.
Qed.

(* a step that writes a record: process p's state, the checker state and p's
   replay entry move together *)
Lemma sim_update : forall s k rs p q' t' w k' c',
  sim s k rs -> p < length (procs s) ->
  (forall r, k_cur k' = Some r ->
     (r = p /\ p_pc q' = Holding /\ p_kcall q' = false) \/ (r <> p /\ k_cur k = Some r)) ->
  match p_pc q' with
  | Trying | Got | Holding | Releasing => memb p (k_maybe k') = true
  | _ => True
  end ->
  (forall r, r <> p -> memb r (k_maybe k) = true -> memb r (k_maybe k') = true) ->
  (p_pc q' = Trying ->
     exists b, pend_get p (k_pend k') = Some b /\ (others p (k_maybe k') = true -> b = true)) ->
  (forall q b, q <> p -> pend_get q (k_pend k) = Some b ->
     (others q (k_maybe k) = true -> b = true) ->
     exists b', pend_get q (k_pend k') = Some b' /\ (others q (k_maybe k') = true -> b' = true)) ->
  (forall e, p_pc q' = Failed e -> e = EAgain /\ pend_get p (k_pend k') = Some true) ->
  (forall q, q <> p -> pend_get q (k_pend k) = Some true -> pend_get q (k_pend k') = Some true) ->
  memb p (k_killed k') = p_kcall q' ->
  (forall r, r <> p -> memb r (k_killed k') = memb r (k_killed k)) ->
  p_kind q' = p_kind (getp s p) ->
  rview q' c' ->
  (p_dlog q' = true -> p_pc q' = Dead) ->
  (p_pc q' = Dead -> p_kcall q' = true) ->
  sim (put s p q' t' w) k' (upd rs p (p_kind q', c', p_kcall q', p_dlog q')).
Proof.
  intros s k rs p q' t' w k' c' (Sa & Sb & Sc & Sd & Se & Sf & Sg) L
         Ha Hb1 Hb2 Hc1 Hc2 Hd1 Hd2 He1 He2 Hk Hv Hg3 Hg4.
  unfold sim. rewrite put_length.
  split; [|split; [|split; [|split; [|split; [|split]]]]].
  - intros r Hr. destruct (Ha r Hr) as [(-> & P1 & P2)|(NE & Hc)].
    + rewrite getp_put_same by exact L. auto.
    + destruct (Sa r Hc) as (H1 & H2 & H3). rewrite getp_put_other by congruence. auto.
  - intros r Lr. destruct (Nat.eq_dec p r) as [<-|NE].
    + rewrite getp_put_same by exact L. exact Hb1.
    + rewrite getp_put_other by exact NE. specialize (Sb r Lr).
      destruct (p_pc (getp s r)); auto; apply Hb2; auto.
  - intros q Lq PC. destruct (Nat.eq_dec p q) as [<-|NE].
    + rewrite getp_put_same in PC by exact L. apply Hc1. exact PC.
    + rewrite getp_put_other in PC by exact NE.
      destruct (Sc q Lq PC) as (b & B1 & B2). eapply Hc2; eauto.
  - intros q e Lq PC. destruct (Nat.eq_dec p q) as [<-|NE].
    + rewrite getp_put_same in PC by exact L. apply Hd1. exact PC.
    + rewrite getp_put_other in PC by exact NE.
      destruct (Sd q e Lq PC) as (E1 & E2). split; auto.
  - intros r Lr. destruct (Nat.eq_dec p r) as [<-|NE].
    + rewrite getp_put_same by exact L. exact He1.
    + rewrite getp_put_other by exact NE. rewrite He2 by congruence. apply Se. exact Lr.
  - rewrite upd_length. exact Sf.
  - intros r Lr. destruct (Nat.eq_dec p r) as [<-|NE].
    + rewrite getp_put_same by exact L. exists c'.
      rewrite nth_error_upd_same by (rewrite Sf; exact L). auto.
    + rewrite getp_put_other by exact NE. rewrite nth_error_upd_other by exact NE.
      apply Sg. exact Lr.
Qed.

Lemma rstep_proc : forall rs p kd c kc r c',
  nth_error rs p = Some (kd, c, kc, false) ->
  rec_ok kd c r = Some c' ->
  match r with LKillCall | LDead => False | _ => True end ->
  rstep rs (p, r) = Some (upd rs p (kd, c', kc, false)).
Proof.
  intros rs p kd c kc r c' N R NK. unfold rstep. rewrite N.
  destruct r; try contradiction; rewrite R; reflexivity.
Qed.

Definition step_result (s s' : sys) (k : kst) (rs : rst) : Prop :=
  (wl s' = wl s /\ sim s' k rs)
  \/ (exists x k' rs', wl s' = x :: wl s /\ kstep k x = Some k' /\ rstep rs x = Some rs'
                       /\ sim s' k' rs').

Lemma step_sim_log : forall s p s' k rs, inv s -> sim s k rs ->
  step s (SLog p) = Some s' -> step_result s s' k rs.
Proof.
  intros s p s' k rs IV SM H. right.
  pose proof SM as (Sa & Sb & Sc & Sd & Se & Sf & Sg).
  cbn [step] in H. destruct (length (procs s) <=? p) eqn:LE; try discriminate.
  apply Nat.leb_gt in LE.
  destruct (Sg p LE) as (c & G1 & G2 & G3 & G4).
  assert (NCUR : p_pc (getp s p) <> Holding -> forall r, k_cur k = Some r -> r <> p).
  { intros NH r Hr. destruct (Sa r Hr) as (_ & X & _). congruence. }
  destruct (p_pc (getp s p)) eqn:PC; try discriminate; inversion H; subst; clear H.
  - (* Idle: "acquire call" *)
    assert (DL : p_dlog (getp s p) = false)
      by (destruct (p_dlog (getp s p)); auto; specialize (G3 eq_refl); discriminate).
    unfold rview in G2. rewrite PC in G2. subst c. rewrite DL in G1.
    eexists _, _, _. split; [reflexivity|]. split; [reflexivity|].
    split; [eapply rstep_proc; [exact G1|reflexivity|exact I]|].
    replace (p_kind (getp s p), Trying, p_kcall (getp s p), false)
      with (p_kind (set_pc (getp s p) Trying), Trying, p_kcall (set_pc (getp s p) Trying),
            p_dlog (set_pc (getp s p) Trying)) by (cbn; rewrite DL; reflexivity).
    apply (sim_update s k rs p _ _ _ _ _ SM LE); cbn [set_pc p_pc p_kcall p_dlog p_kind k_cur k_maybe k_pend k_killed].
    + intros r Hr. right. split; auto. apply NCUR; auto. discriminate.
    + rewrite memb_cons, Nat.eqb_refl. reflexivity.
    + intros r NE M. rewrite memb_cons, M. apply orb_true_r.
    + intros _. eexists. cbn [pend_get]. rewrite Nat.eqb_refl. split; [reflexivity|]. rewrite others_cons, Nat.eqb_refl. cbn [negb orb]. auto.
    + intros q b NE PG _. exists true. cbn [pend_get]. destruct (Nat.eqb_spec q p); [congruence|]. rewrite pend_get_mark, pend_get_del_other, PG by exact NE. auto.
    + discriminate.
    + intros q NE PG. cbn [pend_get]. destruct (Nat.eqb_spec q p); [congruence|]. rewrite pend_get_mark, pend_get_del_other, PG by exact NE. auto.
    + apply Se. exact LE.
    + auto.
    + reflexivity.
    + reflexivity.
    + rewrite DL. discriminate.
    + discriminate.
  - (* Got: "acquire ok" *)
    assert (DL : p_dlog (getp s p) = false)
      by (destruct (p_dlog (getp s p)); auto; specialize (G3 eq_refl); discriminate).
    unfold rview in G2. rewrite PC in G2. subst c. rewrite DL in G1.
    assert (CN : k_cur k = None).
    { destruct (k_cur k) as [r|] eqn:CU; auto. exfalso.
      destruct (Sa r eq_refl) as (Lr & Pr & _).
      assert (r = p).
      { eapply inv_mutex; eauto; unfold believes; [rewrite Pr|rewrite PC]; reflexivity. }
      subst. congruence. }
    eexists _, _, _. split; [reflexivity|].
    split; [cbn [kstep]; rewrite CN; reflexivity|].
    split; [eapply rstep_proc; [exact G1|reflexivity|exact I]|].
    replace (p_kind (getp s p), Holding, p_kcall (getp s p), false)
      with (p_kind (set_pc (getp s p) Holding), Holding, p_kcall (set_pc (getp s p) Holding),
            p_dlog (set_pc (getp s p) Holding)) by (cbn; rewrite DL; reflexivity).
    apply (sim_update s k rs p _ _ _ _ _ SM LE); cbn [set_pc p_pc p_kcall p_dlog p_kind k_cur k_maybe k_pend k_killed].
    + intros r Hr. left. destruct (memb p (k_killed k)) eqn:MK; try discriminate. inversion Hr; subst. rewrite <- (Se r LE). auto.
    + specialize (Sb p LE). rewrite PC in Sb. exact Sb.
    + auto.
    + discriminate.
    + intros q b NE PG OT. exists b. rewrite pend_get_del_other by exact NE. auto.
    + discriminate.
    + intros q NE PG. rewrite pend_get_del_other by exact NE. exact PG.
    + apply Se. exact LE.
    + auto.
    + reflexivity.
    + reflexivity.
    + rewrite DL. discriminate.
    + discriminate.
  - (* Failed: "acquire failed" *)
    assert (DL : p_dlog (getp s p) = false)
      by (destruct (p_dlog (getp s p)); auto; specialize (G3 eq_refl); discriminate).
    unfold rview in G2. rewrite PC in G2. subst c. rewrite DL in G1.
    destruct (Sd p e LE PC) as (-> & PG).
    eexists _, _, _. split; [reflexivity|].
    split; [cbn [kstep lerr_is_again]; rewrite PG; reflexivity|].
    split; [eapply rstep_proc; [exact G1|reflexivity|exact I]|].
    replace (p_kind (getp s p), Idle, p_kcall (getp s p), false)
      with (p_kind (set_pc (getp s p) Idle), Idle, p_kcall (set_pc (getp s p) Idle),
            p_dlog (set_pc (getp s p) Idle)) by (cbn; rewrite DL; reflexivity).
    apply (sim_update s k rs p _ _ _ _ _ SM LE); cbn [set_pc p_pc p_kcall p_dlog p_kind k_cur k_maybe k_pend k_killed].
    + intros r Hr. right. split; auto. apply NCUR; auto. discriminate.
    + exact I.
    + intros r NE M. rewrite memb_delb_other by exact NE. exact M.
    + discriminate.
    + intros q b NE PG' OT. exists b. rewrite pend_get_del_other by exact NE. split; auto. intros X. apply OT. eapply others_delb; eauto.
    + discriminate.
    + intros q NE PG'. rewrite pend_get_del_other by exact NE. exact PG'.
    + apply Se. exact LE.
    + auto.
    + reflexivity.
    + reflexivity.
    + rewrite DL. discriminate.
    + discriminate.
  - (* Holding: "release call" *)
    assert (DL : p_dlog (getp s p) = false)
      by (destruct (p_dlog (getp s p)); auto; specialize (G3 eq_refl); discriminate).
    unfold rview in G2. rewrite PC in G2. subst c. rewrite DL in G1.
    eexists _, _, _. split; [reflexivity|]. split; [reflexivity|].
    split; [eapply rstep_proc; [exact G1|reflexivity|exact I]|].
    replace (p_kind (getp s p), Releasing, p_kcall (getp s p), false)
      with (p_kind (set_pc (getp s p) Releasing), Releasing, p_kcall (set_pc (getp s p) Releasing),
            p_dlog (set_pc (getp s p) Releasing)) by (cbn; rewrite DL; reflexivity).
    apply (sim_update s k rs p _ _ _ _ _ SM LE); cbn [set_pc p_pc p_kcall p_dlog p_kind k_cur k_maybe k_pend k_killed].
    + intros r Hr. right. apply clear_cur_some in Hr. destruct Hr; auto.
    + specialize (Sb p LE). rewrite PC in Sb. exact Sb.
    + auto.
    + discriminate.
    + intros q b NE PG OT. exists b. auto.
    + discriminate.
    + auto.
    + apply Se. exact LE.
    + auto.
    + reflexivity.
    + reflexivity.
    + rewrite DL. discriminate.
    + discriminate.
  - (* Released: "release ret" *)
    assert (DL : p_dlog (getp s p) = false)
      by (destruct (p_dlog (getp s p)); auto; specialize (G3 eq_refl); discriminate).
    unfold rview in G2. rewrite PC in G2. subst c. rewrite DL in G1.
    assert (NF : Nat.eqb (p_nfd (getp s p))
                   (match p_kind (getp s p) with KDaemon => 0 | KLocker => 1 end) = true).
    { destruct IV as [IV _]. destruct (IV p LE) as (_ & _ & _ & D).
      assert (X : p_pc (getp s p) <> Dead) by (rewrite PC; discriminate).
      specialize (D X). unfold believes in D. rewrite PC in D.
      destruct (p_kind (getp s p)); destruct D as [D1 D2]; rewrite ?D1, ?D2; reflexivity. }
    eexists _, _, _. split; [reflexivity|]. split; [reflexivity|].
    split; [eapply rstep_proc; [exact G1|cbn [rec_ok]; rewrite NF; reflexivity|exact I]|].
    replace (p_kind (getp s p), Idle, p_kcall (getp s p), false)
      with (p_kind (set_pc (getp s p) Idle), Idle, p_kcall (set_pc (getp s p) Idle),
            p_dlog (set_pc (getp s p) Idle)) by (cbn; rewrite DL; reflexivity).
    apply (sim_update s k rs p _ _ _ _ _ SM LE); cbn [set_pc p_pc p_kcall p_dlog p_kind k_cur k_maybe k_pend k_killed].
    + intros r Hr. right. split; auto. apply NCUR; auto. discriminate.
    + exact I.
    + intros r NE M. rewrite memb_delb_other by exact NE. exact M.
    + discriminate.
    + intros q b NE PG' OT. exists b. split; auto. intros X. apply OT. eapply others_delb; eauto.
    + discriminate.
    + auto.
    + apply Se. exact LE.
    + auto.
    + reflexivity.
    + reflexivity.
    + rewrite DL. discriminate.
    + discriminate.
Qed.

(* a refused attempt: somebody else has the lock, so the attempt is justified *)
Lemma refusal_justified : forall s k rs p r, inv s -> sim s k rs ->
  p < length (procs s) -> p_pc (getp s p) = Trying -> tbl s = Some r -> r <> p ->
  pend_get p (k_pend k) = Some true.
Proof.
  intros s k rs p r IV (Sa & Sb & Sc & _) L PC TB NE.
  destruct (inv_table_holder _ _ IV TB) as (Lr & Br).
  assert (M : memb r (k_maybe k) = true).
  { specialize (Sb r Lr). unfold believes in Br.
    destruct (p_pc (getp s r)); try discriminate; exact Sb. }
  destruct (Sc p L PC) as (b & B1 & B2).
  rewrite B1. f_equal. apply B2. eapply others_mem; eauto.
Qed.

Lemma step_sim_eff : forall s p s' k rs, inv s -> sim s k rs ->
  step s (SEff p) = Some s' -> step_result s s' k rs.
Proof.
  intros s p s' k rs IV SM H. left.
  cbn [step] in H. destruct (length (procs s) <=? p) eqn:LE; try discriminate.
  apply Nat.leb_gt in LE.
  pose proof IV as [I T]. destruct (I p LE) as (A & B & C & D).
  destruct (p_pc (getp s p)) eqn:PC; try discriminate.
  - (* Trying *)
    assert (NB : believes (getp s p) = false) by (unfold believes; rewrite PC; auto).
    assert (NT : tbl s <> Some p) by (apply B; auto).
    assert (NH : l_held (p_lk (getp s p)) = false) by (apply C; auto; try rewrite PC; discriminate).
    assert (D1 : match p_kind (getp s p) with
                 | KLocker => l_open (p_lk (getp s p)) = true /\ p_nfd (getp s p) = 1
                 | KDaemon => if believes (getp s p) then p_nfd (getp s p) = 1
                              else (p_nfd (getp s p) = 0 /\ l_open (p_lk (getp s p)) = false)
                 end) by (apply D; try rewrite PC; discriminate).
    destruct (p_kind (getp s p)) eqn:KD.
    + unfold acquire_lock, lk_lock in H. cbn [lk_new l_held l_open negb] in H.
      destruct (tbl s) as [r|] eqn:TB; cbn [os_setlk] in H.
      * destruct (Nat.eqb_spec p r) as [->|NE]; [congruence|].
        cbn in H. inversion H; subst; clear H. split; [reflexivity|].
        apply (sim_effect s k rs p _ _ SM LE);
          [cbn; congruence|reflexivity|reflexivity|left; rewrite PC; discriminate|].
        cbn [set_pc p_pc]. split; [exact PC|]. split; [reflexivity|].
        eapply refusal_justified; eauto.
      * inversion H; subst; clear H. split; [reflexivity|].
        apply (sim_effect s k rs p _ _ SM LE);
          [cbn; congruence|reflexivity|reflexivity|left; rewrite PC; discriminate|].
        cbn [p_pc]. exact PC.
    + destruct D1 as [D1 D2]. unfold lk_lock in H. rewrite NH, D1 in H. cbn [negb] in H.
      destruct (tbl s) as [r|] eqn:TB; cbn [os_setlk] in H.
      * destruct (Nat.eqb_spec p r) as [->|NE]; [congruence|].
        inversion H; subst; clear H. split; [reflexivity|].
        apply (sim_effect s k rs p _ _ SM LE);
          [cbn; congruence|reflexivity|reflexivity|left; rewrite PC; discriminate|].
        cbn [p_pc]. split; [exact PC|]. split; [reflexivity|].
        eapply refusal_justified; eauto.
      * inversion H; subst; clear H. split; [reflexivity|].
        apply (sim_effect s k rs p _ _ SM LE);
          [cbn; congruence|reflexivity|reflexivity|left; rewrite PC; discriminate|].
        cbn [p_pc]. exact PC.
  - (* Releasing *)
    destruct (p_kind (getp s p)) eqn:KD.
    + destruct (release_lock (tbl s) p (p_lk (getp s p))) as [[t' l'] e].
      inversion H; subst; clear H. split; [reflexivity|].
      apply (sim_effect s k rs p _ _ SM LE);
        [cbn; congruence|reflexivity|reflexivity|left; rewrite PC; discriminate|].
      cbn [p_pc]. exact PC.
    + destruct (lk_unlock (tbl s) p (p_lk (getp s p))) as [[t' l'] e].
      inversion H; subst; clear H. split; [reflexivity|].
      apply (sim_effect s k rs p _ _ SM LE);
        [cbn; congruence|reflexivity|reflexivity|left; rewrite PC; discriminate|].
      cbn [p_pc]. exact PC.
Qed.

Lemma step_sim_kill : forall s p s' k rs, inv s -> sim s k rs ->
  step s (SKill p) = Some s' -> step_result s s' k rs.
Proof.
  intros s p s' k rs IV SM H. left.
  cbn [step] in H. destruct (length (procs s) <=? p) eqn:LE; try discriminate.
  apply Nat.leb_gt in LE.
  destruct (p_kcall (getp s p)) eqn:KC; try discriminate.
  pose proof SM as (_ & _ & _ & _ & _ & _ & Sg).
  destruct (Sg p LE) as (c & _ & _ & G3 & _).
  assert (ND : p_pc (getp s p) <> Dead) by (destruct (p_pc (getp s p)); try discriminate; congruence).
  assert (DL : p_dlog (getp s p) = false)
    by (destruct (p_dlog (getp s p)); auto; specialize (G3 eq_refl); congruence).
  assert (X : s' = put s p (set_pc (getp s p) Dead) (os_drop (tbl s) p) (wl s)).
  { destruct (p_pc (getp s p)); try discriminate; inversion H; reflexivity. }
  subst s'. split; [reflexivity|].
  apply (sim_effect s k rs p _ _ SM LE);
    [reflexivity|reflexivity|reflexivity|right; exact KC|].
  cbn [set_pc p_pc]. auto.
Qed.

Lemma step_sim_killcall : forall s p s' k rs, inv s -> sim s k rs ->
  step s (SKillCall p) = Some s' -> step_result s s' k rs.
Proof.
  intros s p s' k rs IV SM H. right.
  pose proof SM as (Sa & Sb & Sc & Sd & Se & Sf & Sg).
  cbn [step] in H. destruct (length (procs s) <=? p) eqn:LE; try discriminate.
  apply Nat.leb_gt in LE.
  destruct (p_kcall (getp s p)) eqn:KC; try discriminate. inversion H; subst; clear H.
  destruct (Sg p LE) as (c & G1 & G2 & G3 & G4). rewrite KC in G1.
  eexists _, _, _. split; [reflexivity|]. split; [reflexivity|].
  split; [unfold rstep; rewrite G1; reflexivity|].
  match goal with |- sim (put s p ?q _ _) _ _ =>
    replace (p_kind (getp s p), c, true, p_dlog (getp s p))
      with (p_kind q, c, p_kcall q, p_dlog q) by reflexivity end.
  apply (sim_update s k rs p _ _ _ _ _ SM LE);
    cbn [p_pc p_kcall p_dlog p_kind k_cur k_maybe k_pend k_killed].
  - intros r Hr. right. apply clear_cur_some in Hr. destruct Hr; auto.
  - specialize (Sb p LE). exact Sb.
  - auto.
  - intros PC. apply Sc; auto.
  - intros q b NE PG OT. exists b. auto.
  - intros e PC. eapply Sd; eauto.
  - auto.
  - rewrite memb_cons, Nat.eqb_refl. reflexivity.
  - intros r NE. rewrite memb_cons. destruct (Nat.eqb_spec r p); [congruence|]. reflexivity.
  - reflexivity.
  - exact G2.
  - exact G3.
  - auto.
Qed.

Lemma step_sim_deadlog : forall s p s' k rs, inv s -> sim s k rs ->
  step s (SDeadLog p) = Some s' -> step_result s s' k rs.
Proof.
  intros s p s' k rs IV SM H. right.
  pose proof SM as (Sa & Sb & Sc & Sd & Se & Sf & Sg).
  cbn [step] in H. destruct (length (procs s) <=? p) eqn:LE; try discriminate.
  apply Nat.leb_gt in LE.
  destruct (p_pc (getp s p)) eqn:PC; try discriminate.
  destruct (p_dlog (getp s p)) eqn:DL; try discriminate. inversion H; subst; clear H.
  destruct (Sg p LE) as (c & G1 & G2 & G3 & G4).
  assert (KC : p_kcall (getp s p) = true) by (apply G4; exact PC).
  rewrite KC, DL in G1.
  eexists _, _, _. split; [reflexivity|]. split; [reflexivity|].
  split; [unfold rstep; rewrite G1; reflexivity|].
  match goal with |- sim (put s p ?q _ _) _ _ =>
    replace (p_kind (getp s p), Dead, true, true)
      with (p_kind q, Dead, p_kcall q, p_dlog q) by (cbn; rewrite KC; reflexivity) end.
  apply (sim_update s k rs p _ _ _ _ _ SM LE);
    cbn [p_pc p_kcall p_dlog p_kind k_cur k_maybe k_pend k_killed].
  - intros r Hr. right. split; auto. intros ->. destruct (Sa p Hr) as (_ & X & _). congruence.
  - exact I.
  - intros r NE M. rewrite memb_delb_other by exact NE. exact M.
  - discriminate.
  - intros q b NE PG OT. exists b. rewrite pend_get_del_other by exact NE. split; auto.
    intros X. apply OT. eapply others_delb; eauto.
  - discriminate.
  - intros q NE PG. rewrite pend_get_del_other by exact NE. exact PG.
  - apply Se. exact LE.
  - auto.
  - reflexivity.
  - exact I.
  - auto.
  - auto.
Qed.

Lemma step_sim : forall s a s' k rs, inv s -> sim s k rs ->
  step s a = Some s' -> step_result s s' k rs.
Proof.
  intros s [p|p|p|p|p] s' k rs IV SM H.
  - eapply step_sim_log; eauto.
  - eapply step_sim_eff; eauto.
  - eapply step_sim_killcall; eauto.
  - eapply step_sim_kill; eauto.
  - eapply step_sim_deadlog; eauto.
Qed.

(* every schedule: the witness log (oldest first) passes the checker and the
   replay *)
Lemma run_sim_gen : forall sched s s' k rs l0 ks,
  inv s -> sim s k rs ->
  krun kst0 l0 = Some k -> rrun (rst0 ks) l0 = Some rs -> wl s = rev l0 ->
  run s sched = Some s' ->
  exists k' rs', krun kst0 (rev (wl s')) = Some k' /\ rrun (rst0 ks) (rev (wl s')) = Some rs'
                 /\ sim s' k' rs' /\ inv s'.
Proof.
  induction sched as [|a t IH]; intros s s' k rs l0 ks IV SM K R W H; cbn in H.
  - inversion H; subst. exists k, rs. rewrite W, rev_involutive. auto.
  - destruct (step s a) as [s1|] eqn:E; try discriminate.
    pose proof (step_inv _ _ _ IV E) as IV1.
    destruct (step_sim _ _ _ _ _ IV SM E) as [(W1 & S1)|(x & k1 & rs1 & W1 & K1 & R1 & S1)].
    + eapply (IH s1 s' k rs l0); eauto. rewrite W1. exact W.
    + eapply (IH s1 s' k1 rs1 (l0 ++ [x])); eauto.
      * rewrite krun_snoc, K. exact K1.
      * rewrite rrun_snoc, R. exact R1.
      * rewrite W1, W, rev_app_distr. reflexivity.
Qed.

Lemma model_log_passes : forall ks sched s, run (sys0 ks) sched = Some s ->
  check_C28 (rev (wl s)) = true /\ replay_ok ks (rev (wl s)) = true.
Proof.
  intros ks sched s H.
  destruct (run_sim_gen sched (sys0 ks) s kst0 (rst0 ks) [] ks (inv0 ks) (sim0 ks)
              eq_refl eq_refl eq_refl H) as (k' & rs' & K & R & _).
  unfold check_C28, replay_ok. rewrite K, R. auto.
Qed.

(* ---------- what a passing log means ---------- *)

Definition is_rec (p : pid) (r : lrec) (x : pid * lrec) : bool :=
  Nat.eqb p (fst x) &&
  match r, snd x with
  | LAcqCall, LAcqCall | LAcqOk, LAcqOk | LRelCall, LRelCall | LKillCall, LKillCall
  | LDead, LDead => true
  | _, _ => false
  end.

(* p has begun to release, or its kill has begun *)
Definition gives_up (p : pid) (l : wlog) : bool :=
  existsb (fun x => is_rec p LRelCall x || is_rec p LKillCall x) l.

Lemma krun_app : forall a b k,
  krun k (a ++ b) = match krun k a with Some k1 => krun k1 b | None => None end.
Proof.
  induction a as [|x a IH]; intros b k; cbn; auto. destruct (kstep k x); auto.
Qed.

Lemma is_rec_kill : forall p q r,
  is_rec p LKillCall (q, r) = Nat.eqb p q && match r with LKillCall => true | _ => false end.
Proof. reflexivity. Qed.

Lemma kstep_killed : forall k q r k1, kstep k (q, r) = Some k1 ->
  k_killed k1 = match r with LKillCall => q :: k_killed k | _ => k_killed k end.
Proof.
  intros k q r k1 E. destruct r; cbn in E.
  - inversion E; reflexivity.
  - destruct (k_cur k); try discriminate. inversion E; reflexivity.
  - destruct (lerr_is_again e); try discriminate.
    destruct (pend_get q (k_pend k)) as [[|]|]; try discriminate. inversion E; reflexivity.
  - inversion E; reflexivity.
  - inversion E; reflexivity.
  - inversion E; reflexivity.
  - inversion E; reflexivity.
Qed.

Lemma krun_killed : forall l k k', krun k l = Some k' ->
  forall p, memb p (k_killed k') = memb p (k_killed k) || existsb (is_rec p LKillCall) l.
Proof.
  induction l as [|[q r] l IH]; intros k k' H p; cbn [krun] in H.
  - inversion H; subst. cbn. rewrite orb_false_r. reflexivity.
  - destruct (kstep k (q, r)) as [k1|] eqn:E; try discriminate.
    rewrite (IH _ _ H p). clear IH H. cbn [existsb]. rewrite is_rec_kill.
    rewrite (kstep_killed _ _ _ _ E).
    destruct r; rewrite ?andb_false_r, ?orb_false_l; try reflexivity.
    rewrite memb_cons, andb_true_r, orb_assoc. f_equal. apply orb_comm.
Qed.

Lemma krun_cur_kept : forall l k k' p, krun k l = Some k' ->
  k_cur k = Some p -> gives_up p l = false -> k_cur k' = Some p.
Proof.
  induction l as [|[q r] l IH]; intros k k' p H C G; cbn [krun] in H.
  - inversion H; subst. exact C.
  - destruct (kstep k (q, r)) as [k1|] eqn:E; try discriminate.
    unfold gives_up in G. cbn [existsb] in G. apply orb_false_iff in G. destruct G as [G1 G2].
    eapply IH; eauto. clear IH H G2.
    unfold is_rec in G1. cbn [fst snd] in G1.
    destruct r; cbn in E.
    + inversion E; subst. exact C.
    + rewrite C in E. discriminate.
    + destruct (lerr_is_again e); try discriminate.
      destruct (pend_get q (k_pend k)) as [[|]|]; try discriminate. inversion E; subst. exact C.
    + inversion E; subst. cbn. rewrite C. cbn.
      destruct (Nat.eqb_spec q p) as [->|NE]; auto.
      rewrite Nat.eqb_refl in G1. cbn in G1. discriminate.
    + inversion E; subst. exact C.
    + inversion E; subst. cbn. rewrite C. cbn.
      destruct (Nat.eqb_spec q p) as [->|NE]; auto.
      rewrite Nat.eqb_refl in G1. cbn in G1. rewrite ?orb_true_r in G1. discriminate.
    + inversion E; subst. exact C.
Qed.

(* Exclusion, read off a passing witness log: between two "acquired" records
   (of anyone) the first holder has written "release call" or its kill has
   been announced -- unless its kill had been announced before it even
   acquired.  And a refusal is always a contention refusal. *)
Lemma check_C28_sound : forall l, check_C28 l = true ->
  (forall l1 p l2 q l3,
     l = l1 ++ (p, LAcqOk) :: l2 ++ (q, LAcqOk) :: l3 ->
     existsb (is_rec p LKillCall) l1 = false ->
     gives_up p l2 = true)
  /\ (forall l1 q e l2, l = l1 ++ (q, LAcqFail e) :: l2 -> e = EAgain).
Proof.
  intros l H. unfold check_C28 in H.
  destruct (krun kst0 l) as [kf|] eqn:R; try discriminate. split.
  - intros l1 p l2 q l3 -> NK.
    rewrite krun_app in R. destruct (krun kst0 l1) as [k1|] eqn:R1; try discriminate.
    cbn [krun kstep] in R.
    destruct (k_cur k1) eqn:C1; try discriminate.
    assert (MK : memb p (k_killed k1) = false).
    { rewrite (krun_killed _ _ _ R1 p). cbn. exact NK. }
    rewrite MK in R.
    rewrite krun_app in R.
    match type of R with match krun ?k0 l2 with _ => _ end = _ =>
      destruct (krun k0 l2) as [k2|] eqn:R2; try discriminate;
      assert (CK : k_cur k0 = Some p) by reflexivity end.
    destruct (gives_up p l2) eqn:G; auto. exfalso.
    pose proof (krun_cur_kept _ _ _ _ R2 CK G) as C2.
    cbn [krun kstep] in R. rewrite C2 in R. discriminate.
  - intros l1 q e l2 ->.
    rewrite krun_app in R. destruct (krun kst0 l1) as [k1|] eqn:R1; try discriminate.
    cbn [krun kstep] in R. destruct e; cbn in R; try discriminate. reflexivity.
Qed.

(* Availability, read off a passing log: a refused attempt started with an
   "acquire call", and at that moment or later during the attempt some other
   process was between its own "acquire call" and its "failed" / "release
   ret" / "dead", i.e. might have had the lock.  An attempt made while nobody
   else is anywhere near the lock cannot be refused. *)
Fixpoint maybe_of (m : list pid) (l : wlog) : list pid :=
  match l with
  | [] => m
  | (p, LAcqCall) :: t => maybe_of (p :: m) t
  | (p, LAcqFail _) :: t | (p, LRelRet _) :: t | (p, LDead) :: t => maybe_of (delb p m) t
  | _ :: t => maybe_of m t
  end.

Lemma maybe_of_snoc : forall l m x,
  maybe_of m (l ++ [x]) = maybe_of (maybe_of m l) [x].
Proof.
  induction l as [|[p r] l IH]; intros m x; cbn [app maybe_of]; auto.
  destruct r; apply IH.
Qed.

Lemma kstep_maybe : forall k x k', kstep k x = Some k' -> k_maybe k' = maybe_of (k_maybe k) [x].
Proof.
  intros k [q r] k' E. destruct r; cbn in E; cbn [maybe_of].
  - inversion E; reflexivity.
  - destruct (k_cur k); try discriminate. inversion E; reflexivity.
  - destruct (lerr_is_again e); try discriminate.
    destruct (pend_get q (k_pend k)) as [[|]|]; try discriminate. inversion E; reflexivity.
  - inversion E; reflexivity.
  - inversion E; reflexivity.
  - inversion E; reflexivity.
  - inversion E; reflexivity.
Qed.

Lemma pend_get_del_same : forall p l, pend_get p (pend_del p l) = None.
Proof.
  intros p l. unfold pend_del. induction l as [|[y b] l IH]; cbn; auto.
  destruct (Nat.eqb_spec p y) as [->|N]; cbn; auto.
  destruct (Nat.eqb_spec p y); [congruence|]. exact IH.
Qed.

Definition justified (q : pid) (l : wlog) (b : bool) : Prop :=
  exists la lb, l = la ++ (q, LAcqCall) :: lb
    /\ (b = true -> others q (maybe_of [] la) = true
                    \/ exists p, p <> q /\ In (p, LAcqCall) lb).

Lemma justified_snoc : forall q l b x, justified q l b -> justified q (l ++ [x]) b.
Proof.
  intros q l b x (la & lb & E & J). exists la, (lb ++ [x]). split.
  - rewrite E, <- app_assoc. reflexivity.
  - intros B. destruct (J B) as [J1|(p & P1 & P2)]; auto.
    right. exists p. split; auto. apply in_or_app. auto.
Qed.

Lemma krun_pend_justified : forall l k, krun kst0 l = Some k ->
  k_maybe k = maybe_of [] l
  /\ forall q b, pend_get q (k_pend k) = Some b -> justified q l b.
Proof.
  induction l as [|x l IH] using rev_ind; intros k H.
  - inversion H; subst. cbn. split; auto. discriminate.
  - rewrite krun_snoc in H. destruct (krun kst0 l) as [k1|] eqn:R; try discriminate.
    destruct (IH k1 eq_refl) as (M1 & J1). clear IH. split.
    + rewrite (kstep_maybe _ _ _ H), M1, maybe_of_snoc. reflexivity.
    + intros q b PG. destruct x as [p r].
      assert (OLD : forall b0, q <> p -> pend_get q (k_pend k1) = Some b0 ->
                     justified q (l ++ [(p, r)]) b0)
        by (intros b0 _ X; apply justified_snoc; apply J1; exact X).
      destruct r; cbn in H.
      * (* acquire call *)
        inversion H; subst; clear H. cbn [k_pend pend_get] in PG.
        destruct (Nat.eqb_spec q p) as [->|NE].
        -- inversion PG; subst. exists l, []. split; auto.
           intros B. left. rewrite <- M1. exact B.
        -- rewrite pend_get_mark, pend_get_del_other in PG by exact NE.
           destruct (pend_get q (k_pend k1)) as [b0|] eqn:P0; try discriminate.
           destruct (J1 q b0 P0) as (la & lb & E & _).
           exists la, (lb ++ [(p, LAcqCall)]). split.
           ++ rewrite E, <- app_assoc. reflexivity.
           ++ intros _. right. exists p. split; auto. apply in_or_app. right. left. reflexivity.
      * destruct (k_cur k1); try discriminate. inversion H; subst; clear H. cbn [k_pend] in PG.
        destruct (Nat.eq_dec q p) as [->|NE]; [rewrite pend_get_del_same in PG; discriminate|].
        rewrite pend_get_del_other in PG by exact NE. eapply OLD; eauto.
      * destruct (lerr_is_again e); try discriminate.
        destruct (pend_get p (k_pend k1)) as [[|]|]; try discriminate.
        inversion H; subst; clear H. cbn [k_pend] in PG.
        destruct (Nat.eq_dec q p) as [->|NE]; [rewrite pend_get_del_same in PG; discriminate|].
        rewrite pend_get_del_other in PG by exact NE. eapply OLD; eauto.
      * inversion H; subst; clear H. cbn [k_pend] in PG.
        apply justified_snoc. apply J1. exact PG.
      * inversion H; subst; clear H. cbn [k_pend] in PG.
        apply justified_snoc. apply J1. exact PG.
      * inversion H; subst; clear H. cbn [k_pend] in PG.
        apply justified_snoc. apply J1. exact PG.
      * inversion H; subst; clear H. cbn [k_pend] in PG.
        destruct (Nat.eq_dec q p) as [->|NE]; [rewrite pend_get_del_same in PG; discriminate|].
        rewrite pend_get_del_other in PG by exact NE. eapply OLD; eauto.
Qed.

Lemma check_C28_refusals : forall l, check_C28 l = true ->
  forall l1 q e l2, l = l1 ++ (q, LAcqFail e) :: l2 ->
    exists la lb, l1 = la ++ (q, LAcqCall) :: lb
      /\ (others q (maybe_of [] la) = true \/ exists p, p <> q /\ In (p, LAcqCall) lb).
Proof.
  intros l H l1 q e l2 ->. unfold check_C28 in H.
  destruct (krun kst0 (l1 ++ (q, LAcqFail e) :: l2)) as [kf|] eqn:R; try discriminate.
  rewrite krun_app in R. destruct (krun kst0 l1) as [k1|] eqn:R1; try discriminate.
  cbn [krun kstep] in R. destruct (lerr_is_again e); try discriminate.
  destruct (pend_get q (k_pend k1)) as [[|]|] eqn:PG; try discriminate.
  destruct (krun_pend_justified _ _ R1) as (_ & J).
  destruct (J q true PG) as (la & lb & E & JJ). exists la, lb. split; auto.
Qed.

(* ---------- the statements in the form used by Props/C28.v ---------- *)

Lemma daemon_lock_mutex : forall ks sched s, run (sys0 ks) sched = Some s ->
  (forall p q, p < length (procs s) -> q < length (procs s) ->
     believes (getp s p) = true -> believes (getp s q) = true -> p = q)
  /\ length (holders s) <= 1
  /\ (forall p, tbl s = Some p -> p < length (procs s) /\ believes (getp s p) = true)
  /\ (forall p, p < length (procs s) -> believes (getp s p) = true -> tbl s = Some p).
Proof.
  intros ks sched s H. pose proof (run_inv _ _ _ (inv0 ks) H) as IV.
  split; [intros; eapply inv_mutex; eauto|].
  split; [apply holders_at_most_one; exact IV|].
  split; [intros; apply inv_table_holder; auto|].
  intros p L B. destruct IV as [I _]. destruct (I p L) as (A & _). apply A. exact B.
Qed.

Lemma daemon_lock_release : forall ks sched s, run (sys0 ks) sched = Some s ->
  (forall p s1, p < length (procs s) -> p_pc (getp s p) = Releasing ->
     step s (SEff p) = Some s1 -> tbl s1 = None /\ p_pc (getp s1 p) = Released)
  /\ (forall p s1, p < length (procs s) -> believes (getp s p) = true ->
        step s (SKill p) = Some s1 -> tbl s1 = None /\ p_pc (getp s1 p) = Dead)
  /\ (forall q, q < length (procs s) -> tbl s = None -> p_pc (getp s q) = Trying ->
        exists s1, step s (SEff q) = Some s1 /\ p_pc (getp s1 q) = Got /\ tbl s1 = Some q).
Proof.
  intros ks sched s H. pose proof (run_inv _ _ _ (inv0 ks) H) as IV.
  split; [intros; eapply release_frees; eauto|].
  split; [intros; eapply kill_frees; eauto|].
  intros; eapply free_acquire; eauto.
Qed.
