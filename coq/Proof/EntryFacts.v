(* Basic reusable facts about Model/Entry.v and Model/Reconcile.v, shared by
   every proof of the reconcile family (C01..C07).  Lemma names in this file
   are stable: lemmas are added, never renamed or removed. *)
From Coq Require Import List Bool Arith String Ascii Lia OrderedTypeEx.
Import ListNotations.
From Mv Require Import Model.Entry Model.Reconcile.

(* ================================================================== *)
(* 1. Strings: eqb / ltb / compare                                      *)
(* ================================================================== *)

Lemma str_eqb_eq : forall a b, String.eqb a b = true <-> a = b.
Proof. exact String.eqb_eq. Qed.

Lemma str_eqb_neq : forall a b, String.eqb a b = false <-> a <> b.
Proof. exact String.eqb_neq. Qed.

Lemma str_eqb_refl : forall a, String.eqb a a = true.
Proof. exact String.eqb_refl. Qed.

Lemma str_eqb_sym : forall a b, String.eqb a b = String.eqb b a.
Proof. exact String.eqb_sym. Qed.

Lemma str_ltb_lt : forall a b, String.ltb a b = true <-> String.compare a b = Lt.
Proof.
  intros a b. unfold String.ltb. destruct (String.compare a b); split; congruence.
Qed.

Lemma str_ltb_irrefl : forall a, String.ltb a a = false.
Proof.
  intro a. unfold String.ltb.
  assert (H : String.compare a a = Eq) by (apply String_as_OT.cmp_eq; reflexivity).
  unfold String_as_OT.cmp in H. rewrite H. reflexivity.
Qed.

Lemma str_ltb_trans : forall a b c,
  String.ltb a b = true -> String.ltb b c = true -> String.ltb a c = true.
Proof.
  intros a b c H1 H2. apply str_ltb_lt in H1. apply str_ltb_lt in H2. apply str_ltb_lt.
  apply (proj2 (String_as_OT.cmp_lt a c)).
  eapply String_as_OT.lt_trans; apply String_as_OT.cmp_lt; eassumption.
Qed.

Lemma str_ltb_neq : forall a b, String.ltb a b = true -> a <> b.
Proof. intros a b H ->. rewrite str_ltb_irrefl in H. discriminate. Qed.

Lemma str_ltb_eqb : forall a b, String.ltb a b = true -> String.eqb a b = false.
Proof. intros a b H. apply String.eqb_neq. apply str_ltb_neq. exact H. Qed.

Lemma str_ltb_asym : forall a b, String.ltb a b = true -> String.ltb b a = false.
Proof.
  intros a b H. destruct (String.ltb b a) eqn:E; [|reflexivity].
  pose proof (str_ltb_trans _ _ _ H E) as K. rewrite str_ltb_irrefl in K. discriminate.
Qed.

(* trichotomy *)
Lemma str_trichotomy : forall a b,
  {String.ltb a b = true} + {a = b} + {String.ltb b a = true}.
Proof.
  intros a b. destruct (String.compare a b) eqn:E.
  - left; right. apply String.compare_eq_iff. exact E.
  - left; left. apply str_ltb_lt. exact E.
  - right. apply str_ltb_lt. rewrite String.compare_antisym. rewrite E. reflexivity.
Qed.

Lemma str_ltb_total : forall a b,
  String.eqb a b = false -> String.ltb a b = false -> String.ltb b a = true.
Proof.
  intros a b He Hl. destruct (str_trichotomy a b) as [[H|H]|H].
  - congruence.
  - subst. rewrite String.eqb_refl in He. discriminate.
  - exact H.
Qed.

Lemma str_ltb_cases : forall a b,
  (String.ltb a b = true /\ String.eqb a b = false /\ String.ltb b a = false) \/
  (a = b) \/
  (String.ltb b a = true /\ String.eqb a b = false /\ String.ltb a b = false).
Proof.
  intros a b. destruct (str_trichotomy a b) as [[H|H]|H].
  - left. split; [exact H|]. split; [apply str_ltb_eqb; exact H | apply str_ltb_asym; exact H].
  - right; left; exact H.
  - right; right. split; [exact H|]. split.
    + rewrite String.eqb_sym. apply str_ltb_eqb; exact H.
    + apply str_ltb_asym; exact H.
Qed.

(* ================================================================== *)
(* 2. Generic list helpers                                             *)
(* ================================================================== *)

Lemma fold_left_ext_in : forall (A B : Type) (f g : A -> B -> A) (l : list B) (a : A),
  (forall acc x, In x l -> f acc x = g acc x) -> fold_left f l a = fold_left g l a.
Proof.
  intros A B f g l. induction l as [|x l IH]; intros a H; cbn [fold_left].
  - reflexivity.
  - rewrite (H a x (or_introl eq_refl)). apply IH. intros acc y Hy. apply H. right. exact Hy.
Qed.

Lemma flat_map_ext_in : forall (A B : Type) (f g : A -> list B) (l : list A),
  (forall x, In x l -> f x = g x) -> flat_map f l = flat_map g l.
Proof.
  intros A B f g l. induction l as [|x l IH]; intros H; cbn [flat_map].
  - reflexivity.
  - rewrite (H x (or_introl eq_refl)). f_equal. apply IH. intros y Hy. apply H. right. exact Hy.
Qed.

(* ================================================================== *)
(* 3. Nested induction principle for [entry]                           *)
(* ================================================================== *)

Section EntryInd.
  Variable P : entry -> Prop.
  Hypothesis Hdir : forall c, Forall (fun ne => P (snd ne)) c -> P (EDir c).
  Hypothesis Hfile : forall x d, P (EFile x d).
  Hypothesis Hlink : forall t, P (ELink t).
  Hypothesis Huntracked : P EUntracked.
  Hypothesis Hproblem : forall m, P (EProblem m).
  Hypothesis Hphantom : forall c, Forall (fun ne => P (snd ne)) c -> P (EPhantom c).

  Fixpoint entry_nested_ind (e : entry) : P e :=
    let go := fix go (l : list (name * entry)) : Forall (fun ne => P (snd ne)) l :=
      match l with
      | [] => Forall_nil _
      | ne :: t => @Forall_cons _ (fun ne => P (snd ne)) ne t (entry_nested_ind (snd ne)) (go t)
      end in
    match e with
    | EDir c => Hdir c (go c)
    | EFile x d => Hfile x d
    | ELink t => Hlink t
    | EUntracked => Huntracked
    | EProblem m => Hproblem m
    | EPhantom c => Hphantom c (go c)
    end.
End EntryInd.

(* ================================================================== *)
(* 4. Top-level names for the nested local fixpoints                   *)
(* ================================================================== *)

Definition wf_list (s : bool) (l : list (name * entry)) : bool :=
  forallb (fun ne => name_valid (fst ne) && wf_entry s (snd ne)) l.

Fixpoint sync_list (l : list (name * entry)) : list (name * entry) :=
  match l with
  | [] => []
  | (n, x) :: t => match sync_entry x with
                   | Some x' => (n, x') :: sync_list t
                   | None => sync_list t
                   end
  end.

Fixpoint count_list (l : list (name * entry)) : nat :=
  match l with
  | [] => 0
  | (_, x) :: t => count_entry x + count_list t
  end.

Fixpoint depth_list (l : list (name * entry)) : nat :=
  match l with
  | [] => 0
  | (_, x) :: t => Nat.max (depth_entry x) (depth_list t)
  end.

Fixpoint entries_eqb (x y : list (name * entry)) : bool :=
  match x, y with
  | [], [] => true
  | (n, e) :: x', (m, f) :: y' => String.eqb n m && entry_eqb e f && entries_eqb x' y'
  | _, _ => false
  end.

Lemma wf_entry_dir : forall s c,
  wf_entry s (EDir c) = wf_list s c && sorted_names (map fst c).
Proof.
  intros s c. cbn [wf_entry]. f_equal.
  induction c as [|[n x] t IH]; cbn [wf_list forallb fst snd]; [reflexivity|].
  rewrite IH. reflexivity.
Qed.

Lemma wf_entry_phantom : forall s c,
  wf_entry s (EPhantom c) = negb s && wf_list s c && sorted_names (map fst c).
Proof.
  intros s c. destruct s; [reflexivity|]. cbn [wf_entry negb andb]. f_equal.
  induction c as [|[n x] t IH]; cbn [wf_list forallb fst snd]; [reflexivity|].
  rewrite IH. reflexivity.
Qed.

Lemma sync_entry_dir : forall c, sync_entry (EDir c) = Some (EDir (sync_list c)).
Proof. intro c. reflexivity. Qed.

Lemma count_entry_dir : forall c, count_entry (EDir c) = S (count_list c).
Proof. intro c. reflexivity. Qed.

Lemma depth_entry_dir : forall c, depth_entry (EDir c) = S (depth_list c).
Proof. intro c. reflexivity. Qed.

Lemma depth_entry_phantom : forall c, depth_entry (EPhantom c) = S (depth_list c).
Proof. intro c. reflexivity. Qed.

Lemma entry_eqb_dir : forall c c', entry_eqb (EDir c) (EDir c') = entries_eqb c c'.
Proof. intros c c'. reflexivity. Qed.

Lemma entry_eqb_phantom : forall c c', entry_eqb (EPhantom c) (EPhantom c') = entries_eqb c c'.
Proof. intros c c'. reflexivity. Qed.

(* ================================================================== *)
(* 5. sorted_names                                                     *)
(* ================================================================== *)

Definition all_gt (n : name) (l : list name) : Prop := forall m, In m l -> String.ltb n m = true.

Lemma sorted_names_cons : forall a l,
  sorted_names (a :: l) = true <-> (all_gt a l /\ sorted_names l = true).
Proof.
  intros a l. revert a. induction l as [|b l IH]; intro a.
  - cbn. split; [intros _; split; [intros m []|reflexivity]|reflexivity].
  - change (sorted_names (a :: b :: l)) with (String.ltb a b && sorted_names (b :: l)).
    rewrite andb_true_iff. split.
    + intros [Hab Hs]. split; [|exact Hs].
      intros m [<-|Hm]; [exact Hab|].
      apply (str_ltb_trans a b m Hab). apply (proj1 (IH b) Hs). exact Hm.
    + intros [Hgt Hs]. split; [apply Hgt; left; reflexivity|exact Hs].
Qed.

Lemma sorted_names_tail : forall a l, sorted_names (a :: l) = true -> sorted_names l = true.
Proof. intros a l H. apply sorted_names_cons in H. apply H. Qed.

Lemma sorted_names_head_notin : forall a l, sorted_names (a :: l) = true -> ~ In a l.
Proof.
  intros a l H Hin. apply sorted_names_cons in H. destruct H as [Hgt _].
  specialize (Hgt a Hin). rewrite str_ltb_irrefl in Hgt. discriminate.
Qed.

Lemma sorted_names_NoDup : forall l, sorted_names l = true -> NoDup l.
Proof.
  induction l as [|a l IH]; intro H; constructor.
  - apply sorted_names_head_notin. exact H.
  - apply IH. eapply sorted_names_tail. exact H.
Qed.

(* two strictly sorted lists with the same members are equal *)
Lemma sorted_names_ext : forall l l',
  sorted_names l = true -> sorted_names l' = true ->
  (forall n, In n l <-> In n l') -> l = l'.
Proof.
  induction l as [|a l IH]; intros [|b l'] Hs Hs' Hin.
  - reflexivity.
  - exfalso. apply (proj2 (Hin b)). left. reflexivity.
  - exfalso. apply (proj1 (Hin a)). left. reflexivity.
  - pose proof (proj1 (sorted_names_cons _ _) Hs) as [Ga Sa].
    pose proof (proj1 (sorted_names_cons _ _) Hs') as [Gb Sb].
    assert (a = b) as ->.
    { destruct (proj1 (Hin a) (or_introl eq_refl)) as [E|Hal']; [congruence|].
      destruct (proj2 (Hin b) (or_introl eq_refl)) as [E|Hbl]; [congruence|].
      pose proof (Gb a Hal') as K1. pose proof (Ga b Hbl) as K2.
      rewrite (str_ltb_asym _ _ K1) in K2. discriminate. }
    f_equal. apply IH; [exact Sa|exact Sb|].
    intro n. split; intro Hn.
    + destruct (proj1 (Hin n) (or_intror Hn)) as [E|K]; [|exact K].
      subst n. exfalso. exact (sorted_names_head_notin _ _ Hs Hn).
    + destruct (proj2 (Hin n) (or_intror Hn)) as [E|K]; [|exact K].
      subst n. exfalso. exact (sorted_names_head_notin _ _ Hs' Hn).
Qed.

(* ================================================================== *)
(* 6. insert_name / name_union                                         *)
(* ================================================================== *)

Lemma insert_name_in : forall n l x, In x (insert_name n l) <-> x = n \/ In x l.
Proof.
  intros n l x. induction l as [|m t IH]; cbn [insert_name].
  - cbn. intuition.
  - destruct (String.eqb n m) eqn:E.
    + apply String.eqb_eq in E. subst m. cbn. intuition.
    + destruct (String.ltb n m); cbn [In]; [intuition|]. rewrite IH. intuition.
Qed.

Lemma insert_name_sorted : forall n l,
  sorted_names l = true -> sorted_names (insert_name n l) = true.
Proof.
  intros n l. induction l as [|m t IH]; intro Hs; cbn [insert_name].
  - reflexivity.
  - destruct (String.eqb n m) eqn:E; [exact Hs|].
    destruct (String.ltb n m) eqn:L.
    + change (String.ltb n m && sorted_names (m :: t) = true). rewrite L, Hs. reflexivity.
    + pose proof (str_ltb_total _ _ E L) as Hmn.
      apply sorted_names_cons in Hs. destruct Hs as [Hgt Hst].
      apply sorted_names_cons. split; [|apply IH; exact Hst].
      intros x Hx. apply insert_name_in in Hx. destruct Hx as [->|Hx]; [exact Hmn|apply Hgt; exact Hx].
Qed.

Lemma insert_name_present : forall n l,
  sorted_names l = true -> In n l -> insert_name n l = l.
Proof.
  intros n l. induction l as [|m t IH]; intros Hs Hin; [destruct Hin|].
  cbn [insert_name]. destruct (String.eqb n m) eqn:E; [reflexivity|].
  apply String.eqb_neq in E. destruct Hin as [->|Hin]; [congruence|].
  apply sorted_names_cons in Hs. destruct Hs as [Hgt Hst].
  rewrite (str_ltb_asym _ _ (Hgt n Hin)). f_equal. apply IH; assumption.
Qed.

Definition insert_names (c : list (name * entry)) (acc : list name) : list name :=
  fold_left (fun acc' ne => insert_name (fst ne) acc') c acc.

Lemma name_union_fold : forall ls,
  name_union ls = fold_left (fun acc c => insert_names c acc) ls [].
Proof. reflexivity. Qed.

Lemma insert_names_in : forall c acc x,
  In x (insert_names c acc) <-> In x (map fst c) \/ In x acc.
Proof.
  induction c as [|[n e] c IH]; intros acc x; cbn [insert_names fold_left map fst In].
  - intuition.
  - fold (insert_names c (insert_name n acc)). rewrite IH, insert_name_in. intuition.
Qed.

Lemma insert_names_sorted : forall c acc,
  sorted_names acc = true -> sorted_names (insert_names c acc) = true.
Proof.
  induction c as [|[n e] c IH]; intros acc H; cbn [insert_names fold_left fst]; [exact H|].
  fold (insert_names c (insert_name n acc)). apply IH. apply insert_name_sorted. exact H.
Qed.

Lemma name_union_acc_in : forall ls acc x,
  In x (fold_left (fun acc c => insert_names c acc) ls acc) <->
  (exists c, In c ls /\ In x (map fst c)) \/ In x acc.
Proof.
  induction ls as [|c ls IH]; intros acc x; cbn [fold_left].
  - split; [intro H; right; exact H|]. intros [[c [[] _]]|H]. exact H.
  - rewrite IH, insert_names_in. split.
    + intros [[c' [Hc Hx]]|[Hx|Hx]].
      * left. exists c'. split; [right; exact Hc|exact Hx].
      * left. exists c. split; [left; reflexivity|exact Hx].
      * right. exact Hx.
    + intros [[c' [[<-|Hc] Hx]]|Hx].
      * right. left. exact Hx.
      * left. exists c'. split; assumption.
      * right. right. exact Hx.
Qed.

(* membership: a name is in the union iff it is a key of one of the lists *)
Lemma name_union_in : forall ls x,
  In x (name_union ls) <-> exists c, In c ls /\ In x (map fst c).
Proof.
  intros ls x. rewrite name_union_fold, name_union_acc_in. split.
  - intros [H|[]]. exact H.
  - intro H. left. exact H.
Qed.

Lemma name_union_sorted : forall ls, sorted_names (name_union ls) = true.
Proof.
  intro ls. rewrite name_union_fold.
  assert (G : forall acc, sorted_names acc = true ->
            sorted_names (fold_left (fun acc c => insert_names c acc) ls acc) = true).
  { induction ls as [|c ls IH]; intros acc H; cbn [fold_left]; [exact H|].
    apply IH. apply insert_names_sorted. exact H. }
  apply G. reflexivity.
Qed.

Lemma name_union_NoDup : forall ls, NoDup (name_union ls).
Proof. intro ls. apply sorted_names_NoDup. apply name_union_sorted. Qed.

Lemma name_union_in2 : forall a b x,
  In x (name_union [a; b]) <-> In x (map fst a) \/ In x (map fst b).
Proof.
  intros a b x. rewrite name_union_in. split.
  - intros [c [[<-|[<-|[]]] H]]; [left|right]; exact H.
  - intros [H|H]; [exists a|exists b]; (split; [cbn; tauto|exact H]).
Qed.

Lemma name_union_in3 : forall a b c x,
  In x (name_union [a; b; c]) <-> In x (map fst a) \/ In x (map fst b) \/ In x (map fst c).
Proof.
  intros a b c x. rewrite name_union_in. split.
  - intros [d [[<-|[<-|[<-|[]]]] H]]; [left|right;left|right;right]; exact H.
  - intros [H|[H|H]]; [exists a|exists b|exists c]; (split; [cbn; tauto|exact H]).
Qed.

(* the union is determined by its members *)
Lemma name_union_unique : forall ls l,
  sorted_names l = true -> (forall x, In x l <-> exists c, In c ls /\ In x (map fst c)) ->
  name_union ls = l.
Proof.
  intros ls l Hs Hin. apply sorted_names_ext; [apply name_union_sorted|exact Hs|].
  intro n. rewrite name_union_in, Hin. reflexivity.
Qed.

Lemma name_union_same : forall c,
  sorted_names (map fst c) = true -> name_union [c; c] = map fst c.
Proof.
  intros c Hs. apply name_union_unique; [exact Hs|].
  intro x. split.
  - intro H. exists c. split; [left; reflexivity|exact H].
  - intros [d [[<-|[<-|[]]] H]]; exact H.
Qed.

Lemma name_union_single : forall c,
  sorted_names (map fst c) = true -> name_union [c] = map fst c.
Proof.
  intros c Hs. apply name_union_unique; [exact Hs|].
  intro x. split.
  - intro H. exists c. split; [left; reflexivity|exact H].
  - intros [d [[<-|[]] H]]; exact H.
Qed.

Lemma name_union_nil_l : forall c,
  sorted_names (map fst c) = true -> name_union [[]; c] = map fst c.
Proof.
  intros c Hs. apply name_union_unique; [exact Hs|].
  intro x. split.
  - intro H. exists c. split; [right; left; reflexivity|exact H].
  - intros [d [[<-|[<-|[]]] H]]; [destruct H|exact H].
Qed.

Lemma name_union_nil_r : forall c,
  sorted_names (map fst c) = true -> name_union [c; []] = map fst c.
Proof.
  intros c Hs. apply name_union_unique; [exact Hs|].
  intro x. split.
  - intro H. exists c. split; [left; reflexivity|exact H].
  - intros [d [[<-|[<-|[]]] H]]; [exact H|destruct H].
Qed.

(* ================================================================== *)
(* 7. lookup / set_child                                               *)
(* ================================================================== *)

Lemma lookup_in_keys : forall n c, lookup n c <> None <-> In n (map fst c).
Proof.
  intros n c. induction c as [|[m e] t IH]; cbn [lookup map fst In].
  - split; [congruence|tauto].
  - destruct (String.eqb n m) eqn:E.
    + apply String.eqb_eq in E. subst. split; [intros _; left; reflexivity|congruence].
    + apply String.eqb_neq in E. rewrite IH. split; [tauto|]. intros [K|K]; [congruence|exact K].
Qed.

Lemma lookup_none_notin : forall n c, lookup n c = None <-> ~ In n (map fst c).
Proof.
  intros n c. rewrite <- lookup_in_keys. destruct (lookup n c); split; try congruence.
  intro H. exfalso. apply H. congruence.
Qed.

Lemma lookup_some_in : forall n c e, lookup n c = Some e -> In (n, e) c.
Proof.
  intros n c e. induction c as [|[m x] t IH]; cbn [lookup]; [discriminate|].
  destruct (String.eqb n m) eqn:E.
  - apply String.eqb_eq in E. subst. intros [= ->]. left. reflexivity.
  - intro H. right. apply IH. exact H.
Qed.

Lemma lookup_some_in_keys : forall n c e, lookup n c = Some e -> In n (map fst c).
Proof. intros n c e H. apply lookup_in_keys. congruence. Qed.

Lemma in_lookup_sorted : forall n e c,
  sorted_names (map fst c) = true -> In (n, e) c -> lookup n c = Some e.
Proof.
  intros n e c. induction c as [|[m x] t IH]; intros Hs Hin; [destruct Hin|].
  cbn [lookup]. cbn [map fst] in Hs. destruct Hin as [[= -> ->]|Hin].
  - rewrite String.eqb_refl. reflexivity.
  - assert (Hn : In n (map fst t)) by (apply in_map_iff; exists (n, e); split; [reflexivity|exact Hin]).
    pose proof (proj1 (sorted_names_cons _ _) Hs) as [Hgt Hst].
    rewrite String.eqb_sym, (str_ltb_eqb _ _ (Hgt n Hn)). apply IH; assumption.
Qed.

Lemma lookup_head_gt : forall n c,
  all_gt n (map fst c) -> lookup n c = None.
Proof.
  intros n c H. apply lookup_none_notin. intro Hin. specialize (H n Hin).
  rewrite str_ltb_irrefl in H. discriminate.
Qed.

(* extensionality of strictly sorted association lists *)
Lemma contents_ext : forall c c',
  sorted_names (map fst c) = true -> sorted_names (map fst c') = true ->
  (forall n, lookup n c = lookup n c') -> c = c'.
Proof.
  intros c c' Hs Hs' Hl.
  assert (Hk : map fst c = map fst c').
  { apply sorted_names_ext; [exact Hs|exact Hs'|]. intro n.
    rewrite <- !lookup_in_keys, Hl. reflexivity. }
  revert c' Hs Hs' Hl Hk. induction c as [|[n e] t IH]; intros [|[m x] t'] Hs Hs' Hl Hk;
    try discriminate; [reflexivity|].
  cbn [map fst] in *. injection Hk as -> Hk.
  pose proof (Hl m) as H0. cbn [lookup] in H0. rewrite String.eqb_refl in H0. injection H0 as ->.
  f_equal. pose proof (proj1 (sorted_names_cons _ _) Hs) as [Hgt Hst].
  pose proof (proj1 (sorted_names_cons _ _) Hs') as [Hgt' Hst'].
  apply IH; [exact Hst|exact Hst'| |exact Hk].
  intro k. pose proof (Hl k) as Hk'. cbn [lookup] in Hk'.
  destruct (String.eqb k m) eqn:E; [|exact Hk'].
  apply String.eqb_eq in E. subst k.
  rewrite (lookup_head_gt m t Hgt). rewrite Hk in Hgt. rewrite (lookup_head_gt m t' Hgt). reflexivity.
Qed.

Lemma set_child_keys_some : forall n x c,
  map fst (set_child n (Some x) c) = insert_name n (map fst c).
Proof.
  intros n x c. induction c as [|[m e] t IH]; cbn [set_child map fst insert_name]; [reflexivity|].
  destruct (String.eqb n m) eqn:E.
  - apply String.eqb_eq in E. subst. reflexivity.
  - destruct (String.ltb n m); cbn [map fst]; [reflexivity|]. rewrite IH. reflexivity.
Qed.

Lemma set_child_in_keys : forall n v c k,
  In k (map fst (set_child n v c)) -> k = n \/ In k (map fst c).
Proof.
  intros n v c k. induction c as [|[m e] t IH]; cbn [set_child map fst].
  - destruct v; cbn; intuition (subst; auto).
  - destruct (String.eqb n m) eqn:E.
    + apply String.eqb_eq in E. subst. destruct v; cbn [map fst In]; intuition (subst; auto).
    + destruct (String.ltb n m).
      * destruct v; cbn [map fst In]; intuition (subst; auto).
      * cbn [map fst In]. intros [K|K]; [intuition (subst; auto)|]. destruct (IH K); intuition (subst; auto).
Qed.

Lemma set_child_sorted : forall n v c,
  sorted_names (map fst c) = true -> sorted_names (map fst (set_child n v c)) = true.
Proof.
  intros n v c. induction c as [|[m e] t IH]; intro Hs; cbn [set_child].
  - destruct v; reflexivity.
  - cbn [map fst] in Hs. pose proof (proj1 (sorted_names_cons _ _) Hs) as [Hgt Hst].
    destruct (String.eqb n m) eqn:E.
    + apply String.eqb_eq in E. subst. destruct v; [exact Hs|exact Hst].
    + destruct (String.ltb n m) eqn:L.
      * destruct v; [|exact Hs]. cbn [map fst].
        change (String.ltb n m && sorted_names (m :: map fst t) = true). rewrite L, Hs. reflexivity.
      * cbn [map fst]. apply sorted_names_cons. split; [|apply IH; exact Hst].
        intros k Hk. destruct (set_child_in_keys _ _ _ _ Hk) as [->|Hk'].
        -- apply str_ltb_total; assumption.
        -- apply Hgt. exact Hk'.
Qed.

Lemma lookup_set_child_other : forall n v c k,
  k <> n -> lookup k (set_child n v c) = lookup k c.
Proof.
  intros n v c k Hne. induction c as [|[m e] t IH]; cbn [set_child].
  - destruct v; cbn [lookup]; [|reflexivity].
    rewrite (proj2 (String.eqb_neq k n) Hne). reflexivity.
  - destruct (String.eqb n m) eqn:E.
    + apply String.eqb_eq in E. subst m. destruct v; cbn [lookup];
        rewrite (proj2 (String.eqb_neq k n) Hne); reflexivity.
    + destruct (String.ltb n m).
      * destruct v; [|reflexivity]. cbn [lookup].
        rewrite (proj2 (String.eqb_neq k n) Hne). reflexivity.
      * cbn [lookup]. rewrite IH. reflexivity.
Qed.

Lemma lookup_set_child_same : forall n v c,
  sorted_names (map fst c) = true -> lookup n (set_child n v c) = v.
Proof.
  intros n v c. induction c as [|[m e] t IH]; intro Hs; cbn [set_child].
  - destruct v; cbn [lookup]; [rewrite String.eqb_refl|]; reflexivity.
  - cbn [map fst] in Hs. pose proof (proj1 (sorted_names_cons _ _) Hs) as [Hgt Hst].
    destruct (String.eqb n m) eqn:E.
    + apply String.eqb_eq in E. subst m. destruct v; cbn [lookup].
      * rewrite String.eqb_refl. reflexivity.
      * apply lookup_head_gt. exact Hgt.
    + destruct (String.ltb n m) eqn:L.
      * destruct v; cbn [lookup].
        -- rewrite String.eqb_refl. reflexivity.
        -- rewrite E. apply lookup_head_gt. intros k Hk. apply (str_ltb_trans n m k L). apply Hgt. exact Hk.
      * cbn [lookup]. rewrite E. apply IH. exact Hst.
Qed.

Lemma lookup_set_child : forall n v c k,
  sorted_names (map fst c) = true ->
  lookup k (set_child n v c) = if String.eqb k n then v else lookup k c.
Proof.
  intros n v c k Hs. destruct (String.eqb k n) eqn:E.
  - apply String.eqb_eq in E. subst. apply lookup_set_child_same. exact Hs.
  - apply String.eqb_neq in E. apply lookup_set_child_other. exact E.
Qed.

(* writing back what is already there changes nothing *)
Lemma set_child_lookup_id : forall n c,
  sorted_names (map fst c) = true -> set_child n (lookup n c) c = c.
Proof.
  intros n c Hs. apply contents_ext; [apply set_child_sorted; exact Hs|exact Hs|].
  intro k. rewrite lookup_set_child by exact Hs.
  destruct (String.eqb k n) eqn:E; [|reflexivity]. apply String.eqb_eq in E. subst. reflexivity.
Qed.

(* ================================================================== *)
(* 8. wf_entry / wf                                                    *)
(* ================================================================== *)

Lemma wf_list_forall : forall s l,
  wf_list s l = true <-> (forall n x, In (n, x) l -> name_valid n = true /\ wf_entry s x = true).
Proof.
  intros s l. unfold wf_list. rewrite forallb_forall. split.
  - intros H n x Hin. specialize (H (n, x) Hin). cbn [fst snd] in H.
    apply andb_true_iff in H. exact H.
  - intros H [n x] Hin. cbn [fst snd]. apply andb_true_iff. apply H. exact Hin.
Qed.

Lemma wf_dir_inv : forall s c,
  wf_entry s (EDir c) = true -> wf_list s c = true /\ sorted_names (map fst c) = true.
Proof. intros s c H. rewrite wf_entry_dir in H. apply andb_true_iff in H. exact H. Qed.

Lemma wf_phantom_inv : forall s c,
  wf_entry s (EPhantom c) = true ->
  s = false /\ wf_list s c = true /\ sorted_names (map fst c) = true.
Proof.
  intros s c H. rewrite wf_entry_phantom in H. apply andb_true_iff in H. destruct H as [H H3].
  apply andb_true_iff in H. destruct H as [H1 H2]. destruct s; [discriminate|]. auto.
Qed.

Lemma wf_contents_sorted : forall s e,
  wf s e = true -> sorted_names (map fst (contents e)) = true.
Proof.
  intros s [[c| | | | |c]|] H; cbn [contents map]; try reflexivity.
  - apply (wf_dir_inv s c H).
  - apply (wf_phantom_inv s c H).
Qed.

Lemma wf_contents_list : forall s e, wf s e = true -> wf_list s (contents e) = true.
Proof.
  intros s [[c| | | | |c]|] H; cbn [contents]; try reflexivity.
  - apply (wf_dir_inv s c H).
  - apply (wf_phantom_inv s c H).
Qed.

(* children of a well-formed entry are well-formed (and validly named) *)
Lemma wf_child : forall s e n x,
  wf s e = true -> lookup n (contents e) = Some x -> wf_entry s x = true.
Proof.
  intros s e n x H Hl. apply wf_contents_list in H.
  apply (proj1 (wf_list_forall _ _) H n x). apply lookup_some_in. exact Hl.
Qed.

Lemma wf_child_name : forall s e n x,
  wf s e = true -> lookup n (contents e) = Some x -> name_valid n = true.
Proof.
  intros s e n x H Hl. apply wf_contents_list in H.
  apply (proj1 (wf_list_forall _ _) H n x). apply lookup_some_in. exact Hl.
Qed.

Lemma wf_lookup : forall s e n, wf s e = true -> wf s (lookup n (contents e)) = true.
Proof.
  intros s e n H. destruct (lookup n (contents e)) eqn:E; [|reflexivity].
  cbn [wf]. eapply wf_child; eassumption.
Qed.

Lemma wf_dir_child : forall s c n x,
  wf_entry s (EDir c) = true -> lookup n c = Some x -> wf_entry s x = true.
Proof. intros s c n x H. apply (wf_child s (Some (EDir c)) n x H). Qed.

Lemma wf_true_false : forall e, wf_entry true e = true -> wf_entry false e = true.
Proof.
  induction e as [c IH|x d|t| |m|c IH] using entry_nested_ind; intro H;
    try exact H; try discriminate H.
  - destruct (wf_dir_inv _ _ H) as [Hl Hs]. rewrite wf_entry_dir, Hs, andb_true_r.
    apply wf_list_forall. intros n x Hin.
    destruct (proj1 (wf_list_forall _ _) Hl n x Hin) as [Hn Hx]. split; [exact Hn|].
    rewrite Forall_forall in IH. apply (IH (n, x) Hin). exact Hx.
Qed.

Lemma wf_o_true_false : forall e, wf true e = true -> wf false e = true.
Proof. intros [e|] H; [apply wf_true_false; exact H|reflexivity]. Qed.

Lemma wf_any_false : forall s e, wf s e = true -> wf false e = true.
Proof. intros [|] e H; [apply wf_o_true_false|]; exact H. Qed.

Lemma wf_set_child : forall s c n v,
  wf_list s c = true -> sorted_names (map fst c) = true ->
  name_valid n = true -> wf s v = true ->
  wf_list s (set_child n v c) = true /\ sorted_names (map fst (set_child n v c)) = true.
Proof.
  intros s c n v Hl Hs Hn Hv. split; [|apply set_child_sorted; exact Hs].
  apply wf_list_forall. intros k x Hin.
  assert (Hss : sorted_names (map fst (set_child n v c)) = true) by (apply set_child_sorted; exact Hs).
  pose proof (in_lookup_sorted _ _ _ Hss Hin) as Hk. rewrite lookup_set_child in Hk by exact Hs.
  destruct (String.eqb k n) eqn:E.
  - apply String.eqb_eq in E. subst. cbn [wf] in Hv. split; assumption.
  - apply (proj1 (wf_list_forall _ _) Hl k x). apply lookup_some_in. exact Hk.
Qed.

Lemma wf_dir_set_child : forall s c n v,
  wf_entry s (EDir c) = true -> name_valid n = true -> wf s v = true ->
  wf_entry s (EDir (set_child n v c)) = true.
Proof.
  intros s c n v H Hn Hv. destruct (wf_dir_inv _ _ H) as [Hl Hs].
  destruct (wf_set_child s c n v Hl Hs Hn Hv) as [A B]. rewrite wf_entry_dir, A, B. reflexivity.
Qed.

(* ---------- synchronizable ---------- *)

Lemma sync_list_keys_incl : forall c n, In n (map fst (sync_list c)) -> In n (map fst c).
Proof.
  induction c as [|[m x] t IH]; intros n; cbn [sync_list map fst]; [tauto|].
  destruct (sync_entry x); cbn [map fst In]; intros H; [destruct H as [H|H]; [left; exact H|]|];
    right; apply IH; exact H.
Qed.

Lemma sync_list_sorted : forall c,
  sorted_names (map fst c) = true -> sorted_names (map fst (sync_list c)) = true.
Proof.
  induction c as [|[m x] t IH]; intro Hs; cbn [sync_list]; [reflexivity|].
  cbn [map fst] in Hs. pose proof (proj1 (sorted_names_cons _ _) Hs) as [Hgt Hst].
  destruct (sync_entry x); [|apply IH; exact Hst].
  cbn [map fst]. apply sorted_names_cons. split; [|apply IH; exact Hst].
  intros k Hk. apply Hgt. apply sync_list_keys_incl. exact Hk.
Qed.

Lemma lookup_sync_list : forall c n,
  sorted_names (map fst c) = true ->
  lookup n (sync_list c) = synchronizable (lookup n c).
Proof.
  induction c as [|[m x] t IH]; intros n Hs; cbn [sync_list lookup synchronizable]; [reflexivity|].
  cbn [map fst] in Hs. pose proof (proj1 (sorted_names_cons _ _) Hs) as [Hgt Hst].
  destruct (sync_entry x) eqn:Sx; cbn [lookup]; destruct (String.eqb n m) eqn:E.
  - cbn [synchronizable]. rewrite Sx. reflexivity.
  - apply IH. exact Hst.
  - cbn [synchronizable]. rewrite Sx. apply String.eqb_eq in E. subst n.
    apply lookup_none_notin. intro Hin. apply sync_list_keys_incl in Hin.
    specialize (Hgt m Hin). rewrite str_ltb_irrefl in Hgt. discriminate.
  - apply IH. exact Hst.
Qed.

Lemma contents_synchronizable : forall e,
  contents (synchronizable e) = match e with Some (EDir c) => sync_list c | _ => [] end.
Proof.
  intros [[c| | | | |c]|]; reflexivity.
Qed.

(* the synchronizable part of any well-formed entry is well-formed at the
   synchronizable level *)
Lemma sync_entry_wf : forall s e x,
  wf_entry s e = true -> sync_entry e = Some x -> wf_entry true x = true.
Proof.
  intros s e. induction e as [c IH|b d|t| |m|c IH] using entry_nested_ind; intros x H Hx;
    try discriminate Hx.
  - rewrite sync_entry_dir in Hx. injection Hx as <-.
    destruct (wf_dir_inv _ _ H) as [Hl Hs]. rewrite wf_entry_dir.
    rewrite (sync_list_sorted c Hs), andb_true_r.
    apply wf_list_forall. intros n y Hin.
    pose proof (in_lookup_sorted _ _ _ (sync_list_sorted c Hs) Hin) as Hk.
    rewrite lookup_sync_list in Hk by exact Hs.
    destruct (lookup n c) as [z|] eqn:Ez; [|discriminate Hk]. cbn [synchronizable] in Hk.
    pose proof (lookup_some_in _ _ _ Ez) as Hz.
    destruct (proj1 (wf_list_forall _ _) Hl n z Hz) as [Hn Hwz]. split; [exact Hn|].
    rewrite Forall_forall in IH. apply (IH (n, z) Hz y Hwz Hk).
  - cbn [sync_entry] in Hx. injection Hx as <-. exact H.
  - cbn [sync_entry] in Hx. injection Hx as <-. exact H.
Qed.

Lemma synchronizable_wf : forall s e, wf s e = true -> wf true (synchronizable e) = true.
Proof.
  intros s [e|] H; [|reflexivity]. cbn [synchronizable].
  destruct (sync_entry e) eqn:E; [|reflexivity]. cbn [wf]. eapply sync_entry_wf; eassumption.
Qed.

Lemma sync_list_id : forall c,
  (forall n x, In (n, x) c -> sync_entry x = Some x) -> sync_list c = c.
Proof.
  induction c as [|[m x] t IH]; intro H; cbn [sync_list]; [reflexivity|].
  rewrite (H m x (or_introl eq_refl)). f_equal. apply IH. intros n y Hin. apply (H n y). right. exact Hin.
Qed.

(* on a synchronizable tree the filter is the identity *)
Lemma sync_entry_id : forall e, wf_entry true e = true -> sync_entry e = Some e.
Proof.
  induction e as [c IH|b d|t| |m|c IH] using entry_nested_ind; intro H;
    try reflexivity; try discriminate H.
  - rewrite sync_entry_dir. do 2 f_equal. apply sync_list_id. intros n x Hin.
    rewrite Forall_forall in IH. apply (IH (n, x) Hin).
    destruct (wf_dir_inv _ _ H) as [Hl _]. apply (proj1 (wf_list_forall _ _) Hl n x Hin).
Qed.

Lemma synchronizable_id : forall e, wf true e = true -> synchronizable e = e.
Proof. intros [e|] H; [apply sync_entry_id; exact H|reflexivity]. Qed.

Lemma synchronizable_idem : forall s e,
  wf s e = true -> synchronizable (synchronizable e) = synchronizable e.
Proof. intros s e H. apply synchronizable_id. eapply synchronizable_wf. exact H. Qed.

(* ================================================================== *)
(* 9. Equality tests                                                   *)
(* ================================================================== *)

Lemma shallow_eqb_refl : forall a, shallow_eqb a a = true.
Proof.
  intros [c|x d|t| |m|c]; cbn [shallow_eqb]; try reflexivity;
    rewrite ?Bool.eqb_reflx, ?String.eqb_refl; reflexivity.
Qed.

Lemma shallow_eqb_sym : forall a b, shallow_eqb a b = shallow_eqb b a.
Proof.
  intros [c|x d|t| |m|c] [c'|x' d'|t'| |m'|c']; cbn [shallow_eqb]; try reflexivity.
  - rewrite (String.eqb_sym d d'). destruct x, x'; reflexivity.
  - apply String.eqb_sym.
  - apply String.eqb_sym.
Qed.

Lemma shallow_eqb_trans : forall a b c,
  shallow_eqb a b = true -> shallow_eqb b c = true -> shallow_eqb a c = true.
Proof.
  intros [c1|x1 d1|t1| |m1|c1] [c2|x2 d2|t2| |m2|c2] [c3|x3 d3|t3| |m3|c3];
    cbn [shallow_eqb]; try congruence; try reflexivity.
  - rewrite !andb_true_iff, !Bool.eqb_true_iff, !String.eqb_eq. intros [-> ->] [-> ->]. auto.
  - rewrite !String.eqb_eq. congruence.
  - rewrite !String.eqb_eq. congruence.
Qed.

Lemma oshallow_eqb_refl : forall a, oshallow_eqb a a = true.
Proof. intros [a|]; [apply shallow_eqb_refl|reflexivity]. Qed.

Lemma oshallow_eqb_sym : forall a b, oshallow_eqb a b = oshallow_eqb b a.
Proof. intros [a|] [b|]; cbn [oshallow_eqb]; try reflexivity. apply shallow_eqb_sym. Qed.

Lemma oshallow_eqb_trans : forall a b c,
  oshallow_eqb a b = true -> oshallow_eqb b c = true -> oshallow_eqb a c = true.
Proof.
  intros [a|] [b|] [c|]; cbn [oshallow_eqb]; try congruence. apply shallow_eqb_trans.
Qed.

Lemma shallow_eqb_kind : forall a b, shallow_eqb a b = true -> kind_of a = kind_of b.
Proof. intros [ | | | | | ] [ | | | | | ]; cbn; congruence. Qed.

(* shallow-equal leaves are equal *)
Lemma shallow_eqb_leaf : forall a b,
  shallow_eqb a b = true ->
  match a with EDir _ | EPhantom _ => True | _ => a = b end.
Proof.
  intros [c|x d|t| |m|c] [c'|x' d'|t'| |m'|c']; cbn [shallow_eqb]; try congruence; try tauto.
  - rewrite andb_true_iff, Bool.eqb_true_iff, String.eqb_eq. intros [-> ->]. reflexivity.
  - rewrite String.eqb_eq. congruence.
  - rewrite String.eqb_eq. congruence.
Qed.

Lemma entry_eqb_shallow : forall a b, entry_eqb a b = true -> shallow_eqb a b = true.
Proof.
  intros [c|x d|t| |m|c] [c'|x' d'|t'| |m'|c'] H; try exact H; try reflexivity;
    cbn in H; try discriminate H.
Qed.

Lemma entry_eqb_eq : forall a b, entry_eqb a b = true <-> a = b.
Proof.
  induction a as [c IH|x d|t| |m|c IH] using entry_nested_ind; intros b.
  - destruct b as [c'|x' d'|t'| |m'|c']; try (split; [cbn; try destruct c; discriminate|discriminate]).
    rewrite entry_eqb_dir. revert c'. induction c as [|[n e] c IHc]; intros [|[n' e'] c'];
      cbn [entries_eqb]; try (split; [discriminate|discriminate]); [split; reflexivity|].
    inversion IH as [|? ? IHe IHt]; subst. cbn [snd] in IHe.
    rewrite !andb_true_iff, String.eqb_eq, IHe. specialize (IHc IHt c'). split.
    + intros [[-> ->] H]. apply IHc in H. injection H as ->. reflexivity.
    + intros [= -> -> ->]. repeat split. apply IHc. reflexivity.
  - destruct b; cbn [entry_eqb shallow_eqb]; try (split; discriminate).
    rewrite andb_true_iff, Bool.eqb_true_iff, String.eqb_eq. split; [intros [-> ->]; reflexivity|intros [= -> ->]; auto].
  - destruct b; cbn [entry_eqb shallow_eqb]; try (split; discriminate).
    rewrite String.eqb_eq. split; congruence.
  - destruct b; cbn [entry_eqb shallow_eqb]; try (split; discriminate). split; reflexivity.
  - destruct b; cbn [entry_eqb shallow_eqb]; try (split; discriminate).
    rewrite String.eqb_eq. split; congruence.
  - destruct b as [c'|x' d'|t'| |m'|c']; try (split; [cbn; try destruct c; discriminate|discriminate]).
    rewrite entry_eqb_phantom. revert c'. induction c as [|[n e] c IHc]; intros [|[n' e'] c'];
      cbn [entries_eqb]; try (split; [discriminate|discriminate]); [split; reflexivity|].
    inversion IH as [|? ? IHe IHt]; subst. cbn [snd] in IHe.
    rewrite !andb_true_iff, String.eqb_eq, IHe. specialize (IHc IHt c'). split.
    + intros [[-> ->] H]. apply IHc in H. injection H as ->. reflexivity.
    + intros [= -> -> ->]. repeat split. apply IHc. reflexivity.
Qed.

Lemma entry_eqb_refl : forall a, entry_eqb a a = true.
Proof. intro a. apply entry_eqb_eq. reflexivity. Qed.

Lemma oentry_eqb_eq : forall a b, oentry_eqb a b = true <-> a = b.
Proof.
  intros [a|] [b|]; cbn [oentry_eqb]; try (split; [discriminate|discriminate]).
  - rewrite entry_eqb_eq. split; congruence.
  - split; reflexivity.
Qed.

Lemma oentry_eqb_refl : forall a, oentry_eqb a a = true.
Proof. intro a. apply oentry_eqb_eq. reflexivity. Qed.

Lemma path_eqb_eq : forall a b, path_eqb a b = true <-> a = b.
Proof.
  induction a as [|x a IH]; intros [|y b]; cbn [path_eqb]; try (split; [discriminate|discriminate]).
  - split; reflexivity.
  - rewrite andb_true_iff, String.eqb_eq, IH. split; [intros [-> ->]; reflexivity|intros [= -> ->]; auto].
Qed.

Lemma change_eqb_eq : forall a b, change_eqb a b = true <-> a = b.
Proof.
  intros [p o n] [p' o' n']. unfold change_eqb. cbn [cpath cold cnew].
  rewrite !andb_true_iff, path_eqb_eq, !oentry_eqb_eq.
  split; [intros [[-> ->] ->]; reflexivity|intros [= -> -> ->]; auto].
Qed.

Lemma changes_eqb_eq : forall x y, changes_eqb x y = true <-> x = y.
Proof.
  induction x as [|a x IH]; intros [|b y]; cbn [changes_eqb]; try (split; [discriminate|discriminate]).
  - split; reflexivity.
  - rewrite andb_true_iff, change_eqb_eq, IH. split; [intros [-> ->]; reflexivity|intros [= -> ->]; auto].
Qed.

(* ================================================================== *)
(* 10. depth                                                           *)
(* ================================================================== *)

Lemma depth_list_lookup : forall c n x, lookup n c = Some x -> depth_entry x <= depth_list c.
Proof.
  induction c as [|[m e] t IH]; intros n x; cbn [lookup depth_list]; [discriminate|].
  destruct (String.eqb n m).
  - intros [= ->]. apply Nat.le_max_l.
  - intro H. specialize (IH n x H). lia.
Qed.

Lemma depth_list_in : forall c n x, In (n, x) c -> depth_entry x <= depth_list c.
Proof.
  induction c as [|[m e] t IH]; intros n x; cbn [In depth_list]; [tauto|].
  intros [[= -> ->]|H]; [apply Nat.le_max_l|]. specialize (IH n x H). lia.
Qed.

Lemma depth_contents : forall e, depth_list (contents e) = pred (depth e).
Proof.
  intros [[c| | | | |c]|]; reflexivity.
Qed.

Lemma depth_entry_pos : forall e, 1 <= depth_entry e.
Proof.
  intros [c| | | | |c]; rewrite ?depth_entry_dir, ?depth_entry_phantom; cbn [depth_entry]; lia.
Qed.

(* the depth of a child is below the depth of the parent *)
Lemma depth_child_lt : forall e n x,
  lookup n (contents (Some e)) = Some x -> depth_entry x < depth_entry e.
Proof.
  intros e n x H. apply depth_list_lookup in H. rewrite depth_contents in H. cbn [depth] in H.
  pose proof (depth_entry_pos e). lia.
Qed.

Lemma depth_dir_child_lt : forall c n x,
  lookup n c = Some x -> depth_entry x < depth_entry (EDir c).
Proof. intros c n x H. apply (depth_child_lt (EDir c) n x H). Qed.

Lemma depth_lookup_le : forall e n, depth (lookup n (contents e)) <= pred (depth e).
Proof.
  intros e n. destruct (lookup n (contents e)) eqn:E; cbn [depth]; [|lia].
  apply depth_list_lookup in E. rewrite depth_contents in E. exact E.
Qed.

Lemma depth_lookup_lt : forall e n, e <> None -> depth (lookup n (contents e)) < depth e.
Proof.
  intros [e|] n H; [|congruence]. pose proof (depth_lookup_le (Some e) n) as K.
  cbn [depth] in *. pose proof (depth_entry_pos e). lia.
Qed.

Lemma depth_slim_le : forall e, depth (oslim e) <= depth e.
Proof.
  intros [[c| | | | |c]|]; cbn [oslim option_map slim depth];
    rewrite ?depth_entry_dir, ?depth_entry_phantom; cbn [depth_list]; lia.
Qed.

(* ================================================================== *)
(* 11. Fuel irrelevance for diff                                       *)
(* ================================================================== *)

Lemma diff_f_fuel : forall f f' p a b,
  Nat.max (depth a) (depth b) <= f -> Nat.max (depth a) (depth b) <= f' ->
  diff_f f p a b = diff_f f' p a b.
Proof.
  induction f as [|f IH]; intros f' p a b Hf Hf'.
  - assert (depth a = 0 /\ depth b = 0) as [Ha Hb] by lia.
    destruct a as [a|]; [pose proof (depth_entry_pos a); cbn [depth] in Ha; lia|].
    destruct b as [b|]; [pose proof (depth_entry_pos b); cbn [depth] in Hb; lia|].
    destruct f'; reflexivity.
  - destruct f' as [|f'].
    + assert (depth a = 0 /\ depth b = 0) as [Ha Hb] by lia.
      destruct a as [a|]; [pose proof (depth_entry_pos a); cbn [depth] in Ha; lia|].
      destruct b as [b|]; [pose proof (depth_entry_pos b); cbn [depth] in Hb; lia|].
      reflexivity.
    + cbn [diff_f]. destruct (negb (oshallow_eqb b a)); [reflexivity|].
      apply flat_map_ext_in. intros n _. apply IH.
      * pose proof (depth_lookup_le a n). pose proof (depth_lookup_le b n). lia.
      * pose proof (depth_lookup_le a n). pose proof (depth_lookup_le b n). lia.
Qed.

(* the form asked for: any two fuels strictly above both depths agree *)
Lemma diff_f_fuel_gt : forall f f' p a b,
  Nat.max (depth a) (depth b) < f -> Nat.max (depth a) (depth b) < f' ->
  diff_f f p a b = diff_f f' p a b.
Proof. intros. apply diff_f_fuel; lia. Qed.

Lemma diff_f_diff : forall f p a b,
  Nat.max (depth a) (depth b) <= f -> diff_f f p a b = diff p a b.
Proof. intros f p a b H. unfold diff. apply diff_f_fuel; lia. Qed.

(* one-step unfolding equation of [diff] *)
Lemma diff_unfold : forall p a b,
  diff p a b =
  if negb (oshallow_eqb b a) then [{| cpath := p; cold := a; cnew := b |}]
  else flat_map (fun n => diff (p ++ [n])%list (lookup n (contents a)) (lookup n (contents b)))
                (name_union [contents a; contents b]).
Proof.
  intros p a b. unfold diff at 1. cbn [diff_f].
  destruct (negb (oshallow_eqb b a)); [reflexivity|].
  apply flat_map_ext_in. intros n _. apply diff_f_diff.
  pose proof (depth_lookup_le a n). pose proof (depth_lookup_le b n). lia.
Qed.

Lemma diff_shallow_neq : forall p a b,
  oshallow_eqb b a = false -> diff p a b = [{| cpath := p; cold := a; cnew := b |}].
Proof. intros p a b H. rewrite diff_unfold, H. reflexivity. Qed.

Lemma diff_shallow_eq : forall p a b,
  oshallow_eqb b a = true ->
  diff p a b = flat_map (fun n => diff (p ++ [n])%list (lookup n (contents a)) (lookup n (contents b)))
                        (name_union [contents a; contents b]).
Proof. intros p a b H. rewrite diff_unfold, H. reflexivity. Qed.

Lemma diff_none_none : forall p, diff p None None = [].
Proof. reflexivity. Qed.

(* ================================================================== *)
(* 12. Plans: fold of plan_app as concatenation                        *)
(* ================================================================== *)

Lemma plan_app_empty_l : forall x, plan_app empty_plan x = x.
Proof. intros [a b c d]. reflexivity. Qed.

Lemma plan_app_empty_r : forall x, plan_app x empty_plan = x.
Proof. intros [a b c d]. unfold plan_app. cbn. rewrite !app_nil_r. reflexivity. Qed.

Lemma plan_app_assoc : forall x y z, plan_app (plan_app x y) z = plan_app x (plan_app y z).
Proof. intros x y z. unfold plan_app. cbn. rewrite <- !app_assoc. reflexivity. Qed.

Definition plan_concat (l : list plan) : plan := fold_right plan_app empty_plan l.

Lemma fold_plan_app : forall (A : Type) (g : A -> plan) (l : list A) (here : plan),
  fold_left (fun acc n => plan_app acc (g n)) l here = plan_app here (plan_concat (map g l)).
Proof.
  intros A g l. induction l as [|x l IH]; intro here; cbn [fold_left map plan_concat fold_right].
  - rewrite plan_app_empty_r. reflexivity.
  - rewrite IH. fold (plan_concat (map g l)). apply plan_app_assoc.
Qed.

Lemma plan_concat_anc : forall (A : Type) (g : A -> plan) (l : list A),
  anc_changes (plan_concat (map g l)) = flat_map (fun n => anc_changes (g n)) l.
Proof.
  intros A g l. induction l as [|x l IH]; [reflexivity|].
  cbn [map plan_concat fold_right flat_map plan_app anc_changes].
  fold (plan_concat (map g l)). rewrite IH. reflexivity.
Qed.

Lemma plan_concat_alpha : forall (A : Type) (g : A -> plan) (l : list A),
  alpha_ch (plan_concat (map g l)) = flat_map (fun n => alpha_ch (g n)) l.
Proof.
  intros A g l. induction l as [|x l IH]; [reflexivity|].
  cbn [map plan_concat fold_right flat_map plan_app alpha_ch].
  fold (plan_concat (map g l)). rewrite IH. reflexivity.
Qed.

Lemma plan_concat_beta : forall (A : Type) (g : A -> plan) (l : list A),
  beta_ch (plan_concat (map g l)) = flat_map (fun n => beta_ch (g n)) l.
Proof.
  intros A g l. induction l as [|x l IH]; [reflexivity|].
  cbn [map plan_concat fold_right flat_map plan_app beta_ch].
  fold (plan_concat (map g l)). rewrite IH. reflexivity.
Qed.

Lemma plan_concat_conflicts : forall (A : Type) (g : A -> plan) (l : list A),
  conflicts (plan_concat (map g l)) = flat_map (fun n => conflicts (g n)) l.
Proof.
  intros A g l. induction l as [|x l IH]; [reflexivity|].
  cbn [map plan_concat fold_right flat_map plan_app conflicts].
  fold (plan_concat (map g l)). rewrite IH. reflexivity.
Qed.

(* ================================================================== *)
(* 13. Fuel irrelevance for reconcile                                  *)
(* ================================================================== *)

Definition depth3 (a b c : oentry) : nat := Nat.max (depth a) (Nat.max (depth b) (depth c)).

(* [reconcile] at an arbitrary path *)
Definition reconcile_at (m : mode) (p : path) (ancestor alpha beta : oentry) : plan :=
  reconcile_f (S (depth3 ancestor alpha beta)) m p ancestor alpha beta.

Lemma reconcile_at_root : forall m a l b, reconcile m a l b = reconcile_at m [] a l b.
Proof. reflexivity. Qed.

(* the ancestor contents used below a node *)
Definition anc_contents (ancestor alpha : oentry) : list (name * entry) :=
  if negb (oshallow_eqb ancestor alpha) then [] else contents ancestor.

Lemma depth_lookup_anc_contents : forall anc al n,
  depth (lookup n (anc_contents anc al)) <= pred (depth anc).
Proof.
  intros anc al n. unfold anc_contents. destruct (negb (oshallow_eqb anc al)).
  - cbn [lookup depth]. lia.
  - apply depth_lookup_le.
Qed.

Lemma shallow_eq_none_depth0 : forall f a b,
  depth3 f a b = 0 -> f = None /\ a = None /\ b = None.
Proof.
  intros f a b H. unfold depth3 in H.
  destruct f as [f|]; [pose proof (depth_entry_pos f); cbn [depth] in H; lia|].
  destruct a as [a|]; [pose proof (depth_entry_pos a); cbn [depth] in H; lia|].
  destruct b as [b|]; [pose proof (depth_entry_pos b); cbn [depth] in H; lia|].
  auto.
Qed.

Lemma reconcile_f_fuel : forall f f' m p anc al be,
  depth3 anc al be <= f -> depth3 anc al be <= f' ->
  reconcile_f f m p anc al be = reconcile_f f' m p anc al be.
Proof.
  induction f as [|f IH]; intros f' m p anc al be Hf Hf'.
  - assert (H0 : depth3 anc al be = 0) by lia.
    destruct (shallow_eq_none_depth0 _ _ _ H0) as [-> [-> ->]]. destruct f'; reflexivity.
  - destruct f' as [|f'].
    + assert (H0 : depth3 anc al be = 0) by lia.
      destruct (shallow_eq_none_depth0 _ _ _ H0) as [-> [-> ->]]. reflexivity.
    + cbn [reconcile_f].
      destruct (is_problem al); [reflexivity|].
      destruct (is_problem be); [reflexivity|].
      destruct ((is_none al || is_untracked al) && (is_none be || is_untracked be)); [reflexivity|].
      destruct (oshallow_eqb al be); [|reflexivity].
      apply fold_left_ext_in. intros acc n _. f_equal.
      pose proof (depth_lookup_anc_contents anc al n) as Ha. unfold anc_contents in Ha.
      pose proof (depth_lookup_le al n). pose proof (depth_lookup_le be n).
      unfold depth3 in *. apply IH; unfold depth3; lia.
Qed.

Lemma reconcile_f_fuel_gt : forall f f' m p anc al be,
  depth3 anc al be < f -> depth3 anc al be < f' ->
  reconcile_f f m p anc al be = reconcile_f f' m p anc al be.
Proof. intros. apply reconcile_f_fuel; lia. Qed.

Lemma reconcile_f_at : forall f m p anc al be,
  depth3 anc al be <= f -> reconcile_f f m p anc al be = reconcile_at m p anc al be.
Proof. intros. unfold reconcile_at. apply reconcile_f_fuel; lia. Qed.

(* one-step unfolding equation of [reconcile_at] (and so of [reconcile]) *)
Lemma reconcile_unfold : forall m p ancestor alpha beta,
  reconcile_at m p ancestor alpha beta =
  if is_problem alpha then empty_plan
  else if is_problem beta then empty_plan
  else if (is_none alpha || is_untracked alpha) && (is_none beta || is_untracked beta) then
    (if is_none ancestor then empty_plan else p_anc (mk p None None))
  else if oshallow_eqb alpha beta then
    let differs := negb (oshallow_eqb ancestor alpha) in
    let here := if differs then p_anc (mk p None (oslim alpha)) else empty_plan in
    let ac := if differs then [] else contents ancestor in
    let lc := contents alpha in
    let bc := contents beta in
    fold_left
      (fun acc n => plan_app acc
         (reconcile_at m (p ++ [n])%list (lookup n ac) (lookup n lc) (lookup n bc)))
      (name_union [ac; lc; bc]) here
  else
    match m with
    | TwoWaySafe | TwoWayResolved => handle_bidirectional m p ancestor alpha beta
    | OneWaySafe => handle_one_way_safe p ancestor alpha beta
    | OneWayReplica => handle_one_way_replica p ancestor alpha beta
    end.
Proof.
  intros m p anc al be. unfold reconcile_at at 1. cbn [reconcile_f].
  destruct (is_problem al); [reflexivity|].
  destruct (is_problem be); [reflexivity|].
  destruct ((is_none al || is_untracked al) && (is_none be || is_untracked be)); [reflexivity|].
  destruct (oshallow_eqb al be); [|reflexivity].
  cbv zeta. apply fold_left_ext_in. intros acc n _. f_equal.
  apply reconcile_f_at.
  pose proof (depth_lookup_anc_contents anc al n) as Ha. unfold anc_contents in Ha.
  pose proof (depth_lookup_le al n). pose proof (depth_lookup_le be n).
  unfold depth3. lia.
Qed.

(* the recursive case in concatenation form *)
Lemma reconcile_unfold_rec : forall m p ancestor alpha beta,
  is_problem alpha = false -> is_problem beta = false ->
  (is_none alpha || is_untracked alpha) && (is_none beta || is_untracked beta) = false ->
  oshallow_eqb alpha beta = true ->
  reconcile_at m p ancestor alpha beta =
  plan_app
    (if negb (oshallow_eqb ancestor alpha) then p_anc (mk p None (oslim alpha)) else empty_plan)
    (plan_concat
       (map (fun n => reconcile_at m (p ++ [n])%list (lookup n (anc_contents ancestor alpha))
                                   (lookup n (contents alpha)) (lookup n (contents beta)))
            (name_union [anc_contents ancestor alpha; contents alpha; contents beta]))).
Proof.
  intros m p anc al be H1 H2 H3 H4. rewrite reconcile_unfold, H1, H2, H3, H4. cbv zeta.
  rewrite fold_plan_app. reflexivity.
Qed.
