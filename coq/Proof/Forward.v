(* Proofs about Model/Forward.v (C33). *)
From Coq Require Import List Arith Bool Lia.
From Coq Require Import Strings.Byte.
Import ListNotations.
From Mv Require Import Model.Forward.

(* ---------- reflection of the list tests ---------- *)

Lemma leqb_refl : forall a, leqb a a = true.
Proof.
  induction a as [|x a IH]; cbn; auto.
  rewrite (Byte.byte_dec_lb (eq_refl x)), IH. reflexivity.
Qed.

Lemma leqb_eq : forall a b, leqb a b = true -> a = b.
Proof.
  induction a as [|x a IH]; intros [|y b] H; cbn in H; try discriminate; auto.
  apply andb_true_iff in H. destruct H as [H1 H2].
  apply Byte.byte_dec_bl in H1. apply IH in H2. subst. reflexivity.
Qed.

Lemma prefixb_app : forall a r, prefixb a (a ++ r) = true.
Proof.
  induction a as [|x a IH]; intros r; cbn; auto.
  rewrite (Byte.byte_dec_lb (eq_refl x)), IH. reflexivity.
Qed.

Lemma prefixb_spec : forall a b, prefixb a b = true -> exists r, b = a ++ r.
Proof.
  induction a as [|x a IH]; intros b H; cbn in H.
  - exists b. reflexivity.
  - destruct b as [|y b]; try discriminate.
    apply andb_true_iff in H. destruct H as [H1 H2].
    apply Byte.byte_dec_bl in H1. destruct (IH _ H2) as [r Hr]. subst.
    exists r. reflexivity.
Qed.

Lemma firstn_prefix : forall (n : nat) (d : bytes), exists r, d = firstn n d ++ r.
Proof. intros n d. exists (skipn n d). symmetry. apply firstn_skipn. Qed.

(* ---------- one direction ---------- *)

Definition dir_inv (x : dirst) : Prop :=
  match ph x with
  | PRead => wr x = rd x /\ cw x = false
  | PWrite d e => rd x = wr x ++ d /\ cw x = false
  | PCW => wr x = rd x /\ cw x = false
  | PEnd false => wr x = rd x /\ cw x = true
  | PEnd true => (exists r, rd x = wr x ++ r) /\ cw x = false
  end.

Lemma dir0_inv : dir_inv dir0.
Proof. cbv. auto. Qed.

Lemma after_chunk_inv : forall e r w c,
  w = r -> c = false ->
  dir_inv {| ph := after_chunk e; rd := r; wr := w; cw := c |}.
Proof.
  intros e r w c -> ->. destruct e; unfold dir_inv, after_chunk; cbn [ph rd wr cw]; auto.
  split; auto. exists []. rewrite app_nil_r. reflexivity.
Qed.

Lemma dir_step_inv : forall x a y, dir_inv x -> dir_step x a = Some y -> dir_inv y.
Proof.
  intros x a y I H. unfold dir_step in H. unfold dir_inv in I.
  destruct (ph x) as [|d e| |f] eqn:P; destruct a as [d' e'|d' n ok|]; try discriminate.
  - (* read *)
    inversion H; subst; clear H. destruct I as [I1 I2].
    destruct d' as [|b d'].
    + rewrite app_nil_r. apply after_chunk_inv; auto.
    + unfold dir_inv; cbn [ph rd wr cw]. rewrite I1. auto.
  - (* write *)
    destruct (leqb d d' && (n <=? length d)) eqn:G; try discriminate.
    inversion H; subst; clear H. destruct I as [I1 I2].
    apply andb_true_iff in G. destruct G as [G1 G2]. apply Nat.leb_le in G2.
    destruct (ok && (n =? length d)) eqn:K.
    + apply andb_true_iff in K. destruct K as [_ K]. apply Nat.eqb_eq in K.
      apply after_chunk_inv; auto. rewrite I1. subst n. rewrite firstn_all. reflexivity.
    + unfold dir_inv; cbn [ph rd wr cw]. split; auto.
      exists (skipn n d). rewrite I1, <- app_assoc, firstn_skipn. reflexivity.
  - (* close-write *)
    inversion H; subst; clear H. destruct I as [I1 I2]. unfold dir_inv; cbn [ph rd wr cw]. auto.
Qed.

Lemma dir_step_ended : forall x a, ended x = true -> dir_step x a = None.
Proof.
  intros x a H. unfold ended in H. unfold dir_step.
  destruct (ph x); try discriminate. reflexivity.
Qed.

(* delivered is always a prefix of read *)
Lemma dir_inv_prefix : forall x, dir_inv x -> exists r, rd x = wr x ++ r.
Proof.
  intros x I. unfold dir_inv in I. destruct (ph x) as [|d e| |[|]].
  - destruct I as [I _]. exists []. rewrite app_nil_r. auto.
  - destruct I as [I _]. exists d. auto.
  - destruct I as [I _]. exists []. rewrite app_nil_r. auto.
  - destruct I as [I _]. exact I.
  - destruct I as [I _]. exists []. rewrite app_nil_r. auto.
Qed.

(* ---------- the whole forward ---------- *)

Definition inv (s : st) : Prop :=
  dir_inv (da s) /\ dir_inv (db s) /\ (closedF s = true -> may_close s = true).

Lemma init_inv : inv init.
Proof. repeat split; try apply dir0_inv. cbn. discriminate. Qed.

Lemma failed_ended : forall x, failed x = true -> ended x = true.
Proof. intros x. unfold failed, ended. destruct (ph x) as [| | |[|]]; auto. Qed.

Lemma dir_step_failed_mono : forall x a y, dir_step x a = Some y -> failed x = true -> failed y = true.
Proof. intros x a y H F0. rewrite dir_step_ended in H by (apply failed_ended; auto). discriminate. Qed.

Lemma dir_step_ended_mono : forall x a y, dir_step x a = Some y -> ended x = true -> ended y = true.
Proof. intros x a y H F0. rewrite dir_step_ended in H by auto. discriminate. Qed.

Lemma may_close_set_dir : forall s c a y,
  dir_step (dir_of s c) a = Some y -> may_close s = true -> may_close (set_dir s c y) = true.
Proof.
  intros s c a y H M. unfold may_close in *.
  destruct c; cbn [set_dir dir_of da db canc] in *.
  - destruct (canc s); auto. cbn in *.
    destruct (failed (da s)) eqn:FA.
    + rewrite (dir_step_failed_mono _ _ _ H FA). auto.
    + cbn in M. destruct (failed (db s)); [rewrite orb_true_r; auto|].
      cbn in M. apply andb_true_iff in M. destruct M as [M1 M2].
      rewrite (dir_step_ended_mono _ _ _ H M1), M2. rewrite !orb_true_r. auto.
  - destruct (canc s); auto. cbn in *.
    destruct (failed (da s)); auto. cbn in *.
    destruct (failed (db s)) eqn:FB.
    + rewrite (dir_step_failed_mono _ _ _ H FB). auto.
    + cbn in M. apply andb_true_iff in M. destruct M as [M1 M2].
      rewrite (dir_step_ended_mono _ _ _ H M2), M1. rewrite !orb_true_r. auto.
Qed.

Lemma step_inv : forall s e s', inv s -> step s e = Some s' -> inv s'.
Proof.
  intros s e s' (IA & IB & IC) H.
  assert (DS : forall c a y, dir_step (dir_of s c) a = Some y -> inv (set_dir s c y)).
  { intros c a y Hy. unfold inv.
    assert (Iy : dir_inv y) by (destruct c; cbn [dir_of] in Hy; [apply (dir_step_inv _ _ _ IA Hy)|apply (dir_step_inv _ _ _ IB Hy)]).
    destruct c; repeat split; auto; intros HC;
      apply (may_close_set_dir _ _ _ _ Hy); apply IC; exact HC. }
  destruct e as [c d r|c d n ok|c|c|]; cbn [step] in H.
  - destruct (dir_step (dir_of s (other c)) (DRd d r)) eqn:E; cbn in H; try discriminate.
    inversion H; subst. eapply DS; eauto.
  - destruct (dir_step (dir_of s c) (DWr d n ok)) eqn:E; cbn in H; try discriminate.
    inversion H; subst. eapply DS; eauto.
  - destruct (dir_step (dir_of s c) DCW) eqn:E; cbn in H; try discriminate.
    inversion H; subst. eapply DS; eauto.
  - destruct c.
    + destruct (mp s) eqn:M; try discriminate.
      destruct (may_close s) eqn:MC; try discriminate. inversion H; subst.
      unfold inv. cbn. repeat split; auto.
    + destruct (mp s) eqn:M; try discriminate. inversion H; subst.
      unfold inv. cbn. repeat split; auto. intros _.
      assert (X : closedF s = true) by (unfold closedF; rewrite M; auto).
      apply IC in X. exact X.
  - inversion H; subst. unfold inv. cbn. repeat split; auto.
Qed.

Lemma run_inv : forall tr s s', inv s -> run s tr = Some s' -> inv s'.
Proof.
  induction tr as [|e t IH]; intros s s' I H; cbn in H.
  - inversion H; subst; auto.
  - destruct (step s e) eqn:E; try discriminate. eapply IH; [eapply step_inv; eauto|eauto].
Qed.

Lemma run_app : forall a b s,
  run s (a ++ b) = match run s a with Some s1 => run s1 b | None => None end.
Proof.
  induction a as [|e a IH]; intros b s; cbn; auto.
  destruct (step s e); auto.
Qed.

(* ---------- the checker's state as a function of the trace ---------- *)

Lemma crun_app : forall a b k,
  crun k (a ++ b) = match crun k a with Some k1 => crun k1 b | None => None end.
Proof.
  induction a as [|e a IH]; intros b k; cbn; auto.
  destruct (cstep k e); auto.
Qed.

Lemma crun_rd : forall tr k k' c, crun k tr = Some k' ->
  pget (k_rd k') c = pget (k_rd k) c ++ readfrom c tr.
Proof.
  induction tr as [|e t IH]; intros k k' c H; cbn in H.
  - inversion H; subst. cbn. rewrite app_nil_r. reflexivity.
  - destruct (cstep k e) as [k1|] eqn:E; try discriminate.
    rewrite (IH _ _ c H). clear IH H.
    destruct e as [c0 d r|c0 d n ok|c0|c0|]; cbn in E.
    + inversion E; subst; clear E. destruct c, c0; cbn; rewrite <- ?app_assoc; reflexivity.
    + destruct (_ && _) in E; try discriminate. inversion E; subst. reflexivity.
    + destruct (_ && _) in E; try discriminate. inversion E; subst. reflexivity.
    + destruct (enabled k) in E; try discriminate. inversion E; subst. reflexivity.
    + inversion E; subst. reflexivity.
Qed.

Lemma crun_wr : forall tr k k' c, crun k tr = Some k' ->
  pget (k_wr k') c = pget (k_wr k) c ++ delivered c tr.
Proof.
  induction tr as [|e t IH]; intros k k' c H; cbn in H.
  - inversion H; subst. cbn. rewrite app_nil_r. reflexivity.
  - destruct (cstep k e) as [k1|] eqn:E; try discriminate.
    rewrite (IH _ _ c H). clear IH H.
    destruct e as [c0 d r|c0 d n ok|c0|c0|]; cbn in E.
    + inversion E; subst; clear E. reflexivity.
    + destruct (_ && _) in E; try discriminate. inversion E; subst.
      destruct c, c0; cbn; rewrite <- ?app_assoc; reflexivity.
    + destruct (_ && _) in E; try discriminate. inversion E; subst. reflexivity.
    + destruct (enabled k) in E; try discriminate. inversion E; subst. reflexivity.
    + inversion E; subst. reflexivity.
Qed.

Lemma crun_cw : forall tr k k' c, crun k tr = Some k' ->
  pget (k_cw k') c = pget (k_cw k) c || has_cw c tr.
Proof.
  induction tr as [|e t IH]; intros k k' c H; cbn in H.
  - inversion H; subst. cbn. rewrite orb_false_r. reflexivity.
  - destruct (cstep k e) as [k1|] eqn:E; try discriminate.
    rewrite (IH _ _ c H). clear IH H.
    destruct e as [c0 d r|c0 d n ok|c0|c0|]; cbn in E.
    + inversion E; subst; clear E. reflexivity.
    + destruct (_ && _) in E; try discriminate. inversion E; subst. reflexivity.
    + destruct (_ && _) in E; try discriminate. inversion E; subst.
      destruct c, c0; cbn; rewrite ?orb_true_r, ?orb_assoc; auto.
    + destruct (enabled k) in E; try discriminate. inversion E; subst. reflexivity.
    + inversion E; subst. reflexivity.
Qed.

Lemma crun_cl : forall tr k k' c, crun k tr = Some k' ->
  pget (k_cl k') c = pget (k_cl k) c || has_cl c tr.
Proof.
  induction tr as [|e t IH]; intros k k' c H; cbn in H.
  - inversion H; subst. cbn. rewrite orb_false_r. reflexivity.
  - destruct (cstep k e) as [k1|] eqn:E; try discriminate.
    rewrite (IH _ _ c H). clear IH H.
    destruct e as [c0 d r|c0 d n ok|c0|c0|]; cbn in E.
    + inversion E; subst; clear E. reflexivity.
    + destruct (_ && _) in E; try discriminate. inversion E; subst. reflexivity.
    + destruct (_ && _) in E; try discriminate. inversion E; subst. reflexivity.
    + destruct (enabled k) in E; try discriminate. inversion E; subst.
      destruct c, c0; cbn; rewrite ?orb_true_r, ?orb_assoc; auto.
    + inversion E; subst. reflexivity.
Qed.

Lemma crun_canc : forall tr k k', crun k tr = Some k' ->
  k_canc k' = k_canc k || has_cancel tr.
Proof.
  induction tr as [|e t IH]; intros k k' H; cbn in H.
  - inversion H; subst. cbn. rewrite orb_false_r. reflexivity.
  - destruct (cstep k e) as [k1|] eqn:E; try discriminate.
    pose proof (IH _ _ H) as R. clear IH H.
    destruct e as [c0 d r|c0 d n ok|c0|c0|]; cbn in E.
    + inversion E; subst; clear E. exact R.
    + destruct (_ && _) in E; try discriminate. inversion E; subst. exact R.
    + destruct (_ && _) in E; try discriminate. inversion E; subst. exact R.
    + destruct (enabled k) in E; try discriminate. inversion E; subst. exact R.
    + inversion E; subst. cbn in R. cbn. rewrite orb_true_r. rewrite R. reflexivity.
Qed.

Lemma crun_eof : forall tr k k' c, crun k tr = Some k' ->
  pget (k_eof k') c = eof_last c (pget (k_eof k) c) tr.
Proof.
  induction tr as [|e t IH]; intros k k' c H; cbn in H.
  - inversion H; subst. reflexivity.
  - destruct (cstep k e) as [k1|] eqn:E; try discriminate.
    rewrite (IH _ _ c H). clear IH H.
    destruct e as [c0 d r|c0 d n ok|c0|c0|]; cbn in E.
    + inversion E; subst; clear E. destruct c, c0; reflexivity.
    + destruct (_ && _) in E; try discriminate. inversion E; subst. reflexivity.
    + destruct (_ && _) in E; try discriminate. inversion E; subst. reflexivity.
    + destruct (enabled k) in E; try discriminate. inversion E; subst. reflexivity.
    + inversion E; subst. reflexivity.
Qed.

Lemma crun_rfail : forall tr k k' c, crun k tr = Some k' ->
  pget (k_rfail k') c = pget (k_rfail k) c || rfail_in c tr.
Proof.
  induction tr as [|e t IH]; intros k k' c H; cbn in H.
  - inversion H; subst. cbn. rewrite orb_false_r. reflexivity.
  - destruct (cstep k e) as [k1|] eqn:E; try discriminate.
    rewrite (IH _ _ c H). clear IH H.
    destruct e as [c0 d r|c0 d n ok|c0|c0|]; cbn in E.
    + inversion E; subst; clear E. destruct c, c0; cbn; rewrite ?orb_assoc; auto.
    + destruct (_ && _) in E; try discriminate. inversion E; subst. reflexivity.
    + destruct (_ && _) in E; try discriminate. inversion E; subst. reflexivity.
    + destruct (enabled k) in E; try discriminate. inversion E; subst. reflexivity.
    + inversion E; subst. reflexivity.
Qed.

Lemma crun_wfail : forall tr k k' c, crun k tr = Some k' ->
  pget (k_wfail k') c = pget (k_wfail k) c || wfail_in c tr.
Proof.
  induction tr as [|e t IH]; intros k k' c H; cbn in H.
  - inversion H; subst. cbn. rewrite orb_false_r. reflexivity.
  - destruct (cstep k e) as [k1|] eqn:E; try discriminate.
    rewrite (IH _ _ c H). clear IH H.
    destruct e as [c0 d r|c0 d n ok|c0|c0|]; cbn in E.
    + inversion E; subst; clear E. reflexivity.
    + destruct (_ && _) in E; try discriminate. inversion E; subst.
      destruct c, c0; cbn; rewrite ?orb_assoc; auto.
    + destruct (_ && _) in E; try discriminate. inversion E; subst. reflexivity.
    + destruct (enabled k) in E; try discriminate. inversion E; subst. reflexivity.
    + inversion E; subst. reflexivity.
Qed.

Lemma crun_k0 : forall tr k, crun k0 tr = Some k ->
  (forall c, pget (k_rd k) c = readfrom c tr /\ pget (k_wr k) c = delivered c tr
             /\ pget (k_cw k) c = has_cw c tr /\ pget (k_cl k) c = has_cl c tr
             /\ pget (k_eof k) c = eof_last c false tr
             /\ pget (k_rfail k) c = rfail_in c tr /\ pget (k_wfail k) c = wfail_in c tr)
  /\ k_canc k = has_cancel tr.
Proof.
  intros tr k H. split.
  - intros c.
    rewrite (crun_rd _ _ _ c H), (crun_wr _ _ _ c H), (crun_cw _ _ _ c H), (crun_cl _ _ _ c H),
      (crun_eof _ _ _ c H), (crun_rfail _ _ _ c H), (crun_wfail _ _ _ c H).
    destruct c; cbn; auto 10.
  - rewrite (crun_canc _ _ _ H). reflexivity.
Qed.

Lemma enabled_k0 : forall tr k, crun k0 tr = Some k ->
  enabled k = has_cancel tr || fail_in tr || (has_cw Fi tr && has_cw Se tr).
Proof.
  intros tr k H. destruct (crun_k0 _ _ H) as [A B].
  unfold enabled, k_fail, fail_in. rewrite B.
  destruct (A Fi) as (_ & _ & C1 & _ & _ & R1 & W1).
  destruct (A Se) as (_ & _ & C2 & _ & _ & R2 & W2).
  cbn [pget] in *. rewrite C1, C2, R1, R2, W1, W2. reflexivity.
Qed.

(* delivered-is-a-prefix-of-read is an invariant of accepted checker runs *)
Definition kinv (k : cst) : Prop :=
  forall c, exists r, pget (k_rd k) (other c) = pget (k_wr k) c ++ r.

Lemma k0_inv : kinv k0.
Proof. intros c. exists []. destruct c; reflexivity. Qed.

Lemma cstep_kinv : forall k e k', kinv k -> cstep k e = Some k' -> kinv k'.
Proof.
  intros k e k' I H. destruct e as [c0 d r|c0 d n ok|c0|c0|]; cbn in H.
  - inversion H; subst; clear H. intros c. destruct (I c) as [x Hx].
    destruct c, c0; cbn in *; try (exists x; exact Hx);
      exists (x ++ d); rewrite Hx, app_assoc; reflexivity.
  - destruct (negb (pget (k_cw k) c0)); cbn in H; try discriminate.
    destruct (prefixb _ _) eqn:P in H; try discriminate.
    inversion H; subst; clear H. apply prefixb_spec in P. destruct P as [x Hx].
    intros c. destruct (I c) as [y Hy].
    destruct c, c0; cbn in *; try (exists y; exact Hy); exists x; exact Hx.
  - destruct (_ && _) in H; try discriminate. inversion H; subst. exact I.
  - destruct (enabled k) in H; try discriminate. inversion H; subst. exact I.
  - inversion H; subst. exact I.
Qed.

Lemma crun_kinv : forall tr k k', kinv k -> crun k tr = Some k' -> kinv k'.
Proof.
  induction tr as [|e t IH]; intros k k' I H; cbn in H.
  - inversion H; subst; auto.
  - destruct (cstep k e) eqn:E; try discriminate.
    eapply IH; [eapply cstep_kinv; eauto|eauto].
Qed.

Lemma cstep_cw_mono : forall k e k' c, cstep k e = Some k' ->
  pget (k_cw k) c = true -> pget (k_cw k') c = true.
Proof.
  intros k e k' c H C. destruct e as [c0 d r|c0 d n ok|c0|c0|]; cbn in H.
  - inversion H; subst; auto.
  - destruct (_ && _) in H; try discriminate. inversion H; subst; auto.
  - destruct (_ && _) in H; try discriminate. inversion H; subst.
    destruct c, c0; cbn in *; auto.
  - destruct (enabled k) in H; try discriminate. inversion H; subst; auto.
  - inversion H; subst; auto.
Qed.

Lemma crun_no_write_after_cw : forall tr k k' c, crun k tr = Some k' ->
  pget (k_cw k) c = true -> has_wr c tr = false.
Proof.
  induction tr as [|e t IH]; intros k k' c H C; cbn in H; auto.
  destruct (cstep k e) as [k1|] eqn:E; try discriminate.
  pose proof (cstep_cw_mono _ _ _ c E C) as C1.
  pose proof (IH _ _ c H C1) as R.
  destruct e as [c0 d r|c0 d n ok|c0|c0|]; cbn; auto.
  cbn in E. destruct c, c0; cbn in *; auto; rewrite C in E; cbn in E; discriminate.
Qed.

(* ---------- soundness of the trace checker ---------- *)

Definition trace_property (complete : bool) (tr : list ev) : Prop :=
  (* at every moment the bytes delivered to a side are a prefix of the bytes
     read from the other side *)
  (forall tr1 tr2, tr = tr1 ++ tr2 ->
     forall c, exists r, readfrom (other c) tr1 = delivered c tr1 ++ r)
  (* a half-close is forwarded only after a clean EOF, with every byte
     delivered before it and none after it *)
  /\ (forall c tr1 tr2, tr = tr1 ++ ECW c :: tr2 ->
        delivered c tr1 = readfrom (other c) tr1
        /\ eof_last (other c) false tr1 = true
        /\ has_wr c tr2 = false)
  (* a connection is closed only once forwarding was cancelled, a direction
     failed, or both directions finished *)
  /\ (forall c tr1 tr2, tr = tr1 ++ ECl c :: tr2 ->
        has_cancel tr1 = true \/ fail_in tr1 = true
        \/ (has_cw Fi tr1 = true /\ has_cw Se tr1 = true))
  (* in a complete trace both connections were closed, and a direction that
     ended cleanly forwarded the half-close *)
  /\ (complete = true ->
        has_cl Fi tr = true /\ has_cl Se tr = true
        /\ forall c, clean_in c tr = true -> has_cw c tr = true).

Lemma clean_dir_k0 : forall tr k c, crun k0 tr = Some k -> clean_dir k c = clean_in c tr.
Proof.
  intros tr k c H. destruct (crun_k0 _ _ H) as [A _]. unfold clean_dir, clean_in.
  destruct (A c) as (_ & W & _ & _ & _ & _ & WF).
  destruct (A (other c)) as (R & _ & _ & _ & E & RF & _).
  rewrite W, WF, R, E, RF. reflexivity.
Qed.

Lemma check_trace_sound : forall complete tr,
  check_trace complete tr = true -> trace_property complete tr.
Proof.
  intros complete tr H. unfold check_trace in H.
  destruct (crun k0 tr) as [k|] eqn:R; try discriminate.
  unfold trace_property. split; [|split; [|split]].
  - intros tr1 tr2 -> c. rewrite crun_app in R.
    destruct (crun k0 tr1) as [k1|] eqn:R1; try discriminate.
    pose proof (crun_kinv _ _ _ k0_inv R1 c) as [x Hx].
    destruct (crun_k0 _ _ R1) as [A _].
    destruct (A c) as (_ & W & _). destruct (A (other c)) as (RD & _).
    exists x. rewrite <- RD, <- W. exact Hx.
  - intros c tr1 tr2 ->. rewrite crun_app in R.
    destruct (crun k0 tr1) as [k1|] eqn:R1; try discriminate.
    cbn in R. destruct (leqb _ _) eqn:L in R; try discriminate.
    destruct (pget (k_eof k1) (other c)) eqn:E in R; try discriminate.
    cbn in R.
    destruct (crun_k0 _ _ R1) as [A _].
    destruct (A c) as (_ & W & _). destruct (A (other c)) as (RD & _ & _ & _ & EE & _).
    apply leqb_eq in L. split; [|split].
    + rewrite <- RD, <- W. exact L.
    + rewrite <- EE. exact E.
    + eapply crun_no_write_after_cw; [exact R|]. destruct c; reflexivity.
  - intros c tr1 tr2 ->. rewrite crun_app in R.
    destruct (crun k0 tr1) as [k1|] eqn:R1; try discriminate.
    cbn in R. destruct (enabled k1) eqn:EN in R; try discriminate.
    rewrite (enabled_k0 _ _ R1) in EN.
    apply orb_true_iff in EN. destruct EN as [EN|EN].
    + apply orb_true_iff in EN. destruct EN as [EN|EN]; auto.
    + apply andb_true_iff in EN. auto.
  - intros ->. cbn in H. destruct (crun_k0 _ _ R) as [A _].
    apply andb_true_iff in H. destruct H as [H H2].
    apply andb_true_iff in H. destruct H as [H H1].
    apply andb_true_iff in H. destruct H as [CF CS].
    destruct (A Fi) as (_ & _ & CWF & CLF & _). destruct (A Se) as (_ & _ & CWS & CLS & _).
    cbn [pget] in *. split; [congruence|]. split; [congruence|].
    intros c CI. rewrite <- (clean_dir_k0 _ _ c R) in CI.
    destruct c; rewrite CI in *; cbn in *; congruence.
Qed.

(* ---------- the model's runs pass the checker (simulation) ---------- *)

Definition dir_rel (x : dirst) (k : cst) (c : side) : Prop :=
  rd x = pget (k_rd k) (other c) /\ wr x = pget (k_wr k) c /\ cw x = pget (k_cw k) c /\
  match ph x with
  | PRead => pget (k_rfail k) (other c) = false /\ pget (k_wfail k) c = false
  | PWrite d e => pget (k_eof k) (other c) = is_eof e
                  /\ pget (k_rfail k) (other c) = is_rerr e /\ pget (k_wfail k) c = false
  | PCW | PEnd false => pget (k_eof k) (other c) = true
                        /\ pget (k_rfail k) (other c) = false /\ pget (k_wfail k) c = false
  | PEnd true => pget (k_rfail k) (other c) = true \/ pget (k_wfail k) c = true
  end.

Definition rel (s : st) (k : cst) : Prop :=
  inv s /\ dir_rel (da s) k Fi /\ dir_rel (db s) k Se /\ canc s = k_canc k
  /\ pF (k_cl k) = closedF s /\ pS (k_cl k) = closedS s.

Lemma rel_init : rel init k0.
Proof.
  unfold rel. split; [apply init_inv|]. cbn. unfold dir_rel. cbn.
  repeat split; auto.
Qed.

Lemma failed_rel : forall x k c, dir_rel x k c -> failed x = true ->
  pget (k_rfail k) (other c) = true \/ pget (k_wfail k) c = true.
Proof.
  intros x k c (_ & _ & _ & P) F0. unfold failed in F0.
  destruct (ph x) as [| | |[|]]; try discriminate. exact P.
Qed.

Lemma ended_rel : forall x k c, dir_inv x -> dir_rel x k c -> ended x = true ->
  pget (k_cw k) c = true \/ pget (k_rfail k) (other c) = true \/ pget (k_wfail k) c = true.
Proof.
  intros x k c I (_ & _ & C & P) F0. unfold ended in F0. unfold dir_inv in I.
  destruct (ph x) as [| | |[|]]; try discriminate.
  - right. exact P.
  - left. rewrite <- C. apply I.
Qed.

Lemma may_close_enabled : forall s k, rel s k -> may_close s = true -> enabled k = true.
Proof.
  intros s k ((IA & IB & _) & RA & RB & C & _) M. unfold may_close in M. unfold enabled, k_fail.
  rewrite <- C.
  destruct (canc s); auto. cbn in M.
  destruct (failed (da s)) eqn:FA.
  { destruct (failed_rel _ _ _ RA FA) as [X|X]; cbn in X; rewrite X; rewrite ?orb_true_r; auto. }
  destruct (failed (db s)) eqn:FB.
  { destruct (failed_rel _ _ _ RB FB) as [X|X]; cbn in X; rewrite X; rewrite ?orb_true_r; auto. }
  cbn in M. apply andb_true_iff in M. destruct M as [EA EB].
  destruct (ended_rel _ _ _ IA RA EA) as [X|[X|X]]; cbn in X;
  destruct (ended_rel _ _ _ IB RB EB) as [Y|[Y|Y]]; cbn in Y;
    rewrite X, Y; rewrite ?orb_true_r; auto.
Qed.

(* how one direction's step shows in the checker *)
Lemma dir_rd_sim : forall x k c d r y,
  dir_inv x -> dir_rel x k c -> dir_step x (DRd d r) = Some y ->
  forall k', cstep k (ERd (other c) d r) = Some k' -> dir_rel y k' c.
Proof.
  intros x k c d r y I (R1 & R2 & R3 & P) H k' K.
  unfold dir_step in H. destruct (ph x) eqn:PH; try discriminate.
  inversion H; subst; clear H. cbn in K. inversion K; subst; clear K.
  unfold dir_rel. cbn [ph rd wr cw k_rd k_wr k_cw k_eof k_rfail k_wfail].
  destruct P as [P1 P2].
  destruct c; cbn [other pget pset pF pS] in *; rewrite R1, P1; (split; [reflexivity|]);
    (split; [assumption|]); (split; [assumption|]);
    destruct d; destruct r; cbn; auto.
Qed.

Lemma dir_rd_other : forall x k c d r k',
  dir_rel x k c -> cstep k (ERd c d r) = Some k' -> dir_rel x k' c.
Proof.
  intros x k c d r k' (R1 & R2 & R3 & P) K. cbn in K. inversion K; subst; clear K.
  unfold dir_rel. cbn [k_rd k_wr k_cw k_eof k_rfail k_wfail].
  destruct c; cbn [other pget pset pF pS] in *; auto.
Qed.

Lemma dir_wr_sim : forall x k c d n ok y,
  dir_inv x -> dir_rel x k c -> dir_step x (DWr d n ok) = Some y ->
  exists k', cstep k (EWr c d n ok) = Some k' /\ dir_rel y k' c
             /\ k_rd k' = k_rd k /\ k_cw k' = k_cw k /\ k_eof k' = k_eof k /\ k_rfail k' = k_rfail k
             /\ k_canc k' = k_canc k /\ k_cl k' = k_cl k
             /\ pget (k_wr k') (other c) = pget (k_wr k) (other c)
             /\ pget (k_wfail k') (other c) = pget (k_wfail k) (other c).
Proof.
  intros x k c d n ok y I (R1 & R2 & R3 & P) H.
  unfold dir_step in H. destruct (ph x) as [|d0 e| |] eqn:PH; try discriminate.
  destruct (leqb d0 d && (n <=? length d0)) eqn:G; try discriminate.
  inversion H; subst; clear H.
  apply andb_true_iff in G. destruct G as [G1 G2]. apply leqb_eq in G1. subst d0.
  apply Nat.leb_le in G2.
  unfold dir_inv in I. rewrite PH in I. destruct I as [I1 I2].
  destruct P as (P1 & P2 & P3).
  assert (CW : pget (k_cw k) c = false) by (rewrite <- R3; exact I2).
  assert (PF : prefixb (pget (k_wr k) c ++ firstn n d) (pget (k_rd k) (other c)) = true).
  { rewrite <- R1, <- R2, I1.
    rewrite <- (firstn_skipn n d) at 2. rewrite app_assoc. apply prefixb_app. }
  cbn [cstep]. rewrite CW, PF. cbn [negb andb].
  eexists. split; [reflexivity|].
  cbn [k_rd k_wr k_cw k_eof k_rfail k_wfail k_canc k_cl].
  split.
  { unfold dir_rel. cbn [ph rd wr cw k_rd k_wr k_cw k_eof k_rfail k_wfail].
    assert (E1 : pget (pset (k_wr k) c (pget (k_wr k) c ++ firstn n d)) c
                 = pget (k_wr k) c ++ firstn n d) by (destruct c; reflexivity).
    assert (E2 : forall b, pget (pset (k_wfail k) c b) c = b) by (destruct c; reflexivity).
    rewrite E1, E2, R2, P3. split; [assumption|]. split; [reflexivity|]. split; [assumption|].
    destruct ok; cbn [negb orb andb].
    - destruct (n =? length d) eqn:Q.
      + apply Nat.eqb_eq in Q. assert (L : (n <? length d) = false) by (apply Nat.ltb_ge; lia).
        rewrite L. destruct e; cbn; auto.
      + apply Nat.eqb_neq in Q. assert (L : (n <? length d) = true) by (apply Nat.ltb_lt; lia).
        rewrite L. auto.
    - auto. }
  repeat split; auto; destruct c; reflexivity.
Qed.

Lemma dir_rel_frame : forall x k k' c,
  dir_rel x k c ->
  pget (k_rd k') (other c) = pget (k_rd k) (other c) -> pget (k_wr k') c = pget (k_wr k) c ->
  pget (k_cw k') c = pget (k_cw k) c -> pget (k_eof k') (other c) = pget (k_eof k) (other c) ->
  pget (k_rfail k') (other c) = pget (k_rfail k) (other c) ->
  pget (k_wfail k') c = pget (k_wfail k) c ->
  dir_rel x k' c.
Proof.
  intros x k k' c (R1 & R2 & R3 & P) A B C D E G. unfold dir_rel.
  rewrite A, B, C, D, E, G. auto.
Qed.

Lemma dir_cw_sim : forall x k c y,
  dir_inv x -> dir_rel x k c -> dir_step x DCW = Some y ->
  exists k', cstep k (ECW c) = Some k' /\ dir_rel y k' c
             /\ k_rd k' = k_rd k /\ k_wr k' = k_wr k /\ k_eof k' = k_eof k /\ k_rfail k' = k_rfail k
             /\ k_wfail k' = k_wfail k /\ k_canc k' = k_canc k /\ k_cl k' = k_cl k
             /\ pget (k_cw k') (other c) = pget (k_cw k) (other c).
Proof.
  intros x k c y I (R1 & R2 & R3 & P) H.
  unfold dir_step in H. destruct (ph x) eqn:PH; try discriminate.
  inversion H; subst; clear H.
  unfold dir_inv in I. rewrite PH in I. destruct I as [I1 I2].
  destruct P as (P1 & P2 & P3).
  assert (L : leqb (pget (k_wr k) c) (pget (k_rd k) (other c)) = true)
    by (rewrite <- R1, <- R2, I1; apply leqb_refl).
  cbn [cstep]. rewrite L, P1. cbn [andb].
  eexists. split; [reflexivity|]. cbn [k_rd k_wr k_cw k_eof k_rfail k_wfail k_canc k_cl].
  split.
  { unfold dir_rel. cbn [ph rd wr cw k_rd k_wr k_cw k_eof k_rfail k_wfail].
    repeat split; auto. destruct c; reflexivity. }
  repeat split; auto. destruct c; reflexivity.
Qed.

Lemma step_sim : forall s k e s', rel s k -> step s e = Some s' ->
  exists k', cstep k e = Some k' /\ rel s' k'.
Proof.
  intros s k e s' RL H.
  assert (INV' : inv s') by (destruct RL as [I _]; eapply step_inv; eauto).
  pose proof RL as (I & RA & RB & C & CF & CS). destruct I as (IA & IB & IC).
  destruct e as [c d r|c d n ok|c|c|]; cbn [step] in H.
  - (* read *)
    destruct (dir_step (dir_of s (other c)) (DRd d r)) as [y|] eqn:E; cbn in H; try discriminate.
    inversion H; subst; clear H.
    destruct (cstep k (ERd c d r)) as [k'|] eqn:K; [|cbn in K; discriminate].
    exists k'. split; [reflexivity|].
    assert (KC : k_canc k' = k_canc k /\ k_cl k' = k_cl k)
      by (cbn in K; inversion K; subst; auto).
    destruct KC as [KC1 KC2].
    destruct c; cbn [other dir_of set_dir] in *.
    + (* read on Fi: direction db (towards Se) moves *)
      unfold rel. cbn [da db canc]. rewrite KC1, KC2.
      split; [exact INV'|]. split; [eapply dir_rd_other; eauto|].
      split; [eapply (dir_rd_sim (db s) k Se); eauto|]. auto.
    + unfold rel. cbn [da db canc]. rewrite KC1, KC2.
      split; [exact INV'|]. split; [eapply (dir_rd_sim (da s) k Fi); eauto|].
      split; [eapply dir_rd_other; eauto|]. auto.
  - (* write *)
    destruct (dir_step (dir_of s c) (DWr d n ok)) as [y|] eqn:E; cbn in H; try discriminate.
    inversion H; subst; clear H.
    destruct c; cbn [dir_of set_dir] in *.
    + destruct (dir_wr_sim _ _ _ _ _ _ _ IA RA E)
        as (k' & K & D & Q1 & Q2 & Q3 & Q4 & Q5 & Q6 & Q7 & Q8).
      exists k'. split; [exact K|]. unfold rel. cbn [da db canc].
      split; [exact INV'|]. split; [exact D|].
      split; [eapply dir_rel_frame; [exact RB|..]; cbn [other] in *; congruence|].
      rewrite Q5, Q6. auto.
    + destruct (dir_wr_sim _ _ _ _ _ _ _ IB RB E)
        as (k' & K & D & Q1 & Q2 & Q3 & Q4 & Q5 & Q6 & Q7 & Q8).
      exists k'. split; [exact K|]. unfold rel. cbn [da db canc].
      split; [exact INV'|].
      split; [eapply dir_rel_frame; [exact RA|..]; cbn [other] in *; congruence|].
      split; [exact D|]. rewrite Q5, Q6. auto.
  - (* close-write *)
    destruct (dir_step (dir_of s c) DCW) as [y|] eqn:E; cbn in H; try discriminate.
    inversion H; subst; clear H.
    destruct c; cbn [dir_of set_dir] in *.
    + destruct (dir_cw_sim _ _ _ _ IA RA E)
        as (k' & K & D & Q1 & Q2 & Q3 & Q4 & Q5 & Q6 & Q7 & Q8).
      exists k'. split; [exact K|]. unfold rel. cbn [da db canc].
      split; [exact INV'|]. split; [exact D|].
      split; [eapply dir_rel_frame; [exact RB|..]; cbn [other] in *; congruence|].
      rewrite Q6, Q7. auto.
    + destruct (dir_cw_sim _ _ _ _ IB RB E)
        as (k' & K & D & Q1 & Q2 & Q3 & Q4 & Q5 & Q6 & Q7 & Q8).
      exists k'. split; [exact K|]. unfold rel. cbn [da db canc].
      split; [exact INV'|].
      split; [eapply dir_rel_frame; [exact RA|..]; cbn [other] in *; congruence|].
      split; [exact D|]. rewrite Q6, Q7. auto.
  - (* close *)
    assert (EN : closedF s' = true -> enabled k = true).
    { intros _. eapply may_close_enabled; [exact RL|].
      destruct c.
      - destruct (mp s); try discriminate. destruct (may_close s); auto; discriminate.
      - apply IC. unfold closedF. destruct (mp s); auto; discriminate. }
    assert (CL : closedF s' = true).
    { destruct c; destruct (mp s); try discriminate;
        [destruct (may_close s); try discriminate|]; inversion H; subst; reflexivity. }
    cbn [cstep]. rewrite (EN CL). eexists. split; [reflexivity|].
    assert (DD : da s' = da s /\ db s' = db s /\ canc s' = canc s).
    { destruct c; destruct (mp s); try discriminate;
        [destruct (may_close s); try discriminate|]; inversion H; subst; auto. }
    destruct DD as (D1 & D2 & D3).
    unfold rel. rewrite D1, D2, D3. cbn [k_canc k_cl].
    split; [exact INV'|].
    split; [eapply dir_rel_frame; [exact RA|..]; reflexivity|].
    split; [eapply dir_rel_frame; [exact RB|..]; reflexivity|].
    split; [exact C|].
    destruct c; cbn [pset pF pS].
    + destruct (mp s) eqn:M; try discriminate. destruct (may_close s); try discriminate.
      inversion H; subst. unfold closedF, closedS in *. cbn [mp set_mp]. rewrite M in *. auto.
    + destruct (mp s) eqn:M; try discriminate.
      inversion H; subst. unfold closedF, closedS in *. cbn [mp set_mp]. rewrite M in *. auto.
  - (* cancel *)
    inversion H; subst; clear H. cbn [cstep]. eexists. split; [reflexivity|].
    unfold rel. cbn [da db canc k_canc k_cl].
    split; [exact INV'|].
    split; [eapply dir_rel_frame; [exact RA|..]; reflexivity|].
    split; [eapply dir_rel_frame; [exact RB|..]; reflexivity|].
    auto.
Qed.

Lemma run_sim : forall tr s k s', rel s k -> run s tr = Some s' ->
  exists k', crun k tr = Some k' /\ rel s' k'.
Proof.
  induction tr as [|e t IH]; intros s k s' RL H; cbn in H.
  - inversion H; subst. exists k. split; auto.
  - destruct (step s e) as [s1|] eqn:E; try discriminate.
    destruct (step_sim _ _ _ _ RL E) as (k1 & K1 & R1).
    destruct (IH _ _ _ R1 H) as (k' & K' & R').
    exists k'. split; auto. cbn. rewrite K1. exact K'.
Qed.

Lemma rel_final : forall s k, rel s k -> quiescent s = true -> cfinal true k = true.
Proof.
  intros s k ((IA & IB & IC) & RA & RB & C & CF & CS) Q.
  unfold quiescent in Q. apply andb_true_iff in Q. destruct Q as [Q QM].
  apply andb_true_iff in Q. destruct Q as [EA EB].
  assert (M : mp s = MDone) by (destruct (mp s); try discriminate; reflexivity).
  unfold cfinal. rewrite CF, CS. unfold closedF, closedS. rewrite M. cbn [andb].
  assert (X : forall x c, dir_inv x -> dir_rel x k c -> ended x = true ->
              implb (clean_dir k c) (pget (k_cw k) c) = true).
  { intros x c I (_ & _ & R3 & P) EN. unfold ended in EN. unfold dir_inv in I.
    destruct (ph x) as [| | |[|]]; try discriminate.
    - unfold clean_dir. destruct P as [P|P]; rewrite P; cbn;
        rewrite ?andb_false_r; reflexivity.
    - rewrite <- R3. destruct I as [_ I]. rewrite I. apply implb_true_r. }
  pose proof (X _ _ IA RA EA) as XA. pose proof (X _ _ IB RB EB) as XB.
  cbn [pget] in XA, XB. rewrite XA, XB. reflexivity.
Qed.

(* The model's own behaviour passes the checker: every accepted trace passes
   the incremental checks, and a trace that leaves the model quiescent passes
   the checks for complete traces as well. *)
Lemma model_passes_check : forall tr s, run init tr = Some s ->
  check_trace false tr = true /\ (quiescent s = true -> check_trace true tr = true).
Proof.
  intros tr s H. destruct (run_sim _ _ _ _ rel_init H) as (k & K & R).
  unfold check_trace. rewrite K. split; [reflexivity|].
  intros Q. eapply rel_final; eauto.
Qed.

(* ---------- the property theorems about ForwardAndClose ---------- *)

Lemma run_trace_state : forall tr s, run init tr = Some s ->
  forall c, rd (dir_of s c) = readfrom (other c) tr /\ wr (dir_of s c) = delivered c tr
            /\ cw (dir_of s c) = has_cw c tr
            /\ closedF s = has_cl Fi tr /\ closedS s = has_cl Se tr /\ canc s = has_cancel tr.
Proof.
  intros tr s H c. destruct (run_sim _ _ _ _ rel_init H) as (k & K & R).
  destruct R as (_ & RA & RB & C & CF & CS).
  destruct (crun_k0 _ _ K) as [A B].
  destruct (A Fi) as (_ & _ & _ & CLF & _). destruct (A Se) as (_ & _ & _ & CLS & _).
  cbn [pget] in CLF, CLS.
  assert (X : dir_rel (dir_of s c) k c) by (destruct c; assumption).
  destruct X as (R1 & R2 & R3 & _).
  destruct (A c) as (_ & W & CWc & _). destruct (A (other c)) as (RD & _).
  repeat split; congruence.
Qed.

Lemma forward_bytes : forall tr s, run init tr = Some s ->
  (forall tr1 tr2, tr = tr1 ++ tr2 ->
     forall c, exists r, readfrom (other c) tr1 = delivered c tr1 ++ r)
  /\ (forall c, match ph (dir_of s c) with
                | PWrite d _ => readfrom (other c) tr = delivered c tr ++ d
                | PEnd true => True
                | _ => delivered c tr = readfrom (other c) tr
                end)
  /\ (forall c tr1 tr2, tr = tr1 ++ ECW c :: tr2 ->
        delivered c tr1 = readfrom (other c) tr1
        /\ eof_last (other c) false tr1 = true
        /\ has_wr c tr2 = false)
  /\ (forall c, ph (dir_of s c) = PEnd false ->
        has_cw c tr = true /\ eof_last (other c) false tr = true
        /\ delivered c tr = readfrom (other c) tr).
Proof.
  intros tr s H.
  destruct (model_passes_check _ _ H) as [CK _].
  destruct (check_trace_sound _ _ CK) as (P1 & P2 & _ & _).
  destruct (run_sim _ _ _ _ rel_init H) as (k & K & R).
  pose proof R as ((IA & IB & _) & RA & RB & _).
  destruct (crun_k0 _ _ K) as [A _].
  split; [exact P1|]. split; [|split; [exact P2|]].
  - intros c. destruct (run_trace_state _ _ H c) as (E1 & E2 & _).
    assert (I : dir_inv (dir_of s c)) by (destruct c; assumption).
    unfold dir_inv in I. rewrite <- E1, <- E2.
    destruct (ph (dir_of s c)) as [|d e| |[|]]; auto; apply I.
  - intros c PH. destruct (run_trace_state _ _ H c) as (E1 & E2 & E3 & _).
    assert (I : dir_inv (dir_of s c)) by (destruct c; assumption).
    assert (X : dir_rel (dir_of s c) k c) by (destruct c; assumption).
    unfold dir_inv in I. rewrite PH in I. destruct I as [I1 I2].
    destruct X as (_ & _ & _ & P). rewrite PH in P. destruct P as (P1' & _).
    destruct (A (other c)) as (_ & _ & _ & _ & EE & _).
    rewrite <- E3, <- EE, <- E1, <- E2. auto.
Qed.

Lemma forward_closed : forall tr s, run init tr = Some s ->
  (forall c tr1 tr2, tr = tr1 ++ ECl c :: tr2 ->
     has_cancel tr1 = true \/ fail_in tr1 = true
     \/ (has_cw Fi tr1 = true /\ has_cw Se tr1 = true))
  /\ has_cl Fi tr = closedF s /\ has_cl Se tr = closedS s
  /\ (closedF s = true -> may_close s = true)
  /\ (closedS s = true -> closedF s = true)
  /\ (quiescent s = true -> has_cl Fi tr = true /\ has_cl Se tr = true).
Proof.
  intros tr s H.
  destruct (model_passes_check _ _ H) as [CK _].
  destruct (check_trace_sound _ _ CK) as (_ & _ & P3 & _).
  destruct (run_trace_state _ _ H Fi) as (_ & _ & _ & CF & CS & _).
  pose proof (run_inv _ _ _ init_inv H) as (_ & _ & IC).
  split; [exact P3|]. split; [auto|]. split; [auto|]. split; [exact IC|]. split.
  - unfold closedS, closedF. destruct (mp s); auto.
  - intros Q. unfold quiescent in Q. rewrite <- CF, <- CS. unfold closedF, closedS.
    destruct (mp s); rewrite ?andb_false_r in Q; try discriminate. auto.
Qed.

(* progress of the closing goroutine: it can close exactly when the condition
   holds, nothing else is open to it, and two ended directions enable it *)
Lemma forward_progress : forall s,
  (mp s = MWait -> may_close s = true -> step s (ECl Fi) = Some (set_mp s MClose2))
  /\ (mp s = MWait -> may_close s = false -> step s (ECl Fi) = None /\ step s (ECl Se) = None)
  /\ (mp s = MClose2 -> step s (ECl Se) = Some (set_mp s MDone) /\ step s (ECl Fi) = None)
  /\ (mp s = MDone -> step s (ECl Fi) = None /\ step s (ECl Se) = None)
  /\ (ended (da s) = true -> ended (db s) = true -> may_close s = true)
  /\ (failed (da s) = true \/ failed (db s) = true \/ canc s = true -> may_close s = true).
Proof.
  intros s. cbn [step]. split; [|split; [|split; [|split; [|split]]]].
  - intros M MC. rewrite M, MC. reflexivity.
  - intros M MC. rewrite M, MC. auto.
  - intros M. rewrite M. auto.
  - intros M. rewrite M. auto.
  - intros EA EB. unfold may_close. rewrite EA, EB. rewrite !orb_true_r. reflexivity.
  - intros M. unfold may_close. destruct M as [M|[M|M]]; rewrite M; rewrite ?orb_true_r; reflexivity.
Qed.

(* ---------- counters ---------- *)

Lemma audited_aud_sum : forall tr c, aud_sum c (auds_of_trace tr) = audited c tr.
Proof.
  induction tr as [|e t IH]; intros c; cbn; auto.
  destruct e; cbn; auto; rewrite IH; reflexivity.
Qed.

Lemma wf_audited_length : forall tr c, wf_trace tr = true -> audited c tr = length (delivered c tr).
Proof.
  induction tr as [|e t IH]; intros c W; cbn in *; auto.
  destruct e as [c0 d r|c0 d n ok|c0|c0|]; auto.
  apply andb_true_iff in W. destruct W as [W1 W2]. apply Nat.leb_le in W1.
  rewrite app_length, (IH c W2).
  destruct c, c0; cbn; auto; rewrite firstn_length; lia.
Qed.

Lemma run_wf_trace : forall tr s s', run s tr = Some s' -> wf_trace tr = true.
Proof.
  induction tr as [|e t IH]; intros s s' H; cbn in *; auto.
  destruct (step s e) as [s1|] eqn:E; try discriminate.
  pose proof (IH _ _ H) as W.
  destruct e as [c0 d r|c0 d n ok|c0|c0|]; auto.
  rewrite W, andb_true_r. cbn in E.
  destruct (dir_step (dir_of s c0) (DWr d n ok)) as [y|] eqn:D; cbn in E; try discriminate.
  unfold dir_step in D. destruct (ph (dir_of s c0)) as [|dd ee| |]; try discriminate.
  destruct (leqb dd d && (n <=? length dd)) eqn:G; try discriminate.
  apply andb_true_iff in G. destruct G as [G1 G2]. apply leqb_eq in G1. subst. exact G2.
Qed.

(* what the auditor of side c was told in total is the number of bytes
   delivered to side c *)
Lemma forward_audit_bytes : forall tr s c, run init tr = Some s ->
  audited c tr = length (delivered c tr).
Proof. intros tr s c H. apply wf_audited_length. eapply run_wf_trace; eauto. Qed.

Definition sinv (s : sst) : Prop :=
  NoDup (running s) /\ c_open (cn s) = length (running s)
  /\ (forall id, In id (running s) -> In id (opened s)).

Lemma mem_In : forall x l, mem x l = true <-> In x l.
Proof.
  intros x l. unfold mem. rewrite existsb_exists. split.
  - intros (y & Hy & E). apply Nat.eqb_eq in E. subst. exact Hy.
  - intros H. exists x. split; auto. apply Nat.eqb_refl.
Qed.

Lemma remove1_notin : forall x l, ~ In x l -> remove1 x l = l.
Proof.
  intros x l. unfold remove1. induction l as [|z l IH]; intros NI; cbn [filter]; auto.
  destruct (Nat.eqb_spec x z) as [->|NE]; cbn [negb].
  - exfalso. apply NI. left. reflexivity.
  - f_equal. apply IH. intros X. apply NI. right. exact X.
Qed.

Lemma remove1_cons : forall x y l,
  remove1 x (y :: l) = if Nat.eqb x y then remove1 x l else y :: remove1 x l.
Proof. intros x y l. unfold remove1. cbn [filter]. destruct (Nat.eqb x y); reflexivity. Qed.

Lemma remove1_length : forall x l, NoDup l -> In x l -> S (length (remove1 x l)) = length l.
Proof.
  intros x l ND. induction ND as [|y l NI ND IH]; intros HI; [destruct HI|].
  rewrite remove1_cons. destruct (Nat.eqb_spec x y) as [->|NE].
  - rewrite remove1_notin by exact NI. reflexivity.
  - destruct HI as [E|HI]; [congruence|]. cbn [length]. f_equal. apply IH. exact HI.
Qed.

Lemma remove1_In : forall x y l, In y (remove1 x l) -> In y l /\ y <> x.
Proof.
  intros x y l H. unfold remove1 in H. apply filter_In in H. destruct H as [H1 H2].
  split; auto. intros ->. rewrite Nat.eqb_refl in H2. discriminate.
Qed.

Lemma remove1_NoDup : forall x l, NoDup l -> NoDup (remove1 x l).
Proof. intros x l ND. unfold remove1. apply NoDup_filter. exact ND. Qed.

Lemma sstep_inv : forall s e s', sinv s -> sstep s e = Some s' -> sinv s'.
Proof.
  intros s e s' (ND & OP & SUB) H. destruct e as [id|id c n|id]; cbn in H.
  - destruct (mem id (opened s)) eqn:M; try discriminate. inversion H; subst; clear H.
    unfold sinv. cbn. split; [|split].
    + constructor; auto. intros X. apply SUB in X. apply mem_In in X. congruence.
    + rewrite OP. reflexivity.
    + intros y [->|Y]; auto.
  - destruct (mem id (opened s)); try discriminate. inversion H; subst; clear H.
    unfold sinv. cbn. auto.
  - destruct (mem id (running s)) eqn:M; try discriminate. inversion H; subst; clear H.
    apply mem_In in M. unfold sinv. cbn. split; [|split].
    + apply remove1_NoDup. exact ND.
    + rewrite OP. rewrite <- (remove1_length id (running s) ND M). reflexivity.
    + intros y Y. apply remove1_In in Y. apply SUB. apply Y.
Qed.

Lemma srun_counts : forall tr s s', sinv s -> srun s tr = Some s' ->
  sinv s'
  /\ c_total (cn s') = c_total (cn s) + count_opens tr
  /\ c_open (cn s') + count_dones tr = c_open (cn s) + count_opens tr
  /\ c_in (cn s') = c_in (cn s) + sched_sum Fi tr
  /\ c_out (cn s') = c_out (cn s) + sched_sum Se tr.
Proof.
  induction tr as [|e t IH]; intros s s' I H; cbn in H.
  - inversion H; subst. cbn. split; [exact I|]. repeat split; lia.
  - destruct (sstep s e) as [s1|] eqn:E; try discriminate.
    pose proof (sstep_inv _ _ _ I E) as I1.
    destruct (IH _ _ I1 H) as (J & T & O & A & B). split; [exact J|].
    destruct I as (ND & OP & SUB).
    destruct e as [id|id c n|id]; cbn in E.
    + destruct (mem id (opened s)); try discriminate. inversion E; subst; clear E.
      cbn in *. repeat split; lia.
    + destruct (mem id (opened s)); try discriminate. inversion E; subst; clear E.
      cbn in *. destruct c; repeat split; lia.
    + destruct (mem id (running s)) eqn:M; try discriminate. inversion E; subst; clear E.
      apply mem_In in M. cbn in *.
      assert (length (running s) > 0) by (destruct (running s); [contradiction|cbn; lia]).
      repeat split; lia.
Qed.

Lemma sst0_inv : sinv sst0.
Proof. unfold sinv. cbn. repeat split; auto. constructor. Qed.

Lemma session_counters : forall tr s, srun sst0 tr = Some s ->
  c_total (cn s) = count_opens tr
  /\ c_open (cn s) = length (running s)
  /\ c_open (cn s) + count_dones tr = count_opens tr
  /\ (running s = [] -> c_open (cn s) = 0)
  /\ c_in (cn s) = sched_sum Fi tr
  /\ c_out (cn s) = sched_sum Se tr.
Proof.
  intros tr s H. destruct (srun_counts _ _ _ sst0_inv H) as ((ND & OP & _) & T & O & A & B).
  cbn in *. repeat split; auto. intros R. rewrite OP, R. reflexivity.
Qed.

(* the sum over an interleaving is the sum of the per-connection sums *)
Fixpoint drop_id (k : nat) (tr : list sev) : list sev :=
  match tr with
  | [] => []
  | SOpen id :: t => if Nat.eqb id k then drop_id k t else SOpen id :: drop_id k t
  | SAud id c n :: t => if Nat.eqb id k then drop_id k t else SAud id c n :: drop_id k t
  | SDone id :: t => if Nat.eqb id k then drop_id k t else SDone id :: drop_id k t
  end.

Lemma sched_sum_split : forall tr c k,
  sched_sum c tr = sched_sum c (drop_id k tr) + aud_sum c (auds_of_sched k tr).
Proof.
  induction tr as [|e t IH]; intros c k; cbn; auto.
  destruct e as [id|id c0 n|id]; cbn.
  - destruct (Nat.eqb id k); cbn; auto.
  - rewrite (Nat.eqb_sym k id). destruct (Nat.eqb id k); cbn; rewrite (IH c k); lia.
  - destruct (Nat.eqb id k); cbn; auto.
Qed.

Lemma drop_id_below : forall tr k, sched_ids_below (S k) tr = true ->
  sched_ids_below k (drop_id k tr) = true.
Proof.
  induction tr as [|e t IH]; intros k H; auto.
  assert (X : forall id, (id <? S k) && sched_ids_below (S k) t = true ->
              (if Nat.eqb id k then true else (id <? k)) = true
              /\ sched_ids_below k (drop_id k t) = true).
  { intros id G. apply andb_true_iff in G. destruct G as [G1 G2]. apply Nat.ltb_lt in G1.
    split; [|apply IH; exact G2].
    destruct (Nat.eqb_spec id k); auto. apply Nat.ltb_lt. lia. }
  destruct e as [id|id c0 n|id]; cbn [sched_ids_below drop_id] in *;
    destruct (X id H) as [X1 X2]; destruct (Nat.eqb id k); auto;
    cbn [sched_ids_below]; rewrite X1, X2; reflexivity.
Qed.

Lemma drop_id_auds : forall tr k j, j <> k ->
  auds_of_sched j (drop_id k tr) = auds_of_sched j tr.
Proof.
  induction tr as [|e t IH]; intros k j NE; cbn; auto.
  destruct e as [id|id c0 n|id]; cbn.
  - destruct (Nat.eqb id k); cbn; auto.
  - destruct (Nat.eqb_spec id k) as [->|N1]; cbn.
    + destruct (Nat.eqb_spec j k); [contradiction|]. auto.
    + rewrite (IH k j NE). reflexivity.
  - destruct (Nat.eqb id k); cbn; auto.
Qed.

Lemma sched_sum_none : forall tr c, sched_ids_below 0 tr = true -> sched_sum c tr = 0.
Proof.
  intros [|e t] c H; auto. cbn in H. destruct e; cbn in H; discriminate.
Qed.

Lemma interleaving_sum : forall (per : list (list (side * nat))) tr c,
  sched_ids_below (length per) tr = true ->
  (forall id, id < length per -> auds_of_sched id tr = nth id per []) ->
  sched_sum c tr = list_sum (map (aud_sum c) per).
Proof.
  intros per. induction per as [|p per IH] using rev_ind; intros tr c B A.
  - cbn. apply sched_sum_none. exact B.
  - rewrite app_length in *. cbn [length] in *. rewrite Nat.add_1_r in *.
    rewrite (sched_sum_split tr c (length per)).
    rewrite map_app, list_sum_app. cbn [map].
    replace (list_sum [aud_sum c p]) with (aud_sum c p) by (cbn; lia).
    rewrite (A (length per)) by lia. rewrite app_nth2, Nat.sub_diag by lia. cbn [nth].
    f_equal. apply IH.
    + apply drop_id_below. exact B.
    + intros id L. rewrite drop_id_auds by lia. rewrite (A id) by lia.
      rewrite app_nth1 by lia. reflexivity.
Qed.

(* TotalInboundData / TotalOutboundData are the bytes delivered to the
   incoming / outgoing connections of all forwards, whatever the interleaving *)
Lemma session_bytes : forall (trs : list (list ev)) sched s,
  srun sst0 sched = Some s ->
  sched_ids_below (length trs) sched = true ->
  (forall id, id < length trs -> auds_of_sched id sched = auds_of_trace (nth id trs [])) ->
  (forall tr, In tr trs -> exists f, run init tr = Some f) ->
  c_in (cn s) = list_sum (map (fun tr => length (delivered Fi tr)) trs)
  /\ c_out (cn s) = list_sum (map (fun tr => length (delivered Se tr)) trs).
Proof.
  intros trs sched s H B A ACC.
  destruct (session_counters _ _ H) as (_ & _ & _ & _ & CI & CO).
  assert (X : forall c, sched_sum c sched = list_sum (map (fun tr => length (delivered c tr)) trs)).
  { intros c. rewrite (interleaving_sum (map auds_of_trace trs) sched c).
    - rewrite map_map. f_equal. apply map_ext_in. intros tr IN.
      rewrite audited_aud_sum. destruct (ACC _ IN) as [f Hf].
      eapply forward_audit_bytes; eauto.
    - rewrite map_length. exact B.
    - rewrite map_length. intros id L. rewrite (A id L).
      change (@nil (side * nat)) with (auds_of_trace []). rewrite map_nth. reflexivity. }
  rewrite CI, CO, !X. auto.
Qed.

(* ---------- soundness of the whole case checker ---------- *)

Definition ends_property (sc : scen) (c s : peer_obs) : Prop :=
  (exists r, sent c = recv s ++ r) /\ (exists r, sent s = recv c ++ r)
  /\ (demand_full sc = true -> recv s = sent c /\ recv c = sent s)
  /\ (demand_eof sc (s_endC sc) = true -> eof s = true)
  /\ (demand_eof sc (s_endS sc) = true -> eof c = true).

Definition case_property (x : session_case) : Prop :=
  let '(cs, mid, fin) := x in
  (forall cc, In cc cs ->
     cc_stuck cc = false
     /\ trace_property (cc_complete cc) (cc_tr cc)
     /\ ends_property (cc_scen cc) (cc_c cc) (cc_s cc))
  /\ c_open mid = length cs /\ c_total mid = length cs /\ c_in mid = 0 /\ c_out mid = 0
  /\ c_open fin = 0 /\ c_total fin = length cs
  /\ c_in fin = sum_audited Fi cs /\ c_out fin = sum_audited Se cs.

Lemma check_ends_sound : forall sc c s, check_ends sc c s = true -> ends_property sc c s.
Proof.
  intros sc c s H. unfold check_ends in H.
  repeat (apply andb_true_iff in H; destruct H as [H ?]).
  unfold ends_property. split; [apply prefixb_spec; auto|]. split; [apply prefixb_spec; auto|].
  split; [|split].
  - intros D. rewrite D in *. cbn in *.
    match goal with X : leqb _ _ && leqb _ _ = true |- _ =>
      apply andb_true_iff in X; destruct X as [X1 X2];
      apply leqb_eq in X1; apply leqb_eq in X2; auto end.
  - intros D. rewrite D in *. cbn in *. auto.
  - intros D. rewrite D in *. cbn in *. auto.
Qed.

Lemma check_C33_sound : forall x, check_C33 x = true -> case_property x.
Proof.
  intros [[cs mid] fin] H. unfold check_C33 in H.
  apply andb_true_iff in H. destruct H as [HC HN].
  unfold case_property. split.
  - intros cc IN. rewrite forallb_forall in HC. specialize (HC _ IN).
    unfold check_conn in HC.
    apply andb_true_iff in HC. destruct HC as [HC HE].
    apply andb_true_iff in HC. destruct HC as [HS HT].
    split; [destruct (cc_stuck cc); auto; discriminate|].
    split; [apply check_trace_sound; auto|apply check_ends_sound; auto].
  - unfold check_counters in HN.
    repeat (apply andb_true_iff in HN; destruct HN as [HN ?]).
    repeat match goal with X : (_ =? _) = true |- _ => apply Nat.eqb_eq in X end.
    repeat split; auto.
Qed.

(* the model's own sessions pass the counters check: the canonical schedule
   of accepted traces yields counters that satisfy [check_counters] with the
   idle mid-run sample *)
Lemma seq_sched_counters : forall trs id s,
  sinv s -> (forall j, In j (opened s) -> j < id) ->
  exists s', srun s (seq_sched id trs) = Some s'
    /\ c_open (cn s') = c_open (cn s)
    /\ c_total (cn s') = c_total (cn s) + length trs
    /\ c_in (cn s') = c_in (cn s) + list_sum (map (audited Fi) trs)
    /\ c_out (cn s') = c_out (cn s) + list_sum (map (audited Se) trs)
    /\ running s' = running s.
Proof.
  induction trs as [|tr trs IH]; intros id s I FR.
  - exists s. cbn. repeat split; auto; lia.
  - cbn [seq_sched].
    assert (NM : mem id (opened s) = false).
    { destruct (mem id (opened s)) eqn:M; auto. apply mem_In in M. apply FR in M. lia. }
    set (s1 := {| cn := {| c_open := S (c_open (cn s)); c_total := S (c_total (cn s));
                           c_in := c_in (cn s); c_out := c_out (cn s) |};
                  running := id :: running s; opened := id :: opened s |}).
    assert (E1 : sstep s (SOpen id) = Some s1) by (cbn; rewrite NM; reflexivity).
    (* the audits of this connection *)
    assert (AU : forall l sx, mem id (opened sx) = true ->
              exists sy, srun sx (map (fun p => SAud id (fst p) (snd p)) l) = Some sy
                /\ c_open (cn sy) = c_open (cn sx) /\ c_total (cn sy) = c_total (cn sx)
                /\ c_in (cn sy) = c_in (cn sx) + aud_sum Fi l
                /\ c_out (cn sy) = c_out (cn sx) + aud_sum Se l
                /\ running sy = running sx /\ opened sy = opened sx).
    { induction l as [|[c n] l IHl]; intros sx MX.
      - exists sx. cbn. repeat split; auto; lia.
      - cbn [map srun fst snd sstep]. rewrite MX.
        match goal with |- exists sy, srun ?S0 _ = _ /\ _ =>
          destruct (IHl S0 MX) as (sy & R & A1 & A2 & A3 & A4 & A5 & A6) end.
        exists sy. split; [exact R|]. cbn in *. destruct c; repeat split; auto; lia. }
    assert (M1 : mem id (opened s1) = true) by (cbn; rewrite Nat.eqb_refl; reflexivity).
    destruct (AU (auds_of_trace tr) s1 M1) as (s2 & R2 & B1 & B2 & B3 & B4 & B5 & B6).
    assert (M2 : mem id (running s2) = true) by (rewrite B5; cbn; rewrite Nat.eqb_refl; reflexivity).
    set (s3 := {| cn := {| c_open := pred (c_open (cn s2)); c_total := c_total (cn s2);
                           c_in := c_in (cn s2); c_out := c_out (cn s2) |};
                  running := remove1 id (running s2); opened := opened s2 |}).
    assert (E3 : sstep s2 (SDone id) = Some s3) by (cbn; rewrite M2; reflexivity).
    assert (I1 : sinv s1) by (eapply sstep_inv; eauto).
    assert (I2 : sinv s2).
    { destruct I1 as (N1 & O1 & S1). unfold sinv. rewrite B5, B6, B1. auto. }
    assert (I3 : sinv s3) by (eapply sstep_inv; eauto).
    assert (RR : running s3 = running s).
    { unfold s3. cbn [running]. rewrite B5. unfold s1. cbn [running].
      rewrite remove1_cons, Nat.eqb_refl.
      apply remove1_notin. intros X. destruct I as (_ & _ & SUB). apply SUB in X.
      apply FR in X. lia. }
    assert (FR3 : forall j, In j (opened s3) -> j < S id).
    { cbn. rewrite B6. cbn. intros j [->|J]; [lia|]. apply FR in J. lia. }
    destruct (IH (S id) s3 I3 FR3) as (s' & R' & C1 & C2 & C3 & C4 & C5).
    exists s'. split.
    + cbn [srun]. rewrite E1.
      assert (AP : forall a b sx, srun sx (a ++ b) =
                 match srun sx a with Some sy => srun sy b | None => None end).
      { induction a as [|e a IHa]; intros b sx; cbn; auto. destruct (sstep sx e); auto. }
      rewrite AP, R2. cbn [srun]. rewrite E3. exact R'.
    + rewrite audited_aud_sum in B3, B4. cbn in *. unfold list_sum in *.
      repeat split; try lia. rewrite C5. exact RR.
Qed.
