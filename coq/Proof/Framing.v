(* Lemmas about Model/Framing.v (C22): the incremental decoder is independent
   of fragmentation, inverts the encoder, agrees with the whole-stream
   specification on every byte stream, rejects oversized declarations before
   touching the body; the flush order of the code delivers everything through
   any lawful compressor, and no other order does. *)
From Coq Require Import List Arith NArith Bool Lia Strings.Byte.
From Coq Require Import ZifyBool ZifyNat ZifyN.
Import ListNotations.
From Mv Require Import Model.Varint Model.Framing Proof.Varint.
Local Open Scope N_scope.

(* ---- list helpers ---------------------------------------------------------- *)
Lemma split_acc_spec : forall A (l : list A) n racc,
  split_acc n l racc = (rev racc ++ firstn (N.to_nat n) l, skipn (N.to_nat n) l).
Proof.
  induction l as [|x t IH]; intros n racc; cbn [split_acc].
  - rewrite rev'_spec, firstn_nil, skipn_nil, app_nil_r. reflexivity.
  - destruct (n =? 0) eqn:E.
    + apply N.eqb_eq in E. subst n. cbn [N.to_nat firstn skipn].
      rewrite rev'_spec, app_nil_r. reflexivity.
    + apply N.eqb_neq in E.
      rewrite IH. replace (N.to_nat n) with (S (N.to_nat (N.pred n))) by lia.
      cbn [firstn skipn rev]. rewrite <- app_assoc. reflexivity.
Qed.

Lemma split_at_spec : forall A (l : list A) n,
  split_at n l = (firstn (N.to_nat n) l, skipn (N.to_nat n) l).
Proof. intros. unfold split_at. rewrite split_acc_spec. reflexivity. Qed.

Lemma split_at_app : forall A (p p1 p2 : list A) k, split_at k p = (p1, p2) -> p = p1 ++ p2.
Proof.
  intros A p p1 p2 k H. rewrite split_at_spec in H. injection H as <- <-.
  symmetry. apply firstn_skipn.
Qed.

Lemma split_at_len : forall A (p p1 p2 : list A) k,
  k <= lenN p -> split_at k p = (p1, p2) -> lenN p1 = k.
Proof.
  intros A p p1 p2 k Hk H. rewrite split_at_spec in H. injection H as <- <-.
  rewrite lenN_spec in *. rewrite firstn_length_le by lia. lia.
Qed.

Lemma msgs_eqb_eq : forall a b, msgs_eqb a b = true <-> a = b.
Proof.
  induction a as [|x a IH]; intros [|y b]; cbn [msgs_eqb]; split; intro H;
    try reflexivity; try discriminate.
  - destruct (bytes_eqb x y) eqn:E; [|discriminate].
    apply bytes_eqb_eq in E. apply IH in H. subst. reflexivity.
  - injection H as -> ->. rewrite (proj2 (bytes_eqb_eq y y) eq_refl). apply IH. reflexivity.
Qed.

Lemma encode_all_fast_spec : forall ms, encode_all_fast ms = encode_all ms.
Proof.
  intro ms. unfold encode_all_fast, encode_all.
  assert (G : forall l acc,
             fold_left (fun acc m => rev_append (frame m) acc) l acc
             = rev (concat (map frame l)) ++ acc).
  { induction l as [|m l IH]; intro acc; cbn [fold_left map concat].
    - reflexivity.
    - rewrite IH, rev_append_rev, rev_app_distr, <- app_assoc. reflexivity. }
  rewrite G, rev'_spec, app_nil_r, rev_involutive. reflexivity.
Qed.

(* ======================= the decoder ======================================== *)
Section Decoder.
Variable cf : dconf.

Lemma feed_acc_app : forall a b st acc,
  feed_acc cf st (a ++ b) acc
  = let (st', acc') := feed_acc cf st a acc in feed_acc cf st' b acc'.
Proof.
  induction a as [|x a IH]; intros b st acc; cbn [app feed_acc].
  - reflexivity.
  - destruct (feed1 cf st x) as [st1 o]. apply IH.
Qed.

Lemma feed_all_acc_concat : forall frags st acc,
  feed_all_acc cf st frags acc = feed_acc cf st (concat frags) acc.
Proof.
  induction frags as [|f t IH]; intros st acc; cbn [feed_all_acc concat].
  - reflexivity.
  - rewrite feed_acc_app. destruct (feed_acc cf st f acc) as [st' r]. apply IH.
Qed.

(* fragmentation is irrelevant: only the concatenation matters *)
Lemma feed_all_concat : forall frags st, feed_all cf st frags = feed cf st (concat frags).
Proof. intros. unfold feed_all, feed. rewrite feed_all_acc_concat. reflexivity. Qed.

Lemma feed_err : forall l st acc e, ph st = PErr e -> feed_acc cf st l acc = (st, acc).
Proof.
  induction l as [|b t IH]; intros st acc e H; cbn [feed_acc].
  - reflexivity.
  - unfold feed1. rewrite H. cbn [push]. apply (IH st acc e H).
Qed.

Lemma vstep_cont_vi : forall v b v', vstep v b = VCont v' -> vi v' = S (vi v).
Proof.
  intros v b v' H. unfold vstep in H.
  destruct (bval b <? 128).
  - destruct (Nat.eqb (vi v) 9 && (1 <? bval b)); discriminate.
  - destruct (Nat.eqb (vi v) 9); [discriminate|]. injection H as <-. reflexivity.
Qed.

Lemma feed_header : forall l v st acc n r,
  ph st = PLen v -> read_uvarint_from v l = UvOk n r ->
  exists k, 1 <= k /\ lenN l = k + lenN r /\
    feed_acc cf st l acc
    = (let (st', o) := on_length cf (cap st) (allocated st) (consumed st + k) n in
       feed_acc cf st' r (push o acc)).
Proof.
  induction l as [|b t IH]; intros v st acc n r Hph Hr; cbn [read_uvarint_from] in Hr;
    [discriminate|].
  cbn [feed_acc]. unfold feed1. rewrite Hph.
  destruct (vstep v b) as [v'|n'|] eqn:Ev.
  - destruct (IH v' {| ph := PLen v'; consumed := N.succ (consumed st); cap := cap st;
                       allocated := allocated st |} acc n r eq_refl Hr)
      as (k & Hk1 & Hlen & Heq).
    exists (k + 1). split; [lia|]. split; [rewrite lenN_cons; lia|].
    cbn [push]. rewrite Heq. cbn [cap allocated consumed].
    replace (N.succ (consumed st) + k) with (consumed st + (k + 1)) by lia. reflexivity.
  - injection Hr as -> ->. exists 1. split; [lia|]. split; [rewrite lenN_cons; lia|].
    replace (N.succ (consumed st)) with (consumed st + 1) by lia. reflexivity.
  - discriminate.
Qed.

Lemma feed_len_short : forall l v st acc,
  ph st = PLen v -> read_uvarint_from v l = UvShort ->
  exists st' v', feed_acc cf st l acc = (st', acc) /\ ph st' = PLen v'
                 /\ vi v' = (vi v + length l)%nat.
Proof.
  induction l as [|b t IH]; intros v st acc Hph Hr.
  - exists st, v. cbn [feed_acc length]. repeat split; [exact Hph|lia].
  - cbn [read_uvarint_from] in Hr. cbn [feed_acc]. unfold feed1. rewrite Hph.
    destruct (vstep v b) as [v'|n'|] eqn:Ev; try discriminate.
    destruct (IH v' {| ph := PLen v'; consumed := N.succ (consumed st); cap := cap st;
                       allocated := allocated st |} acc eq_refl Hr)
      as (st' & v'' & Heq & Hph' & Hvi).
    exists st', v''. cbn [push]. split; [exact Heq|]. split; [exact Hph'|].
    apply vstep_cont_vi in Ev. cbn [length]. lia.
Qed.

Lemma feed_len_overflow : forall l v st acc,
  ph st = PLen v -> read_uvarint_from v l = UvOverflow ->
  exists st', feed_acc cf st l acc = (st', acc) /\ ph st' = PErr EOverflow.
Proof.
  induction l as [|b t IH]; intros v st acc Hph Hr; cbn [read_uvarint_from] in Hr;
    [discriminate|].
  cbn [feed_acc]. unfold feed1. rewrite Hph.
  destruct (vstep v b) as [v'|n'|] eqn:Ev; try discriminate.
  - cbn [push]. eapply IH; [reflexivity|exact Hr].
  - cbn [push]. eexists. split; [apply (feed_err t _ acc EOverflow); reflexivity|reflexivity].
Qed.

Lemma feed_body : forall m need racc st acc r,
  ph st = PBody need racc -> lenN m = need -> 1 <= need ->
  feed_acc cf st (m ++ r) acc
  = feed_acc cf {| ph := PLen v0; consumed := consumed st + need; cap := cap st;
                   allocated := allocated st |} r ((rev racc ++ m) :: acc).
Proof.
  induction m as [|b t IH]; intros need racc st acc r Hph Hlen Hneed.
  - rewrite lenN_nil in Hlen. lia.
  - rewrite lenN_cons in Hlen. cbn [app feed_acc]. unfold feed1. rewrite Hph.
    destruct (need =? 1) eqn:E.
    + apply N.eqb_eq in E. assert (t = []) by (apply lenN_zero; lia). subst t need.
      cbn [push app]. rewrite rev'_spec. cbn [rev].
      replace (N.succ (consumed st)) with (consumed st + 1) by lia. reflexivity.
    + apply N.eqb_neq in E. cbn [push].
      rewrite (IH (N.pred need) (b :: racc)); [|reflexivity|lia|lia].
      cbn [consumed cap allocated rev]. rewrite <- app_assoc. cbn [app].
      replace (N.succ (consumed st) + N.pred need) with (consumed st + need) by lia.
      reflexivity.
Qed.

Lemma feed_body_short : forall l need racc st acc,
  ph st = PBody need racc -> lenN l < need ->
  exists st' need' racc', feed_acc cf st l acc = (st', acc) /\ ph st' = PBody need' racc'.
Proof.
  induction l as [|b t IH]; intros need racc st acc Hph Hlen.
  - exists st, need, racc. split; [reflexivity|exact Hph].
  - rewrite lenN_cons in Hlen. cbn [feed_acc]. unfold feed1. rewrite Hph.
    replace (need =? 1) with false by (symmetry; apply N.eqb_neq; lia).
    cbn [push]. apply (IH (N.pred need) (b :: racc)); [reflexivity|lia].
Qed.

(* one frame *)
Lemma feed_frame : forall m rest st acc,
  ph st = PLen v0 -> lenN m <= limit cf -> lenN m < 2 ^ 64 ->
  exists st', ph st' = PLen v0
              /\ feed_acc cf st (frame m ++ rest) acc = feed_acc cf st' rest (m :: acc).
Proof.
  intros m rest st acc Hph Hlim H64. unfold frame. rewrite <- app_assoc.
  destruct (feed_header (uvarint (lenN m) ++ m ++ rest) v0 st acc (lenN m) (m ++ rest) Hph
              (read_uvarint_uvarint _ _ H64)) as (k & Hk & Hlen & Heq).
  rewrite Heq. unfold on_length.
  replace (limit cf <? lenN m) with false by (symmetry; apply N.ltb_ge; exact Hlim).
  destruct (buffer_with_size cf (cap st) (lenN m)) as [cap' al].
  destruct (lenN m =? 0) eqn:E0.
  - apply N.eqb_eq in E0. apply lenN_zero in E0. subst m. cbn [app push].
    eexists. split; [|reflexivity]. reflexivity.
  - apply N.eqb_neq in E0. cbn [push].
    rewrite (feed_body m (lenN m) []); [|reflexivity|reflexivity|lia].
    cbn [rev app]. eexists. split; [|reflexivity]. reflexivity.
Qed.

Lemma feed_encode_all : forall ms st acc,
  ph st = PLen v0 -> limit cf < 2 ^ 64 -> Forall (fun m => lenN m <= limit cf) ms ->
  exists st', ph st' = PLen v0
              /\ feed_acc cf st (encode_all ms) acc = (st', rev ms ++ acc).
Proof.
  induction ms as [|m ms IH]; intros st acc Hph H64 Hall.
  - exists st. split; [exact Hph|reflexivity].
  - inversion Hall as [|? ? Hm Hms]; subst.
    unfold encode_all. cbn [map concat]. fold (encode_all ms).
    destruct (feed_frame m (encode_all ms) st acc Hph Hm ltac:(lia)) as (st1 & Hph1 & Heq1).
    rewrite Heq1.
    destruct (IH st1 (m :: acc) Hph1 H64 Hms) as (st' & Hph' & Heq').
    exists st'. split; [exact Hph'|]. rewrite Heq'. cbn [rev]. rewrite <- app_assoc. reflexivity.
Qed.

Theorem framing_fragmentation : forall ms frags st,
  ph st = PLen v0 -> limit cf < 2 ^ 64 -> Forall (fun m => lenN m <= limit cf) ms ->
  concat frags = encode_all ms ->
  exists st', feed_all cf st frags = (st', ms) /\ ph st' = PLen v0.
Proof.
  intros ms frags st Hph H64 Hall Hc.
  unfold feed_all. rewrite feed_all_acc_concat, Hc.
  destruct (feed_encode_all ms st [] Hph H64 Hall) as (st' & Hph' & Heq).
  rewrite Heq. exists st'. split; [|exact Hph'].
  rewrite rev'_spec, app_nil_r, rev_involutive. reflexivity.
Qed.

(* the size limit: nothing of the body is consumed, nothing is allocated *)
Theorem framing_limit : forall l n r st,
  ph st = PLen v0 -> read_uvarint l = UvOk n r -> limit cf < n ->
  exists st', feed cf st l = (st', [])
    /\ ph st' = PErr ETooLarge /\ cap st' = cap st /\ allocated st' = allocated st
    /\ consumed st' + lenN r = consumed st + lenN l.
Proof.
  intros l n r st Hph Hr Hlim. unfold feed.
  destruct (feed_header l v0 st [] n r Hph Hr) as (k & Hk & Hlen & Heq).
  rewrite Heq. unfold on_length.
  replace (limit cf <? n) with true by (symmetry; apply N.ltb_lt; exact Hlim).
  cbn [push]. erewrite feed_err by reflexivity.
  eexists. split; [reflexivity|]. cbn [ph cap allocated consumed]. repeat split. lia.
Qed.

(* agreement with the whole-stream specification on EVERY byte stream *)
Lemma feed_parse : forall fuel l st acc,
  ph st = PLen v0 -> (length l < fuel)%nat ->
  exists ms e st', parse_frames fuel (limit cf) l = Some (ms, e)
                   /\ feed_acc cf st l acc = (st', rev ms ++ acc) /\ finish st' = e.
Proof.
  induction fuel as [|fuel IH]; intros l st acc Hph Hfuel; [lia|].
  cbn [parse_frames]. destruct l as [|b0 t0] eqn:El.
  - exists [], DClean, st. repeat split. unfold finish. rewrite Hph. reflexivity.
  - assert (Hne : (1 <= length l)%nat) by (rewrite El; cbn [length]; lia).
    rewrite <- El in *. clear El. unfold read_uvarint.
    destruct (read_uvarint_from v0 l) as [n r| |] eqn:Er.
    + destruct (feed_header l v0 st acc n r Hph Er) as (k & Hk & Hlen & Heq).
      rewrite Heq. unfold on_length.
      assert (Hrl : (length r < fuel)%nat) by (rewrite !lenN_spec in Hlen; lia).
      destruct (limit cf <? n) eqn:Elim.
      * exists [], (DFailed ETooLarge). eexists. split; [reflexivity|].
        cbn [push]. erewrite feed_err by reflexivity. split; reflexivity.
      * destruct (buffer_with_size cf (cap st) n) as [cap' al].
        destruct (lenN r <? n) eqn:Eshort.
        -- apply N.ltb_lt in Eshort.
           replace (n =? 0) with false by (symmetry; apply N.eqb_neq; lia).
           cbn [push].
           destruct (feed_body_short r n []
                       {| ph := PBody n []; consumed := consumed st + k; cap := cap';
                          allocated := allocated st + al |} acc eq_refl Eshort)
             as (st' & need' & racc' & Heq' & Hph').
           exists [], DShortBody, st'. split; [reflexivity|]. split; [exact Heq'|].
           unfold finish. rewrite Hph'. reflexivity.
        -- apply N.ltb_ge in Eshort.
           destruct (split_at n r) as [m r'] eqn:Es.
           pose proof (split_at_app _ _ _ _ _ Es) as Hr'.
           pose proof (split_at_len _ _ _ _ _ Eshort Es) as Hm.
           assert (Hr'l : (length r' < fuel)%nat).
           { subst r. rewrite app_length in Hrl. lia. }
           destruct (n =? 0) eqn:E0.
           ++ apply N.eqb_eq in E0.
              assert (Hm0 : m = []) by (apply lenN_zero; lia). subst m.
              cbn [app] in Hr'. subst r'. cbn [push].
              destruct (IH r {| ph := PLen v0; consumed := consumed st + k; cap := cap';
                                allocated := allocated st + al |} ([] :: acc) eq_refl Hr'l)
                as (ms & e & st' & Hp & Hf & Hfin).
              rewrite Hp. exists ([] :: ms), e, st'. split; [reflexivity|].
              split; [|exact Hfin]. etransitivity; [exact Hf|]. cbn [rev]. rewrite <- app_assoc. reflexivity.
           ++ apply N.eqb_neq in E0. cbn [push]. subst r.
              rewrite (feed_body m n []); [|reflexivity|exact Hm|lia].
              cbn [rev app consumed cap allocated].
              destruct (IH r' {| ph := PLen v0; consumed := consumed st + k + n; cap := cap';
                                 allocated := allocated st + al |} (m :: acc) eq_refl Hr'l)
                as (ms & e & st' & Hp & Hf & Hfin).
              rewrite Hp. exists (m :: ms), e, st'. split; [reflexivity|].
              split; [|exact Hfin]. etransitivity; [exact Hf|]. cbn [rev]. rewrite <- app_assoc. reflexivity.
    + destruct (feed_len_short l v0 st acc Hph Er) as (st' & v' & Heq & Hph' & Hvi).
      exists [], DShortLen, st'. split; [reflexivity|]. split; [exact Heq|].
      unfold finish. rewrite Hph'.
      replace (Nat.eqb (vi v') 0) with false; [reflexivity|].
      symmetry. apply Nat.eqb_neq. rewrite Hvi. lia.
    + destruct (feed_len_overflow l v0 st acc Hph Er) as (st' & Heq & Hph').
      exists [], (DFailed EOverflow), st'. split; [reflexivity|]. split; [exact Heq|].
      unfold finish. rewrite Hph'. reflexivity.
Qed.

Theorem framing_feed_spec : forall frags st,
  ph st = PLen v0 ->
  exists ms e, parse_stream (limit cf) (concat frags) = Some (ms, e)
               /\ model_raw cf st frags = (ms, dend_code e).
Proof.
  intros frags st Hph. unfold parse_stream, model_raw, feed_all.
  rewrite feed_all_acc_concat.
  destruct (feed_parse (S (length (concat frags))) (concat frags) st [] Hph ltac:(lia))
    as (ms & e & st' & Hp & Hf & Hfin).
  exists ms, e. split; [exact Hp|]. rewrite Hf, Hfin.
  rewrite rev'_spec, app_nil_r, rev_involutive. reflexivity.
Qed.

End Decoder.

(* the checkers *)
Lemma check_pipe_sound : forall i o,
  check_pipe i o = true <-> o = map (fun seg => (seg, 0)) i.
Proof.
  induction i as [|seg i IH]; intros [|[d code] o]; cbn [check_pipe map]; split; intro H;
    try reflexivity; try discriminate.
  - apply andb_true_iff in H. destruct H as [H H3].
    apply andb_true_iff in H. destruct H as [H1 H2].
    apply msgs_eqb_eq in H1. apply N.eqb_eq in H2. apply IH in H3. subst. reflexivity.
  - injection H as -> -> ->.
    rewrite (proj2 (msgs_eqb_eq seg seg) eq_refl), N.eqb_refl. cbn [andb]. apply IH. reflexivity.
Qed.

Lemma check_raw_sound : forall lim stream o,
  check_raw lim stream o = true ->
  exists ms e, parse_stream lim stream = Some (ms, e) /\ fst o = ms
               /\ (e = DFailed ETooLarge -> snd o = 4).
Proof.
  intros lim stream o H. unfold check_raw in H.
  destruct (parse_stream lim stream) as [[ms e]|]; [|discriminate].
  apply andb_true_iff in H. destruct H as [H1 H2]. apply msgs_eqb_eq in H1.
  exists ms, e. split; [reflexivity|]. split; [symmetry; exact H1|].
  intro E. subst e. apply N.eqb_eq in H2. exact H2.
Qed.

Lemma check_raw_model : forall cf st frags,
  ph st = PLen v0 ->
  check_raw (limit cf) (concat frags) (model_raw cf st frags) = true.
Proof.
  intros cf st frags Hph.
  destruct (framing_feed_spec cf frags st Hph) as (ms & e & Hp & Hm).
  unfold check_raw. rewrite Hp, Hm. cbn [fst snd].
  rewrite (proj2 (msgs_eqb_eq ms ms) eq_refl). cbn [andb].
  destruct e as [| | |[|]]; reflexivity.
Qed.

Lemma check_pipe_model : forall cf segs segfrags st,
  ph st = PLen v0 -> limit cf < 2 ^ 64 ->
  Forall (fun m => lenN m <= limit cf) (concat segs) ->
  Forall2 (fun seg fs => concat fs = encode_all seg) segs segfrags ->
  check_pipe segs (model_pipe cf st segfrags) = true.
Proof.
  intros cf segs segfrags st Hph H64 Hall HF. revert st Hph Hall.
  induction HF as [|seg fs segs segfrags Hc HF IH]; intros st Hph Hall.
  - reflexivity.
  - cbn [concat] in Hall. apply Forall_app in Hall. destruct Hall as [Hseg Hrest].
    cbn [model_pipe].
    destruct (framing_fragmentation cf seg fs st Hph H64 Hseg Hc) as (st' & Heq & Hph').
    rewrite Heq. cbn [check_pipe].
    rewrite (proj2 (msgs_eqb_eq seg seg) eq_refl).
    unfold pipe_code, finish. rewrite Hph'. cbn [vi v0 Nat.eqb N.eqb andb].
    apply IH; assumption.
Qed.

(* ======================= the writer pipeline ================================ *)
Lemma bufio_write_spec : forall n buf p buf' chunks,
  bufio_write n buf p = (buf', chunks) -> buf ++ p = concat chunks ++ buf'.
Proof.
  intros n buf p buf' chunks H. unfold bufio_write in H.
  destruct (lenN p <=? n - lenN buf).
  - injection H as <- <-. reflexivity.
  - destruct (lenN buf =? 0) eqn:E.
    + apply N.eqb_eq in E. apply lenN_zero in E. subst buf. injection H as <- <-.
      cbn [concat app]. rewrite !app_nil_r. reflexivity.
    + destruct (split_at (n - lenN buf) p) as [p1 p2] eqn:Es.
      apply split_at_app in Es. subst p.
      destruct (lenN p2 <=? n); injection H as <- <-; cbn [concat];
        rewrite ?app_nil_r, <- ?app_assoc; reflexivity.
Qed.

Section PipelineProofs.
Variable C : Type.
Variable cwrite : C -> list byte -> C * list byte.
Variable cflush : C -> C * list byte.
Variable c0 : C.
Variable decomp : list byte -> list byte.

Local Notation reach := (creach C cwrite cflush c0).

(* compressor side of the invariant: its total input is ci, and its total
   output is what the transport and the inner buffer hold together *)
Definition cinv (st : pstate C) (ci : list byte) : Prop :=
  exists co, reach (comp st) ci co /\ co = transport st ++ inner st.

Definition pinv (st : pstate C) : Prop :=
  exists ci, cinv st ci /\ written st = ci ++ outer st.

Lemma inner_write_spec : forall n2 st e,
  let st' := inner_write C n2 st e in
  outer st' = outer st /\ comp st' = comp st /\ written st' = written st
  /\ transport st' ++ inner st' = (transport st ++ inner st) ++ e.
Proof.
  intros n2 st e. unfold inner_write.
  destruct (bufio_write n2 (inner st) e) as [buf' chunks] eqn:Eb.
  apply bufio_write_spec in Eb. cbn [outer comp written transport inner].
  repeat split. rewrite <- !app_assoc, Eb. reflexivity.
Qed.

Lemma comp_write_spec : forall n2 st chunk ci,
  cinv st ci ->
  let st' := comp_write C cwrite n2 st chunk in
  cinv st' (ci ++ chunk) /\ outer st' = outer st /\ written st' = written st.
Proof.
  intros n2 st chunk ci (co & Hr & Hco). unfold comp_write.
  destruct (cwrite (comp st) chunk) as [c' e] eqn:Ew.
  pose proof (inner_write_spec n2
    {| outer := outer st; comp := c'; inner := inner st; transport := transport st;
       written := written st |} e) as Hs.
  cbv zeta in Hs. cbn [outer comp inner transport written] in Hs.
  destruct Hs as (Ho & Hc & Hw & Ht).
  split; [|split; assumption].
  exists (co ++ e). split.
  - rewrite Hc. eapply cr_write; eassumption.
  - rewrite Ht, Hco. reflexivity.
Qed.

Lemma comp_write_fold : forall n2 chunks st ci,
  cinv st ci ->
  let st' := fold_left (comp_write C cwrite n2) chunks st in
  cinv st' (ci ++ concat chunks) /\ outer st' = outer st /\ written st' = written st.
Proof.
  induction chunks as [|ch t IH]; intros st ci Hinv; cbn [fold_left concat].
  - rewrite app_nil_r. repeat split. exact Hinv.
  - destruct (comp_write_spec n2 st ch ci Hinv) as (H1 & H2 & H3).
    destruct (IH _ _ H1) as (H4 & H5 & H6).
    rewrite app_assoc. split; [exact H4|]. split; congruence.
Qed.

Lemma outer_write_spec : forall n1 n2 st p,
  pinv st ->
  let st' := outer_write C cwrite n1 n2 st p in
  pinv st' /\ written st' = written st ++ p.
Proof.
  intros n1 n2 st p (ci & Hc & Hw). unfold outer_write.
  destruct (bufio_write n1 (outer st) p) as [buf' chunks] eqn:Eb.
  apply bufio_write_spec in Eb.
  assert (Hc' : cinv {| outer := buf'; comp := comp st; inner := inner st;
                        transport := transport st; written := written st ++ p |} ci)
    by exact Hc.
  destruct (comp_write_fold n2 chunks _ ci Hc') as (H1 & H2 & H3).
  cbn [outer written] in H2, H3.
  split; [|exact H3].
  exists (ci ++ concat chunks). split; [exact H1|].
  rewrite H3, H2, Hw, <- !app_assoc, Eb. reflexivity.
Qed.

Lemma flush_layer_spec : forall n2 st l,
  pinv st -> let st' := flush_layer C cwrite cflush n2 st l in
             pinv st' /\ written st' = written st.
Proof.
  intros n2 st l (ci & Hc & Hw). destruct l; cbn [flush_layer].
  - destruct (outer st) as [|b t] eqn:Eo.
    + split; [|reflexivity]. exists ci. rewrite Eo. split; assumption.
    + assert (Hc' : cinv {| outer := []; comp := comp st; inner := inner st;
                            transport := transport st; written := written st |} ci)
        by exact Hc.
      destruct (comp_write_spec n2 _ (b :: t) ci Hc') as (H1 & H2 & H3).
      cbn [outer written] in H2, H3.
      split; [|exact H3]. exists (ci ++ b :: t). split; [exact H1|].
      rewrite H2, H3, Hw, app_nil_r. reflexivity.
  - destruct (cflush (comp st)) as [c' e] eqn:Ef.
    pose proof (inner_write_spec n2
      {| outer := outer st; comp := c'; inner := inner st; transport := transport st;
         written := written st |} e) as Hs.
    cbv zeta in Hs. cbn [outer comp inner transport written] in Hs.
    destruct Hs as (Ho & Hcc & Hww & Ht).
    split; [|exact Hww]. exists ci. split.
    + destruct Hc as (co & Hr & Hco). exists (co ++ e). split.
      * rewrite Hcc. eapply cr_flush; eassumption.
      * rewrite Ht, Hco. reflexivity.
    + rewrite Hww, Ho. exact Hw.
  - split; [|reflexivity]. exists ci. split; [|exact Hw].
    destruct Hc as (co & Hr & Hco). exists co. cbn [comp transport inner].
    split; [exact Hr|]. rewrite app_nil_r. exact Hco.
Qed.

Lemma flush_all_spec : forall n2 order st,
  pinv st -> let st' := flush_all C cwrite cflush n2 order st in
             pinv st' /\ written st' = written st.
Proof.
  induction order as [|l t IH]; intros st Hinv; cbn [flush_all fold_left].
  - split; [exact Hinv|reflexivity].
  - destruct (flush_layer_spec n2 st l Hinv) as (H1 & H2).
    destruct (IH _ H1) as (H3 & H4). unfold flush_all in H3, H4.
    split; [exact H3|congruence].
Qed.

Lemma p_run_spec : forall n1 n2 ops st,
  pinv st -> let st' := p_run C cwrite cflush n1 n2 st ops in
             pinv st' /\ written st' = written st ++ writes_of ops.
Proof.
  induction ops as [|o t IH]; intros st Hinv; cbn [p_run fold_left].
  - unfold writes_of. cbn [map concat]. rewrite app_nil_r. split; [exact Hinv|reflexivity].
  - assert (Hs : pinv (p_step C cwrite cflush n1 n2 st o)
                 /\ written (p_step C cwrite cflush n1 n2 st o)
                    = written st ++ match o with OpWrite p => p | OpFlush _ => [] end).
    { destruct o as [p|order]; cbn [p_step].
      - apply outer_write_spec. exact Hinv.
      - rewrite app_nil_r. apply flush_all_spec. exact Hinv. }
    destruct Hs as (H1 & H2). destruct (IH _ H1) as (H3 & H4). unfold p_run in H3, H4.
    split; [exact H3|]. rewrite H4, H2. unfold writes_of. cbn [map concat].
    rewrite <- app_assoc. reflexivity.
Qed.

Lemma pinv_init : pinv (p_init C c0).
Proof.
  exists []. split; [|reflexivity]. exists []. split; [apply cr_init|reflexivity].
Qed.

Hypothesis contract : compressor_contract C cwrite cflush c0 decomp.

(* Flushing in the order of the code delivers everything written so far. *)
Lemma flush_go_order_delivers : forall n2 st,
  pinv st ->
  let st' := flush_all C cwrite cflush n2 go_flush_order st in
  decomp (transport st') = written st' /\ outer st' = [] /\ inner st' = []
  /\ written st' = written st.
Proof.
  intros n2 st Hinv. destruct contract as (Hflush & _ & _).
  unfold go_flush_order, flush_all. cbn [fold_left].
  (* outer *)
  destruct (flush_layer_spec n2 st LOuter Hinv) as (_ & Hw1).
  set (st1 := flush_layer C cwrite cflush n2 st LOuter) in *.
  assert (H1 : cinv st1 (written st1) /\ outer st1 = []).
  { destruct Hinv as (ci & Hc & Hw). subst st1. cbn [flush_layer].
    destruct (outer st) as [|b t] eqn:Eo.
    - rewrite Eo. split; [|reflexivity]. rewrite Hw, app_nil_r. exact Hc.
    - assert (Hc' : cinv {| outer := []; comp := comp st; inner := inner st;
                            transport := transport st; written := written st |} ci)
        by exact Hc.
      destruct (comp_write_spec n2 _ (b :: t) ci Hc') as (G1 & G2 & G3).
      cbn [outer written] in G2, G3. split; [|exact G2]. rewrite (eq_trans G3 Hw). exact G1. }
  destruct H1 as ((co & Hr & Hco) & Ho1).
  (* compressor *)
  set (st2 := flush_layer C cwrite cflush n2 st1 LComp).
  assert (H2 : outer st2 = [] /\ written st2 = written st1
               /\ decomp (transport st2 ++ inner st2) = written st1).
  { subst st2. cbn [flush_layer].
    destruct (cflush (comp st1)) as [c' e] eqn:Ef.
    pose proof (inner_write_spec n2
      {| outer := outer st1; comp := c'; inner := inner st1; transport := transport st1;
         written := written st1 |} e) as Hs.
    cbv zeta in Hs. cbn [outer comp inner transport written] in Hs.
    destruct Hs as (Ho & _ & Hww & Ht).
    split; [congruence|]. split; [exact Hww|].
    rewrite Ht, <- Hco. eapply Hflush; eassumption. }
  destruct H2 as (Ho2 & Hw2 & Hd2).
  (* inner *)
  cbn [flush_layer outer inner transport written].
  repeat split; try assumption; congruence.
Qed.

Theorem pipeline_flush_delivers : forall n1 n2 ops,
  let st := p_run C cwrite cflush n1 n2 (p_init C c0) (ops ++ [OpFlush go_flush_order]) in
  decomp (transport st) = writes_of ops /\ outer st = [] /\ inner st = []
  /\ written st = writes_of ops.
Proof.
  intros n1 n2 ops. unfold p_run. rewrite fold_left_app. cbn [fold_left p_step].
  destruct (p_run_spec n1 n2 ops _ pinv_init) as (Hinv & Hw).
  cbn [p_init written app] in Hw. unfold p_run in Hinv, Hw.
  destruct (flush_go_order_delivers n2 _ Hinv) as (H1 & H2 & H3 & H4).
  rewrite H4, Hw in H1. rewrite Hw in H4. repeat split; assumption.
Qed.

(* at every moment the peer can only have seen a prefix of what was written *)
Theorem pipeline_prefix_safe : forall n1 n2 ops,
  let st := p_run C cwrite cflush n1 n2 (p_init C c0) ops in
  exists rest, writes_of ops = decomp (transport st) ++ rest.
Proof.
  intros n1 n2 ops. destruct contract as (_ & Hsafe & Hmono).
  destruct (p_run_spec n1 n2 ops _ pinv_init) as ((ci & (co & Hr & Hco) & Hwo) & Hw).
  cbn [p_init written app] in Hw. cbv zeta.
  destruct (Hsafe _ _ _ Hr) as (rest1 & Hci).
  destruct (Hmono (transport (p_run C cwrite cflush n1 n2 (p_init C c0) ops))
                  (inner (p_run C cwrite cflush n1 n2 (p_init C c0) ops))) as (more & Hm).
  rewrite <- Hw, Hwo, Hci, Hco, Hm, <- !app_assoc. eexists. reflexivity.
Qed.

End PipelineProofs.

(* writes of an endpoint that encodes segments of messages *)
Lemma writes_of_app : forall a b, writes_of (a ++ b) = writes_of a ++ writes_of b.
Proof. intros. unfold writes_of. rewrite map_app, concat_app. reflexivity. Qed.

Lemma encode_all_app : forall a b, encode_all (a ++ b) = encode_all a ++ encode_all b.
Proof. intros. unfold encode_all. rewrite map_app, concat_app. reflexivity. Qed.

Lemma writes_of_frames : forall seg,
  writes_of (map (fun m => OpWrite (frame m)) seg) = encode_all seg.
Proof.
  induction seg as [|m seg IH].
  - reflexivity.
  - unfold writes_of, encode_all in *. cbn [map concat]. rewrite IH. reflexivity.
Qed.

Lemma writes_of_segments : forall segs,
  writes_of (ops_of_segments segs) = encode_all (concat segs).
Proof.
  induction segs as [|seg t IH].
  - reflexivity.
  - unfold ops_of_segments in *. cbn [map concat].
    rewrite !writes_of_app, IH, writes_of_frames, encode_all_app.
    unfold writes_of at 1. cbn [map concat app]. rewrite app_nil_r. reflexivity.
Qed.

Lemma ops_of_segments_snoc : forall segs seg,
  ops_of_segments (segs ++ [seg])
  = (ops_of_segments segs ++ map (fun m => OpWrite (frame m)) seg) ++ [OpFlush go_flush_order].
Proof.
  intros. unfold ops_of_segments. rewrite map_app, concat_app. cbn [map concat].
  rewrite app_nil_r, app_assoc. reflexivity.
Qed.

(* End to end: an endpoint encodes segments of messages, flushing after each
   segment in the order of the code; whatever the decompressor hands to the
   peer's decoder, in whatever fragments, decodes to exactly those messages. *)
Theorem pipeline_flush_decodes :
  forall (C : Type) (cwrite : C -> list byte -> C * list byte) (cflush : C -> C * list byte)
         (c0 : C) (decomp : list byte -> list byte),
    compressor_contract C cwrite cflush c0 decomp ->
    forall cf n1 n2 segs frags d0,
      ph d0 = PLen v0 -> limit cf < 2 ^ 64 ->
      Forall (fun m => lenN m <= limit cf) (concat segs) ->
      concat frags
      = decomp (transport (p_run C cwrite cflush n1 n2 (p_init C c0) (ops_of_segments segs))) ->
      exists d, feed_all cf d0 frags = (d, concat segs) /\ ph d = PLen v0.
Proof.
  intros C cwrite cflush c0 decomp Hct cf n1 n2 segs frags d0 Hph H64 Hall Hc.
  apply framing_fragmentation; try assumption.
  rewrite Hc. clear Hc.
  destruct segs as [|seg segs' _] using rev_ind.
  - cbn. destruct Hct as (_ & Hsafe & _).
    destruct (Hsafe c0 [] [] (cr_init C cwrite cflush c0)) as (rest & Hr).
    symmetry in Hr. apply app_eq_nil in Hr. destruct Hr as [Hr _]. exact Hr.
  - rewrite ops_of_segments_snoc.
    destruct (pipeline_flush_delivers C cwrite cflush c0 decomp Hct n1 n2
                (ops_of_segments segs' ++ map (fun m => OpWrite (frame m)) seg)) as (H1 & _).
    rewrite H1, writes_of_app, writes_of_segments, writes_of_frames, <- encode_all_app.
    rewrite concat_app. cbn [concat]. rewrite app_nil_r. reflexivity.
Qed.

(* ---- the two concrete compressors -------------------------------------------- *)
Lemma none_contract : compressor_contract unit none_write none_flush tt id_decomp.
Proof.
  assert (R : forall c i o, creach unit none_write none_flush tt c i o -> i = o).
  { intros c i o H. induction H as [|c i o p c' e H IH Hw|c i o c' e H IH Hf].
    - reflexivity.
    - unfold none_write in Hw. injection Hw as _ <-. subst. reflexivity.
    - unfold none_flush in Hf. injection Hf as _ <-. subst. rewrite app_nil_r. reflexivity. }
  unfold compressor_contract, id_decomp. repeat split.
  - intros c i o c' e H Hf. unfold none_flush in Hf. injection Hf as _ <-.
    rewrite app_nil_r. symmetry. eapply R. eassumption.
  - intros c i o H. exists []. rewrite app_nil_r. eapply R. eassumption.
  - intros a b. exists b. reflexivity.
Qed.

Lemma hold_contract : compressor_contract (list byte) hold_write hold_flush [] id_decomp.
Proof.
  assert (R : forall c i o, creach (list byte) hold_write hold_flush [] c i o -> i = o ++ c).
  { intros c i o H. induction H as [|c i o p c' e H IH Hw|c i o c' e H IH Hf].
    - reflexivity.
    - unfold hold_write in Hw. injection Hw as <- <-. subst.
      rewrite app_nil_r, app_assoc. reflexivity.
    - unfold hold_flush in Hf. injection Hf as <- <-. subst. rewrite app_nil_r. reflexivity. }
  unfold compressor_contract, id_decomp. repeat split.
  - intros c i o c' e H Hf. unfold hold_flush in Hf. injection Hf as _ <-.
    symmetry. eapply R. eassumption.
  - intros c i o H. exists c. eapply R. eassumption.
  - intros a b. exists b. reflexivity.
Qed.

(* With the holding compressor and the buffer sizes of the code, the order
   of the code is the ONLY order of the three layers that delivers. *)
Definition hold_delivers (order : list layer) : Prop :=
  forall ops,
    let st := p_run (list byte) hold_write hold_flush
                    go_control_stream_buffer go_control_stream_buffer
                    (p_init (list byte) []) (ops ++ [OpFlush order]) in
    id_decomp (transport st) = writes_of ops.

Lemma order_needed : forall order,
  In order all_orders -> (hold_delivers order <-> order = go_flush_order).
Proof.
  intros order Hin. split.
  - intro H. specialize (H [OpWrite [x2a]]).
    cbn [In all_orders] in Hin.
    destruct Hin as [<-|[<-|[<-|[<-|[<-|[<-|[]]]]]]];
      try reflexivity; vm_compute in H; discriminate.
  - intros -> ops.
    apply (pipeline_flush_delivers (list byte) hold_write hold_flush [] id_decomp hold_contract).
Qed.

(* the concrete counterexample for the reversed order *)
Lemma reversed_order_counterexample :
  let st := p_run (list byte) hold_write hold_flush
                  go_control_stream_buffer go_control_stream_buffer
                  (p_init (list byte) []) [OpWrite [x2a]; OpFlush [LInner; LComp; LOuter]] in
  transport st = [] /\ written st = [x2a] /\ inner st = [] /\ comp st = [x2a].
Proof. vm_compute. repeat split. Qed.

(* even without compression (Algorithm None) the reversed order fails *)
Lemma reversed_order_counterexample_none :
  let st := p_run unit none_write none_flush
                  go_control_stream_buffer go_control_stream_buffer
                  (p_init unit tt) [OpWrite [x2a]; OpFlush [LInner; LComp; LOuter]] in
  transport st = [] /\ written st = [x2a] /\ inner st = [x2a].
Proof. vm_compute. repeat split. Qed.

(* a concrete run of the decoder with the limit and the buffers of the code *)
Lemma framing_example :
  let ms := [[]; [x01; x02; x03]; repeat xff 300] in
  let s := encode_all ms in
  feed_all go_dconf go_d_init [firstn 2 s; firstn 4 (skipn 2 s); skipn 6 s]
  = ({| ph := PLen v0; consumed := 307; cap := go_decoder_initial_buffer; allocated := 0 |}, ms).
Proof. vm_compute. reflexivity. Qed.
