(* Facts about the tree algebra of Model/Fs.v (nlookup / nset / get / put /
   in_dir_upd) used by the transition proofs (Proof/Transition*.v). *)
From Coq Require Import List Bool Arith String Ascii NArith Lia.
From Mv Require Import Model.Entry Model.Fs Proof.EntryFacts.
Import ListNotations.
Open Scope string_scope.
Open Scope list_scope.

(* ================================================================== *)
(* 1. nlookup / nset (the node versions of lookup / set_child)          *)
(* ================================================================== *)

Lemma nlookup_in_keys : forall n c, nlookup n c <> None <-> In n (map fst c).
Proof.
  intros n c. induction c as [|[m e] t IH]; cbn [nlookup map fst In].
  - split; [congruence|tauto].
  - destruct (String.eqb n m) eqn:E.
    + apply String.eqb_eq in E. subst. split; [auto|congruence].
    + apply String.eqb_neq in E. rewrite IH. split; [auto|intros [K|K]; [congruence|exact K]].
Qed.

Lemma nlookup_none_notin : forall n c, nlookup n c = None <-> ~ In n (map fst c).
Proof.
  intros n c. rewrite <- nlookup_in_keys. destruct (nlookup n c) as [y|].
  - split; [discriminate|]. intro H. exfalso. apply H. discriminate.
  - split; [intros _ H; apply H; reflexivity|reflexivity].
Qed.

Lemma nlookup_head_gt : forall n c, all_gt n (map fst c) -> nlookup n c = None.
Proof.
  intros n c H. apply nlookup_none_notin. intro Hin. specialize (H n Hin).
  rewrite str_ltb_irrefl in H. discriminate.
Qed.

Lemma nlookup_some_in : forall n c e, nlookup n c = Some e -> In (n, e) c.
Proof.
  intros n c e. induction c as [|[m x] t IH]; cbn [nlookup]; [discriminate|].
  destruct (String.eqb n m) eqn:E.
  - apply String.eqb_eq in E. subst. intros [= ->]. left. reflexivity.
  - intro H. right. apply IH. exact H.
Qed.

Lemma nset_in_keys : forall n v c k,
  In k (map fst (nset n v c)) -> k = n \/ In k (map fst c).
Proof.
  intros n v c k. induction c as [|[m e] t IH]; cbn [nset map fst].
  - destruct v; cbn; intuition (subst; auto).
  - destruct (String.eqb n m) eqn:E.
    + apply String.eqb_eq in E. subst. destruct v; cbn [map fst In]; intuition (subst; auto).
    + destruct (String.ltb n m).
      * destruct v; cbn [map fst In]; intuition (subst; auto).
      * cbn [map fst In]. intros [K|K]; [intuition (subst; auto)|]. destruct (IH K); intuition (subst; auto).
Qed.

Lemma nset_sorted : forall n v c,
  sorted_names (map fst c) = true -> sorted_names (map fst (nset n v c)) = true.
Proof.
  intros n v c. induction c as [|[m e] t IH]; intro Hs; cbn [nset].
  - destruct v; reflexivity.
  - cbn [map fst] in Hs. pose proof (proj1 (sorted_names_cons _ _) Hs) as [Hgt Hst].
    destruct (String.eqb n m) eqn:E.
    + apply String.eqb_eq in E. subst. destruct v; [exact Hs|exact Hst].
    + destruct (String.ltb n m) eqn:L.
      * destruct v; [|exact Hs]. cbn [map fst].
        change (String.ltb n m && sorted_names (m :: map fst t) = true). rewrite L, Hs. reflexivity.
      * cbn [map fst]. apply sorted_names_cons. split; [|apply IH; exact Hst].
        intros k Hk. destruct (nset_in_keys _ _ _ _ Hk) as [->|Hk'].
        -- apply str_ltb_total; assumption.
        -- apply Hgt. exact Hk'.
Qed.

Lemma nlookup_nset_other : forall n v c k,
  k <> n -> nlookup k (nset n v c) = nlookup k c.
Proof.
  intros n v c k Hne. induction c as [|[m e] t IH]; cbn [nset].
  - destruct v; cbn [nlookup]; [|reflexivity].
    rewrite (proj2 (String.eqb_neq k n) Hne). reflexivity.
  - destruct (String.eqb n m) eqn:E.
    + apply String.eqb_eq in E. subst m. destruct v; cbn [nlookup];
        rewrite (proj2 (String.eqb_neq k n) Hne); reflexivity.
    + destruct (String.ltb n m).
      * destruct v; [|reflexivity]. cbn [nlookup].
        rewrite (proj2 (String.eqb_neq k n) Hne). reflexivity.
      * cbn [nlookup]. rewrite IH. reflexivity.
Qed.

Lemma nlookup_nset_some : forall n y c, nlookup n (nset n (Some y) c) = Some y.
Proof.
  intros n y c. induction c as [|[m e] t IH]; cbn [nset].
  - cbn [nlookup]. rewrite String.eqb_refl. reflexivity.
  - destruct (String.eqb n m) eqn:E.
    + cbn [nlookup]. rewrite String.eqb_refl. reflexivity.
    + destruct (String.ltb n m).
      * cbn [nlookup]. rewrite String.eqb_refl. reflexivity.
      * cbn [nlookup]. rewrite E. exact IH.
Qed.

Lemma nlookup_nset_none : forall n c,
  sorted_names (map fst c) = true -> nlookup n (nset n None c) = None.
Proof.
  intros n c. induction c as [|[m e] t IH]; intro Hs; cbn [nset]; [reflexivity|].
  cbn [map fst] in Hs. pose proof (proj1 (sorted_names_cons _ _) Hs) as [Hgt Hst].
  destruct (String.eqb n m) eqn:E.
  - apply String.eqb_eq in E. subst m. apply nlookup_head_gt. exact Hgt.
  - destruct (String.ltb n m) eqn:L.
    + cbn [nlookup]. rewrite E. apply nlookup_head_gt.
      intros k Hk. apply (str_ltb_trans n m k L). apply Hgt. exact Hk.
    + cbn [nlookup]. rewrite E. apply IH. exact Hst.
Qed.

Lemma nlookup_nset_same : forall n v c,
  sorted_names (map fst c) = true -> nlookup n (nset n v c) = v.
Proof.
  intros n [y|] c Hs; [apply nlookup_nset_some|apply nlookup_nset_none; exact Hs].
Qed.

(* a value stored by nset is the new one or was there before *)
Lemma nset_in : forall n v c k y,
  In (k, y) (nset n v c) -> (k = n /\ v = Some y) \/ In (k, y) c.
Proof.
  intros n v c k y. induction c as [|[m e] t IH]; cbn [nset].
  - destruct v; cbn [In]; [|tauto]. intros [[= <- <-]|[]]. left. split; reflexivity.
  - destruct (String.eqb n m) eqn:E.
    + destruct v; cbn [In].
      * intros [[= <- <-]|K]; [left; split; reflexivity|right; right; exact K].
      * intro K. right. right. exact K.
    + destruct (String.ltb n m).
      * destruct v; cbn [In]; [|tauto].
        intros [[= <- <-]|K]; [left; split; reflexivity|right; exact K].
      * cbn [In]. intros [K|K]; [right; left; exact K|].
        destruct (IH K) as [K'|K']; [left; exact K'|right; right; exact K'].
Qed.

(* ================================================================== *)
(* 2. paths                                                             *)
(* ================================================================== *)

Lemma is_prefix_refl : forall a, is_prefix a a = true.
Proof. induction a as [|x a IH]; cbn; [reflexivity|]. rewrite String.eqb_refl. exact IH. Qed.

Lemma is_prefix_app : forall a b, is_prefix a (a ++ b) = true.
Proof. induction a as [|x a IH]; intro b; cbn; [reflexivity|]. rewrite String.eqb_refl. apply IH. Qed.

Lemma is_prefix_iff : forall a b, is_prefix a b = true <-> exists q, b = (a ++ q)%list.
Proof.
  induction a as [|x a IH]; intro b.
  - cbn. split; [intros _; exists b; reflexivity|reflexivity].
  - destruct b as [|y b]; cbn.
    + split; [discriminate|intros [q Hq]; discriminate].
    + rewrite andb_true_iff, String.eqb_eq, IH. split.
      * intros [-> [q ->]]. exists q. reflexivity.
      * intros [q [= -> ->]]. split; [reflexivity|exists q; reflexivity].
Qed.

Lemma is_prefix_trans : forall a b c,
  is_prefix a b = true -> is_prefix b c = true -> is_prefix a c = true.
Proof.
  intros a b c Hab Hbc. apply is_prefix_iff in Hab. apply is_prefix_iff in Hbc.
  destruct Hab as [q ->]. destruct Hbc as [r ->]. rewrite <- app_assoc. apply is_prefix_app.
Qed.

Lemma is_prefix_app_false : forall a b q,
  is_prefix a b = false -> is_prefix b a = false -> is_prefix (a ++ q) b = false.
Proof.
  intros a b q H1 H2. destruct (is_prefix (a ++ q) b) eqn:K; [|reflexivity].
  exfalso. assert (is_prefix a b = true) by (eapply is_prefix_trans; [apply is_prefix_app|exact K]).
  congruence.
Qed.

(* ================================================================== *)
(* 3. get / put                                                         *)
(* ================================================================== *)

Lemma get_app : forall p q x, get (p ++ q) x = match get p x with Some y => get q y | None => None end.
Proof.
  induction p as [|n p IH]; intros q x; cbn [app get]; [reflexivity|].
  destruct x; try reflexivity. destruct (nlookup n c); [apply IH|reflexivity].
Qed.

Lemma get_cons_dir : forall n q m c,
  get (n :: q) (NDir m c) = match nlookup n c with Some y => get q y | None => None end.
Proof. reflexivity. Qed.

(* the tree with the directory at [h] replaced by [d] *)
Definition repl (h : path) (d : node) (x : node) : node :=
  match h with
  | [] => d
  | _ => match put h (Some d) x with Some x' => x' | None => x end
  end.

Lemma put_cons : forall n rest v x, rest <> [] ->
  put (n :: rest) v x =
  match x with
  | NDir m c => match nlookup n c with
                | Some y => match put rest v y with
                            | Some y' => Some (NDir m (nset n (Some y') c))
                            | None => None
                            end
                | None => None
                end
  | _ => None
  end.
Proof. intros n rest v x H. destruct rest; [congruence|reflexivity]. Qed.

(* a put below an existing directory succeeds *)
Lemma put_dir_some : forall h n v x m c,
  get h x = Some (NDir m c) -> exists x', put (h ++ [n]) v x = Some x'.
Proof.
  induction h as [|a h IH]; intros n v x m c Hg.
  - cbn in Hg. injection Hg as ->. cbn. eexists. reflexivity.
  - cbn [get] in Hg. destruct x as [mx cx| | |]; try discriminate.
    destruct (nlookup a cx) as [y|] eqn:L; [|discriminate].
    destruct (IH n v y m c Hg) as [y' Hy'].
    change ((a :: h) ++ [n])%list with (a :: (h ++ [n]))%list.
    rewrite put_cons by (destruct h; discriminate). rewrite L, Hy'. eexists. reflexivity.
Qed.

(* replacing an existing directory by a directory succeeds *)
Lemma put_replace_some : forall h d x m c,
  h <> [] -> get h x = Some (NDir m c) -> exists x', put h (Some d) x = Some x'.
Proof.
  induction h as [|a h IH]; intros d x m c Hne Hg; [congruence|].
  cbn [get] in Hg. destruct x as [mx cx| | |]; try discriminate.
  destruct (nlookup a cx) as [y|] eqn:L; [|discriminate].
  destruct h as [|b h'].
  - cbn. eexists. reflexivity.
  - destruct (IH d y m c ltac:(discriminate) Hg) as [y' Hy'].
    rewrite put_cons by discriminate. rewrite L, Hy'. eexists. reflexivity.
Qed.

(* what is found below a replaced directory *)
Lemma get_put_under : forall h d x x' q,
  put h (Some d) x = Some x' -> get (h ++ q) x' = get q d.
Proof.
  induction h as [|a h IH]; intros d x x' q Hp; [discriminate|].
  destruct h as [|b h'].
  - cbn in Hp. destruct x as [mx cx| | |]; try discriminate. injection Hp as <-.
    cbn [app get]. rewrite nlookup_nset_some. reflexivity.
  - rewrite put_cons in Hp by discriminate.
    destruct x as [mx cx| | |]; try discriminate.
    destruct (nlookup a cx) as [y|] eqn:L; [|discriminate].
    destruct (put (b :: h') (Some d) y) as [y'|] eqn:Py; [|discriminate].
    injection Hp as <-. change ((a :: b :: h') ++ q)%list with (a :: ((b :: h') ++ q))%list.
    cbn [get]. rewrite nlookup_nset_some. apply (IH d y y' q Py).
Qed.

(* paths that leave [h] before its end are not affected *)
Lemma get_put_apart : forall h v x x' P,
  put h v x = Some x' -> is_prefix h P = false -> is_prefix P h = false ->
  get P x' = get P x.
Proof.
  induction h as [|a h IH]; intros v x x' P Hp H1 H2; [discriminate|].
  destruct P as [|b P]; [cbn in H2; discriminate|].
  cbn [is_prefix] in H1, H2.
  destruct h as [|a2 h'].
  - cbn in Hp. destruct x as [mx cx| | |]; try discriminate. injection Hp as <-.
    cbn [get]. destruct (String.eqb a b) eqn:E.
    + cbn in H1. discriminate.
    + rewrite nlookup_nset_other; [reflexivity|].
      intro K. subst. rewrite String.eqb_refl in E. discriminate.
  - rewrite put_cons in Hp by discriminate.
    destruct x as [mx cx| | |]; try discriminate.
    destruct (nlookup a cx) as [y|] eqn:L; [|discriminate].
    destruct (put (a2 :: h') v y) as [y'|] eqn:Py; [|discriminate].
    injection Hp as <-. cbn [get].
    destruct (String.eqb a b) eqn:E.
    + apply String.eqb_eq in E. subst b. rewrite nlookup_nset_some, L.
      rewrite String.eqb_refl in H2. cbn [andb] in H1, H2.
      apply (IH v y y' P Py H1 H2).
    + rewrite nlookup_nset_other; [reflexivity|].
      intro K. subst. rewrite String.eqb_refl in E. discriminate.
Qed.

(* directories on the way to [h] stay directories with the same metadata *)
Lemma get_put_spine : forall h d x x' P m c,
  put h (Some d) x = Some x' -> is_prefix P h = true -> P <> h ->
  get P x = Some (NDir m c) -> exists c', get P x' = Some (NDir m c').
Proof.
  induction h as [|a h IH]; intros d x x' P m c Hp H1 Hne Hg; [discriminate|].
  destruct P as [|b P].
  - cbn in Hg. injection Hg as ->.
    destruct h as [|a2 h'].
    + cbn in Hp. injection Hp as <-. cbn. eexists. reflexivity.
    + rewrite put_cons in Hp by discriminate.
      destruct (nlookup a c) as [y|]; [|discriminate].
      destruct (put (a2 :: h') (Some d) y); [|discriminate].
      injection Hp as <-. cbn. eexists. reflexivity.
  - cbn [is_prefix] in H1. apply andb_true_iff in H1. destruct H1 as [E H1].
    apply String.eqb_eq in E. subst b.
    destruct h as [|a2 h'].
    + destruct P; [congruence|cbn in H1; discriminate].
    + rewrite put_cons in Hp by discriminate.
      destruct x as [mx cx| | |]; try discriminate.
      destruct (nlookup a cx) as [y|] eqn:L; [|discriminate].
      destruct (put (a2 :: h') (Some d) y) as [y'|] eqn:Py; [|discriminate].
      injection Hp as <-. cbn [get] in *. rewrite L in Hg. rewrite nlookup_nset_some.
      apply (IH d y y' P m c Py H1); [congruence|exact Hg].
Qed.

(* ---------- repl ---------- *)

Lemma repl_get_under : forall h d x m c q,
  dir_at h x = Some (m, c) -> get (h ++ q) (repl h d x) = get q d.
Proof.
  intros h d x m c q Hd. unfold dir_at in Hd.
  destruct (get h x) as [[m0 c0| | |]|] eqn:G; try discriminate.
  destruct h as [|a h]; [reflexivity|].
  unfold repl. destruct (put_replace_some (a :: h) d x m0 c0 ltac:(discriminate) G) as [x' Hx'].
  rewrite Hx'. eapply get_put_under. exact Hx'.
Qed.

Lemma repl_get_apart : forall h d x P,
  is_prefix h P = false -> is_prefix P h = false -> get P (repl h d x) = get P x.
Proof.
  intros h d x P H1 H2. destruct h as [|a h]; [cbn in H1; discriminate|].
  unfold repl. destruct (put (a :: h) (Some d) x) as [x'|] eqn:Hp; [|reflexivity].
  eapply get_put_apart; eassumption.
Qed.

Lemma repl_get_spine : forall h d x P m c,
  is_prefix P h = true -> P <> h -> get P x = Some (NDir m c) ->
  exists c', get P (repl h d x) = Some (NDir m c').
Proof.
  intros h d x P m c H1 Hne Hg. destruct h as [|a h].
  - destruct P; [congruence|cbn in H1; discriminate].
  - unfold repl. destruct (put (a :: h) (Some d) x) as [x'|] eqn:Hp.
    + eapply get_put_spine; eassumption.
    + eexists. exact Hg.
Qed.

Lemma repl_dir_at : forall h x m c c',
  dir_at h x = Some (m, c) -> dir_at h (repl h (NDir m c') x) = Some (m, c').
Proof.
  intros h x m c c' Hd. unfold dir_at.
  pose proof (repl_get_under h (NDir m c') x m c [] Hd) as K. rewrite app_nil_r in K.
  rewrite K. reflexivity.
Qed.

(* in_dir_upd in terms of repl *)
Lemma in_dir_upd_spec : forall (A : Type) h x (k : meta -> list (name * node) -> (A * list (name * node)) + errno),
  in_dir_upd h x k =
  match dir_at h x with
  | None => inr ESTALE
  | Some (m, c) => match k m c with
                   | inr e => inr e
                   | inl (a, c') => inl (a, repl h (NDir m c') x)
                   end
  end.
Proof.
  intros A h x k. unfold in_dir_upd. destruct (dir_at h x) as [[m c]|] eqn:Hd; [|reflexivity].
  destruct (k m c) as [[a c']|e]; [|reflexivity].
  destruct h as [|n h]; [reflexivity|].
  unfold repl. unfold dir_at in Hd.
  destruct (get (n :: h) x) as [[m0 c0| | |]|] eqn:G; try discriminate.
  destruct (put_replace_some (n :: h) (NDir m c') x m0 c0 ltac:(discriminate) G) as [x' Hx'].
  rewrite Hx'. reflexivity.
Qed.

(* ================================================================== *)
(* 4. sorted trees                                                      *)
(* ================================================================== *)

(* every directory of the tree lists its children in strictly sorted order *)
Inductive tsorted : node -> Prop :=
| ts_dir : forall m c, sorted_names (map fst c) = true ->
                       (forall n y, In (n, y) c -> tsorted y) -> tsorted (NDir m c)
| ts_file : forall m d, tsorted (NFile m d)
| ts_link : forall m t, tsorted (NLink m t)
| ts_other : forall m t, tsorted (NOther m t).

Lemma tsorted_dir_inv : forall m c, tsorted (NDir m c) ->
  sorted_names (map fst c) = true /\ (forall n y, In (n, y) c -> tsorted y).
Proof. intros m c H. inversion H; subst. split; assumption. Qed.

Lemma tsorted_child : forall m c n y, tsorted (NDir m c) -> nlookup n c = Some y -> tsorted y.
Proof.
  intros m c n y H L. apply tsorted_dir_inv in H. destruct H as [_ H].
  apply (H n y). apply nlookup_some_in. exact L.
Qed.

Lemma tsorted_get : forall p x y, tsorted x -> get p x = Some y -> tsorted y.
Proof.
  induction p as [|n p IH]; intros x y Hx Hg.
  - cbn in Hg. injection Hg as <-. exact Hx.
  - cbn [get] in Hg. destruct x as [m c| | |]; try discriminate.
    destruct (nlookup n c) as [z|] eqn:L; [|discriminate].
    apply (IH z y); [eapply tsorted_child; eassumption|exact Hg].
Qed.

Lemma tsorted_nset : forall m c n v,
  tsorted (NDir m c) -> (forall y, v = Some y -> tsorted y) -> tsorted (NDir m (nset n v c)).
Proof.
  intros m c n v H Hv. apply tsorted_dir_inv in H. destruct H as [Hs Hc]. constructor.
  - apply nset_sorted. exact Hs.
  - intros k y Hin. destruct (nset_in _ _ _ _ _ Hin) as [[_ E]|K]; [apply Hv; exact E|eapply Hc; exact K].
Qed.

Lemma tsorted_put : forall h d x x',
  tsorted x -> tsorted d -> put h (Some d) x = Some x' -> tsorted x'.
Proof.
  induction h as [|a h IH]; intros d x x' Hx Hd Hp; [discriminate|].
  destruct h as [|b h'].
  - cbn in Hp. destruct x as [mx cx| | |]; try discriminate. injection Hp as <-.
    apply tsorted_nset; [exact Hx|]. intros y [= <-]. exact Hd.
  - rewrite put_cons in Hp by discriminate.
    destruct x as [mx cx| | |]; try discriminate.
    destruct (nlookup a cx) as [y|] eqn:L; [|discriminate].
    destruct (put (b :: h') (Some d) y) as [y'|] eqn:Py; [|discriminate].
    injection Hp as <-. apply tsorted_nset; [exact Hx|]. intros z [= <-].
    apply (IH d y y'); [eapply tsorted_child; eassumption|exact Hd|exact Py].
Qed.

Lemma tsorted_repl : forall h d x, tsorted x -> tsorted d -> tsorted (repl h d x).
Proof.
  intros h d x Hx Hd. destruct h as [|a h]; [exact Hd|].
  unfold repl. destruct (put (a :: h) (Some d) x) as [x'|] eqn:Hp; [|exact Hx].
  exact (tsorted_put (a :: h) d x x' Hx Hd Hp).
Qed.
