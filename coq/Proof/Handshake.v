(* Lemmas about Model/Handshake.v (C34). *)
From Coq Require Import List Arith NArith ZArith Bool Lia Strings.Byte.
From Coq Require Import ZifyBool ZifyNat ZifyN.
Import ListNotations.
From Mv Require Import Model.Varint Model.Handshake Proof.Varint.
Local Open Scope N_scope.

Ltac Zify.zify_post_hook ::= Z.div_mod_to_equations.

(* ---- big-endian 32-bit fields --------------------------------------------------- *)
Lemma b8_eq : forall n a, n mod 256 = bval a -> b8 n = a.
Proof. intros n a H. apply bval_inj. rewrite bval_b8. exact H. Qed.

Lemma be32_length : forall n, length (be32 n) = 4%nat.
Proof. reflexivity. Qed.

Lemma be32_dec_enc : forall n, n < 2 ^ 32 -> be32_dec (be32 n) = n.
Proof.
  intros n H. change (2 ^ 32) with 4294967296 in H.
  unfold be32, be32_dec. rewrite !bval_b8. lia.
Qed.

Lemma be32_enc_dec : forall a b c d, be32 (be32_dec [a; b; c; d]) = [a; b; c; d].
Proof.
  intros a b c d. unfold be32, be32_dec.
  pose proof (bval_lt a). pose proof (bval_lt b). pose proof (bval_lt c). pose proof (bval_lt d).
  repeat f_equal; apply b8_eq; lia.
Qed.

Lemma be32_inj : forall a b, a < 2 ^ 32 -> b < 2 ^ 32 -> be32 a = be32 b -> a = b.
Proof.
  intros a b Ha Hb H. rewrite <- (be32_dec_enc a Ha), <- (be32_dec_enc b Hb), H. reflexivity.
Qed.

(* ---- the version triple ------------------------------------------------------------ *)
Lemma enc_version_length : forall v, length (enc_version v) = 12%nat.
Proof. intros [[a b] c]. reflexivity. Qed.

Lemma dec_enc_version : forall v, wf_version v -> dec_version (enc_version v) = v.
Proof.
  intros [[a b] c] (Ha & Hb & Hc).
  unfold enc_version, dec_version, be32. cbn [app firstn skipn].
  fold (be32 a). fold (be32 b). fold (be32 c).
  rewrite !be32_dec_enc by assumption. reflexivity.
Qed.

Lemma enc_dec_version : forall l, length l = 12%nat -> enc_version (dec_version l) = l.
Proof.
  intros l H.
  do 12 (destruct l as [|? l]; [discriminate|]). destruct l; [|discriminate].
  unfold dec_version. cbn [firstn skipn]. unfold enc_version.
  rewrite !be32_enc_dec. reflexivity.
Qed.

Lemma enc_version_inj : forall v w,
  wf_version v -> wf_version w -> enc_version v = enc_version w -> v = w.
Proof.
  intros v w Hv Hw H. rewrite <- (dec_enc_version v Hv), <- (dec_enc_version w Hw), H.
  reflexivity.
Qed.

Lemma version_eqb_eq : forall a b, version_eqb a b = true <-> a = b.
Proof.
  intros [[a1 a2] a3] [[b1 b2] b3]. unfold version_eqb. split; intro H.
  - apply andb_true_iff in H. destruct H as [H H3].
    apply andb_true_iff in H. destruct H as [H1 H2].
    apply N.eqb_eq in H1, H2, H3. subst. reflexivity.
  - injection H as -> -> ->. rewrite !N.eqb_refl. reflexivity.
Qed.

Lemma version_eqb_refl : forall a, version_eqb a a = true.
Proof. intro a. apply version_eqb_eq. reflexivity. Qed.

Lemma bytes_eqb_refl : forall a, bytes_eqb a a = true.
Proof. intro a. apply bytes_eqb_eq. reflexivity. Qed.

(* ---- io.ReadFull ----------------------------------------------------------------------- *)
Lemma firstn_app_exact : forall (a b : list byte), firstn (length a) (a ++ b) = a.
Proof. induction a as [|x a IH]; intro b; cbn [length app firstn]; [reflexivity|]. rewrite IH. reflexivity. Qed.

Lemma skipn_app_exact : forall (a b : list byte), skipn (length a) (a ++ b) = b.
Proof. induction a as [|x a IH]; intro b; cbn [length app skipn]; [reflexivity|]. apply IH. Qed.

Lemma read_full_app : forall n a b, length a = n -> read_full n (a ++ b) = Some (a, b).
Proof.
  intros n a b H. unfold read_full. subst n.
  replace (Nat.ltb (length (a ++ b)) (length a)) with false
    by (symmetry; apply Nat.ltb_ge; rewrite app_length; lia).
  rewrite firstn_app_exact, skipn_app_exact. reflexivity.
Qed.

Lemma read_full_exact : forall n a, length a = n -> read_full n a = Some (a, []).
Proof. intros n a H. rewrite <- (app_nil_r a) at 1. apply read_full_app. exact H. Qed.

Lemma read_full_short : forall n l, (length l < n)%nat -> read_full n l = None.
Proof.
  intros n l H. unfold read_full.
  replace (Nat.ltb (length l) n) with true by (symmetry; apply Nat.ltb_lt; exact H). reflexivity.
Qed.

Lemma read_full_some : forall n l a b,
  read_full n l = Some (a, b) -> l = a ++ b /\ length a = n.
Proof.
  intros n l a b H. unfold read_full in H.
  destruct (Nat.ltb (length l) n) eqn:E; [discriminate|]. apply Nat.ltb_ge in E.
  injection H as <- <-. split; [symmetry; apply firstn_skipn|].
  apply firstn_length_le. exact E.
Qed.

(* ---- each side on structured inputs ------------------------------------------------------ *)
Lemma client_short : forall c inp, (length inp < 3)%nat -> client c inp = ([], HRecvMagic).
Proof. intros c inp H. unfold client. rewrite read_full_short by exact H. reflexivity. Qed.

Lemma client_magic : forall c m r,
  length m = 3%nat ->
  client c (m ++ r)
  = if bytes_eqb m (c_smagic c) then
      match read_full 12 r with
      | None => (c_cmagic c, HRecvVersion)
      | Some (vb, _) =>
          (c_cmagic c ++ enc_version (c_ver c),
           if version_eqb (dec_version vb) (c_ver c) then HOk else HVersionMismatch)
      end
    else ([], HBadMagic).
Proof.
  intros c m r H. unfold client. rewrite read_full_app by exact H.
  destruct (bytes_eqb m (c_smagic c)); reflexivity.
Qed.

Lemma server_short : forall c inp, (length inp < 3)%nat -> server c inp = (c_smagic c, HRecvMagic).
Proof. intros c inp H. unfold server. rewrite read_full_short by exact H. reflexivity. Qed.

Lemma server_magic : forall c m r,
  length m = 3%nat ->
  server c (m ++ r)
  = if bytes_eqb m (c_cmagic c) then
      match read_full 12 r with
      | None => (c_smagic c ++ enc_version (c_ver c), HRecvVersion)
      | Some (vb, _) =>
          (c_smagic c ++ enc_version (c_ver c),
           if version_eqb (dec_version vb) (c_ver c) then HOk else HVersionMismatch)
      end
    else (c_smagic c, HBadMagic).
Proof.
  intros c m r H. unfold server. rewrite read_full_app by exact H.
  destruct (bytes_eqb m (c_cmagic c)); reflexivity.
Qed.

(* ---- a side accepts exactly when its whole expected input arrived intact -------------------- *)
Lemma client_accept_iff : forall c inp,
  wf_conf c ->
  (snd (client c inp) = HOk <-> exists rest, inp = client_expects c ++ rest).
Proof.
  intros c inp (Hs & Hc & Hv). unfold client_expects. split.
  - unfold client. destruct (read_full 3 inp) as [[m r1]|] eqn:E1; [|discriminate].
    apply read_full_some in E1. destruct E1 as [-> Hm].
    destruct (bytes_eqb m (c_smagic c)) eqn:Em; cbn [negb]; [|discriminate].
    apply bytes_eqb_eq in Em. subst m.
    destruct (read_full 12 r1) as [[vb r2]|] eqn:E2; [|discriminate].
    apply read_full_some in E2. destruct E2 as [-> Hvb]. cbn [snd].
    destruct (version_eqb (dec_version vb) (c_ver c)) eqn:Ev; [|discriminate].
    intros _. apply version_eqb_eq in Ev. exists r2.
    rewrite <- Ev, enc_dec_version by exact Hvb. rewrite <- app_assoc. reflexivity.
  - intros (rest & ->). rewrite <- app_assoc, client_magic by exact Hs.
    rewrite bytes_eqb_refl, read_full_app by apply enc_version_length.
    cbn [snd]. rewrite dec_enc_version by exact Hv. rewrite version_eqb_refl. reflexivity.
Qed.

Lemma server_accept_iff : forall c inp,
  wf_conf c ->
  (snd (server c inp) = HOk <-> exists rest, inp = server_expects c ++ rest).
Proof.
  intros c inp (Hs & Hc & Hv). unfold server_expects. split.
  - unfold server. destruct (read_full 3 inp) as [[m r1]|] eqn:E1; [|discriminate].
    apply read_full_some in E1. destruct E1 as [-> Hm].
    destruct (bytes_eqb m (c_cmagic c)) eqn:Em; cbn [negb]; [|discriminate].
    apply bytes_eqb_eq in Em. subst m.
    destruct (read_full 12 r1) as [[vb r2]|] eqn:E2; [|discriminate].
    apply read_full_some in E2. destruct E2 as [-> Hvb]. cbn [snd].
    destruct (version_eqb (dec_version vb) (c_ver c)) eqn:Ev; [|discriminate].
    intros _. apply version_eqb_eq in Ev. exists r2.
    rewrite <- Ev, enc_dec_version by exact Hvb. rewrite <- app_assoc. reflexivity.
  - intros (rest & ->). rewrite <- app_assoc, server_magic by exact Hc.
    rewrite bytes_eqb_refl, read_full_app by apply enc_version_length.
    cbn [snd]. rewrite dec_enc_version by exact Hv. rewrite version_eqb_refl. reflexivity.
Qed.

(* ---- both sides, faithful channel --------------------------------------------------------------- *)
Definition agree (cc sc : conf) : Prop :=
  c_smagic cc = c_smagic sc /\ c_cmagic cc = c_cmagic sc /\ c_ver cc = c_ver sc.

Lemma client_magic_only : forall c m,
  length m = 3%nat ->
  client c m = if bytes_eqb m (c_smagic c) then (c_cmagic c, HRecvVersion) else ([], HBadMagic).
Proof.
  intros c m H. rewrite <- (app_nil_r m) at 1. rewrite client_magic by exact H.
  rewrite (read_full_short 12 []) by (cbn; lia). reflexivity.
Qed.

Lemma client_full : forall c m vb,
  length m = 3%nat -> length vb = 12%nat ->
  client c (m ++ vb)
  = if bytes_eqb m (c_smagic c) then
      (c_cmagic c ++ enc_version (c_ver c),
       if version_eqb (dec_version vb) (c_ver c) then HOk else HVersionMismatch)
    else ([], HBadMagic).
Proof.
  intros c m vb H Hv. rewrite client_magic by exact H.
  rewrite (read_full_exact 12 vb) by exact Hv. reflexivity.
Qed.

Lemma server_magic_only : forall c m,
  length m = 3%nat ->
  server c m = if bytes_eqb m (c_cmagic c)
               then (c_smagic c ++ enc_version (c_ver c), HRecvVersion)
               else (c_smagic c, HBadMagic).
Proof.
  intros c m H. rewrite <- (app_nil_r m) at 1. rewrite server_magic by exact H.
  rewrite (read_full_short 12 []) by (cbn; lia). reflexivity.
Qed.

Lemma server_full : forall c m vb,
  length m = 3%nat -> length vb = 12%nat ->
  server c (m ++ vb)
  = if bytes_eqb m (c_cmagic c) then
      (c_smagic c ++ enc_version (c_ver c),
       if version_eqb (dec_version vb) (c_ver c) then HOk else HVersionMismatch)
    else (c_smagic c, HBadMagic).
Proof.
  intros c m vb H Hv. rewrite server_magic by exact H.
  rewrite (read_full_exact 12 vb) by exact Hv. reflexivity.
Qed.

Lemma joint_nofault : forall cc sc,
  wf_conf cc -> wf_conf sc ->
  (agree cc sc /\ joint cc sc NoFault NoFault = (HOk, HOk))
  \/ (~ agree cc sc /\ fst (joint cc sc NoFault NoFault) <> HOk
      /\ snd (joint cc sc NoFault NoFault) <> HOk).
Proof.
  intros cc sc (Hcs & Hcc & Hcv) (Hss & Hsc & Hsv).
  pose proof (server_short sc [] ltac:(cbn; lia)) as S0.
  pose proof (client_magic_only cc (c_smagic sc) Hss) as C1.
  pose proof (server_magic_only sc (c_cmagic cc) Hcc) as S1.
  pose proof (client_full cc (c_smagic sc) (enc_version (c_ver sc)) Hss
                (enc_version_length _)) as C2.
  pose proof (server_full sc (c_cmagic cc) (enc_version (c_ver cc)) Hcc
                (enc_version_length _)) as S2.
  rewrite dec_enc_version in C2, S2 by assumption.
  unfold joint. cbn [apply_fault].
  destruct (bytes_eqb (c_smagic sc) (c_smagic cc)) eqn:Esm;
    destruct (bytes_eqb (c_cmagic cc) (c_cmagic sc)) eqn:Ecm;
    repeat (progress (rewrite ?S0, ?C1, ?S1, ?C2, ?S2; cbn [fst snd])).
  - apply bytes_eqb_eq in Esm, Ecm.
    destruct (version_eqb (c_ver sc) (c_ver cc)) eqn:Ev.
    + apply version_eqb_eq in Ev. left. split; [repeat split; congruence|].
      rewrite Ev, version_eqb_refl. reflexivity.
    + right.
      assert (Ev' : version_eqb (c_ver cc) (c_ver sc) = false).
      { destruct (version_eqb (c_ver cc) (c_ver sc)) eqn:E; [|reflexivity].
        apply version_eqb_eq in E. rewrite E, version_eqb_refl in Ev. discriminate. }
      rewrite Ev'. cbn [fst snd]. repeat split; try discriminate.
      intros (_ & _ & H). rewrite H, version_eqb_refl in Ev. discriminate.
  - right. repeat split; try discriminate.
    intros (_ & H & _). rewrite H, bytes_eqb_refl in Ecm. discriminate.
  - right. repeat split; try discriminate.
    intros (H & _). rewrite H, bytes_eqb_refl in Esm. discriminate.
  - right. repeat split; try discriminate.
    intros (H & _). rewrite H, bytes_eqb_refl in Esm. discriminate.
Qed.

Theorem handshake_accept_iff : forall cc sc,
  wf_conf cc -> wf_conf sc ->
  (joint cc sc NoFault NoFault = (HOk, HOk) <-> agree cc sc).
Proof.
  intros cc sc Hc Hs. destruct (joint_nofault cc sc Hc Hs) as [(Ha & Hj)|(Hn & H1 & H2)].
  - split; intro; assumption.
  - split; intro H.
    + rewrite H in H1. exfalso. apply H1. reflexivity.
    + contradiction.
Qed.

Theorem handshake_mismatch_both : forall cc sc,
  wf_conf cc -> wf_conf sc -> ~ agree cc sc ->
  fst (joint cc sc NoFault NoFault) <> HOk /\ snd (joint cc sc NoFault NoFault) <> HOk.
Proof.
  intros cc sc Hc Hs Hn. destruct (joint_nofault cc sc Hc Hs) as [(Ha & _)|(_ & H1 & H2)].
  - contradiction.
  - split; assumption.
Qed.

(* ---- faults ------------------------------------------------------------------------------------- *)
Lemma set_nth_length : forall l p v, length (set_nth p v l) = length l.
Proof.
  induction l as [|x t IH]; intros [|p] v; cbn [set_nth length]; try reflexivity.
  rewrite IH. reflexivity.
Qed.

Lemma apply_fault_length : forall f l, (length (apply_fault f l) <= length l)%nat.
Proof.
  intros [|p v|p] l; cbn [apply_fault].
  - lia.
  - rewrite set_nth_length. lia.
  - rewrite firstn_length. lia.
Qed.

Lemma app_same_length_eq : forall (a b c d : list byte),
  a ++ b = c ++ d -> length a = length c -> a = c /\ b = d.
Proof.
  induction a as [|x a IH]; intros b [|y c] d H Hl; cbn [length] in Hl; try discriminate.
  - split; [reflexivity|exact H].
  - cbn [app] in H. injection H as -> H. injection Hl as Hl.
    destruct (IH _ _ _ H Hl) as [-> ->]. split; reflexivity.
Qed.

(* what a side has sent is always a prefix of what its peer of the same build expects *)
Lemma server_sent_prefix : forall c inp, exists r, client_expects c = fst (server c inp) ++ r.
Proof.
  intros c inp. unfold client_expects, server.
  destruct (read_full 3 inp) as [[m r1]|].
  - destruct (negb (bytes_eqb m (c_cmagic c))).
    + eexists. reflexivity.
    + destruct (read_full 12 r1) as [[vb r2]|]; exists []; rewrite app_nil_r; reflexivity.
  - eexists. reflexivity.
Qed.

Lemma client_sent_prefix : forall c inp, exists r, server_expects c = fst (client c inp) ++ r.
Proof.
  intros c inp. unfold server_expects, client.
  destruct (read_full 3 inp) as [[m r1]|].
  - destruct (negb (bytes_eqb m (c_smagic c))).
    + eexists. reflexivity.
    + destruct (read_full 12 r1) as [[vb r2]|].
      * exists []. rewrite app_nil_r. reflexivity.
      * eexists. reflexivity.
  - eexists. reflexivity.
Qed.

(* a fault applied to a prefix of E cannot produce something that starts with
   E unless the prefix is E and the fault leaves E alone *)
Lemma fault_on_prefix : forall f E s r rest,
  E = s ++ r -> apply_fault f s = E ++ rest -> apply_fault f E = E.
Proof.
  intros f E s r rest HE Hf.
  pose proof (apply_fault_length f s) as Hl. rewrite Hf in Hl.
  rewrite HE in Hl. rewrite !app_length in Hl.
  assert (r = []) by (destruct r; [reflexivity|cbn [length] in Hl; lia]).
  assert (rest = []) by (destruct rest; [reflexivity|cbn [length] in Hl; lia]).
  subst r rest. rewrite app_nil_r in *. subst s. exact Hf.
Qed.

Lemma effective_false : forall f E, apply_fault f E = E -> effective f E = false.
Proof. intros f E H. unfold effective. rewrite H, bytes_eqb_refl. reflexivity. Qed.

Theorem handshake_fault_receiver_fails : forall c fsc fcs,
  wf_conf c ->
  (effective fsc (client_expects c) = true -> fst (joint c c fsc fcs) <> HOk)
  /\ (effective fcs (server_expects c) = true -> snd (joint c c fsc fcs) <> HOk).
Proof.
  intros c fsc fcs Hwf. unfold joint. cbn [fst snd]. split; intros Heff Hok.
  - apply (client_accept_iff c _ Hwf) in Hok. destruct Hok as (rest & Hrest).
    match type of Hrest with apply_fault _ (fst (server c ?x)) = _ =>
      destruct (server_sent_prefix c x) as (r & Hr) end.
    pose proof (fault_on_prefix _ _ _ _ _ Hr Hrest) as H.
    rewrite (effective_false _ _ H) in Heff. discriminate.
  - apply (server_accept_iff c _ Hwf) in Hok. destruct Hok as (rest & Hrest).
    match type of Hrest with apply_fault _ (fst (client c ?x)) = _ =>
      destruct (client_sent_prefix c x) as (r & Hr) end.
    pose proof (fault_on_prefix _ _ _ _ _ Hr Hrest) as H.
    rewrite (effective_false _ _ H) in Heff. discriminate.
Qed.

(* a fault that leaves the whole stream alone leaves every prefix alone *)
Lemma set_nth_prefix : forall a b p v, set_nth p v (a ++ b) = a ++ b -> set_nth p v a = a.
Proof.
  induction a as [|x a IH]; intros b p v H; [destruct p; reflexivity|].
  destruct p as [|p]; cbn [app set_nth] in *.
  - injection H as ->. reflexivity.
  - injection H as H. rewrite (IH _ _ _ H). reflexivity.
Qed.

Lemma ineffective_prefix : forall f a b,
  effective f (a ++ b) = false -> apply_fault f a = a.
Proof.
  intros f a b H. unfold effective in H. apply negb_false_iff in H. apply bytes_eqb_eq in H.
  destruct f as [|p v|p]; cbn [apply_fault] in *.
  - reflexivity.
  - eapply set_nth_prefix. exact H.
  - apply firstn_all2.
    assert (Hl : length (firstn p (a ++ b)) = length (a ++ b)) by (rewrite H; reflexivity).
    rewrite firstn_length, app_length in Hl. lia.
Qed.

Lemma joint_ineffective : forall c fsc fcs,
  wf_conf c ->
  effective fsc (client_expects c) = false -> effective fcs (server_expects c) = false ->
  joint c c fsc fcs = (HOk, HOk).
Proof.
  intros c fsc fcs Hwf Hsc Hcs.
  assert (Hj : joint c c fsc fcs = joint c c NoFault NoFault).
  { unfold joint. cbn [apply_fault].
    assert (Fs : forall x, apply_fault fsc (fst (server c x)) = fst (server c x)).
    { intro x. destruct (server_sent_prefix c x) as (r & Hr). rewrite Hr in Hsc.
      eapply ineffective_prefix. exact Hsc. }
    assert (Fc : forall x, apply_fault fcs (fst (client c x)) = fst (client c x)).
    { intro x. destruct (client_sent_prefix c x) as (r & Hr). rewrite Hr in Hcs.
      eapply ineffective_prefix. exact Hcs. }
    rewrite !Fs, !Fc. reflexivity. }
  rewrite Hj. apply handshake_accept_iff; try assumption. repeat split.
Qed.

(* ---- the checkers ------------------------------------------------------------------------------------ *)
Lemma is_prefix_spec : forall p l, is_prefix p l = true <-> exists rest, l = p ++ rest.
Proof.
  induction p as [|x p IH]; intros l; cbn [is_prefix].
  - split; [intros _; exists l; reflexivity|reflexivity].
  - destruct l as [|y l].
    + split; [discriminate|]. intros (rest & H). discriminate.
    + destruct (Byte.eqb x y) eqn:E.
      * apply Byte.byte_dec_bl in E. subst y. rewrite IH. split; intros (rest & H); exists rest.
        -- rewrite H. reflexivity.
        -- cbn [app] in H. injection H as H. exact H.
      * split; [discriminate|]. intros (rest & H). cbn [app] in H. injection H as -> _.
        rewrite (Byte.byte_dec_lb eq_refl) in E. discriminate.
Qed.

Lemma is_ok_spec : forall r, is_ok r = true <-> r = HOk.
Proof. intros []; cbn; split; intro H; try reflexivity; discriminate. Qed.

Lemma check_side_sound : forall E inp r,
  check_side E inp r = true -> (r = HOk <-> exists rest, inp = E ++ rest).
Proof.
  intros E inp r H. unfold check_side in H. apply eqb_prop in H. split.
  - intro Hr. apply is_prefix_spec. rewrite <- H. apply is_ok_spec. exact Hr.
  - intro Hp. apply is_ok_spec. rewrite H. apply is_prefix_spec. exact Hp.
Qed.

Lemma check_side_of_iff : forall E inp r,
  (r = HOk <-> exists rest, inp = E ++ rest) -> check_side E inp r = true.
Proof.
  intros E inp r H. unfold check_side. apply eqb_true_iff. apply eq_true_iff_eq. split.
  - intro Hr. apply is_prefix_spec. apply H. apply is_ok_spec. exact Hr.
  - intro Hp. apply is_ok_spec. apply H. apply is_prefix_spec. exact Hp.
Qed.

Lemma check_side_client : forall c inp,
  wf_conf c -> check_side (client_expects c) inp (snd (client c inp)) = true.
Proof. intros c inp Hwf. apply check_side_of_iff. apply client_accept_iff. exact Hwf. Qed.

Lemma check_side_server : forall c inp,
  wf_conf c -> check_side (server_expects c) inp (snd (server c inp)) = true.
Proof. intros c inp Hwf. apply check_side_of_iff. apply server_accept_iff. exact Hwf. Qed.

Lemma check_joint_sound : forall c fsc fcs r,
  check_joint c fsc fcs r = true ->
  (effective fsc (client_expects c) = true -> fst r <> HOk)
  /\ (effective fcs (server_expects c) = true -> snd r <> HOk)
  /\ (effective fsc (client_expects c) = false -> effective fcs (server_expects c) = false ->
      r = (HOk, HOk)).
Proof.
  intros c fsc fcs [r1 r2] H. unfold check_joint in H. cbn [fst snd] in *.
  apply andb_true_iff in H. destruct H as [H H3].
  apply andb_true_iff in H. destruct H as [H1 H2].
  repeat split.
  - intros E Hr. rewrite E, Hr in H1. discriminate.
  - intros E Hr. rewrite E, Hr in H2. discriminate.
  - intros E1 E2. rewrite E1, E2 in H3. cbn [orb] in H3.
    apply andb_true_iff in H3. destruct H3 as [Ha Hb].
    apply is_ok_spec in Ha, Hb. subst. reflexivity.
Qed.

Lemma check_joint_model : forall c fsc fcs,
  wf_conf c -> check_joint c fsc fcs (joint c c fsc fcs) = true.
Proof.
  intros c fsc fcs Hwf. unfold check_joint.
  destruct (handshake_fault_receiver_fails c fsc fcs Hwf) as (H1 & H2).
  destruct (effective fsc (client_expects c)) eqn:E1;
    destruct (effective fcs (server_expects c)) eqn:E2; cbn [orb].
  - specialize (H1 eq_refl). specialize (H2 eq_refl).
    destruct (fst (joint c c fsc fcs)); [contradiction H1; reflexivity| | | |];
      (destruct (snd (joint c c fsc fcs)); [contradiction H2; reflexivity| | | |]); reflexivity.
  - specialize (H1 eq_refl).
    destruct (fst (joint c c fsc fcs)); [contradiction H1; reflexivity| | | |]; reflexivity.
  - specialize (H2 eq_refl).
    destruct (snd (joint c c fsc fcs)); [contradiction H2; reflexivity| | | |]; reflexivity.
  - rewrite (joint_ineffective c fsc fcs Hwf E1 E2). reflexivity.
Qed.

(* ---- the code's constants ------------------------------------------------------------------------------ *)
Lemma go_conf_wf : wf_conf go_conf.
Proof. repeat split; reflexivity. Qed.

(* The literal reading "any corrupted handshake makes BOTH sides fail" does not
   hold for the two version messages: the client sends its version before it
   compares, so a corrupted server version lets the server's handshake succeed,
   and a corrupted client version (the last message) lets the client's succeed.
   In both cases the receiver fails and closes the stream. *)
Lemma late_corruption_sender_succeeds :
  effective (Alter 14 xff) (client_expects go_conf) = true
  /\ joint go_conf go_conf (Alter 14 xff) NoFault = (HVersionMismatch, HOk)
  /\ effective (Alter 14 xff) (server_expects go_conf) = true
  /\ joint go_conf go_conf NoFault (Alter 14 xff) = (HOk, HVersionMismatch).
Proof. vm_compute. repeat split. Qed.

Lemma handshake_example :
  joint go_conf go_conf NoFault NoFault = (HOk, HOk)
  /\ client go_conf (client_expects go_conf)
     = (go_client_magic ++ enc_version go_version, HOk)
  /\ enc_version go_version = [x00; x00; x00; x00; x00; x00; x00; x13; x00; x00; x00; x00].
Proof. vm_compute. repeat split. Qed.
