(* Soundness of the history checkers of Model/CheckHistory.v: what a passing
   check says about the recorded history, as propositions; and the link from
   the C05 history check to the C05 theorems (Proof/C05.v). *)
From Coq Require Import List Bool Arith String Lia.
Import ListNotations.
From Mv Require Import Model.Entry Model.Reconcile Model.Outcomes Model.C04Cycle Model.Exec
  Model.Safety Model.CheckHistory Proof.EntryFacts Proof.C05.
Local Open Scope list_scope.

(* ---------- the model track ---------- *)

Lemma expected_anc_early : forall m anc c, reached c = false -> expected_anc m anc c = anc.
Proof. intros m anc c H. unfold expected_anc. now rewrite H. Qed.

Lemma expected_anc_recipe : forall m anc c x,
  reached c = true ->
  update anc (plan_of m anc c) (olist (k_ra c)) (olist (k_rb c)) = FOk x ->
  wf true x = true ->
  expected_anc m anc c = x.
Proof. intros m anc c x H U W. unfold expected_anc. now rewrite H, U, W. Qed.

(* ---------- C05 ---------- *)

Lemma hist_c05_sound : forall h, check_hist_c05 h = true ->
  forall anc c, In (anc, c) (track (h_mode h) None (h_cycles h)) ->
    k_disk c = expected_anc (h_mode h) anc c.
Proof.
  intros h H anc c I. unfold check_hist_c05 in H. rewrite forallb_forall in H.
  specialize (H _ I). cbn in H. unfold c05_cycle in H. now apply oentry_eqb_eq in H.
Qed.

(* a cycle that ended before the Transition calls leaves the archive alone *)
Lemma hist_c05_early : forall h, check_hist_c05 h = true ->
  forall anc c, In (anc, c) (track (h_mode h) None (h_cycles h)) ->
    reached c = false -> k_disk c = anc.
Proof. intros h H anc c I R. rewrite (hist_c05_sound h H anc c I). now apply expected_anc_early. Qed.

(* a cycle that reached them: the archive on disk is the update recipe's
   result, it is synchronizable, and at every transitioned path it holds
   exactly what the endpoint reported (through the C05 theorems) *)
Lemma hist_c05_faithful : forall h, check_hist_c05 h = true ->
  forall anc c, In (anc, c) (track (h_mode h) None (h_cycles h)) ->
    reached c = true ->
    inputs_ok anc (fst (exec_prop anc c)) (snd (exec_prop anc c)) = true ->
    side_ok (alpha_ch (plan_of (h_mode h) anc c)) (olist (k_ra c)) = true ->
    side_ok (beta_ch (plan_of (h_mode h) anc c)) (olist (k_rb c)) = true ->
    update anc (plan_of (h_mode h) anc c) (olist (k_ra c)) (olist (k_rb c)) = FOk (k_disk c)
    /\ wf true (k_disk c) = true
    /\ forall r, In r (olist (k_ra c) ++ olist (k_rb c)) -> at_path (k_disk c) (cpath r) = cnew r.
Proof.
  intros h H anc c I R. unfold plan_of. destruct (exec_prop anc c) as [a b] eqn:E. cbn [fst snd].
  intros IO SA SB.
  destruct (cycle_total (h_mode h) anc a b _ _ IO SA SB) as [x U].
  pose proof (cycle_valid (h_mode h) anc a b _ _ IO SA SB x U) as W.
  assert (D : k_disk c = x).
  { rewrite (hist_c05_sound h H anc c I). apply expected_anc_recipe; auto.
    unfold plan_of. now rewrite E. }
  rewrite D. split; [exact U|]. split; [exact W|].
  exact (cycle_exact (h_mode h) anc a b _ _ IO SA SB x U).
Qed.

(* ---------- C01 ---------- *)

Definition holds_file (t : oentry) (p : path) (d : string) : Prop :=
  exists x, at_path t p = Some (EFile x d).

Lemma file_with_holds : forall t p d, file_with (at_path t p) d = true -> holds_file t p d.
Proof.
  intros t p d H. unfold file_with in H. destruct (at_path t p) as [[| x d' | | | |]|] eqn:E; try discriminate.
  apply String.eqb_eq in H. subst. now exists x.
Qed.

Lemma at_path_none_h : forall q, at_path None q = None.
Proof. induction q as [|n r IH]; cbn; auto. Qed.

Lemma paths_entry_complete : forall e p v, at_path (Some e) p = Some v -> In p (paths_entry e).
Proof.
  fix IH 1. intros e p v H. destruct p as [|n r].
  - destruct e; cbn; auto.
  - cbn [at_path] in H.
    assert (G : forall c, at_path (lookup n c) r = Some v ->
              In (n :: r) ((fix go (l : list (name * entry)) : list path :=
                              match l with
                              | [] => []
                              | (n0, x) :: t => map (cons n0) (paths_entry x) ++ go t
                              end) c)).
    { induction c as [|[k x] t IHc]; cbn [lookup].
      - rewrite at_path_none_h. discriminate.
      - destruct (String.eqb n k) eqn:K.
        + apply String.eqb_eq in K. subst k. intro A. apply in_or_app. left.
          apply in_map. exact (IH x r v A).
        + intro A. apply in_or_app. right. exact (IHc A). }
    destruct e as [c| | | | |c]; cbn [contents] in H;
      try (cbn [lookup] in H; rewrite at_path_none_h in H; discriminate);
      cbn [paths_entry]; right; apply G; exact H.
Qed.

Lemma paths_complete : forall t p v, at_path t p = Some v -> In p (paths t).
Proof.
  intros [e|] p v H.
  - exact (paths_entry_complete e p v H).
  - rewrite at_path_none_h in H. discriminate.
Qed.

Lemma kept_sound : forall before after other anc, kept before after other anc = true ->
  forall p x d, at_path before p = Some (EFile x d) ->
    holds_file after p d \/ holds_file other p d \/ holds_file anc p d.
Proof.
  intros before after other anc K p x d H. unfold kept in K. rewrite forallb_forall in K.
  specialize (K p (paths_complete _ _ _ H)). rewrite H in K.
  apply orb_true_iff in K. destruct K as [K|K]; [apply orb_true_iff in K; destruct K as [K|K]|].
  - left. now apply file_with_holds.
  - right. left. now apply file_with_holds.
  - right. right. now apply file_with_holds.
Qed.

(* two-way-safe: a file version a root held before a cycle is still there
   after it, or is on the other root, or is the content the last-synchronized
   state held at that path *)
Lemma hist_c01_sound : forall h, h_mode h = TwoWaySafe -> check_hist_c01 h = true ->
  forall anc c, In (anc, c) (track (h_mode h) None (h_cycles h)) ->
    (forall p x d, at_path (k_wa0 c) p = Some (EFile x d) ->
       holds_file (k_wa c) p d \/ holds_file (k_wb c) p d \/ holds_file anc p d)
    /\ (forall p x d, at_path (k_wb0 c) p = Some (EFile x d) ->
       holds_file (k_wb c) p d \/ holds_file (k_wa c) p d \/ holds_file anc p d).
Proof.
  intros h M H anc c I. unfold check_hist_c01 in H. rewrite M in H. cbn [is_safe] in H.
  rewrite M in I. rewrite forallb_forall in H. specialize (H _ I). cbn [fst snd] in H.
  unfold c01_cycle in H. apply andb_true_iff in H. destruct H as [A B].
  split; intros p x d E; [exact (kept_sound _ _ _ _ A p x d E)|exact (kept_sound _ _ _ _ B p x d E)].
Qed.

(* ---------- C04 ---------- *)

Inductive adjacent : cyc -> cyc -> list cyc -> Prop :=
| adj_here : forall c1 c2 t, adjacent c1 c2 (c1 :: c2 :: t)
| adj_later : forall c1 c2 c t, adjacent c1 c2 t -> adjacent c1 c2 (c :: t).

Lemma c04_chain_sound : forall cs, c04_chain cs = true ->
  forall c1 c2, adjacent c1 c2 cs -> quiet c1 c2 = true -> unchanged c1 c2 = true.
Proof.
  intros cs H c1 c2 A. induction A as [c1 c2 t|c1 c2 c t A IH]; intro Q.
  - cbn [c04_chain] in H. rewrite Q in H. now apply andb_true_iff in H.
  - apply IH; auto. destruct t as [|c' t']; [inversion A|].
    cbn [c04_chain] in H. now apply andb_true_iff in H.
Qed.

Lemma unchanged_spec : forall c1 c2, unchanged c1 c2 = true ->
  k_stage c2 = false /\ k_ta c2 = None /\ k_tb c2 = None /\ k_disk c2 = k_disk c1.
Proof.
  intros c1 c2 H. unfold unchanged in H. repeat (apply andb_true_iff in H; destruct H as [H ?]).
  repeat split.
  - now apply negb_true_iff in H.
  - destruct (k_ta c2); [discriminate|reflexivity].
  - destruct (k_tb c2); [discriminate|reflexivity].
  - now apply oentry_eqb_eq.
Qed.

Lemma quiet_spec : forall c1 c2, quiet c1 c2 = true ->
  complete c1 = true /\ k_wa0 c2 = k_wa c1 /\ k_wb0 c2 = k_wb c1.
Proof.
  intros c1 c2 H. unfold quiet in H. apply andb_true_iff in H. destruct H as [H B].
  apply andb_true_iff in H. destruct H as [C A].
  split; [exact C|]. split; symmetry; now apply oentry_eqb_eq.
Qed.

Lemma hist_c04_sound : forall h, check_hist_c04 h = true ->
  forall c1 c2, adjacent c1 c2 (h_cycles h) -> quiet c1 c2 = true ->
    k_stage c2 = false /\ k_ta c2 = None /\ k_tb c2 = None /\ k_disk c2 = k_disk c1.
Proof.
  intros h H c1 c2 A Q. apply unchanged_spec. exact (c04_chain_sound _ H c1 c2 A Q).
Qed.

(* ---------- C18 ---------- *)

Lemma existsb_eqb_false : forall v l, existsb (Nat.eqb v) l = false -> ~ In v l.
Proof.
  intros v l H I. assert (E : existsb (Nat.eqb v) l = true).
  { apply existsb_exists. exists v. split; auto. apply Nat.eqb_refl. }
  congruence.
Qed.

(* verdict 0: in every cycle no transition sent to P changes a bit where the
   file is on both sides, and no bit changed on P's disk at such a path *)
Lemma hist_c18_sound : forall h na, h_n h = Some na -> c18_hist_verdict h = 0 ->
  forall c, In c (h_cycles h) ->
    (forall ch, In ch (p_trans na c) -> change_keeps_bits (p_snap na c) (n_snap na c) ch = true)
    /\ walk_keeps_bits (p_walk0 na c) (p_walk na c) (n_snap na c) = true.
Proof.
  intros h na N V c I. unfold c18_hist_verdict in V. rewrite N in V.
  set (vs := map (c18_cycle_verdict (h_mode h) na) (h_cycles h)) in V.
  destruct (existsb (Nat.eqb 2) vs) eqn:E2; [discriminate|].
  destruct (existsb (Nat.eqb 6) vs) eqn:E6; [discriminate|].
  apply existsb_eqb_false in E2. apply existsb_eqb_false in E6.
  assert (C : c18_cycle na c = true).
  { destruct (c18_cycle na c) eqn:C; auto. exfalso.
    assert (J : In (c18_cycle_verdict (h_mode h) na c) vs) by (apply in_map; exact I).
    unfold c18_cycle_verdict in J. rewrite C in J.
    destruct (known_C18 (c18_input (h_mode h) na c)); [exact (E6 J)|exact (E2 J)]. }
  unfold c18_cycle in C. apply andb_true_iff in C. destruct C as [A B]. split; auto.
  intros ch Ich. rewrite forallb_forall in A. exact (A ch Ich).
Qed.

(* outside the known class a failing cycle gives verdict 2, never 6 *)
Lemma hist_c18_known_only : forall h na, h_n h = Some na -> c18_hist_verdict h = 6 ->
  forall c, In c (h_cycles h) -> c18_cycle na c = false ->
    known_C18 (c18_input (h_mode h) na c) = true.
Proof.
  intros h na N V c I C. unfold c18_hist_verdict in V. rewrite N in V.
  set (vs := map (c18_cycle_verdict (h_mode h) na) (h_cycles h)) in V.
  destruct (existsb (Nat.eqb 2) vs) eqn:E2; [discriminate|].
  apply existsb_eqb_false in E2.
  destruct (known_C18 (c18_input (h_mode h) na c)) eqn:K; auto. exfalso. apply E2.
  replace 2 with (c18_cycle_verdict (h_mode h) na c); [apply in_map; exact I|].
  unfold c18_cycle_verdict. now rewrite C, K.
Qed.

(* ---------- non-vacuity: two recorded histories ---------- *)

Definition xcyc (anc sa sb : oentry) (pa pb stage : bool) (ta tb ra rb : option (list change))
  (ok : bool) (disk wa0 wb0 wa wb : oentry) : cyc :=
  {| k_anc := anc; k_sa := sa; k_sb := sb; k_pa := pa; k_pb := pb; k_stage := stage;
     k_ta := ta; k_tb := tb; k_ra := ra; k_rb := rb; k_ok := ok; k_disk := disk;
     k_wa0 := wa0; k_wb0 := wb0; k_wa := wa; k_wb := wb |}.
Definition xhist (m : mode) (docker : bool) (n : option bool) (cs : list cyc) : hist :=
  {| h_mode := m; h_docker := docker; h_n := n; h_cycles := cs |}.

Local Open Scope string_scope.

(* recorded by goharness/cmd/history: alpha creates a file and a directory;
   both roots delete the file; manager restart; alpha creates the file again
   with the old content; a quiescent cycle *)
Definition ex_hist : hist := xhist TwoWaySafe false None [
 xcyc None
  (Some (EDir [("d", EDir [("x", EFile true "h1"); ("y", EFile false "h1")]); ("f", EFile false "h0"); ("k", EFile false "h2")]))
  (Some (EDir [("k", EFile false "h2")]))
  true true true
  None
  (Some [(mk ["d"] None (Some (EDir [("x", EFile true "h1"); ("y", EFile false "h1")]))); (mk ["f"] None (Some (EFile false "h0")))])
  None
  (Some [(mk ["d"] None (Some (EDir [("x", EFile true "h1"); ("y", EFile false "h1")]))); (mk ["f"] None (Some (EFile false "h0")))])
  true (Some (EDir [("d", EDir [("x", EFile true "h1"); ("y", EFile false "h1")]); ("f", EFile false "h0"); ("k", EFile false "h2")]))
  (Some (EDir [("d", EDir [("x", EFile true "h1"); ("y", EFile false "h1")]); ("f", EFile false "h0"); ("k", EFile false "h2")]))
  (Some (EDir [("k", EFile false "h2")]))
  (Some (EDir [("d", EDir [("x", EFile true "h1"); ("y", EFile false "h1")]); ("f", EFile false "h0"); ("k", EFile false "h2")]))
  (Some (EDir [("d", EDir [("x", EFile true "h1"); ("y", EFile false "h1")]); ("f", EFile false "h0"); ("k", EFile false "h2")]));
 xcyc (Some (EDir [("d", EDir [("x", EFile true "h1"); ("y", EFile false "h1")]); ("f", EFile false "h0"); ("k", EFile false "h2")]))
  (Some (EDir [("d", EDir [("x", EFile true "h1"); ("y", EFile false "h1")]); ("k", EFile false "h2")]))
  (Some (EDir [("d", EDir [("x", EFile true "h1"); ("y", EFile false "h1")]); ("k", EFile false "h2")]))
  true true false
  None
  None
  None
  None
  true (Some (EDir [("d", EDir [("x", EFile true "h1"); ("y", EFile false "h1")]); ("k", EFile false "h2")]))
  (Some (EDir [("d", EDir [("x", EFile true "h1"); ("y", EFile false "h1")]); ("k", EFile false "h2")]))
  (Some (EDir [("d", EDir [("x", EFile true "h1"); ("y", EFile false "h1")]); ("k", EFile false "h2")]))
  (Some (EDir [("d", EDir [("x", EFile true "h1"); ("y", EFile false "h1")]); ("k", EFile false "h2")]))
  (Some (EDir [("d", EDir [("x", EFile true "h1"); ("y", EFile false "h1")]); ("k", EFile false "h2")]));
 xcyc (Some (EDir [("d", EDir [("x", EFile true "h1"); ("y", EFile false "h1")]); ("k", EFile false "h2")]))
  (Some (EDir [("d", EDir [("x", EFile true "h1"); ("y", EFile false "h1")]); ("f", EFile false "h0"); ("k", EFile false "h2")]))
  (Some (EDir [("d", EDir [("x", EFile true "h1"); ("y", EFile false "h1")]); ("k", EFile false "h2")]))
  true true true
  None
  (Some [(mk ["f"] None (Some (EFile false "h0")))])
  None
  (Some [(mk ["f"] None (Some (EFile false "h0")))])
  true (Some (EDir [("d", EDir [("x", EFile true "h1"); ("y", EFile false "h1")]); ("f", EFile false "h0"); ("k", EFile false "h2")]))
  (Some (EDir [("d", EDir [("x", EFile true "h1"); ("y", EFile false "h1")]); ("f", EFile false "h0"); ("k", EFile false "h2")]))
  (Some (EDir [("d", EDir [("x", EFile true "h1"); ("y", EFile false "h1")]); ("k", EFile false "h2")]))
  (Some (EDir [("d", EDir [("x", EFile true "h1"); ("y", EFile false "h1")]); ("f", EFile false "h0"); ("k", EFile false "h2")]))
  (Some (EDir [("d", EDir [("x", EFile true "h1"); ("y", EFile false "h1")]); ("f", EFile false "h0"); ("k", EFile false "h2")]));
 xcyc (Some (EDir [("d", EDir [("x", EFile true "h1"); ("y", EFile false "h1")]); ("f", EFile false "h0"); ("k", EFile false "h2")]))
  (Some (EDir [("d", EDir [("x", EFile true "h1"); ("y", EFile false "h1")]); ("f", EFile false "h0"); ("k", EFile false "h2")]))
  (Some (EDir [("d", EDir [("x", EFile true "h1"); ("y", EFile false "h1")]); ("f", EFile false "h0"); ("k", EFile false "h2")]))
  true true false
  None
  None
  None
  None
  true (Some (EDir [("d", EDir [("x", EFile true "h1"); ("y", EFile false "h1")]); ("f", EFile false "h0"); ("k", EFile false "h2")]))
  (Some (EDir [("d", EDir [("x", EFile true "h1"); ("y", EFile false "h1")]); ("f", EFile false "h0"); ("k", EFile false "h2")]))
  (Some (EDir [("d", EDir [("x", EFile true "h1"); ("y", EFile false "h1")]); ("f", EFile false "h0"); ("k", EFile false "h2")]))
  (Some (EDir [("d", EDir [("x", EFile true "h1"); ("y", EFile false "h1")]); ("f", EFile false "h0"); ("k", EFile false "h2")]))
  (Some (EDir [("d", EDir [("x", EFile true "h1"); ("y", EFile false "h1")]); ("f", EFile false "h0"); ("k", EFile false "h2")]))].

(* recorded: Docker-style ignores ["t"; "!t/r"], alpha reports no
   executability, two-way-resolved; in the third cycle both sides have modified
   f and alpha wins (the known class of C18) *)
Definition ex_hist_n : hist := xhist TwoWayResolved true (Some true) [
 xcyc None
  (Some (EDir [("k", EFile false "h0")]))
  (Some (EDir [("f", EFile true "h1"); ("k", EFile false "h0"); ("t", EPhantom [("o", EUntracked); ("r", EFile true "h2")])]))
  false true true
  (Some [(mk ["t"] None (Some (EDir [("r", EFile true "h2")]))); (mk ["f"] None (Some (EFile true "h1")))])
  None
  (Some [(mk ["t"] None (Some (EDir [("r", EFile true "h2")]))); (mk ["f"] None (Some (EFile true "h1")))])
  None
  true (Some (EDir [("f", EFile true "h1"); ("k", EFile false "h0"); ("t", EDir [("r", EFile true "h2")])]))
  (Some (EDir [("k", EFile false "h0")]))
  (Some (EDir [("f", EFile true "h1"); ("k", EFile false "h0"); ("t", EDir [("o", EFile false "h1"); ("r", EFile true "h2")])]))
  (Some (EDir [("f", EFile true "h1"); ("k", EFile false "h0"); ("t", EDir [("r", EFile true "h2")])]))
  (Some (EDir [("f", EFile true "h1"); ("k", EFile false "h0"); ("t", EDir [("o", EFile false "h1"); ("r", EFile true "h2")])]));
 xcyc (Some (EDir [("f", EFile true "h1"); ("k", EFile false "h0"); ("t", EDir [("r", EFile true "h2")])]))
  (Some (EDir [("f", EFile false "h3"); ("k", EFile false "h0"); ("t", EPhantom [("r", EFile false "h2")])]))
  (Some (EDir [("f", EFile true "h1"); ("k", EFile false "h0"); ("t", EPhantom [("o", EUntracked); ("r", EFile true "h2")])]))
  false true true
  None
  (Some [(mk ["f"] (Some (EFile true "h1")) (Some (EFile true "h3")))])
  None
  (Some [(mk ["f"] None (Some (EFile true "h3")))])
  true (Some (EDir [("f", EFile true "h3"); ("k", EFile false "h0"); ("t", EDir [("r", EFile true "h2")])]))
  (Some (EDir [("f", EFile false "h3"); ("k", EFile false "h0"); ("t", EDir [("r", EFile true "h2")])]))
  (Some (EDir [("f", EFile true "h1"); ("k", EFile false "h0"); ("t", EDir [("o", EFile false "h1"); ("r", EFile true "h2")])]))
  (Some (EDir [("f", EFile false "h3"); ("k", EFile false "h0"); ("t", EDir [("r", EFile true "h2")])]))
  (Some (EDir [("f", EFile true "h3"); ("k", EFile false "h0"); ("t", EDir [("o", EFile false "h1"); ("r", EFile true "h2")])]));
 xcyc (Some (EDir [("f", EFile true "h3"); ("k", EFile false "h0"); ("t", EDir [("r", EFile true "h2")])]))
  (Some (EDir [("f", EFile false "h4"); ("k", EFile false "h0"); ("t", EPhantom [("r", EFile false "h2")])]))
  (Some (EDir [("f", EFile true "h2"); ("k", EFile false "h0"); ("t", EPhantom [("o", EUntracked); ("r", EFile true "h2")])]))
  false true true
  None
  (Some [(mk ["f"] (Some (EFile true "h2")) (Some (EFile false "h4")))])
  None
  (Some [(mk ["f"] None (Some (EFile false "h4")))])
  true (Some (EDir [("f", EFile false "h4"); ("k", EFile false "h0"); ("t", EDir [("r", EFile true "h2")])]))
  (Some (EDir [("f", EFile false "h4"); ("k", EFile false "h0"); ("t", EDir [("r", EFile true "h2")])]))
  (Some (EDir [("f", EFile true "h2"); ("k", EFile false "h0"); ("t", EDir [("o", EFile false "h1"); ("r", EFile true "h2")])]))
  (Some (EDir [("f", EFile false "h4"); ("k", EFile false "h0"); ("t", EDir [("r", EFile true "h2")])]))
  (Some (EDir [("f", EFile false "h4"); ("k", EFile false "h0"); ("t", EDir [("o", EFile false "h1"); ("r", EFile true "h2")])]));
 xcyc (Some (EDir [("f", EFile false "h4"); ("k", EFile false "h0"); ("t", EDir [("r", EFile true "h2")])]))
  (Some (EDir [("f", EFile false "h4"); ("k", EFile false "h0"); ("t", EPhantom [("r", EFile false "h2")])]))
  (Some (EDir [("f", EFile false "h4"); ("k", EFile false "h0"); ("t", EPhantom [("o", EUntracked); ("r", EFile true "h2")])]))
  false true false
  None
  None
  None
  None
  true (Some (EDir [("f", EFile false "h4"); ("k", EFile false "h0"); ("t", EDir [("r", EFile true "h2")])]))
  (Some (EDir [("f", EFile false "h4"); ("k", EFile false "h0"); ("t", EDir [("r", EFile true "h2")])]))
  (Some (EDir [("f", EFile false "h4"); ("k", EFile false "h0"); ("t", EDir [("o", EFile false "h1"); ("r", EFile true "h2")])]))
  (Some (EDir [("f", EFile false "h4"); ("k", EFile false "h0"); ("t", EDir [("r", EFile true "h2")])]))
  (Some (EDir [("f", EFile false "h4"); ("k", EFile false "h0"); ("t", EDir [("o", EFile false "h1"); ("r", EFile true "h2")])]))].

Lemma ex_hist_passes :
  wf_hist ex_hist = true /\ plain_hist ex_hist = true /\ corr_hist ex_hist = true
  /\ check_hist_c05 ex_hist = true /\ check_hist_c01 ex_hist = true /\ check_hist_c04 ex_hist = true
  /\ List.length (h_cycles ex_hist) = 4 /\ quiet_steps (h_cycles ex_hist) = 1
  /\ wf_hist ex_hist_n = true /\ check_hist_c04 ex_hist_n = true /\ c18_hist_verdict ex_hist_n = 6
  /\ map (c18_cycle_verdict (h_mode ex_hist_n) true) (h_cycles ex_hist_n) = [0; 0; 6; 0].
Proof. vm_compute. repeat split; reflexivity. Qed.
