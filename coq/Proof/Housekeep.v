(* Lemmas about Model/Housekeep.v (C43). *)
From Coq Require Import List String Bool ZArith Lia.
Import ListNotations.
From Mv Require Import Model.Housekeep.
Local Open Scope string_scope.
Local Open Scope list_scope.
Local Open Scope Z_scope.

(* ---- the numerals ---- *)
Lemma thresholds_ns :
  maximum_agent_idle_period = 2592000000000000
  /\ maximum_cache_age = 604800000000000
  /\ maximum_staging_root_age = 604800000000000.
Proof. repeat split; reflexivity. Qed.

Lemma thresholds_days :
  maximum_agent_idle_period = 30 * (24 * 60 * 60 * 1000000000)
  /\ maximum_cache_age = 7 * (24 * 60 * 60 * 1000000000)
  /\ maximum_staging_root_age = 7 * (24 * 60 * 60 * 1000000000).
Proof. repeat split; reflexivity. Qed.

Lemma agent_test_spec : forall a, agent_idle_too_long a = true <-> a > 2592000000000000.
Proof. intros a. unfold agent_idle_too_long. rewrite Z.gtb_lt. change maximum_agent_idle_period with 2592000000000000. lia. Qed.
Lemma cache_test_spec : forall a, cache_too_old a = true <-> a > 604800000000000.
Proof. intros a. unfold cache_too_old. rewrite Z.gtb_lt. change maximum_cache_age with 604800000000000. lia. Qed.
Lemma staging_test_spec : forall a, staging_root_too_old a = true <-> a > 604800000000000.
Proof. intros a. unfold staging_root_too_old. rewrite Z.gtb_lt. change maximum_staging_root_age with 604800000000000. lia. Qed.

(* ---- one directory ---- *)

Lemma removed_names_spec :
  forall test l n,
    In n (removed_names test l) <->
    exists c, In c l /\ name c = n /\ removable c = true /\ exists a, age c = Some a /\ test a = true.
Proof.
  intros test l n. unfold removed_names. rewrite in_map_iff. split.
  - intros (c & Hn & Hf). apply filter_In in Hf. destruct Hf as [Hin Hg].
    unfold goes, stale in Hg. apply andb_true_iff in Hg. destruct Hg as [Hs Hr].
    exists c. repeat split; auto. destruct (age c) as [a|]; [|discriminate]. exists a; auto.
  - intros (c & Hin & Hn & Hr & a & Ha & Ht). exists c. split; [exact Hn|].
    apply filter_In. split; [exact Hin|]. unfold goes, stale. rewrite Ha, Ht, Hr. reflexivity.
Qed.

Lemma survivors_spec :
  forall test l c, In c (survivors test l) <-> In c l /\ goes test c = false.
Proof.
  intros test l c. unfold survivors. rewrite filter_In. rewrite negb_true_iff. tauto.
Qed.

Lemma recent_survives :
  forall test l c, In c l -> (forall a, age c = Some a -> test a = false) -> In c (survivors test l).
Proof.
  intros test l c Hin H. apply survivors_spec. split; [exact Hin|].
  unfold goes, stale. destruct (age c) as [a|]; [rewrite (H a eq_refl)|]; reflexivity.
Qed.

Lemma survivors_incl : forall test l, incl (survivors test l) l.
Proof. intros test l c H. apply survivors_spec in H. tauto. Qed.

(* ---- Housekeep ---- *)

Section Housekeep.
Context {O : Type}.

Definition listed (d : listing) (c : child) : Prop :=
  match d with Some l => In c l | None => False end.

Lemma gone_spec :
  forall test d n,
    In n (gone test d) <->
    exists c, listed d c /\ name c = n /\ removable c = true /\ exists a, age c = Some a /\ test a = true.
Proof.
  intros test d n. destruct d as [l|]; cbn.
  - apply removed_names_spec.
  - split; [tauto|]. intros (c & F & _). exact F.
Qed.

Lemma in_map_pair : forall (d e : string) (n : string) (l : list string), In (d, n) (map (pair e) l) <-> d = e /\ In n l.
Proof.
  intros d e n l. rewrite in_map_iff. split.
  - intros (x & H & Hin). inversion H; subst. auto.
  - intros [-> Hin]. exists n; auto.
Qed.

Lemma removals_spec :
  forall (s : state O) d n,
    In (d, n) (removals s) <->
    (d = "agents" /\ In n (gone (agents_test s) (agents s)))
    \/ (d = "caches" /\ In n (gone cache_too_old (caches s)))
    \/ (d = "staging" /\ In n (gone staging_root_too_old (staging s))).
Proof.
  intros s d n. unfold removals. rewrite !in_app_iff, !in_map_pair. tauto.
Qed.

(* exactness: what is removed is exactly the stale children, with the numerals *)
Lemma housekeep_exact :
  forall (s : state O) n, sidecar s = false ->
    (In ("agents", n) (removals s) <->
       exists c, listed (agents s) c /\ name c = n /\ removable c = true
                 /\ exists a, age c = Some a /\ a > 2592000000000000)
    /\ (In ("caches", n) (removals s) <->
       exists c, listed (caches s) c /\ name c = n /\ removable c = true
                 /\ exists a, age c = Some a /\ a > 604800000000000)
    /\ (In ("staging", n) (removals s) <->
       exists c, listed (staging s) c /\ name c = n /\ removable c = true
                 /\ exists a, age c = Some a /\ a > 604800000000000).
Proof.
  intros s n Hs. unfold agents_test in *. repeat split.
  - intros H. apply removals_spec in H. destruct H as [[_ H]|[[E _]|[E _]]]; try discriminate.
    unfold agents_test in H. rewrite Hs in H.
    apply gone_spec in H. destruct H as (c & Hl & Hn & Hr & a & Ha & Ht).
    exists c. repeat split; auto. exists a. split; auto. apply agent_test_spec; exact Ht.
  - intros (c & Hl & Hn & Hr & a & Ha & Ht). apply removals_spec. left. split; [reflexivity|].
    unfold agents_test. rewrite Hs. apply gone_spec. exists c. repeat split; auto. exists a. split; auto.
    apply agent_test_spec; exact Ht.
  - intros H. apply removals_spec in H. destruct H as [[E _]|[[_ H]|[E _]]]; try discriminate.
    apply gone_spec in H. destruct H as (c & Hl & Hn & Hr & a & Ha & Ht).
    exists c. repeat split; auto. exists a. split; auto. apply cache_test_spec; exact Ht.
  - intros (c & Hl & Hn & Hr & a & Ha & Ht). apply removals_spec. right; left. split; [reflexivity|].
    apply gone_spec. exists c. repeat split; auto. exists a. split; auto. apply cache_test_spec; exact Ht.
  - intros H. apply removals_spec in H. destruct H as [[E _]|[[E _]|[_ H]]]; try discriminate.
    apply gone_spec in H. destruct H as (c & Hl & Hn & Hr & a & Ha & Ht).
    exists c. repeat split; auto. exists a. split; auto. apply staging_test_spec; exact Ht.
  - intros (c & Hl & Hn & Hr & a & Ha & Ht). apply removals_spec. right; right. split; [reflexivity|].
    apply gone_spec. exists c. repeat split; auto. exists a. split; auto. apply staging_test_spec; exact Ht.
Qed.

(* nothing at most as old as the threshold disappears; in a sidecar no agent does *)
Lemma housekeep_keeps_recent :
  forall (s : state O) c,
    (listed (agents s) c -> (forall a, age c = Some a -> a <= 2592000000000000) -> listed (agents (housekeep s)) c)
    /\ (listed (caches s) c -> (forall a, age c = Some a -> a <= 604800000000000) -> listed (caches (housekeep s)) c)
    /\ (listed (staging s) c -> (forall a, age c = Some a -> a <= 604800000000000) -> listed (staging (housekeep s)) c)
    /\ (sidecar s = true -> listed (agents s) c -> listed (agents (housekeep s)) c).
Proof.
  intros s c. cbn [housekeep agents caches staging]. repeat split.
  - destruct (agents s) as [l|]; cbn; [|tauto]. intros Hin H. apply recent_survives; auto.
    intros a Ha. unfold agents_test. destruct (sidecar s); [reflexivity|].
    destruct (agent_idle_too_long a) eqn:T; [|reflexivity]. apply agent_test_spec in T. specialize (H a Ha). lia.
  - destruct (caches s) as [l|]; cbn; [|tauto]. intros Hin H. apply recent_survives; auto.
    intros a Ha. destruct (cache_too_old a) eqn:T; [|reflexivity]. apply cache_test_spec in T. specialize (H a Ha). lia.
  - destruct (staging s) as [l|]; cbn; [|tauto]. intros Hin H. apply recent_survives; auto.
    intros a Ha. destruct (staging_root_too_old a) eqn:T; [|reflexivity]. apply staging_test_spec in T. specialize (H a Ha). lia.
  - intros Hs. destruct (agents s) as [l|]; cbn; [|tauto]. intros Hin. apply recent_survives; auto.
    intros a _. unfold agents_test. rewrite Hs. reflexivity.
Qed.

(* the state afterwards holds exactly the children that were not removed *)
Lemma housekeep_after :
  forall (s : state O) c,
    (listed (agents (housekeep s)) c <-> listed (agents s) c /\ goes (agents_test s) c = false)
    /\ (listed (caches (housekeep s)) c <-> listed (caches s) c /\ goes cache_too_old c = false)
    /\ (listed (staging (housekeep s)) c <-> listed (staging s) c /\ goes staging_root_too_old c = false).
Proof.
  intros s c. cbn [housekeep agents caches staging].
  assert (K : forall test d, listed (keep test d) c <-> listed d c /\ goes test c = false).
  { intros test d. destruct d as [l|]; cbn; [apply survivors_spec|tauto]. }
  split; [apply K|]. split; apply K.
Qed.

(* confinement *)
Lemma housekeep_confined :
  forall (s : state O),
    outside (housekeep s) = outside s
    /\ (forall d n, In (d, n) (removals s) ->
          (d = "agents" /\ exists c, listed (agents s) c /\ name c = n)
          \/ (d = "caches" /\ exists c, listed (caches s) c /\ name c = n)
          \/ (d = "staging" /\ exists c, listed (staging s) c /\ name c = n))
    /\ (forall c, listed (agents (housekeep s)) c -> listed (agents s) c)
    /\ (forall c, listed (caches (housekeep s)) c -> listed (caches s) c)
    /\ (forall c, listed (staging (housekeep s)) c -> listed (staging s) c).
Proof.
  intros s. split; [reflexivity|]. split.
  - intros d n H. apply removals_spec in H.
    destruct H as [[-> H]|[[-> H]|[-> H]]]; apply gone_spec in H; destruct H as (c & Hl & Hn & _); eauto 8.
  - repeat split; intros c H; apply housekeep_after in H; tauto.
Qed.

End Housekeep.

(* ---- the checker ---- *)

Lemma mem_In : forall n l, mem n l = true <-> In n l.
Proof.
  intros n l; induction l as [|m t IH]; cbn.
  - split; [discriminate|tauto].
  - rewrite orb_true_iff, IH, String.eqb_eq. tauto.
Qed.

Definition prop_dir (test : Z -> bool) (before : list ochild) (after : list string) : Prop :=
  (forall c, In c before -> stale test (with_hi c) = false -> In (oname c) after)
  /\ (forall c, In c before -> stale test (with_lo c) = true -> proper c = true -> oremovable c = true ->
        ~ In (oname c) after)
  /\ incl after (map oname before).

Definition prop_C43 (o : observation) : Prop :=
  prop_dir agent_idle_too_long (b_agents o) (a_agents o)
  /\ prop_dir cache_too_old (b_caches o) (a_caches o)
  /\ prop_dir staging_root_too_old (b_staging o) (a_staging o)
  /\ outside_intact o = true.

Lemma check_dir_sound :
  forall test before after, check_dir test before after = true -> prop_dir test before after.
Proof.
  intros test before after H. unfold check_dir in H.
  apply andb_true_iff in H. destruct H as [H H3]. apply andb_true_iff in H. destruct H as [H1 H2].
  rewrite forallb_forall in H1, H2, H3. repeat split.
  - intros c Hin Hs. specialize (H1 c Hin). rewrite Hs in H1. apply mem_In; exact H1.
  - intros c Hin Hs Hp Hr Hm. specialize (H2 c Hin). rewrite Hs, Hp, Hr in H2. cbn in H2.
    apply mem_In in Hm. rewrite Hm in H2. discriminate.
  - intros n Hn. apply mem_In. apply H3; exact Hn.
Qed.

Lemma check_sound : forall o, check_C43 o = true -> prop_C43 o.
Proof.
  intros o H. unfold check_C43 in H.
  apply andb_true_iff in H. destruct H as [H H4]. apply andb_true_iff in H. destruct H as [H H3].
  apply andb_true_iff in H. destruct H as [H1 H2].
  unfold prop_C43. split; [apply check_dir_sound; assumption|].
  split; [apply check_dir_sound; assumption|]. split; [apply check_dir_sound; assumption|assumption].
Qed.

(* the tests are monotone in the age, so the bracket decides: whatever instant
   between the two clock readings the code really sampled *)
Lemma tests_monotone :
  forall a b, a <= b ->
    (agent_idle_too_long a = true -> agent_idle_too_long b = true)
    /\ (cache_too_old a = true -> cache_too_old b = true)
    /\ (staging_root_too_old a = true -> staging_root_too_old b = true).
Proof.
  intros a b Hab. repeat split; intros H.
  - apply agent_test_spec in H. apply agent_test_spec. lia.
  - apply cache_test_spec in H. apply cache_test_spec. lia.
  - apply staging_test_spec in H. apply staging_test_spec. lia.
Qed.

(* the model's own behaviour passes the checker and the correspondence test:
   observation built from a model state, clock readings coinciding *)
Definition obs_child (p : bool) (c : child) : ochild :=
  {| oname := name c; lo := age c; hi := age c; oremovable := removable c; proper := p |}.

Lemma with_lo_obs : forall p c, with_lo (obs_child p c) = c.
Proof. intros p [n a r]; reflexivity. Qed.
Lemma with_hi_obs : forall p c, with_hi (obs_child p c) = c.
Proof. intros p [n a r]; reflexivity. Qed.

Lemma nodup_names_NoDup : forall l, nodup_names l = true -> NoDup l.
Proof.
  induction l as [|n t IH]; cbn; intros H; [constructor|].
  apply andb_true_iff in H. destruct H as [H1 H2]. constructor; [|auto].
  intros Hin. apply mem_In in Hin. rewrite Hin in H1. discriminate.
Qed.

Lemma model_dir_passes :
  forall test p l, NoDup (map name l) ->
    let before := map (obs_child p) l in
    let after := map name (survivors test l) in
    check_dir test before after = true /\ corr_dir test before after = true.
Proof.
  intros test p l Hnd before after.
  assert (Hkeep : forall c, In c l -> goes test c = false -> mem (name c) after = true).
  { intros c Hin Hg. apply mem_In. unfold after. apply in_map. apply survivors_spec. auto. }
  assert (Hgone : forall c, In c l -> goes test c = true -> mem (name c) after = false).
  { intros c Hin Hg. destruct (mem (name c) after) eqn:M; [|reflexivity]. exfalso.
    apply mem_In in M. unfold after in M. apply in_map_iff in M. destruct M as (c' & Hn & Hs).
    apply survivors_spec in Hs. destruct Hs as [Hin' Hg'].
    assert (c' = c).
    { clear - Hnd Hin Hin' Hn. induction l as [|x t IH]; [contradiction|].
      cbn in Hnd. inversion Hnd as [|? ? Hx Ht]; subst.
      destruct Hin as [->|Hin], Hin' as [->|Hin']; auto.
      - exfalso. apply Hx. rewrite <- Hn. apply in_map; exact Hin'.
      - exfalso. apply Hx. rewrite Hn. apply in_map; exact Hin. }
    subst. congruence. }
  assert (Hincl : forallb (fun n => mem n (map oname before)) after = true).
  { apply forallb_forall. intros n Hn. apply mem_In. unfold after in Hn. apply in_map_iff in Hn.
    destruct Hn as (c & <- & Hs). apply survivors_incl in Hs. unfold before. rewrite map_map.
    change (fun x => oname (obs_child p x)) with name. apply in_map; exact Hs. }
  unfold check_dir, corr_dir. rewrite Hincl, !andb_true_r. split.
  - apply andb_true_iff. split; apply forallb_forall; intros oc Hoc; unfold before in Hoc;
      apply in_map_iff in Hoc; destruct Hoc as (c & <- & Hin).
    + rewrite with_hi_obs. cbn [oname obs_child]. destruct (stale test c) eqn:S; [reflexivity|].
      apply Hkeep; auto. unfold goes. rewrite S. reflexivity.
    + rewrite with_lo_obs. cbn [oname obs_child proper oremovable].
      destruct (stale test c && p && removable c) eqn:S; [|reflexivity].
      apply andb_true_iff in S. destruct S as [S Hr]. apply andb_true_iff in S. destruct S as [S _].
      rewrite Hgone; auto. unfold goes. rewrite S, Hr. reflexivity.
  - apply andb_true_iff. split; apply forallb_forall; intros oc Hoc; unfold before in Hoc;
      apply in_map_iff in Hoc; destruct Hoc as (c & <- & Hin).
    + rewrite with_lo_obs. cbn [oname obs_child]. destruct (goes test c) eqn:G; [|reflexivity].
      rewrite Hgone; auto.
    + rewrite with_hi_obs. cbn [oname obs_child]. destruct (goes test c) eqn:G; [reflexivity|].
      apply Hkeep; auto.
Qed.

Definition names_of (d : listing) : list string :=
  match d with Some l => map name l | None => [] end.
Definition obs_of (p : bool) (d : listing) : list ochild :=
  match d with Some l => map (obs_child p) l | None => [] end.

Definition model_observation {O} (p : bool) (s : state O) : observation :=
  {| b_agents := obs_of p (agents s); a_agents := names_of (agents (housekeep s));
     b_caches := obs_of p (caches s); a_caches := names_of (caches (housekeep s));
     b_staging := obs_of p (staging s); a_staging := names_of (staging (housekeep s));
     outside_intact := true |}.

Lemma model_passes :
  forall O (s : state O) p, sidecar s = false ->
    NoDup (names_of (agents s)) -> NoDup (names_of (caches s)) -> NoDup (names_of (staging s)) ->
    check_C43 (model_observation p s) = true /\ corr_C43 (model_observation p s) = true.
Proof.
  intros O s p Hs Na Nc Nst. unfold check_C43, corr_C43, model_observation.
  cbn [b_agents a_agents b_caches a_caches b_staging a_staging outside_intact housekeep agents caches staging].
  unfold agents_test. rewrite Hs.
  assert (D : forall test d, NoDup (names_of d) ->
            check_dir test (obs_of p d) (names_of (keep test d)) = true
            /\ corr_dir test (obs_of p d) (names_of (keep test d)) = true).
  { intros test d Hd. destruct d as [l|]; cbn.
    - apply model_dir_passes; exact Hd.
    - split; reflexivity. }
  destruct (D agent_idle_too_long _ Na) as [A1 A2].
  destruct (D cache_too_old _ Nc) as [C1 C2].
  destruct (D staging_root_too_old _ Nst) as [S1 S2].
  rewrite A1, A2, C1, C2, S1, S2. split; reflexivity.
Qed.

(* a non-trivial state: one second either side of each threshold, a dangling
   entry, a non-empty directory among the caches *)
Definition example_state : state unit :=
  {| sidecar := false;
     agents := Some [ {| name := "v0.18.0"; age := Some 2592001000000000; removable := true |};
                      {| name := "v0.18.1"; age := Some 2592000000000000; removable := true |};
                      {| name := "v0.17.0"; age := Some 2591999000000000; removable := true |};
                      {| name := "empty"; age := None; removable := true |} ];
     caches := Some [ {| name := "sync_a"; age := Some 604801000000000; removable := true |};
                      {| name := "sync_b"; age := Some 604799000000000; removable := true |};
                      {| name := "dir"; age := Some 900000000000000; removable := false |} ];
     staging := Some [ {| name := "sync_a_alpha"; age := Some 604800000000001; removable := true |};
                       {| name := "sync_b_beta"; age := Some (-5); removable := true |} ];
     outside := tt |}.

Lemma example_run :
  removals example_state = [("agents", "v0.18.0"); ("caches", "sync_a"); ("staging", "sync_a_alpha")]
  /\ names_of (agents (housekeep example_state)) = ["v0.18.1"; "v0.17.0"; "empty"]
  /\ names_of (caches (housekeep example_state)) = ["sync_b"; "dir"]
  /\ names_of (staging (housekeep example_state)) = ["sync_b_beta"].
Proof. vm_compute. auto. Qed.
