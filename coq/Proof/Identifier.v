(* Proofs about Model/Identifier.v (C39). *)
From Coq Require Import List Arith Bool NArith Lia ZifyBool ZifyNat ZifyN.
Import ListNotations.
From Mv Require Import Model.Identifier.

Local Open Scope N_scope.

(* ---------- character classes ---------- *)
Ltac ranges :=
  unfold is_alnum, is_hex, is_lhex, is_letter, is_digit, is_lower, is_upper, in_range in *;
  repeat match goal with
         | H : _ && _ = true |- _ => apply andb_true_iff in H; destruct H
         | H : _ || _ = true |- _ => apply orb_true_iff in H; destruct H
         | H : Nat.leb _ _ = true |- _ => apply Nat.leb_le in H
         | H : Nat.eqb _ _ = true |- _ => apply Nat.eqb_eq in H
         | H : Nat.leb _ _ = false |- _ => apply Nat.leb_gt in H
         | H : Nat.eqb _ _ = false |- _ => apply Nat.eqb_neq in H
         end.

Lemma list_eqb_eq : forall x y, list_eqb x y = true <-> x = y.
Proof.
  induction x as [|a x IH]; destruct y as [|b y]; cbn; split; intro H; try congruence; try discriminate.
  - apply andb_true_iff in H as [H1 H2]. apply Nat.eqb_eq in H1. apply IH in H2. congruence.
  - inversion H; subst. rewrite Nat.eqb_refl. cbn. now apply IH.
Qed.

(* ---------- shapes ---------- *)
Lemma match_shape_app : forall sh1 sh2 a b, length a = length sh1 ->
  match_shape (sh1 ++ sh2) (a ++ b) = match_shape sh1 a && match_shape sh2 b.
Proof.
  induction sh1 as [|p sh1 IH]; intros sh2 a b Hl.
  - destruct a; [|discriminate]. cbn. destruct sh2; reflexivity.
  - destruct a as [|x a]; [discriminate|]. cbn [app match_shape]. rewrite IH by (cbn in Hl; lia).
    now rewrite andb_assoc.
Qed.

Lemma match_shape_split : forall sh1 sh2 s, match_shape (sh1 ++ sh2) s = true ->
  exists a b, s = a ++ b /\ length a = length sh1 /\ match_shape sh1 a = true /\ match_shape sh2 b = true.
Proof.
  induction sh1 as [|p sh1 IH]; intros sh2 s H.
  - exists [], s. repeat split; assumption.
  - destruct s as [|x s]; [discriminate|]. cbn [app match_shape] in H.
    apply andb_true_iff in H as [H1 H2]. destruct (IH _ _ H2) as (a & b & -> & Hl & Ha & Hb).
    exists (x :: a), b. repeat split; [cbn; lia| cbn; now rewrite H1, Ha | exact Hb].
Qed.

Lemma match_shape_repeat : forall p a, forallb (pat_ok p) a = true ->
  match_shape (repeat p (length a)) a = true.
Proof.
  induction a as [|x a IH]; intro H; [reflexivity|]. cbn in *.
  apply andb_true_iff in H as [H1 H2]. now rewrite H1, IH.
Qed.

Lemma match_shape_repeat_inv : forall p n a, match_shape (repeat p n) a = true -> length a = n ->
  forallb (pat_ok p) a = true.
Proof.
  induction n as [|n IH]; intros a H Hl.
  - destruct a; [reflexivity|discriminate].
  - destruct a as [|x a]; [discriminate|]. cbn in *. apply andb_true_iff in H as [H1 H2].
    rewrite H1. apply IH; [assumption|lia].
Qed.

Lemma match_shape_mono : forall sh1 sh2 s,
  Forall2 (fun p q => forall c, pat_ok p c = true -> pat_ok q c = true) sh1 sh2 ->
  match_shape sh1 s = true -> match_shape sh2 s = true.
Proof.
  intros sh1 sh2 s Hf. revert s. induction Hf as [|p q sh1 sh2 Hpq Hf IH]; intros s H; [reflexivity|].
  destruct s as [|x s]; [discriminate|]. cbn in *. apply andb_true_iff in H as [H1 H2].
  now rewrite (Hpq _ H1), (IH _ H2).
Qed.

Lemma starts_with_firstn : forall n s, starts_with (firstn n s) s = true.
Proof.
  induction n as [|n IH]; intros s; [reflexivity|]. destruct s as [|x s]; [reflexivity|].
  cbn. now rewrite Nat.eqb_refl, IH.
Qed.

Lemma starts_with_app : forall a b, starts_with a (a ++ b) = true.
Proof. induction a as [|x a IH]; intro b; [reflexivity|]. cbn. now rewrite Nat.eqb_refl, IH. Qed.

(* ---------- base 62 digits ---------- *)
Lemma from_digits_snoc : forall ds m, from_digits (ds ++ [m]) = from_digits ds * 62 + m.
Proof. intros. unfold from_digits. now rewrite fold_left_app. Qed.

Lemma from_digits_zeros_gen : forall ds k acc,
  fold_left (fun a d => a * 62 + d) (repeat 0 k ++ ds) acc
  = fold_left (fun a d => a * 62 + d) ds (acc * 62 ^ N.of_nat k).
Proof.
  intros ds k. induction k as [|k IH]; intro acc.
  - cbn [repeat app]. f_equal. change (N.of_nat 0) with 0. rewrite N.pow_0_r. lia.
  - cbn [repeat app fold_left]. rewrite IH. f_equal.
    rewrite Nat2N.inj_succ, N.pow_succ_r'. lia.
Qed.

Lemma from_digits_zeros : forall ds k, from_digits (repeat 0 k ++ ds) = from_digits ds.
Proof. intros. unfold from_digits. rewrite from_digits_zeros_gen. f_equal. Qed.

Lemma digits62_aux_spec : forall fuel n acc, n < 2 ^ N.of_nat fuel ->
  exists ds, digits62_aux fuel n acc = Some (ds ++ acc)
    /\ from_digits ds = n /\ Forall (fun d => d < 62) ds /\ ds <> []
    /\ (forall d, n < 62 ^ N.of_nat (S d) -> (length ds <= S d)%nat).
Proof.
  induction fuel as [|f IH]; intros n acc Hn.
  - change (N.of_nat 0) with 0 in Hn. rewrite N.pow_0_r in Hn.
    assert (n = 0) by lia. subst. exists [0]. cbn [digits62_aux N.ltb N.compare app].
    split; [reflexivity|]. split; [reflexivity|]. split; [constructor; [lia|constructor]|].
    split; [discriminate|]. intros; cbn; lia.
  - cbn [digits62_aux]. destruct (N.ltb n 62) eqn:E.
    + apply N.ltb_lt in E. exists [n].
      split; [reflexivity|]. split; [unfold from_digits; cbn; lia|].
      split; [constructor; [lia|constructor]|]. split; [discriminate|]. intros; cbn; lia.
    + apply N.ltb_ge in E.
      assert (Hdiv : n / 62 < 2 ^ N.of_nat f).
      { apply N.div_lt_upper_bound; [lia|]. rewrite Nat2N.inj_succ, N.pow_succ_r' in Hn. lia. }
      destruct (IH (n / 62) (n mod 62 :: acc) Hdiv) as (ds & Hd & Hv & Hall & Hne & Hlen).
      exists (ds ++ [n mod 62]). rewrite Hd. repeat split.
      * now rewrite <- app_assoc.
      * rewrite from_digits_snoc, Hv. pose proof (N.div_mod n 62). lia.
      * apply Forall_app. split; [exact Hall|]. constructor; [|constructor].
        apply N.mod_lt. lia.
      * destruct ds; discriminate.
      * intros d Hd62. rewrite app_length. cbn [length].
        destruct d as [|d].
        { change (N.of_nat 1) with 1 in Hd62. rewrite N.pow_1_r in Hd62. lia. }
        assert (Hq : n / 62 < 62 ^ N.of_nat (S d)).
        { apply N.div_lt_upper_bound; [lia|].
          rewrite (Nat2N.inj_succ (S d)), N.pow_succ_r' in Hd62. lia. }
        specialize (Hlen d Hq). lia.
Qed.

Lemma digits62_spec : forall n,
  exists ds, digits62 n = Some ds
    /\ from_digits ds = n /\ Forall (fun d => d < 62) ds /\ ds <> []
    /\ (forall d, n < 62 ^ N.of_nat (S d) -> (length ds <= S d)%nat).
Proof.
  intro n. unfold digits62.
  destruct (digits62_aux_spec (N.to_nat (N.size n)) n []) as (ds & Hd & H).
  - rewrite N2Nat.id. apply N.size_gt.
  - exists ds. rewrite app_nil_r in Hd. split; assumption.
Qed.

(* ---------- alphabet ---------- *)
Lemma alpha_alnum : forall d, d < 62 -> is_alnum (alpha d) = true.
Proof.
  intros d H. unfold alpha. destruct (N.ltb d 10) eqn:E1; [|destruct (N.ltb d 36) eqn:E2];
    unfold is_alnum, is_digit, is_lower, is_upper, in_range; lia.
Qed.

Lemma digit_of_alpha : forall d, d < 62 -> digit_of_char (alpha d) = d.
Proof.
  intros d H. unfold alpha, digit_of_char.
  destruct (N.ltb d 10) eqn:E1; [|destruct (N.ltb d 36) eqn:E2].
  - replace (is_digit (48 + N.to_nat d)) with true by (unfold is_digit, in_range; lia). lia.
  - replace (is_digit (97 + N.to_nat (d - 10))) with false by (unfold is_digit, in_range; lia).
    replace (is_lower (97 + N.to_nat (d - 10))) with true by (unfold is_lower, in_range; lia). lia.
  - replace (is_digit (65 + N.to_nat (d - 36))) with false by (unfold is_digit, in_range; lia).
    replace (is_lower (65 + N.to_nat (d - 36))) with false by (unfold is_lower, in_range; lia). lia.
Qed.

Lemma map_digit_alpha : forall ds, Forall (fun d => d < 62) ds -> map digit_of_char (map alpha ds) = ds.
Proof.
  induction 1 as [|d ds Hd _ IH]; [reflexivity|]. cbn. now rewrite digit_of_alpha, IH.
Qed.

Lemma forallb_alpha : forall ds, Forall (fun d => d < 62) ds -> forallb is_alnum (map alpha ds) = true.
Proof.
  induction 1 as [|d ds Hd _ IH]; [reflexivity|]. cbn. now rewrite alpha_alnum, IH.
Qed.

(* ---------- big-endian bytes ---------- *)
Definition bstep (acc : N) (b : nat) : N := acc * 256 + N.of_nat b.

Lemma bytes_fold : forall bs acc,
  fold_left bstep bs acc = acc * 256 ^ N.of_nat (length bs) + bytes_to_N bs.
Proof.
  unfold bytes_to_N. fold bstep.
  induction bs as [|b bs IH]; intro acc.
  - cbn [fold_left length]. change (N.of_nat 0) with 0. rewrite N.pow_0_r. lia.
  - cbn [fold_left length]. rewrite IH, (IH (bstep 0 b)). unfold bstep.
    rewrite Nat2N.inj_succ, N.pow_succ_r'. lia.
Qed.

Lemma bytes_cons : forall b bs,
  bytes_to_N (b :: bs) = N.of_nat b * 256 ^ N.of_nat (length bs) + bytes_to_N bs.
Proof.
  intros. unfold bytes_to_N at 1. fold bstep. cbn [fold_left]. rewrite bytes_fold. unfold bstep. lia.
Qed.

Lemma bytes_bound : forall bs, bytes_ok bs = true -> bytes_to_N bs < 256 ^ N.of_nat (length bs).
Proof.
  induction bs as [|b bs IH]; intro H.
  - cbn. lia.
  - cbn [bytes_ok forallb] in H. apply andb_true_iff in H as [H1 H2]. specialize (IH H2).
    rewrite bytes_cons. cbn [length]. rewrite Nat2N.inj_succ, N.pow_succ_r'.
    apply Nat.ltb_lt in H1. nia.
Qed.

Lemma bytes_inj : forall a b, length a = length b -> bytes_ok a = true -> bytes_ok b = true ->
  bytes_to_N a = bytes_to_N b -> a = b.
Proof.
  induction a as [|x a IH]; intros [|y b] Hl Ha Hb He; try discriminate; [reflexivity|].
  cbn [bytes_ok forallb] in Ha, Hb.
  apply andb_true_iff in Ha as [Ha1 Ha2]. apply andb_true_iff in Hb as [Hb1 Hb2].
  injection Hl as Hl. rewrite !bytes_cons in He. rewrite <- Hl in He.
  pose proof (bytes_bound a Ha2) as B1. pose proof (bytes_bound b Hb2) as B2. rewrite <- Hl in B2.
  set (P := 256 ^ N.of_nat (length a)) in *.
  assert (Hxy : N.of_nat x = N.of_nat y) by nia.
  assert (Hab : bytes_to_N a = bytes_to_N b) by nia.
  f_equal; [lia|]. apply IH; assumption.
Qed.

Lemma leading_zeros_le : forall bs, (leading_zeros bs <= length bs)%nat.
Proof.
  induction bs as [|b bs IH]; [cbn; lia|]. destruct b; cbn [leading_zeros length]; lia.
Qed.

Lemma bytes_leading : forall bs, bytes_ok bs = true ->
  bytes_to_N bs < 256 ^ N.of_nat (length bs - leading_zeros bs).
Proof.
  induction bs as [|b bs IH]; intro H.
  - cbn. lia.
  - destruct b as [|b].
    + cbn [leading_zeros length]. rewrite bytes_cons.
      cbn [bytes_ok forallb] in H. apply andb_true_iff in H as [_ H2].
      replace (S (length bs) - S (leading_zeros bs))%nat with (length bs - leading_zeros bs)%nat by lia.
      specialize (IH H2). lia.
    + cbn [leading_zeros]. rewrite Nat.sub_0_r. now apply bytes_bound.
Qed.

(* 256^(32-k) <= 62^(43-k) for every k <= 31; in particular 2^256 < 62^43 *)
Lemma pow_table : forallb (fun k => N.leb (256 ^ N.of_nat (32 - k)) (62 ^ N.of_nat (43 - k))) (seq 0 32) = true.
Proof. vm_compute. reflexivity. Qed.

Lemma pow_bound : forall k, (k <= 31)%nat -> 256 ^ N.of_nat (32 - k) <= 62 ^ N.of_nat (43 - k).
Proof.
  intros k Hk. pose proof pow_table as H. rewrite forallb_forall in H.
  apply N.leb_le. apply H. apply in_seq. lia.
Qed.

(* ---------- the encoder's specification ---------- *)
Lemma basex_spec_shape : forall bs, bs <> [] ->
  exists ds, basex_spec bs
             = Some (repeat ZERO_CHAR (Nat.min (leading_zeros bs) (length bs - 1)) ++ map alpha ds)
    /\ from_digits ds = bytes_to_N bs /\ Forall (fun d => d < 62) ds /\ ds <> []
    /\ (forall d, bytes_to_N bs < 62 ^ N.of_nat (S d) -> (length ds <= S d)%nat).
Proof.
  intros bs Hne. destruct (digits62_spec (bytes_to_N bs)) as (ds & Hd & H).
  exists ds. split; [|exact H]. unfold basex_spec. destruct bs; [congruence|]. now rewrite Hd.
Qed.

Lemma basex_len_32 : forall r s, length r = 32%nat -> bytes_ok r = true ->
  basex_spec r = Some s -> (length s <= 43)%nat.
Proof.
  intros r s Hl Hok Hs.
  assert (Hne : r <> []) by (intro; subst; discriminate).
  destruct (basex_spec_shape r Hne) as (ds & Hd & _ & _ & _ & Hlen).
  rewrite Hd in Hs. inversion Hs; subst s. clear Hs Hd.
  rewrite app_length, repeat_length, map_length, Hl.
  pose proof (leading_zeros_le r) as Hk. rewrite Hl in Hk.
  pose proof (bytes_leading r Hok) as Hb. rewrite Hl in Hb.
  destruct (Nat.eq_dec (leading_zeros r) 32) as [E|E].
  - rewrite E in *. change (N.of_nat (32 - 32)) with 0 in Hb. rewrite N.pow_0_r in Hb.
    assert (H1 : (length ds <= 1)%nat).
    { apply (Hlen 0%nat). change (N.of_nat 1) with 1. rewrite N.pow_1_r. lia. }
    lia.
  - assert (Hk31 : (leading_zeros r <= 31)%nat) by lia.
    pose proof (pow_bound _ Hk31) as Hp.
    assert (H1 : (length ds <= S (42 - leading_zeros r))%nat).
    { apply Hlen. replace (S (42 - leading_zeros r)) with (43 - leading_zeros r)%nat by lia. lia. }
    lia.
Qed.

(* ---------- identifier.New ---------- *)
Section NewFacts.
Variable enc : list nat -> list nat.
Hypothesis enc_spec : forall bs, basex_spec bs = Some (enc bs).

Lemma new_id_ok : forall p r, prefix_ok p = true -> length r = 32%nat -> bytes_ok r = true ->
  exists z ds,
    new_id enc p r = IdOk (p ++ [USCORE] ++ repeat ZERO_CHAR z ++ map alpha ds)
    /\ (z + length ds = 43)%nat /\ Forall (fun d => d < 62) ds
    /\ from_digits ds = bytes_to_N r.
Proof.
  intros p r Hp Hl Hok. unfold prefix_ok in Hp. apply andb_true_iff in Hp as [Hp1 Hp2].
  unfold new_id. rewrite Hp1, Hp2. cbn [negb].
  pose proof (basex_len_32 r (enc r) Hl Hok (enc_spec r)) as Hlen.
  replace (Nat.ltb TARGET (length (enc r))) with false by (unfold TARGET; lia).
  assert (Hne : r <> []) by (intro; subst; discriminate).
  destruct (basex_spec_shape r Hne) as (ds & Hd & Hv & Hall & _ & _).
  rewrite enc_spec in Hd. inversion Hd as [He]. rewrite He in *.
  set (k := Nat.min (leading_zeros r) (length r - 1)) in *.
  exists (TARGET - length (repeat ZERO_CHAR k ++ map alpha ds) + k)%nat, ds.
  repeat split; try assumption.
  - f_equal. f_equal. f_equal. rewrite repeat_app, <- app_assoc. reflexivity.
  - rewrite app_length, repeat_length, map_length in *. unfold TARGET. lia.
Qed.

Lemma new_id_shape : forall p r, prefix_ok p = true -> length r = 32%nat -> bytes_ok r = true ->
  exists id, new_id enc p r = IdOk id
    /\ length id = 48%nat /\ firstn 4 id = p /\ nth 4 id 0%nat = USCORE
    /\ forallb is_alnum (skipn 5 id) = true
    /\ matcher id = true
    /\ value62 (skipn 5 id) = bytes_to_N r.
Proof.
  intros p r Hp Hl Hok. destruct (new_id_ok p r Hp Hl Hok) as (z & ds & Hid & Hz & Hall & Hv).
  eexists. split; [exact Hid|].
  unfold prefix_ok in Hp. apply andb_true_iff in Hp as [Hp1 Hp2]. apply Nat.eqb_eq in Hp1.
  assert (Htail : forallb is_alnum (repeat ZERO_CHAR z ++ map alpha ds) = true).
  { rewrite forallb_app, forallb_alpha by assumption. rewrite andb_true_r.
    clear. induction z; [reflexivity|]. cbn. exact IHz. }
  assert (Hlt : length (repeat ZERO_CHAR z ++ map alpha ds) = 43%nat)
    by (rewrite app_length, repeat_length, map_length; lia).
  assert (Hskip : skipn 5 (p ++ [USCORE] ++ repeat ZERO_CHAR z ++ map alpha ds)
                  = repeat ZERO_CHAR z ++ map alpha ds).
  { rewrite app_assoc. rewrite skipn_app. rewrite skipn_all2 by (rewrite app_length; cbn; lia).
    rewrite app_length. cbn [length]. replace (5 - (length p + 1))%nat with 0%nat by lia. reflexivity. }
  repeat split.
  - rewrite !app_length. cbn [length]. rewrite app_length in Hlt. lia.
  - rewrite firstn_app, Hp1, Nat.sub_diag, firstn_O, app_nil_r. apply firstn_all2. lia.
  - rewrite app_nth2 by lia. rewrite Hp1. reflexivity.
  - now rewrite Hskip.
  - unfold matcher, match_exact, id_shape. apply andb_true_iff. split.
    + rewrite match_shape_app by (rewrite repeat_length; exact Hp1).
      rewrite <- Hp1 at 1. rewrite (match_shape_repeat PLow p Hp2). cbn [andb].
      rewrite (match_shape_app [PCh USCORE] (repeat PAlnum 43) [USCORE]) by reflexivity.
      cbn [match_shape pat_ok]. rewrite Nat.eqb_refl. cbn [andb].
      rewrite <- Hlt. now apply match_shape_repeat.
    + rewrite !app_length, !repeat_length. cbn [length]. rewrite app_length, repeat_length in Hlt.
      apply Nat.eqb_eq. lia.
  - rewrite Hskip. unfold value62. rewrite map_app, map_digit_alpha by assumption.
    replace (map digit_of_char (repeat ZERO_CHAR z)) with (repeat 0 z)
      by (clear; induction z; [reflexivity|]; cbn; now rewrite <- IHz).
    now rewrite from_digits_zeros.
Qed.

Lemma new_id_injective : forall p1 p2 r1 r2 id,
  prefix_ok p1 = true -> prefix_ok p2 = true ->
  length r1 = 32%nat -> length r2 = 32%nat -> bytes_ok r1 = true -> bytes_ok r2 = true ->
  new_id enc p1 r1 = IdOk id -> new_id enc p2 r2 = IdOk id -> r1 = r2.
Proof.
  intros p1 p2 r1 r2 id Hp1 Hp2 Hl1 Hl2 Ho1 Ho2 H1 H2.
  destruct (new_id_shape p1 r1 Hp1 Hl1 Ho1) as (i1 & E1 & _ & _ & _ & _ & _ & V1).
  destruct (new_id_shape p2 r2 Hp2 Hl2 Ho2) as (i2 & E2 & _ & _ & _ & _ & _ & V2).
  rewrite H1 in E1. rewrite H2 in E2. inversion E1; inversion E2; subst.
  apply bytes_inj; try assumption; congruence.
Qed.

Lemma new_id_bad_prefix : forall p r, prefix_ok p = false -> new_id enc p r = IdErr.
Proof.
  intros p r H. unfold prefix_ok in H. unfold new_id.
  destruct (Nat.eqb (length p) 4); [|reflexivity]. cbn in *. now rewrite H.
Qed.

Lemma new_id_truncated : forall p r, prefix_ok p = true -> length r = 32%nat -> bytes_ok r = true ->
  exists id, new_id enc p r = IdOk id /\ is_valid id = true
    /\ truncated id = firstn 13 id /\ length (truncated id) = 13%nat.
Proof.
  intros p r Hp Hl Hok. destruct (new_id_shape p r Hp Hl Hok) as (id & E & Hlen & _ & _ & _ & Hm & _).
  exists id. unfold is_valid, truncated. rewrite Hm. repeat split; try assumption.
  cbn [Nat.add]. rewrite firstn_length. lia.
Qed.
End NewFacts.

Lemma truncated_prefix : forall s, starts_with (truncated s) s = true.
Proof.
  intro s. unfold truncated. destruct (matcher s); [apply starts_with_firstn|].
  destruct (legacy_matcher s); [apply starts_with_firstn|reflexivity].
Qed.

Lemma truncated_valid : forall s, is_valid s = true -> truncated s <> [].
Proof.
  intros s H. unfold is_valid in H. unfold truncated.
  destruct (matcher s) eqn:Em.
  - unfold matcher, match_exact in Em. apply andb_true_iff in Em as [_ Hl]. apply Nat.eqb_eq in Hl.
    destruct s; [discriminate|]. discriminate.
  - cbn in H. rewrite H. unfold legacy_matcher, match_exact in H. apply andb_true_iff in H as [_ Hl].
    apply Nat.eqb_eq in Hl. destruct s; [discriminate|]. discriminate.
Qed.

(* ---------- names ---------- *)
Lemma lower_letter : forall c, is_lower c = true -> is_letter c = true /\ Nat.leb 128 c = false.
Proof. intros c H. split; ranges; unfold is_letter, is_lower, is_upper, in_range; lia. Qed.

Lemma matcher_rejected : forall n, matcher n = true -> ensure_name_valid n = NErrChar 4.
Proof.
  intros n H. unfold matcher, match_exact in H. apply andb_true_iff in H as [H _].
  unfold id_shape in H. cbn [repeat app] in H.
  destruct n as [|c0 n]; [discriminate|]. destruct n as [|c1 n]; [cbn in H; lia|].
  destruct n as [|c2 n]; [cbn in H; lia|]. destruct n as [|c3 n]; [cbn in H; lia|].
  destruct n as [|c4 n]; [cbn in H; lia|].
  cbn [match_shape pat_ok] in H.
  apply andb_true_iff in H as [H0 H]. apply andb_true_iff in H as [H1 H].
  apply andb_true_iff in H as [H2 H]. apply andb_true_iff in H as [H3 H].
  apply andb_true_iff in H as [H4 _]. apply Nat.eqb_eq in H4. subst c4.
  destruct (lower_letter _ H0) as [L0 G0]. destruct (lower_letter _ H1) as [L1 G1].
  destruct (lower_letter _ H2) as [L2 G2]. destruct (lower_letter _ H3) as [L3 G3].
  unfold ensure_name_valid. cbn [name_loop]. rewrite G0, L0, G1, L1, G2, L2, G3, L3. reflexivity.
Qed.

Lemma defaults_rejected : ensure_name_valid defaults = NErrDefaults.
Proof. vm_compute. reflexivity. Qed.

Definition hexdash (c : nat) : bool := is_lhex c || Nat.eqb c DASH.
Definition has_dash (s : list nat) : bool := existsb (fun c => Nat.eqb c DASH) s.

Lemma name_loop_hexdash : forall s i dash, forallb hexdash s = true -> (0 < i)%nat ->
  name_loop i s dash = inr (dash || has_dash s).
Proof.
  induction s as [|c s IH]; intros i dash H Hi.
  - cbn. now rewrite orb_false_r.
  - cbn [forallb] in H. apply andb_true_iff in H as [Hc Hs]. cbn [name_loop has_dash existsb].
    assert (H128 : Nat.leb 128 c = false) by (unfold hexdash, DASH in Hc; ranges; lia).
    rewrite H128. replace (Nat.eqb i 0) with false by lia.
    destruct (is_letter c) eqn:El.
    + rewrite IH by (assumption || lia).
      replace (Nat.eqb c DASH) with false by (unfold DASH; ranges; lia). reflexivity.
    + destruct (is_digit c) eqn:Ed.
      * rewrite IH by (assumption || lia).
        replace (Nat.eqb c DASH) with false by (unfold DASH; ranges; lia). reflexivity.
      * assert (Hd : Nat.eqb c DASH = true).
        { unfold hexdash in Hc. apply orb_true_iff in Hc as [Hc|Hc]; [|exact Hc].
          exfalso. unfold is_letter, is_lhex, is_lower, is_upper, is_digit, in_range in *. lia. }
        rewrite Hd. rewrite IH by (assumption || lia). cbn. now rewrite orb_true_r.
Qed.

Lemma hexdash_of_shape : forall s, match_shape legacy_shape s = true -> length s = 36%nat ->
  forallb hexdash s = true /\ has_dash s = true /\ match_shape uuid_body s = true.
Proof.
  intros s H Hl. split; [|split].
  - (* every character is lower-hex or a dash *)
    assert (Hm : match_shape (repeat PAny 0) s = true) by reflexivity.
    clear Hm. revert H Hl. unfold legacy_shape, uuid_shape_of. cbn [repeat app].
    do 36 (destruct s as [|? s]; [intros; discriminate|]). destruct s; [|intros; discriminate].
    intros H _. cbn [match_shape pat_ok] in H. unfold hexdash. cbn [forallb].
    repeat match goal with
           | H : _ && _ = true |- _ => apply andb_true_iff in H; destruct H
           end.
    repeat match goal with
           | H : is_lhex ?c = true |- context [is_lhex ?c] => rewrite H
           | H : Nat.eqb ?c DASH = true |- context [Nat.eqb ?c DASH] => rewrite H
           end.
    cbn. repeat rewrite orb_true_r. reflexivity.
  - unfold legacy_shape, uuid_shape_of in H.
    apply match_shape_split in H as (a & b & -> & _ & _ & Hb).
    destruct b as [|c b]; [discriminate|]. cbn [app match_shape pat_ok] in Hb.
    apply andb_true_iff in Hb as [Hc _]. unfold has_dash. rewrite existsb_app. cbn [existsb].
    rewrite Hc. now rewrite orb_true_r.
  - apply (match_shape_mono legacy_shape uuid_body); [|exact H].
    unfold legacy_shape, uuid_body, uuid_shape_of. cbn [repeat app].
    repeat constructor; intros c Hc; cbn [pat_ok] in *; try exact Hc;
      unfold is_hex; now rewrite Hc.
Qed.

Lemma legacy_rejected : forall n, legacy_matcher n = true ->
  ensure_name_valid n = NErrStart \/ ensure_name_valid n = NErrUUID.
Proof.
  intros n H. unfold legacy_matcher, match_exact in H. apply andb_true_iff in H as [Hm Hl].
  apply Nat.eqb_eq in Hl. change (length legacy_shape) with 36%nat in Hl.
  destruct (hexdash_of_shape n Hm Hl) as (Hh & Hd & Hu).
  assert (Hparse : uuid_parse_ok n = true) by (unfold uuid_parse_ok; rewrite Hl; exact Hu).
  destruct n as [|c n]; [discriminate|].
  cbn [forallb] in Hh. apply andb_true_iff in Hh as [Hc Hs].
  unfold ensure_name_valid. cbn [name_loop].
  assert (H128 : Nat.leb 128 c = false) by (unfold hexdash, DASH in Hc; ranges; lia).
  rewrite H128. cbn [Nat.eqb].
  destruct (is_letter c) eqn:El.
  - rewrite name_loop_hexdash by (assumption || lia). cbn [orb].
    assert (Hd' : has_dash n = true).
    { unfold has_dash in *. cbn [existsb] in Hd. apply orb_true_iff in Hd as [Hd|Hd]; [|exact Hd].
      exfalso. unfold is_letter, is_lower, is_upper, in_range, DASH in *. lia. }
    rewrite Hd', Hparse. now right.
  - now left.
Qed.

Lemma names_rejected : forall n,
  legacy_matcher n = true \/ matcher n = true \/ n = defaults -> ensure_name_valid n <> NOk.
Proof.
  intros n [H|[H|H]].
  - destruct (legacy_rejected n H) as [E|E]; rewrite E; discriminate.
  - rewrite (matcher_rejected n H). discriminate.
  - subst. rewrite defaults_rejected. discriminate.
Qed.

(* ---------- the checker ---------- *)
Definition c39_prop (c : icase) : Prop :=
  match c with
  | INew p r res v t =>
    prefix_ok p = true -> length r = 32%nat ->
    exists id, res = IdOk id /\ length id = 48%nat /\ starts_with (p ++ [USCORE]) id = true
      /\ forallb is_alnum (skipn 5 id) = true /\ matcher id = true /\ v = true
      /\ value62 (skipn 5 id) = bytes_to_N r
      /\ starts_with t id = true /\ length t = 13%nat
  | IName n res => legacy_matcher n = true \/ matcher n = true \/ n = defaults -> res <> NOk
  | IId s v t => starts_with t s = true /\ (v = true -> t <> [])
  | _ => True
  end.

Lemma nres_eqb_eq : forall a b, nres_eqb a b = true <-> a = b.
Proof.
  destruct a, b; cbn; split; intro H; try congruence; try discriminate.
  - apply Nat.eqb_eq in H. congruence.
  - inversion H. apply Nat.eqb_refl.
Qed.

Lemma check_c39_sound_all : forall c, check_c39 c = true -> c39_prop c.
Proof.
  intros [p r res v t|bs out|a|n res|s v t] H; cbn [check_c39 c39_prop] in *; try exact I.
  - intros Hp Hl. rewrite Hp, Hl in H. cbn [andb Nat.eqb] in H.
    destruct res as [id| |]; try discriminate. exists id.
    repeat (apply andb_true_iff in H; destruct H as [H ?]).
    repeat split; try assumption; try (now apply Nat.eqb_eq); now apply N.eqb_eq.
  - intros Hn. destruct (legacy_matcher n || matcher n || list_eqb n defaults) eqn:E.
    + apply negb_true_iff in H. intro; subst. cbn in H. discriminate.
    + exfalso. destruct Hn as [Hn|[Hn|Hn]]; [rewrite Hn in E|rewrite Hn in E|];
        try (cbn in E; rewrite ?orb_true_r in E; discriminate).
      subst. rewrite (proj2 (list_eqb_eq _ _) eq_refl) in E. now rewrite orb_true_r in E.
  - apply andb_true_iff in H as [H1 H2]. split; [exact H1|]. intros ->.
    apply negb_true_iff in H2. intro; subst. discriminate.
Qed.

(* the model's own output (with the specified encoder) passes the checker *)
Lemma spec_enc_spec_32 : forall r, length r = 32%nat -> basex_spec r = Some (spec_enc r).
Proof.
  intros r Hl. assert (Hne : r <> []) by (intro; subst; discriminate).
  destruct (basex_spec_shape r Hne) as (ds & Hd & _). unfold spec_enc. now rewrite Hd.
Qed.

Lemma spec_enc_total : forall bs, basex_spec bs = Some (spec_enc bs).
Proof.
  intro bs. destruct bs as [|b bs]; [reflexivity|].
  destruct (basex_spec_shape (b :: bs)) as (ds & Hd & _); [discriminate|].
  unfold spec_enc. now rewrite Hd.
Qed.

Lemma idres_eqb_eq : forall a b, idres_eqb a b = true -> a = b.
Proof.
  destruct a, b; cbn; intro H; try discriminate; try reflexivity.
  apply list_eqb_eq in H. congruence.
Qed.

Lemma model_passes_c39 : forall c, in_domain_c39 c = true -> model_agrees_c39 c = true -> check_c39 c = true.
Proof.
  intros [p r res v t|bs out|a|n res|s v t] Hdom H; cbn [check_c39 model_agrees_c39 in_domain_c39] in *;
    try reflexivity.
  - destruct (prefix_ok p && Nat.eqb (length r) 32) eqn:E; [|reflexivity].
    apply andb_true_iff in E as [Hp Hl]. apply Nat.eqb_eq in Hl.
    apply andb_true_iff in Hdom as [_ Hok].
    destruct (new_id_shape spec_enc spec_enc_total p r Hp Hl Hok)
      as (id & E & Hlen & Hf & Hn & Ha & Hm & Hv).
    rewrite E in H. apply andb_true_iff in H as [H1 H2]. apply idres_eqb_eq in H1. subst res.
    apply andb_true_iff in H2 as [H2 H3]. apply eqb_prop in H2. apply list_eqb_eq in H3.
    unfold is_valid in H2. rewrite Hm in H2. cbn in H2. subst v.
    unfold truncated in H3. rewrite Hm in H3. subst t.
    rewrite Hlen, Ha, Hm, Hv, N.eqb_refl, starts_with_firstn, firstn_length, Hlen. cbn [andb Nat.eqb Nat.min Nat.add].
    rewrite andb_true_r.
    assert (Hs : starts_with (p ++ [USCORE]) id = true).
    { rewrite <- (firstn_skipn 5 id). replace (firstn 5 id) with (p ++ [USCORE]); [apply starts_with_app|].
      rewrite <- (firstn_skipn 4 id) at 1. rewrite Hf.
      unfold prefix_ok in Hp. apply andb_true_iff in Hp as [Hp1 _]. apply Nat.eqb_eq in Hp1.
      rewrite firstn_app, Hp1. rewrite (@firstn_all2 _ 5 p) by lia.
      f_equal. replace (5 - 4)%nat with 1%nat by lia.
      assert (Hsk : skipn 4 id <> []) by (intro Hx; apply (f_equal (@length nat)) in Hx; rewrite skipn_length in Hx; cbn in Hx; lia).
      destruct (skipn 4 id) as [|x rest] eqn:Es; [congruence|].
      cbn [firstn]. f_equal. rewrite <- Hn.
      rewrite <- (firstn_skipn 4 id) at 1. rewrite app_nth2 by (rewrite firstn_length; lia).
      rewrite firstn_length, Hlen, Es. reflexivity. }
    rewrite Hs. reflexivity.
  - apply nres_eqb_eq in H. subst res.
    destruct (legacy_matcher n || matcher n || list_eqb n defaults) eqn:E; [|reflexivity].
    apply negb_true_iff. destruct (nres_eqb (ensure_name_valid n) NOk) eqn:En; [|reflexivity].
    apply nres_eqb_eq in En. exfalso. apply (names_rejected n); [|exact En].
    apply orb_true_iff in E as [E|E]; [apply orb_true_iff in E as [E|E]|]; auto.
    right. right. now apply list_eqb_eq.
  - apply andb_true_iff in H as [H1 H2]. apply eqb_prop in H1. apply list_eqb_eq in H2. subst v t.
    rewrite truncated_prefix. cbn [andb]. destruct (is_valid s) eqn:Ev; [|reflexivity].
    apply negb_true_iff. pose proof (truncated_valid s Ev). destruct (truncated s); [congruence|reflexivity].
Qed.

(* non-vacuity *)
Local Close Scope N_scope.
Lemma identifier_examples :
  new_id spec_enc [115; 121; 110; 99] (repeat 0%nat 31 ++ [5%nat])
    = IdOk ([115; 121; 110; 99; 95] ++ repeat 48%nat 42 ++ [53%nat])
  /\ prefix_ok [115; 121; 110; 99] = true /\ bytes_ok (repeat 0%nat 31 ++ [5%nat]) = true
  /\ basex_spec [0; 0; 1; 0]%nat = Some [48; 48; 52; 56]%nat
  /\ legacy_matcher [97;98;99;100;101;102;49;50;45;49;50;51;52;45;49;50;51;52;45;49;50;51;52;45;
                     49;50;51;52;53;54;55;56;57;48;97;98]%nat = true.
Proof. repeat split; vm_compute; reflexivity. Qed.

Lemma capacity : (2 ^ 256 < 62 ^ 43)%N.
Proof. vm_compute. reflexivity. Qed.
