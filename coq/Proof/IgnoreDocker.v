(* Lemmas for C15 (Model/IgnoreDocker.v, Model/IgnoreScan.v). *)
From Coq Require Import List Bool Arith String Ascii Lia.
Import ListNotations.
From Mv Require Import Model.Entry Model.IgnoreScan Model.IgnoreMutagen Model.IgnoreDocker.
From Mv Require Import Proof.IgnoreScan Proof.IgnoreMutagen.
Open Scope list_scope.

Section DockerFacts.
Variable P : Type.
Variable excl : P -> bool.
Variable ptext : P -> string.
Variable m : P -> rpath -> bool.

(* ====================================================================== *)
(* 1. The two loops compute "last matching pattern wins".                  *)
(* ====================================================================== *)

Lemma last_such_last_match (f : P -> bool) pats : last_such f pats = last_match f pats.
Proof. induction pats as [|p t IH]; [reflexivity|]. cbn [last_such last_match]. rewrite IH. reflexivity. Qed.

(* upstream MatchesOrParentMatches: its skip rule is sound *)
Lemma mopm_loop_inv pats file :
  file <> [] ->
  forall matched,
    mopm_loop excl m pats file matched
    = match last_such (matches_chain m file) pats with
      | Some p => negb (excl p)
      | None => matched
      end.
Proof.
  intros Hne. assert (Hmt : forall p, m p file || existsb (m p) (ancestors file) = matches_chain m file p).
  { intros p. unfold matches_chain, ancestors. destruct file as [|n r]; [congruence|]. reflexivity. }
  induction pats as [|p t IH]; intros matched; [reflexivity|].
  cbn [mopm_loop last_such]. rewrite Hmt.
  destruct (negb (Bool.eqb (excl p) matched)) eqn:Hskip.
  - rewrite IH. destruct (last_such (matches_chain m file) t); [reflexivity|].
    destruct (matches_chain m file p); [|reflexivity].
    destruct (excl p), matched; cbn in Hskip; try discriminate; reflexivity.
  - rewrite IH. destruct (last_such (matches_chain m file) t); [reflexivity|].
    destruct (matches_chain m file p); [reflexivity|reflexivity].
Qed.

Lemma mopm_docker_excluded pats q : q <> [] -> mopm excl m pats q = docker_excluded excl m pats q.
Proof.
  intros Hne. unfold mopm, docker_excluded, excluded_by. rewrite (mopm_loop_inv pats q Hne).
  destruct (last_such (matches_chain m q) pats); reflexivity.
Qed.

Lemma docker_excluded_root pats : docker_excluded excl m pats [] = false.
Proof.
  unfold docker_excluded. assert (H : last_such (matches_chain m []) pats = None).
  { induction pats as [|p t IH]; [reflexivity|]. cbn [last_such]. rewrite IH. reflexivity. }
  rewrite H. reflexivity.
Qed.

(* MatchesForMutagen's first loop is the loop of C14 *)
Lemma mfm_loop_ignore_loop pats q :
  forall st rem, mfm_loop excl m pats q st rem = ignore_loop excl (fun p => m p q) pats st rem.
Proof.
  induction pats as [|p t IH]; intros st rem; [reflexivity|].
  cbn [mfm_loop ignore_loop]. rewrite !IH. reflexivity.
Qed.

Lemma mfm_status pats q dir : fst (mfm excl ptext m pats q dir) = exact_status excl m pats q.
Proof.
  assert (H : mfm_loop excl m pats q Nominal (count_excl excl pats) = exact_status excl m pats q).
  { rewrite mfm_loop_ignore_loop. unfold count_excl.
    change (List.length (filter excl pats)) with (count_neg excl pats).
    rewrite ignore_loop_inv. unfold exact_status. rewrite last_such_last_match.
    destruct (last_match (fun p => m p q) pats); reflexivity. }
  unfold mfm. rewrite H.
  destruct (dir && status_eqb (exact_status excl m pats q) Unignored); [reflexivity|].
  destruct (negb dir || negb (existsb excl pats)); reflexivity.
Qed.

Lemma has_excl_prefix_excl pats q : has_excl_prefix excl ptext pats q = true -> existsb excl pats = true.
Proof.
  unfold has_excl_prefix. rewrite !existsb_exists. intros (p & Hin & H).
  apply andb_prop in H. exists p. tauto.
Qed.

(* the traversal continuation of MatchesForMutagen *)
Lemma mfm_continue pats q dir :
  snd (mfm excl ptext m pats q dir)
  = dir && negb (status_eqb (exact_status excl m pats q) Unignored)
    && has_excl_prefix excl ptext pats q.
Proof.
  pose proof (mfm_status pats q dir) as Hs. unfold mfm in *.
  destruct (dir && status_eqb (mfm_loop excl m pats q Nominal (count_excl excl pats)) Unignored) eqn:E1.
  - cbn [fst snd] in *. rewrite <- Hs. apply andb_prop in E1. destruct E1 as [-> ->]. reflexivity.
  - destruct (negb dir || negb (existsb excl pats)) eqn:E2; cbn [fst snd] in *; rewrite <- Hs.
    + destruct dir; cbn [andb negb orb] in *; [|reflexivity]. rewrite E1. cbn [negb andb].
      destruct (has_excl_prefix excl ptext pats q) eqn:E3; [|reflexivity].
      apply has_excl_prefix_excl in E3. rewrite E3 in E2. discriminate.
    + apply orb_false_elim in E2. destruct E2 as [Hd _]. apply negb_false_iff in Hd. subst dir.
      cbn [andb] in *. rewrite E1. reflexivity.
Qed.

(* ====================================================================== *)
(* 2. One level of the ancestor chain: outside the class, Docker's answer  *)
(*    for q is Mutagen's exact status at q laid over Docker's answer for   *)
(*    the parent.                                                          *)
(* ====================================================================== *)

Lemma last_split_such (f : P -> bool) pats :
  last_such f pats = option_map fst (last_split f pats).
Proof.
  induction pats as [|p t IH]; [reflexivity|]. cbn [last_such last_split]. rewrite IH.
  destruct (last_split f t) as [[x l]|]; [reflexivity|]. cbn [option_map]. destruct (f p); reflexivity.
Qed.

Lemma last_such_none_all (f : P -> bool) pats :
  last_such f pats = None -> forall x, In x pats -> f x = false.
Proof.
  rewrite last_such_last_match. intros H. pose proof (last_match_spec P f pats) as S.
  rewrite H in S. exact S.
Qed.

Lemma last_such_in (f : P -> bool) pats x : last_such f pats = Some x -> In x pats /\ f x = true.
Proof. rewrite last_such_last_match. apply last_match_in. Qed.

Lemma level_step pats q :
  let F := matches_chain m q in
  let G := matches_chain m (tl q) in
  q <> [] ->
  match last_split (fun p => m p q) pats with
  | Some (pi, later) =>
    existsb (fun pj => xorb (excl pj) (excl pi) && G pj) later = false ->
    excluded_by excl (last_such F pats) = negb (excl pi)
  | None => last_such F pats = last_such G pats
  end.
Proof.
  intros F G Hne.
  assert (HF : forall p, F p = m p q || G p).
  { intros p. unfold F, G, matches_chain. destruct q as [|n r]; [congruence|]. reflexivity. }
  induction pats as [|p t IH]; [reflexivity|].
  cbn [last_split last_such].
  destruct (last_split (fun p0 => m p0 q) t) as [[pi later]|] eqn:Hls.
  - intros Hk. specialize (IH Hk).
    assert (Hsome : last_such F t <> None).
    { pose proof (last_split_such (fun p0 => m p0 q) t) as H1. rewrite Hls in H1. cbn in H1.
      apply last_such_in in H1. destruct H1 as [Hin Hm].
      intros Hn. pose proof (last_such_none_all F t Hn pi Hin) as Hf.
      rewrite HF, Hm in Hf. discriminate. }
    destruct (last_such F t); [exact IH|congruence].
  - assert (Hnone : forall x, In x t -> m x q = false).
    { apply last_such_none_all. rewrite last_split_such, Hls. reflexivity. }
    rewrite IH. destruct (m p q) eqn:Hm.
    + intros Hk. rewrite HF, Hm. cbn [orb].
      destruct (last_such G t) as [x|] eqn:Hg; [|reflexivity].
      apply last_such_in in Hg. destruct Hg as [Hin Hgx]. cbn [excluded_by].
      destruct (xorb (excl x) (excl p)) eqn:Hx.
      * exfalso. assert (existsb (fun pj => xorb (excl pj) (excl p) && G pj) t = true).
        { apply existsb_exists. exists x. rewrite Hx, Hgx. auto. }
        congruence.
      * destruct (excl x), (excl p); cbn in Hx; try discriminate; reflexivity.
    + rewrite HF, Hm. reflexivity.
Qed.

Definition overlay (st : status) (parent : bool) : bool :=
  match st with Ignored => true | Unignored => false | Nominal => parent end.

Lemma docker_excluded_step pats q :
  q <> [] -> known_at excl m pats q = false ->
  docker_excluded excl m pats q
  = overlay (exact_status excl m pats q) (docker_excluded excl m pats (tl q)).
Proof.
  intros Hne Hk. pose proof (level_step pats q Hne) as H. cbn zeta in H.
  unfold known_at, ancestors in Hk. unfold exact_status. rewrite last_split_such.
  destruct (last_split (fun p => m p q) pats) as [[pi later]|].
  - cbn [option_map fst]. unfold docker_excluded. rewrite (H Hk).
    destruct (excl pi); reflexivity.
  - cbn [option_map overlay]. unfold docker_excluded. rewrite H. reflexivity.
Qed.

Lemma known_C15_head pats n rp : known_C15 excl m pats (n :: rp) = false -> known_at excl m pats (n :: rp) = false.
Proof. unfold known_C15. cbn [chain existsb]. intros H. apply orb_false_elim in H. tauto. Qed.

(* Mutagen's effective view equals Docker's outside the class *)
Lemma effective_docker pats q :
  known_C15 excl m pats q = false -> effective_ignored excl m pats q = docker_excluded excl m pats q.
Proof.
  induction q as [|n r IH]; intros Hk.
  - cbn. symmetry. apply docker_excluded_root.
  - pose proof (known_C15_head pats n r Hk) as Hh.
    assert (Hr : known_C15 excl m pats r = false).
    { unfold known_C15 in *. cbn [chain existsb] in Hk. apply orb_false_elim in Hk. tauto. }
    rewrite (docker_excluded_step pats (n :: r) ltac:(discriminate) Hh). cbn [tl effective_ignored].
    rewrite <- (IH Hr). destruct (exact_status excl m pats (n :: r)); reflexivity.
Qed.

(* ====================================================================== *)
(* 3. The two walks select the same files and links.                       *)
(* ====================================================================== *)
Fixpoint docker_list (pats : list P) (rp : rpath) (l : list (name * fnode)) : list (rpath * fnode) :=
  match l with
  | [] => []
  | (n, ch) :: t =>
    let q := n :: rp in
    (if mopm excl m pats q then
       if is_fdir ch && has_excl_prefix excl ptext pats q then docker_walk excl ptext m pats q ch else []
     else (q, ch) :: docker_walk excl ptext m pats q ch)
    ++ docker_list pats rp t
  end.

Lemma docker_walk_dir pats rp c : docker_walk excl ptext m pats rp (FDir c) = docker_list pats rp c.
Proof.
  cbn [docker_walk].
  match goal with |- ?g c = _ => assert (Hgo : forall l, g l = docker_list pats rp l) end.
  { induction l as [|[n x] t IH]; [reflexivity|]. cbn [docker_list]. rewrite <- IH. reflexivity. }
  apply Hgo.
Qed.

Lemma docker_walk_leaf pats rp f : is_fdir f = false -> docker_walk excl ptext m pats rp f = [].
Proof. destruct f; try reflexivity. discriminate. Qed.

Lemma keep_leaves_app a b : keep_leaves (a ++ b) = keep_leaves a ++ keep_leaves b.
Proof.
  induction a as [|[q f] a IH]; [reflexivity|]. cbn [app keep_leaves].
  destruct (leaf_entry f); rewrite IH; reflexivity.
Qed.

Definition class_free (pats : list P) (rp : rpath) (node : fnode) : Prop :=
  forall v f, In (v, f) (fnodes rp node) -> known_C15 excl m pats v = false.

Lemma walks_agree pats node :
  forall rp mask,
    mask = docker_excluded excl m pats rp ->
    class_free pats rp node ->
    leaves_at rp (fst (scan_node (dock_ignorer excl ptext m pats) rp mask node))
    = keep_leaves (docker_walk excl ptext m pats rp node).
Proof.
  set (ign := dock_ignorer excl ptext m pats).
  induction node as [c IHc|d|t| |] using fnode_ind2; intros rp mask Hmask Hfree; try reflexivity;
    try (destruct mask; reflexivity).
  rewrite scan_node_dir, docker_walk_dir.
  destruct (scan_list ign rp mask c) as [es evs] eqn:Hsl. cbn [fst].
  rewrite leaves_at_dirkind.
  unfold class_free in Hfree. rewrite fnodes_dir in Hfree.
  revert es evs Hsl. induction c as [|[n ch] rest IHl]; intros es evs Hsl.
  - cbn in Hsl. injection Hsl as <- <-. reflexivity.
  - inversion IHc as [|x0 l0 Hch Htl]; subst x0 l0. cbn [snd] in Hch.
    assert (Hfree_tl : forall v f, In (v, f) (fnodes_list rp rest) -> known_C15 excl m pats v = false).
    { intros v f H. apply (Hfree v f). cbn [fnodes_list]. apply in_or_app. right. exact H. }
    specialize (IHl Htl Hfree_tl).
    cbn [scan_list] in Hsl.
    destruct (scan_child ign rp mask n ch) as [e ev] eqn:Hsc.
    destruct (scan_list ign rp mask rest) as [es' evs'] eqn:Hsl'.
    injection Hsl as <- <-. specialize (IHl es' evs' eq_refl).
    rewrite leaves_list_cons, IHl. cbn [docker_list]. rewrite keep_leaves_app.
    rewrite app_assoc. f_equal.
    (* the child itself *)
    assert (Hkq : known_C15 excl m pats (n :: rp) = false).
    { apply (Hfree (n :: rp) ch). cbn [fnodes_list]. left. reflexivity. }
    pose proof (docker_excluded_step pats (n :: rp) ltac:(discriminate) (known_C15_head pats n rp Hkq)) as Hstep.
    cbn [tl] in Hstep. rewrite <- Hmask in Hstep.
    set (q := n :: rp) in *.
    rewrite (mopm_docker_excluded pats q ltac:(discriminate)), Hstep.
    assert (Hfree_ch : class_free pats q ch).
    { intros v f H. apply (Hfree v f). cbn [fnodes_list]. right. apply in_or_app. left. exact H. }
    pose proof (mfm_status pats q (is_fdir ch)) as Hst.
    pose proof (mfm_continue pats q (is_fdir ch)) as Hct.
    destruct (scan_child_spec ign rp mask n ch) as [[Hk H]|[(Hk & Hdec & H)|(Hk & mask' & Hdec & H)]];
      rewrite Hsc in H; injection H as -> ->; try fold q in Hdec.
    + (* unsupported kind or unencodable name: never a file or link *)
      destruct ch; try discriminate; cbn [is_fdir andb];
        (destruct mask; cbn [bad_name_entry is_leaf leaves_at entries filter app];
         destruct (overlay _ _); reflexivity).
    + (* pruned by the walk *)
      unfold ign, dock_ignorer in Hdec. rewrite Hst, Hct in Hdec.
      cbn [is_leaf leaves_at entries filter app].
      destruct (exact_status excl m pats q) eqn:Es; cbn [overlay decide status_eqb negb andb] in *.
      * destruct mask; cbn [andb] in Hdec; [|discriminate]. rewrite andb_true_r in Hdec.
        destruct (is_fdir ch) eqn:Ed; cbn [andb negb] in *.
        -- destruct (has_excl_prefix excl ptext pats q); [discriminate|reflexivity].
        -- reflexivity.
      * rewrite andb_true_r in Hdec.
        destruct (is_fdir ch) eqn:Ed; cbn [andb negb] in *.
        -- destruct (has_excl_prefix excl ptext pats q); [discriminate|reflexivity].
        -- reflexivity.
      * discriminate.
    + (* processed with mask' *)
      unfold ign, dock_ignorer in Hdec. rewrite Hst, Hct in Hdec.
      assert (Hm' : mask' = overlay (exact_status excl m pats q) mask
                    /\ (overlay (exact_status excl m pats q) mask = true ->
                        is_fdir ch && has_excl_prefix excl ptext pats q = true)).
      { destruct (exact_status excl m pats q) eqn:Es; cbn [overlay decide status_eqb negb andb] in *.
        - rewrite andb_true_r in Hdec. destruct mask; cbn [andb] in Hdec.
          + destruct (is_fdir ch && has_excl_prefix excl ptext pats q) eqn:Ec; cbn [negb] in Hdec;
              [injection Hdec as <-; auto|discriminate].
          + injection Hdec as <-. split; [reflexivity|discriminate].
        - rewrite andb_true_r in Hdec.
          destruct (is_fdir ch && has_excl_prefix excl ptext pats q) eqn:Ec; cbn [negb] in Hdec;
            [injection Hdec as <-; auto|discriminate].
        - injection Hdec as <-. split; [reflexivity|discriminate]. }
      destruct Hm' as [Hm' Hpre].
      pose proof (Hch q mask' ltac:(rewrite Hm', Hstep; reflexivity) Hfree_ch) as IHch.
      fold ign in IHch. fold q. rewrite IHch.
      destruct ch as [c'|dg|tg| |]; [| | |discriminate|discriminate].
      * (* directory *)
        assert (Hnl : is_leaf (fst (scan_node ign q mask' (FDir c'))) = false).
        { rewrite scan_node_dir. destruct (scan_list ign q mask' c'). destruct mask'; reflexivity. }
        rewrite Hnl. cbn [app].
        destruct (overlay (exact_status excl m pats q) mask) eqn:Eo.
        -- rewrite (Hpre eq_refl). reflexivity.
        -- reflexivity.
      * (* file *)
        cbn [scan_node fst is_leaf app is_fdir andb] in *.
        destruct (overlay (exact_status excl m pats q) mask) eqn:Eo.
        -- specialize (Hpre eq_refl). discriminate.
        -- reflexivity.
      * (* link *)
        cbn [scan_node fst is_leaf app is_fdir andb] in *.
        destruct (overlay (exact_status excl m pats q) mask) eqn:Eo.
        -- specialize (Hpre eq_refl). discriminate.
        -- reflexivity.
Qed.

(* the mask handed to a child that is walked is Docker's verdict on it *)
Lemma child_mask pats rp n ch mask mask' :
  mask = docker_excluded excl m pats rp ->
  known_C15 excl m pats (n :: rp) = false ->
  decide (fst (dock_ignorer excl ptext m pats (n :: rp) (is_fdir ch)))
         (snd (dock_ignorer excl ptext m pats (n :: rp) (is_fdir ch))) mask = Some mask' ->
  mask' = docker_excluded excl m pats (n :: rp).
Proof.
  intros Hmask Hk Hdec.
  pose proof (docker_excluded_step pats (n :: rp) ltac:(discriminate) (known_C15_head pats n rp Hk)) as Hstep.
  cbn [tl] in Hstep. rewrite <- Hmask in Hstep. rewrite Hstep.
  unfold dock_ignorer in Hdec. rewrite mfm_status, mfm_continue in Hdec.
  destruct (exact_status excl m pats (n :: rp)); cbn [overlay decide status_eqb negb andb] in *.
  - destruct (mask && negb _) in Hdec; [discriminate|]. injection Hdec as <-. reflexivity.
  - destruct (negb _) in Hdec; [discriminate|]. injection Hdec as <-. reflexivity.
  - injection Hdec as <-. reflexivity.
Qed.

(* in the raw snapshot a directory is a phantom exactly where Docker excludes it *)
Lemma dir_kinds_agree pats node :
  forall rp mask,
    mask = docker_excluded excl m pats rp ->
    class_free pats rp node ->
    forall q e, In (q, e) (entries rp (fst (scan_node (dock_ignorer excl ptext m pats) rp mask node))) ->
      match e with
      | EPhantom _ => docker_excluded excl m pats q = true
      | EDir _ => docker_excluded excl m pats q = false
      | _ => True
      end.
Proof.
  set (ign := dock_ignorer excl ptext m pats).
  induction node as [c IHc|d|t| |] using fnode_ind2; intros rp mask Hmask Hfree q e Hin;
    try (cbn in Hin; destruct Hin); try (destruct mask; cbn in Hin; destruct Hin).
  rewrite scan_node_dir in Hin.
  destruct (scan_list ign rp mask c) as [es evs] eqn:Hsl. cbn [fst] in Hin.
  assert (Hin' : In (q, e) (entries_list rp es)).
  { destruct mask; [rewrite entries_phantom in Hin|rewrite entries_dir in Hin]; exact Hin. }
  clear Hin. unfold class_free in Hfree. rewrite fnodes_dir in Hfree.
  revert es evs Hsl Hin'. induction c as [|[n ch] rest IHl]; intros es evs Hsl Hin.
  - cbn in Hsl. injection Hsl as <- <-. destruct Hin.
  - inversion IHc as [|x0 l0 Hch Hrest]; subst x0 l0. cbn [snd] in Hch.
    assert (Hfree_rest : forall v f, In (v, f) (fnodes_list rp rest) -> known_C15 excl m pats v = false).
    { intros v f H. apply (Hfree v f). cbn [fnodes_list]. apply in_or_app. right. exact H. }
    specialize (IHl Hrest Hfree_rest).
    cbn [scan_list] in Hsl.
    destruct (scan_child ign rp mask n ch) as [e0 ev] eqn:Hsc.
    destruct (scan_list ign rp mask rest) as [es' evs'] eqn:Hsl'.
    injection Hsl as <- <-. cbn [entries_list] in Hin.
    assert (Hkq : known_C15 excl m pats (n :: rp) = false).
    { apply (Hfree (n :: rp) ch). cbn [fnodes_list]. left. reflexivity. }
    assert (Hfree_ch : class_free pats (n :: rp) ch).
    { intros v f H. apply (Hfree v f). cbn [fnodes_list]. right. apply in_or_app. left. exact H. }
    destruct (scan_child_spec ign rp mask n ch) as [[Hk H]|[(Hk & Hdec & H)|(Hk & mask' & Hdec & H)]];
      rewrite Hsc in H; injection H as -> ->.
    + destruct Hin as [[= <- <-]|Hin]; [destruct ch; try exact I; destruct mask; exact I|].
      assert (Hnone : entries (n :: rp) (match ch with FBadName => bad_name_entry mask | _ => EUntracked end) = []).
      { destruct ch; try reflexivity. destruct mask; reflexivity. }
      rewrite Hnone in Hin. cbn [app] in Hin. exact (IHl es' evs' eq_refl Hin).
    + destruct Hin as [[= <- <-]|Hin]; [exact I|]. cbn [entries app] in Hin. exact (IHl es' evs' eq_refl Hin).
    + pose proof (child_mask pats rp n ch mask mask' Hmask Hkq Hdec) as Hm'.
      destruct Hin as [[= <- <-]|Hin].
      * destruct ch as [c'|dg|tg| |]; try exact I; try (destruct mask'; exact I).
        rewrite scan_node_dir. destruct (scan_list ign (n :: rp) mask' c'). cbn [fst].
        destruct mask'; [symmetry; exact Hm'|symmetry; exact Hm'].
      * apply in_app_or in Hin. destruct Hin as [Hin|Hin]; [|exact (IHl es' evs' eq_refl Hin)].
        exact (Hch (n :: rp) mask' Hm' Hfree_ch q e Hin).
Qed.

Theorem leaves_equal pats root :
  class_free pats [] root ->
  leaves (snapshot (dock_ignorer excl ptext m pats) root) = docker_leaves excl ptext m pats root.
Proof.
  intros Hfree. unfold leaves, snapshot, scan, docker_leaves.
  apply (walks_agree pats root [] false); [symmetry; apply docker_excluded_root|exact Hfree].
Qed.

End DockerFacts.

(* ====================================================================== *)
(* 4. The checker applied to the implementation's reified snapshot.        *)
(* ====================================================================== *)
From Mv Require Import Proof.EntryFacts.

Lemma rpath_eqb_eq a b : rpath_eqb a b = true <-> a = b.
Proof.
  revert b. induction a as [|x a IH]; intros [|y b]; cbn [rpath_eqb]; split; intros H;
    try reflexivity; try discriminate.
  - apply andb_prop in H. destruct H as [H1 H2]. apply str_eqb_eq in H1. apply IH in H2. congruence.
  - injection H as -> ->. rewrite String.eqb_refl. apply IH. reflexivity.
Qed.

Lemma pe_eqb_eq x y : pe_eqb x y = true <-> x = y.
Proof.
  destruct x as [p e], y as [q f]. unfold pe_eqb. cbn [fst snd]. split.
  - intros H. apply andb_prop in H. destruct H as [H1 H2].
    apply rpath_eqb_eq in H1. apply entry_eqb_eq in H2. congruence.
  - intros [= -> ->]. apply andb_true_intro. split; [apply rpath_eqb_eq|apply entry_eqb_eq]; reflexivity.
Qed.

Lemma diff_pe_nil a b : diff_pe a b = [] -> forall x, In x a -> In x b.
Proof.
  unfold diff_pe. intros H x Hx.
  destruct (existsb (pe_eqb x) b) eqn:E.
  - apply existsb_exists in E. destruct E as (y & Hy & He). apply pe_eqb_eq in He. subst. exact Hy.
  - exfalso. assert (Hin : In x (filter (fun x0 => negb (existsb (pe_eqb x0) b)) a)).
    { apply filter_In. split; [exact Hx|]. rewrite E. reflexivity. }
    rewrite H in Hin. destruct Hin.
Qed.

Lemma check_C15_leaves_sound pats tree anc rs :
  check_C15 pats tree anc rs = true ->
  forall pe, In pe (leaves rs) <-> In pe (docker_leaves dexcl dtext dmatch pats tree).
Proof.
  unfold check_C15, c15_departures. intros H.
  destruct (map fst (leaf_departures pats tree rs) ++ dir_departures pats tree anc rs) eqn:E; [|discriminate].
  apply app_eq_nil in E. destruct E as [E _]. apply map_eq_nil in E.
  unfold leaf_departures in E. apply app_eq_nil in E. destruct E as [E1 E2].
  intros pe. split; [apply (diff_pe_nil _ _ E1)|apply (diff_pe_nil _ _ E2)].
Qed.

Lemma diff_pe_same a : diff_pe a a = [].
Proof.
  unfold diff_pe. induction a as [|x a IH]; [reflexivity|].
  assert (H : forall l b, (forall y, In y l -> In y b) ->
                          filter (fun x0 => negb (existsb (pe_eqb x0) b)) l = []).
  { induction l as [|y l IHl]; intros b Hb; [reflexivity|]. cbn [filter].
    assert (E : existsb (pe_eqb y) b = true).
    { apply existsb_exists. exists y. split; [apply Hb; left; reflexivity|apply pe_eqb_eq; reflexivity]. }
    rewrite E. cbn [negb]. apply IHl. intros z Hz. apply Hb. right. exact Hz. }
  apply H. intros y Hy. exact Hy.
Qed.

(* ====================================================================== *)
(* 5. Pattern preprocessing: whatever Mutagen accepts, it reads as Docker   *)
(*    does ('!' is split off before the text is cleaned, on both sides).    *)
(* ====================================================================== *)
Lemma prep_agree raw x :
  match raw with c :: _ => Ascii.eqb c "#"%char = false | [] => True end ->
  mutagen_prep raw = Some x -> docker_prep raw = Some x.
Proof.
  intros Hc. unfold mutagen_prep, docker_prep.
  destruct (existsb _ raw); [discriminate|].
  assert (Hh : match raw with c :: _ => Ascii.eqb c "#"%char | [] => false end = false)
    by (destruct raw; [reflexivity|exact Hc]).
  rewrite Hh.
  destruct (null (trim raw)); [discriminate|].
  set (neg := match trim raw with c :: _ => Ascii.eqb c ch_bang | [] => false end).
  set (p := if neg then trim (tl (trim raw)) else trim raw).
  destruct (null p); [discriminate|].
  destruct (str_eqb (clean p) [ch_slash]); [discriminate|].
  intros H. exact H.
Qed.

Lemma prep_examples :
  mutagen_prep (str_of "!./vendor/keep") = Some (true, str_of "vendor/keep")
  /\ mutagen_prep (str_of "!tmp/../build/out") = Some (true, str_of "build/out")
  /\ mutagen_prep (str_of "! /a//b/.") = Some (true, str_of "a/b")
  /\ mutagen_prep (str_of "/") = None
  /\ docker_prep (str_of "!./vendor/keep") = Some (true, str_of "vendor/keep").
Proof. vm_compute. repeat split. Qed.
