(* Lemmas for C14 (Model/IgnoreMutagen.v, Model/IgnoreScan.v). *)
From Coq Require Import List Bool Arith String Ascii Lia.
Import ListNotations.
From Mv Require Import Model.Entry Model.IgnoreScan Model.IgnoreMutagen.
Open Scope list_scope.

(* ====================================================================== *)
(* 1. The short-circuit loop computes "last match wins", for any matcher.  *)
(* ====================================================================== *)
Section LoopFacts.
Variable P : Type.
Variable neg : P -> bool.
Variable m : P -> bool.

Lemma count_neg_cons p t :
  count_neg neg (p :: t) = if neg p then S (count_neg neg t) else count_neg neg t.
Proof. unfold count_neg. cbn [filter]. destruct (neg p); reflexivity. Qed.

Lemma count_neg_zero l :
  count_neg neg l = 0 -> forall q, In q l -> neg q = false.
Proof.
  induction l as [|p t IH]; intros Hz q Hin; [destruct Hin|].
  rewrite count_neg_cons in Hz. destruct (neg p) eqn:Hp; [discriminate|].
  destruct Hin as [<-|Hin]; [exact Hp|exact (IH Hz q Hin)].
Qed.

Lemma last_match_in l q : last_match m l = Some q -> In q l /\ m q = true.
Proof.
  induction l as [|p t IH]; cbn [last_match]; [discriminate|].
  destruct (last_match m t) as [x|] eqn:Hl.
  - intros [= <-]. destruct (IH eq_refl) as [Hi Hm]. split; [right; exact Hi|exact Hm].
  - destruct (m p) eqn:Hm; [|discriminate]. intros [= <-]. split; [left; reflexivity|exact Hm].
Qed.

(* the invariant form: from any status, with the counter equal to the number
   of negated patterns still ahead, the loop ends in the status of the last
   matching pattern ahead, or keeps the status if none matches *)
Lemma ignore_loop_inv :
  forall pats st,
    ignore_loop neg m pats st (count_neg neg pats)
    = match last_match m pats with Some p => pol neg p | None => st end.
Proof.
  induction pats as [|p t IH]; intros st; [reflexivity|].
  cbn [ignore_loop last_match].
  destruct (status_eqb st Ignored && Nat.eqb (count_neg neg (p :: t)) 0) eqn:Hbrk.
  - (* break: no negated pattern ahead, already ignored *)
    apply andb_prop in Hbrk. destruct Hbrk as [Hst Hz].
    apply Nat.eqb_eq in Hz.
    assert (st = Ignored) as -> by (destruct st; cbn in Hst; congruence).
    destruct (last_match m t) as [x|] eqn:Hl.
    + destruct (last_match_in _ _ Hl) as [Hi _].
      unfold pol. rewrite (count_neg_zero _ Hz x (or_intror Hi)). reflexivity.
    + destruct (m p); [|reflexivity].
      unfold pol. rewrite (count_neg_zero _ Hz p (or_introl eq_refl)). reflexivity.
  - rewrite count_neg_cons.
    destruct (neg p) eqn:Hp; cbn [Nat.pred].
    + destruct (status_eqb st Unignored) eqn:Hu.
      * rewrite IH. destruct (last_match m t); [reflexivity|].
        destruct (m p); [|reflexivity]. unfold pol. rewrite Hp.
        destruct st; cbn in Hu; congruence.
      * destruct (m p) eqn:Hm; cbn [negb]; rewrite IH;
          destruct (last_match m t); try reflexivity.
        unfold pol. rewrite Hp. reflexivity.
    + destruct (status_eqb st Ignored) eqn:Hi.
      * rewrite IH. destruct (last_match m t); [reflexivity|].
        destruct (m p); [|reflexivity]. unfold pol. rewrite Hp.
        destruct st; cbn in Hi; congruence.
      * destruct (m p) eqn:Hm; cbn [negb]; rewrite IH;
          destruct (last_match m t); try reflexivity.
        unfold pol. rewrite Hp. reflexivity.
Qed.

Lemma run_loop_last_match pats :
  run_loop neg m pats = last_match_status neg m pats.
Proof.
  unfold run_loop, last_match_status, status_of. rewrite ignore_loop_inv.
  destruct (last_match m pats); reflexivity.
Qed.

(* the counter never underflows: it is decremented only at a negated pattern,
   where it is at least 1 *)
Lemma count_neg_pos p t : neg p = true -> count_neg neg (p :: t) <> 0.
Proof. intros H. rewrite count_neg_cons, H. discriminate. Qed.

(* what [last_match] means *)
Lemma last_match_spec pats :
  match last_match m pats with
  | Some p => exists l1 l2, pats = l1 ++ p :: l2 /\ m p = true /\ forall q, In q l2 -> m q = false
  | None => forall q, In q pats -> m q = false
  end.
Proof.
  induction pats as [|p t IH]; cbn [last_match]; [intros q []|].
  destruct (last_match m t) as [x|].
  - destruct IH as (l1 & l2 & -> & Hm & Hl). exists (p :: l1), l2. auto.
  - destruct (m p) eqn:Hm.
    + exists [], t. auto.
    + intros q [<-|Hq]; auto.
Qed.
End LoopFacts.

(* ====================================================================== *)
(* 2. The documented glob meaning, as an inductive relation.               *)
(* ====================================================================== *)

(* c lies in one of the ranges lo..hi of a bracket class *)
Definition InItems (c : ascii) (items : list (ascii * ascii)) : Prop :=
  exists lo hi, In (lo, hi) items
                /\ nat_of_ascii lo <= nat_of_ascii c /\ nat_of_ascii c <= nat_of_ascii hi.

(* one atom other than '*' against one character: never the separator *)
Inductive AtomM : atom -> ascii -> Prop :=
| AtomM_lit c : c <> ch_slash -> AtomM (ALit c) c
| AtomM_any c : c <> ch_slash -> AtomM AAny c
| AtomM_class items c : c <> ch_slash -> InItems c items -> AtomM (AClass false items) c
| AtomM_nclass items c : c <> ch_slash -> ~ InItems c items -> AtomM (AClass true items) c.

(* the atoms of one pattern component against one name component: '*' stands
   for any run of characters other than '/' *)
Inductive SegM : list atom -> str -> Prop :=
| SegM_nil : SegM [] []
| SegM_one a rest c s : AtomM a c -> SegM rest s -> SegM (a :: rest) (c :: s)
| SegM_star rest t s :
    (forall c, In c t -> c <> ch_slash) -> SegM rest s -> SegM (AStar :: rest) (t ++ s).

(* pattern components against name components: a "**" component stands for
   zero or more whole name components, any other for exactly one *)
Inductive PathM : list comp -> list str -> Prop :=
| PathM_nil : PathM [] []
| PathM_seg atoms cs n ns : SegM atoms n -> PathM cs ns -> PathM (CSeg atoms :: cs) (n :: ns)
| PathM_dbl cs skipped ns : PathM cs ns -> PathM (CDouble :: cs) (skipped ++ ns).

(* a parsed pattern against a '/'-separated name *)
Definition Matches (cs : list comp) (name : str) : Prop := PathM cs (split_slash name).

Lemma is_slash_true c : is_slash c = true <-> c = ch_slash.
Proof. unfold is_slash. apply Ascii.eqb_eq. Qed.

Lemma is_slash_false c : is_slash c = false <-> c <> ch_slash.
Proof. unfold is_slash. apply Ascii.eqb_neq. Qed.

Lemma in_items_spec c items : in_items c items = true <-> InItems c items.
Proof.
  unfold in_items, InItems. rewrite existsb_exists. split.
  - intros ([lo hi] & Hin & H). apply andb_prop in H. destruct H as [H1 H2].
    unfold ascii_leb in *. cbn [fst snd] in *.
    apply Nat.leb_le in H1. apply Nat.leb_le in H2. exists lo, hi. auto.
  - intros (lo & hi & Hin & H1 & H2). exists (lo, hi). split; [exact Hin|].
    unfold ascii_leb. cbn [fst snd]. apply andb_true_intro.
    split; apply Nat.leb_le; assumption.
Qed.

Lemma atom1_spec a c : atom1 true a c = true <-> AtomM a c.
Proof.
  split.
  - destruct a as [x| | |neg items]; cbn [atom1]; intros H.
    + apply andb_prop in H. destruct H as [He Hs].
      apply Ascii.eqb_eq in He. subst x. apply negb_true_iff in Hs.
      constructor. apply is_slash_false. exact Hs.
    + apply negb_true_iff in H. constructor. apply is_slash_false. exact H.
    + discriminate.
    + cbn [negb orb] in H. apply andb_prop in H. destruct H as [Hs Hx].
      apply negb_true_iff in Hs. apply is_slash_false in Hs.
      destruct neg; cbn [xorb] in Hx.
      * constructor; [exact Hs|]. intros Hi. apply in_items_spec in Hi.
        rewrite Hi in Hx. discriminate.
      * constructor; [exact Hs|]. apply in_items_spec.
        destruct (in_items c items); [reflexivity|discriminate].
  - intros H. destruct H as [c Hs|c Hs|items c Hs Hi|items c Hs Hi]; cbn [atom1 negb orb].
    + rewrite Ascii.eqb_refl. apply is_slash_false in Hs. rewrite Hs. reflexivity.
    + apply is_slash_false in Hs. rewrite Hs. reflexivity.
    + apply is_slash_false in Hs. rewrite Hs. apply in_items_spec in Hi. rewrite Hi. reflexivity.
    + apply is_slash_false in Hs. rewrite Hs.
      destruct (in_items c items) eqn:E; [|reflexivity].
      exfalso. apply Hi. apply in_items_spec. exact E.
Qed.

Lemma atomM_not_star c : ~ AtomM AStar c.
Proof. intros H. inversion H. Qed.

(* the continuation form of '*' *)
Lemma star_k_spec (k : str -> bool) s :
  star_k k s = true <->
  exists t s', s = t ++ s' /\ (forall c, In c t -> c <> ch_slash) /\ k s' = true.
Proof.
  induction s as [|c s IH]; cbn [star_k].
  - rewrite orb_false_r. split.
    + intros H. exists [], []. repeat split; auto; intros ? [].
    + intros (t & s' & He & _ & Hk). symmetry in He. apply app_eq_nil in He.
      destruct He as [_ ->]. exact Hk.
  - split.
    + intros H. apply orb_prop in H. destruct H as [H|H].
      * exists [], (c :: s). repeat split; auto; intros ? [].
      * apply andb_prop in H. destruct H as [Hs H]. apply IH in H.
        destruct H as (t & s' & -> & Ht & Hk). exists (c :: t), s'.
        repeat split; auto. intros x [<-|Hx]; [|auto].
        apply negb_true_iff in Hs. apply is_slash_false. exact Hs.
    + intros (t & s' & He & Ht & Hk). destruct t as [|x t]; cbn [app] in He.
      * subst s'. rewrite Hk. reflexivity.
      * injection He as <- ->. apply orb_true_intro. right. apply andb_true_intro. split.
        -- apply negb_true_iff. apply is_slash_false. apply Ht. left. reflexivity.
        -- apply IH. exists t, s'. repeat split; auto. intros y Hy. apply Ht. right. exact Hy.
Qed.

Lemma seg_match_spec atoms : forall s, seg_match true atoms s = true <-> SegM atoms s.
Proof.
  induction atoms as [|a rest IH]; intros s.
  - cbn [seg_match]. destruct s; cbn [null]; split; intros H;
      try constructor; try discriminate; inversion H.
  - destruct a as [x| | |neg items].
    1,2,4: cbn [seg_match]; destruct s as [|c s];
      [split; [discriminate|intros H; inversion H]|];
      split;
      [intros H; apply andb_prop in H; destruct H as [H1 H2];
       constructor; [apply atom1_spec; exact H1|apply IH; exact H2]
      |intros H; inversion H; subst; apply andb_true_intro; split;
       [apply atom1_spec; assumption|apply IH; assumption]].
    cbn [seg_match]. rewrite star_k_spec. split.
    + intros (t & s' & -> & Ht & Hk). apply SegM_star; [exact Ht|apply IH; exact Hk].
    + intros H. inversion H; subst.
      * exfalso. eapply atomM_not_star. eassumption.
      * exists t, s0. repeat split; auto. apply IH. assumption.
Qed.

(* the continuation form of "**" *)
Lemma skip_k_spec (k : list str -> bool) ns :
  skip_k k ns = true <-> exists skipped rest, ns = skipped ++ rest /\ k rest = true.
Proof.
  induction ns as [|n ns IH]; cbn [skip_k].
  - rewrite orb_false_r. split.
    + intros H. exists [], []. auto.
    + intros (sk & rest & He & Hk). symmetry in He. apply app_eq_nil in He.
      destruct He as [_ ->]. exact Hk.
  - split.
    + intros H. apply orb_prop in H. destruct H as [H|H].
      * exists [], (n :: ns). auto.
      * apply IH in H. destruct H as (sk & rest & -> & Hk). exists (n :: sk), rest. auto.
    + intros (sk & rest & He & Hk). destruct sk as [|x sk]; cbn [app] in He.
      * subst rest. rewrite Hk. reflexivity.
      * injection He as <- ->. apply orb_true_intro. right. apply IH. exists sk, rest. auto.
Qed.

(* in the strict reading a component consumes exactly one name component *)
Lemma take_k_strict seg k ns :
  take_k true seg k [] ns = match ns with [] => false | n :: ns' => seg n && k ns' end.
Proof. destruct ns as [|n ns']; cbn [take_k negb andb app]; [reflexivity|]. apply orb_false_r. Qed.

Lemma path_match_spec cs : forall ns, path_match true cs ns = true <-> PathM cs ns.
Proof.
  induction cs as [|c cs IH]; intros ns.
  - cbn [path_match]. destruct ns; cbn [null]; split; intros H;
      try constructor; try discriminate; inversion H.
  - destruct c as [|atoms]; cbn [path_match].
    + rewrite skip_k_spec. split.
      * intros (sk & rest & -> & Hk). apply PathM_dbl. apply IH. exact Hk.
      * intros H. inversion H; subst. exists skipped, ns0. split; [reflexivity|].
        apply IH. assumption.
    + rewrite take_k_strict. destruct ns as [|n ns'].
      * split; [discriminate|intros H; inversion H].
      * split.
        -- intros H. apply andb_prop in H. destruct H as [H1 H2].
           constructor; [apply seg_match_spec; exact H1|apply IH; exact H2].
        -- intros H. inversion H; subst. apply andb_true_intro. split;
             [apply seg_match_spec; assumption|apply IH; assumption].
Qed.

Theorem glob_sound_complete cs name :
  glob_match true cs name = true <-> Matches cs name.
Proof. unfold glob_match, Matches. apply path_match_spec. Qed.

(* the documented meaning never lets a component's atoms match a separator *)
Lemma SegM_no_slash atoms s : SegM atoms s -> forall c, In c s -> c <> ch_slash.
Proof.
  induction 1 as [|a rest c s Ha _ IH|rest t s Ht _ IH]; intros x Hx.
  - destruct Hx.
  - destruct Hx as [<-|Hx]; [|auto]. inversion Ha; assumption.
  - apply in_app_or in Hx. destruct Hx; auto.
Qed.

(* ====================================================================== *)
(* 3. doublestar's reading coincides with the documented one on patterns   *)
(*    without a class that admits '/'.                                     *)
(* ====================================================================== *)
Lemma atom1_agree a c :
  class_admits_slash a = false -> atom1 false a c = atom1 true a c.
Proof.
  destruct a as [x| | |neg items]; cbn [atom1 class_admits_slash negb orb]; try reflexivity.
  intros H. destruct (is_slash c) eqn:Hs; cbn [negb andb]; [|reflexivity].
  apply is_slash_true in Hs. subst c. rewrite H. reflexivity.
Qed.

Lemma star_k_ext (k k' : str -> bool) :
  (forall s, k s = k' s) -> forall s, star_k k s = star_k k' s.
Proof. intros H s. induction s as [|c s IH]; cbn [star_k]; rewrite H; [reflexivity|]. rewrite IH. reflexivity. Qed.

Lemma seg_match_agree atoms :
  existsb class_admits_slash atoms = false ->
  forall s, seg_match false atoms s = seg_match true atoms s.
Proof.
  induction atoms as [|a rest IH]; intros H s; [reflexivity|].
  cbn [existsb] in H. apply orb_false_elim in H. destruct H as [Ha Hr].
  specialize (IH Hr).
  destruct a as [x| | |neg items]; cbn [seg_match].
  1,2,4: destruct s as [|c s]; [reflexivity|]; rewrite (atom1_agree _ c Ha), IH; reflexivity.
  apply star_k_ext. exact IH.
Qed.

Lemma seg_match_true_no_slash atoms s :
  seg_match true atoms s = true -> existsb is_slash s = false.
Proof.
  intros H. apply seg_match_spec in H. pose proof (SegM_no_slash _ _ H) as Hn.
  destruct (existsb is_slash s) eqn:E; [|reflexivity].
  apply existsb_exists in E. destruct E as (c & Hc & Hs). apply is_slash_true in Hs.
  exfalso. exact (Hn c Hc Hs).
Qed.

Lemma existsb_app_slash (a b : str) :
  existsb is_slash (a ++ b) = existsb is_slash a || existsb is_slash b.
Proof. apply existsb_app. Qed.

(* once something containing '/' has been accumulated, joining on is futile *)
Lemma take_k_dead atoms (k : list str -> bool) :
  existsb class_admits_slash atoms = false ->
  forall ns acc, existsb is_slash acc = true ->
    take_k false (seg_match false atoms) k acc ns = false.
Proof.
  intros Ha. induction ns as [|n ns IH]; intros acc Hacc; [reflexivity|].
  cbn [take_k negb andb].
  rewrite IH.
  - rewrite orb_false_r. rewrite (seg_match_agree _ Ha).
    destruct (seg_match true atoms (acc ++ n)) eqn:E; [|reflexivity].
    apply seg_match_true_no_slash in E. rewrite existsb_app_slash, Hacc in E. discriminate.
  - rewrite !existsb_app_slash, Hacc. reflexivity.
Qed.

Lemma skip_k_ext (k k' : list str -> bool) :
  (forall ns, k ns = k' ns) -> forall ns, skip_k k ns = skip_k k' ns.
Proof. intros H ns. induction ns as [|n ns IH]; cbn [skip_k]; rewrite H; [reflexivity|]. rewrite IH. reflexivity. Qed.

Lemma path_match_agree cs :
  existsb comp_admits_slash cs = false ->
  forall ns, path_match false cs ns = path_match true cs ns.
Proof.
  induction cs as [|c cs IH]; intros H ns; [reflexivity|].
  cbn [existsb] in H. apply orb_false_elim in H. destruct H as [Hc Hr].
  specialize (IH Hr).
  destruct c as [|atoms]; cbn [path_match].
  - apply skip_k_ext. exact IH.
  - cbn [comp_admits_slash] in Hc. rewrite take_k_strict.
    destruct ns as [|n ns']; [reflexivity|].
    cbn [take_k negb andb app].
    rewrite (take_k_dead atoms _ Hc).
    + rewrite orb_false_r, (seg_match_agree _ Hc), IH. reflexivity.
    + rewrite existsb_app_slash. cbn [existsb]. unfold is_slash at 2.
      rewrite Ascii.eqb_refl. apply orb_true_r.
Qed.

Lemma glob_match_agree cs name :
  existsb comp_admits_slash cs = false -> glob_match false cs name = glob_match true cs name.
Proof. intros H. unfold glob_match. apply path_match_agree. exact H. Qed.

(* ====================================================================== *)
(* 4. Pattern parsing: negation, anchoring, directory-only, leaf flag.     *)
(* ====================================================================== *)

(* a pattern body in clean form: non-empty components that are not ".", ".."
   and contain no '/' *)
Definition good_comp (c : str) : bool :=
  negb (null c) && negb (str_eqb c s_dot) && negb (str_eqb c s_dotdot)
  && negb (existsb is_slash c).

Definition good_body (cs : list str) : Prop := cs <> [] /\ forallb good_comp cs = true.

Lemma good_comp_parts c :
  good_comp c = true ->
  c <> [] /\ str_eqb c s_dot = false /\ str_eqb c s_dotdot = false /\ existsb is_slash c = false.
Proof.
  unfold good_comp. intros H.
  apply andb_prop in H. destruct H as [H H4].
  apply andb_prop in H. destruct H as [H H3].
  apply andb_prop in H. destruct H as [H1 H2].
  apply negb_true_iff in H1, H2, H3, H4. repeat split; auto.
  intros ->. discriminate.
Qed.

Lemma split_noslash x : existsb is_slash x = false -> split_slash x = [x].
Proof.
  induction x as [|c x IH]; [reflexivity|]. cbn [existsb split_slash]. intros H.
  apply orb_false_elim in H. destruct H as [Hc Hx]. rewrite Hc, (IH Hx). reflexivity.
Qed.

Lemma split_app_slash x s :
  existsb is_slash x = false -> split_slash (x ++ ch_slash :: s) = x :: split_slash s.
Proof.
  induction x as [|c x IH]; intros H.
  - cbn [app split_slash]. unfold is_slash at 1. rewrite Ascii.eqb_refl. reflexivity.
  - cbn [existsb] in H. apply orb_false_elim in H. destruct H as [Hc Hx].
    cbn [app split_slash]. rewrite Hc, (IH Hx). reflexivity.
Qed.

Lemma split_join cs :
  cs <> [] -> (forall c, In c cs -> existsb is_slash c = false) ->
  split_slash (join_slash cs) = cs.
Proof.
  induction cs as [|x r IH]; intros Hne Hall; [congruence|].
  destruct r as [|y r].
  - cbn [join_slash]. apply split_noslash. apply Hall. left. reflexivity.
  - change (join_slash (x :: y :: r)) with (x ++ ch_slash :: join_slash (y :: r)).
    rewrite split_app_slash by (apply Hall; left; reflexivity).
    rewrite IH; [reflexivity|discriminate|]. intros c Hc. apply Hall. right. exact Hc.
Qed.

Lemma join_head cs c x r :
  cs = (c :: x) :: r -> exists t, join_slash cs = c :: t.
Proof. intros ->. destruct r; cbn [join_slash app]; eexists; reflexivity. Qed.

Lemma good_all_noslash cs :
  forallb good_comp cs = true -> forall c, In c cs -> existsb is_slash c = false.
Proof.
  intros H c Hc. rewrite forallb_forall in H. specialize (H c Hc). apply good_comp_parts in H. tauto.
Qed.

Lemma clean_step_good rooted stack c :
  good_comp c = true -> clean_step rooted stack c = c :: stack.
Proof.
  intros H. apply good_comp_parts in H. destruct H as (Hne & Hd & Hdd & _).
  unfold clean_step. destruct c; [congruence|]. cbn [null orb]. rewrite Hd, Hdd. reflexivity.
Qed.

Lemma clean_fold_good rooted cs :
  forallb good_comp cs = true ->
  forall stack, fold_left (clean_step rooted) cs stack = rev cs ++ stack.
Proof.
  induction cs as [|c cs IH]; intros H stack; [reflexivity|].
  cbn [forallb] in H. apply andb_prop in H. destruct H as [Hc Hr].
  cbn [fold_left rev]. rewrite (clean_step_good _ _ _ Hc), (IH Hr), <- app_assoc. reflexivity.
Qed.

Lemma good_first_char cs :
  good_body cs -> exists c t, join_slash cs = c :: t /\ is_slash c = false.
Proof.
  intros [Hne Hg]. destruct cs as [|x r]; [congruence|].
  cbn [forallb] in Hg. apply andb_prop in Hg. destruct Hg as [Hx _].
  apply good_comp_parts in Hx. destruct Hx as (Hxne & _ & _ & Hns).
  destruct x as [|c x]; [congruence|].
  destruct (join_head ((c :: x) :: r) c x r eq_refl) as [t Ht].
  exists c, t. split; [exact Ht|]. cbn [existsb] in Hns. apply orb_false_elim in Hns. tauto.
Qed.

Lemma clean_good cs : good_body cs -> clean (join_slash cs) = join_slash cs.
Proof.
  intros Hg. pose proof Hg as [Hne Hall].
  destruct (good_first_char cs Hg) as (c & t & Hj & Hc).
  assert (Hr : match join_slash cs with c0 :: _ => is_slash c0 | [] => false end = false)
    by (rewrite Hj; exact Hc).
  unfold clean. rewrite split_join by (try discriminate; try assumption; apply good_all_noslash; assumption).
  rewrite Hr.
  rewrite (clean_fold_good false cs Hall), app_nil_r, rev_involutive.
  cbn [app]. rewrite Hj. reflexivity.
Qed.

Lemma last_app_single {A} (l : list A) x d : last (l ++ [x]) d = x.
Proof. induction l as [|a l IH]; [reflexivity|]. cbn [app]. destruct (l ++ [x]) eqn:E; [destruct l; discriminate|]. cbn [last]. exact IH. Qed.

Lemma removelast_app_single {A} (l : list A) x : removelast (l ++ [x]) = l.
Proof. rewrite removelast_app by discriminate. cbn. apply app_nil_r. Qed.

(* the last character of a clean body is not a separator *)
Lemma good_last_char cs : good_body cs -> is_slash (last (join_slash cs) ch_dot) = false.
Proof.
  intros [Hne Hg]. induction cs as [|x r IH]; [congruence|].
  cbn [forallb] in Hg. apply andb_prop in Hg. destruct Hg as [Hx Hr].
  destruct r as [|y r].
  - cbn [join_slash]. apply good_comp_parts in Hx. destruct Hx as (Hxne & _ & _ & Hns).
    destruct (exists_last Hxne) as (l & z & ->). rewrite last_app_single.
    rewrite existsb_app in Hns. apply orb_false_elim in Hns. destruct Hns as [_ Hz].
    cbn [existsb] in Hz. apply orb_false_elim in Hz. tauto.
  - change (join_slash (x :: y :: r)) with (x ++ ch_slash :: join_slash (y :: r)).
    assert (Hj : join_slash (y :: r) <> []).
    { destruct (good_first_char (y :: r)) as (c & t & -> & _); [split; [discriminate|exact Hr]|discriminate]. }
    specialize (IH ltac:(discriminate) Hr).
    revert IH. generalize (join_slash (y :: r)) Hj. intros j Hj' IH.
    destruct (exists_last Hj') as (l & z & ->).
    rewrite last_app_single in IH.
    replace (x ++ ch_slash :: l ++ [z]) with ((x ++ ch_slash :: l) ++ [z])
      by (rewrite <- app_assoc; reflexivity).
    rewrite last_app_single. exact IH.
Qed.

Lemma clean_keep_good cs : good_body cs -> clean_keep_slash (join_slash cs) = join_slash cs.
Proof.
  intros Hg. unfold clean_keep_slash. rewrite (good_last_char cs Hg), andb_false_r.
  apply clean_good. exact Hg.
Qed.

Lemma has_slash_join cs :
  good_body cs ->
  existsb is_slash (join_slash cs) = match cs with _ :: _ :: _ => true | _ => false end.
Proof.
  intros [Hne Hg]. destruct cs as [|x r]; [congruence|]. destruct r as [|y r].
  - cbn [join_slash]. apply (good_all_noslash _ Hg). left. reflexivity.
  - change (join_slash (x :: y :: r)) with (x ++ ch_slash :: join_slash (y :: r)).
    rewrite existsb_app. cbn [existsb]. unfold is_slash at 2. rewrite Ascii.eqb_refl.
    rewrite orb_true_r. reflexivity.
Qed.

Lemma str_eqb_false_len (a b : str) : List.length a <> List.length b -> str_eqb a b = false.
Proof.
  revert b. induction a as [|x a IH]; intros [|y b] H; cbn [str_eqb]; try reflexivity.
  - cbn in H. congruence.
  - cbn [List.length] in H. rewrite IH by lia. apply andb_false_r.
Qed.

(* (a) a clean body without leading or trailing '/' *)
Lemma parse_body_plain neg cs g :
  good_body cs -> parse_glob (join_slash cs) = Some g ->
  parse_body neg (join_slash cs)
  = Some {| negated := neg; dir_only := false;
            match_leaf := match cs with _ :: _ :: _ => false | _ => true end;
            text := join_slash cs; comps := g |}.
Proof.
  intros Hg Hp. unfold parse_body. rewrite (clean_keep_good cs Hg).
  destruct (good_first_char cs Hg) as (c & t & Hj & Hc).
  pose proof (good_last_char cs Hg) as Hl. pose proof (has_slash_join cs Hg) as Hs.
  revert Hp Hl Hs. rewrite Hj. intros Hp Hl Hs.
  assert (E1 : str_eqb (c :: t) [ch_slash] = false).
  { cbn [str_eqb]. unfold is_slash in Hc. rewrite Hc. reflexivity. }
  assert (E2 : str_eqb (c :: t) [ch_slash; ch_slash] = false).
  { cbn [str_eqb]. unfold is_slash in Hc. rewrite Hc. reflexivity. }
  rewrite E1, E2, Hc. cbn [null]. rewrite Hl. cbn [null]. rewrite Hp, Hs.
  destruct cs as [|x [|y r]]; reflexivity.
Qed.

(* (b) a leading '/' anchors the pattern: no leaf matching *)
Lemma parse_body_anchored neg cs g :
  good_body cs -> parse_glob (join_slash cs) = Some g ->
  parse_body neg (ch_slash :: join_slash cs)
  = Some {| negated := neg; dir_only := false; match_leaf := false;
            text := join_slash cs; comps := g |}.
Proof.
  intros Hg Hp. pose proof Hg as [Hne Hall].
  destruct (good_first_char cs Hg) as (c & t & Hj & Hc).
  pose proof (good_last_char cs Hg) as Hl.
  assert (Hck : clean_keep_slash (ch_slash :: join_slash cs) = ch_slash :: join_slash cs).
  { unfold clean_keep_slash.
    assert (Hlast : last (ch_slash :: join_slash cs) ch_dot = last (join_slash cs) ch_dot).
    { rewrite Hj. reflexivity. }
    rewrite Hlast, Hl, andb_false_r.
    unfold clean.
    change (split_slash (ch_slash :: join_slash cs)) with ([] :: split_slash (join_slash cs)).
    change (match ch_slash :: join_slash cs with c0 :: _ => is_slash c0 | [] => false end) with true.
    rewrite split_join by (try discriminate; try assumption; apply good_all_noslash; assumption).
    cbn [fold_left]. change (clean_step true [] []) with (@nil str).
    rewrite (clean_fold_good true cs Hall), app_nil_r, rev_involutive. reflexivity. }
  unfold parse_body. rewrite Hck.
  revert Hp Hl. rewrite Hj. intros Hp Hl.
  assert (E1 : str_eqb (ch_slash :: c :: t) [ch_slash] = false).
  { apply str_eqb_false_len. cbn. lia. }
  assert (E2 : str_eqb (ch_slash :: c :: t) [ch_slash; ch_slash] = false).
  { cbn [str_eqb]. rewrite Ascii.eqb_refl. unfold is_slash in Hc. rewrite Hc. reflexivity. }
  rewrite E1, E2. assert (Hss : is_slash ch_slash = true) by reflexivity.
  rewrite !Hss. cbn [tl null negb andb].
  rewrite !Hl. cbn [null]. rewrite Hp. reflexivity.
Qed.

Lemma split_nonempty x : split_slash x <> [].
Proof.
  destruct x as [|c x]; cbn [split_slash]; [discriminate|].
  destruct (is_slash c); [discriminate|]. destruct (split_slash x); discriminate.
Qed.

Lemma split_app_trailing x :
  forall s, s = x -> split_slash (x ++ [ch_slash]) = split_slash x ++ [[]].
Proof.
  intros _ _. induction x as [|c x IH].
  - cbn. reflexivity.
  - cbn [app split_slash]. destruct (is_slash c).
    + rewrite IH. reflexivity.
    + rewrite IH. pose proof (split_nonempty x) as Hn.
      destruct (split_slash x); [congruence|reflexivity].
Qed.

(* (c) a trailing '/' restricts the pattern to directories *)
Lemma parse_body_dironly neg cs g :
  good_body cs -> parse_glob (join_slash cs) = Some g ->
  parse_body neg (join_slash cs ++ [ch_slash])
  = Some {| negated := neg; dir_only := true;
            match_leaf := match cs with _ :: _ :: _ => false | _ => true end;
            text := join_slash cs; comps := g |}.
Proof.
  intros Hg Hp. pose proof Hg as [Hne Hall].
  destruct (good_first_char cs Hg) as (c & t & Hj & Hc).
  pose proof (has_slash_join cs Hg) as Hs.
  assert (Hck : clean_keep_slash (join_slash cs ++ [ch_slash]) = join_slash cs ++ [ch_slash]).
  { unfold clean_keep_slash. rewrite last_app_single.
    unfold is_slash at 1. rewrite Ascii.eqb_refl.
    assert (Hlen : Nat.ltb 1 (List.length (join_slash cs ++ [ch_slash])) = true).
    { apply Nat.ltb_lt. rewrite app_length, Hj. cbn [List.length]. lia. }
    rewrite Hlen. cbn [andb]. f_equal.
    unfold clean. rewrite (split_app_trailing _ _ eq_refl).
    rewrite split_join by (try discriminate; try assumption; apply good_all_noslash; assumption).
    assert (Hr : match join_slash cs ++ [ch_slash] with c0 :: _ => is_slash c0 | [] => false end = false)
      by (rewrite Hj; exact Hc).
    rewrite Hr.
    rewrite fold_left_app. cbn [fold_left]. rewrite (clean_fold_good false cs Hall), app_nil_r.
    unfold clean_step. cbn [null orb]. rewrite rev_involutive. cbn [app].
    rewrite Hj. reflexivity. }
  unfold parse_body. rewrite Hck.
  assert (E1 : str_eqb (join_slash cs ++ [ch_slash]) [ch_slash] = false).
  { apply str_eqb_false_len. rewrite app_length, Hj. cbn. lia. }
  assert (E2 : str_eqb (join_slash cs ++ [ch_slash]) [ch_slash; ch_slash] = false).
  { rewrite Hj. cbn [app str_eqb]. unfold is_slash in Hc. rewrite Hc. reflexivity. }
  rewrite E1, E2.
  assert (Habs : match join_slash cs ++ [ch_slash] with c0 :: _ => is_slash c0 | [] => false end = false).
  { rewrite Hj. cbn [app]. exact Hc. }
  rewrite Habs.
  assert (Hn1 : null (join_slash cs ++ [ch_slash]) = false) by (rewrite Hj; reflexivity).
  assert (Hss : is_slash ch_slash = true) by reflexivity.
  rewrite Hn1, !last_app_single, !Hss.
  rewrite !removelast_app_single.
  assert (Hn2 : null (join_slash cs) = false) by (rewrite Hj; reflexivity).
  rewrite Hn2, Hp, Hs. destruct cs as [|x [|y r]]; reflexivity.
Qed.

(* (d) a leading '!' only negates *)
Definition negate (p : ipat) : ipat :=
  {| negated := true; dir_only := dir_only p; match_leaf := match_leaf p;
     text := text p; comps := comps p |}.

Lemma parse_body_negate body : parse_body true body = option_map negate (parse_body false body).
Proof.
  unfold parse_body.
  repeat match goal with
         | |- context [if ?b then _ else _] => destruct b; try reflexivity
         | |- context [match parse_glob ?x with _ => _ end] => destruct (parse_glob x); try reflexivity
         end.
Qed.

Lemma parse_pattern_negated c x :
  Ascii.eqb c ch_bang = false ->
  parse_pattern (ch_bang :: c :: x) = option_map negate (parse_pattern (c :: x))
  /\ (forall p, parse_pattern (c :: x) = Some p -> negated p = false).
Proof.
  intros Hc. unfold parse_pattern. rewrite Ascii.eqb_refl, Hc. cbn [null]. split.
  - apply parse_body_negate.
  - intros p. unfold parse_body.
    repeat match goal with
           | |- context [if ?b then _ else _] => destruct b; try discriminate
           | |- context [match parse_glob ?y with _ => _ end] => destruct (parse_glob y); try discriminate
           end; intros [= <-]; reflexivity.
Qed.

(* an unnegated raw pattern goes to parse_body unchanged *)
Lemma parse_pattern_plain c x :
  Ascii.eqb c ch_bang = false -> parse_pattern (c :: x) = parse_body false (c :: x).
Proof. intros Hc. unfold parse_pattern. rewrite Hc. reflexivity. Qed.

(* ---------- what the flags mean for matching ---------- *)
Lemma pat_matches_unfold strict p path dir :
  pat_matches strict p path dir
  = (negb (dir_only p) || dir)
    && (glob_match strict (comps p) path
        || (match_leaf p && negb (null path)
            && path_match strict (comps p) [last (split_slash path) []])).
Proof.
  unfold pat_matches. destruct (dir_only p), dir; cbn [negb andb orb];
    destruct (glob_match strict (comps p) path); cbn [orb]; try reflexivity;
    destruct (match_leaf p && negb (null path)); reflexivity.
Qed.

Lemma pat_matches_dironly_file strict p path :
  dir_only p = true -> pat_matches strict p path false = false.
Proof. intros H. unfold pat_matches. rewrite H. reflexivity. Qed.

Lemma pat_matches_anchored strict p path dir :
  match_leaf p = false ->
  pat_matches strict p path dir = (negb (dir_only p) || dir) && glob_match strict (comps p) path.
Proof. intros H. rewrite pat_matches_unfold, H. cbn [andb]. rewrite orb_false_r. reflexivity. Qed.

Lemma pat_matches_leaf strict p path dir :
  match_leaf p = true -> path <> [] ->
  pat_matches strict p path dir
  = (negb (dir_only p) || dir)
    && (glob_match strict (comps p) path
        || glob_match strict (comps p) (last (split_slash path) [])).
Proof.
  intros H Hne. rewrite pat_matches_unfold, H. destruct path as [|c path]; [congruence|].
  cbn [null negb andb]. unfold glob_match at 3.
  assert (Hns : existsb is_slash (last (split_slash (c :: path)) []) = false).
  { generalize (c :: path). intros s. induction s as [|a s IH]; [reflexivity|].
    cbn [split_slash]. destruct (is_slash a) eqn:Ha.
    - destruct (split_slash s) eqn:E; [destruct s; cbn in E; try discriminate;
        destruct (is_slash a0); destruct (split_slash s); discriminate|]. exact IH.
    - destruct (split_slash s) as [|h r] eqn:E.
      + cbn. rewrite Ha. reflexivity.
      + destruct r as [|h' r'].
        * cbn [last] in *. cbn [existsb]. rewrite Ha, IH. reflexivity.
        * cbn [last] in *. exact IH. }
  rewrite (split_noslash _ Hns). reflexivity.
Qed.

(* ====================================================================== *)
(* 5. The ignorer as a whole.                                              *)
(* ====================================================================== *)

(* ignorePattern.matches as a proposition over the documented glob meaning *)
Definition PatMatches (p : ipat) (path : str) (dir : bool) : Prop :=
  (dir_only p = true -> dir = true)
  /\ (Matches (comps p) path
      \/ (match_leaf p = true /\ path <> []
          /\ PathM (comps p) [last (split_slash path) []])).

Lemma pat_matches_iff p path dir : pat_matches true p path dir = true <-> PatMatches p path dir.
Proof.
  rewrite pat_matches_unfold. unfold PatMatches. split.
  - intros H. apply andb_prop in H. destruct H as [Hd Hm]. split.
    + intros Hdo. rewrite Hdo in Hd. exact Hd.
    + apply orb_prop in Hm. destruct Hm as [Hm|Hm].
      * left. apply glob_sound_complete. exact Hm.
      * right. apply andb_prop in Hm. destruct Hm as [Hm Hp].
        apply andb_prop in Hm. destruct Hm as [Hl Hn]. repeat split.
        -- exact Hl.
        -- intros ->. discriminate.
        -- apply path_match_spec. exact Hp.
  - intros [Hd Hm]. apply andb_true_intro. split.
    + destruct (dir_only p); [rewrite Hd by reflexivity; reflexivity|reflexivity].
    + destruct Hm as [Hm|(Hl & Hn & Hp)].
      * apply glob_sound_complete in Hm. rewrite Hm. reflexivity.
      * apply path_match_spec in Hp. rewrite Hl, Hp. destruct path; [congruence|].
        cbn. apply orb_true_r.
Qed.

Lemma last_match_ext {P} (m m' : P -> bool) pats :
  (forall p, In p pats -> m p = m' p) -> last_match m pats = last_match m' pats.
Proof.
  induction pats as [|p t IH]; intros H; [reflexivity|]. cbn [last_match].
  rewrite IH by (intros q Hq; apply H; right; exact Hq).
  rewrite (H p (or_introl eq_refl)). reflexivity.
Qed.

Lemma pat_matches_agree p path dir :
  existsb comp_admits_slash (comps p) = false ->
  pat_matches false p path dir = pat_matches true p path dir.
Proof.
  intros H. unfold pat_matches. rewrite (glob_match_agree _ _ H), (path_match_agree _ H). reflexivity.
Qed.

(* Ignorer.Ignore: last match wins (either reading of the glob language) *)
Lemma ignore_last_match strict pats path dir :
  ignore strict pats path dir
  = (last_match_status negated (fun p => pat_matches strict p path dir) pats, false).
Proof. unfold ignore. rewrite run_loop_last_match. reflexivity. Qed.

(* outside the known class the implementation's reading is the documented one *)
Lemma ignore_agree pats path dir :
  known_C14 pats = false -> ignore false pats path dir = ignore true pats path dir.
Proof.
  intros Hk. rewrite !ignore_last_match. unfold last_match_status. f_equal. f_equal.
  apply last_match_ext. intros p Hp. apply pat_matches_agree.
  unfold known_C14 in Hk. destruct (existsb comp_admits_slash (comps p)) eqn:E; [|reflexivity].
  assert (existsb (fun p0 => existsb comp_admits_slash (comps p0)) pats = true)
    by (apply existsb_exists; exists p; split; assumption).
  congruence.
Qed.

Lemma mut_ignorer_agree vcs pats q dir :
  known_C14 pats = false -> mut_ignorer false vcs pats q dir = mut_ignorer true vcs pats q dir.
Proof.
  intros Hk. unfold mut_ignorer, vcs_wrap. destruct vcs.
  - destruct (dir && is_vcs_name (hd ""%string q)); [reflexivity|apply ignore_agree; exact Hk].
  - apply ignore_agree. exact Hk.
Qed.

(* Mutagen-style ignorers never ask the walk to continue below ignored content *)
Lemma mut_ignorer_no_continue strict vcs pats q dir : snd (mut_ignorer strict vcs pats q dir) = false.
Proof.
  unfold mut_ignorer, vcs_wrap, ignore. destruct vcs; [|reflexivity].
  destruct (dir && is_vcs_name (hd ""%string q)); reflexivity.
Qed.

(* the VCS wrapper prunes directories with a table name, whatever the patterns *)
Lemma vcs_prunes strict pats n rp :
  is_vcs_name n = true -> mut_ignorer strict true pats (n :: rp) true = (Ignored, false).
Proof. intros H. unfold mut_ignorer, vcs_wrap. cbn [hd andb]. rewrite H. reflexivity. Qed.

(* the checkers *)
Lemma status_eqb_eq a b : status_eqb a b = true <-> a = b.
Proof. destruct a, b; cbn; split; congruence. Qed.

Lemma check_ignore_sound pats path dir out :
  check_C14_ignore pats path dir out = true ->
  out = (last_match_status negated (fun p => pat_matches true p path dir) pats, false).
Proof.
  unfold check_C14_ignore, spec_status. intros H. apply andb_prop in H. destruct H as [H1 H2].
  apply status_eqb_eq in H1. apply negb_true_iff in H2. destruct out as [s c]. cbn [fst snd] in *.
  subst. reflexivity.
Qed.

Lemma check_ignore_model pats path dir :
  known_C14 pats = false -> check_C14_ignore pats path dir (ignore false pats path dir) = true.
Proof.
  intros Hk. rewrite (ignore_agree _ _ _ Hk), ignore_last_match. unfold check_C14_ignore, spec_status.
  cbn [fst snd negb]. rewrite andb_true_r. apply status_eqb_eq. reflexivity.
Qed.
