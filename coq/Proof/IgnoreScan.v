(* Lemmas about the walk of Model/IgnoreScan.v, for any ignorer (C14, C15). *)
From Coq Require Import List Bool Arith String Ascii Lia.
Import ListNotations.
From Mv Require Import Model.Entry Model.IgnoreScan.
Open Scope list_scope.

(* ---------- induction over filesystem trees ---------- *)
Section FnodeInd.
Variable Pn : fnode -> Prop.
Hypothesis Hdir : forall c, Forall (fun nc => Pn (snd nc)) c -> Pn (FDir c).
Hypothesis Hfile : forall d, Pn (FFile d).
Hypothesis Hlink : forall t, Pn (FLink t).
Hypothesis Hother : Pn FOther.
Hypothesis Hbad : Pn FBadName.

Fixpoint fnode_ind2 (f : fnode) : Pn f :=
  match f with
  | FDir c =>
    Hdir c ((fix go (l : list (name * fnode)) : Forall (fun nc => Pn (snd nc)) l :=
               match l with
               | [] => Forall_nil _
               | nc :: t => Forall_cons nc (fnode_ind2 (snd nc)) (go t)
               end) c)
  | FFile d => Hfile d
  | FLink t => Hlink t
  | FOther => Hother
  | FBadName => Hbad
  end.
End FnodeInd.

(* ---------- the children loop of scan_node as top-level functions ---------- *)
Definition scan_child (ign : ignorer) (rp : rpath) (mask : bool) (n : name) (ch : fnode)
  : entry * list event :=
  match ch with
  | FOther => (EUntracked, [])
  | FBadName => (bad_name_entry mask, [])
  | _ =>
    let q := n :: rp in
    let isdir := is_fdir ch in
    let '(st, cont) := ign q isdir in
    match decide st cont mask with
    | None => (EUntracked, [EvIgnore q isdir])
    | Some mask' =>
      let '(e, ev) := scan_node ign q mask' ch in (e, EvIgnore q isdir :: ev)
    end
  end.

Fixpoint scan_list (ign : ignorer) (rp : rpath) (mask : bool) (l : list (name * fnode))
  : list (name * entry) * list event :=
  match l with
  | [] => ([], [])
  | (n, ch) :: t =>
    let '(e, ev) := scan_child ign rp mask n ch in
    let '(es, evs) := scan_list ign rp mask t in
    ((n, e) :: es, ev ++ evs)
  end.

Lemma scan_node_dir ign rp mask c :
  scan_node ign rp mask (FDir c)
  = let '(es, evs) := scan_list ign rp mask c in
    (if mask then EPhantom es else EDir es, EvRead rp :: evs).
Proof.
  cbn [scan_node].
  match goal with |- (let '(_, _) := ?g c in _) = _ => assert (Hgo : forall l, g l = scan_list ign rp mask l) end.
  { induction l as [|[n ch] t IH]; [reflexivity|]. cbn [scan_list]. rewrite <- IH.
    unfold scan_child.
    match goal with |- (let '(_, _) := ?x in _) = _ => destruct x as [es evs] end.
    destruct ch; try reflexivity; cbn [is_fdir];
      match goal with |- context [ign ?q ?d] => destruct (ign q d) as [st cont] end;
      destruct (decide st cont mask); try reflexivity;
      match goal with |- context [scan_node ign ?q ?m ?ch] => destruct (scan_node ign q m ch) end;
      reflexivity. }
  rewrite Hgo. reflexivity.
Qed.

(* the three ways a child is handled *)
Lemma scan_child_spec ign rp mask n ch :
  let q := n :: rp in
  let d := is_fdir ch in
  (consulted_kind ch = false
   /\ scan_child ign rp mask n ch
      = (match ch with FBadName => bad_name_entry mask | _ => EUntracked end, []))
  \/ (consulted_kind ch = true /\ decide (fst (ign q d)) (snd (ign q d)) mask = None
      /\ scan_child ign rp mask n ch = (EUntracked, [EvIgnore q d]))
  \/ (consulted_kind ch = true /\ exists mask', decide (fst (ign q d)) (snd (ign q d)) mask = Some mask'
      /\ scan_child ign rp mask n ch
         = (fst (scan_node ign q mask' ch), EvIgnore q d :: snd (scan_node ign q mask' ch))).
Proof.
  intros q d. subst q d.
  destruct ch as [c|dg|t| |]; [| | |left; split; reflexivity|left; split; reflexivity]; right;
    unfold scan_child; cbn [is_fdir];
    match goal with |- context [ign ?q ?d] => destruct (ign q d) as [st cont] end; cbn [fst snd];
    (destruct (decide st cont mask) as [mask'|];
     [right; split; [reflexivity|]; exists mask'; split; [reflexivity|];
      match goal with |- context [scan_node ign ?q ?m ?ch] => destruct (scan_node ign q m ch) end; reflexivity
     |left; split; [reflexivity|]; split; reflexivity]).
Qed.

Fixpoint entries_list (rp : rpath) (l : list (name * entry)) : list (rpath * entry) :=
  match l with
  | [] => []
  | (n, x) :: t => ((n :: rp, x) :: entries (n :: rp) x) ++ entries_list rp t
  end.

Lemma entries_dir rp c : entries rp (EDir c) = entries_list rp c.
Proof.
  cbn [entries].
  match goal with |- ?g c = _ => assert (Hgo : forall l, g l = entries_list rp l) end.
  { induction l as [|[n x] t IH]; [reflexivity|]. cbn [entries_list]. rewrite <- IH. reflexivity. }
  apply Hgo.
Qed.

Lemma entries_phantom rp c : entries rp (EPhantom c) = entries_list rp c.
Proof.
  cbn [entries].
  match goal with |- ?g c = _ => assert (Hgo : forall l, g l = entries_list rp l) end.
  { induction l as [|[n x] t IH]; [reflexivity|]. cbn [entries_list]. rewrite <- IH. reflexivity. }
  apply Hgo.
Qed.

Fixpoint fnodes_list (rp : rpath) (l : list (name * fnode)) : list (rpath * fnode) :=
  match l with
  | [] => []
  | (n, x) :: t => ((n :: rp, x) :: fnodes (n :: rp) x) ++ fnodes_list rp t
  end.

Lemma fnodes_dir rp c : fnodes rp (FDir c) = fnodes_list rp c.
Proof.
  cbn [fnodes].
  match goal with |- ?g c = _ => assert (Hgo : forall l, g l = fnodes_list rp l) end.
  { induction l as [|[n x] t IH]; [reflexivity|]. cbn [fnodes_list]. rewrite <- IH. reflexivity. }
  apply Hgo.
Qed.

(* ---------- "strictly below" on reversed paths ---------- *)
Definition Below (rp q : rpath) : Prop := exists ext, ext <> [] /\ q = ext ++ rp.

Lemma Below_child rp n : Below rp (n :: rp).
Proof. exists [n]. split; [discriminate|reflexivity]. Qed.

Lemma Below_trans a b c : Below a b -> Below b c -> Below a c.
Proof.
  intros (e1 & H1 & ->) (e2 & H2 & ->). exists (e2 ++ e1). split.
  - destruct e2; [congruence|discriminate].
  - rewrite app_assoc. reflexivity.
Qed.

Lemma Below_irrefl a : ~ Below a a.
Proof.
  intros (e & He & H). assert (List.length a = List.length (e ++ a)) by (rewrite <- H; reflexivity).
  rewrite app_length in H0. destruct e; [congruence|cbn in H0; lia].
Qed.

(* a path below rp that is at or above something at or below the child n :: rp
   is itself the child or below the child *)
Lemma Below_split rp n q v :
  Below rp q -> (q = v \/ Below q v) -> (v = n :: rp \/ Below (n :: rp) v) ->
  q = n :: rp \/ Below (n :: rp) q.
Proof.
  intros (e1 & He1 & ->) Hqv Hv.
  assert (Hv' : exists e2, v = e2 ++ (n :: rp)).
  { destruct Hv as [->|(e & _ & ->)]; [exists []; reflexivity|exists e; reflexivity]. }
  destruct Hv' as (e2 & ->).
  assert (Hq' : exists e3, e2 ++ n :: rp = e3 ++ e1 ++ rp).
  { destruct Hqv as [H|(e & _ & H)]; [exists []; symmetry; exact H|exists e; exact H]. }
  destruct Hq' as (e3 & Heq).
  destruct (exists_last He1) as (e1' & x & ->).
  replace (e2 ++ n :: rp) with ((e2 ++ [n]) ++ rp) in Heq by (rewrite <- app_assoc; reflexivity).
  replace (e3 ++ (e1' ++ [x]) ++ rp) with ((e3 ++ e1' ++ [x]) ++ rp) in Heq
    by (rewrite <- !app_assoc; reflexivity).
  apply app_inv_tail in Heq.
  replace (e3 ++ e1' ++ [x]) with ((e3 ++ e1') ++ [x]) in Heq by (rewrite <- app_assoc; reflexivity).
  apply app_inj_tail in Heq. destruct Heq as [_ <-].
  rewrite <- app_assoc. cbn [app].
  destruct e1' as [|y e1']; [left; reflexivity|right].
  exists (y :: e1'). split; [discriminate|reflexivity].
Qed.

(* ---------- pruning ---------- *)
Section Pruning.
Variable ign : ignorer.

(* the ignorer says "ignored, do not continue" for q taken as a directory or
   not: the walk records an untracked entry and does not descend *)
Definition prunedb (q : rpath) (dir : bool) : bool :=
  status_eqb (fst (ign q dir)) Ignored && negb (snd (ign q dir)).

Lemma decide_some_not_pruned q dir mask mask' :
  decide (fst (ign q dir)) (snd (ign q dir)) mask = Some mask' -> prunedb q dir = false.
Proof.
  unfold prunedb, decide. destruct (fst (ign q dir)); cbn [status_eqb andb]; try reflexivity.
  destruct (snd (ign q dir)); cbn [negb]; [reflexivity|discriminate].
Qed.

Lemma pruned_decide_none q dir mask :
  prunedb q dir = true -> decide (fst (ign q dir)) (snd (ign q dir)) mask = None.
Proof.
  unfold prunedb, decide. destruct (fst (ign q dir)); cbn [status_eqb andb]; try discriminate.
  destruct (snd (ign q dir)); cbn [negb]; [discriminate|reflexivity].
Qed.

(* what is known about a path v that the walk touches, relative to the
   directory rp being walked: it belongs to the filesystem tree, the walk did
   not prune it, and no directory strictly between rp and v is pruned *)
Definition touched_ok (rp : rpath) (node : fnode) (v : rpath) : Prop :=
  (exists f, In (v, f) (fnodes rp node) /\ prunedb v (is_fdir f) = false)
  /\ (forall q, Below rp q -> Below q v -> prunedb q true = false).

Definition touched_list (rp : rpath) (c : list (name * fnode)) (v : rpath) : Prop :=
  (exists f, In (v, f) (fnodes_list rp c) /\ prunedb v (is_fdir f) = false)
  /\ (forall q, Below rp q -> Below q v -> prunedb q true = false).

Lemma touched_dir rp c v : touched_ok rp (FDir c) v <-> touched_list rp c v.
Proof. unfold touched_ok, touched_list. rewrite fnodes_dir. reflexivity. Qed.

Lemma fnodes_below g : forall rp v f, In (v, f) (fnodes rp g) -> Below rp v.
Proof.
  induction g as [c IH| | | |] using fnode_ind2; intros rp v f H; try (cbn in H; destruct H).
  rewrite fnodes_dir in H. induction c as [|[m x] tl IHl]; [destruct H|].
  inversion IH as [|? ? Hx Htl]; subst. cbn [fnodes_list] in H.
  destruct H as [[= <- <-]|H]; [apply Below_child|].
  apply in_app_or in H. destruct H as [H|H]; [|exact (IHl Htl H)].
  eapply Below_trans; [apply Below_child|]. exact (Hx _ _ _ H).
Qed.

(* lifting what is known below a child to the parent directory *)
Lemma touched_lift rp n ch tl v :
  prunedb (n :: rp) (is_fdir ch) = false ->
  (v = n :: rp \/ touched_ok (n :: rp) ch v) ->
  touched_list rp ((n, ch) :: tl) v.
Proof.
  intros Hdec [->|[(f & Hf & Hp) Hq]].
  - split.
    + exists ch. split; [left; reflexivity|exact Hdec].
    + intros q Hb1 Hb2. exfalso.
      destruct (Below_split rp n q (n :: rp) Hb1 (or_intror Hb2) (or_introl eq_refl)) as [->|Hb3].
      * exact (Below_irrefl _ Hb2).
      * exact (Below_irrefl _ (Below_trans _ _ _ Hb3 Hb2)).
  - pose proof (fnodes_below _ _ _ _ Hf) as Hbv.
    assert (Hd : is_fdir ch = true) by (destruct ch; try destruct Hf; reflexivity).
    split.
    + exists f. split; [|exact Hp]. cbn [fnodes_list]. right. apply in_or_app. left. exact Hf.
    + intros q Hb1 Hb2.
      destruct (Below_split rp n q v Hb1 (or_intror Hb2) (or_intror Hbv)) as [->|Hb3].
      * rewrite <- Hd. exact Hdec.
      * exact (Hq q Hb3 Hb2).
Qed.

Lemma touched_tail rp n ch tl v : touched_list rp tl v -> touched_list rp ((n, ch) :: tl) v.
Proof.
  intros [(f & Hf & Hp) Hq]. split; [|exact Hq]. exists f. split; [|exact Hp].
  cbn [fnodes_list]. apply in_or_app. right. exact Hf.
Qed.

(* every path the walk opens lies in the tree, was not pruned, and has no
   pruned directory above it *)
Lemma scan_reads_ok node :
  forall rp mask v,
    In (EvRead v) (snd (scan_node ign rp mask node)) -> v = rp \/ touched_ok rp node v.
Proof.
  induction node as [c IHc|d|t| |] using fnode_ind2; intros rp mask v Hin.
  2,3: cbn in Hin; destruct Hin as [[= <-]|[]]; left; reflexivity.
  2,3: destruct Hin.
  rewrite scan_node_dir in Hin.
  destruct (scan_list ign rp mask c) as [es evs] eqn:Hsl. cbn [snd] in Hin.
  destruct Hin as [[= <-]|Hin]; [left; reflexivity|right].
  apply touched_dir.
  revert es evs Hsl Hin. induction c as [|[n ch] tl IHl]; intros es evs Hsl Hin.
  - cbn in Hsl. injection Hsl as <- <-. destruct Hin.
  - inversion IHc as [|? ? Hch Htl]; subst. specialize (IHl Htl). cbn [snd] in Hch.
    cbn [scan_list] in Hsl.
    destruct (scan_child ign rp mask n ch) as [e ev] eqn:Hsc.
    destruct (scan_list ign rp mask tl) as [es' evs'] eqn:Hsl'.
    injection Hsl as <- <-. apply in_app_or in Hin. destruct Hin as [Hin|Hin].
    2: { apply touched_tail. exact (IHl es' evs' eq_refl Hin). }
    destruct (scan_child_spec ign rp mask n ch) as [[_ H]|[(_ & _ & H)|(_ & mask' & Hdec & H)]];
      rewrite Hsc in H; injection H as -> ->.
    + destruct Hin.
    + destruct Hin as [[=]|[]].
    + destruct Hin as [[=]|Hin].
      apply touched_lift; [exact (decide_some_not_pruned _ _ _ _ Hdec)|].
      exact (Hch _ _ _ Hin).
Qed.

(* the same for the entries of the snapshot; in addition a pruned path is
   recorded as untracked content *)
Lemma scan_entries_ok node :
  forall rp mask q e,
    In (q, e) (entries rp (fst (scan_node ign rp mask node))) ->
    (exists f, In (q, f) (fnodes rp node)
               /\ (consulted_kind f = true -> prunedb q (is_fdir f) = true -> e = EUntracked))
    /\ (forall a, Below rp a -> Below a q -> prunedb a true = false).
Proof.
  induction node as [c IHc|d|t| |] using fnode_ind2; intros rp mask q e Hin;
    try (cbn in Hin; destruct Hin); try (destruct mask; cbn in Hin; destruct Hin).
  rewrite scan_node_dir in Hin. rewrite fnodes_dir.
  destruct (scan_list ign rp mask c) as [es evs] eqn:Hsl. cbn [fst] in Hin.
  assert (Hin' : In (q, e) (entries_list rp es)).
  { destruct mask; [rewrite entries_phantom in Hin|rewrite entries_dir in Hin]; exact Hin. }
  clear Hin. revert es evs Hsl Hin'. induction c as [|[n ch] tl IHl]; intros es evs Hsl Hin.
  - cbn in Hsl. injection Hsl as <- <-. destruct Hin.
  - inversion IHc as [|? ? Hch Htl]; subst. specialize (IHl Htl). cbn [snd] in Hch.
    cbn [scan_list] in Hsl.
    destruct (scan_child ign rp mask n ch) as [e0 ev] eqn:Hsc.
    destruct (scan_list ign rp mask tl) as [es' evs'] eqn:Hsl'.
    injection Hsl as <- <-. cbn [entries_list] in Hin.
    assert (Htl' : In (q, e) (entries_list rp es') ->
                   (exists f, In (q, f) (fnodes_list rp ((n, ch) :: tl))
                              /\ (consulted_kind f = true -> prunedb q (is_fdir f) = true -> e = EUntracked))
                   /\ (forall a, Below rp a -> Below a q -> prunedb a true = false)).
    { intros H. destruct (IHl es' evs' eq_refl H) as [(f & Hf & Hp) Hq]. split; [|exact Hq].
      exists f. split; [|exact Hp]. cbn [fnodes_list]. apply in_or_app. right. exact Hf. }
    assert (Hself : forall e', (consulted_kind ch = true -> prunedb (n :: rp) (is_fdir ch) = true -> e' = EUntracked) ->
                    (exists f, In (n :: rp, f) (fnodes_list rp ((n, ch) :: tl))
                              /\ (consulted_kind f = true -> prunedb (n :: rp) (is_fdir f) = true -> e' = EUntracked))
                    /\ (forall a, Below rp a -> Below a (n :: rp) -> prunedb a true = false)).
    { intros e' He'. split.
      - exists ch. split; [left; reflexivity|exact He'].
      - intros a Hb1 Hb2. exfalso.
        destruct (Below_split rp n a (n :: rp) Hb1 (or_intror Hb2) (or_introl eq_refl)) as [->|Hb3].
        + exact (Below_irrefl _ Hb2).
        + exact (Below_irrefl _ (Below_trans _ _ _ Hb3 Hb2)). }
    destruct (scan_child_spec ign rp mask n ch) as [[Hk H]|[(Hk & Hdec & H)|(Hk & mask' & Hdec & H)]];
      rewrite Hsc in H; injection H as -> ->.
    + destruct Hin as [[= <- <-]|Hin].
      { apply Hself. intros Hne. congruence. }
      assert (Hnone : entries (n :: rp) (match ch with FBadName => bad_name_entry mask | _ => EUntracked end) = []).
      { destruct ch; try reflexivity. destruct mask; reflexivity. }
      rewrite Hnone in Hin. cbn [app] in Hin. exact (Htl' Hin).
    + destruct Hin as [[= <- <-]|Hin]; [|cbn [entries app] in Hin; exact (Htl' Hin)].
      apply Hself. reflexivity.
    + pose proof (decide_some_not_pruned _ _ _ _ Hdec) as Hnp.
      destruct Hin as [[= <- <-]|Hin].
      { apply Hself. intros _ Hp. rewrite Hp in Hnp. discriminate. }
      apply in_app_or in Hin. destruct Hin as [Hin|Hin]; [|exact (Htl' Hin)].
      destruct (Hch _ _ _ _ Hin) as [(f & Hf & Hp) Hq].
      pose proof (fnodes_below _ _ _ _ Hf) as Hbv.
      assert (Hd : is_fdir ch = true) by (destruct ch; try destruct Hf; reflexivity).
      split.
      * exists f. split; [|exact Hp]. cbn [fnodes_list]. right. apply in_or_app. left. exact Hf.
      * intros a Hb1 Hb2.
        destruct (Below_split rp n a q Hb1 (or_intror Hb2) (or_intror Hbv)) as [->|Hb3].
        -- rewrite <- Hd. exact Hnp.
        -- exact (Hq a Hb3 Hb2).
Qed.

(* ---------- the pruning statement in the direction of the property ---------- *)
(* A directory the ignorer prunes: nothing strictly below it is opened or
   consulted, and nothing strictly below it appears in the snapshot. *)
Theorem pruned_no_traversal root q :
  q <> [] -> prunedb q true = true ->
  (forall v, In (EvRead v) (scan_log ign root) -> ~ Below q v)
  /\ (forall v e, In (v, e) (entries [] (snapshot ign root)) -> ~ Below q v).
Proof.
  intros Hne Hp. assert (Hq : Below [] q).
  { exists q. split; [exact Hne|symmetry; apply app_nil_r]. }
  split.
  - intros v Hin Hb. unfold scan_log, scan in Hin.
    destruct (scan_reads_ok root [] false v Hin) as [->|[_ Hall]].
    + destruct Hb as (e & He & H). destruct e; [congruence|discriminate].
    + rewrite (Hall q Hq Hb) in Hp. discriminate.
  - intros v e Hin Hb. unfold snapshot, scan in Hin.
    destruct (scan_entries_ok root [] false v e Hin) as [_ Hall].
    rewrite (Hall q Hq Hb) in Hp. discriminate.
Qed.

(* ... and the pruned path itself is recorded as untracked content and is not
   opened, whatever it is in the filesystem as long as the ignorer prunes it
   for that kind *)
Theorem pruned_entry_untracked root q e :
  In (q, e) (entries [] (snapshot ign root)) ->
  exists f, In (q, f) (fnodes [] root)
            /\ (consulted_kind f = true -> prunedb q (is_fdir f) = true -> e = EUntracked).
Proof.
  intros Hin. unfold snapshot, scan in Hin.
  destruct (scan_entries_ok root [] false q e Hin) as [H _]. exact H.
Qed.

Theorem opened_not_pruned root v :
  In (EvRead v) (scan_log ign root) -> v <> [] ->
  exists f, In (v, f) (fnodes [] root) /\ prunedb v (is_fdir f) = false.
Proof.
  intros Hin Hne. unfold scan_log, scan in Hin.
  destruct (scan_reads_ok root [] false v Hin) as [->|[H _]]; [congruence|exact H].
Qed.

(* a pruned child: exactly one untracked entry, the ignorer consulted once,
   nothing opened *)
Theorem pruned_child rp mask n ch :
  consulted_kind ch = true -> prunedb (n :: rp) (is_fdir ch) = true ->
  scan_child ign rp mask n ch = (EUntracked, [EvIgnore (n :: rp) (is_fdir ch)]).
Proof.
  intros Hne Hp.
  destruct (scan_child_spec ign rp mask n ch) as [[Hk _]|[(_ & _ & H)|(_ & mask' & Hdec & _)]].
  - congruence.
  - exact H.
  - rewrite (pruned_decide_none _ _ mask Hp) in Hdec. discriminate.
Qed.

(* every child of a walked directory gets exactly one entry, under its name *)
Lemma scan_list_names rp mask c : map fst (fst (scan_list ign rp mask c)) = map fst c.
Proof.
  induction c as [|[n ch] tl IH]; [reflexivity|]. cbn [scan_list].
  destruct (scan_child ign rp mask n ch). destruct (scan_list ign rp mask tl).
  cbn [fst map] in *. rewrite IH. reflexivity.
Qed.

End Pruning.

(* shapes *)
Lemma shape_eqb_refl e : shape_eqb e e = true.
Proof.
  revert e. fix IH 1. intros e. destruct e as [c|x d|t| |msg|c]; try reflexivity.
  - cbn [shape_eqb]. induction c as [|[n x] tl IHl]; [reflexivity|].
    rewrite String.eqb_refl, IH, IHl. reflexivity.
  - cbn [shape_eqb]. induction c as [|[n x] tl IHl]; [reflexivity|].
    rewrite String.eqb_refl, IH, IHl. reflexivity.
Qed.

(* the walk depends on the ignorer only through its answers *)
Lemma scan_node_ext ign ign' :
  (forall q d, ign q d = ign' q d) ->
  forall node rp mask, scan_node ign rp mask node = scan_node ign' rp mask node.
Proof.
  intros Hext node. induction node as [c IHc|d|t| |] using fnode_ind2; intros rp mask; try reflexivity.
  rewrite !scan_node_dir.
  assert (Hl : scan_list ign rp mask c = scan_list ign' rp mask c).
  { induction c as [|[n ch] tl IHl]; [reflexivity|].
    inversion IHc as [|? ? Hch Htl]; subst. cbn [snd] in Hch. cbn [scan_list].
    rewrite (IHl Htl).
    assert (Hc : scan_child ign rp mask n ch = scan_child ign' rp mask n ch).
    { unfold scan_child. destruct ch; try reflexivity; rewrite Hext;
        match goal with |- context [ign' ?q ?d] => destruct (ign' q d) as [st cont] end;
        destruct (decide st cont mask); try reflexivity; rewrite Hch; reflexivity. }
    rewrite Hc. reflexivity. }
  rewrite Hl. reflexivity.
Qed.

(* ---------- files and links of a snapshot ---------- *)
Definition leaves_at (rp : rpath) (e : entry) : list (rpath * entry) :=
  filter (fun pe => is_leaf (snd pe)) (entries rp e).

Definition leaves_list (rp : rpath) (es : list (name * entry)) : list (rpath * entry) :=
  filter (fun pe => is_leaf (snd pe)) (entries_list rp es).

Lemma leaves_list_nil rp : leaves_list rp [] = [].
Proof. reflexivity. Qed.

Lemma leaves_list_cons rp n e es :
  leaves_list rp ((n, e) :: es)
  = (if is_leaf e then [(n :: rp, e)] else []) ++ leaves_at (n :: rp) e ++ leaves_list rp es.
Proof.
  unfold leaves_list, leaves_at. cbn [entries_list]. rewrite filter_app. cbn [filter snd].
  destruct (is_leaf e); reflexivity.
Qed.

Lemma leaves_at_dir rp es : leaves_at rp (EDir es) = leaves_list rp es.
Proof. unfold leaves_at, leaves_list. rewrite entries_dir. reflexivity. Qed.

Lemma leaves_at_phantom rp es : leaves_at rp (EPhantom es) = leaves_list rp es.
Proof. unfold leaves_at, leaves_list. rewrite entries_phantom. reflexivity. Qed.

Lemma leaves_at_dirkind rp es (mask : bool) :
  leaves_at rp (if mask then EPhantom es else EDir es) = leaves_list rp es.
Proof. destruct mask; [apply leaves_at_phantom|apply leaves_at_dir]. Qed.

Lemma leaves_leaves_at e : leaves e = leaves_at [] e.
Proof. reflexivity. Qed.
