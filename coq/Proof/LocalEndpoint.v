(* Proofs for C41 about Model/LocalEndpoint.v. *)
From Coq Require Import List Bool Arith NArith String Lia.
Import ListNotations.
From Mv Require Model.Entry Proof.EntryFacts.
From Mv Require Import Model.Staging Proof.Staging Model.LocalEndpoint.
Local Open Scope string_scope.
Local Open Scope list_scope.

(* ---------- arithmetic ---------- *)

Lemma wsub_small : forall a b, (b <= a)%N -> (a < two64)%N -> wsub a b = (a - b)%N.
Proof.
  intros a b L U. unfold wsub.
  replace (a + two64 - b)%N with ((a - b) + 1 * two64)%N by lia.
  rewrite N.mod_add by (unfold two64; lia).
  apply N.mod_small. lia.
Qed.

(* ---------- greedy subsequence test (filteredPathsAreSubset) ---------- *)

Lemma subseq_from_suffix : forall l y rest,
  subseq_from l y = Some rest -> subseq rest l.
Proof.
  induction l as [|x l IH]; intros y rest E; cbn in E; [discriminate|].
  destruct (String.eqb x y).
  - inversion E; subst. apply sub_skip. clear. induction rest; constructor; auto.
  - apply sub_skip. eapply IH; exact E.
Qed.

Lemma subseq_refl : forall A (l : list A), subseq l l.
Proof. induction l; constructor; auto. Qed.

Lemma subseq_trans : forall A (a b c : list A), subseq a b -> subseq b c -> subseq a c.
Proof.
  intros A a b c Hab Hbc. revert a Hab. induction Hbc; intros a0 Hab.
  - inversion Hab; subst. constructor.
  - inversion Hab; subst.
    + constructor.
    + apply sub_take. apply IHHbc. assumption.
    + apply sub_skip. apply IHHbc. assumption.
  - apply sub_skip. apply IHHbc. assumption.
Qed.

Lemma subseq_from_spec : forall l y ft,
  subseq (y :: ft) l -> exists rest, subseq_from l y = Some rest /\ subseq ft rest.
Proof.
  induction l as [|x l IH]; intros y ft S.
  - inversion S.
  - cbn. destruct (String.eqb x y) eqn:E.
    + apply seqb_eq in E; subst x. exists l. split; [reflexivity|].
      inversion S; subst; [assumption|].
      destruct (IH _ _ H1) as (rest & E1 & S1).
      eapply subseq_trans; [exact S1|]. eapply subseq_from_suffix; exact E1.
    + inversion S; subst.
      * rewrite String.eqb_refl in E. discriminate.
      * apply IH. assumption.
Qed.

Lemma is_subseq_complete : forall f l, subseq f l -> is_subseq f l = true.
Proof.
  induction f as [|y ft IH]; intros l S; cbn; [reflexivity|].
  destruct (subseq_from_spec _ _ _ S) as (rest & E & S'). rewrite E. apply IH. exact S'.
Qed.

Lemma is_subseq_sound : forall f l, is_subseq f l = true -> subseq f l.
Proof.
  induction f as [|y ft IH]; intros l E; [constructor|].
  cbn in E. destruct (subseq_from l y) as [rest|] eqn:F; [|discriminate].
  apply IH in E. clear IH. revert rest F E.
  induction l as [|x l IHl]; intros rest F E; cbn in F; [discriminate|].
  destruct (String.eqb x y) eqn:X.
  - apply seqb_eq in X; subst x. inversion F; subst. apply sub_take. exact E.
  - apply sub_skip. eapply IHl; eauto.
Qed.

Lemma map_fst_combine : forall A B (a : list A) (b : list B),
  List.length a = List.length b -> map fst (combine a b) = a.
Proof.
  induction a as [|x a IH]; intros [|y b] L; cbn in *; try discriminate; auto.
  f_equal. apply IH. lia.
Qed.

Lemma select_map_fst : forall A B (m : list bool) (l : list (A * B)),
  select m (map fst l) = map fst (select m l).
Proof.
  induction m as [|b m IH]; intros [|x l]; cbn; auto. destruct b; auto.
  destruct b; cbn; [f_equal|]; apply IH.
Qed.

Section Proofs.
Variable H : bytes -> digest.

Notation store_ok := (store_ok H).

(* ================= Scan ================= *)

Lemma scan_ok_inv : forall e ok e' n,
  scan H e ok = (e', ScOk n) ->
  n = dcount (dsk e) /\ (n <= maxc e)%N /\ lastc e' = n /\ since_stage e' = true
  /\ since_trans e' = true /\ maxc e' = maxc e /\ dsk e' = dsk e /\ sto e' = sto e
  /\ ro e' = ro e /\ mxsize e' = mxsize e /\ cache e' = cache_of H (dsk e).
Proof.
  intros e ok e' n. unfold scan. destruct (negb ok); [intros X; inversion X|].
  destruct (maxc e <? dcount (dsk e))%N eqn:L; intros X; inversion X; subst; cbn.
  apply N.ltb_ge in L. repeat split; auto.
Qed.

(* ================= Stage ================= *)

Section WithFixed.
Variable fixed : bool.

Lemma stage_ok_inv : forall e ps ds ks e' needed,
  stage H fixed e ps ds ks = (e', StOk needed) ->
  (ps = [] /\ needed = [] /\ e' = e)
  \/ (ps <> [] /\ ro e = false /\ List.length ps = List.length ds /\ since_stage e = true
      /\ over_limit fixed (maxc e) (lastc e) (List.length ps) = false
      /\ exists m, stage_loop H (mxsize e) (dfiles (dsk e)) (sto e) (combine ps ds)
                              (srcs_of (cache e) ds ks) = (sto e', Some m)
                   /\ needed = select m ps
                   /\ since_stage e' = false /\ dsk e' = dsk e /\ maxc e' = maxc e
                   /\ lastc e' = lastc e /\ since_trans e' = since_trans e).
Proof.
  intros e ps ds ks e' needed. unfold stage.
  destruct (Nat.eqb (List.length ps) (List.length ds)) eqn:LEN; cbn [negb]; [|intros X; inversion X].
  apply Nat.eqb_eq in LEN.
  destruct ps as [|p ps]; [intros X; inversion X; subst; left; auto|].
  destruct (ro e) eqn:RO; [intros X; inversion X|].
  destruct (since_stage e) eqn:SS; cbn [negb]; [|intros X; inversion X].
  destruct (over_limit fixed (maxc e) (lastc e) (List.length (p :: ps))) eqn:OL; [intros X; inversion X|].
  destruct (stage_loop H (mxsize e) (dfiles (dsk e)) (sto e) (combine (p :: ps) ds)
                       (srcs_of (cache e) ds ks)) as [s' [m|]] eqn:SL; intros X; inversion X; subst.
  right. repeat split; auto; try discriminate.
  exists m. cbn. repeat split; auto.
Qed.

(* Stage returns an order-preserving subsequence of the request *)
Lemma stage_subsequence : forall e ps ds ks e' needed,
  stage H fixed e ps ds ks = (e', StOk needed) -> subseq needed ps.
Proof.
  intros e ps ds ks e' needed E. apply stage_ok_inv in E.
  destruct E as [(-> & -> & _) | (_ & _ & _ & _ & _ & m & _ & -> & _)].
  - constructor.
  - apply select_subseq.
Qed.

(* ... which the controller's filteredPathsAreSubset accepts *)
Lemma stage_subset_accepted : forall e ps ds ks e' needed,
  stage H fixed e ps ds ks = (e', StOk needed) -> is_subseq needed ps = true.
Proof. intros; apply is_subseq_complete; eapply stage_subsequence; eauto. Qed.

(* an omitted (path, digest) was in the store at its turn, or a root file that
   has this digest NOW was copied into the store under (digest, path) *)
Lemma stage_omitted_available : forall e ps ds ks e' needed,
  stage H fixed e ps ds ks = (e', StOk needed) -> ps <> [] ->
  exists m, needed = select m ps
            /\ loop_ok H (mxsize e) (dfiles (dsk e)) (sto e) (combine ps ds) m (sto e').
Proof.
  intros e ps ds ks e' needed E NE. apply stage_ok_inv in E.
  destruct E as [(-> & _) | (_ & _ & _ & _ & _ & m & SL & -> & _)]; [congruence|].
  exists m. split; [reflexivity|]. eapply stage_loop_spec; exact SL.
Qed.

(* and whatever is omitted is provided by the store afterwards with the
   requested digest *)
Lemma loop_ok_contains_mono : forall mx root s req m s' q0 d0,
  loop_ok H mx root s req m s' -> store_ok s ->
  contains s q0 d0 = true -> contains s' q0 d0 = true.
Proof.
  intros mx root s req m s' q0 d0 L.
  induction L as [s | s p d t m s' ND C L IH | s p d t m s' q c ND C LK HC PR L IH
                  | s p d t m s1 s' ND C SH L IH]; intros OK C0; auto.
  - apply IH; [apply store_ok_commit; exact OK|]. apply contains_commit_mono; auto.
  - destruct SH as [->|(q1 & c1 & _ & [->| ->])]; auto;
      (apply IH; [apply store_ok_commit; exact OK | apply contains_commit_mono; auto]).
Qed.

Lemma loop_ok_omitted_provided : forall mx root s req m s',
  loop_ok H mx root s req m s' -> store_ok s ->
  forall i p0 d0, nth_error req i = Some (p0, d0) -> nth_error m i = Some false ->
    exists c0, provide s' p0 d0 = Some c0 /\ H c0 = d0.
Proof.
  intros mx root s req m s' L.
  induction L as [s | s p d t m s' ND C L IH | s p d t m s' q c ND C LK HC PR L IH
                  | s p d t m s1 s' ND C SH L IH]; intros OK i p0 d0 N M.
  - destruct i; discriminate.
  - destruct i; cbn in N, M.
    + inversion N; subst.
      pose proof (loop_ok_contains_mono _ _ _ _ _ _ _ _ L OK C) as C'.
      pose proof (loop_ok_store_ok H _ _ _ _ _ _ L OK) as OK'.
      unfold contains in C'. unfold provide.
      destruct (s_lookup (d0, p0) s') as [c0|] eqn:E; [|discriminate].
      exists c0; split; [reflexivity|]. eapply OK'; exact E.
    + eapply IH; eauto.
  - assert (OK1 : store_ok (commit H s p c)) by (apply store_ok_commit; exact OK).
    destruct i; cbn in N, M.
    + inversion N; subst.
      assert (C0 : contains (commit H s p0 c) p0 (H c) = true)
        by (unfold contains; unfold provide in PR; rewrite PR; reflexivity).
      pose proof (loop_ok_contains_mono _ _ _ _ _ _ _ _ L OK1 C0) as C'.
      pose proof (loop_ok_store_ok H _ _ _ _ _ _ L OK1) as OK'.
      unfold contains in C'. unfold provide.
      destruct (s_lookup (H c, p0) s') as [c0|] eqn:E; [|discriminate].
      exists c0; split; [reflexivity|]. eapply OK'; exact E.
    + eapply IH; eauto.
  - destruct i; cbn in N, M.
    + inversion M.
    + eapply IH; eauto.
      destruct SH as [->|(q1 & c1 & _ & [->| ->])]; auto using store_ok_commit.
Qed.

(* limit: an accepted non-empty request fits *)
Lemma over_limit_false_fits : forall mx last n,
  (mx <> 0)%N -> (mx < two64)%N -> (last <= mx)%N ->
  over_limit fixed mx last n = false -> (last + N.of_nat n <= mx)%N.
Proof.
  intros mx last n NZ U L. unfold over_limit.
  destruct (mx =? 0)%N eqn:Z; [apply N.eqb_eq in Z; congruence|]. cbn [negb andb].
  rewrite orb_false_iff. intros [_ W]. apply N.ltb_ge in W.
  rewrite wsub_small in W by assumption. lia.
Qed.

Lemma over_limit_fixed_le : forall mx last n,
  fixed = true -> (mx <> 0)%N -> over_limit fixed mx last n = false -> (last <= mx)%N.
Proof.
  intros mx last n -> NZ. unfold over_limit.
  destruct (mx =? 0)%N eqn:Z; [apply N.eqb_eq in Z; congruence|]. cbn [negb andb].
  rewrite orb_false_iff. intros [A _]. apply N.ltb_ge in A. exact A.
Qed.

(* ---------- guards ---------- *)

Definition is_scan (o : op) : bool := match o with OScan _ => true | _ => false end.
Definition no_scan (ops : list op) : bool := forallb (fun o => negb (is_scan o)) ops.

Lemma stage_keeps_flag_false : forall e ps ds ks,
  since_stage e = false -> since_stage (fst (stage H fixed e ps ds ks)) = false.
Proof.
  intros e ps ds ks F. unfold stage.
  destruct (negb (Nat.eqb (List.length ps) (List.length ds))); [exact F|].
  destruct ps; [exact F|]. destruct (ro e); [exact F|]. rewrite F. cbn. exact F.
Qed.

Lemma stage_keeps_trans_flag : forall e ps ds ks,
  since_trans (fst (stage H fixed e ps ds ks)) = since_trans e.
Proof.
  intros e ps ds ks. unfold stage.
  destruct (negb (Nat.eqb (List.length ps) (List.length ds))); [reflexivity|].
  destruct ps; [reflexivity|].
  destruct (ro e); [reflexivity|].
  destruct (negb (since_stage e)); [reflexivity|].
  destruct (over_limit fixed (maxc e) (lastc e) (List.length (p :: ps))); [reflexivity|].
  destruct (stage_loop H (mxsize e) (dfiles (dsk e)) (sto e) (combine (p :: ps) ds)
                       (srcs_of (cache e) ds ks)) as [s' [m|]]; reflexivity.
Qed.

Lemma transition_keeps_stage_flag : forall e chs env,
  since_stage (fst (transition e chs env)) = since_stage e.
Proof.
  intros e chs env. unfold transition, delegate.
  destruct (ro e); [reflexivity|]. destruct (negb (since_trans e)); [reflexivity|].
  destruct (maxc e =? 0)%N; [reflexivity|].
  destruct (resulting (lastc e) chs) as [r|]; [|reflexivity].
  destruct (maxc e <? r)%N; reflexivity.
Qed.

Lemma transition_keeps_flag_false : forall e chs env,
  since_trans e = false -> since_trans (fst (transition e chs env)) = false.
Proof.
  intros e chs env F. unfold transition. destruct (ro e); [exact F|]. rewrite F. cbn. exact F.
Qed.

Lemma step_stage_flag : forall e o, is_scan o = false -> since_stage e = false ->
  since_stage (fst (step H fixed e o)) = false.
Proof.
  intros e o NS F. destruct o as [ok|ps ds ks|cs|chs env|d]; cbn in NS; try discriminate; cbn [step].
  - pose proof (stage_keeps_flag_false e ps ds ks F) as X.
    destruct (stage H fixed e ps ds ks); exact X.
  - exact F.
  - pose proof (transition_keeps_stage_flag e chs env) as X.
    destruct (transition e chs env); cbn in *; congruence.
  - exact F.
Qed.

Lemma step_trans_flag : forall e o, is_scan o = false -> since_trans e = false ->
  since_trans (fst (step H fixed e o)) = false.
Proof.
  intros e o NS F. destruct o as [ok|ps ds ks|cs|chs env|d]; cbn in NS; try discriminate; cbn [step].
  - pose proof (stage_keeps_trans_flag e ps ds ks) as X.
    destruct (stage H fixed e ps ds ks); cbn in *; congruence.
  - exact F.
  - pose proof (transition_keeps_flag_false e chs env F) as X.
    destruct (transition e chs env); exact X.
  - exact F.
Qed.

Lemma run_state_cons : forall e o t,
  run_state H fixed e (o :: t) = run_state H fixed (fst (step H fixed e o)) t.
Proof.
  intros e o t. unfold run_state. cbn [run].
  destruct (step H fixed e o) as [e1 r]. cbn. destruct (run H fixed e1 t). reflexivity.
Qed.

Lemma run_state_app : forall a e b,
  run_state H fixed e (a ++ b) = run_state H fixed (run_state H fixed e a) b.
Proof.
  induction a as [|o a IH]; intros e b; [reflexivity|].
  cbn [app]. rewrite !run_state_cons. apply IH.
Qed.

Lemma run_no_scan_stage_flag : forall ops e, no_scan ops = true -> since_stage e = false ->
  since_stage (run_state H fixed e ops) = false.
Proof.
  induction ops as [|o t IH]; intros e NS F; [exact F|].
  cbn in NS. apply andb_true_iff in NS. destruct NS as [N1 N2].
  rewrite run_state_cons. apply IH; [exact N2|]. apply step_stage_flag; [|exact F].
  destruct (is_scan o); [discriminate|reflexivity].
Qed.

Lemma run_no_scan_trans_flag : forall ops e, no_scan ops = true -> since_trans e = false ->
  since_trans (run_state H fixed e ops) = false.
Proof.
  induction ops as [|o t IH]; intros e NS F; [exact F|].
  cbn in NS. apply andb_true_iff in NS. destruct NS as [N1 N2].
  rewrite run_state_cons. apply IH; [exact N2|]. apply step_trans_flag; [|exact F].
  destruct (is_scan o); [discriminate|reflexivity].
Qed.

(* a Stage call that gets past the argument checks consumes the flag *)
Lemma stage_consumes_flag : forall e ps ds ks,
  ps <> [] -> List.length ps = List.length ds -> ro e = false ->
  since_stage (fst (stage H fixed e ps ds ks)) = false.
Proof.
  intros e ps ds ks NE LEN RO. unfold stage.
  apply Nat.eqb_eq in LEN. rewrite LEN. cbn [negb].
  destruct ps as [|p ps]; [congruence|]. rewrite RO.
  destruct (since_stage e) eqn:F; cbn [negb]; [|exact F].
  destruct (over_limit fixed (maxc e) (lastc e) (List.length (p :: ps))); [reflexivity|].
  destruct (stage_loop H (mxsize e) (dfiles (dsk e)) (sto e) (combine (p :: ps) ds)
                       (srcs_of (cache e) ds ks)) as [s' [m|]]; reflexivity.
Qed.

Lemma stage_refused_without_scan : forall e ps ds ks,
  ps <> [] -> List.length ps = List.length ds -> since_stage e = false ->
  snd (stage H fixed e ps ds ks) = StErr ENoScan \/ snd (stage H fixed e ps ds ks) = StErr EReadOnly.
Proof.
  intros e ps ds ks NE LEN F. unfold stage.
  apply Nat.eqb_eq in LEN. rewrite LEN. cbn [negb].
  destruct ps; [congruence|].
  destruct (ro e); [right; reflexivity|]. rewrite F. left; reflexivity.
Qed.

Lemma ro_step : forall e o, ro (fst (step H fixed e o)) = ro e.
Proof.
  intros e o. destruct o as [ok|ps ds ks|cs|chs env|d]; cbn [step].
  - unfold scan. destruct (negb ok); [reflexivity|].
    destruct (maxc e <? dcount (dsk e))%N; reflexivity.
  - unfold stage.
    destruct (negb (Nat.eqb (List.length ps) (List.length ds))); [reflexivity|].
    destruct ps; [reflexivity|].
    destruct (ro e) eqn:R; [cbn; exact R|].
    destruct (negb (since_stage e)); [cbn; exact R|].
    destruct (over_limit fixed (maxc e) (lastc e) (List.length (p :: ps))); [cbn; exact R|].
    destruct (stage_loop H (mxsize e) (dfiles (dsk e)) (sto e) (combine (p :: ps) ds)
                         (srcs_of (cache e) ds ks)) as [s' [m|]]; cbn; exact R.
  - reflexivity.
  - unfold transition, delegate. destruct (ro e) eqn:R; [cbn; exact R|].
    destruct (negb (since_trans e)); [cbn; exact R|].
    destruct (maxc e =? 0)%N; [cbn; exact R|].
    destruct (resulting (lastc e) chs) as [r|]; [|cbn; exact R].
    destruct (maxc e <? r)%N; cbn; exact R.
  - reflexivity.
Qed.

Lemma ro_run : forall ops e, ro (run_state H fixed e ops) = ro e.
Proof.
  induction ops as [|o t IH]; intros e; [reflexivity|].
  rewrite run_state_cons, IH. apply ro_step.
Qed.

Lemma maxc_step : forall e o, maxc (fst (step H fixed e o)) = maxc e.
Proof.
  intros e o. destruct o as [ok|ps ds ks|cs|chs env|d]; cbn [step].
  - unfold scan. destruct (negb ok); [reflexivity|].
    destruct (maxc e <? dcount (dsk e))%N; reflexivity.
  - unfold stage.
    destruct (negb (Nat.eqb (List.length ps) (List.length ds))); [reflexivity|].
    destruct ps; [reflexivity|].
    destruct (ro e); [reflexivity|].
    destruct (negb (since_stage e)); [reflexivity|].
    destruct (over_limit fixed (maxc e) (lastc e) (List.length (p :: ps))); [reflexivity|].
    destruct (stage_loop H (mxsize e) (dfiles (dsk e)) (sto e) (combine (p :: ps) ds)
                         (srcs_of (cache e) ds ks)) as [s' [m|]]; reflexivity.
  - reflexivity.
  - unfold transition, delegate. destruct (ro e); [reflexivity|].
    destruct (negb (since_trans e)); [reflexivity|].
    destruct (maxc e =? 0)%N; [reflexivity|].
    destruct (resulting (lastc e) chs) as [r|]; [|reflexivity].
    destruct (maxc e <? r)%N; reflexivity.
  - reflexivity.
Qed.

Lemma maxc_run : forall ops e, maxc (run_state H fixed e ops) = maxc e.
Proof.
  induction ops as [|o t IH]; intros e; [reflexivity|].
  rewrite run_state_cons, IH. apply maxc_step.
Qed.

Lemma deliver_store_ok : forall cs s ps, store_ok s -> store_ok (deliver H s ps cs).
Proof.
  induction cs as [|c cs IH]; intros s ps OK.
  - destruct ps; exact OK.
  - destruct ps as [|p ps]; [exact OK|]. cbn. apply IH. apply store_ok_commit. exact OK.
Qed.

Lemma step_store_ok : forall e o, store_ok (sto e) -> store_ok (sto (fst (step H fixed e o))).
Proof.
  intros e o OK. destruct o as [ok|ps ds ks|cs|chs env|d]; cbn [step].
  - unfold scan. destruct (negb ok); [exact OK|].
    destruct (maxc e <? dcount (dsk e))%N; exact OK.
  - unfold stage.
    destruct (negb (Nat.eqb (List.length ps) (List.length ds))); [exact OK|].
    destruct ps; [exact OK|].
    destruct (ro e); [exact OK|].
    destruct (negb (since_stage e)); [exact OK|].
    destruct (over_limit fixed (maxc e) (lastc e) (List.length (p :: ps))); [exact OK|].
    destruct (stage_loop H (mxsize e) (dfiles (dsk e)) (sto e) (combine (p :: ps) ds)
                         (srcs_of (cache e) ds ks)) as [s' [m|]] eqn:SL; cbn;
      eapply stage_loop_store_ok; eauto.
  - cbn. apply deliver_store_ok. exact OK.
  - unfold transition, delegate. destruct (ro e); [exact OK|].
    destruct (negb (since_trans e)); [exact OK|].
    destruct (maxc e =? 0)%N; [cbn; apply store_ok_nil|].
    destruct (resulting (lastc e) chs) as [r|]; [|exact OK].
    destruct (maxc e <? r)%N; [exact OK|cbn; apply store_ok_nil].
  - exact OK.
Qed.

Lemma run_store_ok : forall ops e, store_ok (sto e) -> store_ok (sto (run_state H fixed e ops)).
Proof.
  induction ops as [|o t IH]; intros e OK; [exact OK|].
  rewrite run_state_cons. apply IH. apply step_store_ok. exact OK.
Qed.

(* two Stage calls (that get past the argument checks) with no Scan call in
   between: the second one is refused *)
Lemma guards_stage : forall e ps1 ds1 ks1 mid ps2 ds2 ks2,
  no_scan mid = true ->
  ps1 <> [] -> List.length ps1 = List.length ds1 ->
  ps2 <> [] -> List.length ps2 = List.length ds2 ->
  let e1 := run_state H fixed e (OStage ps1 ds1 ks1 :: mid) in
  snd (stage H fixed e1 ps2 ds2 ks2) = StErr ENoScan
  \/ snd (stage H fixed e1 ps2 ds2 ks2) = StErr EReadOnly.
Proof.
  intros e ps1 ds1 ks1 mid ps2 ds2 ks2 NS NE1 L1 NE2 L2 e1.
  destruct (ro e) eqn:RO.
  - right. unfold stage. apply Nat.eqb_eq in L2. rewrite L2. cbn [negb].
    destruct ps2; [congruence|]. subst e1. rewrite ro_run, RO. reflexivity.
  - apply stage_refused_without_scan; auto.
    subst e1. rewrite run_state_cons. apply run_no_scan_stage_flag; [exact NS|].
    cbn [step]. pose proof (stage_consumes_flag e ps1 ds1 ks1 NE1 L1 RO) as X.
    destruct (stage H fixed e ps1 ds1 ks1); exact X.
Qed.

Lemma transition_refused_without_scan : forall e chs env,
  since_trans e = false ->
  snd (transition e chs env) = TrErr TNoScan \/ snd (transition e chs env) = TrErr TReadOnly.
Proof.
  intros e chs env F. unfold transition. destruct (ro e); [right; reflexivity|].
  rewrite F. left; reflexivity.
Qed.

Lemma transition_consumes_flag : forall e chs env,
  ro e = false -> since_trans (fst (transition e chs env)) = false.
Proof.
  intros e chs env RO. unfold transition, delegate. rewrite RO.
  destruct (since_trans e) eqn:F; cbn [negb]; [|exact F].
  destruct (maxc e =? 0)%N; [reflexivity|].
  destruct (resulting (lastc e) chs) as [r|]; [|reflexivity].
  destruct (maxc e <? r)%N; reflexivity.
Qed.

Lemma guards_transition : forall e chs1 env1 mid chs2 env2,
  no_scan mid = true ->
  let e1 := run_state H fixed e (OTransition chs1 env1 :: mid) in
  snd (transition e1 chs2 env2) = TrErr TNoScan \/ snd (transition e1 chs2 env2) = TrErr TReadOnly.
Proof.
  intros e chs1 env1 mid chs2 env2 NS e1.
  destruct (ro e) eqn:RO.
  - right. unfold transition. subst e1. rewrite ro_run, RO. reflexivity.
  - apply transition_refused_without_scan.
    subst e1. rewrite run_state_cons. apply run_no_scan_trans_flag; [exact NS|].
    cbn [step]. pose proof (transition_consumes_flag e chs1 env1 RO) as X.
    destruct (transition e chs1 env1); exact X.
Qed.

(* before any Scan nothing is staged or applied *)
Lemma guards_initial : forall readonly mx mxs d ops,
  no_scan ops = true ->
  let e := run_state H fixed (new_ep readonly mx mxs d) ops in
  (forall ps ds ks, ps <> [] -> List.length ps = List.length ds ->
     snd (stage H fixed e ps ds ks) = StErr ENoScan \/ snd (stage H fixed e ps ds ks) = StErr EReadOnly)
  /\ (forall chs env,
     snd (transition e chs env) = TrErr TNoScan \/ snd (transition e chs env) = TrErr TReadOnly).
Proof.
  intros readonly mx mxs d ops NS e. split.
  - intros ps ds ks NE L. apply stage_refused_without_scan; auto.
    subst e. apply run_no_scan_stage_flag; auto.
  - intros chs env. apply transition_refused_without_scan.
    subst e. apply run_no_scan_trans_flag; auto.
Qed.

End WithFixed.

(* ================= Stage limit, over histories ================= *)

(* In every history of an endpoint with a maximum entry count, a Stage call
   that is accepted for a non-empty request leaves room: the count of the last
   scan plus the number of requested files does not exceed the maximum. *)
Definition limit_statement (fixed : bool) : Prop :=
  forall readonly mx mxs d0 ops ps ds ks e' needed,
    (mx <> 0)%N -> (mx < two64)%N ->
    let e := run_state H fixed (new_ep readonly mx mxs d0) ops in
    stage H fixed e ps ds ks = (e', StOk needed) -> ps <> [] ->
    (lastc e + N.of_nat (List.length ps) <= maxc e)%N.

Lemma limit_fixed : limit_statement true.
Proof.
  intros readonly mx mxs d0 ops ps ds ks e' needed NZ MU e S NE.
  assert (M : maxc e = mx) by (subst e; rewrite maxc_run; reflexivity).
  apply stage_ok_inv in S. destruct S as [(-> & _)|(_ & _ & _ & _ & OL & _)]; [congruence|].
  rewrite M in *.
  pose proof (over_limit_fixed_le true _ _ _ eq_refl NZ OL) as LE.
  exact (over_limit_false_fits true _ _ _ NZ MU LE OL).
Qed.

(* the code as it is: the same outside the class "the last scan counted more
   entries than the maximum" *)
Lemma limit_unfixed_partial : forall e ps ds ks e' needed,
  (maxc e <> 0)%N -> (maxc e < two64)%N -> above_max e = false ->
  stage H false e ps ds ks = (e', StOk needed) -> ps <> [] ->
  (lastc e + N.of_nat (List.length ps) <= maxc e)%N.
Proof.
  intros e ps ds ks e' needed NZ MU AM S NE.
  apply stage_ok_inv in S. destruct S as [(-> & _)|(_ & _ & _ & _ & OL & _)]; [congruence|].
  unfold above_max in AM. apply N.ltb_ge in AM.
  exact (over_limit_false_fits false _ _ _ NZ MU AM OL).
Qed.

(* ================= Transition limit ================= *)

Lemma transition_over_limit : forall e chs env r,
  ro e = false -> since_trans e = true -> (maxc e <> 0)%N ->
  resulting (lastc e) chs = Some r -> (maxc e < r)%N ->
  exists e', transition e chs env = (e', TrLimit (map Entry.cold chs))
             /\ dsk e' = dsk e /\ sto e' = sto e.
Proof.
  intros e chs env r RO ST NZ R L. unfold transition. rewrite RO, ST. cbn [negb].
  destruct (maxc e =? 0)%N eqn:Z; [apply N.eqb_eq in Z; congruence|].
  rewrite R. apply N.ltb_lt in L. rewrite L. eexists; split; [reflexivity|]. split; reflexivity.
Qed.

Lemma transition_done_inv : forall e chs env e' rs np ms,
  transition e chs env = (e', TrDone rs np ms) ->
  ro e = false /\ since_trans e = true
  /\ ((maxc e = 0)%N \/ exists r, resulting (lastc e) chs = Some r /\ (r <= maxc e)%N)
  /\ dsk e' = tpost env /\ sto e' = [] /\ since_trans e' = false.
Proof.
  intros e chs env e' rs np ms. unfold transition, delegate.
  destruct (ro e); [intros X; inversion X|].
  destruct (since_trans e); cbn [negb]; [|intros X; inversion X].
  destruct (maxc e =? 0)%N eqn:Z.
  - intros X; inversion X; subst; cbn. apply N.eqb_eq in Z. repeat split; auto.
  - destruct (resulting (lastc e) chs) as [r|]; [|intros X; inversion X].
    destruct (maxc e <? r)%N eqn:L; intros X; inversion X; subst; cbn.
    apply N.ltb_ge in L. repeat split; auto. right. exists r; auto.
Qed.

Lemma transition_not_applied : forall e chs env e' r,
  transition e chs env = (e', r) -> (forall rs np ms, r <> TrDone rs np ms) ->
  dsk e' = dsk e /\ sto e' = sto e.
Proof.
  intros e chs env e' r. unfold transition, delegate.
  destruct (ro e); [intros X; inversion X; auto|].
  destruct (negb (since_trans e)); [intros X; inversion X; auto|].
  destruct (maxc e =? 0)%N; [intros X N; inversion X; subst; exfalso; eapply N; reflexivity|].
  destruct (resulting (lastc e) chs) as [r0|]; [|intros X; inversion X; auto].
  destruct (maxc e <? r0)%N; intros X N; inversion X; subst; auto.
  exfalso; eapply N; reflexivity.
Qed.

(* ================= the checker ================= *)

Lemma olist_eqb_eq : forall a b, olist_eqb a b = true -> a = b.
Proof.
  unfold olist_eqb. induction a as [|x a IH]; intros [|y b] E; cbn in E; try discriminate; auto.
  apply andb_true_iff in E. destruct E as [L E]. cbn in E. apply andb_true_iff in E.
  destruct E as [E1 E2]. apply EntryFacts.oentry_eqb_eq in E1. subst y. f_equal.
  apply IH. rewrite L. exact E2.
Qed.

Lemma olist_eqb_refl : forall a, olist_eqb a a = true.
Proof.
  unfold olist_eqb. induction a as [|x a IH]; [reflexivity|]. cbn.
  apply andb_true_iff in IH. destruct IH as [L E]. rewrite L, EntryFacts.oentry_eqb_refl, E. reflexivity.
Qed.

Lemma files_eqb_eq : forall a b, files_eqb a b = true -> a = b.
Proof.
  unfold files_eqb. induction a as [|[p c] a IH]; intros [|[q d] b] E; cbn in E; try discriminate; auto.
  apply andb_true_iff in E. destruct E as [L E]. apply andb_true_iff in E. destruct E as [E1 E2].
  apply andb_true_iff in E1. destruct E1 as [P C]. apply seqb_eq in P, C. subst. f_equal.
  apply IH. rewrite L. exact E2.
Qed.

Lemma files_eqb_refl : forall a, files_eqb a a = true.
Proof.
  unfold files_eqb. induction a as [|[p c] a IH]; [reflexivity|]. cbn.
  apply andb_true_iff in IH. destruct IH as [L E]. rewrite L, !String.eqb_refl, E. reflexivity.
Qed.

Lemma disk_eqb_eq : forall a b, disk_eqb a b = true -> a = b.
Proof.
  intros [n f] [m g]. unfold disk_eqb. cbn. intros E. apply andb_true_iff in E. destruct E as [E1 E2].
  apply N.eqb_eq in E1. apply files_eqb_eq in E2. subst. reflexivity.
Qed.

Lemma disk_eqb_refl : forall a, disk_eqb a a = true.
Proof. intros [n f]. unfold disk_eqb. cbn. rewrite N.eqb_refl, files_eqb_refl. reflexivity. Qed.

(* the property of one observed result, as a proposition *)
Definition avail_prop (e : ep) (p : path) (d : digest) : Prop :=
  contains (sto e) p d = true \/ exists q c, In (q, c) (dfiles (dsk e)) /\ H c = d.

Definition prop_op (e : ep) (o : op) (r : res) : Prop :=
  match o, r with
  | OScan _, RScan (ScOk n) => (n <= maxc e)%N
  | OStage ps ds _, RStage (StOk needed) =>
      (ps = [] \/ (since_stage e = true /\ (lastc e + N.of_nat (List.length ps) <= maxc e)%N))
      /\ subseq needed ps
      /\ exists m, List.length m = List.length (combine ps ds)
                   /\ needed = map fst (select m (combine ps ds))
                   /\ forall i p d, nth_error (combine ps ds) i = Some (p, d) ->
                                    nth_error m i = Some false -> avail_prop e p d
  | OTransition chs env, RTransition (TrLimit rs) =>
      since_trans e = true /\ rs = map Entry.cold chs /\ tpost env = dsk e
  | OTransition chs env, RTransition (TrDone _ _ _) =>
      since_trans e = true /\ exists r', resulting (lastc e) chs = Some r' /\ (r' <= maxc e)%N
  | _, _ => True
  end.

Lemma available_prop : forall e p d, available H e (p, d) = true -> avail_prop e p d.
Proof.
  intros e p d. unfold available, avail_prop. cbn [fst snd]. rewrite orb_true_iff.
  intros [C|R]; [left; exact C|right].
  unfold root_has_digest in R. apply existsb_exists in R. destruct R as ([q c] & I & E).
  cbn in E. apply seqb_eq in E. exists q, c. auto.
Qed.

Lemma align_ok_sound : forall avail req filtered,
  align_ok avail req filtered = true ->
  exists m, List.length m = List.length req /\ filtered = map fst (select m req)
            /\ forall i p d, nth_error req i = Some (p, d) -> nth_error m i = Some false ->
                             avail (p, d) = true.
Proof.
  intros avail req; induction req as [|[p d] t IH]; intros filtered E.
  - cbn in E. destruct filtered; [|discriminate]. exists []. repeat split; auto.
    intros i; destruct i; discriminate.
  - cbn [align_ok] in E. apply orb_true_iff in E. destruct E as [E|E].
    + destruct filtered as [|f ft]; [discriminate|].
      apply andb_true_iff in E. destruct E as [E1 E2]. apply seqb_eq in E1. subst f.
      destruct (IH _ E2) as (m & L & F & A). exists (true :: m). cbn. repeat split; auto.
      * congruence.
      * intros i p0 d0 N M. destruct i; cbn in N, M; [discriminate|]. eapply A; eauto.
    + apply andb_true_iff in E. destruct E as [E1 E2].
      destruct (IH _ E2) as (m & L & F & A). exists (false :: m). cbn. repeat split; auto.
      intros i p0 d0 N M. destruct i; cbn in N, M.
      * inversion N; subst. exact E1.
      * eapply A; eauto.
Qed.

Lemma check_op_sound : forall e o r, check_op H e o r = true -> prop_op e o r.
Proof.
  intros e o r. destruct o as [ok|ps ds ks|cs|chs env|d]; destruct r as [sr|sr| |tr| ]; cbn; auto.
  - destruct sr; auto. intros E. apply N.leb_le in E. exact E.
  - destruct sr as [x|needed]; auto. intros E.
    apply andb_true_iff in E. destruct E as [E A].
    apply andb_true_iff in E. destruct E as [G S].
    apply is_subseq_sound in S.
    split; [|split; [exact S|]].
    + destruct ps; [left; reflexivity|right].
      apply andb_true_iff in G. destruct G as [G1 G2]. apply N.leb_le in G2. auto.
    + destruct (align_ok_sound _ _ _ A) as (m & L & F & AV). exists m. repeat split; auto.
      intros i p d N M. apply available_prop. eapply AV; eauto.
  - destruct tr as [x|rs|rs np ms]; auto; intros E.
    + apply andb_true_iff in E. destruct E as [E D]. apply andb_true_iff in E. destruct E as [S O].
      apply olist_eqb_eq in O. apply disk_eqb_eq in D. auto.
    + apply andb_true_iff in E. destruct E as [S R]. split; [exact S|].
      destruct (resulting (lastc e) chs) as [r'|]; [|discriminate].
      apply N.leb_le in R. exists r'; auto.
Qed.

(* the checker over a history: every observed result respects the property in
   the state the model is in at that point *)
Fixpoint prop_C41 (fixed : bool) (e : ep) (ops : list op) (obs : list res) : Prop :=
  match ops, obs with
  | [], [] => True
  | o :: t, r :: rt => prop_op e o r /\ prop_C41 fixed (fst (step H fixed e o)) t rt
  | _, _ => False
  end.

Lemma check_C41_sound : forall fixed ops e obs,
  check_C41 H fixed e ops obs = true -> prop_C41 fixed e ops obs.
Proof.
  intros fixed ops; induction ops as [|o t IH]; intros e [|r rt] E; cbn in *; try discriminate; auto.
  apply andb_true_iff in E. destruct E as [E1 E2]. split; [apply check_op_sound; exact E1|].
  apply IH. exact E2.
Qed.

(* ================= the repaired model passes its own checker ================= *)

Definition disk_wf (mxs : N) (d : disk) : Prop :=
  (dcount d < two64)%N /\ forall q c, In (q, c) (dfiles d) -> (blen c <= mxs)%N.

(* the environment input of a Transition describes the root after the call:
   when the call is refused it is the root before the call *)
Definition op_wf (fixed : bool) (e : ep) (o : op) : Prop :=
  match o with
  | OEdit d => disk_wf (mxsize e) d
  | OTransition chs env =>
      disk_wf (mxsize e) (tpost env)
      /\ ((forall rs np ms, snd (transition e chs env) <> TrDone rs np ms) -> tpost env = dsk e)
  | _ => True
  end.

Fixpoint ops_wf (fixed : bool) (e : ep) (ops : list op) : Prop :=
  match ops with
  | [] => True
  | o :: t => op_wf fixed e o /\ ops_wf fixed (fst (step H fixed e o)) t
  end.

Definition ep_wf (e : ep) : Prop :=
  (maxc e <> 0)%N /\ (maxc e < two64)%N /\ (lastc e < two64)%N /\ disk_wf (mxsize e) (dsk e)
  /\ store_ok (sto e).

(* contents present in the store at a turn of the loop: present before the
   call, or the digest of a root file *)
Definition src_inv (e : ep) (s : store) : Prop :=
  forall p d, contains s p d = true ->
    contains (sto e) p d = true \/ root_has_digest H (dsk e) d = true.

Lemma root_has_of_lookup : forall d q c,
  f_lookup q (dfiles d) = Some c -> root_has_digest H d (H c) = true.
Proof.
  intros d q c L. unfold root_has_digest. apply existsb_exists.
  exists (q, c). split; [apply f_lookup_in; exact L|]. cbn. apply String.eqb_refl.
Qed.

Lemma stage_from_root_src_inv : forall e s src p d s' ok,
  disk_wf (mxsize e) (dsk e) -> src_inv e s ->
  stage_from_root H (mxsize e) (dfiles (dsk e)) s src p d = (s', ok) -> src_inv e s'.
Proof.
  intros e s src p d s' ok [_ FIT] INV. unfold stage_from_root.
  destruct src as [q|]; [|intros X; inversion X; subst; exact INV].
  destruct (f_lookup q (dfiles (dsk e))) as [c|] eqn:L; [|intros X; inversion X; subst; exact INV].
  assert (W : sink_write (mxsize e) "" c = (c, true)).
  { unfold sink_write. pose proof (FIT q c (f_lookup_in _ _ _ L)) as B.
    destruct (mxsize e - blen "" <? blen c)%N eqn:X; [|reflexivity].
    apply N.ltb_lt in X. change (blen "") with 0%N in X. lia. }
  rewrite W.
  assert (INV' : src_inv e (commit H s p c)).
  { intros p0 d0 C. unfold contains in C.
    destruct (s_lookup (d0, p0) (commit H s p c)) as [c0|] eqn:L0; [|discriminate].
    apply lookup_commit_inv in L0. destruct L0 as [L0|(-> & _ & _)].
    - apply INV. unfold contains. rewrite L0. reflexivity.
    - right. eapply root_has_of_lookup; exact L. }
  destruct (contains (commit H s p c) p d); intros X; inversion X; subst; exact INV'.
Qed.

Lemma stage_loop_align : forall e req srcs s s' m,
  disk_wf (mxsize e) (dsk e) -> src_inv e s ->
  stage_loop H (mxsize e) (dfiles (dsk e)) s req srcs = (s', Some m) ->
  align_ok (available H e) req (select m (map fst req)) = true.
Proof.
  intros e req; induction req as [|[p d] t IH]; intros srcs s s' m WF INV E.
  - cbn in E. inversion E; subst. reflexivity.
  - cbn [stage_loop] in E. destruct (String.eqb d ""); [inversion E|].
    destruct (contains s p d) eqn:C.
    + destruct (stage_loop H (mxsize e) (dfiles (dsk e)) s t (tl srcs)) as [s2 [m2|]] eqn:R;
        inversion E; subst.
      cbn [map fst select align_ok]. apply orb_true_iff. right.
      apply andb_true_iff. split.
      * unfold available. cbn [fst snd]. apply orb_true_iff. apply INV. exact C.
      * eapply IH; eauto.
    + destruct (stage_from_root H (mxsize e) (dfiles (dsk e)) s (hd None srcs) p d) as [s1 ok] eqn:F.
      pose proof (stage_from_root_src_inv _ _ _ _ _ _ _ WF INV F) as INV1.
      destruct (stage_loop H (mxsize e) (dfiles (dsk e)) s1 t (tl srcs)) as [s2 [m2|]] eqn:R;
        inversion E; subst.
      destruct ok; cbn [negb map fst select align_ok].
      * apply orb_true_iff. right. apply andb_true_iff. split; [|eapply IH; eauto].
        unfold available. cbn [fst snd]. apply orb_true_iff. apply INV1.
        apply stage_from_root_ok in F. destruct F as (_ & _ & _ & _ & _ & F). exact F.
      * apply orb_true_iff. left. rewrite String.eqb_refl. cbn. eapply IH; eauto.
Qed.

Lemma model_passes_step : forall e o,
  ep_wf e -> op_wf true e o ->
  check_op H e o (snd (step H true e o)) = true /\ ep_wf (fst (step H true e o)).
Proof.
  intros e o (NZ & MU & LU & (DC & DF) & SO) OW.
  assert (DW : disk_wf (mxsize e) (dsk e)) by (split; assumption).
  destruct o as [ok|ps ds ks|cs|chs env|d]; cbn [step].
  - (* scan *)
    destruct (scan H e ok) as [e' r] eqn:S. cbn [fst snd]. unfold scan in S.
    destruct (negb ok); [inversion S; subst; split; [reflexivity|repeat split; auto]|].
    destruct (maxc e <? dcount (dsk e))%N eqn:L; inversion S; subst; cbn.
    + split; [reflexivity|]. repeat split; auto.
    + apply N.ltb_ge in L. split; [apply N.leb_le; exact L|].
      repeat split; auto.
  - (* stage *)
    destruct (stage H true e ps ds ks) as [e' r] eqn:S. cbn [fst snd].
    destruct r as [x|needed].
    + split; [reflexivity|].
      unfold stage in S.
      destruct (negb (Nat.eqb (List.length ps) (List.length ds))); [inversion S; subst; repeat split; auto|].
      destruct ps as [|p ps]; [inversion S|].
      destruct (ro e); [inversion S; subst; repeat split; auto|].
      destruct (negb (since_stage e)); [inversion S; subst; repeat split; auto|].
      destruct (over_limit true (maxc e) (lastc e) (List.length (p :: ps)));
        [inversion S; subst; repeat split; auto|].
      destruct (stage_loop H (mxsize e) (dfiles (dsk e)) (sto e) (combine (p :: ps) ds)
                           (srcs_of (cache e) ds ks)) as [s' [m|]] eqn:SL; inversion S; subst.
      repeat split; auto; cbn. eapply stage_loop_store_ok; eauto.
    + pose proof S as S0. apply stage_ok_inv in S.
      destruct S as [(-> & -> & ->) | (NE & RO & LEN & SS & OL & m & SL & -> & F1 & F2 & F3 & F4 & F5)].
      * split; [reflexivity|repeat split; auto].
      * split.
        -- cbn [check_op]. destruct ps as [|p ps]; [congruence|].
           rewrite SS. cbn [andb].
           pose proof (over_limit_fixed_le true _ _ _ eq_refl NZ OL) as LE.
           pose proof (over_limit_false_fits true _ _ _ NZ MU LE OL) as FIT.
           apply N.leb_le in FIT. rewrite FIT. cbn [andb].
           rewrite (is_subseq_complete _ _ (select_subseq _ m (p :: ps))). cbn [andb].
           pose proof (stage_loop_align e _ _ _ _ _ DW (fun p0 d0 C => or_introl C) SL) as A.
           rewrite map_fst_combine in A by exact LEN. exact A.
        -- unfold stage in S0.
           apply Nat.eqb_eq in LEN. rewrite LEN in S0. cbn [negb] in S0.
           destruct ps as [|p ps]; [congruence|]. rewrite RO, SS, OL, SL in S0. cbn [negb] in S0.
           inversion S0; subst. repeat split; auto; cbn.
           eapply stage_loop_store_ok; eauto.
  - (* supply *)
    cbn. split; [reflexivity|]. repeat split; auto. cbn.
    clear - SO. generalize (sto e) (pend e) SO. induction cs as [|c cs IH]; intros s ps OK.
    + destruct ps; exact OK.
    + destruct ps as [|p ps]; [exact OK|]. cbn. apply IH. apply store_ok_commit. exact OK.
  - (* transition *)
    destruct OW as [PW CONS].
    destruct (transition e chs env) as [e' r] eqn:T. cbn [fst snd].
    destruct r as [x|rs|rs np ms].
    + split; [reflexivity|].
      destruct (transition_not_applied _ _ _ _ _ T) as [D S]; [intros; discriminate|].
      unfold transition, delegate in T.
      destruct (ro e); [inversion T; subst; repeat split; auto|].
      destruct (negb (since_trans e)); [inversion T; subst; repeat split; auto|].
      destruct (maxc e =? 0)%N; [inversion T|].
      destruct (resulting (lastc e) chs) as [r0|]; [|inversion T; subst; repeat split; auto].
      destruct (maxc e <? r0)%N; inversion T.
    + assert (TP : tpost env = dsk e).
      { apply CONS. try rewrite T. cbn. intros; discriminate. }
      unfold transition, delegate in T.
      destruct (ro e); [inversion T|].
      destruct (since_trans e) eqn:ST; cbn [negb] in T; [|inversion T].
      destruct (maxc e =? 0)%N; [inversion T|].
      destruct (resulting (lastc e) chs) as [r0|]; [|inversion T].
      destruct (maxc e <? r0)%N; inversion T; subst.
      split.
      * cbn [check_op]. rewrite ST, olist_eqb_refl, TP, disk_eqb_refl. reflexivity.
      * repeat split; auto.
    + destruct (transition_done_inv _ _ _ _ _ _ _ T) as (RO & ST & LIM & D & S & F).
      split.
      * cbn [check_op]. rewrite ST. cbn [andb].
        destruct LIM as [Z|(r' & R & L)]; [congruence|]. rewrite R. apply N.leb_le. exact L.
      * unfold transition, delegate in T. rewrite RO, ST in T. cbn [negb] in T.
        destruct (maxc e =? 0)%N eqn:Z; [apply N.eqb_eq in Z; congruence|].
        destruct (resulting (lastc e) chs) as [r0|]; [|inversion T].
        destruct (maxc e <? r0)%N; inversion T; subst. repeat split; auto; cbn.
        -- destruct PW; auto.
        -- destruct PW; auto.
        -- intros d0 p0 c0 X; discriminate X.
  - (* edit *)
    cbn. split; [reflexivity|]. repeat split; auto; destruct OW; auto.
Qed.

Lemma run_results_cons : forall fixed e o t,
  run_results H fixed e (o :: t)
  = snd (step H fixed e o) :: run_results H fixed (fst (step H fixed e o)) t.
Proof.
  intros fixed e o t. unfold run_results. cbn [run].
  destruct (step H fixed e o) as [e1 r]. cbn. destruct (run H fixed e1 t). reflexivity.
Qed.

Lemma model_passes : forall ops e,
  ep_wf e -> ops_wf true e ops ->
  check_C41 H true e ops (run_results H true e ops) = true.
Proof.
  induction ops as [|o t IH]; intros e WF OW; [reflexivity|].
  destruct OW as [O1 O2]. rewrite run_results_cons. cbn [check_C41].
  destruct (model_passes_step e o WF O1) as [C W]. rewrite C. cbn [andb]. apply IH; assumption.
Qed.

End Proofs.

(* ---------- the defect, on the model of the code as it is ---------- *)

Definition Hid (b : bytes) : digest := b.

(* maximum 3; the root has 2 entries; Scan succeeds; three files appear; the
   next Scan fails with "exceeded allowed entry count" (count 5) but leaves
   scannedSinceLastStageCall set; Stage of two files is then ACCEPTED *)
Definition c41_witness_disk0 : disk := {| dcount := 2; dfiles := [("a", "c1")] |}.
Definition c41_witness_disk1 : disk :=
  {| dcount := 5; dfiles := [("a", "c1"); ("b", "c2"); ("c", "c3"); ("d", "c4")] |}.
Definition c41_witness_prefix : list op := [OScan true; OEdit c41_witness_disk1; OScan true].
Definition c41_witness : list op :=
  c41_witness_prefix ++ [OStage ["x"; "y"] ["c8"; "c9"] []].
Definition c41_witness_ep : ep := new_ep false 3 (two64 - 1) c41_witness_disk0.

Lemma refuted_unfixed_witness :
  run_results Hid false c41_witness_ep c41_witness
  = [RScan (ScOk 2); REdit; RScan (ScExceeded 5); RStage (StOk ["x"; "y"])]
  /\ check_C41 Hid false c41_witness_ep c41_witness
       (run_results Hid false c41_witness_ep c41_witness) = false.
Proof. vm_compute. split; reflexivity. Qed.

Lemma limit_refuted : ~ limit_statement Hid false.
Proof.
  intros L.
  pose proof (L false 3%N (two64 - 1)%N c41_witness_disk0 c41_witness_prefix
                ["x"; "y"] ["c8"; "c9"] []
                (fst (stage Hid false (run_state Hid false c41_witness_ep c41_witness_prefix)
                            ["x"; "y"] ["c8"; "c9"] []))
                ["x"; "y"]
                ltac:(discriminate) ltac:(reflexivity) ltac:(vm_compute; reflexivity)
                ltac:(discriminate)) as X.
  vm_compute in X. apply X. reflexivity.
Qed.

Lemma witness_fixed :
  run_results Hid true c41_witness_ep c41_witness
  = [RScan (ScOk 2); REdit; RScan (ScExceeded 5); RStage (StErr ELimit)].
Proof. vm_compute. reflexivity. Qed.

Lemma run_store_ok_fresh : forall H fixed readonly mx mxs d ops,
  store_ok H (sto (run_state H fixed (new_ep readonly mx mxs d) ops)).
Proof. intros; apply run_store_ok; apply store_ok_nil. Qed.

Lemma nontrivial_example :
  run_results Hid true (new_ep false 4 (two64 - 1) c41_witness_disk0)
    [OScan true; OStage ["k"; "n"] ["c1"; "c7"] [0; 0]; OStage ["z"] ["c1"] [];
     OTransition [Entry.Build_change ["d"] None
                    (Some (Entry.EDir [("f0", Entry.EFile false "c7"); ("f1", Entry.EFile false "c7")]))]
                 {| tpost := c41_witness_disk0; tresults := []; tnproblems := 0; tmiss := false |}]
  = [RScan (ScOk 2); RStage (StOk ["n"]); RStage (StErr ENoScan); RTransition (TrLimit [None])].
Proof. vm_compute. reflexivity. Qed.

