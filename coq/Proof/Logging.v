(* Proofs about Model/Logging.v (C44). *)
From Coq Require Import List Arith Bool ZArith Lia.
Import ListNotations.
From Mv Require Import Model.Stream Model.Logging Proof.Stream.

(* ---------- small facts ---------- *)
Lemma index_byte_none : forall c s, index_byte c s = None -> ~ In c s.
Proof.
  induction s as [|b t IH]; cbn; intros H; [tauto|].
  destruct (Nat.eqb b c) eqn:E; [discriminate|]. apply Nat.eqb_neq in E.
  destruct (index_byte c t); [discriminate|]. intros [Hb|Hb]; [congruence|]. now apply IH.
Qed.

Lemma index_byte_some : forall c s i, index_byte c s = Some i ->
  s = firstn i s ++ c :: skipn (S i) s /\ ~ In c (firstn i s) /\ i < length s.
Proof.
  induction s as [|b t IH]; cbn [index_byte]; intros i H; [discriminate|].
  destruct (Nat.eqb b c) eqn:E.
  - apply Nat.eqb_eq in E. inversion H; subst. cbn. repeat split; [tauto|lia].
  - apply Nat.eqb_neq in E. destruct (index_byte c t) as [j|] eqn:Ej; [|discriminate].
    inversion H; subst. destruct (IH j eq_refl) as (I1 & I2 & I3).
    cbn [firstn skipn app length]. split; [f_equal; exact I1|]. split; [|lia].
    intros [Hb|Hb]; [congruence|]. now apply I2.
Qed.

Lemma index_byte_in : forall c s, In c s -> index_byte c s <> None.
Proof. intros c s Hin Hn. now apply index_byte_none in Hn. Qed.

Lemma in_firstn : forall (x : nat) n l, In x (firstn n l) -> In x l.
Proof. intros x n l H. rewrite <- (firstn_skipn n l). apply in_or_app. now left. Qed.

(* ---------- neutralization ---------- *)
Lemma neutralize_app : forall a b, neutralize (a ++ b) = neutralize a ++ neutralize b.
Proof. intros. unfold neutralize. apply flat_map_app. Qed.

Lemma neutralize_id : forall s, ~ In CR s -> ~ In ESC s -> neutralize s = s.
Proof.
  induction s as [|b t IH]; intros H1 H2; [reflexivity|].
  cbn [neutralize flat_map]. unfold neutralize_byte.
  destruct (Nat.eqb b ESC) eqn:E1; [apply Nat.eqb_eq in E1; subst; exfalso; apply H2; now left|].
  destruct (Nat.eqb b CR) eqn:E2; [apply Nat.eqb_eq in E2; subst; exfalso; apply H1; now left|].
  cbn [app]. f_equal. apply IH; intro; [apply H1|apply H2]; now right.
Qed.

Lemma neutralize_byte_in : forall b x, In x (neutralize_byte b) ->
  x <> CR /\ x <> ESC /\ (x = LF -> b = LF).
Proof.
  intros b x H. unfold neutralize_byte in H.
  destruct (Nat.eqb b ESC) eqn:E1.
  - cbn in H. unfold CR, ESC, LF. destruct H as [ <- | [ <- | [] ] ]; repeat split; discriminate.
  - destruct (Nat.eqb b CR) eqn:E2.
    + cbn in H. unfold CR, ESC, LF. destruct H as [ <- | [ <- | [] ] ]; repeat split; discriminate.
    + apply Nat.eqb_neq in E1. apply Nat.eqb_neq in E2. cbn in H. destruct H as [ <- | [] ].
      repeat split; auto.
Qed.

Lemma neutralize_no_controls : forall s, ~ In CR (neutralize s) /\ ~ In ESC (neutralize s).
Proof.
  intro s. unfold neutralize. split; intro H; apply in_flat_map in H as (b & _ & Hb);
    apply neutralize_byte_in in Hb; tauto.
Qed.

Lemma neutralize_no_lf : forall s, ~ In LF s -> ~ In LF (neutralize s).
Proof.
  intros s Hs H. unfold neutralize in H. apply in_flat_map in H as (b & Hin & Hb).
  apply neutralize_byte_in in Hb as (_ & _ & Hl). rewrite (Hl eq_refl) in Hin. contradiction.
Qed.

Lemma clean_neutralize : forall s, clean s -> neutralize s = s.
Proof. intros s (_ & H1 & H2). now apply neutralize_id. Qed.

Lemma clean_app : forall a b, clean a -> clean b -> clean (a ++ b).
Proof.
  intros a b (A1 & A2 & A3) (B1 & B2 & B3). repeat split; intro H; apply in_app_or in H; tauto.
Qed.

(* ---------- levels, scopes ---------- *)
Lemma abbrev_cases : forall l, In (abbrev l) abbreviations \/ abbrev l = 63.
Proof.
  intro l. unfold abbrev. destruct (Nat.leb l 5) eqn:E; [|now right].
  apply Nat.leb_le in E. left.
  do 6 (destruct l as [|l]; [cbn; tauto|]). lia.
Qed.

Lemma abbrev_chars_clean : forall c, In c abbreviations \/ c = 63 -> clean [c].
Proof.
  intros c [H | ->].
  - cbn in H. unfold clean, LF, CR, ESC. cbn.
    repeat split; intros [E|[]]; subst; repeat (destruct H as [H|H]; [discriminate|]); exact H.
  - unfold clean, LF, CR, ESC. cbn. repeat split; intros [E|[]]; discriminate.
Qed.

Lemma word_or_dot_clean : forall b, is_word b || Nat.eqb b 46 = true -> b <> LF /\ b <> CR /\ b <> ESC.
Proof.
  intros b H. unfold LF, CR, ESC. repeat split; intro E; subst; discriminate.
Qed.

Lemma scope_ok_clean : forall sc, scope_ok sc = true -> clean sc.
Proof.
  intros sc H. unfold scope_ok in H. rewrite forallb_forall in H.
  repeat split; intro Hin; apply H in Hin; apply word_or_dot_clean in Hin; tauto.
Qed.

Lemma scope_part_clean : forall sc, clean sc -> clean (scope_part sc).
Proof.
  intros sc Hc. unfold scope_part. destruct sc as [|b t]; [repeat split; intros []|].
  apply clean_app; [|apply clean_app; [exact Hc|]];
    unfold clean, LF, CR, ESC; cbn; repeat split; intro H; repeat (destruct H as [H|H]; [discriminate|]); exact H.
Qed.

Lemma level_prefix_clean : forall ts level, clean ts -> clean (level_prefix ts level).
Proof.
  intros ts level Ht. unfold level_prefix. apply clean_app; [exact Ht|].
  apply clean_app; [|apply clean_app; [apply abbrev_chars_clean, abbrev_cases|]];
    unfold clean, LF, CR, ESC; cbn; repeat split; intro H; repeat (destruct H as [H|H]; [discriminate|]); exact H.
Qed.

(* ---------- Logger.write ---------- *)
(* the message after both truncations: one LF, at the end; no CR *)
Lemma msg2_shape : forall msg1 i, ~ In CR msg1 -> index_byte LF msg1 = Some i ->
  exists body,
    (if Nat.eqb i (length msg1 - 1) then msg1 else firstn i msg1 ++ dots_lf) = body ++ [LF]
    /\ ~ In LF body /\ ~ In CR body.
Proof.
  intros msg1 i Hcr Hi. destruct (index_byte_some _ _ _ Hi) as (Hs & Hn & Hl).
  destruct (Nat.eqb i (length msg1 - 1)) eqn:E.
  - apply Nat.eqb_eq in E. exists (firstn i msg1). split; [|split; [exact Hn|]].
    + rewrite Hs at 1. f_equal. f_equal.
      apply length_zero_iff_nil. rewrite skipn_length. lia.
    + intro H. apply Hcr. now apply in_firstn in H.
  - exists (firstn i msg1 ++ [46; 46; 46]). split; [|split].
    + unfold dots_lf. rewrite <- app_assoc. reflexivity.
    + intro H. apply in_app_or in H as [H|H]; [now apply Hn|].
      unfold LF in H. cbn in H. repeat (destruct H as [H|H]; [discriminate|]). exact H.
    + intro H. apply in_app_or in H as [H|H]; [apply Hcr; now apply in_firstn in H|].
      unfold CR in H. cbn in H. repeat (destruct H as [H|H]; [discriminate|]). exact H.
Qed.

Lemma msg1_no_cr : forall msg,
  ~ In CR (match index_byte CR msg with Some i => firstn i msg ++ dots_lf | None => msg end).
Proof.
  intro msg. destruct (index_byte CR msg) as [i|] eqn:E.
  - destruct (index_byte_some _ _ _ E) as (_ & Hn & _). intro H. apply in_app_or in H as [H|H]; [now apply Hn|].
    unfold CR, dots_lf in H. cbn in H. repeat (destruct H as [H|H]; [discriminate|]). exact H.
  - now apply index_byte_none.
Qed.

Lemma log_write_spec : forall ts lg level msg r,
  clean ts -> clean (scope lg) -> log_write ts lg level msg = Some r ->
  exists body, r = level_prefix ts level ++ scope_part (scope lg) ++ neutralize body ++ [LF]
    /\ ~ In LF body.
Proof.
  intros ts lg level msg r Hts Hsc H. unfold log_write in H.
  pose proof (msg1_no_cr msg) as Hcr.
  set (msg1 := match index_byte CR msg with Some i => firstn i msg ++ dots_lf | None => msg end) in *.
  destruct (index_byte LF msg1) as [i|] eqn:Ei; [|discriminate].
  destruct (msg2_shape _ _ Hcr Ei) as (body & Hb & Hl & Hc). rewrite Hb in H.
  inversion H; subst r. clear H. exists body. split; [|exact Hl].
  rewrite !neutralize_app.
  rewrite (clean_neutralize _ (level_prefix_clean _ level Hts)).
  rewrite (clean_neutralize _ (scope_part_clean _ Hsc)). reflexivity.
Qed.

Lemma good_of_shape : forall ts sc level body,
  clean ts -> clean sc -> ~ In LF body ->
  good_record ts sc (level_prefix ts level ++ scope_part sc ++ neutralize body ++ [LF]).
Proof.
  intros ts sc level body Hts Hsc Hl.
  pose proof (level_prefix_clean ts level Hts) as (P1 & P2 & P3).
  pose proof (scope_part_clean sc Hsc) as (S1 & S2 & S3).
  pose proof (neutralize_no_controls body) as [N1 N2].
  pose proof (neutralize_no_lf body Hl) as N3.
  split; [|split].
  - exists (level_prefix ts level ++ scope_part sc ++ neutralize body). split.
    + now rewrite <- !app_assoc.
    + intro H. apply in_app_or in H as [H|H]; [tauto|]. apply in_app_or in H as [H|H]; tauto.
  - split; intro H; apply in_app_or in H as [H|H]; try tauto; apply in_app_or in H as [H|H]; try tauto;
      apply in_app_or in H as [H|H]; try tauto; unfold CR, ESC, LF in H; cbn in H; destruct H as [H|[]]; discriminate.
  - exists ts, (abbrev level), (neutralize body ++ [LF]). split; [|split].
    + unfold level_prefix. now rewrite <- !app_assoc.
    + now left.
    + apply abbrev_cases.
Qed.

Lemma log_write_good : forall ts lg level msg r,
  clean ts -> clean (scope lg) -> log_write ts lg level msg = Some r -> good_record ts (scope lg) r.
Proof.
  intros ts lg level msg r Hts Hsc H.
  destruct (log_write_spec _ _ _ _ _ Hts Hsc H) as (body & -> & Hl). now apply good_of_shape.
Qed.

Lemma log_write_total : forall ts lg level s, log_write ts lg level (s ++ [LF]) <> None.
Proof.
  intros ts lg level s H. unfold log_write in H.
  set (msg1 := match index_byte CR (s ++ [LF]) with Some i => firstn i (s ++ [LF]) ++ dots_lf | None => s ++ [LF] end) in *.
  assert (Hin : In LF msg1).
  { unfold msg1. destruct (index_byte CR (s ++ [LF])); apply in_or_app; right; unfold dots_lf, LF; cbn; tauto. }
  destruct (index_byte LF msg1) eqn:E; [discriminate|]. now apply index_byte_none in E.
Qed.

Lemma log_msg_spec : forall ts l level s, clean ts ->
  (forall lg, l = Some lg -> clean (scope lg)) ->
  exists rs, log_msg ts l level s = Recs rs /\ length rs <= 1
    /\ (forall lg, l = Some lg -> Forall (good_record ts (scope lg)) rs)
    /\ (l = None -> rs = [])
    /\ (forall lg, l = Some lg -> lvl lg < level -> rs = []).
Proof.
  intros ts l level s Hts Hsc. unfold log_msg. destruct l as [lg|].
  - destruct (Nat.leb level (lvl lg)) eqn:E.
    + destruct (log_write ts lg level (s ++ [LF])) as [r|] eqn:Er; [|now apply log_write_total in Er].
      exists [r]. repeat split; try (cbn; lia); try discriminate.
      * intros lg' H'. inversion H'; subst. constructor; [|constructor].
        eapply log_write_good; eauto.
      * intros lg' H' Hlt. inversion H'; subst. apply Nat.leb_le in E. lia.
    + exists []. repeat split; try (cbn; lia); constructor.
  - exists []. repeat split; try (cbn; lia); try discriminate; constructor.
Qed.

(* ---------- Sublogger ---------- *)
Lemma name_ok_scope : forall n, name_ok n = true -> scope_ok n = true.
Proof.
  intros n H. unfold name_ok in H. destruct n; [discriminate|].
  unfold scope_ok. rewrite forallb_forall in *. intros x Hx. rewrite (H x Hx). reflexivity.
Qed.

Lemma scope_ok_app : forall a b, scope_ok (a ++ b) = scope_ok a && scope_ok b.
Proof. intros. unfold scope_ok. apply forallb_app. Qed.

Lemma scope_ext_ok : forall sc n, scope_ok sc = true -> name_ok n = true ->
  scope_ok (match sc with [] => n | _ => sc ++ [46] ++ n end) = true.
Proof.
  intros sc n H1 H2. destruct sc as [|b t]; [now apply name_ok_scope|].
  rewrite !scope_ok_app, H1, (name_ok_scope _ H2). reflexivity.
Qed.

Lemma subloggers_none : forall ts names, subloggers ts None names = (None, Recs []).
Proof. induction names as [|n t IH]; [reflexivity|]. cbn. now rewrite IH. Qed.

Lemma subloggers_spec : forall ts names lv sc, clean ts -> scope_ok sc = true ->
  exists b, subloggers ts (Some {| lvl := lv; scope := sc |}) names
            = (match scope_of sc names with Some s => Some {| lvl := lv; scope := s |} | None => None end,
               Recs b)
    /\ length b <= 1 /\ Forall (good_record ts (warn_scope sc names)) b
    /\ (forall s, scope_of sc names = Some s -> scope_ok s = true).
Proof.
  induction names as [|n t IH]; intros lv sc Hts Hsc.
  - exists []. cbn. repeat split; try lia; try constructor. intros s H; inversion H; now subst.
  - cbn [subloggers sublogger scope_of warn_scope lvl scope]. destruct (name_ok n) eqn:En.
    + pose proof (scope_ext_ok _ _ Hsc En) as Hext.
      destruct sc as [|c0 sc0]; cbn iota in *.
      * destruct (IH lv n Hts Hext) as (b & Hb & Hl & Hg & Hs).
        rewrite Hb. exists b. cbn [emitted_app app]. repeat split; assumption.
      * destruct (IH lv ((c0 :: sc0) ++ [46] ++ n) Hts Hext) as (b & Hb & Hl & Hg & Hs).
        rewrite Hb. exists b. cbn [emitted_app app]. repeat split; assumption.
    + rewrite subloggers_none.
      destruct (log_msg_spec ts (Some {| lvl := lv; scope := sc |}) warn_level sublogger_warning Hts)
        as (rs & Hr & Hl & Hg & _).
      { intros lg H; inversion H; subst. now apply scope_ok_clean. }
      rewrite Hr. exists rs. cbn [emitted_app]. rewrite app_nil_r. repeat split; try assumption.
      * apply (Hg _ eq_refl).
      * discriminate.
Qed.

(* ---------- the prefix matcher ---------- *)
Lemma match_shape_split : forall sh s, match_shape sh s = true ->
  exists a b, s = a ++ b /\ length a = length sh /\ Forall2 (fun p x => pat_ok p x = true) sh a.
Proof.
  induction sh as [|p sh IH]; intros s H.
  - exists [], s. repeat split; constructor.
  - destruct s as [|x s]; [discriminate|]. cbn in H. apply andb_true_iff in H as [H1 H2].
    destruct (IH _ H2) as (a & b & -> & Hl & Hf). exists (x :: a), b.
    repeat split; [cbn; lia|now constructor].
Qed.

Lemma forall2_match_shape : forall sh a, Forall2 (fun p x => pat_ok p x = true) sh a ->
  match_shape sh a = true.
Proof. induction 1; cbn; [reflexivity|]. now rewrite H, IHForall2. Qed.

Lemma digit_clean : forall b, is_digit b = true -> b <> LF /\ b <> CR /\ b <> ESC.
Proof. intros b H. unfold LF, CR, ESC. repeat split; intro E; subst; discriminate. Qed.

Definition pat_clean (p : pat) : Prop :=
  match p with PC c => c <> LF /\ c <> CR /\ c <> ESC | _ => True end.

Lemma level_letter_in : forall c, abbrev_to_level c <> None -> In c abbreviations.
Proof.
  intros c H. unfold abbrev_to_level in H. destruct (index_byte c abbreviations) as [i|] eqn:E; [|congruence].
  destruct (index_byte_some _ _ _ E) as (Hs & _ & _). rewrite Hs. apply in_or_app. right. now left.
Qed.

Lemma forall2_clean : forall sh a, Forall pat_clean sh ->
  Forall2 (fun p x => pat_ok p x = true) sh a -> clean a.
Proof.
  intros sh a Hc Hf. induction Hf as [|p x sh a Hp Hf IH]; [repeat split; intros []|].
  inversion Hc as [|? ? Hc1 Hc2]; subst. specialize (IH Hc2).
  assert (Hx : x <> LF /\ x <> CR /\ x <> ESC).
  { destruct p as [|c|]; cbn [pat_ok] in Hp.
    - now apply digit_clean.
    - apply Nat.eqb_eq in Hp. subst. exact Hc1.
    - assert (Hin : In x abbreviations).
      { apply level_letter_in. intro Hn. rewrite Hn in Hp. discriminate. }
      destruct (abbrev_chars_clean x (or_introl Hin)) as (A1 & A2 & A3).
      repeat split; intro; subst; [apply A1|apply A2|apply A3]; now left. }
  destruct IH as (I1 & I2 & I3). destruct Hx as (X1 & X2 & X3).
  repeat split; intros [H|H]; try congruence; tauto.
Qed.

Lemma ts_shape_clean : Forall pat_clean ts_shape.
Proof. unfold ts_shape, pat_clean, LF, CR, ESC. repeat constructor; discriminate. Qed.

Lemma Forall2_len : forall (A B : Type) (R : A -> B -> Prop) l l', Forall2 R l l' -> length l = length l'.
Proof. induction 1; cbn; congruence. Qed.

Lemma match_prefix_inv : forall line m0 c, match_prefix line = Some (m0, c) ->
  exists t rest, line = t ++ [32; 91; c; 93; 32] ++ rest
    /\ m0 = t ++ [32; 91; c; 93; 32] /\ length m0 = 31
    /\ ts_like t /\ clean t /\ (abbrev_to_level c <> None).
Proof.
  intros line m0 c H. unfold match_prefix in H.
  destruct (match_shape prefix_shape line) eqn:E; [|discriminate].
  assert (Hm0 : m0 = firstn prefix_len line /\ c = nth 28 line 0) by (split; congruence).
  destruct Hm0 as [Hm0 Hc]. rewrite Hm0, Hc. clear H Hm0 Hc m0 c.
  destruct (match_shape_split _ _ E) as (a & rest & -> & Hl & Hf).
  unfold prefix_shape in Hf. apply Forall2_app_inv_l in Hf as (t & u & Ht & Hu & ->).
  assert (Hlt : length t = 26) by (apply Forall2_len in Ht; cbn in Ht; lia).
  inversion Hu as [|p1 x1 ? ? P1 Hu1]; subst. inversion Hu1 as [|p2 x2 ? ? P2 Hu2]; subst.
  inversion Hu2 as [|p3 x3 ? ? P3 Hu3]; subst. inversion Hu3 as [|p4 x4 ? ? P4 Hu4]; subst.
  inversion Hu4 as [|p5 x5 ? ? P5 Hu5]; subst. inversion Hu5; subst.
  cbn [pat_ok] in P1, P2, P3, P4, P5.
  apply Nat.eqb_eq in P1. apply Nat.eqb_eq in P2. apply Nat.eqb_eq in P4. apply Nat.eqb_eq in P5. subst.
  assert (Hn : nth 28 ((t ++ [32; 91; x3; 93; 32]) ++ rest) 0 = x3).
  { rewrite <- app_assoc. rewrite app_nth2 by lia. rewrite Hlt. reflexivity. }
  rewrite Hn.
  assert (Hf31 : firstn prefix_len ((t ++ [32; 91; x3; 93; 32]) ++ rest) = t ++ [32; 91; x3; 93; 32]).
  { unfold prefix_len. rewrite firstn_app.
    assert (Hl31 : length (t ++ [32; 91; x3; 93; 32]) = 31) by (rewrite app_length; cbn [length]; lia).
    rewrite Hl31, Nat.sub_diag. change (firstn 0 rest) with (@nil nat). rewrite app_nil_r. apply firstn_all2. lia. }
  rewrite Hf31. exists t, rest. repeat split.
  - now rewrite <- app_assoc.
  - rewrite app_length. cbn. lia.
  - now apply forall2_match_shape.
  - exact Hlt.
  - apply (forall2_clean _ _ ts_shape_clean Ht).
  - apply (forall2_clean _ _ ts_shape_clean Ht).
  - apply (forall2_clean _ _ ts_shape_clean Ht).
  - intro Hnone. rewrite Hnone in P3. discriminate.
Qed.

(* ---------- the relay callback ---------- *)
Lemma relay_cb_spec : forall ts lg level line,
  clean ts -> scope_ok (scope lg) = true -> ~ In LF line ->
  exists rs, relay_cb ts lg level line = Recs rs /\ length rs <= 1
    /\ Forall (good_record ts (scope lg)) rs.
Proof.
  intros ts lg level line Hts Hsc Hl. pose proof (scope_ok_clean _ Hsc) as Hcl.
  unfold relay_cb. destruct (match_prefix line) as [[m0 c]|] eqn:Em.
  - destruct (match_prefix_inv _ _ _ Em) as (t & rest & Hline & Hm0 & Hlen & Htl & Htc & Hc).
    destruct (abbrev_to_level c) as [ll|] eqn:Ec; [|congruence].
    destruct (Nat.ltb (lvl lg) ll); [exists []; repeat split; [cbn; lia|constructor]|].
    eexists. split; [reflexivity|]. split; [cbn; lia|]. constructor; [|constructor].
    assert (Hin : In c abbreviations) by (apply level_letter_in; congruence).
    assert (Hrest : ~ In LF rest).
    { intro H. apply Hl. rewrite Hline. apply in_or_app. right. apply in_or_app. now right. }
    assert (Hm0c : clean m0).
    { subst m0. apply clean_app; [exact Htc|].
      change [32; 91; c; 93; 32] with ([32; 91] ++ [c] ++ [93; 32]).
      apply clean_app; [|apply clean_app; [apply abbrev_chars_clean; now left|]];
        unfold clean, LF, CR, ESC; cbn; repeat split; intro H; repeat (destruct H as [H|H]; [discriminate|]); exact H. }
    assert (Hskip : skipn (length m0) line = rest).
    { rewrite Hline, Hm0. rewrite app_assoc. rewrite skipn_app, skipn_all, Nat.sub_diag. reflexivity. }
    (* both branches produce  m0 ++ scope_part sc ++ neutralize rest ++ [LF] *)
    assert (Hrec : neutralize (match scope lg with
                               | [] => line ++ [LF]
                               | sc => m0 ++ [91] ++ sc ++ [93; 32] ++ skipn (length m0) line ++ [LF]
                               end)
                   = m0 ++ scope_part (scope lg) ++ neutralize rest ++ [LF]).
    { destruct (scope lg) as [|b sc'] eqn:Es.
      - rewrite Hline. rewrite app_assoc, <- Hm0. rewrite <- app_assoc.
        rewrite !neutralize_app. rewrite (clean_neutralize _ Hm0c). reflexivity.
      - rewrite Hskip.
        assert (Hx : m0 ++ [91] ++ (b :: sc') ++ [93; 32] ++ rest ++ [LF]
                     = m0 ++ scope_part (b :: sc') ++ rest ++ [LF])
          by (unfold scope_part; now rewrite <- !app_assoc).
        rewrite Hx. clear Hx.
        rewrite !neutralize_app. rewrite (clean_neutralize _ Hm0c).
        rewrite (clean_neutralize _ (scope_part_clean _ Hcl)). reflexivity. }
    rewrite Hrec. clear Hrec.
    pose proof (scope_part_clean _ Hcl) as (S1 & S2 & S3).
    destruct Hm0c as (M1 & M2 & M3).
    pose proof (neutralize_no_controls rest) as [N1 N2].
    pose proof (neutralize_no_lf rest Hrest) as N3.
    split; [|split].
    + exists (m0 ++ scope_part (scope lg) ++ neutralize rest). split.
      * now rewrite <- !app_assoc.
      * intro H. apply in_app_or in H as [H|H]; [tauto|]. apply in_app_or in H as [H|H]; tauto.
    + split; intro H; apply in_app_or in H as [H|H]; try tauto; apply in_app_or in H as [H|H]; try tauto;
        apply in_app_or in H as [H|H]; try tauto; unfold CR, ESC, LF in H; cbn in H; destruct H as [H|[]]; discriminate.
    + exists t, c, (neutralize rest ++ [LF]). split; [|split].
      * rewrite Hm0. now rewrite <- !app_assoc.
      * now right.
      * now left.
  - destruct (log_msg_spec ts (Some lg) level line Hts) as (rs & Hr & Hlen & Hg & _).
    { intros lg' H; inversion H; subst; exact Hcl. }
    exists rs. repeat split; try assumption. now apply Hg.
Qed.

Lemma relay_cb_filtered : forall ts lg level line m0 c ll,
  match_prefix line = Some (m0, c) -> abbrev_to_level c = Some ll -> lvl lg < ll ->
  relay_cb ts lg level line = Recs [].
Proof.
  intros ts lg level line m0 c ll Hm Hc Hlt. unfold relay_cb. rewrite Hm, Hc.
  replace (Nat.ltb (lvl lg) ll) with true by (symmetry; now apply Nat.ltb_lt). reflexivity.
Qed.

Lemma relay_lines_spec : forall ts lg level lines,
  clean ts -> scope_ok (scope lg) = true -> Forall no_lf lines ->
  exists rs, relay_lines ts lg level lines = Recs rs /\ length rs <= length lines
    /\ Forall (good_record ts (scope lg)) rs.
Proof.
  induction lines as [|l t IH]; intros Hts Hsc Hl.
  - exists []. repeat split; [cbn; lia|constructor].
  - inversion Hl as [|? ? Hl1 Hl2]; subst. destruct (IH Hts Hsc Hl2) as (rs & Hr & Hlen & Hg).
    destruct (relay_cb_spec ts lg level l Hts Hsc Hl1) as (r1 & Hr1 & Hlen1 & Hg1).
    cbn [relay_lines]. rewrite Hr, Hr1. exists (r1 ++ rs). cbn [emitted_app].
    repeat split; [rewrite app_length; cbn; lia| now apply Forall_app].
Qed.

(* the lines the splitter hands to the callback never contain LF *)
Lemma trim_cr_no_lf : forall l, no_lf l -> no_lf (trim_cr l).
Proof.
  intros l H. unfold trim_cr. destruct (Nat.eqb (last l 0) CR); [|exact H].
  intro Hin. apply H. destruct l as [|x l]; [destruct Hin|].
  rewrite (app_removelast_last 0 (l:=x :: l)) by discriminate. apply in_or_app. now left.
Qed.

Lemma lp_writes_no_lf : forall ws out max before, lp_writes_prop max before ws out ->
  Forall (fun r : lres => Forall no_lf (snd r)) out.
Proof.
  induction ws as [|d ws IH]; destruct out as [|[[n e] cbs] out]; intros max before H;
    cbn [lp_writes_prop] in H; try contradiction; [constructor|].
  destruct (lp_over max (length (unfinished before) + length d)).
  - destruct H as (_ & _ & -> & H). constructor; [constructor|eapply IH; eauto].
  - destruct H as (_ & _ & -> & H). constructor; [|eapply IH; eauto].
    cbn [snd]. apply Forall_forall. intros x Hx. apply in_map_iff in Hx as (y & <- & Hy).
    apply trim_cr_no_lf. pose proof (cut_no_lf (unfinished before ++ d)) as [Hc _].
    rewrite Forall_forall in Hc. now apply Hc.
Qed.

Lemma cl_count : forall l, length (complete_lines l) = count_lf l.
Proof.
  induction l as [|x t IH]; [reflexivity|].
  rewrite cl_cons. unfold count_lf in *. cbn [filter].
  destruct (Nat.eqb x LF) eqn:E.
  - apply Nat.eqb_eq in E. subst. cbn. now rewrite IH.
  - rewrite Nat.eqb_sym in E. rewrite E. rewrite <- IH. destruct (complete_lines t); reflexivity.
Qed.

Lemma count_lf_app : forall a b, count_lf (a ++ b) = count_lf a + count_lf b.
Proof. intros. unfold count_lf. now rewrite filter_app, app_length. Qed.

Lemma lp_writes_count : forall ws out max before, lp_writes_prop max before ws out ->
  Forall (fun p : list nat * lres => length (snd (snd p)) <= count_lf (fst p)) (combine ws out).
Proof.
  induction ws as [|d ws IH]; destruct out as [|[[n e] cbs] out]; intros max before H;
    cbn [lp_writes_prop combine] in *; try contradiction; try constructor.
  - destruct (lp_over max (length (unfinished before) + length d)).
    + destruct H as (_ & _ & -> & _). cbn. lia.
    + destruct H as (_ & _ & -> & _). cbn [fst snd]. rewrite map_length, cl_count, count_lf_app.
      destruct (uf_idem before) as [Hc _]. rewrite <- cl_count, Hc. cbn. lia.
  - destruct (lp_over max (length (unfinished before) + length d));
      destruct H as (_ & _ & _ & H); eapply IH; eauto.
Qed.

Lemma relay_results_spec : forall ts lg level lo,
  clean ts -> scope_ok (scope lg) = true ->
  Forall (fun r : lres => Forall no_lf (snd r)) lo ->
  exists rs, relay_results ts lg level lo = Some rs
    /\ Forall2 (fun (l : lres) (r : rres) =>
         fst r = fst l /\ relay_lines ts lg level (snd l) = Recs (snd r)
         /\ length (snd r) <= length (snd l)
         /\ Forall (good_record ts (scope lg)) (snd r)) lo rs.
Proof.
  induction lo as [|[[n e] cbs] lo IH]; intros Hts Hsc Hf.
  - exists []. split; [reflexivity|constructor].
  - inversion Hf as [|? ? Hf1 Hf2]; subst. destruct (IH Hts Hsc Hf2) as (rs & Hr & Hall).
    destruct (relay_lines_spec ts lg level cbs Hts Hsc Hf1) as (r1 & Hr1 & Hl1 & Hg1).
    cbn [relay_results]. rewrite Hr1, Hr. exists ((n, e, r1) :: rs). split; [reflexivity|].
    constructor; [|exact Hall]. cbn [fst snd]. repeat split; assumption.
Qed.

Lemma relay_run_spec : forall ts lg level ws,
  clean ts -> scope_ok (scope lg) = true ->
  exists lo rs, lp_run 0 ws = LOut lo /\ lp_prop 0 ws lo
    /\ relay_run ts (Some lg) level ws = ROut rs
    /\ Forall2 (fun (l : lres) (r : rres) =>
         fst r = fst l /\ relay_lines ts lg level (snd l) = Recs (snd r)
         /\ length (snd r) <= length (snd l)
         /\ Forall (good_record ts (scope lg)) (snd r)) lo rs.
Proof.
  intros ts lg level ws Hts Hsc. destruct (lp_correct 0 ws) as (lo & Hlo & Hp).
  pose proof Hp as (Hw & _).
  destruct (relay_results_spec ts lg level lo Hts Hsc (lp_writes_no_lf _ _ _ _ Hw)) as (rs & Hr & Hall).
  exists lo, rs. split; [exact Hlo|]. split; [exact Hp|]. split; [|exact Hall].
  unfold relay_run. now rewrite Hlo, Hr.
Qed.

(* ---------- the boolean checker ---------- *)
Lemma count_lf_zero : forall l, count_lf l = 0 -> ~ In LF l.
Proof.
  intros l H Hin. unfold count_lf in H.
  assert (Hf : In LF (filter (Nat.eqb LF) l)) by (apply filter_In; split; [exact Hin|apply Nat.eqb_refl]).
  destruct (filter (Nat.eqb LF) l); [destruct Hf|discriminate].
Qed.

Lemma one_lineb_sound : forall r, one_lineb r = true -> one_line r.
Proof.
  intros r H. unfold one_lineb in H. apply andb_true_iff in H as [H1 H2].
  apply Nat.eqb_eq in H1. apply Nat.eqb_eq in H2.
  destruct r as [|x r]; [discriminate|].
  exists (removelast (x :: r)). split.
  - rewrite <- H1. apply app_removelast_last. discriminate.
  - apply count_lf_zero.
    rewrite (app_removelast_last 0 (l:=x :: r)) in H2 by discriminate.
    rewrite count_lf_app, H1 in H2. change (count_lf [LF]) with 1 in H2. lia.
Qed.

Lemma existsb_eqb_false : forall c l, existsb (Nat.eqb c) l = false -> ~ In c l.
Proof.
  intros c l H Hin. assert (Ht : existsb (Nat.eqb c) l = true).
  { apply existsb_exists. exists c. split; [exact Hin|apply Nat.eqb_refl]. }
  congruence.
Qed.

Lemma no_controlsb_sound : forall r, no_controlsb r = true -> no_controls r.
Proof.
  intros r H. unfold no_controlsb in H. apply andb_true_iff in H as [H1 H2].
  apply negb_true_iff in H1. apply negb_true_iff in H2.
  split; now apply existsb_eqb_false.
Qed.

Lemma starts_with_split : forall p s, starts_with p s = true -> s = p ++ skipn (length p) s.
Proof.
  induction p as [|a p IH]; intros s H; [reflexivity|].
  destruct s as [|b s]; [discriminate|]. cbn in H. apply andb_true_iff in H as [H1 H2].
  apply Nat.eqb_eq in H1. subst. cbn. f_equal. now apply IH.
Qed.

Lemma is_abbrev_sound : forall c, is_abbrev c = true -> In c abbreviations \/ c = 63.
Proof.
  intros c H. unfold is_abbrev in H. apply orb_true_iff in H as [H|H].
  - left. apply existsb_exists in H as (x & Hx & He). apply Nat.eqb_eq in He. now subst.
  - right. now apply Nat.eqb_eq.
Qed.

Lemma has_prefixb_sound : forall ts sc r, has_prefixb ts sc r = true -> has_prefix ts sc r.
Proof.
  intros ts sc r H. unfold has_prefixb in H.
  set (after_ts := fun rest : list nat =>
    match rest with
    | 32 :: 91 :: c :: 93 :: 32 :: rest' => is_abbrev c && starts_with (scope_part sc) rest'
    | _ => false
    end) in H.
  assert (Hafter : forall rest, after_ts rest = true ->
            exists c rest'', rest = [32; 91] ++ [c] ++ [93; 32] ++ scope_part sc ++ rest''
                             /\ (In c abbreviations \/ c = 63)).
  { intros rest Ha. unfold after_ts in Ha.
    destruct rest as [|x1 rest]; [discriminate|].
    destruct x1 as [|x1]; [discriminate|]. do 31 (destruct x1 as [|x1]; [discriminate|]).
    destruct x1 as [|x1]; [|discriminate].
    destruct rest as [|x2 rest]; [discriminate|].
    do 91 (destruct x2 as [|x2]; [discriminate|]). destruct x2 as [|x2]; [|discriminate].
    destruct rest as [|c rest]; [discriminate|].
    destruct rest as [|x4 rest]; [discriminate|].
    do 93 (destruct x4 as [|x4]; [discriminate|]). destruct x4 as [|x4]; [|discriminate].
    destruct rest as [|x5 rest]; [discriminate|].
    do 32 (destruct x5 as [|x5]; [discriminate|]). destruct x5 as [|x5]; [|discriminate].
    apply andb_true_iff in Ha as [Ha1 Ha2].
    exists c, (skipn (length (scope_part sc)) rest). split.
    - cbn [app]. do 5 f_equal. now apply starts_with_split.
    - now apply is_abbrev_sound. }
  apply orb_true_iff in H as [H|H]; apply andb_true_iff in H as [H1 H2].
  - destruct (Hafter _ H2) as (c & rest'' & Hr & Hc).
    exists ts, c, rest''. split; [|split; [now left|exact Hc]].
    rewrite (starts_with_split _ _ H1) at 1. now rewrite Hr.
  - destruct (Hafter _ H2) as (c & rest'' & Hr & Hc).
    destruct (match_shape_split _ _ H1) as (a & b & Hab & Hl & Hf).
    assert (Hl26 : length a = 26) by (rewrite Hl; reflexivity).
    exists a, c, rest''. split; [|split; [right|exact Hc]].
    + rewrite Hab at 1. f_equal. rewrite <- Hr. rewrite Hab.
      rewrite skipn_app, skipn_all2, Hl26 by lia. now rewrite Nat.sub_diag.
    + split; [now apply forall2_match_shape|exact Hl26].
Qed.

Lemma good_recordb_sound : forall ts sc r, good_recordb ts sc r = true -> good_record ts sc r.
Proof.
  intros ts sc r H. unfold good_recordb in H. apply andb_true_iff in H as [H H3].
  apply andb_true_iff in H as [H1 H2]. split; [|split].
  - now apply one_lineb_sound.
  - now apply no_controlsb_sound.
  - now apply has_prefixb_sound.
Qed.

Lemma forallb_good : forall ts sc l, forallb (good_recordb ts sc) l = true -> Forall (good_record ts sc) l.
Proof.
  intros ts sc l H. apply Forall_forall. intros x Hx. rewrite forallb_forall in H.
  apply good_recordb_sound. now apply H.
Qed.

Lemma check_c44_sound_all : forall ts c, check_c44 ts c = true -> c44_holds ts c.
Proof.
  intros ts c H. unfold check_c44 in H. unfold c44_holds.
  destruct (c_act c) as [level s|level ws]; destruct (c_obs c) as [b r|b res|]; try discriminate.
  - apply andb_true_iff in H as [H H3]. apply andb_true_iff in H as [H1 H2].
    apply andb_true_iff in H1 as [H1 H1'].
    repeat split.
    + now apply forallb_good.
    + now apply Nat.leb_le.
    + now apply forallb_good.
    + now apply Nat.leb_le.
  - apply andb_true_iff in H as [H H4]. apply andb_true_iff in H as [H H3].
    apply andb_true_iff in H as [H1 H2]. apply andb_true_iff in H1 as [H1 H1'].
    repeat split.
    + now apply forallb_good.
    + now apply Nat.leb_le.
    + now apply Nat.eqb_eq.
    + apply Forall_forall. intros x Hx. rewrite forallb_forall in H3. apply forallb_good. now apply H3.
    + apply Forall_forall. intros x Hx. rewrite forallb_forall in H4. apply Nat.leb_le. now apply H4.
Qed.

(* ---------- the model's own output has the property ---------- *)
Lemma forall2_combine_count : forall ws lo rs,
  Forall (fun p : list nat * lres => length (snd (snd p)) <= count_lf (fst p)) (combine ws lo) ->
  Forall2 (fun (l : lres) (r : rres) => length (snd r) <= length (snd l)) lo rs ->
  Forall (fun p : list nat * rres => length (snd (snd p)) <= count_lf (fst p)) (combine ws rs).
Proof.
  induction ws as [|d ws IH]; intros lo rs H1 H2; [constructor|].
  destruct H2 as [|l r lo rs Hlr H2]; [constructor|].
  cbn [combine] in *. inversion H1; subst. constructor; [cbn [fst snd] in *; lia|].
  eapply IH; eauto.
Qed.

Lemma model_holds_all : forall ts lv names a, clean ts ->
  c44_holds ts {| c_lvl := lv; c_names := names; c_act := a; c_obs := run_case ts lv names a |}.
Proof.
  intros ts lv names a Hts. unfold c44_holds, run_case. cbn [c_act c_obs c_names].
  destruct (subloggers_spec ts names lv [] Hts eq_refl) as (b & Hb & Hbl & Hbg & Hs).
  rewrite Hb. destruct a as [level s|level ws].
  - destruct (scope_of [] names) as [sc|] eqn:Esc.
    + destruct (log_msg_spec ts (Some {| lvl := lv; scope := sc |}) level s Hts) as (rs & Hr & Hl & Hg & _).
      { intros lg H; inversion H; subst. apply scope_ok_clean. now apply Hs. }
      rewrite Hr. repeat split; try assumption. apply (Hg _ eq_refl).
    + cbn [log_msg]. repeat split; try assumption; [constructor|cbn; lia].
  - destruct (scope_of [] names) as [sc|] eqn:Esc.
    + destruct (relay_run_spec ts {| lvl := lv; scope := sc |} level ws Hts (Hs _ eq_refl))
        as (lo & rs & Hlo & Hp & Hr & Hall).
      rewrite Hr. destruct Hp as (Hw & _).
      assert (Hlen : length rs = length ws).
      { apply Forall2_len in Hall. rewrite <- Hall.
        pose proof (lp_run_passes 0 ws) as Hc. rewrite Hlo in Hc. cbn in Hc.
        eapply check_lp_writes_length; eauto. }
      repeat split; try assumption.
      * clear - Hall. induction Hall as [|l r lo rs (_ & _ & _ & Hg) _ IH]; constructor; assumption.
      * apply (forall2_combine_count ws lo rs (lp_writes_count _ _ _ _ Hw)).
        clear - Hall. induction Hall as [|l r lo rs (_ & _ & Hl & _) _ IH]; constructor; assumption.
    + cbn [relay_run]. repeat split; try assumption.
      * now rewrite map_length.
      * apply Forall_forall. intros x Hx. apply in_map_iff in Hx as (d & <- & _). constructor.
      * clear. induction ws as [|d ws IH]; cbn; constructor; [cbn; lia|exact IH].
Qed.

(* non-vacuity *)
Lemma logging_examples :
  let ts := [48] in
  (* "a\rb\nc" logged at Info by logger "x" *)
  log_msg ts (Some {| lvl := 3; scope := [120] |}) 3 [97; 13; 98; 10; 99]
    = Recs [[48; 32; 91; 73; 93; 32; 91; 120; 93; 32; 97; 46; 46; 46; 10]]
  (* ESC [ 3 1 m *)
  /\ log_msg ts (Some {| lvl := 3; scope := [] |}) 1 [27; 91; 51; 49; 109]
    = Recs [[48; 32; 91; 69; 93; 32; 94; 91; 91; 51; 49; 109; 10]]
  /\ clean ts /\ scope_ok [120; 46; 121] = true.
Proof.
  cbn zeta. split; [vm_compute; reflexivity|]. split; [vm_compute; reflexivity|].
  split; [|reflexivity]. unfold clean, LF, CR, ESC. cbn. repeat split; intros [H|[]]; discriminate.
Qed.

(* ---------- the statements of Props/C44.v ---------- *)
Lemma log_write_one_line : forall ts lg level msg r,
  clean ts -> scope_ok (scope lg) = true -> log_write ts lg level msg = Some r -> one_line r.
Proof. intros ts lg level msg r Hts Hsc H. apply (log_write_good _ _ _ _ _ Hts (scope_ok_clean _ Hsc) H). Qed.

Lemma log_write_no_controls : forall ts lg level msg r,
  clean ts -> scope_ok (scope lg) = true -> log_write ts lg level msg = Some r -> no_controls r.
Proof. intros ts lg level msg r Hts Hsc H. apply (log_write_good _ _ _ _ _ Hts (scope_ok_clean _ Hsc) H). Qed.

Lemma log_write_prefix : forall ts lg level msg r,
  clean ts -> scope_ok (scope lg) = true -> log_write ts lg level msg = Some r ->
  exists rest, r = ts ++ [32; 91] ++ [abbrev level] ++ [93; 32] ++ scope_part (scope lg) ++ rest.
Proof.
  intros ts lg level msg r Hts Hsc H.
  destruct (log_write_spec _ _ _ _ _ Hts (scope_ok_clean _ Hsc) H) as (body & -> & _).
  exists (neutralize body ++ [LF]). unfold level_prefix. now rewrite <- !app_assoc.
Qed.

Lemma log_msg_total : forall ts lg level s, clean ts -> scope_ok (scope lg) = true ->
  exists rs, log_msg ts (Some lg) level s = Recs rs /\ length rs <= 1
    /\ Forall (good_record ts (scope lg)) rs /\ (lvl lg < level -> rs = []).
Proof.
  intros ts lg level s Hts Hsc.
  destruct (log_msg_spec ts (Some lg) level s Hts) as (rs & Hr & Hl & Hg & _ & Hf).
  { intros lg' H; inversion H; subst. now apply scope_ok_clean. }
  exists rs. repeat split; try assumption; [now apply Hg|intro; now apply (Hf lg)].
Qed.
