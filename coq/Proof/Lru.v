(* Proofs about the LRU model (Model/Lru.v); closes Props/C45.v. *)
From Coq Require Import List Arith Lia Bool Sorting.Sorted.
From Coq Require Import ZifyBool ZifyNat.
Import ListNotations.
From Mv Require Import Model.Lru.

Set Implicit Arguments.

(* ------------------------------------------------------------------ *)
(* generic list facts                                                  *)
(* ------------------------------------------------------------------ *)
Section Generic.
Variable A : Type.

Lemma evict_shape (x : A) (l : list A) :
  l <> [] ->
  exists l' a, l = l' ++ [a]
               /\ removelast (x :: l) = x :: l'
               /\ rev (x :: l) = a :: rev (x :: l').
Proof.
  intros Hne. destruct (exists_last Hne) as [l' [a Ha]].
  exists l', a. split; [exact Ha|]. subst l. split.
  - rewrite app_comm_cons. apply removelast_last.
  - rewrite app_comm_cons. apply rev_unit.
Qed.

Lemma map_removelast (B : Type) (f : A -> B) (l : list A) :
  map f (removelast l) = removelast (map f l).
Proof.
  induction l as [|x t IH]; [reflexivity|].
  destruct t as [|y t]; [reflexivity|].
  change (removelast (x :: y :: t)) with (x :: removelast (y :: t)).
  change (map f (x :: y :: t)) with (f x :: f y :: map f t).
  change (removelast (f x :: f y :: map f t))
    with (f x :: removelast (f y :: map f t)).
  rewrite map_cons. f_equal. exact IH.
Qed.

Lemma NoDup_snoc (l : list A) (a : A) :
  NoDup (l ++ [a]) -> NoDup l /\ ~ In a l.
Proof.
  intros H. apply NoDup_remove in H. rewrite app_nil_r in H. exact H.
Qed.

Variable R : A -> A -> Prop.

Lemma SS_app_l (l1 l2 : list A) :
  StronglySorted R (l1 ++ l2) -> StronglySorted R l1.
Proof.
  induction l1 as [|x t IH]; intros H; [constructor|].
  rewrite <- app_comm_cons in H. apply StronglySorted_inv in H.
  destruct H as [Hs Hf]. constructor; [exact (IH Hs)|].
  apply Forall_app in Hf. exact (proj1 Hf).
Qed.

Lemma SS_last_min (l : list A) (a : A) :
  StronglySorted R (l ++ [a]) -> Forall (fun x => R x a) l.
Proof.
  induction l as [|x t IH]; intros H; [constructor|].
  rewrite <- app_comm_cons in H. apply StronglySorted_inv in H.
  destruct H as [Hs Hf]. constructor; [|exact (IH Hs)].
  apply Forall_app in Hf. destruct Hf as [_ Hf].
  inversion Hf; assumption.
Qed.

End Generic.

(* ------------------------------------------------------------------ *)
(* facts that do not need eqK to decide equality                       *)
(* ------------------------------------------------------------------ *)
Section NoSpec.
Variables K V : Type.
Variable eqK : K -> K -> bool.

Lemma step_add (c : cache K V) k v :
  step eqK c (OAdd k v) = (fst (add eqK c k v), RAdd (snd (add eqK c k v))).
Proof. unfold step. destruct (add eqK c k v); reflexivity. Qed.

Lemma step_get (c : cache K V) k :
  step eqK c (OGet V k) = (fst (get eqK c k), RGet K (snd (get eqK c k))).
Proof. unfold step. destruct (get eqK c k); reflexivity. Qed.

Lemma step_remove (c : cache K V) k :
  step eqK c (ORemove V k)
  = (fst (remove eqK c k), RRemove (snd (remove eqK c k))).
Proof. unfold step. destruct (remove eqK c k); reflexivity. Qed.

Lemma lookup_app (l1 l2 : list (K * V)) k :
  lookup eqK (l1 ++ l2) k
  = match lookup eqK l1 k with Some v => Some v | None => lookup eqK l2 k end.
Proof.
  induction l1 as [|[k0 v0] t IH]; simpl; [reflexivity|].
  destruct (eqK k k0); [reflexivity|exact IH].
Qed.

Lemma remove_key_incl (l : list (K * V)) k x :
  In x (map fst (remove_key eqK l k)) -> In x (map fst l).
Proof.
  induction l as [|[k0 v0] t IH]; simpl; [tauto|].
  destruct (eqK k k0); simpl; [tauto|]. intros [H|H]; [left; exact H|right; exact (IH H)].
Qed.

Lemma remove_key_NoDup (l : list (K * V)) k :
  NoDup (map fst l) -> NoDup (map fst (remove_key eqK l k)).
Proof.
  induction l as [|[k0 v0] t IH]; simpl; intros H; [constructor|].
  inversion H as [|? ? Hn Hd]; subst.
  destruct (eqK k k0); simpl; [exact Hd|].
  constructor; [|exact (IH Hd)].
  intros Hin. apply Hn. exact (remove_key_incl _ _ _ Hin).
Qed.

Lemma remove_key_length (l : list (K * V)) k v :
  lookup eqK l k = Some v -> S (length (remove_key eqK l k)) = length l.
Proof.
  induction l as [|[k0 v0] t IH]; simpl; [discriminate|].
  destruct (eqK k k0); simpl; [reflexivity|].
  intros H. rewrite (IH H). reflexivity.
Qed.

(* the three possible behaviours of Add *)
Lemma add_cases (c : cache K V) k v :
  (exists v0, lookup eqK (order c) k = Some v0
     /\ add eqK c k v
        = ({| max_entries := max_entries c;
              order := (k, v) :: remove_key eqK (order c) k |}, []))
  \/ (lookup eqK (order c) k = None
      /\ (max_entries c = 0 \/ S (length (order c)) <= max_entries c)
      /\ add eqK c k v
         = ({| max_entries := max_entries c; order := (k, v) :: order c |}, []))
  \/ (lookup eqK (order c) k = None
      /\ max_entries c <> 0
      /\ exists l' a, order c = l' ++ [a]
           /\ add eqK c k v
              = ({| max_entries := max_entries c; order := (k, v) :: l' |}, [a])).
Proof.
  unfold add. cbv zeta.
  destruct (lookup eqK (order c) k) as [v0|] eqn:Hl.
  - left. exists v0. split; reflexivity.
  - right.
    destruct (negb (max_entries c =? 0) && (max_entries c <? length ((k, v) :: order c)))
      eqn:Hc.
    + right. apply andb_true_iff in Hc. destruct Hc as [H1 H2].
      apply negb_true_iff in H1. apply Nat.eqb_neq in H1. apply Nat.ltb_lt in H2.
      assert (Hne : order c <> []).
      { intros H0. rewrite H0 in H2. simpl in H2. lia. }
      destruct (evict_shape (k, v) Hne) as (l' & a & Ho & Hrl & Hrev).
      rewrite Hrl, Hrev. split; [reflexivity|]. split; [exact H1|].
      exists l', a. split; [exact Ho|reflexivity].
    + left. split; [reflexivity|]. split; [|reflexivity].
      apply andb_false_iff in Hc. destruct Hc as [Hc|Hc].
      * left. apply negb_false_iff in Hc. apply Nat.eqb_eq in Hc. exact Hc.
      * right. apply Nat.ltb_ge in Hc. simpl in Hc. exact Hc.
Qed.

Lemma step_max (c : cache K V) o : max_entries (fst (step eqK c o)) = max_entries c.
Proof.
  destruct o as [k v|k|k|].
  - rewrite step_add. cbn [fst].
    destruct (add_cases c k v) as [(v0 & _ & E)|[(_ & _ & E)|(_ & _ & l' & a & _ & E)]];
      rewrite E; reflexivity.
  - rewrite step_get. cbn [fst]. unfold get.
    destruct (lookup eqK (order c) k); reflexivity.
  - rewrite step_remove. cbn [fst]. unfold remove.
    destruct (lookup eqK (order c) k); reflexivity.
  - reflexivity.
Qed.

Lemma run_state_max (ops : list (op K V)) :
  forall c, max_entries (run_state eqK c ops) = max_entries c.
Proof.
  induction ops as [|o rest IH]; intros c; simpl; [reflexivity|].
  rewrite IH. apply step_max.
Qed.

(* ---------- ghost model erases to the plain model ---------- *)
Lemma glookup_erase (l : list (K * V * nat)) k :
  glookup eqK l k = lookup eqK (map fst l) k.
Proof.
  induction l as [|[[k0 v0] t0] t IH]; simpl; [reflexivity|].
  destruct (eqK k k0); [reflexivity|exact IH].
Qed.

Lemma gremove_key_erase (l : list (K * V * nat)) k :
  map fst (gremove_key eqK l k) = remove_key eqK (map fst l) k.
Proof.
  induction l as [|[[k0 v0] t0] t IH]; simpl; [reflexivity|].
  destruct (eqK k k0); simpl; [reflexivity|]. rewrite IH. reflexivity.
Qed.

Lemma erase_step (c : gcache K V) o :
  erase (fst (gstep eqK c o)) = fst (step eqK (erase c) o).
Proof.
  destruct c as [m l clk]. destruct o as [k v|k|k|].
  - rewrite step_add. cbn [fst]. unfold gstep, add, erase. cbv zeta.
    cbn [gmax gorder gclock max_entries order].
    rewrite glookup_erase.
    destruct (lookup eqK (map fst l) k) as [v0|].
    + cbn [fst gmax gorder]. rewrite map_cons, gremove_key_erase. reflexivity.
    + cbn [length]. rewrite map_length.
      destruct (negb (m =? 0) && (m <? S (length l))); cbn [fst gmax gorder].
      * rewrite map_removelast. reflexivity.
      * reflexivity.
  - rewrite step_get. cbn [fst]. unfold gstep, get, erase. cbv zeta.
    cbn [gmax gorder gclock max_entries order].
    rewrite glookup_erase.
    destruct (lookup eqK (map fst l) k) as [v0|]; cbn [fst gmax gorder].
    + rewrite map_cons, gremove_key_erase. reflexivity.
    + reflexivity.
  - rewrite step_remove. cbn [fst]. unfold gstep, remove, erase. cbv zeta.
    cbn [gmax gorder gclock max_entries order].
    rewrite glookup_erase.
    destruct (lookup eqK (map fst l) k) as [v0|]; cbn [fst gmax gorder].
    + rewrite gremove_key_erase. reflexivity.
    + reflexivity.
  - reflexivity.
Qed.

Lemma erase_run (ops : list (op K V)) :
  forall c, erase (grun_state eqK c ops) = run_state eqK (erase c) ops.
Proof.
  induction ops as [|o rest IH]; intros c; simpl; [reflexivity|].
  rewrite IH, erase_step. reflexivity.
Qed.

Lemma lru_ghost_erases :
  forall n (ops : list (op K V)),
    erase (grun_state eqK (new_gcache K V n) ops)
    = run_state eqK (new_cache K V n) ops.
Proof. intros n ops. rewrite erase_run. reflexivity. Qed.

(* ---------- ghost invariant: sorted by stamp, stamps below the clock ------ *)
Notation newer := (fun a b : K * V * nat => snd a > snd b).

Definition ginv (c : gcache K V) : Prop :=
  StronglySorted newer (gorder c)
  /\ Forall (fun e => snd e <= gclock c) (gorder c).

Lemma gremove_key_incl (l : list (K * V * nat)) k e :
  In e (gremove_key eqK l k) -> In e l.
Proof.
  induction l as [|[[k0 v0] t0] t IH]; simpl; [tauto|].
  destruct (eqK k k0); simpl; [tauto|].
  intros [H|H]; [left; exact H|right; exact (IH H)].
Qed.

Lemma gremove_key_Forall (P : K * V * nat -> Prop) (l : list (K * V * nat)) k :
  Forall P l -> Forall P (gremove_key eqK l k).
Proof.
  intros H. apply Forall_forall. intros e He.
  rewrite Forall_forall in H. apply H. exact (gremove_key_incl _ _ _ He).
Qed.

Lemma gremove_key_SS (l : list (K * V * nat)) k :
  StronglySorted newer l -> StronglySorted newer (gremove_key eqK l k).
Proof.
  induction l as [|[[k0 v0] t0] t IH]; simpl; intros H; [constructor|].
  apply StronglySorted_inv in H. destruct H as [Hs Hf].
  destruct (eqK k k0); [exact Hs|].
  constructor; [exact (IH Hs)|]. apply gremove_key_Forall. exact Hf.
Qed.

Lemma ginv_tick m (l : list (K * V * nat)) clk :
  StronglySorted newer l -> Forall (fun e => snd e <= clk) l ->
  ginv {| gmax := m; gorder := l; gclock := S clk |}.
Proof.
  intros Hs Hf. split; cbn [gorder gclock]; [exact Hs|].
  apply Forall_forall. intros e He. rewrite Forall_forall in Hf.
  specialize (Hf e He). lia.
Qed.

Lemma ginv_push m (l : list (K * V * nat)) clk k v :
  StronglySorted newer l -> Forall (fun e => snd e <= clk) l ->
  ginv {| gmax := m; gorder := (k, v, S clk) :: l; gclock := S clk |}.
Proof.
  intros Hs Hf. split; cbn [gorder gclock].
  - constructor; [exact Hs|].
    apply Forall_forall. intros e He. rewrite Forall_forall in Hf.
    specialize (Hf e He). cbn [snd]. lia.
  - constructor; [cbn [snd]; lia|].
    apply Forall_forall. intros e He. rewrite Forall_forall in Hf.
    specialize (Hf e He). lia.
Qed.

Lemma gstep_ginv (c : gcache K V) o : ginv c -> ginv (fst (gstep eqK c o)).
Proof.
  destruct c as [m l clk]. intros [Hs Hf]. cbn [gorder gclock] in Hs, Hf.
  destruct o as [k v|k|k|]; unfold gstep; cbv zeta; cbn [gmax gorder gclock].
  - destruct (glookup eqK l k) as [v0|]; cbn [fst].
    + apply ginv_push; [apply gremove_key_SS; exact Hs|apply gremove_key_Forall; exact Hf].
    + destruct (negb (m =? 0) && (m <? length ((k, v, S clk) :: l))) eqn:Hc; cbn [fst].
      * apply andb_true_iff in Hc. destruct Hc as [H1 H2].
        apply negb_true_iff in H1. apply Nat.eqb_neq in H1. apply Nat.ltb_lt in H2.
        assert (Hne : l <> []).
        { intros H0. rewrite H0 in H2. simpl in H2. lia. }
        destruct (evict_shape (k, v, S clk) Hne) as (l' & a & Ho & Hrl & _).
        rewrite Hrl. subst l. apply ginv_push.
        -- exact (SS_app_l _ _ Hs).
        -- apply Forall_app in Hf. exact (proj1 Hf).
      * apply ginv_push; assumption.
  - destruct (glookup eqK l k) as [v0|]; cbn [fst].
    + apply ginv_push; [apply gremove_key_SS; exact Hs|apply gremove_key_Forall; exact Hf].
    + apply ginv_tick; assumption.
  - destruct (glookup eqK l k) as [v0|]; cbn [fst].
    + apply ginv_tick; [apply gremove_key_SS; exact Hs|apply gremove_key_Forall; exact Hf].
    + apply ginv_tick; assumption.
  - cbn [fst]. apply ginv_tick; assumption.
Qed.

Lemma grun_ginv (ops : list (op K V)) :
  forall c, ginv c -> ginv (grun_state eqK c ops).
Proof.
  induction ops as [|o rest IH]; intros c Hc; simpl; [exact Hc|].
  apply IH. apply gstep_ginv. exact Hc.
Qed.

Lemma greach_ginv n (ops : list (op K V)) :
  ginv (grun_state eqK (new_gcache K V n) ops).
Proof. apply grun_ginv. split; constructor. Qed.

Lemma gadd_evicted (c : gcache K V) k v e :
  In e (snd (gstep eqK c (OAdd k v))) -> exists l', gorder c = l' ++ [e].
Proof.
  unfold gstep. cbv zeta.
  destruct (glookup eqK (gorder c) k) as [v0|]; [cbn [snd In]; tauto|].
  destruct (negb (gmax c =? 0) && (gmax c <? length ((k, v, S (gclock c)) :: gorder c)))
    eqn:Hc; [|cbn [snd In]; tauto].
  apply andb_true_iff in Hc. destruct Hc as [H1 H2].
  apply negb_true_iff in H1. apply Nat.eqb_neq in H1. apply Nat.ltb_lt in H2.
  assert (Hne : gorder c <> []).
  { intros H0. rewrite H0 in H2. simpl in H2. lia. }
  destruct (evict_shape (k, v, S (gclock c)) Hne) as (l' & a & Ho & _ & Hrev).
  rewrite Hrev. cbn [snd In]. intros [<-|[]]. exists l'. exact Ho.
Qed.

End NoSpec.

(* ------------------------------------------------------------------ *)
(* facts that need eqK to decide equality                              *)
(* ------------------------------------------------------------------ *)
Section Spec.
Variables K V : Type.
Variable eqK : K -> K -> bool.
Hypothesis eqK_spec : forall x y, eqK x y = true <-> x = y.

Lemma eqK_refl x : eqK x x = true.
Proof. apply eqK_spec. reflexivity. Qed.

Lemma eqK_true x y : eqK x y = true -> x = y.
Proof. apply eqK_spec. Qed.

Lemma eqK_false x y : eqK x y = false -> x <> y.
Proof. intros H E. apply eqK_spec in E. congruence. Qed.

Lemma eqK_neq x y : x <> y -> eqK x y = false.
Proof.
  intros H. destruct (eqK x y) eqn:E; [|reflexivity].
  exfalso. apply H. apply eqK_true. exact E.
Qed.

Lemma lookup_None_iff (l : list (K * V)) k :
  lookup eqK l k = None <-> ~ In k (map fst l).
Proof.
  induction l as [|[k0 v0] t IH]; simpl; [tauto|].
  destruct (eqK k k0) eqn:E.
  - apply eqK_true in E. subst k0. split; [discriminate|].
    intros H. exfalso. apply H. left. reflexivity.
  - apply eqK_false in E. rewrite IH. split.
    + intros H [H1|H1]; [congruence|tauto].
    + tauto.
Qed.

Lemma lookup_remove_key_neq (l : list (K * V)) k k' :
  k <> k' -> lookup eqK (remove_key eqK l k) k' = lookup eqK l k'.
Proof.
  intros Hne. induction l as [|[k0 v0] t IH]; simpl; [reflexivity|].
  destruct (eqK k k0) eqn:E.
  - apply eqK_true in E. subst k0.
    rewrite (eqK_neq (fun H => Hne (eq_sym H))). reflexivity.
  - simpl. destruct (eqK k' k0); [reflexivity|exact IH].
Qed.

Lemma lookup_remove_key_same (l : list (K * V)) k :
  NoDup (map fst l) -> lookup eqK (remove_key eqK l k) k = None.
Proof.
  induction l as [|[k0 v0] t IH]; simpl; intros H; [reflexivity|].
  inversion H as [|? ? Hn Hd]; subst.
  destruct (eqK k k0) eqn:E.
  - apply eqK_true in E. subst k0. apply lookup_None_iff. exact Hn.
  - simpl. rewrite E. exact (IH Hd).
Qed.

Lemma remove_key_notin (l : list (K * V)) k :
  NoDup (map fst l) -> ~ In k (map fst (remove_key eqK l k)).
Proof.
  intros H. apply lookup_None_iff. apply lookup_remove_key_same. exact H.
Qed.

(* ---------- invariant of the plain model ---------- *)
Definition inv (c : cache K V) : Prop :=
  NoDup (map fst (order c))
  /\ (max_entries c <> 0 -> length (order c) <= max_entries c).

Lemma push_inv m (l : list (K * V)) k v v0 :
  NoDup (map fst l) -> (m <> 0 -> length l <= m) -> lookup eqK l k = Some v0 ->
  inv {| max_entries := m; order := (k, v) :: remove_key eqK l k |}.
Proof.
  intros Hd Hc Hl. split; cbn [max_entries order].
  - simpl. constructor; [apply remove_key_notin; exact Hd|apply remove_key_NoDup; exact Hd].
  - intros Hm. simpl. rewrite (remove_key_length _ _ _ Hl). exact (Hc Hm).
Qed.

Lemma step_inv (c : cache K V) o : inv c -> inv (fst (step eqK c o)).
Proof.
  intros [Hd Hc]. destruct o as [k v|k|k|].
  - rewrite step_add. cbn [fst].
    destruct (add_cases eqK c k v)
      as [(v0 & Hl & E)|[(Hl & Hm & E)|(Hl & Hm & l' & a & Ho & E)]];
      rewrite E; cbn [fst].
    + apply push_inv with (v0 := v0); assumption.
    + split; cbn [max_entries order].
      * simpl. constructor; [apply lookup_None_iff; exact Hl|exact Hd].
      * intros Hm'. simpl. lia.
    + apply lookup_None_iff in Hl. rewrite Ho in Hd, Hl, Hc.
      rewrite map_app in Hd, Hl. rewrite app_length in Hc. simpl in Hc.
      split; cbn [max_entries order].
      * simpl. constructor.
        -- intros Hin. apply Hl. apply in_or_app. left. exact Hin.
        -- exact (proj1 (NoDup_snoc _ _ Hd)).
      * intros Hm'. specialize (Hc Hm'). simpl. lia.
  - rewrite step_get. cbn [fst]. unfold get.
    destruct (lookup eqK (order c) k) as [v0|] eqn:Hl; cbn [fst].
    + apply push_inv with (v0 := v0); assumption.
    + split; assumption.
  - rewrite step_remove. cbn [fst]. unfold remove.
    destruct (lookup eqK (order c) k) as [v0|] eqn:Hl; cbn [fst].
    + split; cbn [max_entries order].
      * apply remove_key_NoDup. exact Hd.
      * intros Hm. specialize (Hc Hm). pose proof (remove_key_length _ _ _ Hl). lia.
    + split; assumption.
  - split; assumption.
Qed.

Lemma run_state_inv (ops : list (op K V)) :
  forall c, inv c -> inv (run_state eqK c ops).
Proof.
  induction ops as [|o rest IH]; intros c Hc; simpl; [exact Hc|].
  apply IH. apply step_inv. exact Hc.
Qed.

Lemma reach_inv n (ops : list (op K V)) :
  inv (run_state eqK (new_cache K V n) ops).
Proof.
  apply run_state_inv. split; cbn [new_cache max_entries order].
  - constructor.
  - intros _. simpl. lia.
Qed.

(* ---------- the property lemmas ---------- *)
Lemma lru_keys_unique :
  forall n (ops : list (op K V)),
    NoDup (map fst (order (run_state eqK (new_cache K V n) ops))).
Proof. intros n ops. exact (proj1 (reach_inv n ops)). Qed.

Lemma lru_capacity :
  forall n (ops : list (op K V)), n <> 0 ->
    length (order (run_state eqK (new_cache K V n) ops)) <= n.
Proof.
  intros n ops Hn. pose proof (proj2 (reach_inv n ops)) as H.
  rewrite run_state_max in H. exact (H Hn).
Qed.

Lemma lru_recency_sorted :
  forall n (ops : list (op K V)),
    StronglySorted (fun a b => snd a > snd b)
                   (gorder (grun_state eqK (new_gcache K V n) ops)).
Proof using eqK_spec. intros n ops. exact (proj1 (greach_ginv eqK n ops)). Qed.

Lemma lru_evicts_lru :
  forall n (ops : list (op K V)) k v e,
    let c := grun_state eqK (new_gcache K V n) ops in
    In e (snd (gstep eqK c (OAdd k v))) ->
    In e (gorder c) /\ forall e', In e' (gorder c) -> snd e <= snd e'.
Proof using eqK_spec.
  intros n ops k v e c He.
  destruct (gadd_evicted _ _ _ _ _ He) as [l' Ho].
  pose proof (proj1 (greach_ginv eqK n ops)) as Hs. fold c in Hs.
  rewrite Ho in *. apply SS_last_min in Hs. rewrite Forall_forall in Hs.
  split.
  - apply in_or_app. right. left. reflexivity.
  - intros e' He'. apply in_app_or in He'. destruct He' as [He'|[<-|[]]].
    + specialize (Hs e' He'). simpl in Hs. lia.
    + lia.
Qed.

(* per-step callback exactness, for any state satisfying the invariant *)
Lemma callback_exact_step (c : cache K V) (o : op K V) :
  inv c ->
  let c' := fst (step eqK c o) in
  let ev := evicted_of (snd (step eqK c o)) in
  NoDup (map fst ev)
  /\ (forall k v, In (k, v) ev
        <-> (lookup eqK (order c) k = Some v /\ lookup eqK (order c') k = None)).
Proof.
  intros [Hd Hc] c' ev. subst c' ev. destruct o as [k v|k|k|].
  - rewrite step_add. cbn [fst snd evicted_of].
    destruct (add_cases eqK c k v)
      as [(v0 & Hl & E)|[(Hl & Hm & E)|(Hl & Hm & l' & [ka va] & Ho & E)]];
      rewrite E; cbn [fst snd order].
    + split; [constructor|]. intros k1 v1. split; [intros []|].
      intros [H1 H2]. exfalso. simpl in H2.
      destruct (eqK k1 k) eqn:E1; [discriminate|]. apply eqK_false in E1.
      rewrite lookup_remove_key_neq in H2 by congruence. congruence.
    + split; [constructor|]. intros k1 v1. split; [intros []|].
      intros [H1 H2]. exfalso. simpl in H2.
      destruct (eqK k1 k); [discriminate|]. congruence.
    + apply lookup_None_iff in Hl. rewrite Ho in Hd, Hl. rewrite map_app in Hd, Hl.
      simpl in Hd, Hl. apply NoDup_snoc in Hd. destruct Hd as [Hd Hka].
      assert (Hkka : k <> ka).
      { intros ->. apply Hl. apply in_or_app. right. left. reflexivity. }
      split; [repeat constructor; simpl; tauto|].
      intros k1 v1. rewrite Ho, lookup_app. simpl. split.
      * intros [H|[]]. inversion H; subst k1 v1.
        apply lookup_None_iff in Hka. rewrite Hka, eqK_refl.
        rewrite (eqK_neq (fun H0 => Hkka (eq_sym H0))). split; reflexivity.
      * intros [H1 H2]. destruct (eqK k1 k); [discriminate|].
        rewrite H2 in H1. destruct (eqK k1 ka) eqn:E2; [|discriminate].
        apply eqK_true in E2. left. congruence.
  - rewrite step_get. cbn [fst snd evicted_of]. split; [constructor|].
    intros k1 v1. split; [intros []|]. intros [H1 H2]. exfalso.
    unfold get in H2. destruct (lookup eqK (order c) k) as [v0|] eqn:Hl;
      cbn [fst order] in H2; [|congruence].
    simpl in H2. destruct (eqK k1 k) eqn:E1; [discriminate|]. apply eqK_false in E1.
    rewrite lookup_remove_key_neq in H2 by congruence. congruence.
  - rewrite step_remove. cbn [fst snd evicted_of]. unfold remove.
    destruct (lookup eqK (order c) k) as [v0|] eqn:Hl; cbn [fst snd order].
    + split; [repeat constructor; simpl; tauto|].
      intros k1 v1. simpl. split.
      * intros [H|[]]. inversion H; subst k1 v1.
        split; [exact Hl|apply lookup_remove_key_same; exact Hd].
      * intros [H1 H2]. destruct (eqK k k1) eqn:E1.
        -- apply eqK_true in E1. subst k1. left. congruence.
        -- apply eqK_false in E1. rewrite lookup_remove_key_neq in H2 by exact E1.
           congruence.
    + split; [constructor|]. intros k1 v1. split; [intros []|].
      intros [H1 H2]. congruence.
  - cbn [step fst snd evicted_of]. split; [constructor|].
    intros k1 v1. split; [intros []|]. intros [H1 H2]. congruence.
Qed.

Lemma lru_callback_exact :
  forall n (ops : list (op K V)) (o : op K V),
    let c := run_state eqK (new_cache K V n) ops in
    let c' := fst (step eqK c o) in
    let ev := evicted_of (snd (step eqK c o)) in
    NoDup (map fst ev)
    /\ (forall k v, In (k, v) ev
          <-> (lookup eqK (order c) k = Some v /\ lookup eqK (order c') k = None)).
Proof.
  intros n ops o c. exact (callback_exact_step o (reach_inv n ops)).
Qed.

Lemma lru_add_front :
  forall n (ops : list (op K V)) k v,
    let c := run_state eqK (new_cache K V n) ops in
    hd_error (order (fst (step eqK c (OAdd k v)))) = Some (k, v).
Proof using eqK_spec.
  intros n ops k v c. rewrite step_add. cbn [fst].
  destruct (add_cases eqK c k v)
    as [(v0 & _ & E)|[(_ & _ & E)|(_ & _ & l' & a & _ & E)]];
    rewrite E; reflexivity.
Qed.

Lemma lru_get_spec :
  forall n (ops : list (op K V)) k,
    let c := run_state eqK (new_cache K V n) ops in
    snd (step eqK c (OGet V k)) = RGet K (lookup eqK (order c) k)
    /\ (forall v, lookup eqK (order c) k = Some v ->
          hd_error (order (fst (step eqK c (OGet V k)))) = Some (k, v))
    /\ (lookup eqK (order c) k = None -> fst (step eqK c (OGet V k)) = c).
Proof using eqK_spec.
  intros n ops k c. rewrite step_get. cbn [fst snd]. unfold get.
  destruct (lookup eqK (order c) k) as [v0|]; cbn [fst snd order].
  - split; [reflexivity|]. split; [|discriminate].
    intros v H. inversion H. reflexivity.
  - split; [reflexivity|]. split; [discriminate|reflexivity].
Qed.

Lemma lru_frame :
  forall n (ops : list (op K V)) (o : op K V) k',
    let c := run_state eqK (new_cache K V n) ops in
    let c' := fst (step eqK c o) in
    (match o with OAdd k _ | OGet _ k | ORemove _ k => k <> k' | OLen _ _ => True end) ->
    lookup eqK (order c') k' = lookup eqK (order c) k' \/ lookup eqK (order c') k' = None.
Proof.
  intros n ops o k' c c'. subst c'. clearbody c.
  destruct o as [k v|k|k|]; intros Hk.
  - rewrite step_add. cbn [fst].
    assert (Ek : eqK k' k = false) by (apply eqK_neq; congruence).
    destruct (add_cases eqK c k v)
      as [(v0 & _ & E)|[(_ & _ & E)|(_ & _ & l' & a & Ho & E)]];
      rewrite E; cbn [fst order]; simpl; rewrite Ek.
    + left. apply lookup_remove_key_neq. exact Hk.
    + left. reflexivity.
    + rewrite Ho, lookup_app. destruct (lookup eqK l' k'); [left|right]; reflexivity.
  - rewrite step_get. cbn [fst]. unfold get.
    destruct (lookup eqK (order c) k) as [v0|]; cbn [fst order]; [|left; reflexivity].
    simpl. rewrite (eqK_neq (fun H => Hk (eq_sym H))).
    left. apply lookup_remove_key_neq. exact Hk.
  - rewrite step_remove. cbn [fst]. unfold remove.
    destruct (lookup eqK (order c) k) as [v0|]; cbn [fst order]; [|left; reflexivity].
    left. apply lookup_remove_key_neq. exact Hk.
  - left. reflexivity.
Qed.

End Spec.

Lemma lru_example :
  run Nat.eqb (new_cache nat nat 2)
      [OAdd 1 10; OAdd 2 20; OGet _ 1; OAdd 3 30; OGet _ 2; OLen _ _]
  = [RAdd []; RAdd []; RGet _ (Some 10); RAdd [(2, 20)]; RGet _ None; RLen _ _ 2].
Proof. vm_compute. reflexivity. Qed.
