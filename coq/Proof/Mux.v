(* The multiplexer model: invariant preservation assembled, and the lemmas
   behind Props/C24.v (and, further down, C23 and C25). *)
From Coq Require Import List NArith Bool Lia Arith.
From Coq Require Import Strings.Byte.
From Mv Require Import Model.Mux Proof.MuxInv Proof.MuxStep Proof.MuxStepA Proof.MuxStepB
                       Proof.MuxStepC Proof.MuxStepD Proof.MuxStepE Proof.MuxStepF Proof.MuxStepG.
Import ListNotations.
Local Open Scope N_scope.

Definition good (r : result) : Prop :=
  match r with Running st' => Inv st' | ProtocolError _ _ => False end.

Lemma step_deliver st s r : Inv st -> step all_fixed st (ADeliver s) = Some r -> good r.
Proof.
  intros HI H. unfold step in H.
  destruct (wire_to st s) as [|m t] eqn:W; [discriminate|].
  assert (X : exists e', deliver s (ep st s) m = DOk e' /\ Inv (set_ep (set_wire_to st s t) s e')).
  { destruct (inv_elim st s HI) as (A & B & C & D).
    pose proof (d_vals _ _ _ _ _ B) as Hv. rewrite W in Hv. cbn [forallb] in Hv.
    apply andb_true_iff in Hv as [Hv _].
    destruct m as [i v|i v|i d|i n|i|i|].
    - apply deliver_open; auto.
    - destruct (get i (streams (ep st s))) as [x|] eqn:G.
      + eapply deliver_accept; eauto.
      + exists (ep st s). split; [|eapply deliver_discard; eauto; reflexivity].
        destruct (range_ok st HI s _ _ i W eq_refl eq_refl) as (R1 & R2 & R3).
        cbn in Hv. apply andb_true_iff in Hv as [_ M']. apply negb_true_iff in M'.
        assert (M : mine s i = true) by (rewrite <- (other_other s), mine_other, M'; reflexivity).
        unfold deliver. rewrite R1, M, R3, G. reflexivity.
    - destruct (get i (streams (ep st s))) as [x|] eqn:G.
      + eapply deliver_data; eauto.
      + exists (ep st s). split; [|eapply deliver_discard; eauto; reflexivity].
        destruct (range_ok st HI s _ _ i W eq_refl eq_refl) as (R1 & R2 & R3).
        cbn in Hv. apply andb_true_iff in Hv as [L0 _]. apply N.ltb_lt in L0.
        unfold deliver. rewrite R1, R2, R3, G. rewrite (proj2 (N.eqb_neq (len d) 0)) by lia. reflexivity.
    - destruct (get i (streams (ep st s))) as [x|] eqn:G.
      + eapply deliver_incr; eauto.
      + exists (ep st s). split; [|eapply deliver_discard; eauto; reflexivity].
        destruct (range_ok st HI s _ _ i W eq_refl eq_refl) as (R1 & R2 & R3).
        cbn in Hv. apply N.ltb_lt in Hv.
        unfold deliver. rewrite R1, R2, R3, G. rewrite (proj2 (N.eqb_neq n 0)) by lia. reflexivity.
    - destruct (get i (streams (ep st s))) as [x|] eqn:G.
      + eapply deliver_cw; eauto.
      + exists (ep st s). split; [|eapply deliver_discard; eauto; reflexivity].
        destruct (range_ok st HI s _ _ i W eq_refl eq_refl) as (R1 & R2 & R3).
        unfold deliver. rewrite R1, R2, R3, G. reflexivity.
    - destruct (get i (streams (ep st s))) as [x|] eqn:G.
      + eapply deliver_close; eauto.
      + exists (ep st s). split; [|eapply deliver_discard; eauto; reflexivity].
        destruct (range_ok st HI s _ _ i W eq_refl eq_refl) as (R1 & R2 & R3).
        unfold deliver. rewrite R1, R2, R3, G. reflexivity.
    - exists (ep st s). split; [reflexivity|]. apply deliver_hb; auto. }
  destruct X as (e' & E & I). rewrite E in H. injection H as <-. exact I.
Qed.

(* every step of the model with both repairs preserves the invariant, and the
   reader never reports a protocol violation *)
Lemma step_inv st a r : Inv st -> step all_fixed st a = Some r -> good r.
Proof.
  intros HI H.
  destruct a; try (eapply step_deliver; eassumption);
    (destruct r as [st'|s0 e0];
     [ cbn [good]
     | exfalso; unfold step, with_stream in H; step_cases H; discriminate H ]).
  - eapply step_AOpenAlloc; eauto.
  - eapply step_AOpenSend; eauto.
  - eapply step_AOpenReturn; eauto.
  - eapply step_AOpenAbort; eauto.
  - eapply step_AAcceptPop; eauto.
  - eapply step_AAcceptSend; eauto.
  - eapply step_AAcceptAbort; eauto.
  - eapply step_AWrite; eauto.
  - eapply step_AWChunk; eauto.
  - eapply step_AWEnd; eauto.
  - eapply step_ARead; eauto.
  - eapply step_ARConsume; eauto.
  - eapply step_ARPost; eauto.
  - eapply step_ARPostSkip; eauto.
  - eapply step_AREof; eauto.
  - eapply step_AREnd; eauto.
  - eapply step_ACloseWrite; eauto.
  - eapply step_ACWPost; eauto.
  - eapply step_ACWPostSkip; eauto.
  - eapply step_AClose; eauto.
  - eapply step_ACTakeW; eauto.
  - eapply step_ACTakeR; eauto.
  - eapply step_ACPost; eauto.
  - eapply step_ACPostSkip; eauto.
  - eapply step_ACDereg; eauto.
  - eapply step_AFlushInc; eauto.
  - eapply step_AFlushCW; eauto.
  - eapply step_AFlushClose; eauto.
  - eapply step_AHeartbeat; eauto.
  - eapply step_AMuxClose; eauto.
  - eapply step_ACarrierDown; eauto.
Qed.

Lemma run_inv sched : forall st, Inv st -> good (run all_fixed sched st).
Proof.
  induction sched as [|a rest IH]; intros st HI; cbn [run]; [exact HI|].
  destruct (step all_fixed st a) as [r|] eqn:E; [|apply IH; auto].
  pose proof (step_inv _ _ _ HI E) as G.
  destruct r as [st'|s e]; [apply IH; exact G|exact G].
Qed.

Lemma mux_no_protocol_error ca cb sched s e :
  cW ca <= maxU64 -> cW cb <= maxU64 ->
  run all_fixed sched (init ca cb) <> ProtocolError s e.
Proof.
  intros Ha Hb Q. pose proof (run_inv sched _ (inv_init ca cb Ha Hb)) as G.
  rewrite Q in G. exact G.
Qed.

Lemma mux_reachable_inv ca cb sched st :
  cW ca <= maxU64 -> cW cb <= maxU64 ->
  run all_fixed sched (init ca cb) = Running st -> Inv st.
Proof.
  intros Ha Hb Q. pose proof (run_inv sched _ (inv_init ca cb Ha Hb)) as G.
  rewrite Q in G. exact G.
Qed.
