(* Round trip of the wire encodings (Model/MuxCodec.v): what one side's
   messageBuffer encodes is what the other side's reader decodes. *)
From Coq Require Import List NArith Bool Lia Arith.
From Coq Require Import Strings.Byte.
From Mv Require Import Model.Mux Model.MuxCodec.
Import ListNotations.
Local Open Scope N_scope.

Lemma bn_nb n : n <= 255 -> bn (nb n) = n.
Proof.
  intros H. unfold bn, nb. destruct (Byte.of_N n) as [b|] eqn:E.
  - now apply Byte.to_of_N.
  - apply Byte.of_N_None_iff in E. lia.
Qed.

Lemma read_uvarint_step f i x mult b t :
  read_uvarint (S f) i x mult (b :: t) =
  (let v := bn b in
   if v <? 128 then
     if (Nat.eqb i 9 && (1 <? v))%bool then None else Some (x + v * mult, t)
   else read_uvarint f (S i) (x + (v - 128) * mult) (mult * 128) t).
Proof. reflexivity. Qed.

Lemma uvarint_rt f : forall (i : nat) (x acc mult : N) (rest : list byte),
  (i + f = 9)%nat -> x < 2 * 128 ^ (N.of_nat f) ->
  read_uvarint (S f) i acc mult (put_uvarint f x ++ rest) = Some (acc + x * mult, rest).
Proof.
  induction f as [|f IH]; intros i x acc mult rest Hi Hx.
  - cbn [N.of_nat N.pow] in Hx. assert (x < 2) by lia.
    cbn [put_uvarint]. destruct (x <? 128) eqn:L; [|apply N.ltb_ge in L; lia].
    cbn [app]. rewrite read_uvarint_step. cbv zeta. rewrite bn_nb by lia. rewrite L.
    assert (E : (1 <? x) = false) by (apply N.ltb_ge; lia). rewrite E, andb_false_r. reflexivity.
  - cbn [put_uvarint]. destruct (x <? 128) eqn:L.
    + cbn [app]. rewrite read_uvarint_step. cbv zeta. apply N.ltb_lt in L. rewrite bn_nb by lia.
      rewrite (proj2 (N.ltb_lt _ _) L).
      assert (E : Nat.eqb i 9 = false) by (apply Nat.eqb_neq; lia). rewrite E. reflexivity.
    + apply N.ltb_ge in L. cbn [app]. rewrite read_uvarint_step. cbv zeta.
      assert (M : x mod 128 < 128) by (apply N.mod_lt; lia).
      pose proof (N.div_mod x 128 ltac:(lia)) as DM.
      set (r := x mod 128) in *. set (q := x / 128) in *.
      rewrite bn_nb by lia.
      assert (E : (r + 128 <? 128) = false) by (apply N.ltb_ge; lia). rewrite E.
      rewrite IH.
      * f_equal. f_equal. replace (r + 128 - 128) with r by lia. rewrite DM. lia.
      * lia.
      * rewrite Nat2N.inj_succ, N.pow_succ_r' in Hx.
        unfold q. apply N.div_lt_upper_bound; lia.
Qed.

Lemma maxU64_bound x : x <= maxU64 -> x < 2 * 128 ^ (N.of_nat 9).
Proof. unfold maxU64. cbn. lia. Qed.

Lemma dec_enc_uvarint x rest : x <= maxU64 -> dec_uvarint (enc_uvarint x ++ rest) = Some (x, rest).
Proof.
  intros H. unfold dec_uvarint, enc_uvarint.
  rewrite (uvarint_rt 9 0 x 0 1 rest eq_refl (maxU64_bound x H)). f_equal. f_equal. lia.
Qed.

Lemma dec_enc_u16 x rest : x <= maxBlock -> dec_u16 (enc_u16 x ++ rest) = Some (x, rest).
Proof.
  unfold maxBlock. intros H. unfold dec_u16, enc_u16. cbn [app].
  assert (x / 256 <= 255) by (apply N.lt_succ_r, N.div_lt_upper_bound; lia).
  assert (x mod 256 < 256) by (apply N.mod_lt; lia).
  pose proof (N.div_mod x 256 ltac:(lia)) as DM.
  set (r := x mod 256) in *. set (q := x / 256) in *.
  rewrite !bn_nb by lia. f_equal. f_equal. lia.
Qed.

Lemma split_at_app (d rest : list byte) : split_at (len d) (d ++ rest) = Some (d, rest).
Proof.
  unfold split_at, len, takeN, dropN. rewrite app_length.
  assert (E : (N.of_nat (length d + length rest) <? N.of_nat (length d)) = false) by (apply N.ltb_ge; lia).
  rewrite E, Nat2N.id. rewrite firstn_app, skipn_app, Nat.sub_diag, firstn_all, skipn_all. cbn.
  now rewrite app_nil_r.
Qed.

Lemma app_assoc3 {A} (a b c : list A) : (a ++ b) ++ c = a ++ b ++ c.
Proof. now rewrite app_assoc. Qed.

(* one frame *)
Lemma mux_codec_roundtrip m rest :
  wire_ok m = true -> decode (encode m ++ rest) = Some (m, rest).
Proof.
  destruct m as [i w|i w|i d|i n|i|i|]; cbn [wire_ok encode]; rewrite ?andb_true_iff, ?N.leb_le;
    intros H; cbn [app decode];
    rewrite ?bn_nb by (unfold kOpen, kAccept, kData, kIncr, kCloseWrite, kClose, kHeartbeat; lia);
    unfold kOpen, kAccept, kData, kIncr, kCloseWrite, kClose, kHeartbeat; cbn [N.ltb N.eqb N.compare Pos.compare Pos.compare_cont orb Pos.eqb];
    try reflexivity.
  - destruct H. rewrite <- app_assoc, dec_enc_uvarint, dec_enc_uvarint by auto. reflexivity.
  - destruct H. rewrite <- app_assoc, dec_enc_uvarint, dec_enc_uvarint by auto. reflexivity.
  - destruct H. rewrite <- !app_assoc, dec_enc_uvarint, dec_enc_u16, split_at_app by auto. reflexivity.
  - destruct H. rewrite <- app_assoc, dec_enc_uvarint, dec_enc_uvarint by auto. reflexivity.
  - rewrite dec_enc_uvarint by auto. reflexivity.
  - rewrite dec_enc_uvarint by auto. reflexivity.
Qed.

Lemma encode_nonempty m : encode m <> [].
Proof. destruct m; cbn; discriminate. Qed.

(* a whole carrier byte stream *)
Lemma mux_codec_stream ms : forall fuel,
  forallb wire_ok ms = true -> (length ms <= fuel)%nat ->
  decode_all fuel (encode_all ms) = Some ms.
Proof.
  induction ms as [|m t IH]; intros fuel Hok Hf.
  - destruct fuel; reflexivity.
  - cbn [forallb] in Hok. apply andb_true_iff in Hok as [Hm Ht].
    unfold encode_all in *. cbn [map concat].
    destruct fuel as [|fuel]; [cbn in Hf; lia|].
    destruct (encode m ++ concat (map encode t)) as [|b l] eqn:E.
    { exfalso. apply app_eq_nil in E as [E _]. now apply encode_nonempty in E. }
    cbn [decode_all]. rewrite <- E. rewrite mux_codec_roundtrip by auto.
    rewrite IH; auto. cbn in Hf. lia.
Qed.
