(* C23: what is read on a stream is what was written on it.  A second
   invariant over the ghost logs (wlog: bytes put into data frames, rlog:
   bytes handed to callers of Read), proved with the help of I_mux. *)
From Coq Require Import List NArith Bool Lia Arith.
From Coq Require Import Strings.Byte.
From Mv Require Import Model.Mux Proof.MuxInv Proof.MuxStep Proof.MuxStepA Proof.MuxStepF Proof.Mux.
Import ListNotations.
Local Open Scope N_scope.
Set Default Timeout 300.

(* the bytes of stream i still on a wire, in order *)
Fixpoint flight (i : N) (w : list msg) : list byte :=
  match w with
  | [] => []
  | MData j d :: t => (if N.eqb i j then d else []) ++ flight i t
  | _ :: t => flight i t
  end.

Lemma flight_app i w m : flight i (w ++ [m]) = flight i w ++ flight i [m].
Proof.
  generalize [m] as l; intros l. induction w as [|a t IH]; cbn [app flight]; auto.
  destruct a; rewrite ?IH, ?app_assoc; auto.
Qed.
Lemma flight_nodata i w : has_data i w = false -> flight i w = [].
Proof.
  induction w as [|a t IH]; cbn [has_data existsb flight]; auto.
  intros H. apply orb_false_iff in H as [H1 H2]. specialize (IH H2).
  destruct a; cbn [is_data] in H1; rewrite ?H1, ?IH; auto.
Qed.

(* the per-stream, per-direction equation: writer endpoint eS, reader eR,
   w the wire from the writer to the reader *)
Definition main (eS eR : endpoint) (w : list msg) (i : N) : Prop :=
  match get i (streams eR) with
  | Some x => getL i (wlog eS) = getL i (rlog eR) ++ rbuf x ++ flight i w
  | None => exists rest, getL i (wlog eS) = getL i (rlog eR) ++ rest
  end.

(* an endpoint has logs only for identifiers it knows *)
Definition lk (s : side) (e : endpoint) : Prop :=
  forall i, (getL i (wlog e) <> [] \/ getL i (rlog e) <> []) ->
            (mine s i = true -> nextOut e = 0 \/ i < nextOut e) /\
            (mine s i = false -> i <= largestIn e).

Definition DInv (st : state) : Prop :=
  forall s,
    (forall i, main (ep st s) (ep st (other s)) (wire_to st (other s)) i /\
               (has_open i (wire_to st (other s)) = true -> getL i (wlog (ep st s)) = [])) /\
    lk s (ep st s).

Lemma dinv_init ca cb : DInv (init ca cb).
Proof.
  intros s. split.
  - intros i. split.
    + destruct s; cbn; exists []; reflexivity.
    + destruct s; cbn; discriminate.
  - intros i [H|H]; destruct s; cbn in H; congruence.
Qed.

Lemma main_ext eS eR w eS' eR' w1 i :
  getL i (wlog eS') = getL i (wlog eS) -> getL i (rlog eR') = getL i (rlog eR) ->
  option_map rbuf (get i (streams eR')) = option_map rbuf (get i (streams eR)) ->
  flight i w1 = flight i w ->
  main eS eR w i -> main eS' eR' w1 i.
Proof.
  unfold main. intros H1 H2 H3 H4 H. rewrite H1, H2, H4.
  destruct (get i (streams eR')) as [x'|], (get i (streams eR)) as [x|]; cbn in H3; try discriminate; auto.
  injection H3 as ->. auto.
Qed.

Lemma dinv_frame st st' :
  DInv st ->
  (forall s i, getL i (wlog (ep st' s)) = getL i (wlog (ep st s))) ->
  (forall s i, getL i (rlog (ep st' s)) = getL i (rlog (ep st s))) ->
  (forall s i, option_map rbuf (get i (streams (ep st' s))) = option_map rbuf (get i (streams (ep st s)))) ->
  (forall s i, flight i (wire_to st' s) = flight i (wire_to st s)) ->
  (forall s i, has_open i (wire_to st' s) = true -> has_open i (wire_to st s) = true) ->
  (forall s, nextOut (ep st' s) = nextOut (ep st s)) ->
  (forall s, largestIn (ep st s) <= largestIn (ep st' s)) ->
  DInv st'.
Proof.
  intros HD H1 H2 H3 H4 H5 H6 H7 s. destruct (HD s) as [Hm Hl]. split.
  - intros i. destruct (Hm i) as [M O]. split.
    + eapply main_ext; eauto.
    + intros Q. rewrite H1. auto.
  - intros i Hi. rewrite H1, H2 in Hi. destruct (Hl i Hi) as [L1 L2]. split.
    + rewrite H6. auto.
    + intros M. specialize (L2 M). specialize (H7 s). lia.
Qed.

Lemma flight_one_nodata i m : is_data i m = false -> flight i [m] = [].
Proof. destruct m; cbn; auto. intros ->. reflexivity. Qed.

Ltac side_cases := repeat match goal with s : side |- _ => destruct s end.

(* discharge the conditions of dinv_frame for an explicit successor state *)
Ltac frame_solve :=
  match goal with
  | |- forall (s : side) (i : N), option_map rbuf _ = _ =>
    let s' := fresh in let i := fresh "i" in
    intros s' i; side_cases; cbn [ep set_ep set_wire_to send log_hist upd epA epB other
      put_stream set_streams streams set_incs set_wcs set_cls set_wlog set_rlog set_eofs
      set_mclosed set_backlog set_nextOut set_largestIn post_close post_incr post_cw] in *;
    try reflexivity;
    match goal with
    | |- option_map rbuf (get i (set ?j _ _)) = _ =>
      destruct (N.eq_dec i j) as [->|?];
      [ rewrite get_set_eq;
        repeat match goal with G : get _ _ = Some _ |- _ => rewrite G end; reflexivity
      | rewrite get_set_ne by auto; reflexivity ]
    end
  | |- forall (s : side) (i : N), flight _ _ = _ =>
    let s' := fresh in let i := fresh "i" in
    intros s' i; side_cases; cbn [wire_to set_ep set_wire_to send log_hist upd wAB wBA other] in *;
    try reflexivity;
    try (rewrite flight_app; cbn [flight]; rewrite ?app_nil_r; reflexivity);
    try (repeat match goal with W : _ = _ :: _ |- _ => rewrite W end; reflexivity)
  | |- forall (s : side) (i : N), has_open _ _ = true -> _ =>
    let s' := fresh in let i := fresh "i" in
    intros s' i; side_cases; cbn [wire_to set_ep set_wire_to send log_hist upd wAB wBA other] in *;
    try (intros Q; exact Q);
    try (rewrite has_open_app; cbn [is_open]; rewrite orb_false_r; intros Q; exact Q);
    try (repeat match goal with W : _ = _ :: _ |- _ => rewrite W end;
         cbn [has_open existsb is_open orb]; intros Q; exact Q)
  | |- forall (s : side), largestIn _ <= largestIn _ =>
    let s' := fresh in intros s'; side_cases; cbn; lia
  | |- forall (s : side), nextOut _ = nextOut _ =>
    let s' := fresh in intros s'; side_cases; reflexivity
  | |- forall (s : side) (i : N), getL _ _ = getL _ _ =>
    let s' := fresh in let i := fresh "i" in intros s' i; side_cases; reflexivity
  end.

Ltac by_frame HD := eapply dinv_frame; [exact HD|frame_solve..].

Section DataStep.
Variable st : state.
Hypothesis HI : Inv st.
Hypothesis HD : DInv st.

Ltac dstart H :=
  unfold step, with_stream in H; step_cases H; injection H as <-.

(* every step except the five that move bytes or create/remove streams *)
Lemma dstep_frame a st' :
  step all_fixed st a = Some (Running st') ->
  match a with
  | AOpenAlloc _ | AWChunk _ _ | ARConsume _ _ | ACDereg _ _ | ADeliver _ => True
  | _ => DInv st'
  end.
Proof.
  intros H. destruct a; auto; dstart H; unfold upd; try (by_frame HD).
  all: exfalso;
    match goal with G : get ?i (streams (ep st ?s)) = Some ?x, P : ph ?x = POpening false |- _ =>
      destruct (l_opening _ _ _ (get_streams_local s _ _ _ (proj1 (proj2 (proj2 (inv_elim st s HI)))) G) _ P);
      discriminate end.
Qed.
End DataStep.

Definition dside (st : state) (s : side) : Prop :=
  (forall i, main (ep st s) (ep st (other s)) (wire_to st (other s)) i /\
             (has_open i (wire_to st (other s)) = true -> getL i (wlog (ep st s)) = [])) /\
  lk s (ep st s).

Lemma dinv_intro st' X : dside st' X -> dside st' (other X) -> DInv st'.
Proof. intros H1 H2 s. destruct X, s; cbn [other] in *; auto. Qed.

Lemma getL_app_eq i d m : getL i (app_log i d m) = getL i m ++ d.
Proof. unfold app_log, getL. now rewrite get_set_eq. Qed.
Lemma getL_app_ne i j d m : i <> j -> getL i (app_log j d m) = getL i m.
Proof. intros H. unfold app_log, getL. now rewrite get_set_ne. Qed.

(* a stream an endpoint has is one it knows, in the sense of [lk] *)
Lemma known_stream st s j x :
  Inv st -> get j (streams (ep st s)) = Some x ->
  (mine s j = true -> nextOut (ep st s) = 0 \/ j < nextOut (ep st s)) /\
  (mine s j = false -> j <= largestIn (ep st s)).
Proof.
  intros HI G. destruct (inv_elim st s HI) as (A & B & C & D).
  pose proof (d_per _ _ _ _ _ A j) as PA. pose proof (vw_of _ _ _ G) as Hv.
  split; intros M.
  - destruct (N.eq_dec (nextOut (ep st s)) 0) as [Z|Z]; auto. right.
    destruct (d_ks _ _ _ _ _ _ PA M) as [K _]. { left. congruence. }
    pose proof (d_next _ _ _ _ _ A Z). lia.
  - destruct (d_kr _ _ _ _ _ _ PA M) as [K _]; auto. left. congruence.
Qed.

Section DataStep2.
Variable st : state.
Hypothesis HI : Inv st.
Hypothesis HD : DInv st.

Ltac dstart H :=
  unfold step, with_stream in H; step_cases H; injection H as <-.

Lemma dstep_ARConsume s j st' : step all_fixed st (ARConsume s j) = Some (Running st') -> DInv st'.
Proof.
  intros H. dstart H. rename s0 into x.
  destruct (HD s) as [Hm Hl]. destruct (HD (other s)) as [Hm' Hl'].
  set (c := N.min k (len (rbuf x))) in *.
  apply (dinv_intro _ s); split; rewrite ?other_other, ?ep_set_ep_same, ?ep_set_ep_other, ?wire_set_ep.
  - intros i. destruct (Hm i) as [M O]. split; auto.
  - intros i Hi. cbn [set_rlog put_stream set_streams wlog rlog nextOut largestIn] in *.
    destruct (N.eq_dec i j) as [->|Hne].
    + apply (known_stream st s j x); auto.
    + rewrite getL_app_ne in Hi by auto. auto.
  - intros i. destruct (Hm' i) as [M O]. rewrite other_other in *. split; auto.
    unfold main in *. cbn [set_rlog put_stream set_streams streams rlog].
    destruct (N.eq_dec i j) as [->|Hne].
    + rewrite get_set_eq, getL_app_eq. rewrite Heqo in M. cbn [set_rst set_rbuf rbuf].
      rewrite M. rewrite <- !app_assoc. f_equal. rewrite Heql, app_assoc. f_equal.
      unfold takeN, dropN. now rewrite firstn_skipn.
    + rewrite get_set_ne, getL_app_ne by auto. exact M.
  - exact Hl'.
Qed.

Lemma dstep_AWChunk s j st' : step all_fixed st (AWChunk s j) = Some (Running st') -> DInv st'.
Proof.
  intros H. dstart H. rename s0 into x.
  destruct (HD s) as [Hm Hl]. destruct (HD (other s)) as [Hm' Hl'].
  set (chunk := takeN (Nmin3 (sw x) (len (b :: l)) maxBlock) (b :: l)) in *.
  assert (Hx : sl_ok s j x) by (eapply get_streams_local; [apply (inv_elim st s HI)|eauto]).
  assert (E : est x = true).
  { apply (l_user _ _ _ Hx). eapply (l_held _ _ _ Hx); eauto. }
  apply (dinv_intro _ s); split;
    rewrite ?other_other, ?ep_send, ?wire_send_other, ?wire_send_same, ?ep_set_ep_same, ?ep_set_ep_other, ?wire_set_ep.
  - intros i. destruct (Hm i) as [M O]. unfold main in *. cbn [set_wlog put_stream set_streams wlog].
    destruct (N.eq_dec i j) as [->|Hne].
    + rewrite getL_app_eq, flight_app. cbn [flight]. rewrite N.eqb_refl, app_nil_r. split.
      * destruct (get j (streams (ep st (other s)))) as [y|].
        -- rewrite M, !app_assoc. reflexivity.
        -- destruct M as (rs & M). exists (rs ++ chunk). rewrite M, app_assoc. reflexivity.
      * rewrite has_open_app. cbn [is_open]. rewrite orb_false_r. intros Q. exfalso.
        destruct (inv_elim st s HI) as (A & _).
        destruct (d_openp _ _ _ _ _ _ (d_per _ _ _ _ _ A j) Q) as (_ & _ & _ & _ & _ & P6).
        destruct (P6 _ (vw_of _ _ _ Heqo)) as (P & _). cbn in P. congruence.
    + rewrite getL_app_ne, flight_app by auto. cbn [flight].
      apply N.eqb_neq in Hne. rewrite Hne. cbn [app]. rewrite app_nil_r. split; auto.
      rewrite has_open_app. cbn [is_open]. rewrite orb_false_r. auto.
  - intros i Hi. cbn [set_wlog put_stream set_streams wlog rlog nextOut largestIn] in *.
    destruct (N.eq_dec i j) as [->|Hne].
    + apply (known_stream st s j x); auto.
    + rewrite getL_app_ne in Hi by auto. auto.
  - intros i. destruct (Hm' i) as [M O]. rewrite other_other in *. split; auto.
    eapply main_ext; try exact M; try reflexivity.
    cbn [set_wlog put_stream set_streams streams].
    destruct (N.eq_dec i j) as [->|Hne].
    + rewrite get_set_eq, Heqo. reflexivity.
    + rewrite get_set_ne by auto. reflexivity.
  - exact Hl'.
Qed.

Lemma dstep_ACDereg s j st' : step all_fixed st (ACDereg s j) = Some (Running st') -> DInv st'.
Proof.
  intros H. dstart H. rename s0 into x.
  destruct (HD s) as [Hm Hl]. destruct (HD (other s)) as [Hm' Hl'].
  apply (dinv_intro _ s); split;
    rewrite ?other_other, ?ep_set_ep_same, ?ep_set_ep_other, ?wire_set_ep.
  - intros i. destruct (Hm i) as [M O]. split; auto.
  - exact Hl.
  - intros i. destruct (Hm' i) as [M O]. rewrite other_other in *. split; auto.
    unfold main in *. cbn [set_streams streams rlog].
    destruct (N.eq_dec i j) as [->|Hne].
    + rewrite get_del_eq. rewrite Heqo in M. eexists. exact M.
    + rewrite get_del_ne by auto. exact M.
  - exact Hl'.
Qed.

Lemma lk_empty s e i :
  lk s e ->
  (mine s i = true /\ nextOut e <> 0 /\ nextOut e <= i) \/ (mine s i = false /\ largestIn e < i) ->
  getL i (wlog e) = [] /\ getL i (rlog e) = [].
Proof.
  intros L H.
  destruct (getL i (wlog e)) eqn:Q1; [destruct (getL i (rlog e)) eqn:Q2; auto|]; exfalso.
  - destruct (L i) as [L1 L2]; [right; congruence|].
    destruct H as [(M & Z & K)|(M & K)]; [destruct (L1 M); [congruence|lia]|specialize (L2 M); lia].
  - destruct (L i) as [L1 L2]; [left; congruence|].
    destruct H as [(M & Z & K)|(M & K)]; [destruct (L1 M); [congruence|lia]|specialize (L2 M); lia].
Qed.

Lemma dstep_AOpenAlloc s st' : step all_fixed st (AOpenAlloc s) = Some (Running st') -> DInv st'.
Proof.
  intros H. unfold step in H. cbn [fix_open_order all_fixed] in H.
  destruct (N.eqb (nextOut (ep st s)) 0) eqn:Z; [discriminate|]. apply N.eqb_neq in Z.
  injection H as <-. set (j := nextOut (ep st s)) in *.
  destruct (HD s) as [Hm Hl]. destruct (HD (other s)) as [Hm' Hl'].
  destruct (inv_elim st s HI) as (A & B & C & D).
  pose proof (d_nextp _ _ _ _ _ A Z) as M. fold j in M.
  pose proof (d_next _ _ _ _ _ A Z) as NX. fold j in NX.
  assert (LG : largestIn (ep st (other s)) < j).
  { pose proof (ids_ok_mono _ _ _ (d_ids _ _ _ _ _ A)). lia. }
  assert (M' : mine (other s) j = false) by (rewrite mine_other, M; reflexivity).
  destruct (lk_empty s (ep st s) j Hl) as (E1 & E2). { left. repeat split; auto. fold j. lia. }
  destruct (lk_empty (other s) (ep st (other s)) j Hl') as (E3 & E4). { right. auto. }
  assert (F3 : has_any j (wire_to st s) = false).
  { destruct (has_any j (wire_to st s)) eqn:Q; auto.
    destruct (d_kr _ _ _ _ _ _ (d_per _ _ _ _ _ B j) M') as [K _]; auto. lia. }
  apply (dinv_intro _ s); split;
    rewrite ?other_other, ?ep_send, ?wire_send_other, ?wire_send_same, ?ep_set_ep_same, ?ep_set_ep_other, ?wire_set_ep.
  - intros i. destruct (Hm i) as [M0 O]. split.
    + eapply main_ext; try exact M0; try reflexivity.
      rewrite flight_app. cbn. now rewrite app_nil_r.
    + cbn [set_nextOut put_stream set_streams wlog]. rewrite has_open_app. cbn [is_open].
      intros Q. apply orb_true_iff in Q as [Q|Q]; auto.
      apply N.eqb_eq in Q. subst i. exact E1.
  - intros i Hi. cbn [set_nextOut put_stream set_streams wlog rlog nextOut largestIn] in *.
    destruct (Hl i Hi) as [L1 L2]. split; auto. intros Mi. specialize (L1 Mi).
    fold j in L1. unfold bump. destruct (N.ltb (maxU64 - j) 2); auto. right. destruct L1; [congruence|lia].
  - intros i. destruct (Hm' i) as [M0 O]. rewrite other_other in *. split; auto.
    unfold main in *. cbn [set_nextOut put_stream set_streams streams rlog].
    destruct (N.eq_dec i j) as [->|Hne].
    + rewrite get_set_eq. cbn [new_stream rbuf]. rewrite E3, E2.
      destruct (no_any _ _ F3) as (_ & _ & Q & _). now rewrite (flight_nodata _ _ Q).
    + rewrite get_set_ne by auto. exact M0.
  - exact Hl'.
Qed.

Lemma dstep_ADeliver s st' : step all_fixed st (ADeliver s) = Some (Running st') -> DInv st'.
Proof.
  intros H. unfold step in H. destruct (wire_to st s) as [|m t] eqn:W; [discriminate|].
  destruct (deliver s (ep st s) m) as [e'|p] eqn:E; [|discriminate]. injection H as <-.
  destruct (HD s) as [Hm Hl]. destruct (HD (other s)) as [Hm' Hl'].
  destruct (inv_elim st s HI) as (A & B & C & D).
  destruct m as [i v|i v|i d|i n|i|i|].
  - (* open *)
    unfold deliver in E; step_cases E; injection E as <-.
    + (* rejected: only largestIn and the accumulators change *)
      apply N.leb_gt in Heqb1.
      apply (dinv_intro _ s); split;
        rewrite ?other_other, ?ep_set_ep_same, ?ep_set_ep_other, ?wire_set_ep, ?ep_set_wire,
                ?wire_set_wire_same, ?wire_set_wire_other.
      * intros k. destruct (Hm k) as [M O]. split; auto.
      * intros k Hk. cbn in *. destruct (Hl k Hk) as [L1 L2]. split; auto. intros Mk. specialize (L2 Mk). lia.
      * intros k. destruct (Hm' k) as [M O]. rewrite other_other, W in *. split.
        -- eapply main_ext; try exact M; try reflexivity.
        -- intros Q. apply O. rewrite has_open_cons, Q. now rewrite orb_true_r.
      * exact Hl'.
    + (* accepted into the backlog: a new stream on the reading side *)
      apply N.leb_gt in Heqb1.
      pose proof (d_per _ _ _ _ _ B i) as PB. rewrite W in PB.
      destruct (d_openp _ _ _ _ _ _ PB) as (P1 & _); [cbn; now rewrite N.eqb_refl|].
      cbn [has_data existsb is_data orb] in P1.
      destruct (lk_empty s (ep st s) i Hl) as (E1 & E2). { right. auto. }
      apply (dinv_intro _ s); split;
        rewrite ?other_other, ?ep_set_ep_same, ?ep_set_ep_other, ?wire_set_ep, ?ep_set_wire,
                ?wire_set_wire_same, ?wire_set_wire_other.
      * intros k. destruct (Hm k) as [M O]. split; auto.
      * intros k Hk. cbn in *. destruct (Hl k Hk) as [L1 L2]. split; auto. intros Mk. specialize (L2 Mk). lia.
      * intros k. destruct (Hm' k) as [M O]. rewrite other_other, W in *. split.
        -- unfold main in *. cbn [set_backlog put_stream set_streams set_largestIn streams rlog].
           destruct (N.eq_dec k i) as [->|Hne].
           ++ rewrite get_set_eq. cbn [new_stream rbuf].
              rewrite O by (cbn; now rewrite N.eqb_refl). rewrite E2.
              fold (has_data i t) in P1. now rewrite (flight_nodata _ _ P1).
           ++ rewrite get_set_ne by auto. exact M.
        -- intros Q. apply O. rewrite has_open_cons, Q. now rewrite orb_true_r.
      * exact Hl'.
  - unfold deliver in E; step_cases E; injection E as <-; by_frame HD.
  - (* data *)
    unfold deliver in E; step_cases E; injection E as <-.
    + (* stored *)
      rename s0 into x.
      apply (dinv_intro _ s); split;
        rewrite ?other_other, ?ep_set_ep_same, ?ep_set_ep_other, ?wire_set_ep, ?ep_set_wire,
                ?wire_set_wire_same, ?wire_set_wire_other; auto.
      intros k. destruct (Hm' k) as [M O]. rewrite other_other, W in *. split.
      * unfold main in *. cbn [put_stream set_streams streams rlog].
        destruct (N.eq_dec k i) as [->|Hne].
        -- rewrite get_set_eq. rewrite Heqo in M. cbn [flight set_rbuf rbuf] in *.
           rewrite N.eqb_refl in M. rewrite M, <- !app_assoc. reflexivity.
        -- rewrite get_set_ne by auto. destruct (get k (streams (ep st s))); auto. cbn [flight] in M.
           apply N.eqb_neq in Hne. rewrite Hne in M. exact M.
      * intros Q. apply O. rewrite has_open_cons, Q. now rewrite orb_true_r.
    + (* discarded *)
      apply (dinv_intro _ s); split;
        rewrite ?other_other, ?ep_set_ep_same, ?ep_set_ep_other, ?wire_set_ep, ?ep_set_wire,
                ?wire_set_wire_same, ?wire_set_wire_other; auto.
      intros k. destruct (Hm' k) as [M O]. rewrite other_other, W in *. split.
      * unfold main in *. destruct (N.eq_dec k i) as [->|Hne].
        -- rewrite Heqo in *. exact M.
        -- destruct (get k (streams (ep st s))); auto. cbn [flight] in M.
           apply N.eqb_neq in Hne. rewrite Hne in M. exact M.
      * intros Q. apply O. rewrite has_open_cons, Q. now rewrite orb_true_r.
  - unfold deliver in E; step_cases E; injection E as <-; by_frame HD.
  - unfold deliver in E; step_cases E; injection E as <-; by_frame HD.
  - unfold deliver in E; step_cases E; injection E as <-; by_frame HD.
  - unfold deliver in E. injection E as <-. by_frame HD.
Qed.
End DataStep2.

Lemma dstep st a st' :
  Inv st -> DInv st -> step all_fixed st a = Some (Running st') -> DInv st'.
Proof.
  intros HI HD H.
  pose proof (dstep_frame st HI HD a st' H) as F.
  destruct a; auto.
  - eapply dstep_AOpenAlloc; eauto.
  - eapply dstep_AWChunk; eauto.
  - eapply dstep_ARConsume; eauto.
  - eapply dstep_ACDereg; eauto.
  - eapply dstep_ADeliver; eauto.
Qed.

Lemma drun sched : forall st, Inv st -> DInv st ->
  forall st', run all_fixed sched st = Running st' -> Inv st' /\ DInv st'.
Proof.
  induction sched as [|a rest IH]; intros st HI HD st' H; cbn [run] in H.
  - injection H as <-. auto.
  - destruct (step all_fixed st a) as [r|] eqn:E; [|eapply IH; eauto].
    pose proof (step_inv _ _ _ HI E) as G.
    destruct r as [st1|s e]; [|discriminate].
    cbn [good] in G. apply (IH st1); auto. exact (dstep st a st1 HI HD E).
Qed.

Lemma reach_both ca cb sched st :
  cW ca <= maxU64 -> cW cb <= maxU64 ->
  run all_fixed sched (init ca cb) = Running st -> Inv st /\ DInv st.
Proof.
  intros Ha Hb H. exact (drun sched (init ca cb) (inv_init ca cb Ha Hb) (dinv_init ca cb) st H).
Qed.

(* ---- the statements of C23 ---- *)
Definition prefix_of (r w : list byte) : Prop := exists rest, w = r ++ rest.

Lemma data_prefix st s i :
  DInv st -> prefix_of (getL i (rlog (ep st (other s)))) (getL i (wlog (ep st s))).
Proof.
  intros HD. destruct (HD s) as [Hm _]. destruct (Hm i) as [M _]. unfold main in M.
  destruct (get i (streams (ep st (other s)))) as [x|]; [eexists; exact M|exact M].
Qed.

Lemma data_equation st s i x :
  DInv st -> get i (streams (ep st (other s))) = Some x ->
  getL i (wlog (ep st s)) = getL i (rlog (ep st (other s))) ++ rbuf x ++ flight i (wire_to st (other s)).
Proof.
  intros HD G. destruct (HD s) as [Hm _]. destruct (Hm i) as [M _]. unfold main in M.
  now rewrite G in M.
Qed.

(* a Read returns io.EOF (the step AREof is enabled) only if the peer's
   close-write or close was delivered and everything written was read *)
Lemma data_eof st r i res :
  Inv st -> DInv st -> step all_fixed st (AREof r i) = Some res ->
  exists x, get i (streams (ep st r)) = Some x /\ (rcw x || rc x) = true /\ rbuf x = [] /\
            getL i (rlog (ep st r)) = getL i (wlog (ep st (other r))).
Proof.
  intros HI HD H. unfold step, with_stream in H.
  destruct (get i (streams (ep st r))) as [x|] eqn:G; [|discriminate].
  destruct (rst x); try discriminate. destruct (rbuf x) eqn:Rb; [|discriminate].
  destruct (rcw x || rc x) eqn:Q; [|discriminate].
  exists x. repeat split; auto.
  pose proof (data_equation st (other r) i x HD) as E. rewrite other_other in E. specialize (E G).
  destruct (inv_elim st r HI) as (_ & B & _).
  pose proof (d_per _ _ _ _ _ B i) as PB. pose proof (vw_of _ _ _ G) as Hv.
  assert (F : has_data i (wire_to st r) = false).
  { apply orb_true_iff in Q as [Q|Q].
    - destruct (d_rcw _ _ _ _ _ _ PB _ Hv Q) as (? & _); auto.
    - destruct (d_rc _ _ _ _ _ _ PB _ Hv Q) as (Z & _). now destruct (no_any _ _ Z) as (_ & _ & ? & _). }
  rewrite Rb, (flight_nodata _ _ F) in E. cbn in E. now rewrite app_nil_r in E.
Qed.

Lemma data_quiescent st s i x :
  DInv st -> get i (streams (ep st (other s))) = Some x -> rbuf x = [] ->
  has_data i (wire_to st (other s)) = false ->
  getL i (rlog (ep st (other s))) = getL i (wlog (ep st s)).
Proof.
  intros HD G Rb F. rewrite (data_equation st s i x HD G), Rb, (flight_nodata _ _ F).
  cbn. now rewrite app_nil_r.
Qed.

(* no data frame follows a close-write frame, and once the close-write is
   handed over the write side is gone *)
Lemma cw_after_data st s i :
  Inv st ->
  cw_last i (wire_to st (other s)) = true /\
  ((has_cw i (wire_to st (other s)) = true \/ get i (wcs (ep st s)) <> None) ->
   match get i (streams (ep st s)) with
   | None => True
   | Some x => wst x = WGone
   end).
Proof.
  intros HI. destruct (inv_elim st s HI) as (A & _). pose proof (d_per _ _ _ _ _ A i) as PA.
  split; [apply (d_cwlast _ _ _ _ _ _ PA)|].
  intros H. pose proof (d_cwsent _ _ _ _ _ _ PA H) as Q. unfold wgone, vw in Q.
  destruct (get i (streams (ep st s))) as [x|]; auto. cbn in Q. destruct (wst x); auto; discriminate.
Qed.

(* ---- the checker ---- *)
From Mv Require Import Model.MuxMon.

Lemma is_prefix_sound (r w : list N) : is_prefix r w = true -> exists rest, w = r ++ rest.
Proof.
  revert w. induction r as [|a r IH]; intros w H; cbn in H.
  - exists w. reflexivity.
  - destruct w as [|b w]; [discriminate|]. apply andb_true_iff in H as [H1 H2].
    apply N.eqb_eq in H1. subst b. destruct (IH _ H2) as (rest & ->). exists rest. reflexivity.
Qed.

Lemma is_prefix_app (r rest : list N) : is_prefix r (r ++ rest) = true.
Proof. induction r as [|a r IH]; cbn; auto. now rewrite N.eqb_refl, IH. Qed.

Lemma model_prefix_check st s i :
  DInv st ->
  is_prefix (map Byte.to_N (getL i (rlog (ep st (other s)))))
            (map Byte.to_N (getL i (wlog (ep st s)))) = true.
Proof.
  intros HD. destruct (data_prefix st s i HD) as (rest & ->).
  rewrite map_app. apply is_prefix_app.
Qed.

Definition ex_cfg : config := {| cW := 4; cBacklog := 2 |}.
Definition ex_sched : list action :=
  [AOpenAlloc SA; ADeliver SB; AAcceptPop SB; AAcceptSend SB 1; ADeliver SA; AOpenReturn SA 1;
   AWrite SA 1 [x61; x62; x63]; AWChunk SA 1; AWEnd SA 1; ADeliver SB;
   ARead SB 1 2; ARConsume SB 1; ARPost SB 1].

Lemma data_example :
  exists st, (cW ex_cfg <= maxU64 /\ cW ex_cfg <= maxU64 /\
              exists sched, run all_fixed sched (init ex_cfg ex_cfg) = Running st)
             /\ getL 1 (wlog (ep st SA)) = [x61; x62; x63]
             /\ getL 1 (rlog (ep st SB)) = [x61; x62].
Proof.
  eexists. split; [split; [|split]|].
  - unfold ex_cfg, maxU64; cbn; lia.
  - unfold ex_cfg, maxU64; cbn; lia.
  - exists ex_sched. vm_compute. reflexivity.
  - vm_compute. split; reflexivity.
Qed.
