(* The invariant I_mux of the multiplexer model (DESIGN §8 C24) and the basic
   facts about its ingredients.  Preservation is in Proof/MuxStep.v. *)
From Coq Require Import List NArith Bool Lia Arith.
From Coq Require Import Strings.Byte.
From Coq Require Import ZifyBool ZifyN ZifyNat.
From Mv Require Import Model.Mux.
Import ListNotations.
Local Open Scope N_scope.

(* ------------------------------------------------------------------ maps *)
Section AMapFacts.
Context {V : Type}.
Implicit Types (m : amap V) (i j : N).

Lemma get_set_eq i v m : get i (set i v m) = Some v.
Proof. unfold set; cbn. now rewrite N.eqb_refl. Qed.

Lemma get_del_eq i m : get i (del i m) = None.
Proof.
  induction m as [|[j v] t IH]; cbn; auto.
  destruct (N.eqb i j) eqn:E; cbn; auto. now rewrite E.
Qed.

Lemma get_del_ne i j m : i <> j -> get i (del j m) = get i m.
Proof.
  intros H. induction m as [|[k v] t IH]; cbn; auto.
  destruct (N.eqb j k) eqn:E; cbn.
  - apply N.eqb_eq in E; subst k.
    destruct (N.eqb i j) eqn:E2; auto. apply N.eqb_eq in E2; congruence.
  - destruct (N.eqb i k); auto.
Qed.

Lemma get_set_ne i j v m : i <> j -> get i (set j v m) = get i m.
Proof.
  intros H. unfold set; cbn.
  destruct (N.eqb i j) eqn:E.
  - apply N.eqb_eq in E; congruence.
  - now apply get_del_ne.
Qed.
End AMapFacts.

Lemma getN_set_eq i v m : getN i (set i v m) = v.
Proof. unfold getN. now rewrite get_set_eq. Qed.
Lemma getN_set_ne i j v m : i <> j -> getN i (set j v m) = getN i m.
Proof. intros; unfold getN. now rewrite get_set_ne. Qed.
Lemma getN_del_eq i m : getN i (del i m) = 0.
Proof. unfold getN. now rewrite get_del_eq. Qed.
Lemma getN_del_ne i j m : i <> j -> getN i (del j m) = getN i m.
Proof. intros; unfold getN. now rewrite get_del_ne. Qed.

(* ------------------------------------------------------ predicates on wires *)
Definition mid (m : msg) : option N :=
  match m with
  | MOpen i _ | MAccept i _ | MData i _ | MIncr i _ | MCloseWrite i | MClose i => Some i
  | MHeartbeat => None
  end.
Definition is_id (i : N) (m : msg) : bool :=
  match mid m with Some j => N.eqb i j | None => false end.
Definition is_open (i : N) (m : msg) : bool := match m with MOpen j _ => N.eqb i j | _ => false end.
Definition is_accept (i : N) (m : msg) : bool := match m with MAccept j _ => N.eqb i j | _ => false end.
Definition is_data (i : N) (m : msg) : bool := match m with MData j _ => N.eqb i j | _ => false end.
Definition is_incr (i : N) (m : msg) : bool := match m with MIncr j _ => N.eqb i j | _ => false end.
Definition is_cw (i : N) (m : msg) : bool := match m with MCloseWrite j => N.eqb i j | _ => false end.
Definition is_close (i : N) (m : msg) : bool := match m with MClose j => N.eqb i j | _ => false end.

Definition has_any i w := existsb (is_id i) w.
Definition has_open i w := existsb (is_open i) w.
Definition has_accept i w := existsb (is_accept i) w.
Definition has_data i w := existsb (is_data i) w.
Definition has_incr i w := existsb (is_incr i) w.
Definition has_cw i w := existsb (is_cw i) w.
Definition has_close i w := existsb (is_close i) w.

Fixpoint dataB (i : N) (w : list msg) : N :=
  match w with
  | [] => 0
  | MData j d :: t => (if N.eqb i j then len d else 0) + dataB i t
  | _ :: t => dataB i t
  end.
Fixpoint incB (i : N) (w : list msg) : N :=
  match w with
  | [] => 0
  | MIncr j n :: t => (if N.eqb i j then n else 0) + incB i t
  | _ :: t => incB i t
  end.

(* identifiers: the receiver's range checks simulated along the wire.
   [lg] is the receiver's largestOpenedInboundStreamIdentifier. *)
Fixpoint ids_ok (s : side) (lg : N) (w : list msg) : bool :=
  match w with
  | [] => true
  | MHeartbeat :: t => ids_ok s lg t
  | MOpen i _ :: t => negb (N.eqb i 0) && mine s i && N.ltb lg i && ids_ok s i t
  | m :: t =>
    match mid m with
    | Some i => negb (N.eqb i 0) && (negb (mine s i) || N.leb i lg) && ids_ok s lg t
    | None => ids_ok s lg t
    end
  end.
Fixpoint final_lg (lg : N) (w : list msg) : N :=
  match w with
  | [] => lg
  | MOpen i _ :: t => final_lg i t
  | _ :: t => final_lg lg t
  end.

(* values: windows announced are the sender's; increments positive; data
   blocks non-empty and at most 65535 bytes; accepts only for the peer's ids *)
Definition val_ok (s : side) (wS : N) (m : msg) : bool :=
  match m with
  | MOpen _ v => N.eqb v wS
  | MAccept i v => N.eqb v wS && negb (mine s i)
  | MIncr _ n => N.ltb 0 n
  | MData _ d => N.ltb 0 (len d) && N.leb (len d) maxBlock
  | _ => true
  end.

(* after the first message about i there is no accept for i *)
Fixpoint accept_first (i : N) (w : list msg) : bool :=
  match w with
  | [] => true
  | m :: t => if is_id i m then negb (has_accept i t) else accept_first i t
  end.
(* nothing about i follows a close for i *)
Fixpoint close_last (i : N) (w : list msg) : bool :=
  match w with
  | [] => true
  | m :: t => if is_close i m then negb (has_any i t) else close_last i t
  end.
(* no data and no second close-write follows a close-write for i *)
Fixpoint cw_last (i : N) (w : list msg) : bool :=
  match w with
  | [] => true
  | m :: t => if is_cw i m then negb (has_data i t) && negb (has_cw i t) else cw_last i t
  end.

(* ------------------------------------------------------------ the invariant *)
Definition noacc (e : endpoint) (i : N) : Prop :=
  get i (incs e) = None /\ get i (wcs e) = None /\ get i (cls e) = None.

Definition held (x : stream) : N := match rst x with RPost c => c | _ => 0 end.
Definition rterms (o : option stream) : N :=
  match o with Some x => len (rbuf x) + held x | None => 0 end.
Definition swterm (o : option stream) : N :=
  match o with Some x => sw x | None => 0 end.

Definition closedp (o : option stream) : Prop :=
  match o with None => True | Some y => cl y = CPosted end.
Definition wgone (o : option stream) : Prop :=
  match o with None => True | Some y => wst y = WGone end.

Definition pre_user (p : phase) : bool :=
  match p with PBacklog | PAccepting => true | _ => false end.

(* per-endpoint well-formedness *)
Record local_inv (s : side) (e : endpoint) : Prop := {
  l_id : forall i x, get i (streams e) = Some x -> i <> 0;
  l_posted : forall i x, get i (streams e) = Some x -> cl x = CPosted -> wst x = WGone /\ rst x = RGone;
  l_rgone : forall i x, get i (streams e) = Some x -> rst x = RGone -> wst x = WGone /\ cl x <> CNo;
  l_cl : forall i x, get i (streams e) = Some x -> cl x <> CNo -> ph x = PUser \/ ph x = PDead;
  l_early : forall i x, get i (streams e) = Some x ->
            (ph x = PBacklog \/ ph x = PAccepting \/ exists b, ph x = POpening b) ->
            wst x = WFree /\ rst x = RFree /\ cl x = CNo;
  l_noest : forall i x, get i (streams e) = Some x -> est x = false ->
            rbuf x = [] /\ held x = 0 /\ (mine s i = true -> sw x = 0);
  l_user : forall i x, get i (streams e) = Some x -> ph x = PUser -> est x = true;
  l_pre : forall i x, get i (streams e) = Some x -> pre_user (ph x) = true ->
          est x = false /\ mine s i = false;
  l_opening : forall i x b, get i (streams e) = Some x -> ph x = POpening b -> b = true /\ mine s i = true;
  l_backlog : forall i, In i (backlog e) -> exists x, get i (streams e) = Some x /\ ph x = PBacklog;
  l_nodup : NoDup (backlog e);
  l_cfg : cW (cfg e) <= maxU64
}.

(* one direction: sender S (endpoint eS), receiver R = other S (endpoint eR),
   w the wire S -> R, w' the wire R -> S *)
Record dir_inv (S : side) (eS eR : endpoint) (w w' : list msg) : Prop := {
  d_ids : ids_ok S (largestIn eR) w = true;
  d_next : nextOut eS <> 0 -> final_lg (largestIn eR) w < nextOut eS;
  d_vals : forallb (val_ok S (cW (cfg eS))) w = true;
  d_incpos : forall i n, get i (incs eS) = Some n -> 0 < n;
  (* identifiers S knows *)
  d_ks : forall i, mine S i = true ->
         (get i (streams eS) <> None \/ ~ noacc eS i) -> i <= final_lg (largestIn eR) w /\ i <> 0;
  d_kr : forall i, mine S i = false ->
         (get i (streams eS) <> None \/ ~ noacc eS i \/ has_any i w = true) -> i <= largestIn eS /\ i <> 0;
  (* an open still in flight *)
  d_openp : forall i, has_open i w = true ->
            has_data i w = false /\ has_incr i w = false /\ has_cw i w = false /\
            get i (incs eS) = None /\ get i (wcs eS) = None /\
            (forall y, get i (streams eS) = Some y -> est y = false /\ rc y = false /\ rcw y = false);
  (* an accept still in flight *)
  d_accp : forall i, has_accept i w = true ->
           accept_first i w = true /\
           (forall y, get i (streams eS) = Some y -> est y = true) /\
           (forall x, get i (streams eR) = Some x -> est x = false /\ rc x = false);
  (* close is the last word *)
  d_lastc : forall i, close_last i w = true;
  d_csent : forall i, (has_close i w = true \/ get i (cls eS) <> None) ->
            get i (incs eS) = None /\ get i (wcs eS) = None /\ closedp (get i (streams eS));
  d_conce : forall i, has_close i w = true -> get i (cls eS) = None;
  d_rc : forall i x, get i (streams eR) = Some x -> rc x = true ->
         has_any i w = false /\ noacc eS i /\ closedp (get i (streams eS));
  (* close-write ends the data *)
  d_cwlast : forall i, cw_last i w = true;
  d_cwsent : forall i, (has_cw i w = true \/ get i (wcs eS) <> None) -> wgone (get i (streams eS));
  d_cwonce : forall i, has_cw i w = true -> get i (wcs eS) = None;
  d_rcw : forall i x, get i (streams eR) = Some x -> rcw x = true ->
          has_data i w = false /\ has_cw i w = false /\ get i (wcs eS) = None /\ wgone (get i (streams eS));
  (* streams S has not accepted yet: S has said nothing about them *)
  d_pre : forall i y, get i (streams eS) = Some y -> pre_user (ph y) = true ->
          has_any i w = false /\ noacc eS i /\
          (forall x, get i (streams eR) = Some x -> est x = false /\ rc x = false /\ rcw x = false);
  (* S's own stream not established: only open and close were sent, nothing flows *)
  d_zero : forall i y, mine S i = true -> get i (streams eS) = Some y -> est y = false ->
           has_data i w = false /\ has_incr i w = false /\ has_cw i w = false /\
           get i (incs eS) = None /\ get i (wcs eS) = None /\
           rterms (get i (streams eR)) = 0 /\ get i (incs eR) = None /\ has_incr i w' = false;
  (* R's own stream not established: whoever talks about it accepted it first *)
  d_estr : forall i x, mine S i = false -> get i (streams eR) = Some x -> est x = false ->
           (has_data i w = true \/ has_cw i w = true \/ get i (wcs eS) <> None \/
            (exists y, get i (streams eS) = Some y /\ est y = true)) ->
           has_accept i w = true;
  (* S's own stream: the acceptor is established before S is *)
  d_ests : forall i x, mine S i = true -> get i (streams eR) = Some x -> est x = false ->
           has_data i w = false /\ (forall y, get i (streams eS) = Some y -> est y = false);
  (* window conservation for the data flowing S -> R *)
  d_sum : forall i, swterm (get i (streams eS)) + dataB i w + rterms (get i (streams eR))
                    + getN i (incs eR) + incB i w' <= cW (cfg eR)
}.

Definition Inv (st : state) : Prop :=
  forall s, dir_inv s (ep st s) (ep st (other s)) (wire_to st (other s)) (wire_to st s)
            /\ local_inv s (ep st s).
