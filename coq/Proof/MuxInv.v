(* The invariant I_mux of the multiplexer model (DESIGN §8 C24) and the basic
   facts about its ingredients.  Preservation is in Proof/MuxStep.v. *)
From Coq Require Import List NArith Bool Lia Arith.
From Coq Require Import Strings.Byte.

From Mv Require Import Model.Mux.
Import ListNotations.
Local Open Scope N_scope.

(* ------------------------------------------------------------------ maps *)
Section AMapFacts.
Context {V : Type}.
Implicit Types (m : amap V) (i j : N).

Lemma get_set_eq i v m : get i (set i v m) = Some v.
Proof. unfold set; cbn. now rewrite N.eqb_refl. Qed.

Lemma get_del_eq i m : get i (del i m) = None.
Proof.
  induction m as [|[j v] t IH]; cbn; auto.
  destruct (N.eqb i j) eqn:E; cbn; auto. now rewrite E.
Qed.

Lemma get_del_ne i j m : i <> j -> get i (del j m) = get i m.
Proof.
  intros H. induction m as [|[k v] t IH]; cbn; auto.
  destruct (N.eqb j k) eqn:E; cbn.
  - apply N.eqb_eq in E; subst k.
    destruct (N.eqb i j) eqn:E2; auto. apply N.eqb_eq in E2; congruence.
  - destruct (N.eqb i k); auto.
Qed.

Lemma get_set_ne i j v m : i <> j -> get i (set j v m) = get i m.
Proof.
  intros H. unfold set; cbn.
  destruct (N.eqb i j) eqn:E.
  - apply N.eqb_eq in E; congruence.
  - now apply get_del_ne.
Qed.
End AMapFacts.

Lemma getN_set_eq i v m : getN i (set i v m) = v.
Proof. unfold getN. now rewrite get_set_eq. Qed.
Lemma getN_set_ne i j v m : i <> j -> getN i (set j v m) = getN i m.
Proof. intros; unfold getN. now rewrite get_set_ne. Qed.
Lemma getN_del_eq i m : getN i (del i m) = 0.
Proof. unfold getN. now rewrite get_del_eq. Qed.
Lemma getN_del_ne i j m : i <> j -> getN i (del j m) = getN i m.
Proof. intros; unfold getN. now rewrite get_del_ne. Qed.

(* ------------------------------------------------------ predicates on wires *)
Definition mid (m : msg) : option N :=
  match m with
  | MOpen i _ | MAccept i _ | MData i _ | MIncr i _ | MCloseWrite i | MClose i => Some i
  | MHeartbeat => None
  end.
Definition is_id (i : N) (m : msg) : bool :=
  match mid m with Some j => N.eqb i j | None => false end.
Definition is_open (i : N) (m : msg) : bool := match m with MOpen j _ => N.eqb i j | _ => false end.
Definition is_accept (i : N) (m : msg) : bool := match m with MAccept j _ => N.eqb i j | _ => false end.
Definition is_data (i : N) (m : msg) : bool := match m with MData j _ => N.eqb i j | _ => false end.
Definition is_incr (i : N) (m : msg) : bool := match m with MIncr j _ => N.eqb i j | _ => false end.
Definition is_cw (i : N) (m : msg) : bool := match m with MCloseWrite j => N.eqb i j | _ => false end.
Definition is_close (i : N) (m : msg) : bool := match m with MClose j => N.eqb i j | _ => false end.

Definition has_any i w := existsb (is_id i) w.
Definition has_open i w := existsb (is_open i) w.
Definition has_accept i w := existsb (is_accept i) w.
Definition has_data i w := existsb (is_data i) w.
Definition has_incr i w := existsb (is_incr i) w.
Definition has_cw i w := existsb (is_cw i) w.
Definition has_close i w := existsb (is_close i) w.

Fixpoint dataB (i : N) (w : list msg) : N :=
  match w with
  | [] => 0
  | MData j d :: t => (if N.eqb i j then len d else 0) + dataB i t
  | _ :: t => dataB i t
  end.
Fixpoint incB (i : N) (w : list msg) : N :=
  match w with
  | [] => 0
  | MIncr j n :: t => (if N.eqb i j then n else 0) + incB i t
  | _ :: t => incB i t
  end.

(* identifiers: the receiver's range checks simulated along the wire.
   [lg] is the receiver's largestOpenedInboundStreamIdentifier. *)
Fixpoint ids_ok (s : side) (lg : N) (w : list msg) : bool :=
  match w with
  | [] => true
  | MHeartbeat :: t => ids_ok s lg t
  | MOpen i _ :: t => negb (N.eqb i 0) && mine s i && N.ltb lg i && ids_ok s i t
  | m :: t =>
    match mid m with
    | Some i => negb (N.eqb i 0) && (negb (mine s i) || N.leb i lg) && ids_ok s lg t
    | None => ids_ok s lg t
    end
  end.
Fixpoint final_lg (lg : N) (w : list msg) : N :=
  match w with
  | [] => lg
  | MOpen i _ :: t => final_lg i t
  | _ :: t => final_lg lg t
  end.

(* values: windows announced are the sender's; increments positive; data
   blocks non-empty and at most 65535 bytes; accepts only for the peer's ids *)
Definition val_ok (s : side) (wS : N) (m : msg) : bool :=
  match m with
  | MOpen _ v => N.eqb v wS
  | MAccept i v => N.eqb v wS && negb (mine s i)
  | MIncr _ n => N.ltb 0 n
  | MData _ d => N.ltb 0 (len d) && N.leb (len d) maxBlock
  | _ => true
  end.

(* after the first message about i there is no accept for i *)
Fixpoint accept_first (i : N) (w : list msg) : bool :=
  match w with
  | [] => true
  | m :: t => if is_id i m then negb (has_accept i t) else accept_first i t
  end.
(* nothing about i follows a close for i *)
Fixpoint close_last (i : N) (w : list msg) : bool :=
  match w with
  | [] => true
  | m :: t => if is_close i m then negb (has_any i t) else close_last i t
  end.
(* no data and no second close-write follows a close-write for i *)
Fixpoint cw_last (i : N) (w : list msg) : bool :=
  match w with
  | [] => true
  | m :: t => if is_cw i m then negb (has_data i t) && negb (has_cw i t) else cw_last i t
  end.

(* ------------------------------------------------------------ the invariant *)
Definition noacc (e : endpoint) (i : N) : Prop :=
  get i (incs e) = None /\ get i (wcs e) = None /\ get i (cls e) = None.

Definition held (x : stream) : N := match rst x with RPost c => c | _ => 0 end.

(* what the invariant between the two endpoints sees of a stream *)
Record view := {
  v_sw : N; v_est : bool; v_rc : bool; v_rcw : bool;
  v_wgone : bool;      (* write token out of circulation, close-write handed over or not due *)
  v_posted : bool;     (* Stream.close has handed over (or skipped) its close message *)
  v_pre : bool;        (* inbound stream not yet accepted locally *)
  v_rt : N }.          (* bytes buffered + bytes consumed but not yet credited *)

Definition pre_user (p : phase) : bool :=
  match p with PBacklog | PAccepting => true | _ => false end.

Definition view_of (x : stream) : view :=
  {| v_sw := sw x; v_est := est x; v_rc := rc x; v_rcw := rcw x;
     v_wgone := match wst x with WGone => true | _ => false end;
     v_posted := match cl x with CPosted => true | _ => false end;
     v_pre := pre_user (ph x);
     v_rt := len (rbuf x) + held x |}.

Definition vw (e : endpoint) (i : N) : option view := option_map view_of (get i (streams e)).

Definition rterms (o : option view) : N := match o with Some x => v_rt x | None => 0 end.
Definition swterm (o : option view) : N := match o with Some x => v_sw x | None => 0 end.
Definition closedp (o : option view) : Prop :=
  match o with None => True | Some y => v_posted y = true end.
Definition wgone (o : option view) : Prop :=
  match o with None => True | Some y => v_wgone y = true end.

(* per-stream and per-endpoint well-formedness *)
Record sl_ok (s : side) (i : N) (x : stream) : Prop := {
  l_id : i <> 0;
  l_posted : cl x = CPosted -> wst x = WGone /\ rst x = RGone;
  l_rgone : rst x = RGone -> wst x = WGone /\ cl x <> CNo;
  l_cl : cl x <> CNo -> ph x = PUser \/ ph x = PDead;
  l_early : (ph x = PBacklog \/ ph x = PAccepting \/ exists b, ph x = POpening b) ->
            wst x = WFree /\ rst x = RFree /\ cl x = CNo;
  l_noest : est x = false -> rbuf x = [] /\ held x = 0 /\ (mine s i = true -> sw x = 0);
  l_user : ph x = PUser -> est x = true;
  l_pre : pre_user (ph x) = true -> est x = false /\ mine s i = false;
  l_opening : forall b, ph x = POpening b -> b = true /\ mine s i = true;
  l_posting : wst x = WPosting -> ph x = PUser;
  l_held : forall r, wst x = WHeld r -> ph x = PUser
}.

Record local_inv (s : side) (e : endpoint) : Prop := {
  l_streams : forall i x, get i (streams e) = Some x -> sl_ok s i x;
  l_backlog : forall i, In i (backlog e) -> exists x, get i (streams e) = Some x /\ ph x = PBacklog;
  l_nodup : NoDup (backlog e);
  l_cfg : cW (cfg e) <= maxU64
}.

(* one direction: sender S (endpoint eS), receiver R = other S (endpoint eR),
   w the wire S -> R, w' the wire R -> S.  [per_id] is everything said about
   one stream identifier i. *)
Record per_id (S : side) (eS eR : endpoint) (w w' : list msg) (i : N) : Prop := {
  d_incpos : forall n, get i (incs eS) = Some n -> 0 < n;
  (* identifiers S knows *)
  d_ks : mine S i = true ->
         (vw eS i <> None \/ ~ noacc eS i) -> i <= final_lg (largestIn eR) w /\ i <> 0;
  d_kr : mine S i = false ->
         (vw eS i <> None \/ ~ noacc eS i \/ has_any i w = true) -> i <= largestIn eS /\ i <> 0;
  (* an open still in flight *)
  d_openp : has_open i w = true ->
            has_data i w = false /\ has_incr i w = false /\ has_cw i w = false /\
            get i (incs eS) = None /\ get i (wcs eS) = None /\
            (forall y, vw eS i = Some y -> v_est y = false /\ v_rc y = false /\ v_rcw y = false);
  (* an accept still in flight *)
  d_accp : has_accept i w = true ->
           accept_first i w = true /\
           (forall y, vw eS i = Some y -> v_est y = true) /\
           (forall x, vw eR i = Some x -> v_est x = false /\ v_rc x = false);
  (* close is the last word *)
  d_lastc : close_last i w = true;
  d_csent : (has_close i w = true \/ get i (cls eS) <> None) ->
            get i (incs eS) = None /\ get i (wcs eS) = None /\ closedp (vw eS i);
  d_conce : has_close i w = true -> get i (cls eS) = None;
  d_rc : forall x, vw eR i = Some x -> v_rc x = true ->
         has_any i w = false /\ noacc eS i /\ closedp (vw eS i);
  (* close-write ends the data *)
  d_cwlast : cw_last i w = true;
  d_cwsent : (has_cw i w = true \/ get i (wcs eS) <> None) -> wgone (vw eS i);
  d_cwonce : has_cw i w = true -> get i (wcs eS) = None;
  d_rcw : forall x, vw eR i = Some x -> v_rcw x = true ->
          has_data i w = false /\ has_cw i w = false /\ get i (wcs eS) = None /\ wgone (vw eS i);
  (* streams S has not accepted yet: S has said nothing about them *)
  d_pre : forall y, vw eS i = Some y -> v_pre y = true ->
          has_any i w = false /\ noacc eS i /\
          (forall x, vw eR i = Some x -> v_est x = false /\ v_rc x = false /\ v_rcw x = false);
  (* S's own stream not established: only open and close were sent, nothing flows *)
  d_zero : forall y, mine S i = true -> vw eS i = Some y -> v_est y = false ->
           has_data i w = false /\ has_incr i w = false /\ has_cw i w = false /\
           get i (incs eS) = None /\ get i (wcs eS) = None /\
           rterms (vw eR i) = 0 /\ get i (incs eR) = None /\ has_incr i w' = false;
  (* R's own stream not established: whoever talks about it accepted it first *)
  d_estr : forall x, mine S i = false -> vw eR i = Some x -> v_est x = false ->
           (has_data i w = true \/ has_cw i w = true \/ get i (wcs eS) <> None \/
            (exists y, vw eS i = Some y /\ v_est y = true)) ->
           has_accept i w = true;
  (* S's own stream: the acceptor is established before S is *)
  d_ests : forall x, mine S i = true -> vw eR i = Some x -> v_est x = false ->
           has_data i w = false /\ (forall y, vw eS i = Some y -> v_est y = false);
  (* window conservation for the data flowing S -> R *)
  d_sum : swterm (vw eS i) + dataB i w + rterms (vw eR i)
          + getN i (incs eR) + incB i w' <= cW (cfg eR)
}.

Record dir_inv (S : side) (eS eR : endpoint) (w w' : list msg) : Prop := {
  d_ids : ids_ok S (largestIn eR) w = true;
  d_next : nextOut eS <> 0 -> final_lg (largestIn eR) w < nextOut eS;
  d_nextp : nextOut eS <> 0 -> mine S (nextOut eS) = true;
  d_vals : forallb (val_ok S (cW (cfg eS))) w = true;
  d_per : forall i, per_id S eS eR w w' i
}.

Definition Inv (st : state) : Prop :=
  forall s, dir_inv s (ep st s) (ep st (other s)) (wire_to st (other s)) (wire_to st s)
            /\ local_inv s (ep st s).

(* everything the invariant reads of a wire about identifier i *)
Definition wp (i : N) (w : list msg) :=
  (has_any i w, has_open i w, has_accept i w, has_data i w, has_incr i w, has_cw i w,
   has_close i w, dataB i w, incB i w, accept_first i w, close_last i w, cw_last i w).

(* ---------------------------------------------------- facts about wires *)
Lemma has_app (p : msg -> bool) w m : existsb p (w ++ [m]) = existsb p w || p m.
Proof. rewrite existsb_app; cbn. now rewrite orb_false_r. Qed.

Lemma dataB_app i w m : dataB i (w ++ [m]) = dataB i w + dataB i [m].
Proof.
  generalize [m] as l. intros l.
  induction w as [|a t IH]; [cbn [app dataB]; lia|].
  destruct a; cbn [app dataB]; rewrite ?IH; try lia.
Qed.
Lemma incB_app i w m : incB i (w ++ [m]) = incB i w + incB i [m].
Proof.
  generalize [m] as l. intros l.
  induction w as [|a t IH]; [cbn [app incB]; lia|].
  destruct a; cbn [app incB]; rewrite ?IH; try lia.
Qed.

Lemma final_lg_app lg w m : final_lg lg (w ++ [m]) = final_lg (final_lg lg w) [m].
Proof.
  generalize [m] as l; intros l.
  revert lg; induction w as [|a t IH]; intros; cbn [app final_lg]; auto. destruct a; cbn [final_lg]; apply IH.
Qed.

Lemma ids_ok_app s lg w m :
  ids_ok s lg (w ++ [m]) = ids_ok s lg w && ids_ok s (final_lg lg w) [m].
Proof.
  generalize [m] as l; intros l.
  revert lg; induction w as [|a t IH]; intros lg.
  - cbn [app ids_ok final_lg]. reflexivity.
  - cbn [app]. destruct a; cbn [ids_ok final_lg mid]; rewrite ?IH; rewrite ?andb_assoc; reflexivity.
Qed.

Lemma ids_ok_mono s lg w : ids_ok s lg w = true -> lg <= final_lg lg w.
Proof.
  revert lg; induction w as [|a t IH]; intros lg H; cbn [final_lg]; [lia|].
  destruct a; cbn [ids_ok mid] in H; try (apply IH; (now rewrite ?andb_true_iff in H; intuition)).
  rewrite !andb_true_iff in H. destruct H as [[[_ _] Hl] Ht]. apply IH in Ht. apply N.ltb_lt in Hl. lia.
Qed.

Lemma is_id_cases i m :
  is_id i m = is_open i m || is_accept i m || is_data i m || is_incr i m || is_cw i m || is_close i m.
Proof. destruct m; cbn; rewrite ?orb_false_r; reflexivity. Qed.

Lemma has_any_of (p : N -> msg -> bool) i w :
  (forall m, p i m = true -> is_id i m = true) -> existsb (p i) w = true -> has_any i w = true.
Proof.
  intros Hp H. unfold has_any. apply existsb_exists in H as (m & Hin & Hm).
  apply existsb_exists. exists m; auto.
Qed.
Lemma has_open_any i w : has_open i w = true -> has_any i w = true.
Proof. apply (has_any_of is_open). intros m; destruct m; cbn; auto; discriminate. Qed.
Lemma has_accept_any i w : has_accept i w = true -> has_any i w = true.
Proof. apply (has_any_of is_accept). intros m; destruct m; cbn; auto; discriminate. Qed.
Lemma has_data_any i w : has_data i w = true -> has_any i w = true.
Proof. apply (has_any_of is_data). intros m; destruct m; cbn; auto; discriminate. Qed.
Lemma has_incr_any i w : has_incr i w = true -> has_any i w = true.
Proof. apply (has_any_of is_incr). intros m; destruct m; cbn; auto; discriminate. Qed.
Lemma has_cw_any i w : has_cw i w = true -> has_any i w = true.
Proof. apply (has_any_of is_cw). intros m; destruct m; cbn; auto; discriminate. Qed.
Lemma has_close_any i w : has_close i w = true -> has_any i w = true.
Proof. apply (has_any_of is_close). intros m; destruct m; cbn; auto; discriminate. Qed.

Lemma no_any i w :
  has_any i w = false ->
  has_open i w = false /\ has_accept i w = false /\ has_data i w = false /\
  has_incr i w = false /\ has_cw i w = false /\ has_close i w = false.
Proof.
  intros H. repeat split; apply not_true_is_false; intros C;
  [apply has_open_any in C|apply has_accept_any in C|apply has_data_any in C
  |apply has_incr_any in C|apply has_cw_any in C|apply has_close_any in C]; congruence.
Qed.

(* every identifier of the sender's parity on the wire is at most final_lg *)
Lemma ids_ok_bound s lg w i :
  ids_ok s lg w = true -> has_any i w = true -> mine s i = true -> i <= final_lg lg w.
Proof.
  revert lg; induction w as [|a t IH]; intros lg H Ha Hm; [discriminate|].
  cbn [has_any existsb] in Ha. apply orb_true_iff in Ha.
  destruct a; cbn [ids_ok mid final_lg] in *; rewrite ?andb_true_iff in H;
    try (destruct Ha as [Ha|Ha];
         [ unfold is_id in Ha; cbn [mid] in Ha; apply N.eqb_eq in Ha; subst;
           destruct H as [[_ H1] H2]; rewrite Hm in H1; cbn in H1; apply N.leb_le in H1;
           apply ids_ok_mono in H2; lia
         | apply IH; intuition ]).
  - (* open *)
    destruct H as [[[_ _] Hl] Ht]. apply N.ltb_lt in Hl. destruct Ha as [Ha|Ha].
    + unfold is_id in Ha; cbn [mid] in Ha; apply N.eqb_eq in Ha; subst.
      apply ids_ok_mono in Ht. lia.
    + apply IH; auto.
  - (* heartbeat *)
    destruct Ha as [Ha|Ha]; [discriminate|]. apply IH; auto.
Qed.

Lemma ids_ok_nz s lg w i : ids_ok s lg w = true -> has_any i w = true -> i <> 0.
Proof.
  revert lg; induction w as [|a t IH]; intros lg H Ha; [discriminate|].
  cbn [has_any existsb] in Ha. apply orb_true_iff in Ha.
  destruct a; cbn [ids_ok mid] in H; rewrite ?andb_true_iff in H;
    (destruct Ha as [Ha|Ha];
     [ unfold is_id in Ha; cbn [mid] in Ha; try discriminate; apply N.eqb_eq in Ha; subst;
       intuition; match goal with X : negb _ = true |- _ => apply negb_true_iff, N.eqb_neq in X; congruence end
     | eapply IH; [|exact Ha]; intuition eauto ]).
Qed.

Lemma accept_first_app i w m :
  accept_first i (w ++ [m]) = accept_first i w && (negb (has_any i w) || negb (is_accept i m)).
Proof.
  induction w as [|a t IH]; cbn [app accept_first has_any existsb].
  - destruct (is_id i m); cbn; auto.
  - destruct (is_id i a) eqn:E; cbn [orb negb].
    + unfold has_accept. rewrite has_app. rewrite negb_orb. reflexivity.
    + rewrite IH. reflexivity.
Qed.

Lemma close_last_app i w m :
  close_last i (w ++ [m]) = close_last i w && (negb (has_close i w) || negb (is_id i m)).
Proof.
  induction w as [|a t IH].
  - cbn. destruct (is_close i m); cbn; auto.
  - cbn [app close_last]. unfold has_close in *. cbn [existsb].
    destruct (is_close i a) eqn:E.
    + unfold has_any. rewrite has_app, negb_orb. cbn. reflexivity.
    + rewrite IH. cbn. reflexivity.
Qed.

Lemma cw_last_app i w m :
  cw_last i (w ++ [m]) =
  cw_last i w && (negb (has_cw i w) || (negb (is_data i m) && negb (is_cw i m))).
Proof.
  induction w as [|a t IH].
  - cbn. destruct (is_cw i m); cbn; auto.
  - cbn [app cw_last]. unfold has_cw in *. cbn [existsb].
    destruct (is_cw i a) eqn:E.
    + unfold has_data. rewrite !has_app, !negb_orb. cbn.
      destruct (existsb (is_data i) t), (existsb (is_cw i) t), (is_data i m), (is_cw i m); reflexivity.
    + rewrite IH. cbn. reflexivity.
Qed.

(* ------------------------------------------------- views under map updates *)
Lemma vw_put e j x i :
  vw (put_stream j x e) i = if N.eqb i j then Some (view_of x) else vw e i.
Proof.
  unfold vw, put_stream; cbn [streams set_streams]. destruct (N.eqb i j) eqn:E.
  - apply N.eqb_eq in E; subst. now rewrite get_set_eq.
  - apply N.eqb_neq in E. now rewrite get_set_ne.
Qed.

Lemma vw_some e i y : vw e i = Some y -> exists x, get i (streams e) = Some x /\ y = view_of x.
Proof. unfold vw. destruct (get i (streams e)); cbn; intros H; inversion H; eauto. Qed.
Lemma vw_of e i x : get i (streams e) = Some x -> vw e i = Some (view_of x).
Proof. unfold vw. now intros ->. Qed.
Lemma vw_none e i : get i (streams e) = None -> vw e i = None.
Proof. unfold vw. now intros ->. Qed.

Lemma mine_other s i : mine (other s) i = negb (mine s i).
Proof. destruct s; unfold mine; cbn; destruct (N.even i); reflexivity. Qed.
Lemma other_other s : other (other s) = s.
Proof. now destruct s. Qed.

(* messages about other identifiers do not change the projection *)
Lemma is_id_false i m :
  is_id i m = false ->
  is_open i m = false /\ is_accept i m = false /\ is_data i m = false /\
  is_incr i m = false /\ is_cw i m = false /\ is_close i m = false.
Proof. rewrite is_id_cases, !orb_false_iff. tauto. Qed.

Lemma wp_app_other i w m : is_id i m = false -> wp i (w ++ [m]) = wp i w.
Proof.
  intros H. pose proof (is_id_false _ _ H) as (H1 & H2 & H3 & H4 & H5 & H6).
  unfold wp, has_any, has_open, has_accept, has_data, has_incr, has_cw, has_close.
  rewrite !has_app, dataB_app, incB_app, accept_first_app, close_last_app, cw_last_app.
  rewrite H, H1, H2, H3, H4, H5, H6, !orb_false_r, !andb_true_r.
  cbn [negb andb orb]. rewrite !orb_true_r, !andb_true_r.
  assert (dataB i [m] = 0) as ->.
  { destruct m; cbn in *; try reflexivity. now rewrite H3. }
  assert (incB i [m] = 0) as ->.
  { destruct m; cbn in *; try reflexivity. now rewrite H4. }
  rewrite !N.add_0_r. reflexivity.
Qed.

Lemma wp_cons_other i w m : is_id i m = false -> wp i (m :: w) = wp i w.
Proof.
  intros H. pose proof (is_id_false _ _ H) as (H1 & H2 & H3 & H4 & H5 & H6).
  unfold wp, has_any, has_open, has_accept, has_data, has_incr, has_cw, has_close.
  cbn [existsb accept_first close_last cw_last].
  rewrite H, H1, H2, H3, H4, H5, H6. cbn [orb].
  assert (dataB i (m :: w) = dataB i w) as ->.
  { destruct m; cbn in *; try reflexivity. now rewrite H3. }
  assert (incB i (m :: w) = incB i w) as ->.
  { destruct m; cbn in *; try reflexivity. now rewrite H4. }
  reflexivity.
Qed.

Lemma is_id_ne i j m : mid m = Some j -> i <> j -> is_id i m = false.
Proof. unfold is_id; intros -> H. now apply N.eqb_neq. Qed.
Lemma is_id_hb i : is_id i MHeartbeat = false.
Proof. reflexivity. Qed.

(* append / cons forms for the named predicates *)
Lemma has_any_app i w m : has_any i (w ++ [m]) = has_any i w || is_id i m.
Proof. apply has_app. Qed.
Lemma has_open_app i w m : has_open i (w ++ [m]) = has_open i w || is_open i m.
Proof. apply has_app. Qed.
Lemma has_accept_app i w m : has_accept i (w ++ [m]) = has_accept i w || is_accept i m.
Proof. apply has_app. Qed.
Lemma has_data_app i w m : has_data i (w ++ [m]) = has_data i w || is_data i m.
Proof. apply has_app. Qed.
Lemma has_incr_app i w m : has_incr i (w ++ [m]) = has_incr i w || is_incr i m.
Proof. apply has_app. Qed.
Lemma has_cw_app i w m : has_cw i (w ++ [m]) = has_cw i w || is_cw i m.
Proof. apply has_app. Qed.
Lemma has_close_app i w m : has_close i (w ++ [m]) = has_close i w || is_close i m.
Proof. apply has_app. Qed.

Lemma has_any_cons i w m : has_any i (m :: w) = is_id i m || has_any i w.
Proof. reflexivity. Qed.
Lemma has_open_cons i w m : has_open i (m :: w) = is_open i m || has_open i w.
Proof. reflexivity. Qed.
Lemma has_accept_cons i w m : has_accept i (m :: w) = is_accept i m || has_accept i w.
Proof. reflexivity. Qed.
Lemma has_data_cons i w m : has_data i (m :: w) = is_data i m || has_data i w.
Proof. reflexivity. Qed.
Lemma has_incr_cons i w m : has_incr i (m :: w) = is_incr i m || has_incr i w.
Proof. reflexivity. Qed.
Lemma has_cw_cons i w m : has_cw i (m :: w) = is_cw i m || has_cw i w.
Proof. reflexivity. Qed.
Lemma has_close_cons i w m : has_close i (m :: w) = is_close i m || has_close i w.
Proof. reflexivity. Qed.

Lemma vw_put_eq e j x : vw (put_stream j x e) j = Some (view_of x).
Proof. rewrite vw_put. now rewrite N.eqb_refl. Qed.
Lemma vw_put_ne e j x i : i <> j -> vw (put_stream j x e) i = vw e i.
Proof. intros H. rewrite vw_put. apply N.eqb_neq in H. now rewrite H. Qed.

Lemma vw_set_incs v e i : vw (set_incs v e) i = vw e i. Proof. reflexivity. Qed.
Lemma vw_set_wcs v e i : vw (set_wcs v e) i = vw e i. Proof. reflexivity. Qed.
Lemma vw_set_cls v e i : vw (set_cls v e) i = vw e i. Proof. reflexivity. Qed.
Lemma vw_set_wlog v e i : vw (set_wlog v e) i = vw e i. Proof. reflexivity. Qed.
Lemma vw_set_rlog v e i : vw (set_rlog v e) i = vw e i. Proof. reflexivity. Qed.
Lemma vw_set_eofs v e i : vw (set_eofs v e) i = vw e i. Proof. reflexivity. Qed.
Lemma vw_set_nextOut v e i : vw (set_nextOut v e) i = vw e i. Proof. reflexivity. Qed.
Lemma vw_set_largestIn v e i : vw (set_largestIn v e) i = vw e i. Proof. reflexivity. Qed.
Lemma vw_set_backlog v e i : vw (set_backlog v e) i = vw e i. Proof. reflexivity. Qed.
Lemma vw_set_mclosed v e i : vw (set_mclosed v e) i = vw e i. Proof. reflexivity. Qed.

Lemma incs_put j x e : incs (put_stream j x e) = incs e. Proof. reflexivity. Qed.
Lemma wcs_put j x e : wcs (put_stream j x e) = wcs e. Proof. reflexivity. Qed.
Lemma cls_put j x e : cls (put_stream j x e) = cls e. Proof. reflexivity. Qed.
Lemma cfg_put j x e : cfg (put_stream j x e) = cfg e. Proof. reflexivity. Qed.
Lemma largestIn_put j x e : largestIn (put_stream j x e) = largestIn e. Proof. reflexivity. Qed.
Lemma nextOut_put j x e : nextOut (put_stream j x e) = nextOut e. Proof. reflexivity. Qed.
Lemma backlog_put j x e : backlog (put_stream j x e) = backlog e. Proof. reflexivity. Qed.

Lemma vw_del_eq e j : vw (set_streams (del j (streams e)) e) j = None.
Proof. unfold vw; cbn [streams set_streams]. now rewrite get_del_eq. Qed.
Lemma vw_del_ne e j i : i <> j -> vw (set_streams (del j (streams e)) e) i = vw e i.
Proof. intros H. unfold vw; cbn [streams set_streams]. now rewrite get_del_ne. Qed.

Lemma has_accept_mine S wS w i :
  forallb (val_ok S wS) w = true -> has_accept i w = true -> mine S i = false.
Proof.
  intros Hv Ha. unfold has_accept in Ha. apply existsb_exists in Ha as (m & Hin & Hm).
  rewrite forallb_forall in Hv. specialize (Hv _ Hin).
  destruct m; cbn in Hm; try discriminate. apply N.eqb_eq in Hm; subst.
  cbn in Hv. apply andb_true_iff in Hv as [_ Hv]. now apply negb_true_iff in Hv.
Qed.
Lemma has_open_mine S lg w i : ids_ok S lg w = true -> has_open i w = true -> mine S i = true.
Proof.
  revert lg. induction w as [|a t IH]; intros lg H Ho; [discriminate|].
  cbn [has_open existsb] in Ho. apply orb_true_iff in Ho.
  destruct a; cbn [ids_ok mid] in H; rewrite ?andb_true_iff in H; cbn [is_open] in Ho;
    try (destruct Ho as [Ho|Ho]; [discriminate|]; eapply IH; [|exact Ho]; intuition eauto).
  destruct Ho as [Ho|Ho].
  - apply N.eqb_eq in Ho; subst. intuition.
  - eapply IH; [|exact Ho]. intuition eauto.
Qed.

Lemma no_any_zero i w : has_any i w = false -> dataB i w = 0 /\ incB i w = 0.
Proof.
  induction w as [|a t IH]; cbn [has_any existsb]; [auto|].
  intros H. apply orb_false_iff in H as [H1 H2]. destruct (IH H2) as [A B].
  destruct a; cbn [dataB incB]; unfold is_id in H1; cbn [mid] in H1; rewrite ?H1, ?A, ?B; auto.
Qed.
