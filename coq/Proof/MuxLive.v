(* C25, safety forms: lemmas behind Props/C25.v. *)
From Coq Require Import List NArith Bool Lia Arith.
From Coq Require Import Strings.Byte.
From Mv Require Import Model.Mux Model.MuxWait Model.MuxMon Proof.MuxInv Proof.MuxStep Proof.MuxStepA Proof.Mux.
Import ListNotations.
Local Open Scope N_scope.
Set Default Timeout 300.

(* the shared reader can always take the next frame, whatever the streams'
   consumers do, and taking it never fails *)
Lemma reader_progress st s :
  Inv st -> wire_to st s <> [] -> exists st', step all_fixed st (ADeliver s) = Some (Running st').
Proof.
  intros HI W.
  destruct (step all_fixed st (ADeliver s)) as [r|] eqn:E.
  - pose proof (step_inv _ _ _ HI E) as G. destruct r as [st'|s0 e0]; [eauto|contradiction].
  - exfalso. unfold step in E. destruct (wire_to st s); [congruence|].
    destruct (deliver s (ep st s) m); discriminate.
Qed.

(* in particular a data frame for a stream the receiver has always fits the
   buffer: ReadNFrom never returns ErrBufferFull *)
Lemma buffer_never_full st s i d t x :
  Inv st -> wire_to st s = MData i d :: t -> get i (streams (ep st s)) = Some x ->
  len (rbuf x) + len d <= cW (cfg (ep st s)).
Proof.
  intros HI W G. destruct (inv_elim st s HI) as (_ & B & _). rewrite W in B.
  pose proof (d_sum _ _ _ _ _ _ (d_per _ _ _ _ _ B i)) as S.
  rewrite (vw_of _ _ _ G) in S. cbn [rterms view_of v_rt dataB] in S.
  rewrite N.eqb_refl in S. lia.
Qed.

(* the accept backlog never exceeds its capacity *)
Definition backlog_ok (st : state) : Prop :=
  forall s, (length (backlog (ep st s)) <= cBacklog (cfg (ep st s)))%nat.

Ltac side_cases := repeat match goal with s : side |- _ => destruct s end.

Lemma backlog_step fx st a st' :
  backlog_ok st -> step fx st a = Some (Running st') -> backlog_ok st'.
Proof.
  intros HB H s'. pose proof (HB SA) as BA. pose proof (HB SB) as BB.
  destruct a; unfold step, with_stream in H; step_cases H; try (injection H as <-);
    try (side_cases; cbn in *; lia).
  all: try (side_cases; cbn in *; rewrite ?Heql in *; cbn in *; lia).
  all: unfold deliver in *; step_cases Heqd; injection Heqd as <-;
       side_cases; cbn in *; rewrite ?app_length in *; cbn in *;
       try lia; try (apply Nat.eqb_neq in Heqb2; lia); try (apply Nat.eqb_neq in Heqb3; lia).
Qed.

Lemma backlog_run fx sched : forall st st', backlog_ok st -> run fx sched st = Running st' -> backlog_ok st'.
Proof.
  induction sched as [|a rest IH]; intros st st' HB H; cbn [run] in H.
  - injection H as <-. auto.
  - destruct (step fx st a) as [[st1|s e]|] eqn:E; try discriminate; eauto using backlog_step.
Qed.

Lemma backlog_init ca cb : backlog_ok (init ca cb).
Proof. intros []; cbn; lia. Qed.

(* an open delivered while the backlog is full is rejected: no stream, no
   backlog entry, and a close (the rejection) is handed to enqueue *)
Lemma open_rejected s e i w :
  N.eqb i 0 = false -> mine s i = false -> largestIn e < i ->
  length (backlog e) = cBacklog (cfg e) ->
  exists e', deliver s e (MOpen i w) = DOk e' /\
             backlog e' = backlog e /\ streams e' = streams e /\ get i (cls e') = Some tt.
Proof.
  intros Z M L B. unfold deliver. rewrite Z, M. rewrite (proj2 (N.leb_gt _ _) L).
  cbn [set_largestIn backlog cfg]. rewrite B, Nat.eqb_refl.
  eexists; split; [reflexivity|]. cbn. rewrite N.eqb_refl. auto.
Qed.

(* a held token can always be handed back: no Read or Write is stuck holding it *)
Lemma token_returnable st s i x :
  get i (streams (ep st s)) = Some x ->
  (forall r, wst x = WHeld r -> exists st', step all_fixed st (AWEnd s i) = Some (Running st')) /\
  (forall k, rst x = RHeld k -> exists st', step all_fixed st (AREnd s i) = Some (Running st')) /\
  (forall c, rst x = RPost c -> exists st', step all_fixed st (ARPost s i) = Some (Running st')).
Proof.
  intros G. split; [|split].
  - intros v H. unfold step, with_stream. rewrite G, H. unfold ok. eauto.
  - intros v H. unfold step, with_stream. rewrite G, H. unfold ok. eauto.
  - intros v H. unfold step, with_stream. rewrite G, H. unfold ok. cbn. destruct (N.eqb v 0); eauto.
Qed.

Lemma wait_sets_cover : forallb covers all_points = true.
Proof. vm_compute. reflexivity. Qed.

Lemma covers_spec p k : covers p = true -> In k (required p) -> In k (waits p).
Proof.
  unfold covers. rewrite forallb_forall. intros H Hin. specialize (H _ Hin).
  apply existsb_exists in H as (k' & Hk & E).
  destruct k, k'; cbn in E; try discriminate; exact Hk.
Qed.

Lemma all_points_complete p : In p all_points.
Proof. destruct p; cbn; tauto. Qed.

(* the checker *)
Lemma check_C25_sound c :
  check_C25 c = true ->
  (forall el lim, In (el, lim) (t_calls c) -> el <= lim) /\
  t_errA c <> IProto 13 /\ t_errB c <> IProto 13 /\
  (forall o b r p, t_backlog c = Some (o, b, r, p) -> p <= b /\ o <= r + p).
Proof.
  unfold check_C25. rewrite !andb_true_iff. intros (((H1 & H2) & H3) & H4). repeat split.
  - intros el lim Hin. rewrite forallb_forall in H1. specialize (H1 _ Hin). cbn in H1. now apply N.leb_le.
  - intros Q. rewrite Q in H2. discriminate.
  - intros Q. rewrite Q in H3. discriminate.
  - rewrite H in H4. apply andb_true_iff in H4 as [A _]. now apply N.leb_le.
  - rewrite H in H4. apply andb_true_iff in H4 as [_ A]. now apply N.leb_le.
Qed.

Definition live_cfg : config := {| cW := 2; cBacklog := 2 |}.
Definition live_sched : list action :=
  [AOpenAlloc SA; ADeliver SB; AAcceptPop SB; AAcceptSend SB 1; ADeliver SA; AOpenReturn SA 1;
   AOpenAlloc SA; ADeliver SB; AAcceptPop SB; AAcceptSend SB 3; ADeliver SA; AOpenReturn SA 3;
   AWrite SA 1 [x61; x62; x63]; AWChunk SA 1; ADeliver SB;      (* stream 1 full, reader stalled *)
   AWrite SA 3 [x7a]; AWChunk SA 3; AWEnd SA 3; AHeartbeat SA].

Lemma live_example :
  exists st, (cW live_cfg <= maxU64 /\ cW live_cfg <= maxU64 /\
              exists sched, run all_fixed sched (init live_cfg live_cfg) = Running st)
             /\ length (wire_to st SB) = 2%nat.
Proof.
  eexists. split; [split; [|split]|].
  - unfold live_cfg, maxU64; cbn; lia.
  - unfold live_cfg, maxU64; cbn; lia.
  - exists live_sched. vm_compute. reflexivity.
  - vm_compute. reflexivity.
Qed.
