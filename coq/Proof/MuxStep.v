(* Preservation of the invariant I_mux by every step of the model with both
   repairs on. *)
From Coq Require Import List NArith Bool Lia Arith.
From Coq Require Import Strings.Byte.
From Mv Require Import Model.Mux Proof.MuxInv.
Import ListNotations.
Local Open Scope N_scope.
Set Default Timeout 60.

(* per_id reads the state only through these projections *)
Lemma per_id_frame S eS eR w w' eS' eR' w1 w1' i :
  per_id S eS eR w w' i ->
  vw eS' i = vw eS i -> vw eR' i = vw eR i ->
  get i (incs eS') = get i (incs eS) -> get i (wcs eS') = get i (wcs eS) ->
  get i (cls eS') = get i (cls eS) -> get i (incs eR') = get i (incs eR) ->
  wp i w1 = wp i w -> has_incr i w1' = has_incr i w' -> incB i w1' = incB i w' ->
  largestIn eS <= largestIn eS' ->
  final_lg (largestIn eR) w <= final_lg (largestIn eR') w1 ->
  cfg eR' = cfg eR ->
  per_id S eS' eR' w1 w1' i.
Proof.
  intros [] HvS HvR H1 H2 H3 H4 Hw He' Hi' Hl Hf Hc.
  unfold wp in Hw.
  injection Hw as Ha Hb Hc' Hd He Hf' Hg Hh Hi Hj Hk Hl'.
  constructor; unfold noacc, getN;
    rewrite ?HvS, ?HvR, ?H1, ?H2, ?H3, ?H4, ?Hc,
            ?Ha, ?Hb, ?Hc', ?Hd, ?He, ?Hf', ?Hg, ?Hh, ?Hi, ?Hj, ?Hk, ?Hl', ?He', ?Hi'; try assumption.
  - intros Hm Hx. destruct (d_ks Hm Hx). split; [lia|assumption].
  - intros Hm Hx. destruct (d_kr Hm Hx). split; [lia|assumption].
Qed.

Lemma wp_incr i a b : wp i a = wp i b -> has_incr i a = has_incr i b /\ incB i a = incB i b.
Proof. unfold wp. intros H. injection H. auto. Qed.

Definition cfg_ok (c : config) : Prop := cW c <= maxU64.

Lemma vw_new s c i : vw (new_endpoint s c) i = None.
Proof. reflexivity. Qed.

Lemma per_id_init S cS cR i : per_id S (new_endpoint S cS) (new_endpoint (other S) cR) [] [] i.
Proof.
  constructor; unfold noacc; rewrite ?vw_new; cbn [new_endpoint incs wcs cls get has_any has_open
    has_accept has_data has_incr has_cw has_close existsb accept_first close_last cw_last
    dataB incB rterms swterm getN largestIn final_lg cfg];
    intros; try discriminate; try reflexivity; try congruence.
  - exfalso. match goal with H : _ \/ _ |- _ => destruct H as [H|H]; [congruence|apply H; auto] end.
  - exfalso. match goal with H : _ \/ _ |- _ => destruct H as [H|[H|H]]; [congruence|apply H; auto|discriminate] end.
  - repeat split; auto.
  - lia.
Qed.

Lemma inv_init ca cb : cfg_ok ca -> cfg_ok cb -> Inv (init ca cb).
Proof.
  intros Ha Hb s. split.
  - destruct s; constructor; try apply per_id_init; cbn; try reflexivity; intros _; (lia || reflexivity).
  - destruct s; constructor; cbn [init ep epA epB new_endpoint streams backlog cfg get];
      intros; try discriminate; try easy; try constructor.
Qed.

(* ------------------------------------------------------------ state access *)
Lemma ep_set_ep_same st s e : ep (set_ep st s e) s = e.
Proof. now destruct s. Qed.
Lemma ep_set_ep_other st s e : ep (set_ep st s e) (other s) = ep st (other s).
Proof. now destruct s. Qed.
Lemma wire_set_ep st s e t : wire_to (set_ep st s e) t = wire_to st t.
Proof. now destruct s, t. Qed.
Lemma ep_set_wire st s w t : ep (set_wire_to st s w) t = ep st t.
Proof. now destruct s, t. Qed.
Lemma wire_set_wire_same st s w : wire_to (set_wire_to st s w) s = w.
Proof. now destruct s. Qed.
Lemma wire_set_wire_other st s w : wire_to (set_wire_to st s w) (other s) = wire_to st (other s).
Proof. now destruct s. Qed.
Lemma ep_send st s m t : ep (send st s m) t = ep st t.
Proof. now destruct s, t. Qed.
Lemma wire_send_other st s m : wire_to (send st s m) (other s) = wire_to st (other s) ++ [m].
Proof. now destruct s. Qed.
Lemma wire_send_same st s m : wire_to (send st s m) s = wire_to st s.
Proof. now destruct s. Qed.

Lemma inv_intro st' X :
  dir_inv X (ep st' X) (ep st' (other X)) (wire_to st' (other X)) (wire_to st' X) ->
  dir_inv (other X) (ep st' (other X)) (ep st' X) (wire_to st' X) (wire_to st' (other X)) ->
  local_inv X (ep st' X) -> local_inv (other X) (ep st' (other X)) -> Inv st'.
Proof.
  intros H1 H2 H3 H4 s. destruct X, s; cbn [other] in *; auto.
Qed.

Lemma inv_elim st X :
  Inv st ->
  dir_inv X (ep st X) (ep st (other X)) (wire_to st (other X)) (wire_to st X) /\
  dir_inv (other X) (ep st (other X)) (ep st X) (wire_to st X) (wire_to st (other X)) /\
  local_inv X (ep st X) /\ local_inv (other X) (ep st (other X)).
Proof.
  intros H. pose proof (H X) as [A B]. pose proof (H (other X)) as [C D].
  rewrite other_other in C. auto.
Qed.

(* extensionality: same views, accumulators, counters *)
Lemma dir_inv_ext S eS eR eS' eR' w w' :
  (forall i, vw eS' i = vw eS i) -> (forall i, vw eR' i = vw eR i) ->
  incs eS' = incs eS -> wcs eS' = wcs eS -> cls eS' = cls eS ->
  nextOut eS' = nextOut eS -> largestIn eS' = largestIn eS -> cfg eS' = cfg eS ->
  incs eR' = incs eR -> largestIn eR' = largestIn eR -> cfg eR' = cfg eR ->
  dir_inv S eS eR w w' -> dir_inv S eS' eR' w w'.
Proof.
  intros HvS HvR H1 H2 H3 H4 H5 H6 H7 H8 H9 [].
  constructor; rewrite ?H4, ?H6, ?H8; auto.
  intros i. eapply per_id_frame; eauto; rewrite ?H1, ?H2, ?H3, ?H5, ?H7, ?H8; auto; lia.
Qed.

Lemma vw_put_same e j x x' :
  get j (streams e) = Some x -> view_of x' = view_of x ->
  forall i, vw (put_stream j x' e) i = vw e i.
Proof.
  intros H Hv i. rewrite vw_put. destruct (N.eqb i j) eqn:E; auto.
  apply N.eqb_eq in E; subst. rewrite (vw_of _ _ _ H). now rewrite Hv.
Qed.

(* local_inv under a stream update *)
Lemma local_put s e j x' :
  local_inv s e -> sl_ok s j x' ->
  (In j (backlog e) -> ph x' = PBacklog) ->
  local_inv s (put_stream j x' e).
Proof.
  intros [Hs Hb Hn Hc] Hx Hbl. constructor; cbn [put_stream set_streams streams backlog cfg]; auto.
  - intros i x. destruct (N.eq_dec i j) as [->|Hne].
    + rewrite get_set_eq. intros [= <-]. auto.
    + rewrite get_set_ne by auto. apply Hs.
  - intros i Hi. destruct (N.eq_dec i j) as [->|Hne].
    + rewrite get_set_eq. eauto.
    + rewrite get_set_ne by auto. auto.
Qed.

Lemma step_ext st s e' :
  Inv st ->
  (forall i, vw e' i = vw (ep st s) i) ->
  incs e' = incs (ep st s) -> wcs e' = wcs (ep st s) -> cls e' = cls (ep st s) ->
  nextOut e' = nextOut (ep st s) -> largestIn e' = largestIn (ep st s) -> cfg e' = cfg (ep st s) ->
  local_inv s e' -> Inv (set_ep st s e').
Proof.
  intros HI Hv H1 H2 H3 H4 H5 H6 Hl.
  destruct (inv_elim st s HI) as (A & B & C & D).
  apply (inv_intro _ s); rewrite ?ep_set_ep_same, ?ep_set_ep_other, ?wire_set_ep; auto.
  - eapply dir_inv_ext; try exact A; auto.
  - eapply dir_inv_ext; try exact B; auto.
Qed.

(* destruct every match in the hypothesis that says which step was taken *)
Ltac step_cases H :=
  repeat match type of H with
         | context [match ?t with _ => _ end] => destruct t eqn:?; try discriminate H
         | context [if ?t then _ else _] => destruct t eqn:?; try discriminate H
         end.

Ltac sl_tac Hx :=
  destruct Hx; constructor; cbn [sw rbuf est rcw rc wst rst ph cl set_sw set_rbuf set_est set_rcw
    set_rc set_wst set_rst set_ph set_cl held pre_user]; intros;
  repeat match goal with
         | H : _ \/ _ |- _ => destruct H
         | H : exists _, _ |- _ => destruct H
         end;
  try discriminate; try congruence; eauto.

(* forward chaining on implications whose premise is at hand *)
Ltac fwd :=
  repeat match goal with
         | H : ?P -> _ |- _ =>
           match type of P with
           | Prop => let HP := fresh in
                     assert (HP : P) by (solve [eauto | congruence | discriminate | (split; congruence)
                                           | (repeat match goal with E : ph _ = _ |- _ => rewrite E end; reflexivity)]);
                     specialize (H HP); clear HP
           end
         end;
  repeat match goal with H : _ /\ _ |- _ => destruct H end.
Ltac ph_contra := unfold is_user in *; repeat match goal with E : ph _ = _ |- _ => rewrite E in * end; cbn [pre_user] in *; discriminate.
Ltac sl_fin := try ph_contra; fwd; try discriminate; try congruence; try (split; congruence); try (repeat split; congruence); eauto.

Lemma is_user_ph x : is_user x = true -> ph x = PUser.
Proof. unfold is_user. destruct (ph x); congruence. Qed.

Lemma get_streams_local s e j x : local_inv s e -> get j (streams e) = Some x -> sl_ok s j x.
Proof. intros [H _ _ _]; eauto. Qed.

Lemma not_in_backlog s e j x :
  local_inv s e -> get j (streams e) = Some x -> ph x <> PBacklog -> ~ In j (backlog e).
Proof.
  intros [_ Hb _ _] G P Hin. destruct (Hb _ Hin) as (x' & G' & P'). congruence.
Qed.

(* ---- a frame lemma up to the fields each role reads ---- *)
Definition sv_le (a b : view) : Prop :=
  v_sw a = v_sw b /\ v_est a = v_est b /\ v_rc a = v_rc b /\ v_rcw a = v_rcw b /\
  (v_pre b = true -> v_pre a = true) /\ (v_wgone a = true -> v_wgone b = true) /\
  (v_posted a = true -> v_posted b = true).
Definition rv_eq (a b : view) : Prop :=
  v_est a = v_est b /\ v_rc a = v_rc b /\ v_rcw a = v_rcw b /\ v_rt a = v_rt b.
Definition orel (R : view -> view -> Prop) (o o' : option view) : Prop :=
  match o, o' with
  | None, None => True
  | Some a, Some b => R a b
  | _, _ => False
  end.

Lemma orel_refl_sv o : orel sv_le o o.
Proof. destruct o; cbn; unfold sv_le; auto 10. Qed.
Lemma orel_refl_rv o : orel rv_eq o o.
Proof. destruct o; cbn; unfold rv_eq; auto. Qed.
Lemma orel_eq_sv o o' : o' = o -> orel sv_le o o'.
Proof. intros ->. apply orel_refl_sv. Qed.
Lemma orel_eq_rv o o' : o' = o -> orel rv_eq o o'.
Proof. intros ->. apply orel_refl_rv. Qed.

Ltac inj_some :=
  repeat match goal with
         | H : Some _ = Some _ |- _ => injection H as <-
         | H : None = Some _ |- _ => discriminate H
         | H : Some _ = None |- _ => discriminate H
         end.

Ltac spec_some :=
  repeat match goal with
         | H : forall y : view, Some ?a = Some y -> _ |- _ => specialize (H a eq_refl)
         | H : forall y : view, None = Some y -> _ |- _ => clear H
         | H : forall y : view, ?P -> Some ?a = Some y -> _ |- _ => specialize (fun p => H a p eq_refl)
         | H : forall y : view, ?P -> None = Some y -> _ |- _ => clear H
         end.

(* modus ponens with premises literally in the context *)
Ltac fwd_exact :=
  repeat match goal with
         | H : ?P -> _, Hp : ?P |- _ => specialize (H Hp)
         | H : ?a = ?a -> _ |- _ => specialize (H eq_refl)
         end;
  repeat match goal with H : _ /\ _ |- _ => destruct H end.

Lemma per_id_frame2 S eS eR w w' eS' eR' w1 w1' i :
  per_id S eS eR w w' i ->
  orel sv_le (vw eS i) (vw eS' i) -> orel rv_eq (vw eR i) (vw eR' i) ->
  get i (incs eS') = get i (incs eS) -> get i (wcs eS') = get i (wcs eS) ->
  get i (cls eS') = get i (cls eS) -> get i (incs eR') = get i (incs eR) ->
  wp i w1 = wp i w -> has_incr i w1' = has_incr i w' -> incB i w1' = incB i w' ->
  largestIn eS <= largestIn eS' ->
  final_lg (largestIn eR) w <= final_lg (largestIn eR') w1 ->
  cfg eR' = cfg eR ->
  per_id S eS' eR' w1 w1' i.
Proof.
  intros [] HS HR H1 H2 H3 H4 Hw He' Hi' Hl Hf Hc.
  unfold wp in Hw.
  injection Hw as Ha Hb Hc' Hd He Hf' Hg Hh Hi Hj Hk Hl'.
  destruct (vw eS i) as [a|] eqn:EA, (vw eS' i) as [b|] eqn:EB; cbn in HS; try contradiction;
  destruct (vw eR i) as [c|] eqn:EC, (vw eR' i) as [d|] eqn:ED; cbn in HR; try contradiction;
  try destruct HS as (s1 & s2 & s3 & s4 & s5 & s6 & s7);
  try destruct HR as (r1 & r2 & r3 & r4);
  (constructor; unfold noacc, getN, closedp, wgone, rterms, swterm in *;
   rewrite ?EB, ?ED, ?H1, ?H2, ?H3, ?H4, ?Hc,
           ?Ha, ?Hb, ?Hc', ?Hd, ?He, ?Hf', ?Hg, ?Hh, ?Hi, ?Hj, ?Hk, ?Hl', ?He', ?Hi';
   try assumption);
  intros; inj_some;
  try match goal with Hp : v_pre _ = true |- _ => apply s5 in Hp end;
  rewrite <- ?s1, <- ?s2, <- ?s3, <- ?s4, <- ?r1, <- ?r2, <- ?r3, <- ?r4 in *.
  all: try match goal with |- _ <= final_lg _ _ /\ _ <> 0 =>
         match goal with Hk : mine _ _ = true -> _ -> _ /\ _ |- _ =>
           let A := fresh in let B := fresh in
           destruct Hk as [A B]; [assumption| |split; [lia|assumption]] end end.
  all: try match goal with |- _ <= largestIn _ /\ _ <> 0 =>
         match goal with Hk : mine _ _ = false -> _ -> _ /\ _ |- _ =>
           let A := fresh in let B := fresh in
           destruct Hk as [A B]; [assumption| |split; [lia|assumption]] end end.
  all: try (match goal with H : _ \/ _ |- _ \/ _ => destruct H; [left; congruence|right; assumption] end).
  all: try (match goal with H : _ \/ _ \/ _ |- _ \/ _ \/ _ => destruct H as [H|H]; [left; congruence|right; assumption] end).
  all: eauto.
  all: spec_some; fwd_exact; spec_some; fwd_exact;
       repeat split; intros; inj_some;
       rewrite <- ?s1, <- ?s2, <- ?s3, <- ?s4, <- ?r1, <- ?r2, <- ?r3, <- ?r4 in *;
       eauto; try congruence.
  all: try match goal with
           | H : _ \/ _ \/ _ \/ (exists y, Some ?b = Some y /\ _) |- _ =>
             destruct H as [H|[H|[H|(y0 & Hy & Hy')]]]; inj_some;
             match goal with Ho : _ -> has_accept _ _ = true |- _ => apply Ho end; eauto;
             right; right; right; eexists; split; [reflexivity|congruence]
           end.
Qed.
