(* Preservation, part A: steps that do not change what the invariant between
   the endpoints sees (views, accumulators, counters, wires). *)
From Coq Require Import List NArith Bool Lia Arith.
From Coq Require Import Strings.Byte.
From Mv Require Import Model.Mux Proof.MuxInv Proof.MuxStep.
Import ListNotations.
Local Open Scope N_scope.
Set Default Timeout 120.

Lemma step_same st s j x x' e' :
  Inv st -> get j (streams (ep st s)) = Some x -> view_of x' = view_of x -> sl_ok s j x' ->
  (ph x' = PBacklog \/ ph x <> PBacklog) ->
  streams e' = set j x' (streams (ep st s)) -> backlog e' = backlog (ep st s) ->
  incs e' = incs (ep st s) -> wcs e' = wcs (ep st s) -> cls e' = cls (ep st s) ->
  nextOut e' = nextOut (ep st s) -> largestIn e' = largestIn (ep st s) -> cfg e' = cfg (ep st s) ->
  Inv (set_ep st s e').
Proof.
  intros HI G Hv Hx Hp Hs Hb H1 H2 H3 H4 H5 H6.
  destruct (inv_elim st s HI) as (_ & _ & C & _).
  apply step_ext; auto.
  - intros i. unfold vw. rewrite Hs.
    destruct (N.eq_dec i j) as [->|Hne].
    + rewrite get_set_eq, G. cbn. now rewrite Hv.
    + now rewrite get_set_ne.
  - pose proof (local_put s (ep st s) j x' C Hx) as L.
    assert (Hbl : In j (backlog (ep st s)) -> ph x' = PBacklog).
    { intros Hin. destruct Hp as [Hp|Hp]; auto. exfalso. eapply not_in_backlog; eauto. }
    specialize (L Hbl). destruct L as [La Lb Lc Ld].
    constructor; rewrite ?Hs, ?Hb, ?H6; auto.
Qed.

Lemma len_dropN {A} (c : N) (l : list A) : c <= len l -> len (dropN c l) = len l - c.
Proof.
  unfold len, dropN. intros H. rewrite skipn_length. lia.
Qed.
Lemma len_takeN {A} (c : N) (l : list A) : c <= len l -> len (takeN c l) = c.
Proof.
  unfold len, takeN. intros H. rewrite firstn_length. lia.
Qed.

Section A.
Variable st : state.
Hypothesis HI : Inv st.

Ltac start H s j :=
  unfold step, with_stream in H; step_cases H; injection H as <-;
  match goal with G : get j (streams (ep st s)) = Some ?x |- _ =>
    pose proof (get_streams_local s _ _ _ (proj1 (proj2 (proj2 (inv_elim st s HI)))) G) as Hx
  end;
  try match goal with U : is_user ?x = true |- _ => pose proof (is_user_ph _ U) end.

Ltac same x' :=
  match goal with G : get ?j (streams (ep st ?s)) = Some ?x |- _ =>
    apply (step_same st s j x x'); auto
  end.

Lemma step_AOpenReturn s j st' : step all_fixed st (AOpenReturn s j) = Some (Running st') -> Inv st'.
Proof.
  intros H. start H s j. unfold upd.
  eapply (step_same st s j); [exact HI|eassumption| | | |reflexivity..].
  - unfold view_of; cbn. rewrite Heqp. reflexivity.
  - sl_tac Hx.
  - right. congruence.
Qed.

Lemma step_AOpenAbort s j st' : step all_fixed st (AOpenAbort s j) = Some (Running st') -> Inv st'.
Proof.
  intros H. start H s j. unfold upd.
  eapply (step_same st s j); [exact HI|eassumption| | | |reflexivity..].
  - unfold view_of; cbn. rewrite Heqp.
    destruct (l_early _ _ _ Hx) as (_ & _ & ->); eauto.
  - sl_tac Hx; sl_fin.
  - right. congruence.
Qed.

Ltac user_ph := right; unfold is_user in *;
  match goal with H : (match ph ?x with _ => _ end) = true |- _ => destruct (ph x); try discriminate end;
  congruence.

Ltac view_eq := unfold view_of, held; cbn [sw rbuf est rcw rc wst rst ph cl set_sw set_rbuf set_est set_rcw
    set_rc set_wst set_rst set_ph set_cl held];
  repeat match goal with E : wst _ = _ |- _ => rewrite E | E : rst _ = _ |- _ => rewrite E
                    | E : cl _ = _ |- _ => rewrite E | E : ph _ = _ |- _ => rewrite E end;
  try reflexivity.

Ltac field_step s j :=
  let H := fresh "H" in
  intros H; start H s j; unfold upd;
  eapply (step_same st s j); [exact HI|eassumption| | | |reflexivity..];
  [ view_eq | match goal with Hx : sl_ok _ _ _ |- _ => sl_tac Hx end; sl_fin | try user_ph ].

Lemma step_AWrite s j bs st' : step all_fixed st (AWrite s j bs) = Some (Running st') -> Inv st'.
Proof. field_step s j. Qed.

Lemma step_AWEnd s j st' : step all_fixed st (AWEnd s j) = Some (Running st') -> Inv st'.
Proof. field_step s j. right. intros P. destruct (l_early _ _ _ Hx) as (? & _); eauto. congruence. Qed.

Lemma step_ARead s j k st' : step all_fixed st (ARead s j k) = Some (Running st') -> Inv st'.
Proof. field_step s j. Qed.

Lemma step_AREnd s j st' : step all_fixed st (AREnd s j) = Some (Running st') -> Inv st'.
Proof. field_step s j. right. intros P. destruct (l_early _ _ _ Hx) as (_ & ? & _); eauto. congruence. Qed.

Lemma step_ACloseWrite s j st' : step all_fixed st (ACloseWrite s j) = Some (Running st') -> Inv st'.
Proof. field_step s j. Qed.

Lemma step_AClose s j st' : step all_fixed st (AClose s j) = Some (Running st') -> Inv st'.
Proof. field_step s j. Qed.

Lemma step_ACTakeR s j st' : step all_fixed st (ACTakeR s j) = Some (Running st') -> Inv st'.
Proof. field_step s j. right. intros P. destruct (l_early _ _ _ Hx) as (_ & _ & ?); eauto. congruence. Qed.

Lemma step_AREof s j st' : step all_fixed st (AREof s j) = Some (Running st') -> Inv st'.
Proof. field_step s j. right. intros P. destruct (l_early _ _ _ Hx) as (_ & ? & _); eauto. congruence. Qed.

Lemma step_ARConsume s j st' : step all_fixed st (ARConsume s j) = Some (Running st') -> Inv st'.
Proof.
  field_step s j.
  - f_equal. rewrite Heql. rewrite len_dropN by lia. lia.
  - right. intros P. destruct (l_early _ _ _ Hx) as (_ & ? & _); eauto. congruence.
Qed.

Lemma local_same_streams s e e' :
  local_inv s e -> streams e' = streams e -> backlog e' = backlog e -> cfg e' = cfg e -> local_inv s e'.
Proof. intros [] H1 H2 H3. constructor; rewrite ?H1, ?H2, ?H3; auto. Qed.

Lemma step_AMuxClose s st' : step all_fixed st (AMuxClose s) = Some (Running st') -> Inv st'.
Proof.
  intros H. cbn in H. injection H as <-.
  apply step_ext; auto.
  eapply local_same_streams; [apply (inv_elim st s HI)|reflexivity..].
Qed.

Lemma step_ACarrierDown s st' : step all_fixed st (ACarrierDown s) = Some (Running st') -> Inv st'.
Proof.
  intros H. cbn in H. destruct (mclosed (ep st (other s))); [|discriminate]. injection H as <-.
  apply step_ext; auto.
  eapply local_same_streams; [apply (inv_elim st s HI)|reflexivity..].
Qed.

Lemma step_AAcceptPop s st' : step all_fixed st (AAcceptPop s) = Some (Running st') -> Inv st'.
Proof.
  intros H. unfold step in H. step_cases H. injection H as <-.
  rename n into j, l into rest, s0 into x.
  destruct (inv_elim st s HI) as (_ & _ & C & _).
  pose proof (get_streams_local s _ _ _ C Heqo) as Hx.
  assert (P : ph x = PBacklog).
  { destruct (l_backlog _ _ C j) as (x0 & G & P); [rewrite Heql; now left|]. congruence. }
  apply step_ext; auto.
  - intros i. rewrite vw_put. destruct (N.eqb i j) eqn:E; [|reflexivity].
    apply N.eqb_eq in E; subst. rewrite (vw_of _ _ _ Heqo). unfold view_of; cbn. now rewrite P.
  - destruct C as [Cs Cb Cn Cc]. rewrite Heql in Cn. inversion Cn as [|? ? Hnin Hnd]; subst.
    constructor; cbn [put_stream set_streams set_backlog streams backlog cfg]; auto.
    + intros i x0. destruct (N.eq_dec i j) as [->|Hne].
      * rewrite get_set_eq. intros [= <-]. sl_tac Hx; sl_fin.
      * rewrite get_set_ne by auto. apply Cs.
    + intros i Hi. assert (i <> j) by (intros ->; auto).
      rewrite get_set_ne by auto. apply Cb. rewrite Heql. now right.
Qed.
End A.
