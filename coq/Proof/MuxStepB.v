(* Preservation, part B: steps of one endpoint that change views,
   accumulators or append a frame to the wire. *)
From Coq Require Import List NArith Bool Lia Arith.
From Coq Require Import Strings.Byte.
From Mv Require Import Model.Mux Proof.MuxInv Proof.MuxStep Proof.MuxStepA.
Import ListNotations.
Local Open Scope N_scope.
Set Default Timeout 120.

(* assembling dir_inv when one identifier j is touched: sender side *)
Lemma dir_sender_at j S eS eR w w' eS' w1 :
  dir_inv S eS eR w w' ->
  ids_ok S (largestIn eR) w1 = true ->
  (nextOut eS' <> 0 -> final_lg (largestIn eR) w1 < nextOut eS') ->
  (nextOut eS' <> 0 -> mine S (nextOut eS') = true) ->
  forallb (val_ok S (cW (cfg eS'))) w1 = true ->
  per_id S eS' eR w1 w' j ->
  (forall i, i <> j -> vw eS' i = vw eS i /\ get i (incs eS') = get i (incs eS) /\
                      get i (wcs eS') = get i (wcs eS) /\ get i (cls eS') = get i (cls eS) /\
                      wp i w1 = wp i w) ->
  largestIn eS <= largestIn eS' ->
  final_lg (largestIn eR) w <= final_lg (largestIn eR) w1 ->
  dir_inv S eS' eR w1 w'.
Proof.
  intros [A B B' C D] H1 H2 H2' H3 Hj Hne Hl Hf. constructor; auto.
  intros i. destruct (N.eq_dec i j) as [->|Hn]; auto.
  destruct (Hne i Hn) as (E1 & E2 & E3 & E4 & E5).
  eapply per_id_frame; eauto.
Qed.

(* receiver side: the endpoint that receives on w changed, and the reverse
   wire w' may have grown *)
Lemma dir_receiver_at j S eS eR w w' eR' w1' :
  dir_inv S eS eR w w' ->
  largestIn eR' = largestIn eR -> cfg eR' = cfg eR ->
  per_id S eS eR' w w1' j ->
  (forall i, i <> j -> vw eR' i = vw eR i /\ get i (incs eR') = get i (incs eR) /\ wp i w1' = wp i w') ->
  dir_inv S eS eR' w w1'.
Proof.
  intros [A B B' C D] H1 H2 Hj Hne. constructor; rewrite ?H1; auto.
  intros i. destruct (N.eq_dec i j) as [->|Hn]; auto.
  destruct (Hne i Hn) as (E1 & E2 & E3). destruct (wp_incr _ _ _ E3).
  eapply per_id_frame; eauto; rewrite ?H1; lia.
Qed.

(* when no identifier is touched *)
Lemma dir_frame S eS eR w w' eS' eR' w1 w1' :
  dir_inv S eS eR w w' ->
  ids_ok S (largestIn eR') w1 = true ->
  (nextOut eS' <> 0 -> final_lg (largestIn eR') w1 < nextOut eS') ->
  (nextOut eS' <> 0 -> mine S (nextOut eS') = true) ->
  forallb (val_ok S (cW (cfg eS'))) w1 = true ->
  (forall i, vw eS' i = vw eS i /\ vw eR' i = vw eR i /\
             get i (incs eS') = get i (incs eS) /\ get i (wcs eS') = get i (wcs eS) /\
             get i (cls eS') = get i (cls eS) /\ get i (incs eR') = get i (incs eR) /\
             wp i w1 = wp i w /\ wp i w1' = wp i w') ->
  largestIn eS <= largestIn eS' ->
  final_lg (largestIn eR) w <= final_lg (largestIn eR') w1 ->
  cfg eR' = cfg eR ->
  dir_inv S eS' eR' w1 w1'.
Proof.
  intros [A B B' C D] H1 H2 H2' H3 Hi Hl Hf Hc. constructor; auto.
  intros i. destruct (Hi i) as (E1 & E2 & E3 & E4 & E5 & E6 & E7 & E8). destruct (wp_incr _ _ _ E8).
  eapply per_id_frame; eauto.
Qed.

(* the views change only in fields the role does not read (or monotonically) *)
Lemma dir_rel S eS eR w w' eS' eR' :
  dir_inv S eS eR w w' ->
  (forall i, orel sv_le (vw eS i) (vw eS' i)) -> (forall i, orel rv_eq (vw eR i) (vw eR' i)) ->
  incs eS' = incs eS -> wcs eS' = wcs eS -> cls eS' = cls eS ->
  nextOut eS' = nextOut eS -> largestIn eS' = largestIn eS -> cfg eS' = cfg eS ->
  incs eR' = incs eR -> largestIn eR' = largestIn eR -> cfg eR' = cfg eR ->
  dir_inv S eS' eR' w w'.
Proof.
  intros [A B B' C D] HS HR H1 H2 H3 H4 H5 H6 H7 H8 H9.
  constructor; rewrite ?H4, ?H6, ?H8; auto.
  intros i. eapply per_id_frame2; eauto; rewrite ?H1, ?H2, ?H3, ?H5, ?H7, ?H8; auto; lia.
Qed.

Lemma orel_put (R : view -> view -> Prop) e j x x' :
  (forall o, orel R o o) ->
  get j (streams e) = Some x -> R (view_of x) (view_of x') ->
  forall i, orel R (vw e i) (vw (put_stream j x' e) i).
Proof.
  intros Hr G H i. rewrite vw_put. destruct (N.eqb i j) eqn:E; auto.
  apply N.eqb_eq in E; subst. rewrite (vw_of _ _ _ G). exact H.
Qed.

Lemma step_rel st s j x x' :
  Inv st -> get j (streams (ep st s)) = Some x ->
  sv_le (view_of x) (view_of x') -> rv_eq (view_of x) (view_of x') ->
  sl_ok s j x' -> (ph x' = PBacklog \/ ph x <> PBacklog) ->
  Inv (upd st s j x').
Proof.
  intros HI G Hs Hr Hx Hp. unfold upd.
  destruct (inv_elim st s HI) as (A & B & C & D).
  apply (inv_intro _ s); rewrite ?ep_set_ep_same, ?ep_set_ep_other, ?wire_set_ep; auto.
  - eapply dir_rel; try exact A; auto.
    + apply (orel_put sv_le _ j x x'); auto using orel_refl_sv.
    + intros i. apply orel_refl_rv.
  - eapply dir_rel; try exact B; auto.
    + intros i. apply orel_refl_sv.
    + apply (orel_put rv_eq _ j x x'); auto using orel_refl_rv.
  - apply local_put; auto. intros Hin. destruct Hp as [Hp|Hp]; auto.
    exfalso. eapply (not_in_backlog s (ep st s) j x); eauto.
Qed.

Ltac rel_eq := unfold sv_le, rv_eq, view_of, held;
  cbn [sw rbuf est rcw rc wst rst ph cl set_sw set_rbuf set_est set_rcw
       set_rc set_wst set_rst set_ph set_cl v_sw v_est v_rc v_rcw v_wgone v_posted v_pre v_rt];
  repeat match goal with E : wst _ = _ |- _ => rewrite E | E : rst _ = _ |- _ => rewrite E
                    | E : cl _ = _ |- _ => rewrite E | E : ph _ = _ |- _ => rewrite E end;
  repeat split; auto; try discriminate.

Section B.
Variable st : state.
Hypothesis HI : Inv st.

Lemma step_AHeartbeat s st' : step all_fixed st (AHeartbeat s) = Some (Running st') -> Inv st'.
Proof.
  intros H. cbn in H. injection H as <-.
  destruct (inv_elim st s HI) as (A & B & C & D).
  apply (inv_intro _ s); rewrite ?ep_send, ?wire_send_other, ?wire_send_same; auto.
  - eapply dir_frame; try exact A; auto.
    + rewrite ids_ok_app. rewrite (d_ids _ _ _ _ _ A). reflexivity.
    + rewrite final_lg_app. cbn. apply (d_next _ _ _ _ _ A).
    + apply (d_nextp _ _ _ _ _ A).
    + rewrite forallb_app. rewrite (d_vals _ _ _ _ _ A). reflexivity.
    + intros i. repeat split; auto. apply wp_app_other. reflexivity.
    + lia.
    + rewrite final_lg_app. cbn. lia.
  - eapply dir_frame; try exact B; auto.
    + apply (d_ids _ _ _ _ _ B).
    + apply (d_next _ _ _ _ _ B).
    + apply (d_nextp _ _ _ _ _ B).
    + apply (d_vals _ _ _ _ _ B).
    + intros i. repeat split; auto. apply wp_app_other. reflexivity.
    + lia.
    + lia.
Qed.

Ltac start H s j :=
  unfold step, with_stream in H; step_cases H; injection H as <-;
  match goal with G : get j (streams (ep st s)) = Some ?x |- _ =>
    pose proof (get_streams_local s _ _ _ (proj1 (proj2 (proj2 (inv_elim st s HI)))) G) as Hx
  end;
  try match goal with U : is_user ?x = true |- _ => pose proof (is_user_ph _ U) end.

Ltac rel_step s j :=
  let H := fresh "H" in
  intros H; start H s j;
  eapply (step_rel st s j); [exact HI|eassumption| | | | ];
  [ rel_eq | rel_eq | match goal with Hx : sl_ok _ _ _ |- _ => sl_tac Hx end; sl_fin | ].

Lemma early_not s j x : sl_ok s j x -> (wst x <> WFree \/ rst x <> RFree \/ cl x <> CNo) -> ph x <> PBacklog.
Proof. intros Hx H P. destruct (l_early _ _ _ Hx) as (? & ? & ?); auto. intuition. Qed.

Lemma step_ACTakeW s j st' : step all_fixed st (ACTakeW s j) = Some (Running st') -> Inv st'.
Proof. rel_step s j. right. eapply early_not; eauto. right; right; congruence. Qed.

Lemma step_ACWPostSkip s j st' : step all_fixed st (ACWPostSkip s j) = Some (Running st') -> Inv st'.
Proof. rel_step s j. right. eapply early_not; eauto. left; congruence. Qed.

Lemma step_ACPostSkip s j st' : step all_fixed st (ACPostSkip s j) = Some (Running st') -> Inv st'.
Proof. rel_step s j. right. eapply early_not; eauto. right; right; congruence. Qed.

Lemma step_AAcceptAbort s j st' : step all_fixed st (AAcceptAbort s j) = Some (Running st') -> Inv st'.
Proof.
  rel_step s j.
  - destruct (l_early _ _ _ Hx) as (_ & _ & ->); eauto.
  - right. congruence.
Qed.

Lemma step_AOpenSend s j st' : step all_fixed st (AOpenSend s j) = Some (Running st') -> Inv st'.
Proof.
  intros H. unfold step, with_stream in H. step_cases H.
  pose proof (get_streams_local s _ _ _ (proj1 (proj2 (proj2 (inv_elim st s HI)))) Heqo) as Hx.
  destruct (l_opening _ _ _ Hx _ Heqp). discriminate.
Qed.
End B.
