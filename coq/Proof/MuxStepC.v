(* Preservation, part C: the enqueue goroutine flushing an accumulator entry
   to the wire, and the steps that post into the accumulators. *)
From Coq Require Import List NArith Bool Lia Arith.
From Coq Require Import Strings.Byte.
From Mv Require Import Model.Mux Proof.MuxInv Proof.MuxStep Proof.MuxStepA Proof.MuxStepB.
Import ListNotations.
Local Open Scope N_scope.
Set Default Timeout 120.

(* normalisation of the new state's projections at the touched identifier *)
Ltac nrm1 :=
  repeat rewrite ?vw_set_incs, ?vw_set_wcs, ?vw_set_cls, ?vw_set_wlog, ?vw_set_rlog, ?vw_set_eofs,
         ?vw_set_nextOut, ?vw_set_largestIn, ?vw_set_backlog, ?vw_set_mclosed,
         ?incs_put, ?wcs_put, ?cls_put, ?cfg_put, ?largestIn_put, ?nextOut_put in *;
  cbn [set_incs set_wcs set_cls set_nextOut set_largestIn set_backlog set_mclosed set_streams
       set_wlog set_rlog set_eofs incs wcs cls nextOut largestIn backlog cfg] in *.
Ltac nrm :=
  unfold noacc, post_close, post_incr, post_cw in *;
  nrm1; nrm1; nrm1;
  repeat rewrite ?get_del_eq, ?get_set_eq, ?getN_del_eq, ?getN_set_eq, ?vw_put_eq,
         ?has_any_app, ?has_open_app, ?has_accept_app, ?has_data_app, ?has_incr_app,
         ?has_cw_app, ?has_close_app, ?dataB_app, ?incB_app, ?accept_first_app,
         ?close_last_app, ?cw_last_app, ?final_lg_app in *;
  cbn [is_id is_open is_accept is_data is_incr is_cw is_close mid dataB incB final_lg] in *;
  rewrite ?N.eqb_refl, ?orb_false_r, ?orb_true_r, ?andb_true_r, ?andb_false_r, ?N.add_0_r in *;
  cbn [negb orb andb] in *;
  rewrite ?orb_false_r, ?orb_true_r, ?andb_true_r, ?andb_false_r in *.

(* closing a clause from the old clauses in the context *)
Ltac fin :=
  intros; fwd_exact;
  try solve [ assumption | congruence | discriminate | lia
            | repeat match goal with |- _ /\ _ => split end; (assumption || congruence || discriminate || lia || eauto) ].

(* the two "identifiers S knows" clauses when S still knew j before *)
Ltac ks_old d_ks :=
  let K1 := fresh in let K2 := fresh in
  destruct d_ks as [K1 K2]; [ |split; [try lia|assumption]].

Ltac open_send_goals s :=
  rewrite ?ep_send, ?wire_send_other, ?wire_send_same, ?ep_set_ep_same, ?ep_set_ep_other, ?wire_set_ep.

Section C.
Variable st : state.
Hypothesis HI : Inv st.

(* appending a non-open frame about an identifier the sender knows *)
Lemma ids_app_known S eS eR w w' j m :
  per_id S eS eR w w' j -> (vw eS j <> None \/ ~ noacc eS j) ->
  ids_ok S (largestIn eR) w = true -> mid m = Some j -> is_open j m = false ->
  ids_ok S (largestIn eR) (w ++ [m]) = true.
Proof.
  intros PA K Hi Hm Ho. rewrite ids_ok_app, Hi. cbn [andb].
  assert (j <> 0 /\ (mine S j = true -> j <= final_lg (largestIn eR) w)) as [Z1 Z2].
  { destruct PA. destruct (mine S j) eqn:M.
    - destruct d_ks; auto.
    - destruct d_kr; auto. { destruct K; auto. } split; auto. discriminate. }
  apply N.eqb_neq in Z1.
  destruct m; cbn in Hm; inversion Hm; subst; cbn [ids_ok mid];
    try (cbn in Ho; rewrite N.eqb_refl in Ho; discriminate);
    rewrite Z1; cbn [negb andb]; rewrite andb_true_r;
    (destruct (mine S j); cbn; auto; apply N.leb_le; auto).
Qed.

Lemma step_AFlushInc s j st' : step all_fixed st (AFlushInc s j) = Some (Running st') -> Inv st'.
Proof.
  intros H. unfold step in H. destruct (get j (incs (ep st s))) as [n|] eqn:G; [|discriminate].
  injection H as <-.
  destruct (inv_elim st s HI) as (A & B & C & D).
  pose proof (d_per _ _ _ _ _ A j) as PA. pose proof (d_per _ _ _ _ _ B j) as PB.
  apply (inv_intro _ s); open_send_goals s; auto.
  - eapply (dir_sender_at j); try exact A.
    + eapply ids_app_known; eauto; [|apply (d_ids _ _ _ _ _ A)].
      right. intros (? & _); congruence.
    + rewrite final_lg_app. cbn. apply (d_next _ _ _ _ _ A).
    + apply (d_nextp _ _ _ _ _ A).
    + cbn [set_incs cfg]. rewrite forallb_app, (d_vals _ _ _ _ _ A). cbn. rewrite andb_true_r.
      apply N.ltb_lt. destruct PA. eauto.
    + destruct PA. constructor; nrm; fin.
      * ks_old d_ks. right. intros (? & _); congruence.
      * ks_old d_kr. right; left. intros (? & _); congruence.
      * rewrite d_lastc. cbn. destruct (has_close j (wire_to st (other s))) eqn:E; auto.
        destruct d_csent as (? & _); auto. congruence.
    + intros i Hne. repeat split; auto; cbn [set_incs incs wcs cls].
      * now rewrite get_del_ne.
      * apply wp_app_other. apply (is_id_ne i j); auto.
    + cbn. lia.
    + rewrite final_lg_app. cbn. lia.
  - eapply (dir_receiver_at j); try exact B; auto.
    + destruct PB. constructor; nrm; fin.
      unfold getN in *. rewrite G in d_sum. lia.
    + intros i Hne. repeat split; auto; cbn [set_incs incs].
      * now rewrite get_del_ne.
      * apply wp_app_other. apply (is_id_ne i j); auto.
  - eapply local_same_streams; [exact C|reflexivity..].
Qed.

Lemma step_AFlushCW s j st' : step all_fixed st (AFlushCW s j) = Some (Running st') -> Inv st'.
Proof.
  intros H. unfold step in H. destruct (get j (wcs (ep st s))) as [n|] eqn:G; [|discriminate].
  injection H as <-.
  destruct (inv_elim st s HI) as (A & B & C & D).
  pose proof (d_per _ _ _ _ _ A j) as PA. pose proof (d_per _ _ _ _ _ B j) as PB.
  apply (inv_intro _ s); open_send_goals s; auto.
  - eapply (dir_sender_at j); try exact A.
    + eapply ids_app_known; eauto; [|apply (d_ids _ _ _ _ _ A)].
      right. intros (_ & ? & _); congruence.
    + rewrite final_lg_app. cbn. apply (d_next _ _ _ _ _ A).
    + apply (d_nextp _ _ _ _ _ A).
    + cbn [set_wcs cfg]. rewrite forallb_app, (d_vals _ _ _ _ _ A). reflexivity.
    + destruct PA. constructor; nrm; fin.
      * ks_old d_ks. right. intros (_ & ? & _); congruence.
      * ks_old d_kr. right; left. intros (_ & ? & _); congruence.
      * rewrite d_lastc. cbn. destruct (has_close j (wire_to st (other s))) eqn:E; auto.
        destruct d_csent as (_ & ? & _); auto. congruence.
      * rewrite d_cwlast. cbn. destruct (has_cw j (wire_to st (other s))) eqn:E; auto.
        rewrite d_cwonce in G; auto. discriminate.
      * apply d_cwsent. right. congruence.
      * apply d_estr; auto. right; right; left. congruence.
    + intros i Hne. repeat split; auto; cbn [set_wcs incs wcs cls].
      * now rewrite get_del_ne.
      * apply wp_app_other. apply (is_id_ne i j); auto.
    + cbn. lia.
    + rewrite final_lg_app. cbn. lia.
  - eapply (dir_receiver_at j); try exact B; auto.
    + destruct PB. constructor; nrm; fin.
    + intros i Hne. repeat split; auto.
      apply wp_app_other. apply (is_id_ne i j); auto.
  - eapply local_same_streams; [exact C|reflexivity..].
Qed.

Lemma step_AFlushClose s j st' : step all_fixed st (AFlushClose s j) = Some (Running st') -> Inv st'.
Proof.
  intros H. unfold step in H. destruct (get j (cls (ep st s))) as [n|] eqn:G; [|discriminate].
  injection H as <-.
  destruct (inv_elim st s HI) as (A & B & C & D).
  pose proof (d_per _ _ _ _ _ A j) as PA. pose proof (d_per _ _ _ _ _ B j) as PB.
  apply (inv_intro _ s); open_send_goals s; auto.
  - eapply (dir_sender_at j); try exact A.
    + eapply ids_app_known; eauto; [|apply (d_ids _ _ _ _ _ A)].
      right. intros (_ & _ & ?); congruence.
    + rewrite final_lg_app. cbn. apply (d_next _ _ _ _ _ A).
    + apply (d_nextp _ _ _ _ _ A).
    + cbn [set_cls cfg]. rewrite forallb_app, (d_vals _ _ _ _ _ A). reflexivity.
    + destruct PA. constructor; nrm; fin.
      * ks_old d_ks. right. intros (_ & _ & ?); congruence.
      * ks_old d_kr. right; left. intros (_ & _ & ?); congruence.
      * rewrite d_lastc. cbn. destruct (has_close j (wire_to st (other s))) eqn:E; auto.
        rewrite d_conce in G; auto. discriminate.
      * apply d_csent. right. congruence.
    + intros i Hne. repeat split; auto; cbn [set_cls incs wcs cls].
      * now rewrite get_del_ne.
      * apply wp_app_other. apply (is_id_ne i j); auto.
    + cbn. lia.
    + rewrite final_lg_app. cbn. lia.
  - eapply (dir_receiver_at j); try exact B; auto.
    + destruct PB. constructor; nrm; fin.
    + intros i Hne. repeat split; auto.
      apply wp_app_other. apply (is_id_ne i j); auto.
  - eapply local_same_streams; [exact C|reflexivity..].
Qed.
End C.
