(* Preservation, part D: steps that post into the accumulators or retire a
   stream. *)
From Coq Require Import List NArith Bool Lia Arith.
From Coq Require Import Strings.Byte.
From Mv Require Import Model.Mux Proof.MuxInv Proof.MuxStep Proof.MuxStepA Proof.MuxStepB Proof.MuxStepC.
Import ListNotations.
Local Open Scope N_scope.
Set Default Timeout 120.

Ltac others j :=
  let i := fresh "i" in let Hne := fresh "Hne" in
  intros i Hne; nrm; repeat match goal with |- _ /\ _ => split end;
  rewrite ?vw_put_ne, ?get_set_ne, ?get_del_ne by auto; auto;
  try (apply wp_app_other; apply (is_id_ne i j); auto).

Ltac vsimp :=
  unfold view_of, held in *;
  cbn [sw rbuf est rcw rc wst rst ph cl set_sw set_rbuf set_est set_rcw
       set_rc set_wst set_rst set_ph set_cl v_sw v_est v_rc v_rcw v_wgone v_posted v_pre v_rt
       closedp wgone rterms swterm pre_user] in *.

(* rewrite the known field values of the touched stream everywhere *)
Ltac frw :=
  repeat match goal with
         | E : wst ?x = _ |- _ => progress (rewrite E in * )
         | E : rst ?x = _ |- _ => progress (rewrite E in * )
         | E : cl ?x = _ |- _ => progress (rewrite E in * )
         | E : ph ?x = _ |- _ => progress (rewrite E in * )
         | E : est ?x = _ |- _ => progress (rewrite E in * )
         end.

Ltac fwd_or :=
  repeat match goal with
         | H : ?a = ?a \/ _ -> _ |- _ => specialize (H (or_introl eq_refl))
         | H : ?P \/ _ -> _, Hp : ?P |- _ => specialize (H (or_introl Hp))
         | H : _ \/ ?Q -> _, Hq : ?Q |- _ => specialize (H (or_intror Hq))
         | H : _ \/ ?Q \/ _ -> _, Hq : ?Q |- _ => specialize (H (or_intror (or_introl Hq)))
         end.

Ltac fin2 :=
  intros; inj_some; do 3 (fwd_exact; fwd_or; spec_some; vsimp; frw);
  try (exfalso; match goal with H : ?b = true, H' : negb ?b = true |- _ => rewrite H in H'; discriminate H' end);
  try solve [ assumption | congruence | discriminate | lia
            | repeat match goal with |- _ /\ _ => split end; intros; inj_some; vsimp;
              (assumption || congruence || discriminate || lia || eauto) ].

Ltac estr_old d_estr :=
  apply d_estr; auto;
  match goal with Hd : _ \/ _ \/ _ \/ _ |- _ => destruct Hd as [Hd|[Hd|[Hd|(y0 & Hy & Ey)]]]; auto end;
  try (exfalso; match goal with Hn : None <> None |- _ => apply Hn; reflexivity end);
  try (inj_some; right; right; right; eexists; split; [reflexivity|]; assumption).

Section D.
Variable st : state.
Hypothesis HI : Inv st.

Ltac start H s j :=
  unfold step, with_stream in H; step_cases H; injection H as <-;
  match goal with G : get j (streams (ep st s)) = Some ?x |- _ =>
    pose proof (get_streams_local s _ _ _ (proj1 (proj2 (proj2 (inv_elim st s HI)))) G) as Hx;
    pose proof (vw_of _ _ _ G) as Hv
  end;
  try match goal with U : is_user ?x = true |- _ => pose proof (is_user_ph _ U) end.

Lemma step_ACWPost s j st' : step all_fixed st (ACWPost s j) = Some (Running st') -> Inv st'.
Proof.
  intros H. start H s j. rename s0 into x.
  destruct (inv_elim st s HI) as (A & B & C & D).
  pose proof (d_per _ _ _ _ _ A j) as PA.
  assert (P : ph x = PUser) by (apply (l_posting _ _ _ Hx); auto).
  assert (E : est x = true) by (apply (l_user _ _ _ Hx); auto).
  apply (inv_intro _ s); rewrite ?ep_set_ep_same, ?ep_set_ep_other, ?wire_set_ep; auto.
  - eapply (dir_sender_at j); [exact A|apply (d_ids _ _ _ _ _ A)|apply (d_next _ _ _ _ _ A)|apply (d_nextp _ _ _ _ _ A)|apply (d_vals _ _ _ _ _ A)| | |cbn; lia|lia].
    + assert (NP : match cl x with CPosted => true | _ => false end = false).
      { destruct (cl x) eqn:Q; auto. destruct (l_posted _ _ _ Hx Q). congruence. }
      destruct PA. rewrite Hv in *. vsimp. rewrite ?NP in *. constructor; nrm; vsimp; rewrite ?NP in *; fin2.
      * ks_old d_ks. left; discriminate.
      * ks_old d_kr. left; discriminate.
      * apply d_estr; auto. right; right; right. eexists; split; [reflexivity|]. reflexivity.
    + others j.
  - eapply dir_rel; try exact B; auto.
    + intros i. apply orel_refl_sv.
    + apply (orel_put rv_eq _ j x); auto using orel_refl_rv. unfold rv_eq, view_of, held; cbn. auto.
  - apply local_same_streams with (e := put_stream j (set_wst WGone x) (ep st s)); try reflexivity.
    apply local_put; auto.
    + sl_tac Hx; sl_fin.
    + intros Hin. exfalso. eapply (not_in_backlog s (ep st s) j x); eauto. congruence.
Qed.

Lemma step_ACPost s j st' : step all_fixed st (ACPost s j) = Some (Running st') -> Inv st'.
Proof.
  intros H. start H s j.
  all: rename s0 into x.
  all: destruct (inv_elim st s HI) as (A & B & C & D).
  all: pose proof (d_per _ _ _ _ _ A j) as PA; pose proof (d_per _ _ _ _ _ B j) as PB.
  all: assert (W : wst x = WGone) by (destruct (l_rgone _ _ _ Hx); auto).
  all: assert (P : pre_user (ph x) = false)
    by (destruct (l_cl _ _ _ Hx) as [Q|Q]; [congruence|rewrite Q; auto..]).
  all: assert (Lc : local_inv s (put_stream j (set_cl CPosted x) (ep st s)))
    by (apply local_put; auto;
        [ sl_tac Hx; sl_fin
        | intros Hin; exfalso; eapply (not_in_backlog s (ep st s) j x); eauto;
          intros Q; rewrite Q in P; discriminate ]).
  - (* the close message is handed to enqueue *)
    apply (inv_intro _ s); rewrite ?ep_set_ep_same, ?ep_set_ep_other, ?wire_set_ep; auto.
    + eapply (dir_sender_at j); [exact A|apply (d_ids _ _ _ _ _ A)|apply (d_next _ _ _ _ _ A)|apply (d_nextp _ _ _ _ _ A)|apply (d_vals _ _ _ _ _ A)| | |cbn; lia|lia].
      * destruct PA. rewrite Hv in *. vsimp. constructor; nrm; vsimp; fin2.
        { ks_old d_ks. left; discriminate. }
        { ks_old d_kr. left; discriminate. }
        { apply d_estr; auto.
          match goal with Hd : _ \/ _ \/ _ \/ _ |- _ => destruct Hd as [Hd|[Hd|[Hd|(y0 & Hy & Ey)]]]; auto end.
          all: try (exfalso; match goal with Hn : None <> None |- _ => apply Hn; reflexivity end).
          inj_some. right; right; right. eexists; split; [reflexivity|]. assumption. }
      * others j.
    + eapply (dir_receiver_at j); try exact B; auto.
      * destruct PB. rewrite Hv in *. vsimp. constructor; nrm; vsimp; fin2.
      * others j.
    + eapply local_same_streams; [exact Lc|reflexivity..].
  - (* stream.close(false): nothing is sent *)
    apply (step_rel st s j x); auto.
    + rel_eq.
    + rel_eq.
    + sl_tac Hx; sl_fin.
    + right. intros Q. rewrite Q in P. discriminate.
Qed.

Lemma step_ARPost s j st' : step all_fixed st (ARPost s j) = Some (Running st') -> Inv st'.
Proof.
  intros H. start H s j.
  all: rename s0 into x.
  all: cbn [fix_zero_incr all_fixed andb] in *.
  - (* count = 0: nothing is posted *)
    apply N.eqb_eq in Heqb. subst c.
    eapply (step_same st s j x); [exact HI|eassumption| | | |reflexivity..].
    + unfold view_of, held; cbn. rewrite Heqr. reflexivity.
    + sl_tac Hx; sl_fin.
    + right. intros Q. destruct (l_early _ _ _ Hx) as (_ & ? & _); auto. congruence.
  - apply N.eqb_neq in Heqb.
    destruct (inv_elim st s HI) as (A & B & C & D).
    pose proof (d_per _ _ _ _ _ A j) as PA. pose proof (d_per _ _ _ _ _ B j) as PB.
    assert (E : est x = true).
    { destruct (est x) eqn:E; auto. destruct (l_noest _ _ _ Hx E) as (_ & Q & _).
      unfold held in Q. rewrite Heqr in Q. congruence. }
    assert (NP : match cl x with CPosted => true | _ => false end = false).
    { destruct (cl x) eqn:Q; auto. destruct (l_posted _ _ _ Hx Q). congruence. }
    assert (P : pre_user (ph x) = false).
    { destruct (pre_user (ph x)) eqn:Q; auto. destruct (l_pre _ _ _ Hx Q). congruence. }
    assert (Lc : local_inv s (put_stream j (set_rst RFree x) (ep st s))).
    { apply local_put; auto.
      - sl_tac Hx; sl_fin.
      - intros Hin. exfalso. eapply (not_in_backlog s (ep st s) j x); eauto.
        intros Q. rewrite Q in P. discriminate. }
    apply (inv_intro _ s); rewrite ?ep_set_ep_same, ?ep_set_ep_other, ?wire_set_ep; auto.
    + eapply (dir_sender_at j); [exact A|apply (d_ids _ _ _ _ _ A)|apply (d_next _ _ _ _ _ A)|apply (d_nextp _ _ _ _ _ A)|apply (d_vals _ _ _ _ _ A)| | |cbn; lia|lia].
      * destruct PA. rewrite Hv in *. vsimp. rewrite ?NP, ?P in *. constructor; nrm; vsimp; rewrite ?NP, ?P in *; fin2.
        { ks_old d_ks. left; discriminate. }
        { ks_old d_kr. left; discriminate. }
        { estr_old d_estr. }
      * others j.
    + eapply (dir_receiver_at j); try exact B; auto.
      * destruct PB. rewrite Hv in *. vsimp. rewrite ?Heqr in *. constructor; nrm; vsimp; rewrite ?Heqr in *; fin2.
      * others j.
    + eapply local_same_streams; [exact Lc|reflexivity..].
Qed.

Lemma step_ARPostSkip s j st' : step all_fixed st (ARPostSkip s j) = Some (Running st') -> Inv st'.
Proof.
  intros H. start H s j. rename s0 into x.
  destruct (inv_elim st s HI) as (A & B & C & D).
  pose proof (d_per _ _ _ _ _ B j) as PB.
  assert (P : ph x <> PBacklog).
  { intros Q. destruct (l_early _ _ _ Hx) as (_ & ? & _); auto. congruence. }
  assert (Lc : local_inv s (put_stream j (set_rst RFree x) (ep st s))).
  { apply local_put; auto.
    - sl_tac Hx; sl_fin.
    - intros Hin. exfalso. eapply (not_in_backlog s (ep st s) j x); eauto. }
  unfold upd.
  apply (inv_intro _ s); rewrite ?ep_set_ep_same, ?ep_set_ep_other, ?wire_set_ep; auto.
  - eapply dir_rel; try exact A; auto.
    + apply (orel_put sv_le _ j x); auto using orel_refl_sv. rel_eq.
    + intros i. apply orel_refl_rv.
  - eapply (dir_receiver_at j); try exact B; auto.
    + destruct PB. rewrite Hv in *. vsimp. rewrite ?Heqr in *. constructor; nrm; vsimp; rewrite ?Heqr in *; fin2.
    + others j.
Qed.

Lemma step_ACDereg s j st' : step all_fixed st (ACDereg s j) = Some (Running st') -> Inv st'.
Proof.
  intros H. start H s j. rename s0 into x.
  destruct (inv_elim st s HI) as (A & B & C & D).
  pose proof (d_per _ _ _ _ _ A j) as PA. pose proof (d_per _ _ _ _ _ B j) as PB.
  apply (inv_intro _ s); rewrite ?ep_set_ep_same, ?ep_set_ep_other, ?wire_set_ep; auto.
  - eapply (dir_sender_at j); [exact A|apply (d_ids _ _ _ _ _ A)|apply (d_next _ _ _ _ _ A)|apply (d_nextp _ _ _ _ _ A)|apply (d_vals _ _ _ _ _ A)| | |cbn; lia|lia].
    + destruct PA. rewrite Hv in *. vsimp. constructor; rewrite ?vw_del_eq; nrm; vsimp; fin2.
      * ks_old d_ks. match goal with Hd : _ \/ _ |- _ => destruct Hd as [Hd|Hd]; [congruence|right; exact Hd] end.
      * ks_old d_kr. match goal with Hd : _ \/ _ \/ _ |- _ => destruct Hd as [Hd|[Hd|Hd]]; [congruence|right; left; exact Hd|right; right; exact Hd] end.
      * apply d_estr; auto.
        match goal with Hd : _ \/ _ \/ _ \/ _ |- _ => destruct Hd as [Hd|[Hd|[Hd|(y0 & Hy & Ey)]]]; auto end.
        discriminate.
    + intros i Hne. rewrite vw_del_ne by auto. repeat split; auto.
  - eapply (dir_receiver_at j); try exact B; auto.
    + destruct PB. rewrite Hv in *. vsimp. constructor; rewrite ?vw_del_eq; nrm; vsimp; fin2.
    + intros i Hne. rewrite vw_del_ne by auto. repeat split; auto.
  - destruct C as [Cs Cb Cn Cc].
    assert (Pb : ph x <> PBacklog).
    { intros Q. destruct (l_early _ _ _ Hx) as (_ & _ & ?); auto. congruence. }
    constructor; cbn [set_streams streams backlog cfg]; auto.
    + intros i x0. destruct (N.eq_dec i j) as [->|Hne].
      * rewrite get_del_eq. discriminate.
      * rewrite get_del_ne by auto. apply Cs.
    + intros i Hi. destruct (N.eq_dec i j) as [->|Hne].
      * destruct (Cb _ Hi) as (x0 & G0 & P0). congruence.
      * rewrite get_del_ne by auto. auto.
Qed.
End D.
