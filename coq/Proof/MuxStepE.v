(* Preservation, part E: Write chunks, OpenStream allocation, AcceptStream. *)
From Coq Require Import List NArith Bool Lia Arith.
From Coq Require Import Strings.Byte.
From Mv Require Import Model.Mux Proof.MuxInv Proof.MuxStep Proof.MuxStepA Proof.MuxStepB Proof.MuxStepC Proof.MuxStepD.
Import ListNotations.
Local Open Scope N_scope.
Set Default Timeout 120.

Lemma no_any_order i w :
  has_any i w = false -> accept_first i w = true /\ close_last i w = true /\ cw_last i w = true.
Proof.
  induction w as [|a t IH]; cbn [has_any existsb accept_first close_last cw_last]; [auto|].
  intros H. apply orb_false_iff in H as [H1 H2]. destruct (IH H2) as (A & B & C).
  destruct (is_id_false _ _ H1) as (_ & _ & _ & _ & Q5 & Q6).
  rewrite H1, Q5, Q6. auto.
Qed.

Section E.
Variable st : state.
Hypothesis HI : Inv st.

Ltac start H s j :=
  unfold step, with_stream in H; step_cases H; injection H as <-;
  match goal with G : get j (streams (ep st s)) = Some ?x |- _ =>
    pose proof (get_streams_local s _ _ _ (proj1 (proj2 (proj2 (inv_elim st s HI)))) G) as Hx;
    pose proof (vw_of _ _ _ G) as Hv
  end;
  try match goal with U : is_user ?x = true |- _ => pose proof (is_user_ph _ U) end.

Lemma step_AWChunk s j st' : step all_fixed st (AWChunk s j) = Some (Running st') -> Inv st'.
Proof.
  intros H. start H s j. rename s0 into x. clear Heql rest.
  set (data := b :: l) in *.
  set (n := Nmin3 (sw x) (len data) maxBlock) in *.
  apply N.eqb_neq in Heqb0.
  assert (Hn : 0 < n /\ n <= sw x /\ n <= len data /\ n <= maxBlock).
  { unfold n, Nmin3, maxBlock, data, len. cbn [length]. lia. }
  destruct Hn as (n0 & n1 & n2 & n3).
  assert (Ld : len (takeN n data) = n) by (apply len_takeN; auto).
  destruct (inv_elim st s HI) as (A & B & C & D).
  pose proof (d_per _ _ _ _ _ A j) as PA. pose proof (d_per _ _ _ _ _ B j) as PB.
  assert (P : ph x = PUser) by (eapply (l_held _ _ _ Hx); eauto).
  assert (E : est x = true) by (apply (l_user _ _ _ Hx); auto).
  assert (NP : match cl x with CPosted => true | _ => false end = false).
  { destruct (cl x) eqn:Q; auto. destruct (l_posted _ _ _ Hx Q). congruence. }
  apply (inv_intro _ s); open_send_goals s; auto.
  - eapply (dir_sender_at j); try exact A.
    + eapply ids_app_known; eauto; [|apply (d_ids _ _ _ _ _ A)]. left. congruence.
    + rewrite final_lg_app. cbn. apply (d_next _ _ _ _ _ A).
    + apply (d_nextp _ _ _ _ _ A).
    + cbn [set_wlog cfg]. rewrite cfg_put, forallb_app, (d_vals _ _ _ _ _ A). cbn.
      rewrite Ld. rewrite andb_true_r. apply andb_true_iff. split; [apply N.ltb_lt|apply N.leb_le]; auto.
    + destruct PA. rewrite Hv in *. vsimp. rewrite ?NP, ?P, ?Heqw in *.
      constructor; nrm; vsimp; rewrite ?NP, ?P, ?Ld in *; fin2.
      * ks_old d_ks. left; discriminate.
      * ks_old d_kr. left; discriminate.
      * rewrite d_lastc. cbn. destruct (has_close j (wire_to st (other s))) eqn:Q; auto.
        destruct d_csent as (_ & _ & Q'); auto.
      * rewrite d_cwlast. cbn. destruct (has_cw j (wire_to st (other s))) eqn:Q; auto.
      * apply d_estr; auto. right; right; right. eexists; split; [reflexivity|]. reflexivity.
    + others j.
    + cbn. lia.
    + rewrite final_lg_app. cbn. lia.
  - eapply (dir_receiver_at j); try exact B; auto.
    + destruct PB. rewrite Hv in *. vsimp. constructor; nrm; vsimp; fin2.
    + others j.
  - apply local_same_streams with (e := put_stream j (set_wst (WHeld (dropN n data)) (set_sw (sw x - n) x)) (ep st s)); try reflexivity.
    apply local_put; auto.
    + sl_tac Hx; sl_fin.
    + intros Hin. exfalso. eapply (not_in_backlog s (ep st s) j x); eauto. congruence.
Qed.

Lemma step_AAcceptSend s j st' : step all_fixed st (AAcceptSend s j) = Some (Running st') -> Inv st'.
Proof.
  intros H. start H s j. rename s0 into x. unfold upd.
  destruct (inv_elim st s HI) as (A & B & C & D).
  pose proof (d_per _ _ _ _ _ A j) as PA. pose proof (d_per _ _ _ _ _ B j) as PB.
  destruct (l_pre _ _ _ Hx) as (E & M); [rewrite Heqp; reflexivity|].
  destruct (l_early _ _ _ Hx) as (W & R & Cl); [auto|].
  assert (M' : mine (other s) j = true) by (rewrite mine_other, M; reflexivity).
  assert (NA : has_accept j (wire_to st s) = false).
  { destruct (has_accept j (wire_to st s)) eqn:Q; auto.
    pose proof (has_accept_mine _ _ _ _ (d_vals _ _ _ _ _ B) Q). congruence. }
  apply (inv_intro _ s); open_send_goals s; auto.
  - eapply (dir_sender_at j); try exact A.
    + eapply ids_app_known; eauto; [|apply (d_ids _ _ _ _ _ A)]. left. congruence.
    + rewrite final_lg_app. cbn. apply (d_next _ _ _ _ _ A).
    + apply (d_nextp _ _ _ _ _ A).
    + rewrite cfg_put, forallb_app, (d_vals _ _ _ _ _ A). cbn. rewrite N.eqb_refl, M. reflexivity.
    + destruct PA. rewrite Hv in *. vsimp. rewrite ?Heqp, ?W, ?R, ?Cl, ?E in *. vsimp.
      destruct (d_pre _ eq_refl eq_refl) as (Z1 & (Z2 & Z3 & Z4) & Z5).
      destruct (no_any _ _ Z1) as (Y1 & Y2 & Y3 & Y4 & Y5 & Y6).
      assert (d_accp_af : accept_first j (wire_to st (other s)) = true).
      { clear - Z1. induction (wire_to st (other s)) as [|a t IH]; auto. cbn in *. apply orb_false_iff in Z1 as [Z Z']. rewrite Z. auto. }
      constructor; nrm; vsimp; rewrite ?Z1, ?Z2, ?Z3, ?Z4, ?Y1, ?Y2, ?Y3, ?Y4, ?Y5, ?Y6, ?M in *; fin2.
      * ks_old d_kr. left; discriminate.
      * rewrite d_accp_af. cbn. repeat split; intros; inj_some; vsimp; auto.
        all: match goal with Hq : vw _ _ = Some ?q |- _ => destruct (Z5 _ Hq) as (? & ? & ?); auto end.
      * rewrite d_lastc. reflexivity.
    + others j.
    + cbn. lia.
    + rewrite final_lg_app. cbn. lia.
  - eapply (dir_receiver_at j); try exact B; auto.
    + destruct PB. rewrite Hv in *. vsimp. rewrite ?Heqp, ?W, ?R, ?Cl, ?E, ?NA, ?M' in *. vsimp.
      constructor; nrm; vsimp; rewrite ?NA, ?M' in *; fin2.
      exfalso.
      match goal with Hq : vw (ep st (other s)) j = Some ?q |- _ =>
        destruct (vw_some _ _ _ Hq) as (x1 & G1 & ->) end.
      pose proof (get_streams_local _ _ _ _ D G1) as Hx1.
      destruct (l_pre _ _ _ Hx1) as (_ & Q); [assumption|]. congruence.
    + others j.
  - apply local_put; auto.
    + sl_tac Hx; sl_fin.
    + intros Hin. exfalso. eapply (not_in_backlog s (ep st s) j x); eauto. congruence.
Qed.

Lemma mine_bump S i : mine S i = true -> bump i <> 0 -> mine S (bump i) = true /\ bump i = i + 2.
Proof.
  unfold bump. destruct (N.ltb (maxU64 - i) 2); [congruence|]. intros M _. split; auto.
  unfold mine in *. rewrite N.even_add. change (N.even 2) with true.
  destruct (N.even i), (even_of S); cbn in *; congruence.
Qed.

Lemma step_AOpenAlloc s st' : step all_fixed st (AOpenAlloc s) = Some (Running st') -> Inv st'.
Proof.
  intros H. unfold step in H. cbn [fix_open_order all_fixed] in H.
  destruct (N.eqb (nextOut (ep st s)) 0) eqn:Z; [discriminate|]. apply N.eqb_neq in Z.
  injection H as <-.
  set (j := nextOut (ep st s)) in *.
  destruct (inv_elim st s HI) as (A & B & C & D).
  pose proof (d_per _ _ _ _ _ A j) as PA. pose proof (d_per _ _ _ _ _ B j) as PB.
  pose proof (d_next _ _ _ _ _ A Z) as NX. fold j in NX.
  pose proof (d_nextp _ _ _ _ _ A Z) as M. fold j in M.
  assert (M' : mine (other s) j = false) by (rewrite mine_other, M; reflexivity).
  (* nothing is known about j anywhere *)
  assert (F1 : vw (ep st s) j = None /\ noacc (ep st s) j).
  { destruct PA. split.
    - destruct (vw (ep st s) j) eqn:Q; auto. destruct d_ks; auto. left; discriminate. lia.
    - unfold noacc.
      destruct (get j (incs (ep st s))) eqn:Q1; [destruct d_ks; auto; [right; intros (? & _); congruence|lia]|].
      destruct (get j (wcs (ep st s))) eqn:Q2; [destruct d_ks; auto; [right; intros (_ & ? & _); congruence|lia]|].
      destruct (get j (cls (ep st s))) eqn:Q3; [destruct d_ks; auto; [right; intros (_ & _ & ?); congruence|lia]|].
      auto. }
  assert (F2 : has_any j (wire_to st (other s)) = false).
  { destruct (has_any j (wire_to st (other s))) eqn:Q; auto.
    pose proof (ids_ok_bound _ _ _ _ (d_ids _ _ _ _ _ A) Q M). lia. }
  assert (LG : largestIn (ep st (other s)) < j).
  { pose proof (ids_ok_mono _ _ _ (d_ids _ _ _ _ _ A)). lia. }
  assert (F3 : vw (ep st (other s)) j = None /\ noacc (ep st (other s)) j /\ has_any j (wire_to st s) = false).
  { destruct PB. repeat split.
    - destruct (vw (ep st (other s)) j) eqn:Q; auto. destruct d_kr; auto. left; discriminate. lia.
    - destruct (get j (incs (ep st (other s)))) eqn:Q1; auto. destruct d_kr; auto; [right; left; intros (? & _); congruence|lia].
    - destruct (get j (wcs (ep st (other s)))) eqn:Q2; auto. destruct d_kr; auto; [right; left; intros (_ & ? & _); congruence|lia].
    - destruct (get j (cls (ep st (other s)))) eqn:Q3; auto. destruct d_kr; auto; [right; left; intros (_ & _ & ?); congruence|lia].
    - destruct (has_any j (wire_to st s)) eqn:Q; auto. destruct d_kr; auto. lia. }
  destruct F1 as (V1 & N1 & N2 & N3). destruct F3 as (V2 & (N4 & N5 & N6) & F3).
  destruct (no_any _ _ F2) as (Y1 & Y2 & Y3 & Y4 & Y5 & Y6).
  destruct (no_any _ _ F3) as (X1 & X2 & X3 & X4 & X5 & X6).
  destruct (no_any_zero _ _ F2) as (DZ & IZ). destruct (no_any_zero _ _ F3) as (DZ' & IZ').
  assert (AF : accept_first j (wire_to st (other s)) = true /\ close_last j (wire_to st (other s)) = true
               /\ cw_last j (wire_to st (other s)) = true).
  { apply no_any_order; auto. }
  destruct AF as (AF1 & AF2 & AF3).
  apply (inv_intro _ s); open_send_goals s; auto.
  - eapply (dir_sender_at j); try exact A.
    + rewrite ids_ok_app, (d_ids _ _ _ _ _ A). cbn [ids_ok andb].
      apply N.eqb_neq in Z. fold j in Z. rewrite Z, M. cbn. rewrite andb_true_r. apply N.ltb_lt. lia.
    + cbn [set_nextOut nextOut]. rewrite final_lg_app. cbn. intros Q.
      destruct (mine_bump _ _ M Q) as (_ & ->). lia.
    + cbn [set_nextOut nextOut]. intros Q. apply (mine_bump _ _ M Q).
    + cbn [set_nextOut cfg]. rewrite cfg_put, forallb_app, (d_vals _ _ _ _ _ A). cbn. now rewrite N.eqb_refl.
    + constructor; nrm; unfold new_stream; vsimp;
        rewrite ?V2, ?N1, ?N2, ?N3, ?N4, ?N5, ?N6, ?F2, ?F3, ?Y1, ?Y2, ?Y3, ?Y4, ?Y5, ?Y6, ?X4, ?DZ, ?IZ, ?IZ', ?AF1, ?AF2, ?AF3, ?M in *;
        fin2.
      * exfalso. match goal with Hd : _ \/ _ |- _ => destruct Hd as [Hd|Hd]; [discriminate|congruence] end.
      * exfalso. match goal with Hd : _ \/ _ |- _ => destruct Hd as [Hd|Hd]; [discriminate|congruence] end.
      * unfold getN. rewrite N4. lia.
    + others j.
    + cbn. lia.
    + rewrite final_lg_app. cbn. lia.
  - eapply (dir_receiver_at j); try exact B; auto.
    + constructor; nrm; unfold new_stream; vsimp;
        rewrite ?V2, ?N1, ?N2, ?N3, ?N4, ?N5, ?N6, ?F2, ?F3, ?X1, ?X2, ?X3, ?X4, ?X5, ?X6, ?DZ, ?IZ, ?IZ', ?DZ', ?M' in *;
        fin2.
      * exfalso. match goal with Hd : _ \/ _ \/ _ |- _ => destruct Hd as [Hd|[Hd|Hd]]; [congruence|apply Hd; auto|discriminate] end.
      * apply (no_any_order _ _ F3).
      * apply (no_any_order _ _ F3).
      * match goal with Hd : _ \/ _ \/ _ \/ _ |- _ => destruct Hd as [Hd|[Hd|[Hd|(y0 & Hy & _)]]]; try discriminate; congruence end.
      * unfold getN. rewrite N1. lia.
    + others j.
  - apply local_same_streams with (e := put_stream j (new_stream (POpening true) 0) (ep st s)); try reflexivity.
    apply local_put; auto.
    + constructor; cbn; intros; try discriminate; try congruence; auto.
      injection H as <-. auto.
    + intros Hin. destruct (l_backlog _ _ C _ Hin) as (x0 & G0 & _).
      unfold vw in V1. rewrite G0 in V1. discriminate.
Qed.
End E.
