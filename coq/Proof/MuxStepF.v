(* Preservation, part F: the reader loop (ADeliver).  Each case shows that the
   transcribed validation accepts the frame at the head of the wire and that
   the invariant holds afterwards. *)
From Coq Require Import List NArith Bool Lia Arith.
From Coq Require Import Strings.Byte.
From Mv Require Import Model.Mux Proof.MuxInv Proof.MuxStep Proof.MuxStepA Proof.MuxStepB
                       Proof.MuxStepC Proof.MuxStepD Proof.MuxStepE.
Import ListNotations.
Local Open Scope N_scope.
Set Default Timeout 120.

Lemma has_open_after S lg w i : ids_ok S lg w = true -> has_open i w = true -> lg < i.
Proof.
  revert lg. induction w as [|a t IH]; intros lg H Ho; [discriminate|].
  cbn [has_open existsb] in Ho. apply orb_true_iff in Ho.
  destruct a; cbn [ids_ok mid] in H; rewrite ?andb_true_iff in H; cbn [is_open] in Ho;
    try (destruct Ho as [Ho|Ho]; [discriminate|]; eapply IH; [|exact Ho]; intuition eauto).
  destruct H as [[[_ _] Hl] Ht]. apply N.ltb_lt in Hl. destruct Ho as [Ho|Ho].
  - apply N.eqb_eq in Ho; subst. auto.
  - specialize (IH _ Ht Ho). lia.
Qed.

Lemma incB_zero i w : has_incr i w = false -> incB i w = 0.
Proof.
  induction w as [|a t IH]; cbn [has_incr existsb incB]; auto.
  intros H. apply orb_false_iff in H as [H1 H2]. specialize (IH H2).
  destruct a; cbn [is_incr] in H1; rewrite ?H1, ?IH; auto.
Qed.
Lemma dataB_zero i w : has_data i w = false -> dataB i w = 0.
Proof.
  induction w as [|a t IH]; cbn [has_data existsb dataB]; auto.
  intros H. apply orb_false_iff in H as [H1 H2]. specialize (IH H2).
  destruct a; cbn [is_data] in H1; rewrite ?H1, ?IH; auto.
Qed.

(* popping the head of the wire S -> R: S as sender *)
Lemma dir_pop_a j S eS eR m t w' eR' :
  dir_inv S eS eR (m :: t) w' ->
  ids_ok S (largestIn eR') t = true ->
  final_lg (largestIn eR') t = final_lg (largestIn eR) (m :: t) ->
  cfg eR' = cfg eR ->
  per_id S eS eR' t w' j ->
  (forall i, i <> j -> vw eR' i = vw eR i /\ get i (incs eR') = get i (incs eR) /\
                      wp i t = wp i (m :: t)) ->
  dir_inv S eS eR' t w'.
Proof.
  intros [A B B' C D] H1 H2 H3 Hj Hne. constructor; auto.
  - rewrite H2. auto.
  - cbn [forallb] in C. apply andb_true_iff in C. tauto.
  - intros i. destruct (N.eq_dec i j) as [->|Hn]; auto.
    destruct (Hne i Hn) as (E1 & E2 & E3).
    eapply per_id_frame; eauto; try lia.
Qed.

(* ... and R as sender on the other wire *)
Lemma dir_pop_b j R eR eS w' m t eR' :
  dir_inv R eR eS w' (m :: t) ->
  nextOut eR' = nextOut eR -> cfg eR' = cfg eR -> largestIn eR <= largestIn eR' ->
  per_id R eR' eS w' t j ->
  (forall i, i <> j -> vw eR' i = vw eR i /\ get i (incs eR') = get i (incs eR) /\
                      get i (wcs eR') = get i (wcs eR) /\ get i (cls eR') = get i (cls eR) /\
                      wp i t = wp i (m :: t)) ->
  dir_inv R eR' eS w' t.
Proof.
  intros [A B B' C D] H1 H2 H3 Hj Hne. constructor; rewrite ?H1, ?H2; auto.
  intros i. destruct (N.eq_dec i j) as [->|Hn]; auto.
  destruct (Hne i Hn) as (E1 & E2 & E3 & E4 & E5). destruct (wp_incr _ _ _ E5).
  eapply per_id_frame; eauto; try lia.
Qed.

(* identifiers of the receiver's parity on the wire were allocated by it *)
Lemma outbound_in_range S eS eR w w' i :
  dir_inv S eS eR w w' -> dir_inv (other S) eR eS w' w ->
  mine S i = false -> has_any i w = true ->
  out_of_range_outbound eR (other S) i = false.
Proof.
  intros A B M Ha. unfold out_of_range_outbound.
  destruct (d_kr _ _ _ _ _ _ (d_per _ _ _ _ _ A i) M) as [K _]; auto.
  destruct (N.eqb (nextOut eR) 0) eqn:Z; [now rewrite andb_false_r|].
  apply N.eqb_neq in Z. pose proof (d_next _ _ _ _ _ B Z) as NX.
  pose proof (ids_ok_mono _ _ _ (d_ids _ _ _ _ _ B)).
  rewrite (proj2 (N.leb_gt _ _)); [now rewrite andb_false_r|lia].
Qed.

Lemma rt_zero S e i : local_inv S e -> (forall y, vw e i = Some y -> v_est y = false) -> rterms (vw e i) = 0.
Proof.
  intros L H. destruct (vw e i) as [y|] eqn:Q; cbn; auto.
  destruct (vw_some _ _ _ Q) as (x & G & ->). specialize (H _ eq_refl). cbn in H.
  destruct (l_noest _ _ _ (l_streams _ _ L _ _ G) H) as (R1 & R2 & _).
  cbn. rewrite R1, R2. reflexivity.
Qed.

Lemma pre_not_mine S e i y : local_inv S e -> vw e i = Some y -> v_pre y = true -> mine S i = false.
Proof.
  intros L Q P. destruct (vw_some _ _ _ Q) as (x & G & ->). cbn in P.
  destruct (l_pre _ _ _ (l_streams _ _ L _ _ G) P). auto.
Qed.

Ltac or_false := exfalso; match goal with Hd : _ \/ _ |- _ => destruct Hd; congruence end.

Ltac estr_false :=
  exfalso; match goal with Hd : _ \/ _ \/ _ \/ _ |- _ =>
    destruct Hd as [Hd|[Hd|[Hd|(y0 & Hy & Ey)]]]; try discriminate; try congruence;
    try (apply Hd; reflexivity); try (inj_some; cbn in *; discriminate) end.

Ltac others_pop j :=
  let i := fresh "i" in let Hne := fresh "Hne" in
  intros i Hne; nrm; repeat match goal with |- _ /\ _ => split end;
  rewrite ?vw_put_ne, ?get_set_ne, ?get_del_ne by auto; auto;
  try (symmetry; apply wp_cons_other; apply (is_id_ne i j); auto).

Lemma NoDup_app_iff_local (l : list N) (i : N) : NoDup l -> ~ In i l -> NoDup (l ++ [i]).
Proof.
  induction l as [|a t IH]; cbn; intros Hn Hi.
  - constructor; auto.
  - inversion Hn; subst. constructor.
    + rewrite in_app_iff. cbn. intuition.
    + apply IH; auto.
Qed.

Lemma no_cw_last i w : has_cw i w = false -> cw_last i w = true.
Proof.
  induction w as [|a t IH]; cbn [has_cw existsb cw_last]; auto.
  intros H. apply orb_false_iff in H as [H1 H2]. rewrite H1. auto.
Qed.

Section F.
Variable st : state.
Hypothesis HI : Inv st.

Ltac open_pop s :=
  rewrite ?ep_set_ep_same, ?ep_set_ep_other, ?wire_set_ep, ?ep_set_wire,
          ?wire_set_wire_same, ?wire_set_wire_other.

Lemma deliver_hb s t :
  wire_to st s = MHeartbeat :: t -> Inv (set_ep (set_wire_to st s t) s (ep st s)).
Proof.
  intros W. destruct (inv_elim st s HI) as (A & B & C & D). rewrite W in *.
  apply (inv_intro _ s); open_pop s; auto.
  - eapply (dir_pop_b 0); try exact A; auto; try lia.
    pose proof (d_per _ _ _ _ _ A 0) as P0.
    eapply per_id_frame; eauto; try lia.
  - eapply (dir_pop_a 0); try exact B; auto.
    + apply (d_ids _ _ _ _ _ B).
    + pose proof (d_per _ _ _ _ _ B 0) as P0.
      eapply per_id_frame; eauto; try lia. cbn. lia.
Qed.

Lemma deliver_open s i v t :
  wire_to st s = MOpen i v :: t ->
  exists e', deliver s (ep st s) (MOpen i v) = DOk e' /\ Inv (set_ep (set_wire_to st s t) s e').
Proof.
  intros W. destruct (inv_elim st s HI) as (A & B & C & D). rewrite W in *.
  pose proof (d_per _ _ _ _ _ A i) as PA. pose proof (d_per _ _ _ _ _ B i) as PB.
  pose proof (d_ids _ _ _ _ _ B) as Hid. cbn [ids_ok] in Hid. rewrite !andb_true_iff in Hid.
  destruct Hid as (((Z & M') & LG) & IT).
  apply negb_true_iff in Z. apply N.ltb_lt in LG.
  assert (M : mine s i = false).
  { rewrite <- (other_other s), mine_other, M'. reflexivity. }
  pose proof (d_vals _ _ _ _ _ B) as Hv0. cbn [forallb val_ok] in Hv0.
  apply andb_true_iff in Hv0 as [Hv0 _]. apply N.eqb_eq in Hv0. subst v.
  (* R knows nothing about i yet *)
  assert (F3 : vw (ep st s) i = None /\ noacc (ep st s) i /\ has_any i (wire_to st (other s)) = false).
  { destruct PA. repeat split.
    - destruct (vw (ep st s) i) eqn:Q; auto. destruct d_kr; auto. left; discriminate. lia.
    - destruct (get i (incs (ep st s))) eqn:Q1; auto. destruct d_kr; auto; [right; left; intros (? & _); congruence|lia].
    - destruct (get i (wcs (ep st s))) eqn:Q2; auto. destruct d_kr; auto; [right; left; intros (_ & ? & _); congruence|lia].
    - destruct (get i (cls (ep st s))) eqn:Q3; auto. destruct d_kr; auto; [right; left; intros (_ & _ & ?); congruence|lia].
    - destruct (has_any i (wire_to st (other s))) eqn:Q; auto. destruct d_kr; auto. lia. }
  destruct F3 as (V2 & (N4 & N5 & N6) & F3).
  destruct (no_any _ _ F3) as (X1 & X2 & X3 & X4 & X5 & X6).
  destruct (no_any_zero _ _ F3) as (DZ' & IZ').
  destruct (no_any_order _ _ F3) as (O1 & O2 & O3).
  (* what S has said about i *)
  assert (HO : has_open i t = false).
  { destruct (has_open i t) eqn:Q; auto. pose proof (has_open_after _ _ _ _ IT Q). lia. }
  assert (NAcc : has_accept i t = false).
  { destruct (has_accept i t) eqn:Q; auto.
    assert (Q' : has_accept i (MOpen i (cW (cfg (ep st (other s)))) :: t) = true) by (cbn; exact Q).
    pose proof (has_accept_mine _ _ _ _ (d_vals _ _ _ _ _ B) Q'). congruence. }
  destruct PB as [].
  destruct d_openp as (P1 & P2 & P3 & P4 & P5 & P6); [cbn; now rewrite N.eqb_refl|].
  cbn [has_data has_incr has_cw existsb is_data is_incr is_cw orb] in P1, P2, P3.
  fold (has_data i t) in P1. fold (has_incr i t) in P2. fold (has_cw i t) in P3.
  unfold deliver. rewrite Z, M. cbn [negb]. rewrite (proj2 (N.leb_gt _ _) LG).
  destruct (Nat.eqb (length (backlog (set_largestIn i (ep st s)))) (cBacklog (cfg (set_largestIn i (ep st s))))) eqn:BL;
    eexists; (split; [reflexivity|]).
  - (* backlog full: rejected *)
    apply (inv_intro _ s); open_pop s; auto.
    + eapply (dir_pop_b i); try exact A; auto.
      * cbn. lia.
      * constructor; nrm; vsimp; rewrite ?V2, ?N4, ?N5, ?N6, ?F3, ?X1, ?X2, ?X3, ?X4, ?X5, ?X6, ?DZ', ?IZ', ?O1, ?O2, ?O3, ?M, ?P1, ?P2, ?P3 in *; fin2.
        { estr_false. }
        { rewrite (rt_zero _ _ _ D) by (intros y Hy; apply (P6 _ Hy)).
          unfold getN. rewrite P4, (incB_zero _ _ P2). lia. }
      * others_pop i.
    + eapply (dir_pop_a i); try exact B; auto.
      * constructor; nrm; vsimp; rewrite ?V2, ?N4, ?N5, ?N6, ?F3, ?X4, ?DZ', ?IZ', ?M', ?P1, ?P2, ?P3, ?P4, ?P5, ?HO, ?NAcc in *; fin2.
        { or_false. }
        { exfalso. match goal with Hq : vw _ _ = Some _, Hp : v_pre _ = true |- _ =>
            pose proof (pre_not_mine _ _ _ _ D Hq Hp) end. congruence. }
      * others_pop i.
    + eapply local_same_streams; [exact C|reflexivity..].
  - (* accepted into the backlog *)
    apply (inv_intro _ s); open_pop s; auto.
    + eapply (dir_pop_b i); try exact A; auto.
      * cbn. lia.
      * constructor; nrm; unfold new_stream; vsimp; rewrite ?V2, ?N4, ?N5, ?N6, ?F3, ?X1, ?X2, ?X3, ?X4, ?X5, ?X6, ?DZ', ?IZ', ?O1, ?O2, ?O3, ?M, ?P1, ?P2, ?P3 in *; fin2.
        all: try or_false.
        all: try estr_false.
        rewrite (rt_zero _ _ _ D) by (intros y Hy; apply (P6 _ Hy)).
        unfold getN. rewrite P4, (incB_zero _ _ P2). lia.
      * others_pop i.
    + eapply (dir_pop_a i); try exact B; auto.
      * constructor; nrm; unfold new_stream; vsimp; rewrite ?V2, ?N4, ?N5, ?N6, ?F3, ?X4, ?DZ', ?IZ', ?M', ?P1, ?P2, ?P3, ?P4, ?P5, ?HO, ?NAcc in *; fin2.
        all: try or_false.
        { exfalso. match goal with Hq : vw _ _ = Some _, Hp : v_pre _ = true |- _ =>
            pose proof (pre_not_mine _ _ _ _ D Hq Hp) end. congruence. }
        { split; auto. intros y Hy. apply (P6 _ Hy). }
      * others_pop i.
    + (* local invariant with the new backlog entry *)
      assert (NB : ~ In i (backlog (ep st s))).
      { intros Hin. destruct (l_backlog _ _ C _ Hin) as (x0 & G0 & _).
        unfold vw in V2. rewrite G0 in V2. discriminate. }
      destruct C as [Cs Cb Cn Cc].
      constructor; cbn [set_backlog put_stream set_streams set_largestIn streams backlog cfg]; auto.
      * intros k x0. destruct (N.eq_dec k i) as [->|Hne].
        -- rewrite get_set_eq. intros [= <-].
           constructor; cbn; intros; try discriminate; try congruence; auto.
           ++ apply N.eqb_neq; auto.
           ++ repeat split; auto. congruence.
        -- rewrite get_set_ne by auto. apply Cs.
      * intros k Hk. apply in_app_or in Hk as [Hk|[<-|[]]].
        -- assert (k <> i) by (intros ->; auto). rewrite get_set_ne by auto. auto.
        -- rewrite get_set_eq. eauto.
      * apply NoDup_app_iff_local; auto.
Qed.

(* the identifier checks of the reader pass for every non-open frame *)
Lemma range_ok s m t i :
  wire_to st s = m :: t -> mid m = Some i -> is_open i m = false ->
  N.eqb i 0 = false /\ out_of_range_inbound (ep st s) s i = false /\
  out_of_range_outbound (ep st s) s i = false.
Proof.
  intros W Hm Ho. destruct (inv_elim st s HI) as (A & B & C & D). rewrite W in *.
  pose proof (d_ids _ _ _ _ _ B) as Hid.
  assert (Hany : has_any i (m :: t) = true).
  { cbn. unfold is_id. rewrite Hm, N.eqb_refl. reflexivity. }
  assert (X : negb (N.eqb i 0) = true /\ (negb (mine (other s) i) || N.leb i (largestIn (ep st s))) = true).
  { destruct m; cbn in Hm; inversion Hm; subst; cbn [ids_ok mid] in Hid;
      try (cbn in Ho; rewrite N.eqb_refl in Ho; discriminate);
      rewrite !andb_true_iff in Hid; tauto. }
  destruct X as (X1 & X2). apply negb_true_iff in X1. split; auto.
  rewrite mine_other in X2. rewrite negb_involutive in X2.
  unfold out_of_range_inbound, out_of_range_outbound.
  destruct (mine s i) eqn:M; cbn [negb andb orb] in *.
  - split; auto.
    assert (M' : mine (other s) i = false) by (rewrite mine_other, M; reflexivity).
    pose proof (outbound_in_range _ _ _ _ _ i B) as Q. rewrite other_other in Q.
    specialize (Q A M' Hany). unfold out_of_range_outbound in Q. rewrite M in Q. exact Q.
  - split; auto. apply N.leb_le in X2. apply N.ltb_ge. exact X2.
Qed.

(* a non-open frame for a stream the receiver no longer has is just dropped *)
Lemma deliver_discard s m t i :
  wire_to st s = m :: t -> mid m = Some i -> is_open i m = false ->
  get i (streams (ep st s)) = None ->
  Inv (set_ep (set_wire_to st s t) s (ep st s)).
Proof.
  intros W Hm Ho G. destruct (inv_elim st s HI) as (A & B & C & D). rewrite W in *.
  pose proof (d_per _ _ _ _ _ A i) as PA. pose proof (d_per _ _ _ _ _ B i) as PB.
  pose proof (vw_none _ _ G) as V.
  apply (inv_intro _ s); open_pop s; auto.
  - eapply (dir_pop_b i); try exact A; auto; try lia.
    + destruct PA. rewrite V in *.
      destruct m; cbn in Hm; inversion Hm; subst; try (cbn in Ho; rewrite N.eqb_refl in Ho; discriminate);
        (constructor; rewrite ?V; nrm; vsimp; fin2).
    + others_pop i.
  - eapply (dir_pop_a i); try exact B; auto.
    + pose proof (d_ids _ _ _ _ _ B) as Hid.
      destruct m; cbn in Hm; inversion Hm; subst; try (cbn in Ho; rewrite N.eqb_refl in Ho; discriminate);
        cbn [ids_ok mid] in Hid; rewrite !andb_true_iff in Hid; tauto.
    + destruct m; cbn in Hm; inversion Hm; subst; try (cbn in Ho; rewrite N.eqb_refl in Ho; discriminate); reflexivity.
    + destruct PB. rewrite V in *.
      destruct m; cbn in Hm; inversion Hm; subst; try (cbn in Ho; rewrite N.eqb_refl in Ho; discriminate);
        rewrite ?has_any_cons, ?has_open_cons, ?has_accept_cons, ?has_data_cons, ?has_incr_cons, ?has_cw_cons, ?has_close_cons in *;
        cbn [accept_first close_last cw_last is_id is_open is_accept is_data is_incr is_cw is_close mid dataB incB] in *;
        rewrite ?N.eqb_refl in *; cbn [orb negb andb] in *;
        (constructor; rewrite ?V; nrm; vsimp; fin2).
      * apply no_cw_last. match goal with Hc : negb _ && negb (has_cw i t) = true |- _ =>
          apply andb_true_iff in Hc as [_ Hc]; now apply negb_true_iff in Hc end.
      * apply no_any_order. match goal with Hc : negb (has_any i t) = true |- _ => now apply negb_true_iff in Hc end.
    + others_pop i.
Qed.
End F.
