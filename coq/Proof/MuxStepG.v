(* Preservation, part G: the reader loop on a frame for a stream it has. *)
From Coq Require Import List NArith Bool Lia Arith.
From Coq Require Import Strings.Byte.
From Mv Require Import Model.Mux Proof.MuxInv Proof.MuxStep Proof.MuxStepA Proof.MuxStepB
                       Proof.MuxStepC Proof.MuxStepD Proof.MuxStepE Proof.MuxStepF.
Import ListNotations.
Local Open Scope N_scope.
Set Default Timeout 300.

Lemma len_app {A} (a b : list A) : len (a ++ b) = len a + len b.
Proof. unfold len. rewrite app_length. lia. Qed.

Ltac open_pop s :=
  rewrite ?ep_set_ep_same, ?ep_set_ep_other, ?wire_set_ep, ?ep_set_wire,
          ?wire_set_wire_same, ?wire_set_wire_other.

Ltac cons_nrm :=
  rewrite ?has_any_cons, ?has_open_cons, ?has_accept_cons, ?has_data_cons, ?has_incr_cons,
          ?has_cw_cons, ?has_close_cons in *;
  cbn [accept_first close_last cw_last is_id is_open is_accept is_data is_incr is_cw is_close
       mid dataB incB ids_ok final_lg] in *;
  rewrite ?N.eqb_refl in *; cbn [orb negb andb] in *.

Section G.
Variable st : state.
Hypothesis HI : Inv st.

Lemma deliver_data s i d t x :
  wire_to st s = MData i d :: t -> get i (streams (ep st s)) = Some x ->
  exists e', deliver s (ep st s) (MData i d) = DOk e' /\ Inv (set_ep (set_wire_to st s t) s e').
Proof.
  intros W G.
  destruct (range_ok st HI s _ _ i W eq_refl eq_refl) as (R1 & R2 & R3).
  destruct (inv_elim st s HI) as (A & B & C & D). rewrite W in *.
  pose proof (d_per _ _ _ _ _ A i) as PA. pose proof (d_per _ _ _ _ _ B i) as PB.
  pose proof (get_streams_local _ _ _ _ C G) as Hx. pose proof (vw_of _ _ _ G) as Hv.
  pose proof (d_vals _ _ _ _ _ B) as Hv0. cbn [forallb val_ok] in Hv0.
  apply andb_true_iff in Hv0 as [Hv0 _]. apply andb_true_iff in Hv0 as [L0 L1].
  apply N.ltb_lt in L0. apply N.leb_le in L1.
  destruct PB as []. rewrite Hv in *. cons_nrm. vsimp.
  assert (Erc : rc x = false).
  { destruct (rc x) eqn:Q; auto. destruct (d_rc _ eq_refl eq_refl) as (? & _). discriminate. }
  assert (Ercw : rcw x = false).
  { destruct (rcw x) eqn:Q; auto. destruct (d_rcw _ eq_refl eq_refl) as (? & _). discriminate. }
  assert (Eest : est x = true).
  { destruct (est x) eqn:Q; auto. exfalso. destruct (mine (other s) i) eqn:M.
    - destruct (d_ests _ eq_refl eq_refl eq_refl) as (? & _). discriminate.
    - assert (Ha : has_accept i t = true) by (apply (d_estr _ eq_refl eq_refl eq_refl); auto).
      destruct (d_accp Ha) as (Q1 & _). rewrite Ha in Q1. discriminate. }
  assert (Win : len (rbuf x) + len d <= cW (cfg (ep st s))) by lia.
  unfold deliver. rewrite R1, R2, R3, G, Eest, Ercw, Erc.
  rewrite (proj2 (N.eqb_neq (len d) 0)) by lia.
  rewrite (proj2 (N.ltb_ge _ _) Win). cbn [negb].
  eexists; split; [reflexivity|].
  apply (inv_intro _ s); open_pop s; auto.
  - eapply (dir_pop_b i s (ep st s) (ep st (other s)) (wire_to st (other s)) (MData i d) t);
      [exact A|reflexivity|reflexivity|cbn; lia| |others_pop i].
    eapply (per_id_frame2 s (ep st s) (ep st (other s)) (wire_to st (other s)) (MData i d :: t));
      [exact PA| |apply orel_refl_rv|reflexivity|reflexivity|reflexivity|reflexivity|reflexivity|reflexivity|reflexivity|cbn; lia|lia|reflexivity].
    rewrite vw_put_eq. unfold vw. rewrite G. cbn. unfold sv_le, view_of; cbn. repeat split; auto.
  - eapply (dir_pop_a i); try exact B; auto.
    + pose proof (d_ids _ _ _ _ _ B) as Hid. cbn [ids_ok mid] in Hid. rewrite !andb_true_iff in Hid. tauto.
    + constructor; nrm; vsimp; rewrite ?len_app, ?Eest, ?Erc, ?Ercw in *; fin2.
    + others_pop i.
  - apply local_put; auto.
    + sl_tac Hx; sl_fin.
    + intros Hin. destruct (l_backlog _ _ C _ Hin) as (x0 & G0 & P0).
      assert (x0 = x) by congruence. subst x0.
      destruct (l_pre _ _ _ Hx) as (Q & _); [rewrite P0; reflexivity|]. congruence.
Qed.

Lemma deliver_incr s i n t x :
  wire_to st s = MIncr i n :: t -> get i (streams (ep st s)) = Some x ->
  exists e', deliver s (ep st s) (MIncr i n) = DOk e' /\ Inv (set_ep (set_wire_to st s t) s e').
Proof.
  intros W G.
  destruct (range_ok st HI s _ _ i W eq_refl eq_refl) as (R1 & R2 & R3).
  destruct (inv_elim st s HI) as (A & B & C & D). rewrite W in *.
  pose proof (d_per _ _ _ _ _ A i) as PA. pose proof (d_per _ _ _ _ _ B i) as PB.
  pose proof (get_streams_local _ _ _ _ C G) as Hx. pose proof (vw_of _ _ _ G) as Hv.
  pose proof (d_vals _ _ _ _ _ B) as Hv0. cbn [forallb val_ok] in Hv0.
  apply andb_true_iff in Hv0 as [L0 _]. apply N.ltb_lt in L0.
  pose proof (l_cfg _ _ D) as CF.
  destruct PB as []. destruct PA as [a_incpos a_ks a_kr a_openp a_accp a_lastc a_csent a_conce a_rc
    a_cwlast a_cwsent a_cwonce a_rcw a_pre a_zero a_estr a_ests a_sum].
  rewrite Hv in *. cons_nrm. vsimp.
  assert (Erc : rc x = false).
  { destruct (rc x) eqn:Q; auto. destruct (d_rc _ eq_refl eq_refl) as (? & _). discriminate. }
  assert (Eest : (mine s i && negb (est x)) = false).
  { destruct (mine s i) eqn:M; auto. destruct (est x) eqn:Q; auto.
    destruct (a_zero _ eq_refl eq_refl eq_refl) as (_ & _ & _ & _ & _ & _ & _ & ?). discriminate. }
  assert (Ov : sw x + n <= maxU64) by lia.
  assert (E' : deliver s (ep st s) (MIncr i n) = DOk (put_stream i (set_sw (sw x + n) x) (ep st s))).
  { unfold deliver. rewrite R1, R2, R3, G, Eest, Erc.
    rewrite (proj2 (N.eqb_neq n 0)) by lia.
    destruct (N.eqb (sw x) 0) eqn:Z.
    - apply N.eqb_eq in Z. rewrite Z. reflexivity.
    - rewrite (proj2 (N.ltb_ge _ _)) by lia. reflexivity. }
  eexists; split; [exact E'|].
  apply (inv_intro _ s); open_pop s; auto.
  - eapply (dir_pop_b i s (ep st s) (ep st (other s)) (wire_to st (other s)) (MIncr i n) t);
      [exact A|reflexivity|reflexivity|cbn; lia| |others_pop i].
    constructor; nrm; vsimp; fin2.
    + ks_old a_ks. left; discriminate.
    + ks_old a_kr. left; discriminate.
    + estr_old a_estr.
  - eapply (dir_pop_a i); try exact B; auto.
    + pose proof (d_ids _ _ _ _ _ B) as Hid. cbn [ids_ok mid] in Hid. rewrite !andb_true_iff in Hid. tauto.
    + constructor; nrm; vsimp; fin2.
    + others_pop i.
  - apply local_put; auto.
    + sl_tac Hx; sl_fin.
      repeat split; auto. intros M. rewrite M, H in Eest. discriminate.
    + intros Hin. destruct (l_backlog _ _ C _ Hin) as (x0 & G0 & P0).
      assert (x0 = x) by congruence. subst x0. cbn. exact P0.
Qed.

(* while S's frame about i is in flight, R's own open for i is not *)
Lemma no_open_back s i :
  has_any i (wire_to st s) = true -> has_open i (wire_to st (other s)) = false.
Proof.
  intros Ha. destruct (inv_elim st s HI) as (A & B & C & D).
  destruct (has_open i (wire_to st (other s))) eqn:Q; auto. exfalso.
  pose proof (has_open_mine _ _ _ _ (d_ids _ _ _ _ _ A) Q) as M.
  assert (M' : mine (other s) i = false) by (rewrite mine_other, M; reflexivity).
  destruct (d_kr _ _ _ _ _ _ (d_per _ _ _ _ _ B i) M') as [K _]; auto.
  pose proof (has_open_after _ _ _ _ (d_ids _ _ _ _ _ A) Q). lia.
Qed.

Lemma deliver_cw s i t x :
  wire_to st s = MCloseWrite i :: t -> get i (streams (ep st s)) = Some x ->
  exists e', deliver s (ep st s) (MCloseWrite i) = DOk e' /\ Inv (set_ep (set_wire_to st s t) s e').
Proof.
  intros W G.
  destruct (range_ok st HI s _ _ i W eq_refl eq_refl) as (R1 & R2 & R3).
  assert (NO : has_open i (wire_to st (other s)) = false).
  { apply no_open_back. rewrite W. cbn. now rewrite N.eqb_refl. }
  destruct (inv_elim st s HI) as (A & B & C & D). rewrite W in *.
  pose proof (d_per _ _ _ _ _ A i) as PA. pose proof (d_per _ _ _ _ _ B i) as PB.
  pose proof (get_streams_local _ _ _ _ C G) as Hx. pose proof (vw_of _ _ _ G) as Hv.
  destruct PB as []. destruct PA as [a_incpos a_ks a_kr a_openp a_accp a_lastc a_csent a_conce a_rc
    a_cwlast a_cwsent a_cwonce a_rcw a_pre a_zero a_estr a_ests a_sum].
  rewrite Hv in *. cons_nrm. vsimp.
  assert (Erc : rc x = false).
  { destruct (rc x) eqn:Q; auto. destruct (d_rc _ eq_refl eq_refl) as (? & _). discriminate. }
  assert (Ercw : rcw x = false).
  { destruct (rcw x) eqn:Q; auto. destruct (d_rcw _ eq_refl eq_refl) as (_ & ? & _). discriminate. }
  assert (Eest : (mine s i && negb (est x)) = false).
  { destruct (mine s i) eqn:M; auto. destruct (est x) eqn:Q; auto. exfalso.
    assert (M' : mine (other s) i = false) by (rewrite mine_other, M; reflexivity).
    assert (Ha : has_accept i t = true) by (apply (d_estr _ M' eq_refl eq_refl); auto).
    destruct (d_accp Ha) as (Q1 & _). rewrite Ha in Q1. discriminate. }
  unfold deliver. rewrite R1, R2, R3, G, Eest, Ercw, Erc.
  eexists; split; [reflexivity|].
  apply (inv_intro _ s); open_pop s; auto.
  - eapply (dir_pop_b i s (ep st s) (ep st (other s)) (wire_to st (other s)) (MCloseWrite i) t);
      [exact A|reflexivity|reflexivity|cbn; lia| |others_pop i].
    constructor; nrm; vsimp; rewrite ?NO in *; fin2.
    + ks_old a_ks. left; discriminate.
    + ks_old a_kr. left; discriminate.
    + estr_old a_estr.
  - eapply (dir_pop_a i); try exact B; auto.
    + pose proof (d_ids _ _ _ _ _ B) as Hid. cbn [ids_ok mid] in Hid. rewrite !andb_true_iff in Hid. tauto.
    + assert (ND : has_data i t = false /\ has_cw i t = false).
      { apply andb_true_iff in d_cwlast as [Q1 Q2]. apply negb_true_iff in Q1, Q2. auto. }
      destruct ND as (ND1 & ND2).
      pose proof (no_cw_last _ _ ND2) as CL.
      constructor; nrm; vsimp; fin2.
    + others_pop i.
  - apply local_put; auto.
    + sl_tac Hx; sl_fin.
    + intros Hin. destruct (l_backlog _ _ C _ Hin) as (x0 & G0 & P0).
      assert (x0 = x) by congruence. subst x0. cbn. exact P0.
Qed.

Lemma deliver_close s i t x :
  wire_to st s = MClose i :: t -> get i (streams (ep st s)) = Some x ->
  exists e', deliver s (ep st s) (MClose i) = DOk e' /\ Inv (set_ep (set_wire_to st s t) s e').
Proof.
  intros W G.
  destruct (range_ok st HI s _ _ i W eq_refl eq_refl) as (R1 & R2 & R3).
  assert (NO : has_open i (wire_to st (other s)) = false).
  { apply no_open_back. rewrite W. cbn. now rewrite N.eqb_refl. }
  destruct (inv_elim st s HI) as (A & B & C & D). rewrite W in *.
  pose proof (d_per _ _ _ _ _ A i) as PA. pose proof (d_per _ _ _ _ _ B i) as PB.
  pose proof (get_streams_local _ _ _ _ C G) as Hx. pose proof (vw_of _ _ _ G) as Hv.
  destruct PB as []. destruct PA as [a_incpos a_ks a_kr a_openp a_accp a_lastc a_csent a_conce a_rc
    a_cwlast a_cwsent a_cwonce a_rcw a_pre a_zero a_estr a_ests a_sum].
  rewrite Hv in *. cons_nrm. vsimp.
  assert (Erc : rc x = false).
  { destruct (rc x) eqn:Q; auto. destruct (d_rc _ eq_refl eq_refl) as (? & _). discriminate. }
  unfold deliver. rewrite R1, R2, R3, G, Erc.
  eexists; split; [reflexivity|].
  assert (NA : has_any i t = false) by (now apply negb_true_iff in d_lastc).
  destruct (no_any _ _ NA) as (Y1 & Y2 & Y3 & Y4 & Y5 & Y6).
  destruct (no_any_order _ _ NA) as (O1 & O2 & O3).
  apply (inv_intro _ s); open_pop s; auto.
  - eapply (dir_pop_b i s (ep st s) (ep st (other s)) (wire_to st (other s)) (MClose i) t);
      [exact A|reflexivity|reflexivity|cbn; lia| |others_pop i].
    constructor; nrm; vsimp; rewrite ?NO in *; fin2.
    + ks_old a_ks. left; discriminate.
    + ks_old a_kr. left; discriminate.
    + estr_old a_estr.
  - eapply (dir_pop_a i); try exact B; auto.
    + pose proof (d_ids _ _ _ _ _ B) as Hid. cbn [ids_ok mid] in Hid. rewrite !andb_true_iff in Hid. tauto.
    + constructor; nrm; vsimp; rewrite ?NA, ?Y1, ?Y2, ?Y3, ?Y4, ?Y5, ?Y6, ?O1, ?O2, ?O3 in *; fin2.
    + others_pop i.
  - apply local_put; auto.
    + sl_tac Hx; sl_fin.
    + intros Hin. destruct (l_backlog _ _ C _ Hin) as (x0 & G0 & P0).
      assert (x0 = x) by congruence. subst x0. cbn. exact P0.
Qed.

Lemma deliver_accept s i v t x :
  wire_to st s = MAccept i v :: t -> get i (streams (ep st s)) = Some x ->
  exists e', deliver s (ep st s) (MAccept i v) = DOk e' /\ Inv (set_ep (set_wire_to st s t) s e').
Proof.
  intros W G.
  destruct (range_ok st HI s _ _ i W eq_refl eq_refl) as (R1 & R2 & R3).
  assert (NO : has_open i (wire_to st (other s)) = false).
  { apply no_open_back. rewrite W. cbn. now rewrite N.eqb_refl. }
  destruct (inv_elim st s HI) as (A & B & C & D). rewrite W in *.
  pose proof (d_per _ _ _ _ _ A i) as PA. pose proof (d_per _ _ _ _ _ B i) as PB.
  pose proof (get_streams_local _ _ _ _ C G) as Hx. pose proof (vw_of _ _ _ G) as Hv.
  pose proof (d_vals _ _ _ _ _ B) as Hv0. cbn [forallb val_ok] in Hv0.
  apply andb_true_iff in Hv0 as [Hv0 _]. apply andb_true_iff in Hv0 as [Hv0 M'].
  apply N.eqb_eq in Hv0. subst v. apply negb_true_iff in M'.
  assert (M : mine s i = true).
  { rewrite <- (other_other s), mine_other, M'. reflexivity. }
  destruct PB as []. destruct PA as [a_incpos a_ks a_kr a_openp a_accp a_lastc a_csent a_conce a_rc
    a_cwlast a_cwsent a_cwonce a_rcw a_pre a_zero a_estr a_ests a_sum].
  rewrite Hv in *. cons_nrm. vsimp.
  destruct (d_accp eq_refl) as (AF & SE & RE).
  destruct (RE _ eq_refl) as (Eest & Erc). cbn in Eest, Erc.
  apply negb_true_iff in AF.
  unfold deliver. rewrite R1, M, G, Eest, Erc. cbn [negb]. rewrite R3.
  eexists; split; [reflexivity|].
  apply (inv_intro _ s); open_pop s; auto.
  - eapply (dir_pop_b i s (ep st s) (ep st (other s)) (wire_to st (other s)) (MAccept i _) t);
      [exact A|reflexivity|reflexivity|cbn; lia| |others_pop i].
    destruct (a_zero _ M eq_refl Eest) as (Z1 & Z2 & Z3 & Z4 & Z5 & Z6 & Z7 & Z8).
    constructor; nrm; vsimp; rewrite ?NO, ?M, ?M' in *; fin2.
    + ks_old a_ks. left; discriminate.
    + rewrite (dataB_zero _ _ Z1), Z6, (incB_zero _ _ Z8). unfold getN. rewrite Z7. lia.
  - eapply (dir_pop_a i); try exact B; auto.
    + pose proof (d_ids _ _ _ _ _ B) as Hid. cbn [ids_ok mid] in Hid. rewrite !andb_true_iff in Hid. tauto.
    + constructor; nrm; vsimp; rewrite ?AF, ?M, ?M' in *; fin2.
    + others_pop i.
  - apply local_put; auto.
    + sl_tac Hx; sl_fin.
    + intros Hin. destruct (l_backlog _ _ C _ Hin) as (x0 & G0 & P0).
      assert (x0 = x) by congruence. subst x0. cbn. exact P0.
Qed.
End G.
