(* Lemmas for C15 about core.ReifyPhantomDirectories (Model/IgnoreDocker.v
   [reify_f]) in its one-endpoint reading (beta = nil). *)
From Coq Require Import List Bool Arith String Ascii Lia.
Import ListNotations.
From Mv Require Import Model.Entry Model.IgnoreScan Model.IgnoreDocker.
From Mv Require Import Proof.EntryFacts Proof.IgnoreScan.
Open Scope list_scope.

(* ---------- list-level views of the nested recursions ---------- *)
Fixpoint live_list (anc : oentry) (l : list (name * entry)) : bool :=
  match l with
  | [] => false
  | (n, x) :: t => live (lookup n (contents anc)) x || live_list anc t
  end.

Fixpoint reify_list (anc : oentry) (l : list (name * entry)) : list (name * entry) :=
  match l with
  | [] => []
  | (n, x) :: t => (n, reify_spec (lookup n (contents anc)) x) :: reify_list anc t
  end.

Fixpoint dir_count_list (l : list (name * entry)) : nat :=
  match l with
  | [] => 0
  | (_, x) :: t => dir_count x + dir_count_list t
  end.

Lemma live_phantom anc c : live anc (EPhantom c) = is_edir anc || live_list anc c.
Proof.
  cbn [live]. f_equal.
  induction c as [|[n x] t IH]; [reflexivity|]. cbn [live_list]. rewrite <- IH. reflexivity.
Qed.

Lemma reify_spec_dir anc c : reify_spec anc (EDir c) = EDir (reify_list anc c).
Proof.
  cbn [reify_spec]. f_equal.
  induction c as [|[n x] t IH]; [reflexivity|]. cbn [reify_list]. rewrite <- IH. reflexivity.
Qed.

Lemma reify_spec_phantom anc c :
  reify_spec anc (EPhantom c)
  = if live anc (EPhantom c) then EDir (reify_list anc c) else EUntracked.
Proof.
  cbn [reify_spec]. destruct (live anc (EPhantom c)); [|reflexivity]. f_equal.
  induction c as [|[n x] t IH]; [reflexivity|]. cbn [reify_list]. rewrite <- IH. reflexivity.
Qed.

Lemma dir_count_dir c : dir_count (EDir c) = S (dir_count_list c).
Proof.
  cbn [dir_count]. f_equal.
  all: induction c as [|[n x] t IH]; [reflexivity|]; cbn [dir_count_list]; rewrite <- IH; reflexivity.
Qed.

Lemma dir_count_phantom c : dir_count (EPhantom c) = dir_count_list c.
Proof.
  cbn [dir_count].
  induction c as [|[n x] t IH]; [reflexivity|]. cbn [dir_count_list]. rewrite <- IH. reflexivity.
Qed.

(* content that is not live yields no directory *)
Lemma not_live_no_dirs anc e : live anc e = false -> dir_count (reify_spec anc e) = 0.
Proof.
  destruct e as [c|x d|t| |msg|c]; try discriminate; try reflexivity.
  intros H. rewrite reify_spec_phantom, H. reflexivity.
Qed.

Lemma not_live_list_no_dirs anc c :
  live_list anc c = false -> dir_count_list (reify_list anc c) = 0.
Proof.
  induction c as [|[n x] t IH]; [reflexivity|]. cbn [live_list reify_list dir_count_list].
  intros H. apply orb_false_elim in H. destruct H as [H1 H2].
  rewrite (not_live_no_dirs _ _ H1), (IH H2). reflexivity.
Qed.

(* ---------- the record reify_f returns, one-sided ---------- *)
Definition one_sided (anc : oentry) (e : entry) : reified :=
  {| r_tracked := live anc e; r_ca := dir_count (reify_spec anc e); r_cb := 0;
     r_a := Some (reify_spec anc e); r_b := None; r_oof := false |}.

(* the per-name results over a sorted contents list *)
Lemma results_sorted (F : oentry -> oentry -> reified) anc c :
  sorted_names (map fst c) = true ->
  map (fun n => (n, F (lookup n (contents anc)) (lookup n c))) (map fst c)
  = map (fun nx => (fst nx, F (lookup (fst nx) (contents anc)) (Some (snd nx)))) c.
Proof.
  intros Hs. rewrite map_map. apply map_ext_in. intros [n x] Hin. cbn [fst snd].
  rewrite (in_lookup_sorted n x c Hs Hin). reflexivity.
Qed.

Section Children.
Variable anc : oentry.
Variable f : nat.
Hypothesis IH : forall anc' e, depth_entry e <= f -> wf_entry false e = true ->
                               reify_f f anc' (Some e) None = one_sided anc' e.

Lemma children_results c :
  depth_list c <= f -> wf_list false c = true ->
  map (fun nx => (fst nx, reify_f f (lookup (fst nx) (contents anc)) (Some (snd nx)) None)) c
  = map (fun nx => (fst nx, one_sided (lookup (fst nx) (contents anc)) (snd nx))) c.
Proof.
  intros Hd Hw. apply map_ext_in. intros [n x] Hin. cbn [fst snd]. f_equal.
  apply IH.
  - pose proof (depth_list_in c n x Hin). lia.
  - unfold wf_list in Hw. rewrite forallb_forall in Hw. specialize (Hw (n, x) Hin).
    cbn [fst snd] in Hw. apply andb_prop in Hw. tauto.
Qed.

Let rs (c : list (name * entry)) : list (name * reified) :=
  map (fun nx => (fst nx, one_sided (lookup (fst nx) (contents anc)) (snd nx))) c.

Lemma rs_below c : existsb (fun nr => r_tracked (snd nr)) (rs c) = live_list anc c.
Proof. induction c as [|[n x] t IHc]; [reflexivity|]. cbn [rs map existsb live_list fst snd one_sided r_tracked] in *. rewrite <- IHc. reflexivity. Qed.

Lemma rs_collect_a c : collect r_a (rs c) = reify_list anc c.
Proof. induction c as [|[n x] t IHc]; [reflexivity|]. unfold collect in *. cbn [rs map flat_map fst snd one_sided r_a reify_list app] in *. rewrite <- IHc. reflexivity. Qed.

Lemma rs_collect_b c : collect r_b (rs c) = [].
Proof. induction c as [|[n x] t IHc]; [reflexivity|]. unfold collect in *. cbn [rs map flat_map fst snd one_sided r_b app] in *. exact IHc. Qed.

Lemma rs_sum_a c : sum_by (fun nr => r_ca (snd nr)) (rs c) = dir_count_list (reify_list anc c).
Proof. induction c as [|[n x] t IHc]; [reflexivity|]. unfold sum_by in *. cbn [rs map fold_right fst snd one_sided r_ca reify_list dir_count_list] in *. rewrite <- IHc. reflexivity. Qed.

Lemma rs_sum_b c : sum_by (fun nr => r_cb (snd nr)) (rs c) = 0.
Proof. induction c as [|[n x] t IHc]; [reflexivity|]. unfold sum_by in *. cbn [rs map fold_right fst snd one_sided r_cb] in *. exact IHc. Qed.

Lemma rs_oof c : existsb (fun nr => r_oof (snd nr)) (rs c) = false.
Proof. induction c as [|[n x] t IHc]; [reflexivity|]. cbn [rs map existsb fst snd one_sided r_oof] in *. exact IHc. Qed.
End Children.

Theorem reify_one_sided :
  forall fuel anc e,
    depth_entry e <= fuel -> wf_entry false e = true ->
    reify_f fuel anc (Some e) None = one_sided anc e.
Proof.
  induction fuel as [|f IH]; intros anc e Hd Hw.
  - pose proof (depth_entry_pos e). lia.
  - destruct e as [c|x d|t| |msg|c]; try reflexivity.
    + (* directory *)
      pose proof (wf_dir_inv false c Hw) as [Hwl Hs].
      rewrite depth_entry_dir in Hd.
      cbn [reify_f is_dirkind negb andb contents lookup].
      rewrite (name_union_nil_r c Hs), (results_sorted (fun a b => reify_f f a b None) anc c Hs).
      rewrite (children_results anc f IH c ltac:(lia) Hwl).
      rewrite rs_below, rs_collect_a, rs_collect_b, rs_sum_a, rs_sum_b, rs_oof.
      unfold one_sided. rewrite reify_spec_dir, dir_count_dir.
      cbn [reify_side is_dirkind is_phantom live].
      destruct (live_list anc c || is_edir anc); cbn [Nat.leb orb];
        rewrite Nat.add_1_r; reflexivity.
    + (* phantom directory *)
      pose proof (wf_phantom_inv false c Hw) as (_ & Hwl & Hs).
      rewrite depth_entry_phantom in Hd.
      cbn [reify_f is_dirkind negb andb contents lookup].
      rewrite (name_union_nil_r c Hs), (results_sorted (fun a b => reify_f f a b None) anc c Hs).
      rewrite (children_results anc f IH c ltac:(lia) Hwl).
      rewrite rs_below, rs_collect_a, rs_collect_b, rs_sum_a, rs_sum_b, rs_oof.
      unfold one_sided. rewrite reify_spec_phantom, live_phantom.
      cbn [reify_side is_dirkind is_phantom].
      rewrite (orb_comm (is_edir anc)).
      destruct (live_list anc c || is_edir anc) eqn:El.
      * rewrite dir_count_dir, Nat.add_1_r. reflexivity.
      * apply orb_false_elim in El. destruct El as [El _].
        rewrite (not_live_list_no_dirs anc c El). reflexivity.
Qed.

Corollary reify_one_sided_top anc e :
  wf_entry false e = true -> reify anc (Some e) None = one_sided anc e.
Proof.
  intros Hw. unfold reify. apply reify_one_sided; [|exact Hw]. cbn [depth]. lia.
Qed.

(* ---------- consequences on the specification side ---------- *)

(* reification keeps every file and link, at the same path *)
Lemma is_leaf_reify anc e : is_leaf e = true -> reify_spec anc e = e.
Proof. destruct e; try discriminate; reflexivity. Qed.

Lemma reify_not_leaf anc e : is_leaf e = false -> is_leaf (reify_spec anc e) = false.
Proof.
  destruct e as [c|x d|t| |msg|c]; try discriminate; try reflexivity; intros _.
  rewrite reify_spec_phantom. destruct (live anc (EPhantom c)); reflexivity.
Qed.

(* a subtree without live content has no files or links *)
Lemma not_live_no_leaves e : forall anc rp, live anc e = false -> leaves_at rp e = [].
Proof.
  revert e. fix IHe 1. intros e anc rp H.
  destruct e as [c|x d|t| |msg|c]; try discriminate; try reflexivity.
  rewrite live_phantom in H. apply orb_false_elim in H. destruct H as [_ H].
  rewrite leaves_at_phantom.
  induction c as [|[n x] t IHc]; [reflexivity|].
  cbn [live_list] in H. apply orb_false_elim in H. destruct H as [Hx Ht].
  rewrite leaves_list_cons, (IHc Ht), (IHe x (lookup n (contents anc)) (n :: rp) Hx).
  assert (Hnl : is_leaf x = false) by (destruct x; try discriminate; reflexivity).
  rewrite Hnl. reflexivity.
Qed.

Lemma reify_list_leaves anc rp c :
  (forall n x, In (n, x) c -> forall anc' rp', leaves_at rp' (reify_spec anc' x) = leaves_at rp' x) ->
  leaves_list rp (reify_list anc c) = leaves_list rp c.
Proof.
  induction c as [|[n x] t IHc]; intros H; [reflexivity|].
  cbn [reify_list]. rewrite !leaves_list_cons, IHc by (intros; eapply H; right; eassumption).
  rewrite (H n x (or_introl eq_refl)). f_equal.
  destruct (is_leaf x) eqn:El.
  - rewrite (is_leaf_reify _ _ El), El. reflexivity.
  - rewrite (reify_not_leaf _ _ El). reflexivity.
Qed.

Theorem reify_keeps_leaves e : forall anc rp, leaves_at rp (reify_spec anc e) = leaves_at rp e.
Proof.
  revert e. fix IHe 1. intros e anc rp.
  destruct e as [c|x d|t| |msg|c]; try reflexivity.
  - rewrite reify_spec_dir, !leaves_at_dir.
    induction c as [|[n x] t IHc]; [reflexivity|].
    cbn [reify_list]. rewrite !leaves_list_cons, IHc, (IHe x). f_equal.
    destruct (is_leaf x) eqn:El.
    + rewrite (is_leaf_reify _ _ El), El. reflexivity.
    + rewrite (reify_not_leaf _ _ El). reflexivity.
  - rewrite reify_spec_phantom. destruct (live anc (EPhantom c)) eqn:Hl.
    + rewrite leaves_at_dir, leaves_at_phantom. clear Hl.
      induction c as [|[n x] t IHc]; [reflexivity|].
      cbn [reify_list]. rewrite !leaves_list_cons, IHc, (IHe x). f_equal.
      destruct (is_leaf x) eqn:El.
      * rewrite (is_leaf_reify _ _ El), El. reflexivity.
      * rewrite (reify_not_leaf _ _ El). reflexivity.
    + rewrite (not_live_no_leaves (EPhantom c) anc rp Hl). reflexivity.
Qed.

(* no phantom directory survives reification *)
Fixpoint phantom_free (e : entry) {struct e} : bool :=
  let fix go (l : list (name * entry)) : bool :=
    match l with
    | [] => true
    | (_, x) :: t => phantom_free x && go t
    end in
  match e with
  | EDir c => go c
  | EPhantom _ => false
  | _ => true
  end.

Theorem reify_phantom_free e : forall anc, phantom_free (reify_spec anc e) = true.
Proof.
  revert e. fix IHe 1. intros e anc.
  assert (Hl : forall c, (fix go (l : list (name * entry)) : bool :=
                            match l with [] => true | (_, x) :: t => phantom_free x && go t end)
                         (reify_list anc c) = true).
  { induction c as [|[n x] t IHc]; [reflexivity|]. cbn [reify_list].
    rewrite (IHe x (lookup n (contents anc))), IHc. reflexivity. }
  destruct e as [c|x d|t| |msg|c]; try reflexivity.
  - rewrite reify_spec_dir. cbn [phantom_free]. apply Hl.
  - rewrite reify_spec_phantom. destruct (live anc (EPhantom c)); [|reflexivity].
    cbn [phantom_free]. apply Hl.
Qed.

(* what "live" means *)
Inductive Live : oentry -> entry -> Prop :=
| Live_file anc x d : Live anc (EFile x d)
| Live_link anc t : Live anc (ELink t)
| Live_problem anc msg : Live anc (EProblem msg)
| Live_dir anc c : Live anc (EDir c)
| Live_was_dir anc c : is_edir anc = true -> Live anc (EPhantom c)
| Live_child anc c n x :
    In (n, x) c -> Live (lookup n (contents anc)) x -> Live anc (EPhantom c).

Lemma live_Live e : forall anc, live anc e = true -> Live anc e.
Proof.
  revert e. fix IHe 1. intros e anc.
  destruct e as [c|x d|t| |msg|c]; try solve [intros _; constructor]; try discriminate.
  rewrite live_phantom. intros H.
  apply orb_prop in H. destruct H as [H|H]; [apply Live_was_dir; exact H|].
  induction c as [|[n x] t IHc]; [discriminate|]. cbn [live_list] in H.
  apply orb_prop in H. destruct H as [H|H].
  - apply (Live_child anc _ n x); [left; reflexivity|]. apply IHe. exact H.
  - specialize (IHc H). inversion IHc as [| | | |anc0 c0 Hd|anc0 c0 n0 x0 Hin Hlv]; subst.
    + apply Live_was_dir. assumption.
    + apply (Live_child anc _ n0 x0); [right; assumption|assumption].
Qed.

Lemma live_list_in anc c n x :
  In (n, x) c -> live (lookup n (contents anc)) x = true -> live_list anc c = true.
Proof.
  induction c as [|[n' x'] t IHc]; intros Hin Hl; [destruct Hin|]. cbn [live_list].
  destruct Hin as [[= -> ->]|Hin]; [rewrite Hl; reflexivity|].
  rewrite (IHc Hin Hl). apply orb_true_r.
Qed.

Lemma Live_live anc e : Live anc e -> live anc e = true.
Proof.
  induction 1 as [| | | |anc c Hd|anc c n x Hin _ IH]; try reflexivity.
  - rewrite live_phantom, Hd. reflexivity.
  - rewrite live_phantom, (live_list_in anc c n x Hin IH). apply orb_true_r.
Qed.

Theorem live_iff e anc : live anc e = true <-> Live anc e.
Proof. split; [apply live_Live|apply Live_live]. Qed.
