(* Proofs about the prompting model (Model/Prompting.v); closes Props/C32.v. *)
From Coq Require Import List Arith Bool Lia.
Require Coq.Strings.String.
From Coq Require Import ZifyBool ZifyNat.
Import ListNotations.
From Mv Require Import Model.Prompting.

(* ------------------------------------------------------------------ *)
(* response mode                                                       *)
(* ------------------------------------------------------------------ *)
Lemma list_eqb_eq a b : list_eqb a b = true <-> a = b.
Proof.
  revert b. induction a as [|x a IH]; intros [|y b]; simpl; split; intros H; try discriminate; auto.
  - apply andb_true_iff in H. destruct H as [H1 H2]. apply Nat.eqb_eq in H1. apply IH in H2. congruence.
  - inversion H; subst. rewrite Nat.eqb_refl. simpl. apply IH. reflexivity.
Qed.

Lemma has_suffix_spec p s : has_suffix p s = true <-> exists pre, p = pre ++ s.
Proof.
  unfold has_suffix. split.
  - intros H. apply andb_true_iff in H. destruct H as [H1 H2]. apply list_eqb_eq in H2.
    exists (firstn (length p - length s) p). rewrite <- H2 at 2. symmetry. apply firstn_skipn.
  - intros [pre ->]. rewrite app_length. apply andb_true_iff. split; [apply Nat.leb_le; lia|].
    replace (length pre + length s - length s) with (length pre) by lia.
    rewrite skipn_app, skipn_all, Nat.sub_diag. simpl. apply list_eqb_eq. reflexivity.
Qed.

Definition echoed (prompt : list nat) : Prop :=
  exists s, In s echo_suffixes /\ exists pre, prompt = pre ++ s.

Lemma existsb_suffix prompt : existsb (has_suffix prompt) echo_suffixes = true <-> echoed prompt.
Proof.
  rewrite existsb_exists. unfold echoed. split; intros (s & Hin & H); exists s; split; auto;
    apply has_suffix_spec; auto.
Qed.

Theorem response_mode_echo_iff prompt :
  (determine_mode prompt = mode_echo <-> echoed prompt) /\
  (determine_mode prompt = mode_echo \/ determine_mode prompt = mode_secret).
Proof.
  unfold determine_mode, determine_mode_with. rewrite <- existsb_suffix.
  destruct (existsb (has_suffix prompt) echo_suffixes); split; auto; split; auto; discriminate.
Qed.

Lemma echo_suffixes_literal :
  echo_suffixes =
  [ [40; 121; 101; 115; 47; 110; 111; 41; 63; 32];
    [40; 121; 101; 115; 47; 110; 111; 41; 58; 32];
    [40; 121; 101; 115; 47; 110; 111; 47; 91; 102; 105; 110; 103; 101; 114; 112; 114; 105; 110; 116;
     93; 41; 63; 32];
    [80; 108; 101; 97; 115; 101; 32; 116; 121; 112; 101; 32; 39; 121; 101; 115; 39; 44; 32; 39; 110;
     111; 39; 32; 111; 114; 32; 116; 104; 101; 32; 102; 105; 110; 103; 101; 114; 112; 114; 105; 110;
     116; 58; 32] ].
Proof. reflexivity. Qed.

Theorem check_echo_sound prompt mode :
  check_C32_echo prompt mode = true -> (mode = mode_echo <-> echoed prompt).
Proof.
  unfold check_C32_echo. intros H. apply eqb_prop in H. rewrite <- existsb_suffix, <- H.
  symmetry. apply Nat.eqb_eq.
Qed.

Theorem check_echo_model prompt : check_C32_echo prompt (determine_mode prompt) = true.
Proof.
  unfold check_C32_echo, determine_mode, determine_mode_with.
  destruct (existsb (has_suffix prompt) echo_suffixes); reflexivity.
Qed.

(* near misses *)
Module EchoExamples.
Import Coq.Strings.String.
Local Open Scope string_scope.
Lemma echo_examples :
  determine_mode (s2l "Are you sure you want to continue connecting (yes/no)? ") = mode_echo /\
  determine_mode (s2l "Are you sure you want to continue connecting (yes/no)?") = mode_secret /\
  determine_mode (s2l "Are you sure you want to continue connecting (YES/NO)? ") = mode_secret /\
  determine_mode (s2l "(yes/no)?  ") = mode_secret /\
  determine_mode (s2l "Please type 'yes', 'no' or the fingerprint: ") = mode_echo /\
  determine_mode (s2l "user@host's password: ") = mode_secret /\
  determine_mode [] = mode_secret.
Proof. vm_compute. repeat split; reflexivity. Qed.
End EchoExamples.

(* ------------------------------------------------------------------ *)
(* the registry: structural invariant                                  *)
(* ------------------------------------------------------------------ *)
Lemma nth_pupd {A} (l : list A) t t' (x y : A) :
  nth_error l t = Some y ->
  nth_error (pupd l t x) t' = if Nat.eqb t' t then Some x else nth_error l t'.
Proof.
  revert t t'. induction l as [|h r IH]; intros t t' H.
  - destruct t; discriminate.
  - destruct t as [|t]; destruct t' as [|t']; simpl in *; try reflexivity. apply IH. exact H.
Qed.

Lemma length_pupd {A} (l : list A) t (x : A) : length (pupd l t x) = length l.
Proof. revert t. induction l; intros [|t]; simpl; auto. Qed.

Lemma nth_pupd_d {A} (l : list A) t t' (x d : A) :
  t < length l -> nth t' (pupd l t x) d = if Nat.eqb t' t then x else nth t' l d.
Proof.
  revert t t'. induction l as [|h r IH]; intros t t' H; simpl in H; [lia|].
  destruct t as [|t]; destruct t' as [|t']; simpl; try reflexivity. apply IH. lia.
Qed.

Definition pc_id (p : ppc) : option nat :=
  match p with
  | PIdle => None
  | GLock i | GIns i | GUnl i | ULock i | UDel i | UUnl i | URecv i | UClose i
  | MLock i | MLook i | MUnl i _ | MRecv i | MInvoke i | MPut i => Some i
  end.
Definition holds (p : ppc) (id : nat) : bool :=
  match p with MInvoke i | MPut i | UClose i => Nat.eqb i id | _ => false end.
Definition upc (p : ppc) (id : nat) : bool :=
  match p with ULock i | UDel i | UUnl i | URecv i | UClose i => Nat.eqb i id | _ => false end.

Record PInv (s : pstate) : Prop := mkPInv {
  pi_one : forall t1 t2 p1 p2 id, nth_error (pthr s) t1 = Some p1 -> nth_error (pthr s) t2 = Some p2 ->
           holds p1 id = true -> holds p2 id = true -> t1 = t2;
  pi_empty : forall t p id, nth_error (pthr s) t = Some p -> holds p id = true ->
             hst (get_slot s id) = HEmpty;
  pi_uone : forall t1 t2 p1 p2 id, nth_error (pthr s) t1 = Some p1 -> nth_error (pthr s) t2 = Some p2 ->
            upc p1 id = true -> upc p2 id = true -> t1 = t2;
  pi_ucalled : forall t p id, nth_error (pthr s) t = Some p -> upc p id = true ->
               ucalled (get_slot s id) = true;
  pi_closed : forall id, hst (get_slot s id) = HClosed ->
              ucalled (get_slot s id) = true /\
              forall t p, nth_error (pthr s) t = Some p -> upc p id = false;
  pi_range : forall t p id, nth_error (pthr s) t = Some p -> pc_id p = Some id ->
             id < length (slots s);
  pi_nopanic : panicked s = false
}.

Lemma pinv_init n k : PInv (pinit n k).
Proof.
  assert (H : forall t p, nth_error (repeat PIdle k) t = Some p -> p = PIdle).
  { intros t p E. apply nth_error_In in E. apply repeat_spec in E. auto. }
  constructor; simpl; auto.
  - intros t1 t2 p1 p2 id E1 _ Hh. apply H in E1. subst. discriminate.
  - intros t p id E Hh. apply H in E. subst. discriminate.
  - intros t1 t2 p1 p2 id E1 _ Hh. apply H in E1. subst. discriminate.
  - intros t p id E Hh. apply H in E. subst. discriminate.
  - intros id E. exfalso. unfold get_slot in E. simpl in E.
    destruct (nth_in_or_default id (repeat slot0 n) slot0) as [Hin|Hd].
    + apply repeat_spec in Hin. rewrite Hin in E. discriminate.
    + rewrite Hd in E. discriminate.
  - intros t p id E Hp. apply H in E. subst. discriminate.
Qed.

Lemma get_set_slot s id x id' :
  id < length (slots s) ->
  get_slot (set_slot s id x) id' = if Nat.eqb id' id then x else get_slot s id'.
Proof. intros H. unfold get_slot, set_slot. simpl. apply nth_pupd_d. exact H. Qed.

Ltac punf := unfold pret, set_pc, set_slot, set_lock, add_plog, set_panic in *.
Ltac pflds := cbn [slots wr rd pthr panicked plog] in *.

(* a step that moves one goroutine and changes no holder state *)
Lemma pinv_frame s t p p' sl' w r pk lg :
  PInv s -> nth_error (pthr s) t = Some p ->
  length sl' = length (slots s) ->
  (forall id, hst (nth id sl' slot0) = hst (get_slot s id)) ->
  (forall id, ucalled (get_slot s id) = true -> ucalled (nth id sl' slot0) = true) ->
  (forall id, holds p' id = true -> holds p id = true) ->
  (forall id, upc p' id = true -> upc p id = true) ->
  (forall id, pc_id p' = Some id -> id < length (slots s)) ->
  pk = panicked s ->
  PInv (mkP sl' w r (pupd (pthr s) t p') pk lg).
Proof.
  intros I Ht Hlen Hh Hu Hho Hup Hr Hpk. subst pk.
  assert (Hn : forall t' q, nth_error (pupd (pthr s) t p') t' = Some q ->
               (t' = t /\ q = p') \/ (t' <> t /\ nth_error (pthr s) t' = Some q)).
  { intros t' q E. rewrite (nth_pupd _ _ _ _ _ Ht) in E.
    destruct (Nat.eqb_spec t' t); [left; inversion E; auto|right; auto]. }
  constructor; pflds; unfold get_slot; pflds.
  - intros t1 t2 p1 p2 id E1 E2 H1 H2.
    destruct (Hn _ _ E1) as [[-> ->]|[N1 E1']]; destruct (Hn _ _ E2) as [[-> ->]|[N2 E2']]; auto.
    + apply (pi_one _ I t t2 p p2 id); auto.
    + apply (pi_one _ I t1 t p1 p id); auto.
    + apply (pi_one _ I t1 t2 p1 p2 id); auto.
  - intros t' q id E H. rewrite Hh.
    destruct (Hn _ _ E) as [[-> ->]|[N1 E']].
    + apply (pi_empty _ I t p id); auto.
    + apply (pi_empty _ I t' q id); auto.
  - intros t1 t2 p1 p2 id E1 E2 H1 H2.
    destruct (Hn _ _ E1) as [[-> ->]|[N1 E1']]; destruct (Hn _ _ E2) as [[-> ->]|[N2 E2']]; auto.
    + apply (pi_uone _ I t t2 p p2 id); auto.
    + apply (pi_uone _ I t1 t p1 p id); auto.
    + apply (pi_uone _ I t1 t2 p1 p2 id); auto.
  - intros t' q id E H. apply Hu.
    destruct (Hn _ _ E) as [[-> ->]|[N1 E']].
    + apply (pi_ucalled _ I t p id); auto.
    + apply (pi_ucalled _ I t' q id); auto.
  - intros id E. rewrite Hh in E. destruct (pi_closed _ I id E) as [A B]. split; [apply Hu; auto|].
    intros t' q E'. destruct (Hn _ _ E') as [[-> ->]|[N1 E'']].
    + destruct (upc p' id) eqn:Eu; auto. specialize (Hup id Eu). rewrite (B t p Ht) in Hup. discriminate.
    + apply (B t' q); auto.
  - intros t' q id E H. rewrite Hlen.
    destruct (Hn _ _ E) as [[-> ->]|[N1 E']].
    + apply Hr; auto.
    + apply (pi_range _ I t' q id); auto.
  - apply I.
Qed.

Lemma pupd_cases s t p p' :
  nth_error (pthr s) t = Some p ->
  forall t' q, nth_error (pupd (pthr s) t p') t' = Some q ->
    (t' = t /\ q = p') \/ (t' <> t /\ nth_error (pthr s) t' = Some q).
Proof.
  intros Ht t' q E. rewrite (nth_pupd _ _ _ _ _ Ht) in E.
  destruct (Nat.eqb_spec t' t); [left; inversion E; auto|right; auto].
Qed.

(* a step that changes the holder state of one identifier *)
Lemma pinv_holder s t p p' id0 x' w r lg :
  PInv s -> nth_error (pthr s) t = Some p ->
  id0 < length (slots s) ->
  (forall id, holds p id = true -> id = id0) ->
  (forall id, holds p' id = true -> id = id0) ->
  (* nobody else holds id0's prompter unless this goroutine passes it on *)
  (holds p' id0 = true -> holds p id0 = false ->
     forall t' q, t' <> t -> nth_error (pthr s) t' = Some q -> holds q id0 = false) ->
  ((holds p' id0 = true \/ (exists t' q, t' <> t /\ nth_error (pthr s) t' = Some q /\ holds q id0 = true))
     -> hst x' = HEmpty) ->
  (forall id, upc p' id = true ->
     upc p id = true \/ (id = id0 /\ ucalled (get_slot s id0) = false /\ ucalled x' = true)) ->
  (ucalled (get_slot s id0) = true -> ucalled x' = true) ->
  (hst x' = HClosed -> ucalled x' = true /\ upc p' id0 = false /\
     forall t' q, t' <> t -> nth_error (pthr s) t' = Some q -> upc q id0 = false) ->
  (forall id, pc_id p' = Some id -> id < length (slots s)) ->
  PInv (mkP (pupd (slots s) id0 x') w r (pupd (pthr s) t p') (panicked s) lg).
Proof.
  intros I Ht Hid Hp Hp' Hex Hem Hup Huc Hcl Hr.
  pose proof (pupd_cases s t p p' Ht) as Hn.
  assert (Hg : forall id, nth id (pupd (slots s) id0 x') slot0 =
                          if Nat.eqb id id0 then x' else get_slot s id).
  { intros id. apply nth_pupd_d. exact Hid. }
  constructor; pflds; unfold get_slot; pflds.
  - intros t1 t2 p1 p2 id E1 E2 H1 H2.
    destruct (Hn _ _ E1) as [[-> ->]|[N1 E1']]; destruct (Hn _ _ E2) as [[-> ->]|[N2 E2']]; auto.
    + pose proof (Hp' _ H1); subst id. destruct (holds p id0) eqn:Eh.
      * apply (pi_one _ I t t2 p p2 id0); auto.
      * rewrite (Hex H1 eq_refl t2 p2 N2 E2') in H2. discriminate.
    + pose proof (Hp' _ H2); subst id. destruct (holds p id0) eqn:Eh.
      * apply (pi_one _ I t1 t p1 p id0); auto.
      * rewrite (Hex H2 eq_refl t1 p1 N1 E1') in H1. discriminate.
    + apply (pi_one _ I t1 t2 p1 p2 id); auto.
  - intros t' q id E H. rewrite Hg. destruct (Nat.eqb_spec id id0) as [->|Hne].
    + apply Hem. destruct (Hn _ _ E) as [[-> ->]|[N1 E']]; [left; auto|right; eauto].
    + destruct (Hn _ _ E) as [[-> ->]|[N1 E']].
      * apply Hp' in H. congruence.
      * apply (pi_empty _ I t' q id); auto.
  - intros t1 t2 p1 p2 id E1 E2 H1 H2.
    destruct (Hn _ _ E1) as [[-> ->]|[N1 E1']]; destruct (Hn _ _ E2) as [[-> ->]|[N2 E2']]; auto.
    + destruct (Hup _ H1) as [Hx|(Hx & Hy & _)].
      * apply (pi_uone _ I t t2 p p2 id); auto.
      * rewrite Hx in *. rewrite (pi_ucalled _ I t2 p2 id0 E2' H2) in Hy. discriminate.
    + destruct (Hup _ H2) as [Hx|(Hx & Hy & _)].
      * apply (pi_uone _ I t1 t p1 p id); auto.
      * rewrite Hx in *. rewrite (pi_ucalled _ I t1 p1 id0 E1' H1) in Hy. discriminate.
    + apply (pi_uone _ I t1 t2 p1 p2 id); auto.
  - intros t' q id E H. rewrite Hg.
    destruct (Hn _ _ E) as [[-> ->]|[N1 E']].
    + destruct (Hup _ H) as [Hx|(Hx & Hy & Hz)].
      * pose proof (pi_ucalled _ I t p id Ht Hx) as Hu.
        destruct (Nat.eqb_spec id id0) as [Heq|Hne]; auto. rewrite Heq in *. auto.
      * rewrite Hx, Nat.eqb_refl. exact Hz.
    + pose proof (pi_ucalled _ I t' q id E' H) as Hu.
      destruct (Nat.eqb_spec id id0) as [Heq|Hne]; auto. rewrite Heq in *. auto.
  - intros id E. rewrite Hg in E |- *. destruct (Nat.eqb_spec id id0) as [Heq|Hne].
    + rewrite Heq in *. destruct (Hcl E) as (A & B & C). split; auto. intros t' q E'.
      destruct (Hn _ _ E') as [[-> ->]|[N1 E'']]; [exact B|apply (C t' q); auto].
    + destruct (pi_closed _ I id E) as [A B]. split; auto. intros t' q E'.
      destruct (Hn _ _ E') as [[-> ->]|[N1 E'']].
      * destruct (upc p' id) eqn:Eu; auto. destruct (Hup id Eu) as [Hx|(Hx & _)]; [|congruence].
        rewrite (B t p Ht) in Hx. discriminate.
      * apply (B t' q); auto.
  - intros t' q id E H. rewrite length_pupd.
    destruct (Hn _ _ E) as [[-> ->]|[N1 E']].
    + apply Hr; auto.
    + apply (pi_range _ I t' q id); auto.
  - apply I.
Qed.

Lemma slot_eta s id : mkSlot (hst (get_slot s id)) (inreg (get_slot s id)) (ucalled (get_slot s id)) = get_slot s id.
Proof. destruct (get_slot s id); reflexivity. Qed.

Ltac frame I Ht :=
  eapply (pinv_frame _ _ _ _ _ _ _ _ _ I Ht);
  [ first [reflexivity | apply length_pupd]
  | | | | | | reflexivity ].

Ltac idr := try (simpl; let E := fresh in intros ? E; inversion E; subst; auto; fail).
Ltac fr I Ht := frame I Ht; auto; try discriminate; idr.

Lemma pstep_inv s a s' : PInv s -> pstep s a = Some s' -> PInv s'.
Proof.
  intros I H. destruct a as [t o|t]; simpl in H.
  - (* API call *)
    destruct (nth_error (pthr s) t) as [p|] eqn:Ht; [|discriminate].
    destruct p; try discriminate. destruct (pcall_ok s o) eqn:Hok; [|discriminate].
    inversion H; subst s'; clear H. unfold pcall. destruct o as [id|id|id]; simpl in Hok; punf; pflds.
    + (* Register *)
      apply andb_true_iff in Hok. destruct Hok as [Hr Hn]. apply Nat.ltb_lt in Hr.
      apply (pinv_holder s t PIdle (GLock id) id); auto; try discriminate.
      * intros [Hx|(t' & q & _ & E & Hh)]; [discriminate|].
        rewrite (pi_empty _ I t' q id E Hh) in Hn. discriminate.
      * simpl. intros id' E. inversion E; subst; auto.
    + (* Unregister *)
      apply andb_true_iff in Hok. destruct Hok as [Hok Hu]. apply andb_true_iff in Hok.
      destruct Hok as [Hr Hin]. apply Nat.ltb_lt in Hr. apply negb_true_iff in Hu.
      apply (pinv_holder s t PIdle (ULock id) id); auto; try discriminate.
      * simpl. intros [Hx|(t' & q & _ & E & Hh)]; [discriminate|].
        apply (pi_empty _ I t' q id E Hh).
      * simpl. intros id' E. apply Nat.eqb_eq in E. subst id'. right. auto.
      * simpl. intros E. destruct (pi_closed _ I id E) as [A _]. congruence.
      * simpl. intros id' E. inversion E; subst; auto.
    + (* Message / Prompt *)
      apply Nat.ltb_lt in Hok. frame I Ht; auto; try discriminate.
      simpl. intros id' E. inversion E; subst; auto.
  - (* a step of goroutine t *)
    destruct (nth_error (pthr s) t) as [p|] eqn:Ht; [|discriminate].
    assert (Hrange : forall id, pc_id p = Some id -> id < length (slots s)).
    { intros id E. apply (pi_range _ I t p id); auto. }
    assert (Hidr : forall id, pc_id p = Some id -> id < length (slots s)) by exact Hrange.
    destruct p; simpl in H; try discriminate; specialize (Hrange _ eq_refl).
    + (* GLock *) destruct (wlock_free s); [|discriminate]. inversion H; subst s'. punf; pflds. fr I Ht.
    + (* GIns *) inversion H; subst s'. punf; pflds. fr I Ht.
      * intros id'. rewrite (nth_pupd_d _ _ _ _ _ Hrange). destruct (Nat.eqb_spec id' id); subst; auto.
      * intros id'. rewrite (nth_pupd_d _ _ _ _ _ Hrange). destruct (Nat.eqb_spec id' id); subst; auto.
    + (* GUnl *) inversion H; subst s'. punf; pflds. fr I Ht.
    + (* ULock *) destruct (wlock_free s); [|discriminate]. inversion H; subst s'. punf; pflds. fr I Ht.
    + (* UDel *) inversion H; subst s'. punf; pflds. fr I Ht.
      * intros id'. rewrite (nth_pupd_d _ _ _ _ _ Hrange). destruct (Nat.eqb_spec id' id); subst; auto.
      * intros id'. rewrite (nth_pupd_d _ _ _ _ _ Hrange). destruct (Nat.eqb_spec id' id); subst; auto.
    + (* UUnl *) inversion H; subst s'. punf; pflds. fr I Ht.
    + (* URecv *)
      destruct (hst (get_slot s id)) eqn:Eh; try discriminate; inversion H; subst s'; punf; pflds.
      * apply (pinv_holder s t (URecv id) (UClose id) id); auto; try discriminate; idr.
        -- simpl. intros id' E. apply Nat.eqb_eq in E. auto.
        -- intros _ _ t' q _ E. destruct (holds q id) eqn:Hh; auto.
           rewrite (pi_empty _ I t' q id E Hh) in Eh. discriminate.
      * exfalso. destruct (pi_closed _ I id Eh) as [_ B]. specialize (B t _ Ht). simpl in B.
        rewrite Nat.eqb_refl in B. discriminate.
    + (* UClose *)
      assert (Hh : holds (UClose id) id = true) by (simpl; apply Nat.eqb_refl).
      assert (Hu : upc (UClose id) id = true) by (simpl; apply Nat.eqb_refl).
      destruct (hst (get_slot s id)) eqn:Eh; inversion H; subst s'; punf; pflds;
        try (rewrite (pi_empty _ I t _ id Ht Hh) in Eh; discriminate).
      apply (pinv_holder s t (UClose id) PIdle id); auto; try discriminate; idr.
      * simpl. intros id' E. apply Nat.eqb_eq in E. auto.
      * simpl. intros [Hx|(t' & q & N & E & Hq)]; [discriminate|].
        exfalso. apply N. apply (pi_one _ I t' t q (UClose id) id); auto.
      * simpl. intros _. split; [apply (pi_ucalled _ I t _ id Ht Hu)|]. split; auto.
        intros t' q N E. destruct (upc q id) eqn:Eq; auto. exfalso. apply N.
        apply (pi_uone _ I t' t q (UClose id) id); auto.
    + (* MLock *) destruct (rlock_free s); [|discriminate]. inversion H; subst s'. punf; pflds. fr I Ht.
    + (* MLook *) inversion H; subst s'. punf; pflds. fr I Ht.
    + (* MUnl *) destruct found; inversion H; subst s'; punf; pflds; fr I Ht.
    + (* MRecv *)
      destruct (hst (get_slot s id)) eqn:Eh; try discriminate; inversion H; subst s'; punf; pflds.
      * apply (pinv_holder s t (MRecv id) (MInvoke id) id); auto; try discriminate; idr.
        -- simpl. intros id' E. apply Nat.eqb_eq in E. auto.
        -- intros _ _ t' q _ E. destruct (holds q id) eqn:Hh; auto.
           rewrite (pi_empty _ I t' q id E Hh) in Eh. discriminate.
      * fr I Ht.
    + (* MInvoke *) inversion H; subst s'. punf; pflds. fr I Ht.
    + (* MPut *)
      assert (Hh : holds (MPut id) id = true) by (simpl; apply Nat.eqb_refl).
      rewrite (pi_empty _ I t _ id Ht Hh) in H. inversion H; subst s'; punf; pflds.
      apply (pinv_holder s t (MPut id) PIdle id); auto; try discriminate; idr.
      * simpl. intros id' E. apply Nat.eqb_eq in E. auto.
      * simpl. intros [Hx|(t' & q & N & E & Hq)]; [discriminate|].
        exfalso. apply N. apply (pi_one _ I t' t q (MPut id) id); auto.
Qed.

Lemma prun_inv acts : forall s s', PInv s -> prun s acts = Some s' -> PInv s'.
Proof.
  induction acts as [|a r IH]; intros s s' I H; simpl in H.
  - inversion H; subst; auto.
  - destruct (pstep s a) eqn:E; [|discriminate]. eapply IH; [|exact H]. eapply pstep_inv; eauto.
Qed.

Definition preachable (n k : nat) (s : pstate) : Prop := exists acts, prun (pinit n k) acts = Some s.

Lemma preachable_inv n k s : preachable n k s -> PInv s.
Proof. intros [acts H]. eapply prun_inv; [apply pinv_init|exact H]. Qed.

(* C32: serialization, no panic *)
Theorem registry_serial n k s :
  preachable n k s ->
  forall t1 t2 id, nth_error (pthr s) t1 = Some (MInvoke id) -> nth_error (pthr s) t2 = Some (MInvoke id) ->
                   t1 = t2.
Proof.
  intros R t1 t2 id E1 E2. apply (pi_one _ (preachable_inv _ _ _ R) t1 t2 _ _ id E1 E2); simpl;
    apply Nat.eqb_refl.
Qed.

Theorem registry_no_panic n k s :
  preachable n k s ->
  panicked s = false /\
  (forall t id, nth_error (pthr s) t = Some (MPut id) -> hst (get_slot s id) = HEmpty) /\
  (forall t id, nth_error (pthr s) t = Some (UClose id) -> hst (get_slot s id) = HEmpty).
Proof.
  intros R. pose proof (preachable_inv _ _ _ R) as I. split; [apply I|]. split; intros t id E.
  - apply (pi_empty _ I t _ id E). simpl. apply Nat.eqb_refl.
  - apply (pi_empty _ I t _ id E). simpl. apply Nat.eqb_refl.
Qed.

Lemma cons_neq {A} (x : A) l : l <> x :: l.
Proof. induction l as [|y l IH]; intros E; [discriminate|]. inversion E; subst. auto. Qed.

(* a closed holder stays closed, and no invocation can begin on it *)
Lemma closed_stays s a s' id :
  PInv s -> pstep s a = Some s' -> hst (get_slot s id) = HClosed ->
  hst (get_slot s' id) = HClosed /\ (forall t, plog s' <> PBegin t id :: plog s).
Proof.
  intros I H Hc. destruct a as [t o|t]; simpl in H.
  - destruct (nth_error (pthr s) t) as [p|] eqn:Ht; [|discriminate].
    destruct p; try discriminate. destruct (pcall_ok s o) eqn:Hok; [|discriminate].
    inversion H; subst s'; clear H. unfold pcall.
    destruct o as [i|i|i]; simpl in Hok; punf; pflds; (split; [|intros t' E; inversion E]);
      unfold get_slot; pflds; auto.
    + apply andb_true_iff in Hok. destruct Hok as [Hr Hn]. apply Nat.ltb_lt in Hr.
      rewrite (nth_pupd_d _ _ _ _ _ Hr). destruct (Nat.eqb_spec id i); [subst|auto].
      unfold get_slot in *. rewrite Hc in Hn. discriminate.
    + apply andb_true_iff in Hok. destruct Hok as [Hok _]. apply andb_true_iff in Hok.
      destruct Hok as [Hr _]. apply Nat.ltb_lt in Hr.
      rewrite (nth_pupd_d _ _ _ _ _ Hr). destruct (Nat.eqb_spec id i); [subst|auto]. exact Hc.
  - destruct (nth_error (pthr s) t) as [p|] eqn:Ht; [|discriminate].
    assert (Hrange : forall i, pc_id p = Some i -> i < length (slots s)).
    { intros i E. apply (pi_range _ I t p i); auto. }
    destruct p; simpl in H; try discriminate; specialize (Hrange _ eq_refl);
      repeat match type of H with
             | (if ?b then _ else _) = _ => destruct b eqn:?
             | match ?x with _ => _ end = _ => destruct x eqn:?
             end; try discriminate; inversion H; subst s'; clear H; punf; pflds;
      (split; [|intros t' E; first [exact (cons_neq _ _ E)|inversion E; subst; congruence]]); unfold get_slot in *; pflds; auto;
      rewrite (nth_pupd_d _ _ _ _ _ Hrange); destruct (Nat.eqb_spec id id0); subst; auto; congruence.
Qed.

(* ------------------------------------------------------------------ *)
(* the monitor accepts every history of the registry model             *)
(* ------------------------------------------------------------------ *)
Lemma alookup_cons_same {A} (l : list (nat * A)) k v : alookup ((k, v) :: l) k = Some v.
Proof. simpl. rewrite Nat.eqb_refl. reflexivity. Qed.
Lemma alookup_cons_other {A} (l : list (nat * A)) k k' v : k' <> k -> alookup ((k, v) :: l) k' = alookup l k'.
Proof. intros H. simpl. destruct (Nat.eqb_spec k k'); [congruence|reflexivity]. Qed.
Lemma alookup_remove_same {A} (l : list (nat * A)) k : alookup (aremove l k) k = None.
Proof.
  induction l as [|[k' v] l IH]; simpl; auto. destruct (Nat.eqb k' k) eqn:E; simpl; auto. rewrite E. auto.
Qed.
Lemma alookup_remove_other {A} (l : list (nat * A)) k k' : k' <> k -> alookup (aremove l k) k' = alookup l k'.
Proof.
  intros H. induction l as [|[k0 v] l IH]; simpl; auto. destruct (Nat.eqb_spec k0 k); simpl.
  - subst. destruct (Nat.eqb_spec k k'); [congruence|auto].
  - rewrite IH. reflexivity.
Qed.

Definition pcall_of (p : option ppc) : option (nat * bool) :=
  match p with
  | Some (MLock id) | Some (MLook id) | Some (MUnl id _) | Some (MRecv id) => Some (id, false)
  | Some (MInvoke id) | Some (MPut id) => Some (id, true)
  | _ => None
  end.

Record PSim (s : pstate) (m : pmon) : Prop := mkPSim {
  ps_inprog : forall id t, alookup (inprog m) id = Some t <-> nth_error (pthr s) t = Some (MInvoke id);
  ps_undone : forall id, memb (undone m) id = true -> hst (get_slot s id) = HClosed;
  ps_calls : forall t, alookup (pcalls m) t = pcall_of (nth_error (pthr s) t)
}.

Lemma psim_init n k : PSim (pinit n k) pm0.
Proof.
  assert (H : forall t p, nth_error (repeat PIdle k) t = Some p -> p = PIdle).
  { intros t p E. apply nth_error_In in E. apply repeat_spec in E. auto. }
  constructor; simpl.
  - intros id t. split; [discriminate|]. intros E. apply H in E. discriminate.
  - discriminate.
  - intros t. destruct (nth_error (repeat PIdle k) t) eqn:E; auto. apply H in E. subst. reflexivity.
Qed.

(* moving goroutine t between two pcs that are invisible to the monitor *)
Lemma psim_quiet s m t p p' sl' w r pk lg :
  PSim s m -> nth_error (pthr s) t = Some p ->
  pcall_of (Some p') = pcall_of (Some p) ->
  (forall id, p' = MInvoke id <-> p = MInvoke id) ->
  (forall id, hst (get_slot s id) = HClosed -> hst (nth id sl' slot0) = HClosed) ->
  PSim (mkP sl' w r (pupd (pthr s) t p') pk lg) m.
Proof.
  intros S Ht Hc Hi Hh. constructor; pflds; unfold get_slot; pflds.
  - intros id t'. rewrite (nth_pupd _ _ _ _ _ Ht). destruct (Nat.eqb_spec t' t) as [->|N].
    + rewrite (ps_inprog _ _ S id t), Ht. split; intros E; inversion E.
      * f_equal. apply Hi. auto.
      * f_equal. apply Hi. auto.
    + apply (ps_inprog _ _ S).
  - intros id E. apply Hh. apply (ps_undone _ _ S). exact E.
  - intros t'. rewrite (nth_pupd _ _ _ _ _ Ht). destruct (Nat.eqb_spec t' t) as [->|N].
    + rewrite (ps_calls _ _ S t), Ht. auto.
    + apply (ps_calls _ _ S).
Qed.

Lemma psim_invoke_ret s m t p id inv r sl' w rr pk lg :
  PSim s m -> nth_error (pthr s) t = Some p ->
  pcall_of (Some p) = Some (id, inv) -> (forall i, p <> MInvoke i) ->
  inv = (match r with ROk => true | _ => false end) ->
  (forall i, hst (get_slot s i) = HClosed -> hst (nth i sl' slot0) = HClosed) ->
  exists m', pmon_event m (PRet t (OInvoke id) r) = POk m' /\
             PSim (mkP sl' w rr (pupd (pthr s) t PIdle) pk lg) m'.
Proof.
  intros SM Ht Hc Hn Hi Hh. pose proof (ps_calls _ _ SM t) as Hc'. rewrite Ht, Hc in Hc'.
  assert (Hip : match alookup (inprog m) id with Some t' => Nat.eqb t' t | None => false end = false).
  { destruct (alookup (inprog m) id) as [t'|] eqn:E; auto. destruct (Nat.eqb_spec t' t); auto. subst t'.
    apply (ps_inprog _ _ SM) in E. rewrite Ht in E. inversion E. exfalso. eapply Hn; eauto. }
  eexists. split.
  - simpl. rewrite Hc', Nat.eqb_refl, Hip. simpl. subst inv. rewrite eqb_reflx. reflexivity.
  - constructor; pflds; unfold get_slot; pflds.
    + intros id' t'. simpl inprog. rewrite (nth_pupd _ _ _ _ _ Ht). destruct (Nat.eqb_spec t' t) as [->|N].
      * rewrite (ps_inprog _ _ SM id' t), Ht. split; intros E; inversion E. exfalso. eapply Hn; eauto.
      * apply (ps_inprog _ _ SM).
    + intros i E. apply Hh. apply (ps_undone _ _ SM). exact E.
    + intros t'. simpl pcalls. rewrite (nth_pupd _ _ _ _ _ Ht). destruct (Nat.eqb_spec t' t) as [->|N].
      * rewrite alookup_remove_same. reflexivity.
      * rewrite alookup_remove_other by auto. apply (ps_calls _ _ SM).
Qed.

Lemma psim_step s a s' m :
  PInv s -> PSim s m -> pstep s a = Some s' ->
  (plog s' = plog s /\ PSim s' m) \/
  (exists e m', plog s' = e :: plog s /\ pmon_event m e = POk m' /\ PSim s' m').
Proof.
  intros I SM H.
  assert (Hcl : forall id, hst (get_slot s id) = HClosed -> hst (get_slot s' id) = HClosed).
  { intros id E. apply (closed_stays _ _ _ _ I H E). }
  destruct a as [t o|t]; simpl in H.
  - destruct (nth_error (pthr s) t) as [p|] eqn:Ht; [|discriminate].
    destruct p; try discriminate. destruct (pcall_ok s o) eqn:Hok; [|discriminate].
    inversion H; subst s'; clear H. right. unfold pcall in *.
    destruct o as [id|id|id]; punf; pflds.
    + exists (PCall t (ORegister id)), m. split; [reflexivity|]. split; [reflexivity|].
      eapply psim_quiet; eauto. intros id'; split; discriminate.
    + exists (PCall t (OUnregister id)), m. split; [reflexivity|]. split; [reflexivity|].
      eapply psim_quiet; eauto. intros id'; split; discriminate.
    + pose proof (ps_calls _ _ SM t) as Hc. rewrite Ht in Hc. simpl in Hc.
      exists (PCall t (OInvoke id)). eexists. split; [reflexivity|]. split; [simpl; rewrite Hc; reflexivity|].
      constructor; pflds.
      * intros id' t'. simpl. rewrite (nth_pupd _ _ _ _ _ Ht). destruct (Nat.eqb_spec t' t) as [->|N].
        -- rewrite (ps_inprog _ _ SM id' t), Ht. split; discriminate.
        -- apply (ps_inprog _ _ SM).
      * intros id' E. apply (ps_undone _ _ SM). exact E.
      * intros t'. simpl pcalls. rewrite (nth_pupd _ _ _ _ _ Ht). destruct (Nat.eqb_spec t' t) as [->|N].
        -- rewrite alookup_cons_same. reflexivity.
        -- rewrite alookup_cons_other by auto. apply (ps_calls _ _ SM).
  - destruct (nth_error (pthr s) t) as [p|] eqn:Ht; [|discriminate].
    pose proof (ps_calls _ _ SM t) as Hc. rewrite Ht in Hc.
    destruct p; simpl in H; try discriminate; simpl in Hc.
    + (* GLock *) destruct (wlock_free s); [|discriminate]. inversion H; subst s'. punf; pflds.
      left. split; [reflexivity|]. eapply psim_quiet; eauto. intros id'; split; discriminate.
    + (* GIns *) inversion H; subst s'. punf; pflds.
      left. split; [reflexivity|]. eapply psim_quiet; eauto. intros id'; split; discriminate.
    + (* GUnl *) inversion H; subst s'. punf; pflds. right.
      exists (PRet t (ORegister id) ROk), m. split; [reflexivity|]. split; [reflexivity|].
      eapply psim_quiet; eauto. intros id'; split; discriminate.
    + (* ULock *) destruct (wlock_free s); [|discriminate]. inversion H; subst s'. punf; pflds.
      left. split; [reflexivity|]. eapply psim_quiet; eauto. intros id'; split; discriminate.
    + (* UDel *) inversion H; subst s'. punf; pflds.
      left. split; [reflexivity|]. eapply psim_quiet; eauto. intros id'; split; discriminate.
    + (* UUnl *) inversion H; subst s'. punf; pflds.
      left. split; [reflexivity|]. eapply psim_quiet; eauto. intros id'; split; discriminate.
    + (* URecv *)
      destruct (hst (get_slot s id)) eqn:Eh; try discriminate; inversion H; subst s'; punf; pflds;
        left; (split; [reflexivity|]); eapply psim_quiet; eauto; intros id'; split; discriminate.
    + (* UClose *)
      assert (Hh : holds (UClose id) id = true) by (simpl; apply Nat.eqb_refl).
      pose proof (pi_empty _ I t _ id Ht Hh) as Eh. rewrite Eh in H. inversion H; subst s'; punf; pflds.
      assert (Hip : alookup (inprog m) id = None).
      { destruct (alookup (inprog m) id) as [t'|] eqn:E; auto. apply (ps_inprog _ _ SM) in E.
        assert (t' = t) by (apply (pi_one _ I t' t _ _ id E Ht); auto; simpl; apply Nat.eqb_refl).
        subst t'. rewrite Ht in E. discriminate. }
      right. exists (PRet t (OUnregister id) ROk). eexists. split; [reflexivity|].
      split; [simpl; rewrite Hip; reflexivity|].
      assert (Hr : id < length (slots s)) by (apply (pi_range _ I t _ id Ht); reflexivity).
      constructor; pflds.
      * intros id' t'. simpl inprog. rewrite (nth_pupd _ _ _ _ _ Ht).
        destruct (Nat.eqb_spec t' t) as [->|N];
          [rewrite (ps_inprog _ _ SM id' t), Ht; split; discriminate|apply (ps_inprog _ _ SM)].
      * intros id' E. simpl in E. unfold get_slot; pflds. rewrite (nth_pupd_d _ _ _ _ _ Hr).
        destruct (Nat.eqb_spec id id') as [->|N]; [rewrite Nat.eqb_refl; reflexivity|].
        destruct (Nat.eqb_spec id' id); [congruence|]. simpl in E. apply (ps_undone _ _ SM). exact E.
      * intros t'. simpl pcalls. rewrite (nth_pupd _ _ _ _ _ Ht).
        destruct (Nat.eqb_spec t' t) as [->|N]; [exact Hc|apply (ps_calls _ _ SM)].
    + (* MLock *) destruct (rlock_free s); [|discriminate]. inversion H; subst s'. punf; pflds.
      left. split; [reflexivity|]. eapply psim_quiet; eauto. intros id'; split; discriminate.
    + (* MLook *) inversion H; subst s'. punf; pflds.
      left. split; [reflexivity|]. eapply psim_quiet; eauto. intros id'; split; discriminate.
    + (* MUnl *) destruct found; inversion H; subst s'; punf; pflds.
      * left. split; [reflexivity|]. eapply psim_quiet; eauto. intros id'; split; discriminate.
      * right. exists (PRet t (OInvoke id) RNotFound).
        destruct (psim_invoke_ret s m t _ id false RNotFound (slots s) None (Nat.pred (rd s)) (panicked s)
                    (PRet t (OInvoke id) RNotFound :: plog s) SM Ht eq_refl) as (m' & E1 & E2);
          auto; try discriminate. exists m'. auto.
    + (* MRecv *)
      destruct (hst (get_slot s id)) eqn:Eh; try discriminate; inversion H; subst s'; punf; pflds.
      * (* the prompter is taken: the invocation begins *)
        right. exists (PBegin t id).
        assert (Hr : id < length (slots s)) by (apply (pi_range _ I t _ id Ht); reflexivity).
        assert (Hip : alookup (inprog m) id = None).
        { destruct (alookup (inprog m) id) as [t'|] eqn:E; auto. apply (ps_inprog _ _ SM) in E.
          rewrite (pi_empty _ I t' _ id E) in Eh; [discriminate|]. simpl. apply Nat.eqb_refl. }
        assert (Hun : memb (undone m) id = false).
        { destruct (memb (undone m) id) eqn:E; auto. rewrite (ps_undone _ _ SM id E) in Eh. discriminate. }
        eexists. split; [reflexivity|]. split.
        { simpl. rewrite Hip, Hun, Hc, Nat.eqb_refl. reflexivity. }
        constructor; pflds.
        -- intros id' t'. simpl inprog. rewrite (nth_pupd _ _ _ _ _ Ht).
           destruct (Nat.eqb_spec id id') as [->|Ni].
           ++ rewrite alookup_cons_same. destruct (Nat.eqb_spec t' t) as [->|N].
              ** split; auto.
              ** split; intros E; [inversion E; congruence|].
                 exfalso. rewrite (pi_empty _ I t' _ id' E) in Eh; [discriminate|]. simpl. apply Nat.eqb_refl.
           ++ rewrite alookup_cons_other by auto. destruct (Nat.eqb_spec t' t) as [->|N].
              ** rewrite (ps_inprog _ _ SM id' t), Ht. split; intros E; inversion E; congruence.
              ** apply (ps_inprog _ _ SM).
        -- intros id' E. simpl in E. apply Hcl. apply (ps_undone _ _ SM). exact E.
        -- intros t'. simpl pcalls. rewrite (nth_pupd _ _ _ _ _ Ht). destruct (Nat.eqb_spec t' t) as [->|N].
           ++ rewrite alookup_cons_same. reflexivity.
           ++ rewrite alookup_cons_other by auto. rewrite alookup_remove_other by auto. apply (ps_calls _ _ SM).
      * (* the holder is closed *)
        right. exists (PRet t (OInvoke id) RClosed).
        destruct (psim_invoke_ret s m t _ id false RClosed (slots s) (wr s) (rd s) (panicked s)
                    (PRet t (OInvoke id) RClosed :: plog s) SM Ht eq_refl) as (m' & E1 & E2);
          auto; try discriminate. exists m'. auto.
    + (* MInvoke: the invocation ends *)
      inversion H; subst s'; punf; pflds. right. exists (PEnd t id).
      assert (Hip : alookup (inprog m) id = Some t) by (apply (ps_inprog _ _ SM); exact Ht).
      eexists. split; [reflexivity|]. split; [simpl; rewrite Hip, Nat.eqb_refl; reflexivity|].
      constructor; pflds.
      * intros id' t'. simpl inprog. rewrite (nth_pupd _ _ _ _ _ Ht).
        destruct (Nat.eqb_spec id' id) as [->|Ni].
        -- rewrite alookup_remove_same. destruct (Nat.eqb_spec t' t) as [->|N]; [split; discriminate|].
           split; [discriminate|]. intros E. exfalso. apply N.
           apply (pi_one _ I t' t _ _ id E Ht); simpl; apply Nat.eqb_refl.
        -- rewrite alookup_remove_other by auto. destruct (Nat.eqb_spec t' t) as [->|N].
           ++ rewrite (ps_inprog _ _ SM id' t), Ht. split; intros E; inversion E; congruence.
           ++ apply (ps_inprog _ _ SM).
      * intros id' E. apply (ps_undone _ _ SM). exact E.
      * intros t'. simpl pcalls. rewrite (nth_pupd _ _ _ _ _ Ht). destruct (Nat.eqb_spec t' t) as [->|N].
        -- exact Hc.
        -- apply (ps_calls _ _ SM).
    + (* MPut *)
      assert (Hh : holds (MPut id) id = true) by (simpl; apply Nat.eqb_refl).
      rewrite (pi_empty _ I t _ id Ht Hh) in H. inversion H; subst s'; punf; pflds.
      right. exists (PRet t (OInvoke id) ROk).
      destruct (psim_invoke_ret s m t _ id true ROk
                  (pupd (slots s) id (mkSlot HToken (inreg (get_slot s id)) (ucalled (get_slot s id))))
                  (wr s) (rd s) (panicked s)
                  (PRet t (OInvoke id) ROk :: plog s) SM Ht eq_refl) as (m' & E1 & E2);
        auto; try discriminate. exists m'. auto.
Qed.

Lemma pmon_run_snoc l e : pmon_run (l ++ [e]) = pmon_step (pmon_run l) e.
Proof. unfold pmon_run. rewrite fold_left_app. reflexivity. Qed.

Lemma psim_run acts : forall s m s',
  PInv s -> PSim s m -> pmon_run (phistory s) = POk m -> prun s acts = Some s' ->
  exists m', pmon_run (phistory s') = POk m' /\ PSim s' m'.
Proof.
  induction acts as [|a r IH]; intros s m s' I SM Hm H; simpl in H.
  - inversion H; subst. eauto.
  - destruct (pstep s a) as [s1|] eqn:E; [|discriminate].
    pose proof (pstep_inv _ _ _ I E) as I1.
    destruct (psim_step _ _ _ _ I SM E) as [[El S1]|(e & m1 & El & He & S1)].
    + eapply IH; eauto. unfold phistory. rewrite El. exact Hm.
    + eapply IH; eauto. unfold phistory. rewrite El. simpl. rewrite pmon_run_snoc.
      unfold phistory in Hm. rewrite Hm. exact He.
Qed.

Theorem registry_histories_accepted n k acts s :
  prun (pinit n k) acts = Some s -> check_C32_trace (phistory s) = true.
Proof.
  intros H. unfold check_C32_trace.
  destruct (psim_run acts (pinit n k) pm0 s (pinv_init n k) (psim_init n k) eq_refl H) as (m' & Hm & _).
  rewrite Hm. reflexivity.
Qed.

(* ------------------------------------------------------------------ *)
(* soundness of the monitor                                            *)
(* ------------------------------------------------------------------ *)
Definition pmon_from (m : pmon) (evs : list pevent) : pres := fold_left pmon_step evs (POk m).

Lemma pfold_err l k : fold_left pmon_step l (PErr k) = PErr k.
Proof. induction l; simpl; auto. Qed.

Lemma pmon_from_app m A B m' :
  pmon_from m (A ++ B) = POk m' -> exists m1, pmon_from m A = POk m1 /\ pmon_from m1 B = POk m'.
Proof.
  unfold pmon_from. rewrite fold_left_app. intros H.
  destruct (fold_left pmon_step A (POk m)) as [m1|k] eqn:E.
  - exists m1. auto.
  - rewrite pfold_err in H. discriminate.
Qed.

Lemma pmon_from_cons m e B m' :
  pmon_from m (e :: B) = POk m' -> exists m1, pmon_event m e = POk m1 /\ pmon_from m1 B = POk m'.
Proof.
  unfold pmon_from. simpl. intros H. destruct (pmon_event m e) as [m1|k] eqn:E.
  - exists m1. auto.
  - rewrite pfold_err in H. discriminate.
Qed.

Ltac pmon_cases H :=
  unfold pmon_event in H;
  repeat match type of H with
         | (if ?b then _ else _) = _ => destruct b eqn:?
         | match ?x with _ => _ end = _ => destruct x eqn:?
         end; try discriminate; inversion H; clear H.

Definition is_end_of (id : nat) (e : pevent) : bool :=
  match e with PEnd _ i => Nat.eqb i id | _ => false end.
Definition is_begin_of (id : nat) (e : pevent) : bool :=
  match e with PBegin _ i => Nat.eqb i id | _ => false end.

Lemma pmon_event_undone m e m' id :
  pmon_event m e = POk m' -> memb (undone m) id = true -> memb (undone m') id = true.
Proof.
  intros H Hu. destruct e; pmon_cases H; subst; simpl; auto. rewrite Hu. apply orb_true_r.
Qed.

Lemma pmon_event_begin m t id m' :
  pmon_event m (PBegin t id) = POk m' -> memb (undone m) id = false /\ alookup (inprog m) id = None.
Proof. intros H. pmon_cases H. auto. Qed.

Lemma pmon_event_inprog m e m' id t :
  pmon_event m e = POk m' -> alookup (inprog m) id = Some t -> is_end_of id e = false ->
  alookup (inprog m') id = Some t.
Proof.
  intros H Hi He. destruct e; pmon_cases H; subst; simpl in *; auto.
  - destruct (Nat.eqb_spec id0 id); [subst; congruence|]. destruct (Nat.eqb_spec id0 id); [congruence|auto].
  - rewrite alookup_remove_other; auto. intros E. subst. rewrite Nat.eqb_refl in He. discriminate.
Qed.

Lemma pmon_from_undone B : forall m m' id,
  pmon_from m B = POk m' -> memb (undone m) id = true -> memb (undone m') id = true.
Proof.
  induction B as [|e B IH]; intros m m' id H Hu.
  - unfold pmon_from in H. simpl in H. inversion H; subst; auto.
  - apply pmon_from_cons in H. destruct H as (m1 & He & H). eapply IH; eauto.
    eapply pmon_event_undone; eauto.
Qed.

Lemma pmon_from_inprog B : forall m m' id t,
  pmon_from m B = POk m' -> alookup (inprog m) id = Some t -> existsb (is_end_of id) B = false ->
  alookup (inprog m') id = Some t.
Proof.
  induction B as [|e B IH]; intros m m' id t H Hi Hn.
  - unfold pmon_from in H. simpl in H. inversion H; subst; auto.
  - simpl in Hn. apply orb_false_iff in Hn. destruct Hn as [Hn1 Hn2].
    apply pmon_from_cons in H. destruct H as (m1 & He & H). eapply IH; eauto.
    eapply pmon_event_inprog; eauto.
Qed.

(* a prompter is never invoked concurrently with itself: between two
   beginnings of invocations of the same prompter lies the end of the first *)
Definition hist_serial (evs : list pevent) : Prop :=
  forall A t id B t' C, evs = A ++ PBegin t id :: B ++ PBegin t' id :: C ->
    existsb (is_end_of id) B = true.
(* ... and never after its unregistration has returned *)
Definition hist_after_unregister (evs : list pevent) : Prop :=
  forall A u r id B, evs = A ++ PRet u (OUnregister id) r :: B ->
    existsb (is_begin_of id) B = false.

(* ... and no invocation is still in progress when its unregistration returns *)
Definition hist_ends_at_unregister (evs : list pevent) : Prop :=
  forall A t id B u r C, evs = A ++ PBegin t id :: B ++ PRet u (OUnregister id) r :: C ->
    existsb (is_end_of id) B = true.

Lemma pmon_event_unreg m u id r m' :
  pmon_event m (PRet u (OUnregister id) r) = POk m' -> alookup (inprog m) id = None.
Proof. intros H. pmon_cases H. auto. Qed.

Theorem check_trace_sound evs :
  check_C32_trace evs = true ->
  hist_serial evs /\ hist_after_unregister evs /\ hist_ends_at_unregister evs.
Proof.
  unfold check_C32_trace, pmon_run. intros H.
  destruct (fold_left pmon_step evs (POk pm0)) as [mf|] eqn:E; [|discriminate]. clear H.
  change (pmon_from pm0 evs = POk mf) in E. split; [|split].
  3:{ intros A t id B u r C EQ. subst evs.
    apply pmon_from_app in E. destruct E as (m1 & _ & E).
    apply pmon_from_cons in E. destruct E as (m2 & Hb & E).
    apply pmon_from_app in E. destruct E as (m3 & HB & E).
    apply pmon_from_cons in E. destruct E as (m4 & Hb' & _).
    destruct (existsb (is_end_of id) B) eqn:Ee; auto. exfalso.
    assert (Hi : alookup (inprog m2) id = Some t).
    { pmon_cases Hb. subst. simpl. rewrite Nat.eqb_refl. reflexivity. }
    pose proof (pmon_from_inprog _ _ _ _ _ HB Hi Ee) as Hi3.
    pose proof (pmon_event_unreg _ _ _ _ _ Hb') as Hn. congruence. }
  - intros A t id B t' C EQ. subst evs.
    apply pmon_from_app in E. destruct E as (m1 & _ & E).
    apply pmon_from_cons in E. destruct E as (m2 & Hb & E).
    apply pmon_from_app in E. destruct E as (m3 & HB & E).
    apply pmon_from_cons in E. destruct E as (m4 & Hb' & _).
    destruct (existsb (is_end_of id) B) eqn:Ee; auto. exfalso.
    assert (Hi : alookup (inprog m2) id = Some t).
    { pmon_cases Hb. subst. simpl. rewrite Nat.eqb_refl. reflexivity. }
    pose proof (pmon_from_inprog _ _ _ _ _ HB Hi Ee) as Hi3.
    destruct (pmon_event_begin _ _ _ _ Hb') as [_ Hn]. congruence.
  - intros A u r id B EQ. subst evs.
    apply pmon_from_app in E. destruct E as (m1 & _ & E).
    apply pmon_from_cons in E. destruct E as (m2 & Hr & E).
    assert (Hu : memb (undone m2) id = true).
    { pmon_cases Hr. subst. simpl. rewrite Nat.eqb_refl. reflexivity. }
    clear Hr. revert m2 E Hu. induction B as [|e B IH]; intros m2 E Hu; [reflexivity|].
    apply pmon_from_cons in E. destruct E as (m3 & He & E). simpl.
    rewrite (IH m3 E (pmon_event_undone _ _ _ _ He Hu)), orb_false_r.
    destruct e; simpl; auto. destruct (Nat.eqb_spec id0 id); auto. subst.
    destruct (pmon_event_begin _ _ _ _ He) as [Hn _]. congruence.
Qed.

Theorem registry_histories_hold n k acts s :
  prun (pinit n k) acts = Some s ->
  hist_serial (phistory s) /\ hist_after_unregister (phistory s) /\
  hist_ends_at_unregister (phistory s).
Proof. intros H. apply check_trace_sound. eapply registry_histories_accepted. exact H. Qed.

(* non-vacuity *)
Definition registry_example : list paction :=
  [ PACall 0 (ORegister 0); PAStep 0; PAStep 0; PAStep 0;
    PACall 1 (OInvoke 0); PAStep 1; PAStep 1; PAStep 1; PAStep 1;          (* invocation begins *)
    PACall 2 (OInvoke 0); PAStep 2; PAStep 2; PAStep 2;                     (* waits for the prompter *)
    PACall 0 (OUnregister 0); PAStep 0; PAStep 0; PAStep 0;                 (* waits for the prompter *)
    PAStep 1; PAStep 1;                                                     (* ends, puts it back *)
    PAStep 0; PAStep 0;                                                     (* unregister takes and closes *)
    PAStep 2 ].                                                             (* "unable to acquire prompter" *)

Lemma registry_example_run :
  exists s, prun (pinit 1 3) registry_example = Some s /\
    phistory s = [ PCall 0 (ORegister 0); PRet 0 (ORegister 0) ROk; PCall 1 (OInvoke 0); PBegin 1 0;
                   PCall 2 (OInvoke 0); PCall 0 (OUnregister 0); PEnd 1 0; PRet 1 (OInvoke 0) ROk;
                   PRet 0 (OUnregister 0) ROk; PRet 2 (OInvoke 0) RClosed ] /\
    hst (get_slot s 0) = HClosed /\ panicked s = false /\ check_C32_trace (phistory s) = true.
Proof. eexists. vm_compute. repeat split; reflexivity. Qed.

Lemma registry_example_rejects :
  check_C32_trace_code [PCall 1 (OInvoke 0); PCall 2 (OInvoke 0); PBegin 1 0; PBegin 2 0] = 2 /\
  check_C32_trace_code [PCall 1 (OInvoke 0); PRet 0 (OUnregister 0) ROk; PBegin 1 0] = 2 /\
  check_C32_trace_code [PCall 1 (OInvoke 0); PBegin 1 0; PRet 0 (OUnregister 0) ROk] = 2 /\
  check_C32_trace_code [PCall 1 (OInvoke 0); PRet 1 (OInvoke 0) ROk] = 1.
Proof. vm_compute. repeat split; reflexivity. Qed.
