(* General facts on the shape of reconcile's output (used by C06 and C03):
   paths and prefixes, entries along a path, and the decomposition of the
   plan into the outputs of the disagreement handlers at the paths where the
   recursion stops. *)
From Coq Require Import List Bool Arith String Lia Permutation.
Import ListNotations.
From Mv Require Import Model.Entry Model.Reconcile Model.CheckC06 Proof.EntryFacts.

(* ================================================================== *)
(* 1. Prefixes                                                         *)
(* ================================================================== *)

Lemma is_prefix_spec : forall p q, is_prefix p q = true <-> prefix p q.
Proof.
  induction p as [|x p IH]; intros q; split.
  - intros _. exists q. reflexivity.
  - intros _. reflexivity.
  - destruct q as [|y q]; cbn [is_prefix]; [discriminate|].
    intros H. apply andb_true_iff in H as [H1 H2]. apply str_eqb_eq in H1. subst y.
    apply IH in H2 as [s ->]. exists s. reflexivity.
  - intros [s ->]. cbn [is_prefix app]. rewrite str_eqb_refl. cbn [andb].
    apply IH. exists s. reflexivity.
Qed.

Lemma is_prefix_false : forall p q, is_prefix p q = false <-> ~ prefix p q.
Proof.
  intros p q. rewrite <- is_prefix_spec. destruct (is_prefix p q); split; intros H.
  - discriminate.
  - exfalso. apply H. reflexivity.
  - intros H'. discriminate.
  - reflexivity.
Qed.

Lemma prefix_refl : forall p, prefix p p.
Proof. intros p. exists []. rewrite app_nil_r. reflexivity. Qed.

Lemma prefix_app : forall p s, prefix p (p ++ s)%list.
Proof. intros p s. exists s. reflexivity. Qed.

Lemma prefix_trans : forall p q r, prefix p q -> prefix q r -> prefix p r.
Proof. intros p q r [s ->] [t ->]. exists (s ++ t)%list. rewrite app_assoc. reflexivity. Qed.

Lemma prefix_app_inv : forall p s t, prefix (p ++ s)%list (p ++ t)%list <-> prefix s t.
Proof.
  intros p s t. split.
  - intros [u H]. rewrite <- app_assoc in H. apply app_inv_head in H. exists u. exact H.
  - intros [u ->]. exists u. rewrite app_assoc. reflexivity.
Qed.

Lemma strict_prefix_app_inv : forall p s t,
  strict_prefix (p ++ s)%list (p ++ t)%list <-> strict_prefix s t.
Proof.
  intros p s t. split.
  - intros [n [u H]]. rewrite <- app_assoc in H. apply app_inv_head in H. exists n, u. exact H.
  - intros [n [u ->]]. exists n, u. rewrite app_assoc. reflexivity.
Qed.

Lemma strict_prefix_prefix : forall p q, strict_prefix p q -> prefix p q.
Proof. intros p q [n [s ->]]. exists (n :: s). reflexivity. Qed.

Lemma strict_prefix_neq : forall p q, strict_prefix p q -> p <> q.
Proof.
  intros p q [n [s ->]] H. rewrite <- (app_nil_r p) in H at 1. apply app_inv_head in H. discriminate.
Qed.

Lemma prefix_cases : forall p q, prefix p q -> p = q \/ strict_prefix p q.
Proof.
  intros p q [s ->]. destruct s as [|n s].
  - left. rewrite app_nil_r. reflexivity.
  - right. exists n, s. reflexivity.
Qed.

Lemma strict_prefixb_spec : forall p q, strict_prefixb p q = true <-> strict_prefix p q.
Proof.
  intros p q. unfold strict_prefixb. rewrite andb_true_iff, negb_true_iff. split.
  - intros [H1 H2]. apply is_prefix_spec in H1. destruct (prefix_cases _ _ H1) as [->|H]; [|exact H].
    assert (path_eqb q q = true) by (apply path_eqb_eq; reflexivity). congruence.
  - intros H. split.
    + apply is_prefix_spec, strict_prefix_prefix, H.
    + destruct (path_eqb p q) eqn:E; [|reflexivity]. apply path_eqb_eq in E.
      exfalso. exact (strict_prefix_neq _ _ H E).
Qed.

Lemma strict_prefix_nil : forall q, ~ strict_prefix q [].
Proof. intros q [n [s H]]. destruct q; discriminate. Qed.

Lemma strict_prefix_cons : forall q n r,
  strict_prefix q (n :: r) <-> q = [] \/ exists q', q = n :: q' /\ strict_prefix q' r.
Proof.
  intros q n r. split.
  - intros [k [s H]]. destruct q as [|x q]; [left; reflexivity|].
    right. cbn [app] in H. injection H as <- ->. exists q. split; [reflexivity|]. exists k, s. reflexivity.
  - intros [->|[q' [-> [k [s ->]]]]].
    + exists n, r. reflexivity.
    + exists k, s. reflexivity.
Qed.

Lemma prefix_nil_l : forall q, prefix [] q.
Proof. intros q. exists q. reflexivity. Qed.

Lemma prefix_cons : forall q n r,
  prefix q (n :: r) <-> q = [] \/ exists q', q = n :: q' /\ prefix q' r.
Proof.
  intros q n r. split.
  - intros [s H]. destruct q as [|x q]; [left; reflexivity|].
    right. cbn [app] in H. injection H as <- ->. exists q. split; [reflexivity|]. exists s. reflexivity.
  - intros [->|[q' [-> [s ->]]]]; [apply prefix_nil_l|]. exists s. reflexivity.
Qed.

(* two extensions of p by different names are incomparable *)
Lemma prefix_snoc_same : forall p n n' r,
  prefix (p ++ [n])%list r -> prefix (p ++ [n'])%list r -> n = n'.
Proof.
  intros p n n' r [s ->] [t H]. rewrite <- !app_assoc in H. apply app_inv_head in H.
  cbn [app] in H. congruence.
Qed.

(* ================================================================== *)
(* 2. Entries along a path                                             *)
(* ================================================================== *)

Lemma at_path_none : forall p, at_path None p = None.
Proof. induction p as [|n p IH]; [reflexivity|]. cbn [at_path contents lookup]. exact IH. Qed.

Lemma at_path_app : forall e p q, at_path e (p ++ q)%list = at_path (at_path e p) q.
Proof. intros e p. revert e. induction p as [|n p IH]; intros e q; [reflexivity|]. cbn [app at_path]. apply IH. Qed.

Lemma at_path_wf : forall s e p, wf s e = true -> wf s (at_path e p) = true.
Proof.
  intros s e p. revert e. induction p as [|n p IH]; intros e H; [exact H|].
  cbn [at_path]. apply IH. apply wf_lookup. exact H.
Qed.

Lemma anc_below_eq : forall anc a,
  anc_below anc a = (if negb (oshallow_eqb anc a) then [] else contents anc).
Proof. intros anc a. unfold anc_below. destruct (oshallow_eqb anc a); reflexivity. Qed.

Lemma wf_anc_below_lookup : forall s anc a n,
  wf s anc = true -> wf s (lookup n (anc_below anc a)) = true.
Proof.
  intros s anc a n H. unfold anc_below. destruct (oshallow_eqb anc a).
  - apply wf_lookup. exact H.
  - reflexivity.
Qed.

Lemma anc_seen_wf : forall s anc a p, wf s anc = true -> wf s (anc_seen anc a p) = true.
Proof.
  intros s anc a p. revert anc a. induction p as [|n p IH]; intros anc a H; [exact H|].
  cbn [anc_seen]. apply IH. apply wf_anc_below_lookup. exact H.
Qed.

(* ================================================================== *)
(* 3. descends / disagrees / reach                                     *)
(* ================================================================== *)

Lemma descends_disagrees : forall x y, descends x y = true -> disagrees x y = true -> False.
Proof.
  intros x y H1 H2. unfold descends in H1. unfold disagrees in H2.
  apply andb_true_iff in H1 as [_ H1]. apply andb_true_iff in H2 as [_ H2].
  rewrite H1 in H2. discriminate.
Qed.

Lemma descends_shallow : forall x y, descends x y = true -> oshallow_eqb x y = true.
Proof. intros x y H. unfold descends in H. apply andb_true_iff in H as [_ H]. exact H. Qed.

Lemma disagrees_shallow : forall x y, disagrees x y = true -> oshallow_eqb x y = false.
Proof.
  intros x y H. unfold disagrees in H. apply andb_true_iff in H as [_ H].
  apply negb_true_iff in H. exact H.
Qed.

Lemma descends_no_problem : forall x y,
  descends x y = true -> is_problem x = false /\ is_problem y = false.
Proof.
  intros x y H. unfold descends in H.
  apply andb_true_iff in H as [H _]. apply andb_true_iff in H as [H _].
  apply andb_true_iff in H as [H1 H2]. apply negb_true_iff in H1, H2. split; assumption.
Qed.

Lemma disagrees_no_problem : forall x y,
  disagrees x y = true -> is_problem x = false /\ is_problem y = false.
Proof.
  intros x y H. unfold disagrees in H.
  apply andb_true_iff in H as [H _]. apply andb_true_iff in H as [H _].
  apply andb_true_iff in H as [H1 H2]. apply negb_true_iff in H1, H2. split; assumption.
Qed.

Lemma disagrees_none_none : disagrees None None = false.
Proof. reflexivity. Qed.

Lemma reachb_spec : forall s a b, reachb a b s = true <-> reach a b s.
Proof.
  induction s as [|n r IH]; intros a b; unfold reach; split.
  - intros _ q H. exfalso. exact (strict_prefix_nil _ H).
  - intros _. reflexivity.
  - cbn [reachb]. intros H q Hq.
    apply andb_true_iff in H as [H H4]. apply andb_true_iff in H as [H H3].
    apply andb_true_iff in H as [H1 H2].
    apply strict_prefix_cons in Hq as [->|[q' [-> Hq']]].
    + cbn [at_path]. auto.
    + cbn [at_path]. apply IH in H4. apply H4. exact Hq'.
  - intros H. cbn [reachb].
    destruct (H [] (proj2 (strict_prefix_cons [] n r) (or_introl eq_refl))) as [H1 [H2 H3]].
    cbn [at_path] in H1, H2, H3. rewrite H1, H2, H3. cbn [andb].
    apply IH. intros q Hq. specialize (H (n :: q)). cbn [at_path] in H. apply H.
    apply strict_prefix_cons. right. exists q. auto.
Qed.

Lemma first_disagreementb_spec : forall p a b,
  first_disagreementb a b p = true <-> first_disagreement a b p.
Proof.
  induction p as [|n r IH]; intros a b; unfold first_disagreement; split.
  - cbn [first_disagreementb at_path]. intros H. split.
    + intros q Hq. exfalso. exact (strict_prefix_nil _ Hq).
    + apply negb_true_iff. exact H.
  - cbn [first_disagreementb at_path]. intros [_ H]. apply negb_true_iff. exact H.
  - cbn [first_disagreementb]. intros H. apply andb_true_iff in H as [H1 H2].
    apply IH in H2. destruct H2 as [H2 H3]. split.
    + intros q Hq. apply strict_prefix_cons in Hq as [->|[q' [-> Hq']]]; cbn [at_path]; auto.
    + cbn [at_path]. exact H3.
  - intros [H1 H2]. cbn [first_disagreementb]. apply andb_true_iff. split.
    + apply (H1 []). apply strict_prefix_cons. left. reflexivity.
    + apply IH. split.
      * intros q Hq. specialize (H1 (n :: q)). cbn [at_path] in H1. apply H1.
        apply strict_prefix_cons. right. exists q. auto.
      * exact H2.
Qed.

(* a handled path is a first disagreement *)
Lemma reachb_first_disagreementb : forall s a b,
  reachb a b s = true -> disagrees (at_path a s) (at_path b s) = true ->
  first_disagreementb a b s = true.
Proof.
  induction s as [|n r IH]; intros a b H1 H2.
  - cbn [first_disagreementb]. cbn [at_path] in H2. apply negb_true_iff, disagrees_shallow, H2.
  - cbn [reachb] in H1. cbn [first_disagreementb].
    apply andb_true_iff in H1 as [H1 H4]. apply andb_true_iff in H1 as [H1 _].
    apply andb_true_iff in H1 as [H1 _].
    rewrite (descends_shallow _ _ H1). cbn [andb]. apply IH; assumption.
Qed.

(* a strict prefix of a reached path is a path at which the recursion descends *)
Lemma reachb_prefix_descends : forall s a b q,
  reachb a b s = true -> strict_prefix q s ->
  descends (at_path a q) (at_path b q) = true.
Proof. intros s a b q H Hq. apply reachb_spec in H. apply (H q Hq). Qed.

(* ================================================================== *)
(* 4. The handlers produce one leaf                                    *)
(* ================================================================== *)

Inductive leaf (p : path) : plan -> Prop :=
| leaf_empty : leaf p empty_plan
| leaf_anc : leaf p (p_anc (mk p None None))
| leaf_alpha : forall o n, leaf p (p_alpha (mk p o n))
| leaf_beta : forall o n, leaf p (p_beta (mk p o n))
| leaf_conflict : forall xs ys, leaf p (p_conflict (mkc p xs ys)).

Ltac split_ifs :=
  repeat match goal with
         | |- context [if ?c then _ else _] => destruct c
         | |- context [match ?c with None => _ | Some _ => _ end] => destruct c
         end.

Lemma handler_leaf : forall m p anc a b, leaf p (handler m p anc a b).
Proof.
  intros m p anc a b.
  destruct m; unfold handler, handle_bidirectional, handle_one_way_safe, handle_one_way_replica;
    cbv zeta; split_ifs; constructor.
Qed.

Lemma leaf_roots : forall p pl, leaf p pl -> roots pl = [] \/ roots pl = [p].
Proof. intros p pl H. destruct H; cbn; auto. Qed.

Lemma leaf_alpha_path : forall p pl ch, leaf p pl -> In ch (alpha_ch pl) -> cpath ch = p.
Proof. intros p pl ch H. destruct H; cbn; intros Hi; try contradiction. destruct Hi as [<-|[]]. reflexivity. Qed.

Lemma leaf_beta_path : forall p pl ch, leaf p pl -> In ch (beta_ch pl) -> cpath ch = p.
Proof. intros p pl ch H. destruct H; cbn; intros Hi; try contradiction. destruct Hi as [<-|[]]. reflexivity. Qed.

Lemma leaf_conflict_root : forall p pl c, leaf p pl -> In c (conflicts pl) -> root c = p.
Proof. intros p pl c H. destruct H; cbn; intros Hi; try contradiction. destruct Hi as [<-|[]]. reflexivity. Qed.

Lemma leaf_anc_path : forall p pl ch, leaf p pl -> In ch (anc_changes pl) -> cpath ch = p.
Proof. intros p pl ch H. destruct H; cbn; intros Hi; try contradiction. destruct Hi as [<-|[]]. reflexivity. Qed.

(* a leaf that changes the ancestor schedules no action *)
Lemma leaf_anc_no_roots : forall p pl, leaf p pl -> anc_changes pl <> [] -> roots pl = [].
Proof. intros p pl H. destruct H; cbn; intros Hn; try reflexivity; exfalso; apply Hn; reflexivity. Qed.

(* ================================================================== *)
(* 5. Concatenated plans                                               *)
(* ================================================================== *)

Section Sel.
  Variable A : Type.
  Variable sel : plan -> list A.
  Hypothesis sel_app : forall x y, sel (plan_app x y) = (sel x ++ sel y)%list.
  Hypothesis sel_empty : sel empty_plan = [].

  Lemma sel_concat_in : forall (B : Type) (g : B -> plan) (l : list B) x,
    In x (sel (plan_concat (map g l))) <-> exists n, In n l /\ In x (sel (g n)).
  Proof.
    intros B g l x. induction l as [|k l IH].
    - cbn [map plan_concat fold_right]. rewrite sel_empty. split; [intros []|intros [n [[] _]]].
    - cbn [map plan_concat fold_right]. fold (plan_concat (map g l)). rewrite sel_app, in_app_iff, IH.
      split.
      + intros [H|[n [H1 H2]]]; [exists k; split; [left; reflexivity|exact H]|exists n; split; [right; exact H1|exact H2]].
      + intros [n [[->|H1] H2]]; [left; exact H2|right; exists n; auto].
  Qed.
End Sel.

Lemma alpha_app : forall x y, alpha_ch (plan_app x y) = (alpha_ch x ++ alpha_ch y)%list.
Proof. reflexivity. Qed.
Lemma beta_app : forall x y, beta_ch (plan_app x y) = (beta_ch x ++ beta_ch y)%list.
Proof. reflexivity. Qed.
Lemma conflicts_app : forall x y, conflicts (plan_app x y) = (conflicts x ++ conflicts y)%list.
Proof. reflexivity. Qed.
Lemma anc_app : forall x y, anc_changes (plan_app x y) = (anc_changes x ++ anc_changes y)%list.
Proof. reflexivity. Qed.

(* ================================================================== *)
(* 6. One step of the recursion                                        *)
(* ================================================================== *)

(* the guards of reconcile_f in terms of descends / disagrees *)
Lemma guards_descends : forall a b,
  is_problem a = false -> is_problem b = false ->
  (is_none a || is_untracked a) && (is_none b || is_untracked b) = false ->
  oshallow_eqb a b = true -> descends a b = true.
Proof.
  intros a b H1 H2 H3 H4. unfold descends, nil_or_untracked. rewrite H1, H2, H3, H4. reflexivity.
Qed.

Lemma guards_disagrees : forall a b,
  is_problem a = false -> is_problem b = false ->
  (is_none a || is_untracked a) && (is_none b || is_untracked b) = false ->
  oshallow_eqb a b = false -> disagrees a b = true.
Proof.
  intros a b H1 H2 H3 H4. unfold disagrees, nil_or_untracked. rewrite H1, H2, H3, H4. reflexivity.
Qed.

Lemma descends_guards : forall a b, descends a b = true ->
  is_problem a = false /\ is_problem b = false
  /\ (is_none a || is_untracked a) && (is_none b || is_untracked b) = false
  /\ oshallow_eqb a b = true.
Proof.
  intros a b H. unfold descends, nil_or_untracked in H.
  apply andb_true_iff in H as [H H4]. apply andb_true_iff in H as [H H3].
  apply andb_true_iff in H as [H1 H2]. apply negb_true_iff in H1, H2, H3. auto.
Qed.

Lemma disagrees_guards : forall a b, disagrees a b = true ->
  is_problem a = false /\ is_problem b = false
  /\ (is_none a || is_untracked a) && (is_none b || is_untracked b) = false
  /\ oshallow_eqb a b = false.
Proof.
  intros a b H. unfold disagrees, nil_or_untracked in H.
  apply andb_true_iff in H as [H H4]. apply andb_true_iff in H as [H H3].
  apply andb_true_iff in H as [H1 H2]. apply negb_true_iff in H1, H2, H3, H4. auto.
Qed.

(* the recursion only has children below directories (tracked or phantom) *)
Lemma descends_child_dirkind : forall anc a b n,
  descends a b = true ->
  In n (name_union [anc_below anc a; contents a; contents b]) ->
  is_dirkind a = true /\ is_dirkind b = true.
Proof.
  intros anc a b n H Hn. apply descends_guards in H as [H1 [H2 [H3 H4]]].
  destruct a as [x|], b as [y|]; try discriminate.
  destruct x, y; try discriminate; try (split; reflexivity); exfalso;
    unfold anc_below in Hn; destruct anc as [[]|]; cbn in Hn;
    repeat match type of Hn with context [if ?c then _ else _] => destruct c; cbn in Hn end;
    contradiction.
Qed.

(* ================================================================== *)
(* 7. Every output comes from a handler at a handled path              *)
(* ================================================================== *)

Section Shape.
  Variable A : Type.
  Variable sel : plan -> list A.
  Hypothesis sel_app : forall x y, sel (plan_app x y) = (sel x ++ sel y)%list.
  Hypothesis sel_empty : sel empty_plan = [].
  Hypothesis sel_anc : forall c, sel (p_anc c) = [].

  Lemma shape_sel : forall fuel m p anc a b x,
    In x (sel (reconcile_f fuel m p anc a b)) ->
    exists s, reachb a b s = true
      /\ disagrees (at_path a s) (at_path b s) = true
      /\ In x (sel (handler m (p ++ s)%list (anc_seen anc a s) (at_path a s) (at_path b s))).
  Proof.
    induction fuel as [|fuel IH]; intros m p anc a b x.
    - cbn [reconcile_f].
      destruct (is_problem a) eqn:E1; [rewrite sel_empty; intros []|].
      destruct (is_problem b) eqn:E2; [rewrite sel_empty; intros []|].
      destruct ((is_none a || is_untracked a) && (is_none b || is_untracked b)) eqn:E3.
      { destruct (is_none anc); [rewrite sel_empty|rewrite sel_anc]; intros []. }
      destruct (oshallow_eqb a b) eqn:E4; [rewrite sel_empty; intros []|].
      intros H. exists []. rewrite app_nil_r. cbn [reachb at_path anc_seen].
      split; [reflexivity|]. split; [apply guards_disagrees; assumption|exact H].
    - cbn [reconcile_f].
      destruct (is_problem a) eqn:E1; [rewrite sel_empty; intros []|].
      destruct (is_problem b) eqn:E2; [rewrite sel_empty; intros []|].
      destruct ((is_none a || is_untracked a) && (is_none b || is_untracked b)) eqn:E3.
      { destruct (is_none anc); [rewrite sel_empty|rewrite sel_anc]; intros []. }
      destruct (oshallow_eqb a b) eqn:E4.
      + rewrite fold_plan_app, sel_app, in_app_iff. intros [H|H].
        { destruct (negb (oshallow_eqb anc a)); [rewrite sel_anc in H|rewrite sel_empty in H]; destruct H. }
        apply (sel_concat_in A sel sel_app sel_empty) in H as [n [Hn H]].
        rewrite <- anc_below_eq in Hn, H.
        apply IH in H as [s [Hs1 [Hs2 Hs3]]].
        assert (Hd : descends a b = true) by (apply guards_descends; assumption).
        destruct (descends_child_dirkind anc a b n Hd Hn) as [Hda Hdb].
        exists (n :: s). cbn [reachb at_path anc_seen]. rewrite Hd, Hda, Hdb. cbn [andb].
        split; [exact Hs1|]. split; [exact Hs2|].
        rewrite <- app_assoc in Hs3. exact Hs3.
      + intros H. exists []. rewrite app_nil_r. cbn [reachb at_path anc_seen].
        split; [reflexivity|]. split; [apply guards_disagrees; assumption|exact H].
  Qed.
End Shape.

(* ancestor changes *)
Lemma shape_anc : forall fuel m p anc a b ch,
  In ch (anc_changes (reconcile_f fuel m p anc a b)) ->
  exists s, cpath ch = (p ++ s)%list /\ reachb a b s = true
    /\ is_problem (at_path a s) = false /\ is_problem (at_path b s) = false
    /\ (disagrees (at_path a s) (at_path b s) = true ->
        In ch (anc_changes (handler m (p ++ s)%list (anc_seen anc a s) (at_path a s) (at_path b s)))).
Proof.
  assert (Hbase : forall m p anc a b ch,
    is_problem a = false -> is_problem b = false ->
    (is_none a || is_untracked a) && (is_none b || is_untracked b) = false ->
    oshallow_eqb a b = false ->
    In ch (anc_changes (handler m p anc a b)) ->
    exists s, cpath ch = (p ++ s)%list /\ reachb a b s = true
      /\ is_problem (at_path a s) = false /\ is_problem (at_path b s) = false
      /\ (disagrees (at_path a s) (at_path b s) = true ->
          In ch (anc_changes (handler m (p ++ s)%list (anc_seen anc a s) (at_path a s) (at_path b s))))).
  { intros m p anc a b ch E1 E2 E3 E4 H. exists []. rewrite app_nil_r. cbn [reachb at_path anc_seen].
    split; [exact (leaf_anc_path _ _ _ (handler_leaf m p anc a b) H)|]. auto. }
  assert (Hnil : forall p anc a b ch,
    is_problem a = false -> is_problem b = false ->
    (is_none a || is_untracked a) && (is_none b || is_untracked b) = true ->
    In ch (anc_changes (if is_none anc then empty_plan else p_anc (mk p None None))) ->
    exists s, cpath ch = (p ++ s)%list /\ reachb a b s = true
      /\ is_problem (at_path a s) = false /\ is_problem (at_path b s) = false
      /\ (disagrees (at_path a s) (at_path b s) = true -> False)).
  { intros p anc a b ch E1 E2 E3 H. exists []. rewrite app_nil_r. cbn [reachb at_path].
    destruct (is_none anc); cbn in H; [contradiction|]. destruct H as [<-|[]].
    split; [reflexivity|]. split; [reflexivity|]. split; [exact E1|]. split; [exact E2|].
    intros Hd. apply disagrees_guards in Hd as [_ [_ [Hd _]]]. congruence. }
  induction fuel as [|fuel IH]; intros m p anc a b ch.
  - cbn [reconcile_f].
    destruct (is_problem a) eqn:E1; [intros []|].
    destruct (is_problem b) eqn:E2; [intros []|].
    destruct ((is_none a || is_untracked a) && (is_none b || is_untracked b)) eqn:E3.
    { intros H. destruct (Hnil p anc a b ch E1 E2 E3 H) as [s [H1 [H2 [H3 [H4 H5]]]]].
      exists s. repeat split; try assumption. intros Hd. destruct (H5 Hd). }
    destruct (oshallow_eqb a b) eqn:E4; [intros []|].
    apply Hbase; assumption.
  - cbn [reconcile_f].
    destruct (is_problem a) eqn:E1; [intros []|].
    destruct (is_problem b) eqn:E2; [intros []|].
    destruct ((is_none a || is_untracked a) && (is_none b || is_untracked b)) eqn:E3.
    { intros H. destruct (Hnil p anc a b ch E1 E2 E3 H) as [s [H1 [H2 [H3 [H4 H5]]]]].
      exists s. repeat split; try assumption. intros Hd. destruct (H5 Hd). }
    destruct (oshallow_eqb a b) eqn:E4; [|apply Hbase; assumption].
    assert (Hd : descends a b = true) by (apply guards_descends; assumption).
    rewrite fold_plan_app, anc_app, in_app_iff. intros [H|H].
    + exists []. rewrite app_nil_r. cbn [reachb at_path].
      split.
      { destruct (negb (oshallow_eqb anc a)); cbn in H; [|contradiction]. destruct H as [<-|[]]. reflexivity. }
      split; [reflexivity|]. split; [exact E1|]. split; [exact E2|].
      intros Hd'. destruct (descends_disagrees _ _ Hd Hd').
    + apply (sel_concat_in _ anc_changes anc_app eq_refl) in H as [n [Hn H]].
      rewrite <- anc_below_eq in Hn, H.
      apply IH in H as [s [Hs0 [Hs1 [Hs2 [Hs3 Hs4]]]]].
      destruct (descends_child_dirkind anc a b n Hd Hn) as [Hda Hdb].
      exists (n :: s). cbn [reachb at_path anc_seen]. rewrite Hd, Hda, Hdb. cbn [andb].
      rewrite <- app_assoc in Hs0, Hs4. cbn [app] in Hs0, Hs4. auto 10.
Qed.

(* ================================================================== *)
(* 8. Every handled path contributes its handler's output              *)
(* ================================================================== *)

Lemma anc_contents_below : forall anc a, anc_contents anc a = anc_below anc a.
Proof. intros anc a. unfold anc_contents. symmetry. apply anc_below_eq. Qed.

Section Reaches.
  Variable A : Type.
  Variable sel : plan -> list A.
  Hypothesis sel_app : forall x y, sel (plan_app x y) = (sel x ++ sel y)%list.
  Hypothesis sel_empty : sel empty_plan = [].

  Lemma reaches_sel : forall s m p anc a b x,
    reachb a b s = true -> disagrees (at_path a s) (at_path b s) = true ->
    In x (sel (handler m (p ++ s)%list (anc_seen anc a s) (at_path a s) (at_path b s))) ->
    In x (sel (reconcile_at m p anc a b)).
  Proof.
    induction s as [|n r IH]; intros m p anc a b x Hr Hd Hx.
    - rewrite app_nil_r in Hx. cbn [at_path anc_seen] in Hd, Hx.
      apply disagrees_guards in Hd as [E1 [E2 [E3 E4]]].
      rewrite reconcile_unfold, E1, E2, E3, E4. exact Hx.
    - cbn [reachb] in Hr. cbn [at_path anc_seen] in Hd, Hx.
      apply andb_true_iff in Hr as [Hr Hr4]. apply andb_true_iff in Hr as [Hr _].
      apply andb_true_iff in Hr as [Hr _].
      destruct (descends_guards _ _ Hr) as [E1 [E2 [E3 E4]]].
      rewrite (reconcile_unfold_rec m p anc a b E1 E2 E3 E4), sel_app, in_app_iff. right.
      apply (sel_concat_in A sel sel_app sel_empty). exists n. split.
      + apply name_union_in3. right.
        destruct (lookup n (contents a)) as [x1|] eqn:La.
        { left. apply lookup_some_in_keys in La. exact La. }
        destruct (lookup n (contents b)) as [y1|] eqn:Lb.
        { right. apply lookup_some_in_keys in Lb. exact Lb. }
        rewrite !at_path_none in Hd. discriminate.
      + rewrite anc_contents_below. apply IH; try assumption.
        rewrite <- app_assoc. exact Hx.
  Qed.
End Reaches.

(* ================================================================== *)
(* 9. No action is scheduled twice                                     *)
(* ================================================================== *)

Lemma NoDup_app_disjoint : forall (B : Type) (l1 l2 : list B),
  NoDup l1 -> NoDup l2 -> (forall z, In z l1 -> In z l2 -> False) -> NoDup (l1 ++ l2)%list.
Proof.
  intros B l1 l2 H1. induction H1 as [|a l Ha Hl IH]; intros H2 Hd; [exact H2|].
  cbn [app]. constructor.
  - rewrite in_app_iff. intros [H|H]; [contradiction|]. apply (Hd a); [left; reflexivity|exact H].
  - apply IH; [exact H2|]. intros z Hz1 Hz2. apply (Hd z); [right; exact Hz1|exact Hz2].
Qed.

Lemma NoDup_flat_map_disjoint : forall (A B : Type) (f : A -> list B) (l : list A),
  NoDup l -> (forall x, In x l -> NoDup (f x)) ->
  (forall x y z, In x l -> In y l -> In z (f x) -> In z (f y) -> x = y) ->
  NoDup (flat_map f l).
Proof.
  intros A B f l Hl. induction Hl as [|a l Ha Hl IH]; intros Hf Hd; [constructor|].
  cbn [flat_map]. apply NoDup_app_disjoint.
  - apply Hf. left. reflexivity.
  - apply IH.
    + intros x Hx. apply Hf. right. exact Hx.
    + intros x y z Hx Hy. apply Hd; right; assumption.
  - intros z Hz1 Hz2. apply in_flat_map in Hz2 as [y [Hy Hz2]].
    assert (a = y) by (apply (Hd a y z); [left; reflexivity|right; exact Hy|exact Hz1|exact Hz2]).
    subst y. contradiction.
Qed.

Lemma roots_app_perm : forall x y,
  Permutation (roots (plan_app x y)) (roots x ++ roots y)%list.
Proof.
  intros x y. unfold roots. cbn [plan_app alpha_ch beta_ch conflicts]. rewrite !map_app.
  set (ax := map cpath (alpha_ch x)). set (ay := map cpath (alpha_ch y)).
  set (bx := map cpath (beta_ch x)). set (by_ := map cpath (beta_ch y)).
  set (cx := map root (conflicts x)). set (cy := map root (conflicts y)).
  rewrite <- !app_assoc. apply Permutation_app_head.
  (* ay ++ bx ++ by ++ cx ++ cy  ~  bx ++ cx ++ ay ++ by ++ cy *)
  transitivity (bx ++ ay ++ by_ ++ cx ++ cy)%list; [apply Permutation_app_swap_app|].
  apply Permutation_app_head.
  transitivity (ay ++ cx ++ by_ ++ cy)%list.
  - apply Permutation_app_head. apply Permutation_app_swap_app.
  - apply Permutation_app_swap_app.
Qed.

Lemma roots_empty : roots empty_plan = [].
Proof. reflexivity. Qed.

Lemma roots_concat_perm : forall (B : Type) (g : B -> plan) (l : list B),
  Permutation (roots (plan_concat (map g l))) (flat_map (fun n => roots (g n)) l).
Proof.
  intros B g l. induction l as [|k l IH]; [reflexivity|].
  cbn [map plan_concat fold_right flat_map]. fold (plan_concat (map g l)).
  etransitivity; [apply roots_app_perm|]. apply Permutation_app_head. exact IH.
Qed.

Lemma in_roots : forall pl r,
  In r (roots pl) <->
  (exists ch, In ch (alpha_ch pl) /\ cpath ch = r) \/ (exists ch, In ch (beta_ch pl) /\ cpath ch = r)
  \/ (exists c, In c (conflicts pl) /\ root c = r).
Proof.
  intros pl r. unfold roots. rewrite !in_app_iff, !in_map_iff.
  split; intros [[x [H1 H2]]|[[x [H1 H2]]|[x [H1 H2]]]]; eauto 6.
Qed.

(* every scheduled action comes from the handler at a handled path *)
Lemma root_source : forall fuel m p anc a b r,
  In r (roots (reconcile_f fuel m p anc a b)) ->
  exists s, r = (p ++ s)%list /\ reachb a b s = true
    /\ disagrees (at_path a s) (at_path b s) = true
    /\ In r (roots (handler m (p ++ s)%list (anc_seen anc a s) (at_path a s) (at_path b s))).
Proof.
  intros fuel m p anc a b r H. apply in_roots in H as [[ch [H <-]]|[[ch [H <-]]|[c [H <-]]]].
  - apply (shape_sel _ alpha_ch alpha_app eq_refl (fun _ => eq_refl)) in H as [s [H1 [H2 H3]]].
    exists s. pose proof (leaf_alpha_path _ _ _ (handler_leaf _ _ _ _ _) H3) as E.
    repeat split; try assumption. apply in_roots. left. exists ch. auto.
  - apply (shape_sel _ beta_ch beta_app eq_refl (fun _ => eq_refl)) in H as [s [H1 [H2 H3]]].
    exists s. pose proof (leaf_beta_path _ _ _ (handler_leaf _ _ _ _ _) H3) as E.
    repeat split; try assumption. apply in_roots. right. left. exists ch. auto.
  - apply (shape_sel _ conflicts conflicts_app eq_refl (fun _ => eq_refl)) in H as [s [H1 [H2 H3]]].
    exists s. pose proof (leaf_conflict_root _ _ _ (handler_leaf _ _ _ _ _) H3) as E.
    repeat split; try assumption. apply in_roots. right. right. exists c. auto.
Qed.

Lemma roots_prefix_f : forall fuel m p anc a b r,
  In r (roots (reconcile_f fuel m p anc a b)) -> prefix p r.
Proof. intros fuel m p anc a b r H. apply root_source in H as [s [-> _]]. apply prefix_app. Qed.

Lemma roots_nodup_f : forall fuel m p anc a b, NoDup (roots (reconcile_f fuel m p anc a b)).
Proof.
  assert (Hleaf : forall m p anc a b, NoDup (roots (handler m p anc a b))).
  { intros m p anc a b. destruct (leaf_roots _ _ (handler_leaf m p anc a b)) as [->| ->].
    - constructor.
    - constructor; [intros []|constructor]. }
  induction fuel as [|fuel IH]; intros m p anc a b; cbn [reconcile_f].
  - destruct (is_problem a); [constructor|]. destruct (is_problem b); [constructor|].
    destruct ((is_none a || is_untracked a) && (is_none b || is_untracked b)).
    { destruct (is_none anc); constructor. }
    destruct (oshallow_eqb a b); [constructor|]. apply Hleaf.
  - destruct (is_problem a); [constructor|]. destruct (is_problem b); [constructor|].
    destruct ((is_none a || is_untracked a) && (is_none b || is_untracked b)).
    { destruct (is_none anc); constructor. }
    destruct (oshallow_eqb a b); [|apply Hleaf].
    rewrite fold_plan_app.
    apply (Permutation_NoDup (l := (flat_map (fun n => roots (reconcile_f fuel m (p ++ [n])%list
              (lookup n (if negb (oshallow_eqb anc a) then [] else contents anc))
              (lookup n (contents a)) (lookup n (contents b))))
            (name_union [if negb (oshallow_eqb anc a) then [] else contents anc; contents a; contents b])))).
    + symmetry. etransitivity; [apply roots_app_perm|].
      replace (roots (if negb (oshallow_eqb anc a) then p_anc (mk p None (oslim a)) else empty_plan))
        with (@nil path) by (destruct (negb (oshallow_eqb anc a)); reflexivity).
      cbn [app]. apply roots_concat_perm.
    + apply NoDup_flat_map_disjoint.
      * apply name_union_NoDup.
      * intros n _. apply IH.
      * intros n n' r _ _ H1 H2. apply roots_prefix_f in H1, H2.
        exact (prefix_snoc_same _ _ _ _ H1 H2).
Qed.
