(* Proofs about Model/Remote.v (C21). *)
From Coq Require Import List Bool Arith String Lia.
Import ListNotations.
From Mv Require Import Model.Remote.

Lemma nonempty_true : forall s, nonempty s = true <-> s <> ""%string.
Proof.
  intros s. unfold nonempty. rewrite negb_true_iff. split.
  - intros H E. subst s. discriminate H.
  - intros H. destruct (String.eqb s "") eqn:E; auto. apply String.eqb_eq in E. contradiction.
Qed.

Lemma nonempty_empty : nonempty ""%string = false.
Proof. reflexivity. Qed.

(* ---------------------------------------------------------------- subseq *)
Lemma subseq_length : forall A (l1 l2 : list A), subseq l1 l2 -> List.length l1 <= List.length l2.
Proof. induction 1; cbn; lia. Qed.

Lemma subseq_same_length : forall A (l1 l2 : list A),
    subseq l1 l2 -> List.length l1 = List.length l2 -> l1 = l2.
Proof.
  induction 1 as [l | x l1 l2 H IH | x l1 l2 H IH]; cbn; intros E.
  - destruct l; [reflexivity | discriminate E].
  - f_equal. apply IH. lia.
  - apply subseq_length in H. lia.
Qed.

Lemma subseq_refl : forall A (l : list A), subseq l l.
Proof. induction l; constructor; auto. Qed.

Lemma length_zero_nil : forall A (l : list A), List.length l = 0 -> l = [].
Proof. destruct l; [reflexivity | discriminate]. Qed.

Section Proofs.

Variables snapshot ancestor bytes sgn delta : Type.
Variable marshal : snapshot -> option bytes.
Variable unmarshal : bytes -> option snapshot.
Variable sig_of : bytes -> sgn.
Variable deltify : bytes -> sgn -> delta.
Variable patch : bytes -> sgn -> delta -> option bytes.
Variable of_ancestor : ancestor -> snapshot.
Variable content_nil : snapshot -> bool.
Variable snap_valid : snapshot -> bool.
Variable delta_valid : delta -> bool.
Variable delta_empty : delta -> bool.
Variable delta_nil : delta.
Variables pathT digestT fsig : Type.
Variable fsig_valid : fsig -> bool.
Variables result problem change : Type.
Variable result_valid : result -> bool.
Variable problem_valid : problem -> bool.
Variable change_valid : change -> bool.

(* Protocol Buffers: what was serialised deserialises to the same value. *)
Hypothesis marshal_roundtrip : forall s b, marshal s = Some b -> unmarshal b = Some s.
(* rsync (property C19): patching the base with the delta of a target against
   the base's own signature reconstructs the target exactly. *)
Hypothesis c19_patch_deltify :
  forall base target, patch base (sig_of base) (deltify target (sig_of base)) = Some target.
(* the engine emits valid operations; an unset delta is valid and empty *)
Hypothesis deltify_valid : forall t s, delta_valid (deltify t s) = true.
Hypothesis delta_nil_valid : delta_valid delta_nil = true.
Hypothesis delta_nil_empty : delta_empty delta_nil = true.

Notation rscan := (remote_scan marshal unmarshal sig_of deltify patch of_ancestor content_nil
                               snap_valid delta_valid delta_empty delta_nil).
Notation strace := (scan_trace marshal unmarshal sig_of deltify patch of_ancestor content_nil
                               snap_valid delta_valid delta_empty delta_nil).
Notation sptrace := (spec_trace marshal sig_of of_ancestor content_nil).
Notation baseline := (client_baseline marshal of_ancestor).
Notation finish := (client_scan_finish unmarshal sig_of patch content_nil snap_valid
                                       delta_valid delta_empty).
Notation sscan := (server_scan marshal deltify delta_nil).
Notation ev_wf := (event_wf marshal of_ancestor snap_valid).
Notation ans_wf := (answer_wf marshal snap_valid).
Notation supdate := (spec_update marshal content_nil).

(* ------------------------------------------------------------------ scan *)

Lemma baseline_some : forall last anc,
    marshal (of_ancestor anc) <> None -> exists b, baseline last anc = Some b.
Proof.
  intros last anc H. unfold client_baseline. destruct last as [b|]; [eauto|].
  destruct (marshal (of_ancestor anc)) as [b|]; [eauto | contradiction].
Qed.

(* server + client on one answer, for any baseline the client holds *)
Lemma finish_server : forall last base full (answer : bool -> scan_answer snapshot),
    ans_wf (answer full) ->
    finish last base (sscan answer (client_scan_request sig_of base full))
    = (supdate last (answer full), lift_scan (answer full)).
Proof.
  intros last base full answer Hwf.
  unfold server_scan, client_scan_request. cbn [rq_full rq_sig].
  destruct (answer full) as [s | m t]; cbn [answer_wf] in Hwf.
  - destruct Hwf as [Hv Hm]. destruct (marshal s) as [b|] eqn:Em; [| contradiction].
    unfold client_scan_finish, scan_response_valid. cbn [rs_delta rs_error rs_try].
    rewrite deltify_valid, nonempty_empty. cbn [andb negb].
    rewrite c19_patch_deltify, (marshal_roundtrip s b Em), Hv. cbn [negb].
    unfold spec_update, lift_scan. rewrite Em. reflexivity.
  - apply nonempty_true in Hwf.
    unfold client_scan_finish, scan_response_valid. cbn [rs_delta rs_error rs_try].
    rewrite delta_nil_valid, Hwf, delta_nil_empty. cbn [andb negb].
    reflexivity.
Qed.

Lemma scan_one : forall last ev, ev_wf ev ->
    observe (rscan last (ev_anc ev) (ev_full ev) (ev_answer ev))
    = {| sp_base := baseline last (ev_anc ev);
         sp_sig := option_map sig_of (baseline last (ev_anc ev));
         sp_full := Some (ev_full ev);
         sp_result := lift_scan (ev_answer ev (ev_full ev));
         sp_last := supdate last (ev_answer ev (ev_full ev)) |}.
Proof.
  intros last ev [Hans Hanc].
  destruct (baseline_some last (ev_anc ev) Hanc) as [base Hb].
  unfold remote_scan. rewrite Hb.
  rewrite (finish_server last base (ev_full ev) (ev_answer ev) Hans).
  unfold observe. cbn. reflexivity.
Qed.

Theorem scan_history : forall h last,
    Forall ev_wf h -> map observe (strace last h) = sptrace last h.
Proof.
  induction h as [| ev t IH]; intros last Hwf; [reflexivity|].
  inversion Hwf as [| ? ? Hev Ht]; subst.
  cbn [scan_trace spec_trace map].
  pose proof (scan_one last ev Hev) as H1.
  rewrite H1. f_equal.
  assert (Hl : st_last (rscan last (ev_anc ev) (ev_full ev) (ev_answer ev))
               = supdate last (ev_answer ev (ev_full ev))).
  { change (sp_last (observe (rscan last (ev_anc ev) (ev_full ev) (ev_answer ev)))
            = supdate last (ev_answer ev (ev_full ev))).
    rewrite H1. reflexivity. }
  rewrite Hl. apply IH. exact Ht.
Qed.

(* readable consequences: the i-th snapshot the client returns is the i-th
   snapshot the endpoint answered, and the bytes the client keeps are the
   endpoint's serialisation of the latest snapshot with content. *)
Corollary scan_results : forall h last,
    Forall ev_wf h ->
    map st_result (strace last h)
    = map (fun ev => lift_scan (ev_answer ev (ev_full ev))) h.
Proof.
  intros h last Hwf.
  transitivity (map sp_result (map observe (strace last h))).
  - rewrite map_map. apply map_ext. intros st. reflexivity.
  - rewrite (scan_history h last Hwf). clear Hwf. revert last.
    induction h as [| ev t IH]; intros last; cbn; [reflexivity|]. f_equal. apply IH.
Qed.

(* the signature the server deltifies against is the signature of exactly the
   bytes the client patches against, at every step *)
Corollary scan_baselines_agree : forall h last,
    Forall ev_wf h ->
    Forall (fun st => exists b rq, st_base st = Some b /\ st_request st = Some rq
                                   /\ rq_sig rq = sig_of b) (strace last h).
Proof.
  induction h as [| ev t IH]; intros last Hwf; cbn [scan_trace]; constructor.
  - inversion Hwf as [| ? ? [Hans Hanc] Ht]; subst.
    destruct (baseline_some last (ev_anc ev) Hanc) as [base Hb].
    unfold remote_scan. rewrite Hb.
    destruct (finish last base _) as [l r]. cbn. eauto.
  - inversion Hwf; subst. apply IH. assumption.
Qed.

(* ----------------------------------------------------------------- stage *)

Theorem stage_compaction : forall (req paths : list pathT) (sigs : list fsig),
    subseq paths req -> List.length sigs = List.length paths ->
    expand req (compact req paths sigs) = (paths, sigs).
Proof.
  intros req paths sigs Hsub Hlen. unfold expand, compact. cbn [sg_paths sg_sigs].
  destruct (List.length paths =? List.length req) eqn:E.
  - apply Nat.eqb_eq in E. pose proof (subseq_same_length _ _ _ Hsub E) as ->.
    cbn [List.length Nat.eqb andb].
    destruct (0 <? List.length sigs) eqn:E0; [reflexivity|].
    apply Nat.ltb_ge in E0. assert (List.length sigs = 0) by lia.
    rewrite (length_zero_nil _ sigs H) in *. cbn in Hlen.
    symmetry in Hlen. rewrite (length_zero_nil _ req Hlen). reflexivity.
  - destruct (List.length paths =? 0) eqn:E1; cbn [andb]; [|reflexivity].
    apply Nat.eqb_eq in E1. rewrite E1 in Hlen.
    rewrite (length_zero_nil _ sigs Hlen). cbn. reflexivity.
Qed.

(* what StageResponse.ensureValid accepts, in terms of the expansion *)
Theorem stage_valid_iff : forall (req : list pathT) (r : stage_response pathT fsig),
    stage_response_valid fsig_valid (List.length req) r = true
    <-> (List.length (fst (expand req r)) = List.length (snd (expand req r))
         /\ List.length (fst (expand req r)) <= List.length req
         /\ forallb fsig_valid (sg_sigs r) = true
         /\ (sg_error r <> ""%string -> sg_paths r = [])).
Proof.
  intros req r. unfold stage_response_valid, expand. cbn [fst snd].
  destruct r as [ps ss e]. cbn [sg_paths sg_sigs sg_error].
  destruct (List.length ps =? 0) eqn:Ep; destruct (0 <? List.length ss) eqn:Es; cbn [andb].
  - (* shorthand *)
    apply Nat.eqb_eq in Ep. apply Nat.ltb_lt in Es.
    destruct (List.length ss =? List.length req) eqn:En; cbn [negb].
    + apply Nat.eqb_eq in En. rewrite Nat.eqb_refl. cbn [negb].
      replace (List.length req <? List.length ss) with false
        by (symmetry; apply Nat.ltb_ge; lia).
      replace (0 <? List.length ps) with false by (symmetry; apply Nat.ltb_ge; lia).
      rewrite andb_false_r.
      destruct (forallb fsig_valid ss); cbn [negb]; split; intros H.
      * repeat split; try lia. intros _. apply length_zero_nil. exact Ep.
      * reflexivity.
      * discriminate H.
      * destruct H as (_ & _ & H & _). discriminate H.
    + apply Nat.eqb_neq in En. split; intros H; [discriminate H|].
      destruct H as (H & _). lia.
  - apply Nat.eqb_eq in Ep. apply Nat.ltb_ge in Es.
    assert (Hs : List.length ss = 0) by lia. rewrite Ep, Hs. cbn [Nat.eqb negb].
    replace (List.length req <? 0) with false by (symmetry; apply Nat.ltb_ge; lia).
    replace (0 <? 0) with false by reflexivity. rewrite andb_false_r.
    destruct (forallb fsig_valid ss); cbn [negb]; split; intros H.
    + repeat split; try lia. intros _. apply length_zero_nil. exact Ep.
    + reflexivity.
    + discriminate H.
    + destruct H as (_ & _ & H & _). discriminate H.
  - apply Nat.eqb_neq in Ep. apply Nat.ltb_lt in Es.
    destruct (List.length ps =? List.length ss) eqn:E1; cbn [negb].
    + apply Nat.eqb_eq in E1.
      destruct (List.length req <? List.length ps) eqn:E2.
      * apply Nat.ltb_lt in E2. split; intros H; [discriminate H|]. destruct H as (_ & H & _). lia.
      * apply Nat.ltb_ge in E2.
        replace (0 <? List.length ps) with true by (symmetry; apply Nat.ltb_lt; lia).
        rewrite andb_true_r.
        destruct (forallb fsig_valid ss); cbn [negb].
        -- destruct (nonempty e) eqn:Ee; split; intros H.
           ++ discriminate H.
           ++ destruct H as (_ & _ & _ & H). apply nonempty_true in Ee.
              specialize (H Ee). subst ps. cbn in Ep. contradiction.
           ++ repeat split; try lia. intros Hne. apply nonempty_true in Hne. congruence.
           ++ reflexivity.
        -- split; intros H; [discriminate H|]. destruct H as (_ & _ & H & _). discriminate H.
    + apply Nat.eqb_neq in E1. split; intros H; [discriminate H|]. destruct H as (H & _). lia.
  - apply Nat.eqb_neq in Ep. apply Nat.ltb_ge in Es.
    assert (Hs : List.length ss = 0) by lia.
    destruct (List.length ps =? List.length ss) eqn:E1; cbn [negb].
    + apply Nat.eqb_eq in E1. lia.
    + split; intros H; [discriminate H|]. destruct H as (H & _). lia.
Qed.

(* the server's compaction of a contract-abiding answer is accepted ... *)
Lemma stage_valid_compact : forall (req paths : list pathT) (sigs : list fsig),
    subseq paths req -> List.length sigs = List.length paths ->
    forallb fsig_valid sigs = true ->
    stage_response_valid fsig_valid (List.length req) (compact req paths sigs) = true.
Proof.
  intros req paths sigs Hsub Hlen Hv. apply stage_valid_iff.
  rewrite (stage_compaction req paths sigs Hsub Hlen). cbn [fst snd].
  repeat split.
  - lia.
  - apply subseq_length. exact Hsub.
  - exact Hv.
  - intros H. cbn in H. contradiction.
Qed.

(* ... and the client hands the caller exactly the endpoint's answer *)
Theorem stage_roundtrip : forall (req paths : list pathT) (sigs : list fsig),
    subseq paths req -> List.length sigs = List.length paths ->
    forallb fsig_valid sigs = true ->
    client_stage_finish fsig_valid req (compact req paths sigs) = GOk paths sigs.
Proof.
  intros req paths sigs Hsub Hlen Hv. unfold client_stage_finish.
  rewrite (stage_valid_compact req paths sigs Hsub Hlen Hv). cbn [negb].
  replace (sg_error (compact req paths sigs)) with ""%string by reflexivity.
  rewrite nonempty_empty.
  rewrite (stage_compaction req paths sigs Hsub Hlen).
  destruct (List.length paths =? 0) eqn:E; [|reflexivity].
  apply Nat.eqb_eq in E. rewrite (length_zero_nil _ paths E) in *.
  cbn in Hlen. rewrite (length_zero_nil _ sigs Hlen). reflexivity.
Qed.

Lemma stage_error : forall (req : list pathT) m, m <> ""%string ->
    client_stage_finish fsig_valid req {| sg_paths := []; sg_sigs := []; sg_error := m |}
    = GErr (ERemote m).
Proof.
  intros req m Hm. apply nonempty_true in Hm. unfold client_stage_finish, stage_response_valid.
  cbn [sg_paths sg_sigs sg_error List.length Nat.eqb Nat.ltb Nat.leb andb negb forallb].
  replace (List.length req <? 0) with false by (symmetry; apply Nat.ltb_ge; lia).
  rewrite Hm. cbn. reflexivity.
Qed.

(* ------------------------------------------------------------ transition *)

Lemma map_unwrap_wrap : forall (rs : list result),
    map (@ar_content result) (map (fun r => {| ar_content := r |}) rs) = rs.
Proof. induction rs; cbn; congruence. Qed.

Lemma forallb_wrap : forall (rs : list result),
    forallb (fun a => result_valid (ar_content a)) (map (fun r => {| ar_content := r |}) rs)
    = forallb result_valid rs.
Proof. induction rs; cbn; congruence. Qed.

Theorem transition_results : forall n (rs : list result) (ps : list problem) (m : bool),
    List.length rs = n -> forallb result_valid rs = true -> forallb problem_valid ps = true ->
    client_transition_finish result_valid problem_valid n (server_transition (TAOk rs ps m))
    = TOk rs ps m.
Proof.
  intros n rs ps m Hn Hr Hp. unfold client_transition_finish, trans_response_valid, server_transition.
  cbn [tr_results tr_problems tr_missing tr_error].
  rewrite map_length, Hn, Nat.eqb_refl, forallb_wrap, Hr, Hp. cbn [andb negb].
  rewrite nonempty_empty, map_unwrap_wrap. reflexivity.
Qed.

(* an endpoint failure stays a failure (its message survives only when the
   transition list is empty: the response is validated first) *)
Theorem transition_error : forall n m, m <> ""%string ->
    client_transition_finish (problem := problem) result_valid problem_valid n
                             (server_transition (TAErr m))
    = if n =? 0 then TErr (ERemote m) else TErr EInvalidResponse.
Proof.
  intros n m Hm. apply nonempty_true in Hm.
  unfold client_transition_finish, trans_response_valid, server_transition.
  cbn [tr_results tr_problems tr_missing tr_error List.length forallb andb].
  destruct n; cbn [Nat.eqb andb negb]; [rewrite Hm|]; reflexivity.
Qed.

Lemma forallb_map_comp : forall A B (f : B -> bool) (g : A -> B) (l : list A),
    forallb f (map g l) = forallb (fun x => f (g x)) l.
Proof. induction l; cbn; congruence. Qed.

Theorem trans_valid_iff : forall n (r : trans_response result problem),
    trans_response_valid result_valid problem_valid n r = true
    <-> (List.length (tr_results r) = n
         /\ forallb result_valid (map (@ar_content result) (tr_results r)) = true
         /\ forallb problem_valid (tr_problems r) = true).
Proof.
  intros n r. unfold trans_response_valid. rewrite !andb_true_iff, Nat.eqb_eq.
  rewrite forallb_map_comp. tauto.
Qed.

(* --------------------------------------------------------------- sessions *)

Notation rstep := (remote_step marshal unmarshal sig_of deltify patch of_ancestor content_nil
                               snap_valid delta_valid delta_empty delta_nil fsig_valid
                               result_valid problem_valid change_valid).
Notation rrun := (remote_run marshal unmarshal sig_of deltify patch of_ancestor content_nil
                             snap_valid delta_valid delta_empty delta_nil fsig_valid
                             result_valid problem_valid change_valid).
Notation ep_ok := (endpoint_ok marshal snap_valid fsig_valid result_valid problem_valid
                               change_valid).
Notation o_wf := (op_wf marshal of_ancestor change_valid).
Notation same := (@same_outcome_prop snapshot pathT fsig result problem).

Section Sessions.
Variables fixed read_only : bool.
Variable St : Type.
Variable E : endpoint snapshot pathT digestT fsig result problem change St.
Hypothesis E_ok : ep_ok fixed read_only E.

Lemma precheck_none_valid : forall (ps : list pathT) (ds : list digestT),
    client_stage_precheck (fsig := fsig) ps ds = None -> stage_request_valid ps ds = true.
Proof.
  intros ps ds. unfold client_stage_precheck, stage_request_valid.
  destruct (List.length ps =? List.length ds) eqn:E1; cbn [negb]; [|discriminate].
  destruct (List.length ps =? 0) eqn:E2; [discriminate|]. intros _.
  apply Nat.eqb_eq in E1. rewrite <- E1, Nat.eqb_refl. reflexivity.
Qed.

(* one operation: same outcome, same endpoint state, and either both runs go
   on with a live server or both stop *)
Lemma step_equiv : forall o st last,
    o_wf o -> known_c21 fixed read_only o = false ->
    let '(st1, r1) := local_step E st o in
    let '(s2, r2) := rstep E {| cl_last := last; sv_alive := true; sv_state := st |} o in
    same r1 r2 /\ ends_session r1 = ends_session r2
    /\ (ends_session r1 = false -> sv_alive s2 = true /\ sv_state s2 = st1).
Proof.
  intros o st last Hwf Hk. destruct o as [anc full | ps ds | cs]; cbn [local_step remote_step].
  - (* Scan *)
    cbn [op_wf] in Hwf. destruct (baseline_some last anc Hwf) as [base Hb].
    cbn [cl_last sv_alive sv_state negb]. rewrite Hb.
    pose proof (ok_scan E_ok st full) as Hans.
    unfold client_scan_request at 1. cbn [rq_full].
    destruct (ep_scan E st full) as [st' a] eqn:Es. cbn [snd] in Hans.
    pose proof (finish_server last base full (fun _ => a) Hans) as Hf.
    cbn beta in Hf. rewrite Hf.
    cbn [ends_session sv_alive sv_state]. repeat split; auto.
    destruct a; cbn; auto.
  - (* Stage *)
    cbn [cl_last sv_alive sv_state negb].
    pose proof (ok_stage E_ok st ps ds) as Hans.
    destruct (client_stage_precheck ps ds) as [r|] eqn:Ep.
    + (* answered by the client itself *)
      unfold client_stage_precheck in Ep.
      destruct (List.length ps =? List.length ds) eqn:E1; cbn [negb] in Ep.
      * destruct (List.length ps =? 0) eqn:E2; [|discriminate Ep].
        inversion Ep; subst r. clear Ep.
        apply Nat.eqb_eq in E1. apply Nat.eqb_eq in E2.
        assert (ps = []) by (apply length_zero_nil; exact E2). subst ps.
        assert (ds = []) by (apply length_zero_nil; cbn in E1; lia). subst ds.
        cbn [known_c21] in Hk.
        assert (Hfront : local_stage_front (fsig := fsig) fixed read_only
                                           (@nil pathT) (@nil digestT) = Some (GAOk [] [])).
        { unfold local_stage_front. cbn [List.length Nat.eqb negb].
          destruct fixed; [reflexivity|]. cbn [negb andb] in Hk. rewrite Hk. reflexivity. }
        rewrite (ok_stage_front E_ok st [] [] _ Hfront).
        cbn. auto.
      * inversion Ep; subst r. clear Ep.
        assert (Hfront : exists m, local_stage_front (fsig := fsig) fixed read_only ps ds
                                   = Some (GAErr m)).
        { unfold local_stage_front. rewrite E1. cbn [negb].
          destruct fixed; [eauto|]. destruct read_only; eauto. }
        destruct Hfront as [m Hfront].
        rewrite (ok_stage_front E_ok st ps ds _ Hfront).
        cbn. repeat split; auto; try discriminate.
    + rewrite (precheck_none_valid ps ds Ep). cbn [negb].
      destruct (ep_stage E st ps ds) as [st' a] eqn:Es. cbn [snd] in Hans.
      destruct a as [ps' ss | m]; cbn [stage_answer_wf] in Hans; cbn [server_stage lift_stage].
      * destruct Hans as (Hsub & Hlen & Hv).
        rewrite (stage_roundtrip ps ps' ss Hsub Hlen Hv).
        cbn. auto.
      * rewrite (stage_error ps m Hans). cbn. repeat split; auto; try discriminate.
  - (* Transition *)
    cbn [op_wf] in Hwf. cbn [cl_last sv_alive sv_state negb]. rewrite Hwf. cbn [negb].
    pose proof (ok_transition E_ok st cs Hwf) as Hans.
    destruct (ep_transition E st cs) as [st' a] eqn:Es. cbn [snd] in Hans.
    destruct a as [rs pr m | m]; cbn [trans_answer_wf] in Hans; cbn [lift_trans].
    + destruct Hans as (Hn & Hr & Hp).
      rewrite (transition_results (List.length cs) rs pr m Hn Hr Hp). cbn. auto.
    + rewrite (transition_error (List.length cs) m Hans).
      destruct (List.length cs =? 0); cbn; auto.
Qed.

Theorem session_equivalence : forall ops st last,
    Forall o_wf ops -> Forall (fun o => known_c21 fixed read_only o = false) ops ->
    Forall2 same (local_run E st ops)
            (rrun E {| cl_last := last; sv_alive := true; sv_state := st |} ops).
Proof.
  induction ops as [| o t IH]; intros st last Hwf Hk; cbn [local_run remote_run]; [constructor|].
  inversion Hwf as [| ? ? Ho Ht]; subst. inversion Hk as [| ? ? Hko Hkt]; subst.
  pose proof (step_equiv o st last Ho Hko) as H.
  destruct (local_step E st o) as [st1 r1].
  destruct (rstep E {| cl_last := last; sv_alive := true; sv_state := st |} o) as [s2 r2].
  destruct H as (Hsame & Hend & Hgo).
  constructor; [exact Hsame|].
  rewrite <- Hend. destruct (ends_session r1) eqn:Ee; [constructor|].
  destruct (Hgo eq_refl) as [Ha Hs].
  destruct s2 as [l2 a2 st2]. cbn in Ha, Hs. subst a2 st2.
  apply IH; assumption.
Qed.

End Sessions.

Theorem session_equivalence_fixed :
  forall (read_only : bool) (St : Type)
         (E : endpoint snapshot pathT digestT fsig result problem change St),
    ep_ok true read_only E ->
    forall ops st last,
      Forall o_wf ops ->
      Forall2 same (local_run E st ops)
              (rrun E {| cl_last := last; sv_alive := true; sv_state := st |} ops).
Proof.
  intros ro St E Hok ops st last Hwf.
  apply (session_equivalence true ro St E Hok); [exact Hwf|].
  apply Forall_forall. intros o _. destruct o as [| ps ds |]; try reflexivity.
  destruct ps; [destruct ds|]; reflexivity.
Qed.

(* ---------------------------------------------------------------- checker *)
Variable snapshot_eqb : snapshot -> snapshot -> bool.
Variable path_eqb : pathT -> pathT -> bool.
Variable fsig_eqb : fsig -> fsig -> bool.
Variable result_eqb : result -> result -> bool.
Variable problem_eqb : problem -> problem -> bool.
Hypothesis snapshot_eqb_spec : forall a b, snapshot_eqb a b = true <-> a = b.
Hypothesis path_eqb_spec : forall a b, path_eqb a b = true <-> a = b.
Hypothesis fsig_eqb_spec : forall a b, fsig_eqb a b = true <-> a = b.
Hypothesis result_eqb_spec : forall a b, result_eqb a b = true <-> a = b.
Hypothesis problem_eqb_spec : forall a b, problem_eqb a b = true <-> a = b.

Lemma list_eqb_spec : forall A (eqb : A -> A -> bool),
    (forall a b, eqb a b = true <-> a = b) ->
    forall x y, list_eqb eqb x y = true <-> x = y.
Proof.
  intros A eqb H. induction x as [| a x IH]; destruct y as [| b y]; cbn; split; intros E;
    try reflexivity; try discriminate.
  - apply andb_true_iff in E. destruct E as [E1 E2]. apply H in E1. apply IH in E2. congruence.
  - inversion E; subst. apply andb_true_iff. split; [apply H | apply IH]; reflexivity.
Qed.

Notation same_b := (same_outcome snapshot_eqb path_eqb fsig_eqb result_eqb problem_eqb).
Notation check := (check_c21 snapshot_eqb path_eqb fsig_eqb result_eqb problem_eqb).

Lemma same_outcome_spec : forall a b, same_b a b = true <-> same a b.
Proof.
  intros a b. unfold same_outcome, same_outcome_prop.
  destruct a as [[s|e t] | [p s|e] | [r p m|e]]; destruct b as [[s'|e' t'] | [p' s'|e'] | [r' p' m'|e']];
    try (split; [discriminate | contradiction]); try tauto.
  - apply snapshot_eqb_spec.
  - rewrite eqb_true_iff. tauto.
  - rewrite andb_true_iff, (list_eqb_spec _ _ path_eqb_spec), (list_eqb_spec _ _ fsig_eqb_spec). tauto.
  - rewrite !andb_true_iff, (list_eqb_spec _ _ result_eqb_spec),
      (list_eqb_spec _ _ problem_eqb_spec), eqb_true_iff. tauto.
Qed.

Theorem check_sound : forall loc rem, check loc rem = true <-> Forall2 same loc rem.
Proof.
  induction loc as [| a loc IH]; destruct rem as [| b rem]; cbn [check_c21].
  - split; intros _; constructor.
  - split; intros H; [discriminate H | inversion H].
  - split; intros H; [discriminate H | inversion H].
  - rewrite andb_true_iff, same_outcome_spec, IH. split.
    + intros [H1 H2]. constructor; assumption.
    + intros H. inversion H; subst. split; assumption.
Qed.

Theorem model_passes_check : forall fixed read_only St
    (E : endpoint snapshot pathT digestT fsig result problem change St),
    ep_ok fixed read_only E ->
    forall ops st last,
      Forall o_wf ops -> Forall (fun o => known_c21 fixed read_only o = false) ops ->
      check (local_run E st ops)
            (rrun E {| cl_last := last; sv_alive := true; sv_state := st |} ops) = true.
Proof.
  intros fx ro St E Hok ops st last Hwf Hk. apply check_sound.
  apply (session_equivalence fx ro St E Hok); assumption.
Qed.

End Proofs.

(* ------------------------------------------------- the known finding, concretely *)

(* A read-only endpoint in the model's terms: its Stage begins as
   local/endpoint.go's does, everything else is trivial. *)
Definition ro_endpoint (fx : bool) : endpoint unit unit unit unit unit unit unit unit :=
  {| ep_scan := fun st _ => (st, SAErr "unused" false);
     ep_stage := fun st ps ds =>
       (st, match local_stage_front (fsig := unit) fx true ps ds with
            | Some a => a
            | None => GAOk [] []
            end);
     ep_transition := fun st _ => (st, TAErr "endpoint is in read-only mode") |}.

Definition ro_local : list (res unit unit unit unit unit) :=
  local_run (ancestor := unit) (ro_endpoint false) tt [OpStage [] []].
Definition ro_remote : list (res unit unit unit unit unit) :=
  remote_run (fun _ : unit => Some tt) (fun _ : unit => Some tt) (fun _ : unit => tt)
             (fun _ _ => tt) (fun _ _ _ => Some tt) (fun _ : unit => tt)
             (fun _ => true) (fun _ => true) (fun _ : unit => true) (fun _ => true) tt
             (fun _ : unit => true) (fun _ : unit => true) (fun _ : unit => true)
             (fun _ : unit => true) (ro_endpoint false)
             {| cl_last := None; sv_alive := true; sv_state := tt |} [OpStage [] []].

Lemma readonly_empty_stage_diverges :
  ro_local = [ResStage (GErr (ERemote "endpoint is in read-only mode"))]
  /\ ro_remote = [ResStage (GOk [] [])]
  /\ known_c21 (ancestor := unit) (pathT := unit) (digestT := unit) (change := unit)
               false true (OpStage [] []) = true.
Proof. vm_compute. repeat split. Qed.

(* ------------------------------------------------- the hypotheses are satisfiable *)
Lemma hypotheses_satisfiable_example :
  let marshal (s : nat) := Some s in
  let unmarshal (b : nat) := Some b in
  let sig_of (b : nat) := b in
  let deltify (t s : nat) := Some (t, s) in
  let patch (base s : nat) (d : option (nat * nat)) :=
      match d with
      | None => Some 0
      | Some (t, s') => if s =? s' then Some t else None
      end in
  let valid (d : option (nat * nat)) := true in
  let empty (d : option (nat * nat)) := match d with None => true | Some _ => false end in
  (forall s b, marshal s = Some b -> unmarshal b = Some s)
  /\ (forall base target, patch base (sig_of base) (deltify target (sig_of base)) = Some target)
  /\ (forall t s, valid (deltify t s) = true) /\ valid None = true /\ empty None = true
  /\ let h := [ {| ev_anc := 9; ev_full := false; ev_answer := fun _ => SAOk 5 |};
                {| ev_anc := 9; ev_full := true; ev_answer := fun _ => SAErr "scan failed" true |};
                {| ev_anc := 9; ev_full := false; ev_answer := fun _ => SAOk 0 |};
                {| ev_anc := 8; ev_full := false; ev_answer := fun f => if f then SAOk 1 else SAOk 7 |} ] in
     Forall (event_wf marshal (fun a : nat => a) (fun _ => true)) h
     /\ map (fun st => (st_base st, st_result st, st_last st))
            (scan_trace marshal unmarshal sig_of deltify patch (fun a : nat => a)
                        (fun s => s =? 0) (fun _ => true) valid empty None None h)
        = [ (Some 9, ROk 5, Some 5);
            (Some 5, RErr (ERemote "scan failed") true, Some 5);
            (Some 5, ROk 0, Some 5);
            (Some 5, ROk 7, Some 7) ].
Proof.
  cbv zeta. repeat split.
  - intros s b H. inversion H. reflexivity.
  - intros base target. rewrite Nat.eqb_refl. reflexivity.
  - repeat constructor; cbn; try discriminate.
Qed.
