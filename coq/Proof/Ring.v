(* Proofs about Model/Ring.v: the ring buffer refines a bounded FIFO queue. *)
From Coq Require Import List Arith Lia Bool ZifyBool ZifyNat.
Import ListNotations.
From Mv Require Import Model.Ring.

(* ================================================================== *)
(* Generic list facts                                                  *)
(* ================================================================== *)
Section ListFacts.
Variable A : Type.
Implicit Types l d : list A.

Lemma nth_ext_eq : forall l1 l2 : list A,
  (forall i, nth_error l1 i = nth_error l2 i) -> l1 = l2.
Proof.
  induction l1 as [|a l1 IH]; intros [|b l2] H.
  - reflexivity.
  - specialize (H 0). discriminate H.
  - specialize (H 0). discriminate H.
  - pose proof (H 0) as H0. cbn in H0. injection H0 as ->.
    f_equal. apply IH. intro i. exact (H (S i)).
Qed.

Lemma nth_firstn : forall n l i,
  nth_error (firstn n l) i = if i <? n then nth_error l i else None.
Proof.
  induction n as [|n IH]; intros l i.
  - cbn [firstn]. destruct i; reflexivity.
  - destruct l as [|a l].
    + cbn [firstn]. destruct (i <? S n); destruct i; reflexivity.
    + cbn [firstn]. destruct i as [|i].
      * reflexivity.
      * cbn [nth_error]. rewrite IH.
        change (S i <? S n) with (i <? n). reflexivity.
Qed.

Lemma nth_skipn : forall n l i,
  nth_error (skipn n l) i = nth_error l (n + i).
Proof.
  induction n as [|n IH]; intros l i.
  - reflexivity.
  - destruct l as [|a l].
    + cbn [skipn]. destruct i; reflexivity.
    + cbn [skipn]. rewrite IH. reflexivity.
Qed.

Lemma nth_app : forall l1 l2 i,
  nth_error (l1 ++ l2) i =
  if i <? length l1 then nth_error l1 i else nth_error l2 (i - length l1).
Proof.
  intros l1 l2 i. destruct (i <? length l1) eqn:E.
  - apply nth_error_app1. lia.
  - apply nth_error_app2. lia.
Qed.

Lemma nth_beyond : forall l i, length l <= i -> nth_error l i = None.
Proof. intros l i H. apply nth_error_None. exact H. Qed.

Lemma nth_upd_range : forall l p d j,
  p + length d <= length l ->
  nth_error (upd_range l p d) j =
  if j <? p then nth_error l j
  else if j <? p + length d then nth_error d (j - p)
  else nth_error l j.
Proof.
  intros l p d j H. unfold upd_range.
  rewrite nth_app. rewrite firstn_length.
  replace (Nat.min p (length l)) with p by lia.
  destruct (j <? p) eqn:E1.
  - rewrite nth_firstn. rewrite E1. reflexivity.
  - rewrite nth_app.
    replace (j - p <? length d) with (j <? p + length d)
      by (destruct (j <? p + length d) eqn:E2;
          destruct (j - p <? length d) eqn:E3; lia).
    destruct (j <? p + length d) eqn:E2.
    + reflexivity.
    + rewrite nth_skipn. f_equal. lia.
Qed.

Lemma upd_range_length : forall l p d,
  p + length d <= length l -> length (upd_range l p d) = length l.
Proof.
  intros l p d H. unfold upd_range.
  rewrite !app_length, firstn_length, skipn_length. lia.
Qed.

Lemma skipn_skipn' : forall a b l, skipn a (skipn b l) = skipn (b + a) l.
Proof.
  intros a b l. apply nth_ext_eq. intro i.
  rewrite !nth_skipn. f_equal. lia.
Qed.

Lemma firstn_plus : forall a b l,
  firstn (a + b) l = firstn a l ++ firstn b (skipn a l).
Proof.
  intros a b l. apply nth_ext_eq. intro i.
  rewrite nth_app, !nth_firstn, firstn_length.
  destruct (Nat.le_gt_cases a (length l)) as [Hl|Hl].
  - replace (Nat.min a (length l)) with a by lia.
    destruct (i <? a) eqn:E1.
    + replace (i <? a + b) with true by lia. reflexivity.
    + rewrite nth_skipn.
      replace (i - a <? b) with (i <? a + b)
        by (destruct (i <? a + b) eqn:E2; destruct (i - a <? b) eqn:E3; lia).
      destruct (i <? a + b); [f_equal; lia | reflexivity].
  - replace (Nat.min a (length l)) with (length l) by lia.
    destruct (i <? length l) eqn:E1.
    + replace (i <? a + b) with true by lia.
      replace (i <? a) with true by lia. reflexivity.
    + rewrite (nth_beyond l i) by lia.
      rewrite nth_skipn.
      rewrite (nth_beyond l (a + _)) by lia.
      destruct (i <? a + b); destruct (_ <? b); reflexivity.
Qed.

End ListFacts.

Arguments nth_ext_eq {A}.
Arguments nth_firstn {A}.
Arguments nth_skipn {A}.
Arguments nth_app {A}.
Arguments nth_beyond {A}.
Arguments nth_upd_range {A}.
Arguments upd_range_length {A}.
Arguments skipn_skipn' {A}.
Arguments firstn_plus {A}.

Lemma mod_wrap : forall a b n, a < n -> b <= n ->
  (a + b) mod n = if a + b <? n then a + b else a + b - n.
Proof.
  intros a b n Ha Hb. destruct (a + b <? n) eqn:E.
  - apply Nat.mod_small. lia.
  - replace (a + b) with ((a + b - n) + 1 * n) at 1 by lia.
    rewrite Nat.mod_add by lia. apply Nat.mod_small. lia.
Qed.

(* ================================================================== *)
(* The abstraction function                                            *)
(* ================================================================== *)
Section RingFacts.
Variable A : Type.
Implicit Types b : buf A.

Lemma abs_length : forall b, inv b -> length (abs b) = used b.
Proof.
  intros b (Hl & Hu & Hs). unfold abs, rotate.
  rewrite firstn_length, app_length, skipn_length, firstn_length. lia.
Qed.

Lemma nth_abs : forall b i, inv b ->
  nth_error (abs b) i =
  if i <? used b then nth_error (storage b) ((start b + i) mod size b) else None.
Proof.
  intros b i (Hl & Hu & Hs). unfold abs, rotate.
  rewrite nth_firstn. destruct (i <? used b) eqn:E; [|reflexivity].
  assert (Hsz : start b < size b) by lia.
  rewrite mod_wrap by lia.
  rewrite nth_app, skipn_length, nth_skipn, nth_firstn.
  rewrite Hl.
  destruct (start b + i <? size b) eqn:E1.
  - replace (i <? size b - start b) with true by lia. reflexivity.
  - replace (i <? size b - start b) with false by lia.
    replace (i - (size b - start b) <? start b) with true by lia.
    f_equal. lia.
Qed.

Lemma abs_used0 : forall b, used b = 0 -> abs b = [].
Proof. intros b H. unfold abs. rewrite H. reflexivity. Qed.

(* ---------- L3: reset_if_empty ---------- *)
Lemma reset_if_empty_spec : forall b, inv b ->
  inv (reset_if_empty b) /\ size (reset_if_empty b) = size b /\
  abs (reset_if_empty b) = abs b /\ used (reset_if_empty b) = used b.
Proof.
  intros b (Hl & Hu & Hs). unfold reset_if_empty.
  destruct (used b) eqn:E.
  - unfold inv, abs. cbn [storage size start used]. rewrite E. cbn [firstn].
    repeat split; try lia; auto.
  - unfold inv. rewrite E. repeat split; auto.
Qed.

(* ---------- L1: appending at the free segment ---------- *)
Lemma free_seg_bounds : forall b fs fl, inv b -> used b < size b ->
  free_seg b = (fs, fl) ->
  1 <= fl /\ fl <= size b - used b /\ fs + fl <= size b.
Proof.
  intros b fs fl (Hl & Hu & Hs) Hlt H. unfold free_seg in H.
  assert (Hm := mod_wrap (start b) (used b) (size b)).
  rewrite Hm in H by lia. clear Hm.
  injection H as <- <-.
  destruct (start b + used b <? size b) eqn:E; lia.
Qed.

Lemma append_free : forall b fs fl d, inv b -> used b < size b ->
  free_seg b = (fs, fl) -> length d <= fl ->
  let b' := {| storage := upd_range (storage b) fs d; size := size b;
               start := start b; used := used b + length d |} in
  inv b' /\ abs b' = abs b ++ d.
Proof.
  intros b fs fl d Hinv Hlt Hfs Hd b'.
  pose proof (free_seg_bounds b fs fl Hinv Hlt Hfs) as (Hb1 & Hb2 & Hb3).
  pose proof Hinv as (Hl & Hu & Hs).
  assert (Hinv' : inv b').
  { unfold inv, b'. cbn [storage size start used].
    rewrite upd_range_length by lia. lia. }
  split; [exact Hinv'|].
  apply nth_ext_eq. intro i.
  rewrite nth_abs by exact Hinv'.
  rewrite nth_app, abs_length by exact Hinv.
  rewrite nth_abs by exact Hinv.
  unfold b'. cbn [storage size start used].
  unfold free_seg in Hfs.
  assert (Hm := mod_wrap (start b) (used b) (size b)).
  rewrite Hm in Hfs by lia. clear Hm.
  injection Hfs as Hfs Hfl.
  destruct (i <? used b + length d) eqn:E1.
  - rewrite nth_upd_range by lia.
    rewrite mod_wrap by lia.
    destruct (i <? used b) eqn:E2.
    + destruct (start b + used b <? size b) eqn:E3;
      destruct (start b + i <? size b) eqn:E4;
      repeat match goal with
             | |- context [if ?c then _ else _] => destruct c eqn:?
             end; try lia; try reflexivity.
    + destruct (start b + used b <? size b) eqn:E3;
      destruct (start b + i <? size b) eqn:E4;
      repeat match goal with
             | |- context [if ?c then _ else _] => destruct c eqn:?
             end; try lia; try (f_equal; lia).
  - replace (i <? used b) with false by lia.
    symmetry. apply nth_beyond. lia.
Qed.

(* ---------- L2: consuming from the data segment ---------- *)
Lemma data_seg_bounds : forall b ds dl, inv b -> 0 < used b ->
  data_seg b = (ds, dl) ->
  ds = start b /\ 1 <= dl /\ dl <= used b /\ ds + dl <= size b.
Proof.
  intros b ds dl (Hl & Hu & Hs) Hlt H. unfold data_seg in H.
  injection H as <- <-. lia.
Qed.

Lemma consume_front : forall b ds dl c, inv b -> 0 < used b ->
  data_seg b = (ds, dl) -> c <= dl ->
  let b' := {| storage := storage b; size := size b;
               start := (start b + c) mod size b; used := used b - c |} in
  inv b' /\ abs b' = skipn c (abs b) /\
  slice (storage b) ds c = firstn c (abs b).
Proof.
  intros b ds dl c Hinv Hlt Hds Hc b'.
  pose proof (data_seg_bounds b ds dl Hinv Hlt Hds) as (-> & Hb1 & Hb2 & Hb3).
  pose proof Hinv as (Hl & Hu & Hs).
  assert (Hm : (start b + c) mod size b =
               if start b + c <? size b then start b + c else start b + c - size b)
    by (apply mod_wrap; lia).
  assert (Hinv' : inv b').
  { unfold inv, b'. cbn [storage size start used]. rewrite Hm.
    destruct (start b + c <? size b) eqn:E; lia. }
  split; [exact Hinv'|]. split.
  - apply nth_ext_eq. intro i.
    rewrite nth_abs by exact Hinv'.
    rewrite nth_skipn, nth_abs by exact Hinv.
    unfold b'. cbn [storage size start used]. rewrite Hm.
    destruct (i <? used b - c) eqn:E1.
    + replace (c + i <? used b) with true by lia.
      destruct (start b + c <? size b) eqn:E2.
      * f_equal. rewrite !mod_wrap by lia.
        replace (start b + (c + i)) with (start b + c + i) by lia.
        reflexivity.
      * assert (start b + c = size b) by lia.
        f_equal. rewrite (mod_wrap (start b) (c + i)) by lia.
        rewrite Nat.mod_small by lia.
        replace (start b + (c + i) <? size b) with false by lia. lia.
    + replace (c + i <? used b) with false by lia. reflexivity.
  - apply nth_ext_eq. intro i. unfold slice.
    rewrite !nth_firstn, nth_skipn, nth_abs by exact Hinv.
    destruct (i <? c) eqn:E1; [|reflexivity].
    replace (i <? used b) with true by lia.
    f_equal. rewrite Nat.mod_small by lia. reflexivity.
Qed.

End RingFacts.

Arguments abs_length {A}.
Arguments nth_abs {A}.
Arguments abs_used0 {A}.
Arguments reset_if_empty_spec {A}.
Arguments free_seg_bounds {A}.
Arguments append_free {A}.
Arguments data_seg_bounds {A}.
Arguments consume_front {A}.

(* ================================================================== *)
(* Write / WriteByte                                                   *)
(* ================================================================== *)
Section Ops.
Variable A : Type.
Implicit Types b : buf A.

Lemma write_loop_spec : forall fuel b data result, inv b -> length data <= fuel ->
  exists b',
    write_loop fuel b data result =
      Some (b', skipn (Nat.min (length data) (size b - used b)) data,
            result + Nat.min (length data) (size b - used b)) /\
    inv b' /\ size b' = size b /\
    used b' = used b + Nat.min (length data) (size b - used b) /\
    abs b' = abs b ++ firstn (Nat.min (length data) (size b - used b)) data.
Proof.
  assert (Hnil : forall fuel b result, inv b ->
    exists b',
    write_loop fuel b [] result =
      Some (b', skipn (Nat.min (length (@nil A)) (size b - used b)) [],
            result + Nat.min (length (@nil A)) (size b - used b)) /\
    inv b' /\ size b' = size b /\
    used b' = used b + Nat.min (length (@nil A)) (size b - used b) /\
    abs b' = abs b ++ firstn (Nat.min (length (@nil A)) (size b - used b)) []).
  { intros fuel b result Hinv. exists b. cbn [length Nat.min skipn firstn].
    rewrite !Nat.add_0_r, app_nil_r.
    destruct fuel; cbn [write_loop]; auto. }
  induction fuel as [|fuel IH]; intros b data result Hinv Hlen.
  - destruct data as [|a data]; [apply Hnil; exact Hinv | cbn in Hlen; lia].
  - destruct data as [|a data]; [apply Hnil; exact Hinv |].
    cbn [write_loop].
    remember (a :: data) as dd eqn:Hdd.
    assert (Hdd1 : 1 <= length dd) by (subst dd; cbn; lia).
    clear Hdd a data.
    pose proof Hinv as (Hl & Hu & Hs).
    destruct (used b =? size b) eqn:E.
    + exists b. replace (size b - used b) with 0 by lia.
      rewrite Nat.min_0_r. cbn [skipn firstn].
      rewrite !Nat.add_0_r, app_nil_r. auto.
    + assert (Hlt : used b < size b) by lia.
      destruct (free_seg b) as [fs fl] eqn:Hfs.
      pose proof (free_seg_bounds b fs fl Hinv Hlt Hfs) as (Hb1 & Hb2 & Hb3).
      remember (Nat.min fl (length dd)) as copied eqn:Hc.
      assert (Hfl : length (firstn copied dd) = copied)
        by (rewrite firstn_length; lia).
      pose proof (append_free b fs fl (firstn copied dd) Hinv Hlt Hfs
                    ltac:(lia)) as Happ.
      cbv zeta in Happ. rewrite Hfl in Happ. destruct Happ as (Hinv1 & Habs1).
      assert (Hlen1 : length (skipn copied dd) <= fuel)
        by (rewrite skipn_length; lia).
      destruct (IH _ (skipn copied dd) (result + copied) Hinv1 Hlen1)
        as (b2 & Heq & Hinv2 & Hsz2 & Hu2 & Habs2).
      cbn [size used] in Heq, Hsz2, Hu2, Habs2.
      assert (Hk : copied + Nat.min (length (skipn copied dd))
                                    (size b - (used b + copied))
                   = Nat.min (length dd) (size b - used b))
        by (rewrite skipn_length; lia).
      exists b2. rewrite Heq, skipn_skipn', <- Nat.add_assoc, Hk.
      split; [reflexivity|]. split; [exact Hinv2|]. split; [exact Hsz2|].
      split; [lia|].
      rewrite Habs2, Habs1, <- Hk, firstn_plus, app_assoc. reflexivity.
Qed.

Lemma ring_write_spec :
  forall (b : buf A) (d : list A), inv b ->
    exists b', let k := Nat.min (length d) (size b - used b) in
      write b d = Some (b', k, if Nat.ltb k (length d) then EFull else ENil)
      /\ inv b' /\ size b' = size b /\ abs b' = abs b ++ firstn k d.
Proof.
  intros b d Hinv.
  destruct (write_loop_spec (S (length d)) b d 0 Hinv ltac:(lia))
    as (b' & Heq & Hinv' & Hsz & Hu & Habs).
  exists b'. cbv zeta. unfold write. rewrite Heq. cbn [Nat.add].
  pose proof Hinv as (Hl & Hu0 & Hs).
  pose proof (skipn_length (Nat.min (length d) (size b - used b)) d) as Hsk.
  split; [|auto].
  destruct (skipn (Nat.min (length d) (size b - used b)) d) as [|x t].
  - cbn [length] in Hsk.
    replace (Nat.min (length d) (size b - used b) <? length d) with false by lia.
    reflexivity.
  - cbn [length] in Hsk.
    replace (Nat.min (length d) (size b - used b) <? length d) with true by lia.
    replace (used b' =? size b') with true by lia. reflexivity.
Qed.

Lemma write_byte_spec : forall b x, inv b ->
  (used b = size b -> write_byte b x = (b, EFull)) /\
  (used b <> size b ->
   exists b', write_byte b x = (b', ENil) /\ inv b' /\ size b' = size b /\
              abs b' = abs b ++ [x]).
Proof.
  intros b x Hinv. unfold write_byte. split; intro H.
  - replace (used b =? size b) with true by lia. reflexivity.
  - replace (used b =? size b) with false by lia.
    pose proof Hinv as (Hl & Hu & Hs).
    assert (Hlt : used b < size b) by lia.
    pose proof (free_seg_bounds b _ _ Hinv Hlt eq_refl) as (Hb1 & Hb2 & Hb3).
    pose proof (append_free b _ _ [x] Hinv Hlt eq_refl) as Happ.
    cbn [length] in Happ. specialize (Happ ltac:(lia)).
    cbv zeta in Happ. destruct Happ as (Hinv1 & Habs1).
    eexists. split; [reflexivity|]. split; [exact Hinv1|].
    split; [reflexivity | exact Habs1].
Qed.

(* ================================================================== *)
(* Read / ReadByte                                                     *)
(* ================================================================== *)
Lemma read_loop_spec : forall fuel b n acc, inv b -> n <= fuel ->
  exists b', read_loop fuel b n acc = Some (b', acc ++ firstn n (abs b)) /\
             inv b' /\ size b' = size b /\ abs b' = skipn n (abs b).
Proof.
  induction fuel as [|fuel IH]; intros b n acc Hinv Hn.
  - assert (n = 0) by lia. subst n. exists b. cbn. rewrite app_nil_r. auto.
  - destruct n as [|n'].
    + exists b. cbn. rewrite app_nil_r. auto.
    + cbn [read_loop]. remember (S n') as n eqn:Hn'.
      destruct (used b) as [|u] eqn:Hu.
      * exists b. rewrite (abs_used0 b Hu), firstn_nil, skipn_nil, app_nil_r. auto.
      * assert (Hlt : 0 < used b) by lia.
        destruct (data_seg b) as [ds dl] eqn:Hds.
        pose proof (data_seg_bounds b ds dl Hinv Hlt Hds) as (Hd0 & Hd1 & Hd2 & Hd3).
        remember (Nat.min n dl) as copied eqn:Hc.
        pose proof (consume_front b ds dl copied Hinv Hlt Hds ltac:(lia)) as Hcf.
        cbv zeta in Hcf. destruct Hcf as (Hinv1 & Habs1 & Hsl).
        rewrite <- Hu.
        match type of Hinv1 with inv ?x => set (b1 := x) in * end.
        destruct (IH b1 (n - copied) (acc ++ slice (storage b) ds copied) Hinv1
                    ltac:(lia)) as (b2 & Heq & Hinv2 & Hsz2 & Habs2).
        exists b2. rewrite Heq. split.
        { rewrite Hsl, Habs1, <- app_assoc, <- firstn_plus.
          replace (copied + (n - copied)) with n by lia. reflexivity. }
        split; [exact Hinv2|]. split; [exact Hsz2|].
        rewrite Habs2, Habs1, skipn_skipn'. f_equal. lia.
Qed.

Lemma ring_read_spec :
  forall (b : buf A) (n : nat), inv b -> n <> 0 -> used b <> 0 ->
    exists b',
      read b n = Some (b', firstn n (abs b), ENil)
      /\ inv b' /\ size b' = size b /\ abs b' = skipn n (abs b).
Proof.
  intros b n Hinv Hn Hu. unfold read.
  destruct n as [|n']; [lia|]. destruct (used b) as [|u] eqn:E; [lia|].
  destruct (read_loop_spec (S (S n')) b (S n') [] Hinv ltac:(lia))
    as (b1 & Heq & Hinv1 & Hsz1 & Habs1).
  rewrite Heq. cbn [app].
  destruct (reset_if_empty_spec b1 Hinv1) as (Hi & Hs & Ha & _).
  exists (reset_if_empty b1). split; [reflexivity|].
  split; [exact Hi|]. split; [lia|]. rewrite Ha. exact Habs1.
Qed.

Lemma ring_read_edge :
  forall (b : buf A) (n : nat),
    (n = 0 -> read b n = Some (b, [], ENil)) /\
    (n <> 0 -> used b = 0 -> read b n = Some (b, [], EEOF)).
Proof.
  intros b n. split.
  - intros ->. reflexivity.
  - intros Hn Hu. unfold read. destruct n; [lia|]. rewrite Hu. reflexivity.
Qed.

Lemma read_byte_spec : forall b, inv b ->
  (used b = 0 -> read_byte b = (b, None, EEOF)) /\
  (used b <> 0 ->
   exists b' x t, abs b = x :: t /\ read_byte b = (b', Some x, ENil) /\
                  inv b' /\ size b' = size b /\ abs b' = t).
Proof.
  intros b Hinv. unfold read_byte. split; intro H.
  - rewrite H. reflexivity.
  - destruct (used b) as [|u] eqn:E; [lia|]. rewrite <- E.
    assert (Hlt : 0 < used b) by lia.
    pose proof Hinv as (Hl & Hu & Hs).
    pose proof (data_seg_bounds b _ _ Hinv Hlt eq_refl) as (_ & Hd1 & Hd2 & Hd3).
    pose proof (consume_front b _ _ 1 Hinv Hlt eq_refl Hd1) as Hcf.
    cbv zeta in Hcf. destruct Hcf as (Hinv1 & Habs1 & _).
    match type of Hinv1 with inv ?x => set (b1 := x) in * end.
    destruct (reset_if_empty_spec b1 Hinv1) as (Hi & Hsz & Ha & _).
    pose proof (abs_length b Hinv) as Hal.
    pose proof (nth_abs b 0 Hinv) as Hn0.
    replace (0 <? used b) with true in Hn0 by lia.
    rewrite Nat.add_0_r, Nat.mod_small in Hn0 by lia.
    destruct (abs b) as [|x t] eqn:Eabs; [cbn in Hal; lia|].
    cbn [nth_error] in Hn0. rewrite <- Hn0.
    exists (reset_if_empty b1), x, t.
    split; [reflexivity|]. split; [reflexivity|]. split; [exact Hi|].
    split; [exact Hsz|]. rewrite Ha, Habs1. reflexivity.
Qed.

End Ops.

Arguments write_loop_spec {A}.
Arguments ring_write_spec {A}.
Arguments write_byte_spec {A}.
Arguments read_loop_spec {A}.
Arguments ring_read_spec {A}.
Arguments ring_read_edge {A}.
Arguments read_byte_spec {A}.

(* ================================================================== *)
(* Peer logs                                                           *)
(* ================================================================== *)

(* [chain e0 lg e']: starting with error e0, the loop performed the peer
   requests lg (each one started with a nil error) and ended with e'. *)
Fixpoint chain (e0 : err) (lg : list (nat * nat * err)) (e' : err) : Prop :=
  match lg with
  | [] => e' = e0
  | (_, _, e1) :: t => is_nil e0 = true /\ chain e1 t e'
  end.

Lemma last_err_cons : forall x y t, last_err (x :: y :: t) = last_err (y :: t).
Proof.
  intros x y t. unfold last_err. cbn [rev].
  destruct (rev t ++ [y]) as [|p q] eqn:E.
  - apply (f_equal (@length _)) in E. rewrite app_length in E. cbn in E. lia.
  - reflexivity.
Qed.

Lemma chain_last : forall lg e0 e', chain e0 lg e' ->
  e' = match lg with [] => e0 | _ :: _ => last_err lg end.
Proof.
  induction lg as [|[[m c] e1] t IH]; intros e0 e' H.
  - exact H.
  - cbn [chain] in H. destruct H as (_ & H). specialize (IH e1 e' H).
    destruct t as [|y t'].
    + rewrite IH. reflexivity.
    + rewrite last_err_cons. exact IH.
Qed.

Lemma chain_last_nil : forall lg e', chain ENil lg e' -> last_err lg = e'.
Proof.
  intros lg e' H. apply chain_last in H. destruct lg; subst e'; reflexivity.
Qed.

Lemma chain_errs_nil : forall lg e0 e', chain e0 lg e' ->
  errs_nil_but_last lg = true.
Proof.
  induction lg as [|[[m c] e1] t IH]; intros e0 e' H.
  - reflexivity.
  - cbn [chain] in H. destruct H as (_ & H).
    destruct t as [|[[m2 c2] e2] t'].
    + reflexivity.
    + pose proof (IH e1 e' H) as IH'.
      cbn [chain] in H. destruct H as (Hn & _).
      change (errs_nil_but_last ((m, c, e1) :: (m2, c2, e2) :: t'))
        with (is_nil e1 && errs_nil_but_last ((m2, c2, e2) :: t'))%bool.
      rewrite Hn, IH'. reflexivity.
Qed.

Lemma cond3_true : forall n u s e,
  (Nat.eqb n 0 || Nat.eqb u s || negb (is_nil e))%bool = true ->
  n = 0 \/ u = s \/ is_nil e = false.
Proof. intros n u s e H. destruct (is_nil e); cbn [negb] in H; lia. Qed.

Lemma cond3_false : forall n u s e,
  (Nat.eqb n 0 || Nat.eqb u s || negb (is_nil e))%bool = false ->
  n <> 0 /\ u <> s /\ is_nil e = true.
Proof. intros n u s e H. destruct (is_nil e); cbn [negb] in H; lia. Qed.

Lemma cond2_true : forall u e,
  (Nat.eqb u 0 || negb (is_nil e))%bool = true ->
  u = 0 \/ is_nil e = false.
Proof. intros u e H. destruct (is_nil e); cbn [negb] in H; lia. Qed.

Lemma cond2_false : forall u e,
  (Nat.eqb u 0 || negb (is_nil e))%bool = false ->
  u <> 0 /\ is_nil e = true.
Proof. intros u e H. destruct (is_nil e); cbn [negb] in H; lia. Qed.

Section Peers.
Variable A : Type.
Implicit Types b : buf A.

Lemma reader_read_spec : forall (r r1 : reader A) m got e1,
  reader_read r m = (r1, got, e1) ->
  exists c, c <= m /\ c <= length (rsrc r) /\ got = firstn c (rsrc r) /\
    length got = c /\ rsrc r1 = skipn c (rsrc r) /\
    rlog r1 = rlog r ++ [(m, c, e1)] /\
    (is_nil e1 = true -> S (length (rscript r1)) <= length (rscript r)).
Proof.
  intros r r1 m got e1 H. unfold reader_read in H.
  destruct (rscript r) as [|[k e] rest] eqn:E.
  - injection H as <- <- <-. exists 0. cbn.
    repeat split; try lia; try reflexivity; try discriminate.
  - injection H as <- <- <-.
    exists (Nat.min (Nat.min k m) (length (rsrc r))). cbn.
    repeat split; try lia; try reflexivity.
    rewrite firstn_length. lia.
Qed.

Lemma writer_write_spec : forall (w w1 : writer A) d c e1,
  writer_write w d = (w1, c, e1) ->
  c <= length d /\ wsink w1 = wsink w ++ firstn c d /\
  wlog w1 = wlog w ++ [(length d, c, e1)] /\
  ((wscript w = [] /\ wscript w1 = [] /\ c = length d /\ e1 = ENil) \/
   S (length (wscript w1)) = length (wscript w)).
Proof.
  intros w w1 d c e1 H. unfold writer_write in H.
  destruct (wscript w) as [|[k e] rest] eqn:E.
  - injection H as <- <- <-. cbn. rewrite firstn_all.
    repeat split; try lia; try reflexivity; try (left; auto).
  - injection H as <- <- <-. cbn.
    repeat split; try lia; try reflexivity; try (right; reflexivity).
Qed.

(* ================================================================== *)
(* ReadNFrom                                                           *)
(* ================================================================== *)
Lemma readn_stop : forall fuel b (r : reader A) n result e,
  (Nat.eqb n 0 || Nat.eqb (used b) (size b) || negb (is_nil e))%bool = true ->
  readn_loop fuel b r n result e = Some (b, r, n, result, e).
Proof.
  intros fuel b r n result e H. destruct fuel; cbn [readn_loop]; rewrite H; reflexivity.
Qed.

Lemma readn_loop_spec : forall fuel b (r : reader A) n result e, inv b ->
  (is_nil e = true -> length (rscript r) < fuel) ->
  exists k lg b' r' e',
    readn_loop fuel b r n result e = Some (b', r', n - k, result + k, e') /\
    inv b' /\ size b' = size b /\ used b' = used b + k /\
    abs b' = abs b ++ firstn k (rsrc r) /\
    rsrc r' = skipn k (rsrc r) /\ k <= length (rsrc r) /\ k <= n /\
    rlog r' = rlog r ++ lg /\ sum_c lg = k /\
    readn_log_ok lg n (size b - used b) = true /\
    chain e lg e' /\
    (n - k = 0 \/ used b' = size b' \/ is_nil e' = false).
Proof.
  induction fuel as [|fuel IH]; intros b r n result e Hinv Hfuel;
    destruct ((Nat.eqb n 0 || Nat.eqb (used b) (size b) || negb (is_nil e))%bool)
      eqn:Hcond.
  1,3: exists 0, [], b, r, e; rewrite (readn_stop _ b r n result e Hcond);
       rewrite Nat.sub_0_r, Nat.add_0_r, !app_nil_r; cbn [firstn skipn sum_c readn_log_ok chain];
       repeat match goal with |- _ /\ _ => split end;
       try exact Hinv; try lia; try reflexivity;
       apply cond3_true in Hcond; lia.
  - apply cond3_false in Hcond. destruct Hcond as (_ & _ & Hn).
    specialize (Hfuel Hn). lia.
  - pose proof (cond3_false _ _ _ _ Hcond) as (Hn0 & Hne & Hn).
    assert (Hlt : used b < size b).
    { destruct Hinv as (_ & Hu & _). lia. }
    specialize (Hfuel Hn).
    cbn [readn_loop]. rewrite Hcond.
    destruct (free_seg b) as [fs fl] eqn:Hfs.
    pose proof (free_seg_bounds b fs fl Hinv Hlt Hfs) as (Hb1 & Hb2 & Hb3).
    remember (if n <? fl then n else fl) as m eqn:Hm.
    assert (Hm1 : 1 <= m /\ m <= n /\ m <= fl)
      by (subst m; destruct (n <? fl) eqn:?; lia).
    destruct (reader_read r m) as [[r1 got] e1] eqn:Hrr.
    destruct (reader_read_spec r r1 m got e1 Hrr)
      as (c & Hc1 & Hc2 & Hgot & Hlg & Hsrc1 & Hlog1 & Hscr1).
    pose proof (append_free b fs fl got Hinv Hlt Hfs ltac:(lia)) as Happ.
    cbv zeta in Happ. destruct Happ as (Hinv1 & Habs1).
    assert (Hfuel1 : is_nil e1 = true -> length (rscript r1) < fuel).
    { intro H1. specialize (Hscr1 H1). lia. }
    destruct (IH _ r1 (n - length got) (result + length got) e1 Hinv1 Hfuel1)
      as (k' & lg' & b' & r' & e' & Heq & Hinv' & Hsz' & Hu' & Habs' & Hsrc' &
          Hk1 & Hk2 & Hlog' & Hsum' & Hok' & Hch' & Hstop').
    cbn [size used] in Hsz', Hu', Hok'.
    rewrite Hlg in *.
    exists (c + k'), ((m, c, e1) :: lg'), b', r', e'.
    split.
    { replace (n - (c + k')) with (n - c - k') by lia.
      replace (result + (c + k')) with (result + c + k') by lia. exact Heq. }
    split; [exact Hinv'|]. split; [exact Hsz'|]. split; [lia|].
    split. { rewrite Habs', Habs1, Hsrc1, Hgot, firstn_plus, app_assoc. reflexivity. }
    split. { rewrite Hsrc', Hsrc1, skipn_skipn'. reflexivity. }
    rewrite Hsrc1, skipn_length in Hk1.
    split; [lia|]. split; [lia|].
    split. { rewrite Hlog', Hlog1, <- app_assoc. reflexivity. }
    split. { cbn [sum_c]. lia. }
    split.
    { cbn [readn_log_ok].
      replace (size b - used b - c) with (size b - (used b + c)) by lia.
      rewrite Hok'.
      replace (1 <=? m) with true by lia. replace (m <=? n) with true by lia.
      replace (m <=? size b - used b) with true by lia.
      replace (c <=? m) with true by lia. reflexivity. }
    split. { cbn [chain]. split; [exact Hn | exact Hch']. }
    replace (n - (c + k')) with (n - c - k') by lia. exact Hstop'.
Qed.

Definition readn_final (n' used' size' : nat) (e : err) : err :=
  let e1 := if (negb (Nat.eqb n' 0) && Nat.eqb used' size' && is_nil e)%bool
            then EFull else e in
  if (is_eof e1 && Nat.eqb n' 0)%bool then ENil else e1.

Lemma readn_err_ok : forall e' n k u sz,
  k <= n -> u + k <= sz ->
  (n - k = 0 \/ u + k = sz \/ is_nil e' = false) ->
  err_eqb (readn_final (n - k) (u + k) sz e')
    (if is_nil e'
     then (if (Nat.ltb k n && Nat.eqb k (sz - u))%bool then EFull else ENil)
     else if (is_eof e' && Nat.eqb k n)%bool then ENil else e') = true /\
  (if is_nil e' then (Nat.eqb k n || Nat.eqb k (sz - u))%bool else true) = true.
Proof.
  intros e' n k u sz Hk Hu Hstop. unfold readn_final.
  destruct e'; cbn [is_nil is_eof];
    destruct (n - k =? 0) eqn:E1; destruct (u + k =? sz) eqn:E2;
    destruct (k <? n) eqn:E3; destruct (k =? sz - u) eqn:E4;
    destruct (k =? n) eqn:E5; cbn; try (split; reflexivity); try lia;
    exfalso; destruct Hstop as [H|[H|H]]; try lia; try discriminate H.
Qed.

(* ================================================================== *)
(* WriteTo                                                             *)
(* ================================================================== *)
Definition wneed b (w : writer A) : nat :=
  length (wscript w) + (if start b + used b <=? size b then 1 else 2).

Lemma writeto_stop : forall fuel b (w : writer A) result e,
  (Nat.eqb (used b) 0 || negb (is_nil e))%bool = true ->
  writeto_loop fuel b w result e = Some (b, w, result, e).
Proof.
  intros fuel b w result e H. destruct fuel; cbn [writeto_loop]; rewrite H; reflexivity.
Qed.

Lemma slice_length : forall (l : list A) i n, i + n <= length l ->
  length (slice l i n) = n.
Proof. intros l i n H. unfold slice. rewrite firstn_length, skipn_length. lia. Qed.

Lemma writeto_loop_spec : forall fuel b (w : writer A) result e, inv b ->
  (is_nil e = true -> 0 < used b -> wneed b w <= fuel) ->
  exists k lg b' w' e',
    writeto_loop fuel b w result e = Some (b', w', result + k, e') /\
    inv b' /\ size b' = size b /\ k <= used b /\ used b' = used b - k /\
    abs b' = skipn k (abs b) /\
    wsink w' = wsink w ++ firstn k (abs b) /\
    wlog w' = wlog w ++ lg /\ sum_c lg = k /\
    writeto_log_ok lg (used b) = true /\
    chain e lg e' /\
    (used b' = 0 \/ is_nil e' = false).
Proof.
  induction fuel as [|fuel IH]; intros b w result e Hinv Hfuel;
    destruct ((Nat.eqb (used b) 0 || negb (is_nil e))%bool) eqn:Hcond.
  1,3: exists 0, [], b, w, e; rewrite (writeto_stop _ b w result e Hcond);
       rewrite Nat.sub_0_r, Nat.add_0_r, !app_nil_r;
       cbn [firstn skipn sum_c writeto_log_ok chain];
       repeat match goal with |- _ /\ _ => split end;
       try exact Hinv; try lia; try reflexivity;
       apply cond2_true in Hcond; lia.
  - apply cond2_false in Hcond. destruct Hcond as (Hu0 & Hn).
    specialize (Hfuel Hn ltac:(lia)). unfold wneed in Hfuel.
    destruct (start b + used b <=? size b); lia.
  - pose proof (cond2_false _ _ Hcond) as (Hu0 & Hn).
    assert (Hlt : 0 < used b) by lia.
    specialize (Hfuel Hn Hlt).
    pose proof Hinv as (Hl & Hu & Hs).
    cbn [writeto_loop]. rewrite Hcond.
    destruct (data_seg b) as [ds dl] eqn:Hds.
    pose proof (data_seg_bounds b ds dl Hinv Hlt Hds) as (Hd0 & Hd1 & Hd2 & Hd3).
    destruct (writer_write w (slice (storage b) ds dl)) as [[w1 c] e1] eqn:Hww.
    destruct (writer_write_spec w w1 _ c e1 Hww) as (Hc & Hsink1 & Hlog1 & Hscr).
    rewrite slice_length in Hc, Hlog1, Hscr by lia.
    pose proof (consume_front b ds dl c Hinv Hlt Hds Hc) as Hcf.
    cbv zeta in Hcf. destruct Hcf as (Hinv1 & Habs1 & Hsl).
    assert (Hfc : firstn c (slice (storage b) ds dl) = firstn c (abs b)).
    { rewrite <- Hsl. unfold slice. rewrite firstn_firstn.
      replace (Nat.min c dl) with c by lia. reflexivity. }
    rewrite Hfc in Hsink1.
    assert (Hm : (start b + c) mod size b =
                 if start b + c <? size b then start b + c else start b + c - size b)
      by (apply mod_wrap; lia).
    match type of Hinv1 with inv ?x => set (b1 := x) in * end.
    assert (Hfuel1 : is_nil e1 = true -> 0 < used b1 -> wneed b1 w1 <= fuel).
    { intros _ Hu1. unfold wneed in *. unfold b1 in *.
      cbn [size used start] in *. rewrite Hm.
      unfold data_seg in Hds. injection Hds as Hds1 Hds2.
      destruct Hscr as [(Hs0 & Hs1 & Hcd & _)|Hscr].
      - rewrite Hs0 in Hfuel. rewrite Hs1. cbn [length] in *.
        destruct (start b + used b <=? size b) eqn:E1;
        destruct (start b + c <? size b) eqn:E2;
        match goal with |- context [if ?x then 1 else 2] => destruct x eqn:E3 end;
        lia.
      - destruct (start b + used b <=? size b) eqn:E1;
        destruct (start b + c <? size b) eqn:E2;
        match goal with |- context [if ?x then 1 else 2] => destruct x eqn:E3 end;
        lia. }
    destruct (IH b1 w1 (result + c) e1 Hinv1 Hfuel1)
      as (k' & lg' & b' & w' & e' & Heq & Hinv' & Hsz' & Hk' & Hu' & Habs' &
          Hsink' & Hlog' & Hsum' & Hok' & Hch' & Hstop').
    assert (Hsz1 : size b1 = size b) by reflexivity.
    assert (Hu1 : used b1 = used b - c) by reflexivity.
    rewrite Hsz1 in Hsz'. rewrite Hu1 in Hk', Hu', Hok'.
    exists (c + k'), ((dl, c, e1) :: lg'), b', w', e'.
    split.
    { replace (result + (c + k')) with (result + c + k') by lia. exact Heq. }
    split; [exact Hinv'|]. split; [exact Hsz'|]. split; [lia|]. split; [lia|].
    split. { rewrite Habs', Habs1, skipn_skipn'. reflexivity. }
    split. { rewrite Hsink', Hsink1, Habs1, firstn_plus, app_assoc. reflexivity. }
    split. { rewrite Hlog', Hlog1, <- app_assoc. reflexivity. }
    split. { cbn [sum_c]. lia. }
    split.
    { cbn [writeto_log_ok]. rewrite Hok'.
      replace (1 <=? dl) with true by lia. replace (dl <=? used b) with true by lia.
      replace (c <=? dl) with true by lia. reflexivity. }
    split. { cbn [chain]. split; [exact Hn | exact Hch']. }
    exact Hstop'.
Qed.

End Peers.

Arguments reader_read_spec {A}.
Arguments writer_write_spec {A}.
Arguments readn_loop_spec {A}.
Arguments readn_final n' used' size' e /.
Arguments writeto_loop_spec {A}.
Arguments wneed {A}.

(* ================================================================== *)
(* One step of the history refines the specification                   *)
(* ================================================================== *)
Lemma err_eqb_refl : forall e, err_eqb e e = true.
Proof. destruct e; reflexivity. Qed.

Section Eqs.
Variable A : Type.
Implicit Types b : buf A.

Lemma read_n_from_eq : forall b (r : reader A) n b' r' n' result e,
  readn_loop (length (rscript r) + 2) b r n 0 ENil = Some (b', r', n', result, e) ->
  read_n_from b r n = Some (b', r', result, readn_final n' (used b') (size b') e).
Proof.
  intros b r n b' r' n' result e H. unfold read_n_from. rewrite H. reflexivity.
Qed.

Lemma write_to_eq : forall b (w : writer A) b' w' result e,
  writeto_loop (length (wscript w) + 3) b w 0 ENil = Some (b', w', result, e) ->
  write_to b w = Some (reset_if_empty b', w', result, e).
Proof.
  intros b w b' w' result e H. unfold write_to. rewrite H. reflexivity.
Qed.

End Eqs.

Arguments read_n_from_eq {A} b r n {b' r' n' result e} _.
Arguments write_to_eq {A} b w {b' w' result e} _.

Section Refinement.
Variable A : Type.
Variable eqA : A -> A -> bool.
Hypothesis eqA_spec : forall x y, eqA x y = true <-> x = y.
Implicit Types b : buf A.

Lemma list_eqb_refl : forall l : list A, list_eqb eqA l l = true.
Proof.
  induction l as [|a l IH]; [reflexivity|].
  cbn [list_eqb]. rewrite IH. rewrite (proj2 (eqA_spec a a) eq_refl). reflexivity.
Qed.

Lemma step_refines : forall b (o : op A), inv b ->
  spec_check eqA {| cap := size b; q := abs b |} o (snd (step b o)) =
    Some {| cap := size b; q := abs (fst (step b o)) |} /\
  inv (fst (step b o)) /\ size (fst (step b o)) = size b /\
  snd (step b o) <> ROutOfFuel A.
Proof.
  intros b o Hinv. pose proof Hinv as (Hl & Hu & Hs).
  pose proof (abs_length b Hinv) as Hal.
  destruct o as [d|x|n| | |src script n|script| ]; cbn [step].
  - (* Write *)
    destruct (ring_write_spec b d Hinv) as (b' & Heq & Hinv' & Hsz & Habs).
    cbv zeta in Heq, Habs. rewrite Heq. cbn [fst snd].
    split; [|split; [exact Hinv'|split; [exact Hsz|discriminate]]].
    unfold spec_check, spec_write. cbn [cap q]. rewrite Hal.
    rewrite Nat.eqb_refl, err_eqb_refl. cbn [andb]. rewrite Habs. reflexivity.
  - (* WriteByte *)
    destruct (write_byte_spec b x Hinv) as (H1 & H2).
    destruct (Nat.eq_dec (used b) (size b)) as [E|E].
    + rewrite (H1 E). cbn [fst snd].
      split; [|split; [exact Hinv|split; [reflexivity|discriminate]]].
      unfold spec_check, spec_write_byte. cbn [cap q]. rewrite Hal.
      replace (used b =? size b) with true by lia. reflexivity.
    + destruct (H2 E) as (b' & Heq & Hinv' & Hsz & Habs). rewrite Heq. cbn [fst snd].
      split; [|split; [exact Hinv'|split; [exact Hsz|discriminate]]].
      unfold spec_check, spec_write_byte. cbn [cap q]. rewrite Hal.
      replace (used b =? size b) with false by lia. cbn [err_eqb].
      rewrite Habs. reflexivity.
  - (* Read *)
    destruct (ring_read_edge b n) as (H0 & HE).
    destruct (Nat.eq_dec n 0) as [En|En].
    + rewrite (H0 En). subst n. cbn [fst snd].
      split; [|split; [exact Hinv|split; [reflexivity|discriminate]]].
      reflexivity.
    + destruct (Nat.eq_dec (used b) 0) as [Eu|Eu].
      * rewrite (HE En Eu). cbn [fst snd].
        split; [|split; [exact Hinv|split; [reflexivity|discriminate]]].
        unfold spec_check, spec_read. cbn [cap q].
        destruct n as [|n']; [lia|]. rewrite (abs_used0 b Eu). reflexivity.
      * destruct (ring_read_spec b n Hinv En Eu) as (b' & Heq & Hinv' & Hsz & Habs).
        rewrite Heq. cbn [fst snd].
        split; [|split; [exact Hinv'|split; [exact Hsz|discriminate]]].
        unfold spec_check, spec_read. cbn [cap q].
        destruct n as [|n']; [lia|]. rewrite Habs.
        destruct (abs b) as [|y t] eqn:Eabs; [cbn in Hal; lia|].
        rewrite list_eqb_refl. reflexivity.
  - (* ReadByte *)
    destruct (read_byte_spec b Hinv) as (H1 & H2).
    destruct (Nat.eq_dec (used b) 0) as [Eu|Eu].
    + rewrite (H1 Eu). cbn [fst snd].
      split; [|split; [exact Hinv|split; [reflexivity|discriminate]]].
      unfold spec_check, spec_read_byte. cbn [cap q].
      rewrite (abs_used0 b Eu). reflexivity.
    + destruct (H2 Eu) as (b' & y & t & Eabs & Heq & Hinv' & Hsz & Habs).
      rewrite Heq. cbn [fst snd].
      split; [|split; [exact Hinv'|split; [exact Hsz|discriminate]]].
      unfold spec_check, spec_read_byte. cbn [cap q]. rewrite Eabs.
      cbn [opt_eqb]. rewrite (proj2 (eqA_spec y y) eq_refl). cbn [err_eqb andb].
      rewrite Habs. reflexivity.
  - (* Reset *)
    cbn [fst snd].
    split; [|split; [|split; [reflexivity|discriminate]]].
    + reflexivity.
    + unfold inv, reset. cbn [storage size start used]. lia.
  - (* ReadNFrom *)
    set (r0 := {| rsrc := src; rscript := script; rlog := [] |}).
    assert (Hf : is_nil ENil = true -> length (rscript r0) < length (rscript r0) + 2)
      by (intros _; lia).
    destruct (readn_loop_spec (length (rscript r0) + 2) b r0 n 0 ENil Hinv Hf)
      as (k & lg & b' & r' & e' & Heq & Hinv' & Hsz' & Hu' & Habs' & Hsrc' &
          Hk1 & Hk2 & Hlog' & Hsum' & Hok' & Hch' & Hstop').
    cbn [Nat.add] in Heq. unfold r0 in Habs', Hsrc', Hk1, Hlog'.
    cbn [rsrc rlog app] in Habs', Hsrc', Hk1, Hlog'.
    rewrite (read_n_from_eq b r0 n Heq). cbn [fst snd].
    split; [|split; [exact Hinv'|split; [exact Hsz'|discriminate]]].
    assert (Hcons : consumed_of src r' = firstn k src).
    { unfold consumed_of. rewrite Hsrc', skipn_length.
      replace (length src - (length src - k)) with k by lia. reflexivity. }
    assert (Hu'' : used b + k <= size b).
    { destruct Hinv' as (_ & Hx & _). lia. }
    pose proof (readn_err_ok e' n k (used b) (size b) Hk2 Hu''
                  ltac:(rewrite <- Hu', <- Hsz'; exact Hstop')) as (He1 & He2).
    unfold spec_check. cbn [cap q]. cbv zeta. rewrite Hal.
    rewrite Hcons, Hlog', Hsum', Nat.eqb_refl, list_eqb_refl, Hok'.
    rewrite (chain_errs_nil lg ENil e' Hch'), (chain_last_nil lg e' Hch').
    rewrite Hu', Hsz', He1, He2. cbn [andb].
    rewrite Habs'. reflexivity.
  - (* WriteTo *)
    set (w0 := {| wsink := []; wscript := script; wlog := [] |}).
    assert (Hf : is_nil ENil = true -> 0 < used b ->
                 wneed b w0 <= length (wscript w0) + 3).
    { intros _ _. unfold wneed. destruct (start b + used b <=? size b); lia. }
    destruct (writeto_loop_spec (length (wscript w0) + 3) b w0 0 ENil Hinv Hf)
      as (k & lg & b' & w' & e' & Heq & Hinv' & Hsz' & Hk' & Hu' & Habs' &
          Hsink' & Hlog' & Hsum' & Hok' & Hch' & Hstop').
    cbn [Nat.add] in Heq. unfold w0 in Hsink', Hlog'.
    cbn [wsink wlog app] in Hsink', Hlog'.
    rewrite (write_to_eq b w0 Heq). cbn [fst snd].
    destruct (reset_if_empty_spec b' Hinv') as (Hi & Hsz & Ha & _).
    split; [|split; [exact Hi|split; [lia|discriminate]]].
    unfold spec_check. cbn [cap q]. cbv zeta. rewrite Hal.
    rewrite Hsink', Hlog', Hsum', Nat.eqb_refl, list_eqb_refl, Hok'.
    rewrite (chain_errs_nil lg ENil e' Hch'), (chain_last_nil lg e' Hch').
    rewrite err_eqb_refl. cbn [andb].
    replace (if is_nil e' then k =? used b else true) with true.
    2:{ destruct (is_nil e'); [|reflexivity].
        destruct Hstop' as [H|H]; [lia|discriminate H]. }
    rewrite Ha, Habs'. reflexivity.
  - (* Stat *)
    cbn [fst snd].
    split; [|split; [exact Hinv|split; [reflexivity|discriminate]]].
    unfold spec_check. cbn [cap q]. rewrite Hal, !Nat.eqb_refl. reflexivity.
Qed.

(* ================================================================== *)
(* Histories                                                           *)
(* ================================================================== *)
Lemma run_refines : forall (ops : list (op A)) b, inv b ->
  spec_check_all eqA {| cap := size b; q := abs b |} ops (run b ops) = true.
Proof.
  induction ops as [|o ops IH]; intros b Hinv.
  - reflexivity.
  - cbn [run]. destruct (step_refines b o Hinv) as (Hc & Hi & Hsz & _).
    destruct (step b o) as [b' r] eqn:Hst. cbn [fst snd] in Hc, Hi, Hsz.
    cbn [spec_check_all]. rewrite Hc. rewrite <- Hsz. apply IH. exact Hi.
Qed.

End Refinement.

Section Histories.
Variable A : Type.
Implicit Types b : buf A.

(* The state facts (invariant, size, no fuel exhaustion) do not depend on an
   element equality, so they are proved separately from [step_refines]. *)
Lemma step_inv : forall b (o : op A), inv b ->
  inv (fst (step b o)) /\ size (fst (step b o)) = size b /\
  snd (step b o) <> ROutOfFuel A.
Proof.
  intros b o Hinv. pose proof Hinv as (Hl & Hu & Hs).
  destruct o as [d|x|n| | |src script n|script| ]; cbn [step].
  - destruct (ring_write_spec b d Hinv) as (b' & Heq & Hinv' & Hsz & Habs).
    cbv zeta in Heq. rewrite Heq. cbn [fst snd].
    split; [exact Hinv'|split; [exact Hsz|discriminate]].
  - destruct (write_byte_spec b x Hinv) as (H1 & H2).
    destruct (Nat.eq_dec (used b) (size b)) as [E|E].
    + rewrite (H1 E). cbn [fst snd].
      split; [exact Hinv|split; [reflexivity|discriminate]].
    + destruct (H2 E) as (b' & Heq & Hinv' & Hsz & Habs). rewrite Heq. cbn [fst snd].
      split; [exact Hinv'|split; [exact Hsz|discriminate]].
  - destruct (ring_read_edge b n) as (H0 & HE).
    destruct (Nat.eq_dec n 0) as [En|En].
    + rewrite (H0 En). cbn [fst snd].
      split; [exact Hinv|split; [reflexivity|discriminate]].
    + destruct (Nat.eq_dec (used b) 0) as [Eu|Eu].
      * rewrite (HE En Eu). cbn [fst snd].
        split; [exact Hinv|split; [reflexivity|discriminate]].
      * destruct (ring_read_spec b n Hinv En Eu) as (b' & Heq & Hinv' & Hsz & Habs).
        rewrite Heq. cbn [fst snd].
        split; [exact Hinv'|split; [exact Hsz|discriminate]].
  - destruct (read_byte_spec b Hinv) as (H1 & H2).
    destruct (Nat.eq_dec (used b) 0) as [Eu|Eu].
    + rewrite (H1 Eu). cbn [fst snd].
      split; [exact Hinv|split; [reflexivity|discriminate]].
    + destruct (H2 Eu) as (b' & y & t & Eabs & Heq & Hinv' & Hsz & Habs).
      rewrite Heq. cbn [fst snd].
      split; [exact Hinv'|split; [exact Hsz|discriminate]].
  - cbn [fst snd]. split; [|split; [reflexivity|discriminate]].
    unfold inv, reset. cbn [storage size start used]. lia.
  - set (r0 := {| rsrc := src; rscript := script; rlog := [] |}).
    assert (Hf : is_nil ENil = true -> length (rscript r0) < length (rscript r0) + 2)
      by (intros _; lia).
    destruct (readn_loop_spec (length (rscript r0) + 2) b r0 n 0 ENil Hinv Hf)
      as (k & lg & b' & r' & e' & Heq & Hinv' & Hsz' & _).
    cbn [Nat.add] in Heq.
    rewrite (read_n_from_eq b r0 n Heq). cbn [fst snd].
    split; [exact Hinv'|split; [exact Hsz'|discriminate]].
  - set (w0 := {| wsink := []; wscript := script; wlog := [] |}).
    assert (Hf : is_nil ENil = true -> 0 < used b ->
                 wneed b w0 <= length (wscript w0) + 3).
    { intros _ _. unfold wneed. destruct (start b + used b <=? size b); lia. }
    destruct (writeto_loop_spec (length (wscript w0) + 3) b w0 0 ENil Hinv Hf)
      as (k & lg & b' & w' & e' & Heq & Hinv' & Hsz' & _).
    cbn [Nat.add] in Heq.
    rewrite (write_to_eq b w0 Heq). cbn [fst snd].
    destruct (reset_if_empty_spec b' Hinv') as (Hi & Hsz & _).
    split; [exact Hi|split; [lia|discriminate]].
  - cbn [fst snd]. split; [exact Hinv|split; [reflexivity|discriminate]].
Qed.

Lemma run_state_inv : forall (ops : list (op A)) b, inv b ->
  inv (run_state b ops) /\ size (run_state b ops) = size b.
Proof.
  induction ops as [|o ops IH]; intros b Hinv.
  - split; [exact Hinv|reflexivity].
  - cbn [run_state]. destruct (step_inv b o Hinv) as (Hi & Hsz & _).
    destruct (IH _ Hi) as (Hi' & Hsz'). split; [exact Hi'|lia].
Qed.

Lemma run_no_fuel : forall (ops : list (op A)) b, inv b ->
  ~ In (ROutOfFuel A) (run b ops).
Proof.
  induction ops as [|o ops IH]; intros b Hinv.
  - cbn. auto.
  - cbn [run]. destruct (step_inv b o Hinv) as (Hi & _ & Hne).
    destruct (step b o) as [b' r] eqn:Hst. cbn [fst snd] in Hi, Hne.
    cbn [In]. intros [H|H]; [exact (Hne H) | exact (IH b' Hi H)].
Qed.

Variable dflt : A.

Lemma new_buffer_inv : forall n, inv (new_buffer dflt n) /\
  size (new_buffer dflt n) = n /\ abs (new_buffer dflt n) = [].
Proof.
  intro n. unfold new_buffer, inv, abs. cbn [storage size start used firstn].
  rewrite repeat_length. repeat split; lia.
Qed.

Lemma ring_state_refines :
  forall (n : nat) (ops : list (op A)),
    let b := run_state (new_buffer dflt n) ops in
    inv b /\ size b = n /\ length (abs b) = used b /\ used b <= n.
Proof.
  intros n ops b. destruct (new_buffer_inv n) as (Hi & Hsz & _).
  destruct (run_state_inv ops _ Hi) as (Hi' & Hsz'). fold b in Hi', Hsz'.
  split; [exact Hi'|]. split; [lia|]. split; [apply abs_length; exact Hi'|].
  destruct Hi' as (_ & Hu & _). lia.
Qed.

Lemma ring_no_out_of_fuel :
  forall (n : nat) (ops : list (op A)),
    ~ In (ROutOfFuel A) (run (new_buffer dflt n) ops).
Proof.
  intros n ops. apply run_no_fuel. apply new_buffer_inv.
Qed.

Variable eqA : A -> A -> bool.
Hypothesis eqA_spec : forall x y, eqA x y = true <-> x = y.

Lemma ring_fifo_refinement :
  forall (n : nat) (ops : list (op A)),
    spec_check_all eqA {| cap := n; q := [] |} ops
                   (run (new_buffer dflt n) ops) = true.
Proof.
  intros n ops. destruct (new_buffer_inv n) as (Hi & Hsz & Ha).
  pose proof (run_refines A eqA eqA_spec ops _ Hi) as H.
  rewrite Hsz, Ha in H. exact H.
Qed.

End Histories.

Arguments ring_state_refines {A} dflt n ops.
Arguments ring_no_out_of_fuel {A} dflt n ops.
Arguments ring_fifo_refinement {A} dflt eqA eqA_spec n ops.

Lemma ring_inv_example :
  inv {| storage := [7; 8; 9]; size := 3; start := 2; used := 2 |}
  /\ abs {| storage := [7; 8; 9]; size := 3; start := 2; used := 2 |} = [9; 7].
Proof.
  split; [|reflexivity]. unfold inv. cbn [storage size start used length]. lia.
Qed.
