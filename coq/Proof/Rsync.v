(* Proofs about the rsync engine model (Model/Rsync.v) for C19: signature
   facts, patch facts, the engine invariants under a transmitter that never
   fails (well-formedness of every delivered operation; round trip under
   collision-freedom of the strong hash), the unchanged-target case, and the
   soundness of the checker check_C19. *)
From Coq Require Import List Arith ZArith Bool Lia.
From Coq Require Import Init.Byte.
From Coq Require Strings.Byte.
Import ListNotations.
From Mv Require Import Model.Rsync.

(* ---------- list helpers ---------- *)
Section Lists.
Variable A : Type.
Implicit Types l : list A.

Lemma skipn_skipn' : forall a b l, skipn a (skipn b l) = skipn (b + a) l.
Proof.
  intros a b. revert a. induction b as [|b IH]; intros a l; cbn [skipn plus]; [reflexivity|].
  destruct l as [|x t]; [now rewrite skipn_nil | apply IH].
Qed.

Lemma firstn_plus : forall a b l, firstn (a + b) l = firstn a l ++ firstn b (skipn a l).
Proof.
  induction a as [|a IH]; intros b l; cbn [plus firstn skipn app]; [reflexivity|].
  destruct l as [|x t]; cbn [firstn skipn app]; [now rewrite firstn_nil | now rewrite IH].
Qed.

Lemma app_firstn_skipn_sub : forall l k, k <= length l ->
  l = firstn (length l - k) l ++ skipn (length l - k) l.
Proof. intros. symmetry. apply firstn_skipn. Qed.
End Lists.

Lemma list_eqb_eq : forall x y, list_eqb x y = true <-> x = y.
Proof.
  unfold list_eqb. induction x as [|a x IH]; destruct y as [|b y]; split; intro E; try reflexivity; try discriminate.
  - apply andb_true_iff in E. destruct E as [E1 E2].
    apply Byte.byte_dec_bl in E1. apply IH in E2. now subst.
  - inversion E; subst. apply andb_true_iff. split; [apply Byte.byte_dec_lb; reflexivity | now apply IH].
Qed.

Lemma olist_eqb_eq : forall x y, olist_eqb x y = true <-> x = y.
Proof.
  destruct x as [a|], y as [b|]; cbn [olist_eqb]; split; intro E; try reflexivity; try discriminate.
  - apply list_eqb_eq in E. now subst.
  - inversion E; subst. now apply list_eqb_eq.
Qed.

Section Sig.
Variable D : Type.
Variable H : list byte -> D.
Variable strong_valid : D -> bool.
Hypothesis H_valid : forall x, strong_valid (H x) = true.


Lemma sig_loop_spec : forall fuel blk base l hs,
  0 < blk -> sig_loop H fuel blk base = Some (l, hs) ->
  (base = [] -> hs = [] /\ l = blk) /\
  (base <> [] -> 0 < l /\ l <= blk /\ hs <> [] /\ (length hs - 1) * blk + l = length base) /\
  (forall i, i < length hs -> nth_error hs i = Some (hash_block H (block_at base blk i) blk)).
Proof.
  induction fuel as [|f IH]; intros blk base l hs Hb E; cbn [sig_loop] in E; [discriminate|].
  destruct base as [|x t].
  - inversion E; subst. repeat split; try congruence. intros i Hi. cbn in Hi. lia.
  - destruct (length (x :: t) <? blk) eqn:Hlt.
    + apply Nat.ltb_lt in Hlt. inversion E; subst. clear E.
      split; [discriminate|]. split.
      * intros _. cbn [length] in *. repeat split; try lia. discriminate.
      * intros i Hi. cbn [length] in Hi. assert (i = 0) by lia. subst i. cbn [nth_error].
        unfold block_at. cbn [Nat.mul skipn]. rewrite firstn_all2 by lia. reflexivity.
    + apply Nat.ltb_ge in Hlt.
      destruct (sig_loop H f blk (skipn blk (x :: t))) as [[l' hs']|] eqn:Er; [|discriminate].
      inversion E; subst. clear E.
      destruct (IH blk _ _ _ Hb Er) as [Hnil [Hne Hnth]].
      split; [discriminate|]. split.
      * intros _. destruct (skipn blk (x :: t)) as [|y r] eqn:Es.
        -- destruct (Hnil eq_refl) as [-> ->]. cbn [length].
           assert (length (skipn blk (x :: t)) = 0) by (rewrite Es; reflexivity).
           rewrite skipn_length in H0. cbn [length] in *. repeat split; try lia. discriminate.
        -- assert (Hn : y :: r <> []) by discriminate.
           destruct (Hne Hn) as [Hl1 [Hl2 [Hhs Hlen]]].
           repeat split; try lia; try discriminate.
           cbn [length]. rewrite <- Es in Hlen. rewrite skipn_length in Hlen.
           destruct hs' as [|h0 hs']; [congruence|]. cbn [length] in *. nia.
      * intros i Hi. destruct i as [|i]; cbn [nth_error].
        -- unfold block_at. cbn [Nat.mul skipn]. reflexivity.
        -- cbn [length] in Hi. rewrite Hnth by lia. unfold block_at.
           rewrite skipn_skipn'. replace (blk + i * blk) with (S i * blk) by lia. reflexivity.
Qed.

Lemma sig_loop_total : forall fuel blk base, 0 < blk -> length base < fuel ->
  exists r, sig_loop H fuel blk base = Some r.
Proof.
  induction fuel as [|f IH]; intros blk base Hb Hf; [lia|]. cbn [sig_loop].
  destruct base as [|x t]; [eexists; reflexivity|].
  destruct (length (x :: t) <? blk) eqn:Hlt; [eexists; reflexivity|].
  apply Nat.ltb_ge in Hlt.
  destruct (IH blk (skipn blk (x :: t)) Hb) as [[l hs] E].
  - rewrite skipn_length. cbn [length] in *. lia.
  - rewrite E. eexists; reflexivity.
Qed.

Lemma signature_total : forall base blk, 0 < blk -> exists s, signature H base blk = Some s.
Proof.
  intros base blk Hb. unfold signature.
  destruct (sig_loop_total (S (length base)) blk base Hb) as [[l hs] E]; [lia|].
  rewrite E. destruct hs; eexists; reflexivity.
Qed.

(* everything later proofs need to know about a signature *)
Record sig_facts (base : list byte) (blk : nat) (s : sig D) : Prop := {
  sf_empty : base = [] -> s = mksig 0 0 [];
  sf_blk : base <> [] -> sblk s = blk;
  sf_last : base <> [] -> 0 < slast s <= blk;
  sf_nonempty : base <> [] -> shashes s <> [];
  sf_len : base <> [] -> (length (shashes s) - 1) * blk + slast s = length base;
  sf_nth : forall i, i < length (shashes s) ->
           nth_error (shashes s) i = Some (hash_block H (block_at base blk i) blk)
}.

Lemma signature_facts : forall base blk s, 0 < blk -> signature H base blk = Some s -> sig_facts base blk s.
Proof.
  intros base blk s Hb E. unfold signature in E.
  destruct (sig_loop H (S (length base)) blk base) as [[l hs]|] eqn:El; [|discriminate].
  destruct (sig_loop_spec _ _ _ _ _ Hb El) as [Hnil [Hne Hnth]].
  destruct base as [|x t].
  - destruct (Hnil eq_refl) as [-> ->]. inversion E; subst.
    split; try congruence. intros i Hi. cbn in Hi. lia.
  - assert (Hn : x :: t <> []) by discriminate.
    destruct (Hne Hn) as [Hl1 [Hl2 [Hhs Hlen]]].
    destruct hs as [|h0 hs]; [congruence|]. inversion E; subst. clear E.
    split; cbn [sblk slast shashes]; intros; try congruence; try lia; try discriminate; auto.
Qed.

Theorem sig_valid_signature : forall base blk s, 0 < blk -> signature H base blk = Some s ->
  sig_valid strong_valid s = true.
Proof.
  intros base blk s Hb E. pose proof (signature_facts _ _ _ Hb E) as F.
  unfold sig_valid. apply andb_true_iff. split.
  - apply forallb_forall. intros h Hin. apply In_nth_error in Hin. destruct Hin as [i Hi].
    assert (Hlt : i < length (shashes s)) by (apply nth_error_Some; congruence).
    rewrite (sf_nth _ _ _ F _ Hlt) in Hi. inversion Hi; subst. cbn. apply H_valid.
  - destruct base as [|x t].
    + rewrite (sf_empty _ _ _ F eq_refl). reflexivity.
    + assert (Hn : x :: t <> []) by discriminate.
      pose proof (sf_blk _ _ _ F Hn). pose proof (sf_last _ _ _ F Hn). pose proof (sf_nonempty _ _ _ F Hn).
      destruct (sblk s =? 0) eqn:E0; [apply Nat.eqb_eq in E0; lia|].
      destruct (shashes s) as [|h hs]; [congruence|]. cbn [length].
      repeat (apply andb_true_iff; split); try reflexivity.
      * apply negb_true_iff. apply Nat.eqb_neq. lia.
      * apply Nat.leb_le. lia.
Qed.

End Sig.

Arguments sig_facts {D} H base blk s.
Arguments sf_empty {D H base blk s} _ _.
Arguments sf_blk {D H base blk s} _ _.
Arguments sf_last {D H base blk s} _ _.
Arguments sf_nonempty {D H base blk s} _ _.
Arguments sf_len {D H base blk s} _ _.
Arguments sf_nth {D H base blk s} _ [i] _.
Arguments signature_facts {D} H [base blk s] _ _.
Arguments signature_total {D} H base [blk] _.


Lemma default_max_pos : 0 < default_max_op.
Proof. unfold default_max_op. lia. Qed.

Lemma eff_max_pos : forall m, 0 < eff_max m.
Proof. intro m. unfold eff_max. destruct (m =? 0) eqn:E; [apply default_max_pos | apply Nat.eqb_neq in E; lia]. Qed.

(* ---------- transmitter that never fails ---------- *)
Lemma transmit_all_ok : forall t o, transmit all_ok t o = (t ++ [(o, true)], true).
Proof. reflexivity. Qed.

Lemma sent_of_snoc : forall t o, sent_of (t ++ [(o, true)]) = sent_of t ++ [o].
Proof. intros. unfold sent_of. rewrite filter_app, map_app. reflexivity. Qed.

Lemma sent_of_snoc_failed : forall t o, sent_of (t ++ [(o, false)]) = sent_of t.
Proof. intros. unfold sent_of. rewrite filter_app, map_app. cbn. apply app_nil_r. Qed.

Section Patch.
Variable D : Type.
Variable H : list byte -> D.
Variable base : list byte.
Variable blk : nat.
Variable s : sig D.
Hypothesis Hblk : 0 < blk.
Hypothesis F : sig_facts H base blk s.

Lemma patch_app : forall a b x y, patch base s a = Some x -> patch base s b = Some y ->
  patch base s (a ++ b) = Some (x ++ y).
Proof.
  induction a as [|o a IH]; intros b x y Ha Hb; cbn [app patch] in *.
  - inversion Ha; subst. exact Hb.
  - destruct (patch_op base s o) as [d|]; [|discriminate].
    destruct (patch base s a) as [r|] eqn:Er; [|discriminate].
    inversion Ha; subst. rewrite (IH b r y eq_refl Hb). now rewrite app_assoc.
Qed.

Lemma patch_app_inv : forall a b r, patch base s (a ++ b) = Some r ->
  exists x y, patch base s a = Some x /\ patch base s b = Some y /\ r = x ++ y.
Proof.
  induction a as [|o a IH]; intros b r E; cbn [app patch] in *.
  - exists [], r. repeat split; assumption.
  - destruct (patch_op base s o) as [d|]; [|discriminate].
    destruct (patch base s (a ++ b)) as [r'|] eqn:Er; [|discriminate].
    destruct (IH b r' Er) as [x [y [Hx [Hy ->]]]].
    rewrite Hx. inversion E; subst. exists (d ++ x), y. repeat split; auto. now rewrite app_assoc.
Qed.

Lemma patch_single : forall o d, patch_op base s o = Some d -> patch base s [o] = Some d.
Proof. intros o d E. cbn [patch]. rewrite E. now rewrite app_nil_r. Qed.

Lemma patch_data_op : forall d, d <> [] -> patch_op base s (data_op d) = Some d.
Proof. intros d Hd. unfold patch_op, data_op. cbn [odata]. destruct d; [congruence|reflexivity]. Qed.

Lemma copy_blocks_spec : base <> [] -> forall n idx, idx + n <= length (shashes s) ->
  copy_blocks base s n idx (idx * blk) = Some (firstn (n * blk) (skipn (idx * blk) base)).
Proof.
  intro Hne.
  pose proof (sf_blk F Hne) as Eb. pose proof (sf_last F Hne) as El.
  pose proof (sf_len F Hne) as Elen.
  induction n as [|n IH]; intros idx Hr; cbn [copy_blocks]; [reflexivity|].
  set (nh := length (shashes s)) in *.
  assert (Hnh : 0 < nh) by lia.
  replace (0 <? nh) with true by (symmetry; apply Nat.ltb_lt; exact Hnh). cbn [andb].
  rewrite Eb.
  destruct (idx =? nh - 1) eqn:Ei.
  - apply Nat.eqb_eq in Ei. assert (n = 0) by lia. subst n.
    replace (idx * blk + slast s <=? length base) with true by (symmetry; apply Nat.leb_le; nia).
    cbn [copy_blocks]. rewrite app_nil_r.
    assert (Hl : length (skipn (idx * blk) base) = slast s) by (rewrite skipn_length; nia).
    rewrite !firstn_all2 by lia. reflexivity.
  - apply Nat.eqb_neq in Ei.
    replace (idx * blk + blk <=? length base) with true by (symmetry; apply Nat.leb_le; nia).
    replace (idx * blk + blk) with (S idx * blk) by lia.
    rewrite IH by lia.
    f_equal. replace (S n * blk) with (blk + n * blk) by lia.
    rewrite firstn_plus. f_equal. f_equal. rewrite skipn_skipn'. f_equal. lia.
Qed.

Lemma patch_block_op : base <> [] -> forall st c, st + c <= length (shashes s) ->
  patch_op base s (block_op st c) = Some (firstn (c * blk) (skipn (st * blk) base)).
Proof.
  intros Hne st c Hr. unfold patch_op, block_op. cbn [odata ostart ocount length Nat.ltb Nat.leb].
  rewrite (sf_blk F Hne). now apply copy_blocks_spec.
Qed.

Lemma span_succ : forall st c,
  firstn (S c * blk) (skipn (st * blk) base) =
  firstn (c * blk) (skipn (st * blk) base) ++ block_at base blk (st + c).
Proof.
  intros st c. replace (S c * blk) with (c * blk + blk) by lia.
  rewrite firstn_plus. f_equal. unfold block_at. rewrite skipn_skipn'. f_equal. f_equal. lia.
Qed.

Lemma span_one : forall st, firstn (1 * blk) (skipn (st * blk) base) = block_at base blk st.
Proof. intro st. unfold block_at. f_equal. lia. Qed.

End Patch.


Section Engine.
Variable D : Type.
Variable H : list byte -> D.
Variable Deqb : D -> D -> bool.
Hypothesis Deqb_eq : forall a b, Deqb a b = true -> a = b.
Variable fixed : bool.
Variable base target : list byte.
Variable blk : nat.
Variable s : sig D.
Variable maxop : nat.
Hypothesis Hblk : 0 < blk.
Hypothesis Hmax : 0 < maxop.
Hypothesis F : sig_facts H base blk s.

Let nh := length (shashes s).

Definition pending (e : estate) : list op :=
  if 0 <? ecc e then [block_op (ecs e) (ecc e)] else [].

Definition good (o : op) : Prop :=
  op_valid o = true /\ op_in_range nh o = true /\ length (odata o) <= maxop.

Definition WF (e : estate) : Prop :=
  Forall good (sent_of (et e)) /\ (ecc e = 0 \/ ecs e + ecc e <= nh).

Definition RT (e : estate) (pre : list byte) : Prop :=
  patch base s (sent_of (et e) ++ pending e) = Some pre.

(* the strong hash does not collide between a block of the base and a window
   (contiguous piece) of the target *)
Definition CFP : Prop :=
  forall i w, i < nh -> (exists p q, target = p ++ w ++ q) ->
              H w = H (block_at base blk i) -> w = block_at base blk i.

Definition INV (e : estate) (tl : list byte) : Prop :=
  WF e /\ (CFP -> exists pre, RT e pre /\ target = pre ++ tl).

Lemma good_data : forall d, d <> [] -> length d <= maxop -> good (data_op d).
Proof.
  intros d Hd Hl. unfold good, op_valid, op_in_range, is_data, data_op. cbn [odata ostart ocount].
  destruct d; [congruence|]. cbn [length Nat.ltb Nat.leb]. repeat split; auto.
Qed.

Lemma good_block : forall st c, 0 < c -> st + c <= nh -> good (block_op st c).
Proof.
  intros st c Hc Hr. unfold good, op_valid, op_in_range, is_data, block_op. cbn [odata ostart ocount length Nat.ltb Nat.leb].
  repeat split.
  - apply negb_true_iff. apply Nat.eqb_neq. lia.
  - apply andb_true_iff. split; [apply Nat.ltb_lt | apply Nat.leb_le]; lia.
  - lia.
Qed.

(* ---------- send_chunks ---------- *)
Lemma send_chunks_ok : forall fuel t data, length data <= fuel ->
  exists t' ch, send_chunks all_ok fuel maxop t data = (t', DOk) /\
    sent_of t' = sent_of t ++ ch /\ Forall good ch /\
    Forall (fun o => is_data o = true) ch /\ patch base s ch = Some data /\
    (data = [] -> t' = t).
Proof.
  induction fuel as [|f IH]; intros t data Hf.
  - destruct data; [|cbn in Hf; lia]. exists t, []. cbn. rewrite app_nil_r. repeat split; auto.
  - destruct data as [|x r].
    + exists t, []. cbn. rewrite app_nil_r. repeat split; auto.
    + cbn [send_chunks]. rewrite transmit_all_ok.
      set (k := Nat.min (length (x :: r)) maxop).
      assert (Hk : 0 < k) by (unfold k; cbn [length]; lia).
      destruct (IH (t ++ [(data_op (firstn k (x :: r)), true)]) (skipn k (x :: r))) as [t' [ch [E [Hs [Hg [Hd [Hp _]]]]]]].
      { rewrite skipn_length. cbn [length] in *. lia. }
      exists t', (data_op (firstn k (x :: r)) :: ch). rewrite E.
      assert (Hne : firstn k (x :: r) <> []).
      { destruct k; [lia|]. cbn. discriminate. }
      repeat split.
      * rewrite Hs, sent_of_snoc, <- app_assoc. reflexivity.
      * constructor; [|exact Hg]. apply good_data; [exact Hne|]. rewrite firstn_length. unfold k. lia.
      * constructor; [|exact Hd]. unfold is_data, data_op. cbn [odata].
        destruct (firstn k (x :: r)); [congruence|reflexivity].
      * cbn [patch]. rewrite patch_data_op by exact Hne. rewrite Hp. now rewrite firstn_skipn.
      * discriminate.
Qed.

(* ---------- send_data ---------- *)
Lemma send_data_ok : forall e data, WF e ->
  exists e', send_data all_ok maxop e data = (e', DOk) /\ WF e' /\
    (forall pre, RT e pre -> RT e' (pre ++ data)) /\
    (data = [] -> e' = e) /\
    (Forall (fun o => is_data o = false) (sent_of (et e)) -> data = [] ->
     Forall (fun o => is_data o = false) (sent_of (et e'))).
Proof.
  intros e data [Hg Hp]. unfold send_data.
  destruct ((0 <? length data) && (0 <? ecc e)) eqn:Ec.
  - apply andb_true_iff in Ec. destruct Ec as [Ed Ecc]. apply Nat.ltb_lt in Ed, Ecc.
    rewrite transmit_all_ok.
    destruct (send_chunks_ok (length data) (et e ++ [(block_op (ecs e) (ecc e), true)]) data (le_n _))
      as [t' [ch [E [Hs [Hgc [_ [Hpc _]]]]]]].
    rewrite E. eexists. split; [reflexivity|]. unfold WF. cbn [et ecs ecc].
    rewrite sent_of_snoc in Hs.
    repeat split.
    + rewrite Hs. apply Forall_app. split; [apply Forall_app; split; [exact Hg|]|exact Hgc].
      constructor; [|constructor]. apply good_block; lia.
    + left. reflexivity.
    + intros pre Hrt. unfold RT in *. cbn [et]. unfold pending in *. cbn [ecc Nat.ltb Nat.leb].
      replace (0 <? ecc e) with true in Hrt by (symmetry; apply Nat.ltb_lt; exact Ecc).
      rewrite app_nil_r, Hs. apply patch_app; assumption.
    + intro Hd. subst data. cbn in Ed. lia.
    + intros _ Hd. subst data. cbn in Ed. lia.
  - destruct (send_chunks_ok (length data) (et e) data (le_n _)) as [t' [ch [E [Hs [Hgc [_ [Hpc Hnil]]]]]]].
    rewrite E. eexists. split; [reflexivity|]. unfold WF. cbn [et ecs ecc].
    repeat split.
    + rewrite Hs. apply Forall_app. split; assumption.
    + exact Hp.
    + intros pre Hrt. unfold RT in *. cbn [et]. unfold pending in *. cbn [ecc ecs].
      apply andb_false_iff in Ec. destruct Ec as [Ed|Ecc].
      * apply Nat.ltb_ge in Ed. destruct data; [|cbn in Ed; lia].
        rewrite (Hnil eq_refl), app_nil_r. exact Hrt.
      * rewrite Ecc in *. rewrite app_nil_r in *. rewrite Hs. apply patch_app; assumption.
    + intro Hd. rewrite (Hnil Hd). destruct e; reflexivity.
    + intros Hb Hd. cbn [et]. rewrite (Hnil Hd). exact Hb.
Qed.

(* ---------- send_block ---------- *)
Lemma send_block_ok : forall e idx, WF e -> idx < nh ->
  exists e', send_block fixed all_ok e idx = (e', DOk) /\ WF e' /\
    (base <> [] -> forall pre, RT e pre -> RT e' (pre ++ block_at base blk idx)) /\
    (Forall (fun o => is_data o = false) (sent_of (et e)) ->
     Forall (fun o => is_data o = false) (sent_of (et e'))).
Proof.
  intros e idx [Hg Hp] Hi. unfold send_block.
  destruct (0 <? ecc e) eqn:Ecc.
  - apply Nat.ltb_lt in Ecc.
    destruct (ecs e + ecc e =? idx) eqn:Eadj.
    + apply Nat.eqb_eq in Eadj. eexists. split; [reflexivity|]. unfold WF. cbn [et ecs ecc].
      repeat split; auto.
      * right. lia.
      * intros Hne pre Hrt. unfold RT, pending in *. cbn [et ecs ecc Nat.ltb Nat.leb].
        replace (0 <? ecc e) with true in Hrt by (symmetry; apply Nat.ltb_lt; exact Ecc).
        destruct (patch_app_inv _ _ _ _ _ _ Hrt) as [x [y [Hx [Hy ->]]]].
        cbn [patch] in Hy. rewrite (patch_block_op _ _ _ _ _ Hblk F Hne) in Hy by lia.
        rewrite app_nil_r in Hy. inversion Hy; subst y. clear Hy.
        rewrite <- app_assoc. apply patch_app; [exact Hx|].
        apply patch_single. rewrite (patch_block_op _ _ _ _ _ Hblk F Hne) by lia.
        rewrite span_succ by assumption. rewrite Eadj. reflexivity.
    + apply Nat.eqb_neq in Eadj. rewrite transmit_all_ok.
      eexists. split; [reflexivity|]. unfold WF. cbn [et ecs ecc]. rewrite sent_of_snoc.
      repeat split.
      * apply Forall_app. split; [exact Hg|]. constructor; [|constructor]. apply good_block; lia.
      * right. lia.
      * intros Hne pre Hrt. unfold RT, pending in *. cbn [et ecs ecc Nat.ltb Nat.leb].
        replace (0 <? ecc e) with true in Hrt by (symmetry; apply Nat.ltb_lt; exact Ecc).
        rewrite sent_of_snoc.
        apply patch_app; [exact Hrt|]. apply patch_single.
        rewrite (patch_block_op _ _ _ _ _ Hblk F Hne) by lia. rewrite span_one by assumption; reflexivity.
      * intro Hb. apply Forall_app. split; [exact Hb|]. constructor; [reflexivity|constructor].
  - eexists. split; [reflexivity|]. unfold WF. cbn [et ecs ecc].
    repeat split; auto.
    + right. lia.
    + intros Hne pre Hrt. unfold RT, pending in *. cbn [et ecs ecc Nat.ltb Nat.leb].
      rewrite Ecc in Hrt. rewrite app_nil_r in Hrt.
      apply patch_app; [exact Hrt|]. apply patch_single.
      rewrite (patch_block_op _ _ _ _ _ Hblk F Hne) by lia. rewrite span_one by assumption; reflexivity.
Qed.


(* ---------- chunk_all (empty base) ---------- *)
Lemma chunk_all_ok : forall fuel t tg, length tg < fuel ->
  exists t' ch, chunk_all all_ok fuel maxop t tg = (t', DOk) /\
    sent_of t' = sent_of t ++ ch /\ Forall good ch /\
    Forall (fun o => is_data o = true) ch /\ patch base s ch = Some tg.
Proof.
  induction fuel as [|f IH]; intros t tg Hf; [lia|]. cbn [chunk_all].
  destruct tg as [|x r].
  - exists t, []. rewrite app_nil_r. repeat split; auto.
  - destruct (length (x :: r) <? maxop) eqn:El.
    + apply Nat.ltb_lt in El. rewrite transmit_all_ok.
      exists (t ++ [(data_op (x :: r), true)]), [data_op (x :: r)].
      rewrite sent_of_snoc. repeat split; auto.
      * constructor; [|constructor]. apply good_data; [discriminate|lia].
      * cbn [patch]. rewrite patch_data_op by discriminate. now rewrite app_nil_r.
    + apply Nat.ltb_ge in El. rewrite transmit_all_ok.
      destruct (IH (t ++ [(data_op (firstn maxop (x :: r)), true)]) (skipn maxop (x :: r)))
        as [t' [ch [E [Hs [Hg [Hd Hp]]]]]].
      { rewrite skipn_length. cbn [length] in *. lia. }
      rewrite E. exists t', (data_op (firstn maxop (x :: r)) :: ch).
      assert (Hn : firstn maxop (x :: r) <> []) by (destruct maxop; [lia|cbn; discriminate]).
      repeat split; auto.
      * rewrite Hs, sent_of_snoc, <- app_assoc. reflexivity.
      * constructor; [|exact Hg]. apply good_data; [exact Hn|]. rewrite firstn_length. lia.
      * constructor; [|exact Hd]. unfold is_data, data_op. cbn [odata].
        destruct (firstn maxop (x :: r)); [congruence|reflexivity].
      * cbn [patch]. rewrite patch_data_op by exact Hn. rewrite Hp. now rewrite firstn_skipn.
Qed.

(* ---------- matching ---------- *)
Lemma find_match_some : forall hs i0 w st idx, find_match Deqb hs i0 w st = Some idx ->
  i0 <= idx /\ idx - i0 < length hs /\
  exists h, nth_error hs (idx - i0) = Some h /\ Deqb (bstrong h) st = true /\ bweak h = w.
Proof.
  induction hs as [|h t IH]; intros i0 w st idx E; cbn [find_match] in E; [discriminate|].
  destruct ((bweak h =? w)%Z && Deqb (bstrong h) st) eqn:Ec.
  - inversion E; subst. apply andb_true_iff in Ec. destruct Ec as [Ew Ed]. apply Z.eqb_eq in Ew.
    rewrite Nat.sub_diag. cbn [length nth_error]. repeat split; try lia. exists h. auto.
  - destruct (IH _ _ _ _ E) as [Hle [Hlt [h' [Hn [Hd Hw]]]]].
    cbn [length]. repeat split; try lia. exists h'. repeat split; auto.
    replace (idx - i0) with (S (idx - S i0)) by lia. exact Hn.
Qed.

Lemma nth_error_firstn_some : forall (A : Type) k (l : list A) j x,
  nth_error (firstn k l) j = Some x -> nth_error l j = Some x.
Proof.
  induction k as [|k IH]; intros l j x E; [destruct j; discriminate|].
  destruct l as [|a l]; [destruct j; discriminate|]. destruct j as [|j]; [exact E|]. cbn in *. now apply IH.
Qed.

Lemma full_hashes_nth : forall j h, nth_error (full_hashes s) j = Some h -> nth_error (shashes s) j = Some h.
Proof. intros j h. unfold full_hashes. destruct (have_short s); [apply nth_error_firstn_some | auto]. Qed.

Lemma match_sound : forall w win idx, find_match Deqb (full_hashes s) 0 w (H win) = Some idx ->
  idx < nh /\ H win = H (block_at base blk idx).
Proof.
  intros w win idx E. destruct (find_match_some _ _ _ _ _ E) as [_ [_ [h [Hn [Hd _]]]]].
  rewrite Nat.sub_0_r in Hn. apply full_hashes_nth in Hn.
  assert (Hlt : idx < nh) by (apply nth_error_Some; congruence).
  rewrite (sf_nth F Hlt) in Hn. inversion Hn; subst h. cbn [bstrong hash_block] in Hd.
  apply Deqb_eq in Hd. split; [exact Hlt | now symmetry].
Qed.

Hypothesis Hne : base <> [].

Lemma Eb : sblk s = blk.
Proof. exact (sf_blk F Hne). Qed.

(* ---------- react ---------- *)
Lemma react_ok : forall e buf w rem, INV e (buf ++ rem) -> blk <= length buf <= blk + maxop ->
  exists e' buf', react H Deqb fixed all_ok s maxop e buf w = (e', DOk, buf') /\
    INV e' (buf' ++ rem) /\ (buf' = [] \/ blk <= length buf' < blk + maxop).
Proof.
  intros e buf w rem [Hwf Hrt] Hlen. unfold react, buf_cap. rewrite Eb.
  set (occ := length buf) in *. set (pfx := firstn (occ - blk) buf). set (win := skipn (occ - blk) buf).
  assert (Hsplit : buf = pfx ++ win) by (symmetry; apply firstn_skipn).
  destruct (find_match Deqb (full_hashes s) 0 w (H win)) as [idx|] eqn:Em.
  - destruct (match_sound _ _ _ Em) as [Hidx HH].
    destruct (send_data_ok e pfx Hwf) as [e1 [E1 [Hwf1 [Hrt1 _]]]]. rewrite E1.
    destruct (send_block_ok e1 idx Hwf1 Hidx) as [e2 [E2 [Hwf2 [Hrt2 _]]]]. rewrite E2.
    exists e2, []. split; [reflexivity|]. split; [|left; reflexivity].
    split; [exact Hwf2|]. intro Hcf. destruct (Hrt Hcf) as [pre [Hp Ht]].
    exists (pre ++ pfx ++ block_at base blk idx). split.
    + rewrite app_assoc. apply Hrt2; [exact Hne|]. apply Hrt1. exact Hp.
    + assert (Hw : win = block_at base blk idx).
      { apply Hcf; auto. exists (pre ++ pfx), rem. rewrite Ht, Hsplit. now rewrite <- !app_assoc. }
      rewrite Ht, Hsplit, Hw. cbn [app]. now rewrite <- !app_assoc.
  - destruct (occ =? blk + maxop) eqn:Ecap.
    + apply Nat.eqb_eq in Ecap.
      destruct (send_data_ok e pfx Hwf) as [e1 [E1 [Hwf1 [Hrt1 _]]]]. rewrite E1.
      exists e1, win. split; [reflexivity|]. split.
      * split; [exact Hwf1|]. intro Hcf. destruct (Hrt Hcf) as [pre [Hp Ht]].
        exists (pre ++ pfx). split; [apply Hrt1; exact Hp|].
        rewrite Ht, Hsplit. now rewrite <- !app_assoc.
      * right. unfold win. rewrite skipn_length. fold occ. lia.
    + apply Nat.eqb_neq in Ecap. exists e, buf. split; [reflexivity|]. split; [split; assumption|].
      right. fold occ. lia.
Qed.

(* ---------- advance ---------- *)
Lemma advance_ok : forall buf r1 r2 rem, (buf = [] \/ blk <= length buf < blk + maxop) ->
  match advance s maxop buf r1 r2 rem with
  | ABreak buf' => buf' = buf ++ rem
  | APanic => False
  | ACont buf' w a c rem' =>
    buf' ++ rem' = buf ++ rem /\ blk <= length buf' <= blk + maxop /\ length rem' < length rem
  end.
Proof.
  intros buf r1 r2 rem Hb. unfold advance, buf_cap. rewrite Eb.
  destruct buf as [|x t].
  - destruct (length rem <? blk) eqn:El; [reflexivity|]. apply Nat.ltb_ge in El.
    destruct (weak_hash (firstn blk rem) blk) as [[w a] c].
    rewrite firstn_skipn, firstn_length, skipn_length. cbn [app]. repeat split; lia.
  - destruct Hb as [Hb|Hb]; [discriminate|].
    destruct (length (x :: t) <? blk) eqn:El; [apply Nat.ltb_lt in El; lia|].
    destruct rem as [|b rem']; [now rewrite app_nil_r|].
    destruct (blk + maxop <=? length (x :: t)) eqn:Ec; [apply Nat.leb_le in Ec; lia|].
    destruct (roll_hash r1 r2 (nth (length (x :: t) - blk) (x :: t) x00) b blk) as [[w a] c].
    rewrite <- app_assoc, app_length. cbn [app length] in *. repeat split; lia.
Qed.

(* ---------- main loop ---------- *)
Lemma main_loop_ok : forall fuel e buf r1 r2 rem, length rem < fuel -> INV e (buf ++ rem) ->
  (buf = [] \/ blk <= length buf < blk + maxop) ->
  exists e' buf', main_loop H Deqb fixed all_ok s maxop fuel e buf r1 r2 rem = (e', DOk, buf') /\ INV e' buf'.
Proof.
  induction fuel as [|f IH]; intros e buf r1 r2 rem Hf Hinv Hb; [lia|]. cbn [main_loop].
  pose proof (advance_ok buf r1 r2 rem Hb) as Ha.
  destruct (advance s maxop buf r1 r2 rem) as [buf'| |buf' w a c rem'].
  - subst buf'. exists e, (buf ++ rem). split; [reflexivity|exact Hinv].
  - contradiction.
  - destruct Ha as [Hcat [Hlen Hrem]]. rewrite <- Hcat in Hinv.
    destruct (react_ok e buf' w rem' Hinv Hlen) as [e1 [buf1 [Er [Hinv1 Hb1]]]].
    rewrite Er. apply IH; [lia|exact Hinv1|exact Hb1].
Qed.

(* ---------- tail ---------- *)
Lemma flush_ok : forall e, WF e ->
  exists e', (if 0 <? ecc e
              then let '(t', ok) := transmit all_ok (et e) (block_op (ecs e) (ecc e)) in
                   (mkes t' (ecs e) (ecc e), if ok then DOk else DErr)
              else (e, DOk)) = (e', DOk) /\
    sent_of (et e') = sent_of (et e) ++ pending e /\ Forall good (sent_of (et e')).
Proof.
  intros e [Hg Hp]. unfold pending. destruct (0 <? ecc e) eqn:Ecc.
  - apply Nat.ltb_lt in Ecc. rewrite transmit_all_ok. eexists. split; [reflexivity|]. cbn [et].
    rewrite sent_of_snoc. split; [reflexivity|]. apply Forall_app. split; [exact Hg|].
    constructor; [|constructor]. apply good_block; lia.
  - exists e. rewrite app_nil_r. auto.
Qed.

Lemma tail_ok : forall e buf, INV e buf ->
  exists e', tail_phase H Deqb fixed all_ok s maxop e buf = (e', DOk) /\
    Forall good (sent_of (et e')) /\ (CFP -> patch base s (sent_of (et e')) = Some target).
Proof.
  intros e buf [Hwf Hrt]. unfold tail_phase. cbv zeta. rewrite Eb.
  set (occ := length buf).
  match goal with |- context [if ?c then _ else (e, DOk, buf)] => destruct c eqn:Ehit end.
  - destruct (have_short s && (slast s <=? occ)) eqn:Ea; [|discriminate].
    destruct (nth_error (shashes s) (last_index s)) as [sh|] eqn:En; [|discriminate].
    apply andb_true_iff in Ehit. destruct Ehit as [_ Ed]. apply Deqb_eq in Ed.
    assert (Hlast : last_index s < nh) by (apply nth_error_Some; congruence).
    rewrite (sf_nth F Hlast) in En. inversion En; subst sh. cbn [bstrong hash_block] in Ed. clear En.
    set (pfx := firstn (occ - slast s) buf) in *. set (cand := skipn (occ - slast s) buf) in *.
    assert (Hsplit : buf = pfx ++ cand) by (symmetry; apply firstn_skipn).
    destruct (send_data_ok e pfx Hwf) as [e1 [E1 [Hwf1 [Hrt1 _]]]]. rewrite E1.
    destruct (send_block_ok e1 (last_index s) Hwf1 Hlast) as [e2 [E2 [Hwf2 [Hrt2 _]]]]. rewrite E2.
    destruct (send_data_ok e2 [] Hwf2) as [e3 [E3 [Hwf3 [Hrt3 [He3 _]]]]]. rewrite E3.
    rewrite (He3 eq_refl) in *.
    destruct (flush_ok e2 Hwf2) as [e4 [E4 [Hs4 Hg4]]]. rewrite E4.
    exists e4. split; [reflexivity|]. split; [exact Hg4|].
    intro Hcf. destruct (Hrt Hcf) as [pre [Hp Ht]]. rewrite Hs4.
    assert (Hc : cand = block_at base blk (last_index s)).
    { apply Hcf; auto. exists (pre ++ pfx), []. rewrite Ht, Hsplit, app_nil_r. now rewrite <- !app_assoc. }
    specialize (Hrt2 Hne _ (Hrt1 _ Hp)). unfold RT in Hrt2. rewrite Hrt2. f_equal.
    rewrite Ht, Hsplit, Hc. now rewrite <- !app_assoc.
  - destruct (send_data_ok e buf Hwf) as [e1 [E1 [Hwf1 [Hrt1 _]]]]. rewrite E1.
    destruct (flush_ok e1 Hwf1) as [e4 [E4 [Hs4 Hg4]]]. rewrite E4.
    exists e4. split; [reflexivity|]. split; [exact Hg4|].
    intro Hcf. destruct (Hrt Hcf) as [pre [Hp Ht]]. rewrite Hs4.
    specialize (Hrt1 _ Hp). unfold RT in Hrt1. rewrite Hrt1, Ht. reflexivity.
Qed.

End Engine.


Section Unchanged.
Variable D : Type.
Variable H : list byte -> D.
Variable Deqb : D -> D -> bool.
Hypothesis Deqb_refl : forall a, Deqb a a = true.
Variable fixed : bool.
Variable base : list byte.
Variable blk : nat.
Variable s : sig D.
Variable maxop : nat.
Hypothesis Hblk : 0 < blk.
Hypothesis Hmax : 0 < maxop.
Hypothesis F : sig_facts H base blk s.
Hypothesis Hne : base <> [].

Let nh := length (shashes s).
Let nf := length (full_hashes s).
Let blockonly (t : tlog) : Prop := Forall (fun o => is_data o = false) (sent_of t).
Let WFe := WF D s maxop.

Lemma full_facts :
  exists r, length base = nf * blk + r /\ r < blk /\
    (have_short s = true -> r = slast s /\ nf = nh - 1 /\ 0 < r) /\
    (have_short s = false -> r = 0 /\ nf = nh) /\
    (forall j, j < nf -> nth_error (full_hashes s) j = Some (hash_block H (block_at base blk j) blk)).
Proof.
  pose proof (sf_blk F Hne) as Eb. pose proof (sf_last F Hne) as El.
  pose proof (sf_len F Hne) as Elen. pose proof (sf_nonempty F Hne) as Enn.
  assert (Hnh : 0 < nh) by (unfold nh; destruct (shashes s); [congruence|cbn; lia]).
  unfold nf, full_hashes, have_short, last_index. fold nh. rewrite Eb.
  destruct (slast s =? blk) eqn:Es; cbn [negb].
  - apply Nat.eqb_eq in Es. exists 0. fold nh. repeat split; try discriminate; try nia.
    intros j Hj. apply (sf_nth F). exact Hj.
  - apply Nat.eqb_neq in Es. exists (slast s). rewrite firstn_length. fold nh.
    replace (Nat.min (nh - 1) nh) with (nh - 1) by lia.
    repeat split; try discriminate; try nia.
    intros j Hj. rewrite <- (sf_nth F (i:=j)) by (fold nh; lia).
    clear - Hj. revert j Hj. generalize (nh - 1). generalize (shashes s).
    induction l as [|a l IH]; intros n j Hj; destruct n; try lia; destruct j; cbn; auto. apply IH. lia.
Qed.

Lemma find_match_complete : forall hs i0 w st j h,
  nth_error hs j = Some h -> bweak h = w -> Deqb (bstrong h) st = true ->
  exists idx, find_match Deqb hs i0 w st = Some idx.
Proof.
  induction hs as [|h0 t IH]; intros i0 w st j h Hn Hw Hd; [destruct j; discriminate|].
  cbn [find_match]. destruct ((bweak h0 =? w)%Z && Deqb (bstrong h0) st) eqn:Ec; [eexists; reflexivity|].
  destruct j as [|j].
  - inversion Hn; subst h0. rewrite Hw, Z.eqb_refl, Hd in Ec. discriminate.
  - cbn in Hn. eapply IH; eauto.
Qed.

Lemma weak_hash_fst : forall b k, let '(w, _, _) := weak_hash b k in w = weak_of b k.
Proof. intros b k. unfold weak_of. destruct (weak_hash b k) as [[w a] c]. reflexivity. Qed.

Lemma main_loop_unchanged : forall fuel j e r1 r2,
  length (skipn (j * blk) base) < fuel -> j <= nf -> WFe e -> blockonly (et e) ->
  exists e', main_loop H Deqb fixed all_ok s maxop fuel e [] r1 r2 (skipn (j * blk) base)
             = (e', DOk, skipn (nf * blk) base) /\ WFe e' /\ blockonly (et e').
Proof.
  destruct full_facts as [r [Hlen [Hr [_ [_ Hfull]]]]].
  pose proof (sf_blk F Hne) as Eb.
  induction fuel as [|f IH]; intros j e r1 r2 Hf Hj Hwf Hbo; [lia|].
  cbn [main_loop]. unfold advance. rewrite Eb.
  assert (Hl : length (skipn (j * blk) base) = (nf - j) * blk + r) by (rewrite skipn_length; nia).
  destruct (length (skipn (j * blk) base) <? blk) eqn:El.
  - apply Nat.ltb_lt in El. assert (j = nf) by nia. subst j.
    exists e. split; [reflexivity|split; assumption].
  - apply Nat.ltb_ge in El. assert (Hjlt : j < nf) by nia.
    set (b := firstn blk (skipn (j * blk) base)).
    pose proof (weak_hash_fst b blk) as Hw. destruct (weak_hash b blk) as [[w a] c].
    unfold react. rewrite Eb.
    assert (Hbl : length b = blk) by (unfold b; rewrite firstn_length; lia).
    rewrite Hbl, Nat.sub_diag. cbn [firstn skipn].
    destruct (find_match_complete (full_hashes s) 0 w (H b) j _ (Hfull j Hjlt)) as [idx Em].
    { cbn [bweak hash_block]. unfold b, block_at. now rewrite Hw. }
    { cbn [bstrong hash_block]. apply Deqb_refl. }
    rewrite Em.
    assert (Hidx : idx < nh).
    { pose proof Em as Em'. eapply find_match_some in Em'; try eassumption. destruct Em' as [_ [Hlt _]].
      rewrite Nat.sub_0_r in Hlt. fold nf in Hlt.
      destruct (have_short s) eqn:Ehs.
      - destruct full_facts as [r' [_ [_ [Hs _]]]]. destruct (Hs Ehs) as [_ [Hn _]]. lia.
      - destruct full_facts as [r' [_ [_ [_ [Hs _]]]]]. destruct (Hs Ehs) as [_ Hn]. lia. }
    destruct (send_data_ok D base blk s maxop Hblk Hmax e [] Hwf) as [e1 [E1 [_ [_ [He1 _]]]]].
    rewrite E1, (He1 eq_refl).
    destruct (send_block_ok D H fixed base blk s maxop Hblk Hmax F e idx Hwf Hidx) as [e2 [E2 [Hwf2 [_ Hbo2]]]].
    rewrite E2.
    replace (skipn blk (skipn (j * blk) base)) with (skipn (S j * blk) base)
      by (rewrite skipn_skipn'; f_equal; lia).
    apply IH; auto.
    + rewrite skipn_length. rewrite skipn_length in Hf. nia.
    + apply Hbo2. exact Hbo.
Qed.

Lemma tail_unchanged : forall e, WFe e -> blockonly (et e) ->
  exists e', tail_phase H Deqb fixed all_ok s maxop e (skipn (nf * blk) base) = (e', DOk) /\ blockonly (et e').
Proof.
  intros e Hwf Hbo.
  destruct full_facts as [r [Hlen [Hr [Hshort [Hnoshort _]]]]].
  pose proof (sf_blk F Hne) as Eb.
  set (buf := skipn (nf * blk) base).
  assert (Hbl : length buf = r) by (unfold buf; rewrite skipn_length; lia).
  unfold tail_phase. cbv zeta. rewrite Eb, Hbl.
  assert (Hflush : forall e2, WFe e2 -> blockonly (et e2) ->
     exists e', (if 0 <? ecc e2
                 then let '(t', ok) := transmit all_ok (et e2) (block_op (ecs e2) (ecc e2)) in
                      (mkes t' (ecs e2) (ecc e2), if ok then DOk else DErr)
                 else (e2, DOk)) = (e', DOk) /\ blockonly (et e')).
  { intros e2 Hwf2 Hbo2.
    destruct (flush_ok D blk s maxop Hblk Hmax e2 Hwf2) as [e' [E' [Hs _]]].
    exists e'. split; [exact E'|]. unfold blockonly. rewrite Hs. apply Forall_app. split; [exact Hbo2|].
    unfold pending. destruct (0 <? ecc e2); repeat constructor. }
  destruct (have_short s) eqn:Ehs.
  - destruct (Hshort eq_refl) as [Hrs [Hnf Hrpos]].
    replace (slast s <=? r) with true by (symmetry; apply Nat.leb_le; lia). cbn [andb].
    rewrite <- Hrs, Nat.sub_diag. cbn [firstn skipn].
    assert (Hnh : 0 < nh) by (unfold nh; pose proof (sf_nonempty F Hne); destruct (shashes s); [congruence|cbn; lia]).
    assert (Hlast : last_index s < nh) by (unfold last_index; fold nh; lia).
    rewrite (sf_nth F Hlast).
    assert (Hb : buf = block_at base blk (last_index s)).
    { unfold block_at, last_index. fold nh. rewrite <- Hnf. fold buf. rewrite firstn_all2 by lia. reflexivity. }
    cbn [bweak bstrong hash_block]. rewrite <- Hb, Z.eqb_refl, Deqb_refl. cbn [andb].
    destruct (send_data_ok D base blk s maxop Hblk Hmax e [] Hwf) as [e1 [E1 [_ [_ [He1 _]]]]].
    rewrite E1, (He1 eq_refl).
    destruct (send_block_ok D H fixed base blk s maxop Hblk Hmax F e _ Hwf Hlast) as [e2 [E2 [Hwf2 [_ Hbo2]]]].
    rewrite E2.
    destruct (send_data_ok D base blk s maxop Hblk Hmax e2 [] Hwf2) as [e3 [E3 [_ [_ [He3 _]]]]].
    rewrite E3, (He3 eq_refl).
    apply Hflush; auto. apply Hbo2. exact Hbo.
  - destruct (Hnoshort eq_refl) as [Hr0 _]. cbn [andb].
    assert (buf = []) by (destruct buf; [reflexivity|cbn in Hbl; lia]).
    rewrite H0.
    destruct (send_data_ok D base blk s maxop Hblk Hmax e [] Hwf) as [e1 [E1 [_ [_ [He1 _]]]]].
    rewrite E1, (He1 eq_refl).
    apply Hflush; auto.
Qed.

End Unchanged.


Section Top.
Variable D : Type.
Variable H : list byte -> D.
Variable Deqb : D -> D -> bool.

Lemma cf_CFP : forall base target blk s, 0 < blk -> sig_facts H base blk s ->
  collision_free H base blk target -> CFP D H base target blk s.
Proof.
  intros base target blk s Hb F Hcf i w Hi Hsub HH. apply Hcf; auto.
  destruct base as [|x t].
  - rewrite (sf_empty F eq_refl) in Hi. cbn in Hi. lia.
  - assert (Hn : x :: t <> []) by discriminate.
    pose proof (sf_len F Hn). pose proof (sf_last F Hn). nia.
Qed.

Theorem deltify_all_ok : forall fixed base target blk maxop0 s,
  (forall a b, Deqb a b = true -> a = b) ->
  0 < blk -> signature H base blk = Some s ->
  exists t, deltify_tx H Deqb fixed all_ok target s maxop0 = (DOk, t) /\
    Forall (good D s (eff_max maxop0)) (sent_of t) /\
    (collision_free H base blk target -> patch base s (sent_of t) = Some target).
Proof.
  intros fixed base target blk maxop0 s Deqb_eq Hb Hs.
  pose proof (signature_facts H Hb Hs) as F.
  pose proof (eff_max_pos maxop0) as Hm. unfold deltify_tx.
  destruct base as [|x b].
  - pose proof (sf_empty F eq_refl) as Es. subst s. cbn [shashes].
    destruct (chunk_all_ok D [] blk (mksig 0 0 []) (eff_max maxop0) Hb Hm (S (length target)) [] target (Nat.lt_succ_diag_r _))
      as [t' [ch [E [Hsn [Hg [_ Hp]]]]]].
    rewrite E. exists t'. split; [reflexivity|]. cbn [sent_of filter map app] in Hsn. rewrite Hsn.
    split; [exact Hg | intros _; exact Hp].
  - assert (Hne : x :: b <> []) by discriminate.
    pose proof (sf_nonempty F Hne) as Hnn.
    destruct (shashes s) as [|h0 hs] eqn:Eh; [congruence|]. rewrite <- Eh in *. clear Eh h0 hs Hnn.
    assert (Hinv0 : INV D H (x :: b) target blk s (eff_max maxop0) (mkes [] 0 0) ([] ++ target)).
    { split.
      - split; [constructor | left; reflexivity].
      - intros _. exists []. split; [reflexivity|reflexivity]. }
    destruct (main_loop_ok D H Deqb Deqb_eq fixed (x :: b) target blk s (eff_max maxop0) Hb Hm F Hne
                (S (length target)) (mkes [] 0 0) [] 0%Z 0%Z target (Nat.lt_succ_diag_r _) Hinv0 (or_introl eq_refl))
      as [e' [buf' [El Hinv]]].
    rewrite El.
    destruct (tail_ok D H Deqb Deqb_eq fixed (x :: b) target blk s (eff_max maxop0) Hb Hm F Hne e' buf' Hinv)
      as [e'' [Et [Hg Hp]]].
    rewrite Et. exists (et e''). split; [reflexivity|]. split; [exact Hg|].
    intro Hcf. apply Hp. apply cf_CFP; assumption.
Qed.

Theorem deltify_unchanged : forall fixed base blk maxop0 s,
  (forall a, Deqb a a = true) ->
  0 < blk -> signature H base blk = Some s ->
  exists t, deltify_tx H Deqb fixed all_ok base s maxop0 = (DOk, t) /\
    Forall (fun o => is_data o = false) (sent_of t).
Proof.
  intros fixed base blk maxop0 s Deqb_refl Hb Hs.
  pose proof (signature_facts H Hb Hs) as F.
  pose proof (eff_max_pos maxop0) as Hm. unfold deltify_tx.
  destruct base as [|x b].
  - pose proof (sf_empty F eq_refl) as Es. subst s. cbn. exists []. split; [reflexivity|constructor].
  - assert (Hne : x :: b <> []) by discriminate.
    pose proof (sf_nonempty F Hne) as Hnn.
    destruct (shashes s) as [|h0 hs] eqn:Eh; [congruence|]. rewrite <- Eh in *. clear Eh h0 hs Hnn.
    assert (Hwf0 : WF D s (eff_max maxop0) (mkes [] 0 0)) by (split; [constructor | left; reflexivity]).
    assert (Hbo0 : Forall (fun o => is_data o = false) (sent_of (et (mkes [] 0 0)))) by constructor.
    assert (Hf0 : length (skipn (0 * blk) (x :: b)) < S (length (x :: b))) by (cbn [Nat.mul skipn]; lia).
    destruct (main_loop_unchanged D H Deqb Deqb_refl fixed (x :: b) blk s (eff_max maxop0) Hb Hm F Hne
                (S (length (x :: b))) 0 (mkes [] 0 0) 0%Z 0%Z Hf0 (Nat.le_0_l _) Hwf0 Hbo0) as [e' [El [Hwf Hbo]]].
    cbn [Nat.mul skipn] in El. rewrite El.
    destruct (tail_unchanged D H Deqb Deqb_refl fixed (x :: b) blk s (eff_max maxop0) Hb Hm F Hne e' Hwf Hbo)
      as [e'' [Et Hbo']].
    rewrite Et. exists (et e''). split; [reflexivity|exact Hbo'].
Qed.

End Top.


(* ---------- the checker check_C19 decides C19_holds ---------- *)
Section Checker.
Variable D : Type.
Variable H : list byte -> D.
Variable Deqb : D -> D -> bool.
Variable strong_valid : D -> bool.

Lemma forallb_Forall : forall (A : Type) (f : A -> bool) l, forallb f l = true <-> Forall (fun x => f x = true) l.
Proof. intros. rewrite forallb_forall, Forall_forall. reflexivity. Qed.

Theorem check_C19_iff : forall base target blk maxop0 ops,
  check_C19 H strong_valid base target blk maxop0 ops = true <->
  C19_holds H strong_valid base target blk maxop0 ops.
Proof.
  intros base target blk maxop0 ops. unfold check_C19, C19_holds.
  destruct (signature H base blk) as [s|]; [|split; [discriminate | intros [s [E _]]; discriminate]].
  rewrite !andb_true_iff, olist_eqb_eq, !forallb_Forall.
  split.
  - intros [[[[[Hp Hv] Hr] Hb] Hu] Hs]. exists s. repeat split; auto.
    + eapply Forall_impl; [|exact Hb]. intros o Ho. unfold op_data_bound in Ho. now apply Nat.leb_le.
    + intro Eq. destruct (list_eqb base target) eqn:El.
      * apply forallb_Forall in Hu. eapply Forall_impl; [|exact Hu]. intros o Ho. now apply negb_true_iff.
      * apply list_eqb_eq in Eq. congruence.
  - intros [s' [Es [Hp [Hv [Hr [Hb [Hu Hs]]]]]]]. inversion Es; subst s'.
    repeat split; auto.
    + eapply Forall_impl; [|exact Hb]. intros o Ho. unfold op_data_bound. now apply Nat.leb_le.
    + destruct (list_eqb base target) eqn:El; [|reflexivity].
      apply list_eqb_eq in El. apply forallb_Forall. eapply Forall_impl; [|exact (Hu El)].
      intros o Ho. now apply negb_true_iff.
Qed.

Hypothesis Deqb_spec : forall a b, Deqb a b = true <-> a = b.
Hypothesis H_valid : forall x, strong_valid (H x) = true.

Theorem deltify_total : forall base target blk maxop0 s, 0 < blk -> signature H base blk = Some s ->
  exists ops, deltify H Deqb target s maxop0 = Some ops.
Proof.
  intros base target blk maxop0 s Hb Hs.
  destruct (deltify_all_ok D H Deqb false base target blk maxop0 s (fun a b => proj1 (Deqb_spec a b)) Hb Hs)
    as [t [E _]].
  unfold deltify. rewrite E. eexists; reflexivity.
Qed.

Theorem deltify_C19_holds : forall base target blk maxop0 s ops, 0 < blk ->
  signature H base blk = Some s -> collision_free H base blk target ->
  deltify H Deqb target s maxop0 = Some ops ->
  C19_holds H strong_valid base target blk maxop0 ops.
Proof.
  intros base target blk maxop0 s ops Hb Hs Hcf Hd.
  destruct (deltify_all_ok D H Deqb false base target blk maxop0 s (fun a b => proj1 (Deqb_spec a b)) Hb Hs)
    as [t [E [Hg Hp]]].
  unfold deltify in Hd. rewrite E in Hd. inversion Hd; subst ops. clear Hd.
  exists s. split; [exact Hs|]. split; [apply Hp; exact Hcf|].
  split; [eapply Forall_impl; [|exact Hg]; intros o [Ho _]; exact Ho|].
  split; [eapply Forall_impl; [|exact Hg]; intros o [_ [Ho _]]; exact Ho|].
  split; [eapply Forall_impl; [|exact Hg]; intros o [_ [_ Ho]]; exact Ho|].
  split.
  - intro Eq. subst target.
    destruct (deltify_unchanged D H Deqb false base blk maxop0 s (fun a => proj2 (Deqb_spec a a) eq_refl) Hb Hs)
      as [t' [E' Hbo]].
    rewrite E in E'. inversion E'; subst t'. exact Hbo.
  - eapply sig_valid_signature; eauto.
Qed.

End Checker.

(* ---------- the statements of C19, one by one ---------- *)
Section Statements.
Variable D : Type.
Variable H : list byte -> D.
Variable Deqb : D -> D -> bool.
Variable strong_valid : D -> bool.
Hypothesis Deqb_spec : forall a b, Deqb a b = true <-> a = b.

Let Deqb_eq : forall a b, Deqb a b = true -> a = b := fun a b => proj1 (Deqb_spec a b).

Lemma deltify_inv : forall base target blk maxop0 s ops, 0 < blk -> signature H base blk = Some s ->
  deltify H Deqb target s maxop0 = Some ops ->
  Forall (good D s (eff_max maxop0)) ops /\
  (collision_free H base blk target -> patch base s ops = Some target).
Proof.
  intros base target blk maxop0 s ops Hb Hs Hd.
  destruct (deltify_all_ok D H Deqb false base target blk maxop0 s Deqb_eq Hb Hs) as [t [E [Hg Hp]]].
  unfold deltify in Hd. rewrite E in Hd. inversion Hd; subst ops. split; assumption.
Qed.

Theorem deltify_roundtrip : forall base target blk maxop0 s ops, 0 < blk ->
  signature H base blk = Some s -> collision_free H base blk target ->
  deltify H Deqb target s maxop0 = Some ops -> patch base s ops = Some target.
Proof. intros base target blk maxop0 s ops Hb Hs Hcf Hd. destruct (deltify_inv _ _ _ _ _ _ Hb Hs Hd) as [_ Hp]. auto. Qed.

Theorem deltify_ops_wf : forall base target blk maxop0 s ops, 0 < blk ->
  signature H base blk = Some s -> deltify H Deqb target s maxop0 = Some ops ->
  Forall (fun o => op_valid o = true /\
                   (is_data o = false -> ostart o < length (shashes s) /\
                                         ostart o + ocount o <= length (shashes s))) ops.
Proof.
  intros base target blk maxop0 s ops Hb Hs Hd. destruct (deltify_inv _ _ _ _ _ _ Hb Hs Hd) as [Hg _].
  eapply Forall_impl; [|exact Hg]. intros o [Hv [Hr _]]. split; [exact Hv|].
  intro Hnd. unfold op_in_range in Hr. rewrite Hnd in Hr. apply andb_true_iff in Hr.
  destruct Hr as [H1 H2]. apply Nat.ltb_lt in H1. apply Nat.leb_le in H2. split; assumption.
Qed.

Theorem deltify_data_bound : forall base target blk maxop0 s ops, 0 < blk ->
  signature H base blk = Some s -> deltify H Deqb target s maxop0 = Some ops ->
  Forall (fun o => length (odata o) <= eff_max maxop0) ops.
Proof.
  intros base target blk maxop0 s ops Hb Hs Hd. destruct (deltify_inv _ _ _ _ _ _ Hb Hs Hd) as [Hg _].
  eapply Forall_impl; [|exact Hg]. intros o [_ [_ Hl]]. exact Hl.
Qed.

Theorem deltify_unchanged_no_literal : forall base blk maxop0 s ops, 0 < blk ->
  signature H base blk = Some s -> deltify H Deqb base s maxop0 = Some ops ->
  Forall (fun o => is_data o = false) ops.
Proof.
  intros base blk maxop0 s ops Hb Hs Hd.
  destruct (deltify_unchanged D H Deqb false base blk maxop0 s (fun a => proj2 (Deqb_spec a a) eq_refl) Hb Hs)
    as [t [E Hbo]].
  unfold deltify in Hd. rewrite E in Hd. inversion Hd; subst ops. exact Hbo.
Qed.

Theorem eff_max_default : eff_max 0 = N.to_nat 65536 /\ forall m, m <> 0 -> eff_max m = m.
Proof.
  split; [reflexivity|]. intros m Hm. unfold eff_max. destruct (m =? 0) eqn:E; [apply Nat.eqb_eq in E; congruence|reflexivity].
Qed.

Theorem model_passes_check : forall base target blk maxop0 s ops,
  (forall x, strong_valid (H x) = true) -> 0 < blk ->
  signature H base blk = Some s -> collision_free H base blk target ->
  deltify H Deqb target s maxop0 = Some ops ->
  check_C19 H strong_valid base target blk maxop0 ops = true.
Proof.
  intros base target blk maxop0 s ops Hv Hb Hs Hcf Hd. apply check_C19_iff.
  eapply deltify_C19_holds; eauto.
Qed.

End Statements.

(* ---------- non-vacuity: the identity "hash" is collision free and the
   hypotheses hold on a case whose delta mixes block and data operations ---- *)
Definition ex_base : list byte := [x61; x62; x63; x64; x65; x66; x67].
Definition ex_target : list byte := [x63; x64; x7a; x61; x62; x67; x67].

Lemma id_collision_free : forall base blk target, collision_free (fun x : list byte => x) base blk target.
Proof. intros base blk target i w _ _ E. exact E. Qed.

Lemma c19_example_holds :
  collision_free (fun x : list byte => x) ex_base 2 ex_target /\
  exists s ops, signature (fun x : list byte => x) ex_base 2 = Some s /\
    deltify (fun x : list byte => x) list_eqb ex_target s 2 = Some ops /\
    ops = [block_op 1 1; data_op [x7a]; block_op 0 1; data_op [x67]; block_op 3 1] /\
    patch ex_base s ops = Some ex_target.
Proof.
  split; [apply id_collision_free|].
  eexists. eexists. split; [vm_compute; reflexivity|]. split; [vm_compute; reflexivity|].
  split; [reflexivity|vm_compute; reflexivity].
Qed.
