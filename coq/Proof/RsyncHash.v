(* Proofs about the rsync weak hash (Model/Rsync.v): the masking functions are
   the uint32 wrap and the modulus 2^16, and rolling the hash by one byte equals
   recomputing it (C19, c19_roll). *)
From Coq Require Import List Arith ZArith Bool Lia Zdiv Znumtheory Morphisms Setoid.
From Coq Require Import Init.Byte.
From Coq Require Strings.Byte.
Import ListNotations.
From Mv Require Import Model.Rsync.
Local Open Scope Z_scope.

Lemma zmask_mod : forall n x, 0 <= n -> zmask (Z.ones n) x = x mod 2 ^ n.
Proof.
  intros n x Hn. unfold zmask.
  assert (Hp : 0 < 2 ^ n) by (apply Z.pow_pos_nonneg; lia).
  destruct (0 <=? x) eqn:Hx.
  - apply Z.land_ones; assumption.
  - apply Z.leb_gt in Hx.
    rewrite Z.land_ones by assumption.
    rewrite Z.ones_equiv.
    apply Z.mod_unique_pos with (q := - ((- x - 1) / 2 ^ n) - 1).
    + pose proof (Z.mod_pos_bound (- x - 1) (2 ^ n) Hp). lia.
    + pose proof (Z.div_mod (- x - 1) (2 ^ n)). lia.
Qed.

Lemma u32_mod : forall x, u32 x = x mod M32.
Proof. intro x. unfold u32. change 4294967295 with (Z.ones 32). rewrite zmask_mod by lia. reflexivity. Qed.

Lemma m16_mod : forall x, m16 x = x mod M16.
Proof. intro x. unfold m16. change 65535 with (Z.ones 16). rewrite zmask_mod by lia. reflexivity. Qed.


Fixpoint S1 (l : list byte) : Z := match l with [] => 0 | b :: t => zb b + S1 t end.
Fixpoint S2 (l : list byte) (n i : Z) : Z :=
  match l with [] => 0 | b :: t => (n - i) * zb b + S2 t n (i + 1) end.

(* congruence modulo N as a sealed relation (so that [rewrite] treats it as a
   setoid relation and never as an equation between remainders) *)
Inductive cg (N a b : Z) : Prop := Cg : a mod N = b mod N -> cg N a b.

Lemma cg_eq : forall N a b, cg N a b -> a mod N = b mod N.
Proof. intros N a b [E]. exact E. Qed.

Global Instance cg_equiv N : Equivalence (cg N).
Proof.
  split.
  - intro a. constructor. reflexivity.
  - intros a b [E]. constructor. symmetry. exact E.
  - intros a b c [E1] [E2]. constructor. congruence.
Qed.

Global Instance cg_add N : Proper (cg N ==> cg N ==> cg N) Z.add.
Proof. intros a a' [Ea] b b' [Eb]. constructor. rewrite (Zplus_mod a b), (Zplus_mod a' b'), Ea, Eb. reflexivity. Qed.
Global Instance cg_sub N : Proper (cg N ==> cg N ==> cg N) Z.sub.
Proof. intros a a' [Ea] b b' [Eb]. constructor. rewrite (Zminus_mod a b), (Zminus_mod a' b'), Ea, Eb. reflexivity. Qed.
Global Instance cg_mul N : Proper (cg N ==> cg N ==> cg N) Z.mul.
Proof. intros a a' [Ea] b b' [Eb]. constructor. rewrite (Zmult_mod a b), (Zmult_mod a' b'), Ea, Eb. reflexivity. Qed.

Lemma u32_cg : forall x, cg M32 (u32 x) x.
Proof. intro x. constructor. rewrite u32_mod. apply Zmod_mod. Qed.

Lemma cg32_16 : forall a b, cg M32 a b -> cg M16 a b.
Proof.
  intros a b [E]. constructor.
  rewrite (Zmod_div_mod M16 M32 a), (Zmod_div_mod M16 M32 b), E; try reflexivity;
    try (unfold M16, M32; lia); exists 65536; reflexivity.
Qed.

Lemma u32_cg16 : forall x, cg M16 (u32 x) x.
Proof. intro x. apply cg32_16, u32_cg. Qed.

Lemma m16_cg : forall x, cg M16 (m16 x) x.
Proof. intro x. constructor. rewrite m16_mod. apply Zmod_mod. Qed.

Lemma m16_congr : forall a b, cg M16 a b -> m16 a = m16 b.
Proof. intros a b [E]. rewrite !m16_mod. exact E. Qed.

Lemma weak_loop_spec : forall data bs i r1 r2,
  cg M32 (fst (weak_loop data bs i r1 r2)) (r1 + S1 data) /\
  cg M32 (snd (weak_loop data bs i r1 r2)) (r2 + S2 data bs i).
Proof.
  induction data as [|b t IH]; intros bs i r1 r2; cbn [weak_loop S1 S2 fst snd].
  - split; [replace (r1 + 0) with r1 by lia | replace (r2 + 0) with r2 by lia]; reflexivity.
  - destruct (IH bs (i + 1) (u32 (r1 + zb b)) (u32 (r2 + u32 (u32 (u32 bs - u32 i) * zb b)))) as [E1 E2].
    split.
    + rewrite E1. rewrite u32_cg. replace (r1 + (zb b + S1 t)) with (r1 + zb b + S1 t) by lia. reflexivity.
    + rewrite E2. rewrite !u32_cg.
      replace (r2 + ((bs - i) * zb b + S2 t bs (i + 1))) with (r2 + (bs - i) * zb b + S2 t bs (i + 1)) by lia.
      reflexivity.
Qed.

Lemma S1_app : forall l b, S1 (l ++ [b]) = S1 l + zb b.
Proof. induction l as [|a t IH]; intro b; cbn [app S1]; [lia | rewrite IH; lia]. Qed.

Lemma S2_app : forall l n i b, S2 (l ++ [b]) n i = S2 l n i + (n - i - Z.of_nat (length l)) * zb b.
Proof.
  induction l as [|a t IH]; intros n i b; cbn [app S2 length].
  - change (Z.of_nat 0) with 0. lia.
  - rewrite IH. rewrite Nat2Z.inj_succ. lia.
Qed.

Lemma S2_shift : forall l n i, S2 l n i = S2 l n (i + 1) + S1 l.
Proof.
  induction l as [|a t IH]; intros n i; cbn [S2 S1]; [lia|].
  rewrite (IH n (i + 1)). lia.
Qed.

Lemma weak_hash_spec : forall data bs,
  weak_hash data bs =
  (u32 (m16 (S1 data) + u32 (M16 * m16 (S2 data (Z.of_nat bs) 0))), m16 (S1 data), m16 (S2 data (Z.of_nat bs) 0)).
Proof.
  intros data bs. unfold weak_hash.
  destruct (weak_loop_spec data (Z.of_nat bs) 0 0 0) as [E1 E2].
  destruct (weak_loop data (Z.of_nat bs) 0 0 0) as [a b]. cbn [fst snd] in E1, E2.
  rewrite (m16_congr a (S1 data)) by (apply cg32_16; rewrite E1; reflexivity).
  rewrite (m16_congr b (S2 data (Z.of_nat bs) 0)) by (apply cg32_16; rewrite E2; reflexivity).
  reflexivity.
Qed.

(* c19_roll: rolling the window by one byte equals recomputing the hash *)
Theorem roll_correct : forall out rest inb wk r1 r2,
  let n := length (out :: rest) in
  weak_hash (out :: rest) n = (wk, r1, r2) ->
  roll_hash r1 r2 out inb n = weak_hash (rest ++ [inb]) n.
Proof.
  intros out rest inb wk r1 r2 n Hw.
  rewrite weak_hash_spec in Hw.
  assert (Hr1 : r1 = m16 (S1 (out :: rest))) by congruence.
  assert (Hr2 : r2 = m16 (S2 (out :: rest) (Z.of_nat n) 0)) by congruence.
  clear Hw. subst r1 r2.
  rewrite weak_hash_spec. unfold roll_hash. cbv zeta.
  set (N := Z.of_nat n).
  assert (HN : N = Z.of_nat (length rest) + 1) by (unfold N, n; cbn [length]; lia).
  assert (E1 : m16 (u32 (u32 (m16 (S1 (out :: rest)) - zb out) + zb inb)) = m16 (S1 (rest ++ [inb]))).
  { apply m16_congr. rewrite !u32_cg16, m16_cg. rewrite S1_app. cbn [S1].
    replace (zb out + S1 rest - zb out + zb inb) with (S1 rest + zb inb) by lia. reflexivity. }
  rewrite E1.
  assert (E2 : m16 (u32 (u32 (m16 (S2 (out :: rest) N 0) - u32 (u32 N * zb out)) + m16 (S1 (rest ++ [inb]))))
               = m16 (S2 (rest ++ [inb]) N 0)).
  { apply m16_congr. rewrite !u32_cg16, !m16_cg. rewrite S2_app, S1_app. cbn [S2].
    rewrite (S2_shift rest N 0). rewrite HN.
    match goal with |- cg _ ?a ?b => replace a with b by lia end. reflexivity. }
  rewrite E2. reflexivity.
Qed.

