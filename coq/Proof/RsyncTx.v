(* Proofs for C20 (Model/Rsync.v): with the repaired sendBlock ([fixed = true])
   a Deltify run under ANY transmit oracle either stops with an error at the
   first failed call (which is then the last entry of the call log), or no call
   failed and the run coincides with the failure-free run.  Lifted to
   rsync.Transmit.  The unrepaired variant is refuted by computation. *)
From Coq Require Import List Arith ZArith Bool Lia.
From Coq Require Import Init.Byte.
From Coq Require Strings.Byte.
Import ListNotations.
From Mv Require Import Model.Rsync Proof.Rsync.

Definition nofail (t : tlog) : Prop := any_failed t = false.

Lemma nofail_nil : nofail [].
Proof. reflexivity. Qed.

Lemma nofail_snoc : forall t o, nofail t -> nofail (t ++ [(o, true)]).
Proof. intros t o Hn. unfold nofail, any_failed in *. rewrite existsb_app, Hn. reflexivity. Qed.

Lemma last_ok_snoc : forall t o b, last_ok (t ++ [(o, b)]) = b.
Proof. intros. unfold last_ok. rewrite rev_app_distr. reflexivity. Qed.

Lemma transmit_cases : forall tx t o,
  (transmit tx t o = (t ++ [(o, true)], true) /\ transmit all_ok t o = (t ++ [(o, true)], true)) \/
  transmit tx t o = (t ++ [(o, false)], false).
Proof. intros tx t o. unfold transmit. destruct (tx (length t)); [left; split; reflexivity | right; reflexivity]. Qed.

(* outcome of running a step under [tx] (x) against the same step under the
   oracle that never fails (y) *)
Definition LK {A : Type} (lg : A -> tlog) (rs : A -> dres) (x y : A) : Prop :=
  (nofail (lg x) /\ y = x) \/ (rs x = DErr /\ last_ok (lg x) = false).

Notation LKt := (LK (@fst tlog dres) (@snd tlog dres)).
Notation LKe := (LK (fun x : estate * dres => et (fst x)) (@snd estate dres)).
Notation LK3 := (LK (fun x : estate * dres * list byte => et (fst (fst x))) (fun x => snd (fst x))).

Section Lock.
Variable D : Type.
Variable H : list byte -> D.
Variable Deqb : D -> D -> bool.
Variable tx : nat -> bool.

Lemma send_chunks_lock : forall fuel maxop t data, nofail t ->
  LKt (send_chunks tx fuel maxop t data) (send_chunks all_ok fuel maxop t data).
Proof.
  induction fuel as [|f IH]; intros maxop t data Hn.
  - destruct data; left; split; auto.
  - destruct data as [|x r]; [left; split; auto|]. cbn [send_chunks].
    destruct (transmit_cases tx t (data_op (firstn (Nat.min (length (x :: r)) maxop) (x :: r)))) as [[E1 E2]|E1];
      rewrite E1; [rewrite E2|].
    + apply IH. now apply nofail_snoc.
    + right. split; [reflexivity|apply last_ok_snoc].
Qed.

Lemma chunk_all_lock : forall fuel maxop t tg, nofail t ->
  LKt (chunk_all tx fuel maxop t tg) (chunk_all all_ok fuel maxop t tg).
Proof.
  induction fuel as [|f IH]; intros maxop t tg Hn; cbn [chunk_all]; [left; split; auto|].
  destruct tg as [|x r]; [left; split; auto|].
  destruct (length (x :: r) <? maxop).
  - destruct (transmit_cases tx t (data_op (x :: r))) as [[E1 E2]|E1]; rewrite E1; [rewrite E2|].
    + left. split; [now apply nofail_snoc|reflexivity].
    + right. split; [reflexivity|apply last_ok_snoc].
  - destruct (transmit_cases tx t (data_op (firstn maxop (x :: r)))) as [[E1 E2]|E1]; rewrite E1; [rewrite E2|].
    + apply IH. now apply nofail_snoc.
    + right. split; [reflexivity|apply last_ok_snoc].
Qed.

Lemma send_data_lock : forall maxop e data, nofail (et e) ->
  LKe (send_data tx maxop e data) (send_data all_ok maxop e data).
Proof.
  intros maxop e data Hn. unfold send_data.
  destruct ((0 <? length data) && (0 <? ecc e)).
  - destruct (transmit_cases tx (et e) (block_op (ecs e) (ecc e))) as [[E1 E2]|E1]; rewrite E1; [rewrite E2|].
    + destruct (send_chunks_lock (length data) maxop _ data (nofail_snoc _ (block_op (ecs e) (ecc e)) Hn)) as [[Hn' Eq]|[Hr Hl]].
      * rewrite Eq. destruct (send_chunks tx (length data) maxop _ data) as [t'' r]. left. split; [exact Hn'|reflexivity].
      * destruct (send_chunks tx (length data) maxop _ data) as [t'' r]. right. split; assumption.
    + right. split; [reflexivity|apply last_ok_snoc].
  - destruct (send_chunks_lock (length data) maxop _ data Hn) as [[Hn' Eq]|[Hr Hl]].
    + rewrite Eq. destruct (send_chunks tx (length data) maxop (et e) data) as [t'' r]. left. split; [exact Hn'|reflexivity].
    + destruct (send_chunks tx (length data) maxop (et e) data) as [t'' r]. right. split; assumption.
Qed.

(* the repaired sendBlock *)
Lemma send_block_lock : forall e idx, nofail (et e) ->
  LKe (send_block true tx e idx) (send_block true all_ok e idx).
Proof.
  intros e idx Hn. unfold send_block.
  destruct (0 <? ecc e); [|left; split; auto].
  destruct (ecs e + ecc e =? idx); [left; split; auto|].
  destruct (transmit_cases tx (et e) (block_op (ecs e) (ecc e))) as [[E1 E2]|E1]; rewrite E1; [rewrite E2|].
  - left. split; [now apply nofail_snoc|reflexivity].
  - right. split; [reflexivity|apply last_ok_snoc].
Qed.

Section Loop.
Variable s : sig D.
Variable maxop : nat.

(* sendData followed by sendBlock, as used by react and by the tail *)
Lemma data_then_block_lock : forall e pfx idx (buf : list byte), nofail (et e) ->
  LK3 (let '(e1, r1) := send_data tx maxop e pfx in
       match r1 with
       | DOk => let '(e2, r2) := send_block true tx e1 idx in
                match r2 with DOk => (e2, DOk, []) | _ => (e2, r2, buf) end
       | _ => (e1, r1, buf)
       end)
      (let '(e1, r1) := send_data all_ok maxop e pfx in
       match r1 with
       | DOk => let '(e2, r2) := send_block true all_ok e1 idx in
                match r2 with DOk => (e2, DOk, []) | _ => (e2, r2, buf) end
       | _ => (e1, r1, buf)
       end).
Proof.
  intros e pfx idx buf Hn.
  destruct (send_data_lock maxop e pfx Hn) as [[Hn1 Eq]|[Hr Hl]].
  - rewrite Eq. destruct (send_data tx maxop e pfx) as [e1 r1]. cbn [fst snd] in Hn1.
    destruct r1; try (left; split; [exact Hn1|reflexivity]).
    destruct (send_block_lock e1 idx Hn1) as [[Hn2 Eq2]|[Hr2 Hl2]].
    + rewrite Eq2. destruct (send_block true tx e1 idx) as [e2 r2]. cbn [fst snd] in Hn2.
      left. split; [destruct r2; exact Hn2|reflexivity].
    + destruct (send_block true tx e1 idx) as [e2 r2]. cbn [fst snd] in Hr2, Hl2. subst r2.
      right. split; [reflexivity|exact Hl2].
  - destruct (send_data tx maxop e pfx) as [e1 r1]. cbn [fst snd] in Hr, Hl. subst r1.
    right. split; [reflexivity|exact Hl].
Qed.

Lemma react_lock : forall e buf w, nofail (et e) ->
  LK3 (react H Deqb true tx s maxop e buf w) (react H Deqb true all_ok s maxop e buf w).
Proof.
  intros e buf w Hn. unfold react.
  destruct (find_match Deqb (full_hashes s) 0 w (H (skipn (length buf - sblk s) buf))).
  - apply data_then_block_lock. exact Hn.
  - destruct (length buf =? buf_cap s maxop); [|left; split; auto].
    destruct (send_data_lock maxop e (firstn (length buf - sblk s) buf) Hn) as [[Hn1 Eq]|[Hr Hl]].
    + rewrite Eq. destruct (send_data tx maxop e _) as [e1 r1]. cbn [fst snd] in Hn1.
      left. split; [destruct r1; exact Hn1|reflexivity].
    + destruct (send_data tx maxop e _) as [e1 r1]. cbn [fst snd] in Hr, Hl. subst r1.
      right. split; [reflexivity|exact Hl].
Qed.

Lemma main_loop_lock : forall fuel e buf r1 r2 rem, nofail (et e) ->
  LK3 (main_loop H Deqb true tx s maxop fuel e buf r1 r2 rem)
      (main_loop H Deqb true all_ok s maxop fuel e buf r1 r2 rem).
Proof.
  induction fuel as [|f IH]; intros e buf r1 r2 rem Hn; cbn [main_loop]; [left; split; auto|].
  destruct (advance s maxop buf r1 r2 rem) as [buf'| |buf' w a c rem']; try (left; split; auto; fail).
  destruct (react_lock e buf' w Hn) as [[Hn1 Eq]|[Hr Hl]].
  - rewrite Eq. destruct (react H Deqb true tx s maxop e buf' w) as [[e' r] buf'']. cbn [fst snd] in Hn1.
    destruct r; try (left; split; [exact Hn1|reflexivity]).
    apply IH. exact Hn1.
  - destruct (react H Deqb true tx s maxop e buf' w) as [[e' r] buf'']. cbn [fst snd] in Hr, Hl. subst r.
    right. split; [reflexivity|exact Hl].
Qed.

Lemma tail_lock : forall e buf, nofail (et e) ->
  LKe (tail_phase H Deqb true tx s maxop e buf) (tail_phase H Deqb true all_ok s maxop e buf).
Proof.
  intros e buf Hn. unfold tail_phase. cbv zeta.
  match goal with |- context [if ?c then _ else (e, DOk, buf)] => set (hit := c) end.
  set (X := if hit then _ else (e, DOk, buf)).
  set (Y := if hit then _ else (e, DOk, buf)).
  assert (Hstep1 : LK3 X Y).
  { subst X Y. destruct hit; [apply data_then_block_lock; exact Hn|left; split; auto]. }
  clearbody X Y. clear hit.
  destruct Hstep1 as [[Hn1 Eq]|[Hr Hl]].
  - subst Y. destruct X as [[e1 r1] buf1]. cbn [fst snd] in Hn1.
    destruct r1; try (left; split; [exact Hn1|reflexivity]).
    destruct (send_data_lock maxop e1 buf1 Hn1) as [[Hn2 Eq2]|[Hr2 Hl2]].
    + rewrite Eq2. destruct (send_data tx maxop e1 buf1) as [e2 r2]. cbn [fst snd] in Hn2.
      destruct r2; try (left; split; [exact Hn2|reflexivity]).
      destruct (0 <? ecc e2); [|left; split; auto].
      destruct (transmit_cases tx (et e2) (block_op (ecs e2) (ecc e2))) as [[E1 E2]|E1]; rewrite E1; [rewrite E2|].
      * left. split; [now apply nofail_snoc|reflexivity].
      * right. split; [reflexivity|apply last_ok_snoc].
    + destruct (send_data tx maxop e1 buf1) as [e2 r2]. cbn [fst snd] in Hr2, Hl2. subst r2.
      right. split; [reflexivity|exact Hl2].
  - destruct X as [[e1 r1] buf1]. cbn [fst snd] in Hr, Hl. subst r1. right. split; [reflexivity|exact Hl].
Qed.

End Loop.

Theorem deltify_lock : forall target s maxop0,
  LK (@snd dres tlog) (@fst dres tlog)
     (deltify_tx H Deqb true tx target s maxop0) (deltify_tx H Deqb true all_ok target s maxop0).
Proof.
  intros target s maxop0. unfold deltify_tx.
  destruct (shashes s).
  - destruct (chunk_all_lock (S (length target)) (eff_max maxop0) [] target nofail_nil) as [[Hn Eq]|[Hr Hl]].
    + rewrite Eq. destruct (chunk_all tx _ _ [] target) as [t r]. left. split; [exact Hn|reflexivity].
    + destruct (chunk_all tx _ _ [] target) as [t r]. right. split; assumption.
  - destruct (main_loop_lock s (eff_max maxop0) (S (length target)) (mkes [] 0 0) [] 0%Z 0%Z target nofail_nil)
      as [[Hn Eq]|[Hr Hl]].
    + rewrite Eq. destruct (main_loop H Deqb true tx s _ _ _ [] 0%Z 0%Z target) as [[e r] buf]. cbn [fst snd] in Hn.
      destruct r; try (left; split; [exact Hn|reflexivity]).
      destruct (tail_lock s (eff_max maxop0) e buf Hn) as [[Hn2 Eq2]|[Hr2 Hl2]].
      * rewrite Eq2. destruct (tail_phase H Deqb true tx s _ e buf) as [e' r']. left. split; [exact Hn2|reflexivity].
      * destruct (tail_phase H Deqb true tx s _ e buf) as [e' r']. right. split; assumption.
    + destruct (main_loop H Deqb true tx s _ _ _ [] 0%Z 0%Z target) as [[e r] buf]. cbn [fst snd] in Hr, Hl. subst r.
      right. split; [reflexivity|exact Hl].
Qed.

End Lock.

(* ---------- consequences for Engine.Deltify ---------- *)
Section Deltify.
Variable D : Type.
Variable H : list byte -> D.
Variable Deqb : D -> D -> bool.

(* success is never reported when a transmit call failed; a successful run is
   the failure-free run *)
Theorem no_silent_loss : forall tx target s maxop0 t,
  deltify_tx H Deqb true tx target s maxop0 = (DOk, t) ->
  any_failed t = false /\ deltify_tx H Deqb true all_ok target s maxop0 = (DOk, t).
Proof.
  intros tx target s maxop0 t E.
  destruct (deltify_lock D H Deqb tx target s maxop0) as [[Hn Eq]|[Hr _]]; rewrite E in *.
  - split; [exact Hn|exact Eq].
  - discriminate.
Qed.

(* transmit.go relies on this: the outcome of the LAST call tells whether any
   call failed *)
Theorem last_call_tells : forall tx target s maxop0 r t,
  deltify_tx H Deqb true tx target s maxop0 = (r, t) -> last_ok t = true ->
  any_failed t = false /\ deltify_tx H Deqb true all_ok target s maxop0 = (r, t).
Proof.
  intros tx target s maxop0 r t E Hl.
  destruct (deltify_lock D H Deqb tx target s maxop0) as [[Hn Eq]|[_ Hl']]; rewrite E in *.
  - split; [exact Hn|exact Eq].
  - cbn [snd] in Hl'. congruence.
Qed.

Hypothesis Deqb_spec : forall a b, Deqb a b = true <-> a = b.

(* with C19: for any failure pattern, either Deltify does not report success or
   the receiver can rebuild exactly the target *)
Theorem either_error_or_target : forall tx base target blk maxop0 s r t,
  0 < blk -> signature H base blk = Some s -> collision_free H base blk target ->
  deltify_tx H Deqb true tx target s maxop0 = (r, t) ->
  r <> DOk \/ (any_failed t = false /\ patch base s (sent_of t) = Some target).
Proof.
  intros tx base target blk maxop0 s r t Hb Hs Hcf E.
  destruct r; try (left; discriminate). right.
  destruct (no_silent_loss _ _ _ _ _ E) as [Hn Eok]. split; [exact Hn|].
  destruct (deltify_all_ok D H Deqb true base target blk maxop0 s (fun a b => proj1 (Deqb_spec a b)) Hb Hs)
    as [t' [E' [_ Hp]]].
  rewrite Eok in E'. inversion E'; subst t'. apply Hp. exact Hcf.
Qed.

End Deltify.

(* ---------- the call log is faithful to the oracle: entry i carries tx i ---------- *)
Section LogFaithful.
Variable D : Type.
Variable H : list byte -> D.
Variable Deqb : D -> D -> bool.
Variable fixed : bool.
Variable tx : nat -> bool.

Inductive ext : tlog -> tlog -> Prop :=
| ext_refl : forall t, ext t t
| ext_step : forall t t' o, ext t t' -> ext t (fst (transmit tx t' o)).

Lemma ext_trans : forall a b c, ext a b -> ext b c -> ext a c.
Proof. intros a b c Hab Hbc. induction Hbc; [exact Hab|]. apply ext_step. apply IHHbc. exact Hab. Qed.

Lemma ext_one : forall t o, ext t (fst (transmit tx t o)).
Proof. intros. apply ext_step. apply ext_refl. Qed.

Definition log_ok (t : tlog) : Prop := forall i b, nth_error (map snd t) i = Some b -> b = tx i.

Lemma log_ok_ext : forall t t', ext t t' -> log_ok t -> log_ok t'.
Proof.
  intros t t' He. induction He as [|t t' o He IH]; intro Hok; [exact Hok|].
  specialize (IH Hok). unfold transmit. cbn [fst]. intros i b Hn.
  rewrite map_app in Hn. cbn [map snd] in Hn.
  destruct (Nat.lt_ge_cases i (length (map snd t'))) as [Hlt|Hge].
  - rewrite nth_error_app1 in Hn by exact Hlt. now apply IH.
  - rewrite nth_error_app2 in Hn by exact Hge. rewrite map_length in *.
    destruct (i - length t') as [|k] eqn:Ek; cbn in Hn.
    + inversion Hn; subst b. f_equal. lia.
    + destruct k; discriminate.
Qed.

Lemma send_chunks_ext : forall fuel maxop t data, ext t (fst (send_chunks tx fuel maxop t data)).
Proof.
  induction fuel as [|f IH]; intros maxop t data.
  - destruct data; apply ext_refl.
  - destruct data as [|x r]; [apply ext_refl|]. cbn [send_chunks].
    pose proof (ext_one t (data_op (firstn (Nat.min (length (x :: r)) maxop) (x :: r)))) as H1.
    destruct (transmit tx t _) as [t' ok]. cbn [fst] in H1.
    destruct ok; [|exact H1]. eapply ext_trans; [exact H1|apply IH].
Qed.

Lemma chunk_all_ext : forall fuel maxop t tg, ext t (fst (chunk_all tx fuel maxop t tg)).
Proof.
  induction fuel as [|f IH]; intros maxop t tg; cbn [chunk_all]; [apply ext_refl|].
  destruct tg as [|x r]; [apply ext_refl|].
  destruct (length (x :: r) <? maxop).
  - pose proof (ext_one t (data_op (x :: r))) as H1. destruct (transmit tx t _) as [t' ok]. exact H1.
  - pose proof (ext_one t (data_op (firstn maxop (x :: r)))) as H1.
    destruct (transmit tx t _) as [t' ok]. cbn [fst] in H1.
    destruct ok; [|exact H1]. eapply ext_trans; [exact H1|apply IH].
Qed.

Lemma send_data_ext : forall maxop e data, ext (et e) (et (fst (send_data tx maxop e data))).
Proof.
  intros maxop e data. unfold send_data.
  destruct ((0 <? length data) && (0 <? ecc e)).
  - pose proof (ext_one (et e) (block_op (ecs e) (ecc e))) as H1.
    destruct (transmit tx (et e) _) as [t' ok]. cbn [fst] in H1.
    destruct ok; [|exact H1].
    pose proof (send_chunks_ext (length data) maxop t' data) as H2.
    destruct (send_chunks tx (length data) maxop t' data) as [t'' r]. cbn [fst et] in *.
    eapply ext_trans; eassumption.
  - pose proof (send_chunks_ext (length data) maxop (et e) data) as H2.
    destruct (send_chunks tx (length data) maxop (et e) data) as [t'' r]. exact H2.
Qed.

Lemma send_block_ext : forall e idx, ext (et e) (et (fst (send_block fixed tx e idx))).
Proof.
  intros e idx. unfold send_block.
  destruct (0 <? ecc e); [|apply ext_refl].
  destruct (ecs e + ecc e =? idx); [apply ext_refl|].
  pose proof (ext_one (et e) (block_op (ecs e) (ecc e))) as H1.
  destruct (transmit tx (et e) _) as [t' ok]. cbn [fst] in H1.
  destruct ok; [exact H1|]. destruct fixed; exact H1.
Qed.

Variable s : sig D.
Variable maxop : nat.

Lemma data_block_ext : forall e pfx idx (buf : list byte),
  ext (et e) (et (fst (fst
    (let '(e1, r1) := send_data tx maxop e pfx in
     match r1 with
     | DOk => let '(e2, r2) := send_block fixed tx e1 idx in
              match r2 with DOk => (e2, DOk, []) | _ => (e2, r2, buf) end
     | _ => (e1, r1, buf)
     end)))).
Proof.
  intros e pfx idx buf.
  pose proof (send_data_ext maxop e pfx) as H1.
  destruct (send_data tx maxop e pfx) as [e1 r1]. cbn [fst] in H1.
  destruct r1; try exact H1.
  pose proof (send_block_ext e1 idx) as H2.
  destruct (send_block fixed tx e1 idx) as [e2 r2]. cbn [fst] in H2.
  destruct r2; cbn [fst]; eapply ext_trans; eassumption.
Qed.

Lemma react_ext : forall e buf w, ext (et e) (et (fst (fst (react H Deqb fixed tx s maxop e buf w)))).
Proof.
  intros e buf w. unfold react.
  destruct (find_match Deqb (full_hashes s) 0 w (H (skipn (length buf - sblk s) buf))).
  - apply data_block_ext.
  - destruct (length buf =? buf_cap s maxop); [|apply ext_refl].
    pose proof (send_data_ext maxop e (firstn (length buf - sblk s) buf)) as H1.
    destruct (send_data tx maxop e _) as [e1 r1]. cbn [fst] in H1. destruct r1; exact H1.
Qed.

Lemma main_loop_ext : forall fuel e buf r1 r2 rem,
  ext (et e) (et (fst (fst (main_loop H Deqb fixed tx s maxop fuel e buf r1 r2 rem)))).
Proof.
  induction fuel as [|f IH]; intros e buf r1 r2 rem; cbn [main_loop]; [apply ext_refl|].
  destruct (advance s maxop buf r1 r2 rem) as [buf'| |buf' w a c rem']; try apply ext_refl.
  pose proof (react_ext e buf' w) as H1.
  destruct (react H Deqb fixed tx s maxop e buf' w) as [[e' r] buf'']. cbn [fst] in H1.
  destruct r; try exact H1. eapply ext_trans; [exact H1|apply IH].
Qed.

Lemma tail_ext : forall e buf, ext (et e) (et (fst (tail_phase H Deqb fixed tx s maxop e buf))).
Proof.
  intros e buf. unfold tail_phase. cbv zeta.
  match goal with |- context [if ?c then _ else (e, DOk, buf)] => set (hit := c) end.
  set (X := if hit then _ else (e, DOk, buf)).
  assert (HX : ext (et e) (et (fst (fst X)))).
  { subst X. destruct hit; [apply data_block_ext|apply ext_refl]. }
  clearbody X. clear hit. destruct X as [[e1 r1] buf1]. cbn [fst] in HX.
  destruct r1; try exact HX.
  pose proof (send_data_ext maxop e1 buf1) as H2.
  destruct (send_data tx maxop e1 buf1) as [e2 r2]. cbn [fst] in H2.
  assert (H12 : ext (et e) (et e2)) by (eapply ext_trans; eassumption).
  destruct r2; try exact H12.
  destruct (0 <? ecc e2); [|exact H12].
  pose proof (ext_one (et e2) (block_op (ecs e2) (ecc e2))) as H3.
  destruct (transmit tx (et e2) _) as [t' ok]. cbn [fst et] in *.
  eapply ext_trans; eassumption.
Qed.

End LogFaithful.

Theorem log_faithful : forall (D : Type) (H : list byte -> D) Deqb fixed tx target s maxop0 i b,
  nth_error (map snd (snd (deltify_tx H Deqb fixed tx target s maxop0))) i = Some b -> b = tx i.
Proof.
  intros D H Deqb fixed tx target s maxop0.
  assert (Hext : ext tx [] (snd (deltify_tx H Deqb fixed tx target s maxop0))).
  { unfold deltify_tx. destruct (shashes s).
    - pose proof (chunk_all_ext tx (S (length target)) (eff_max maxop0) [] target) as H1.
      destruct (chunk_all tx _ _ [] target) as [t r]. exact H1.
    - pose proof (main_loop_ext D H Deqb fixed tx s (eff_max maxop0) (S (length target)) (mkes [] 0 0) [] 0%Z 0%Z target) as H1.
      destruct (main_loop H Deqb fixed tx s _ _ _ [] 0%Z 0%Z target) as [[e r] buf]. cbn [fst et] in H1.
      destruct r; try exact H1.
      pose proof (tail_ext D H Deqb fixed tx s (eff_max maxop0) e buf) as H2.
      destruct (tail_phase H Deqb fixed tx s _ e buf) as [e' r']. cbn [fst snd] in *.
      eapply ext_trans; eassumption. }
  apply (log_ok_ext tx _ _ Hext). intros i b Hn. destruct i; discriminate.
Qed.

(* no failed entry in the log  <->  every call that was made succeeded *)
Lemma any_failed_false_iff : forall t, any_failed t = false <-> forall i b, nth_error (map snd t) i = Some b -> b = true.
Proof.
  induction t as [|[o ok] t IH]; split.
  - intros _ i b Hn. destruct i; discriminate.
  - reflexivity.
  - intros Hf i b Hn. cbn [any_failed existsb snd] in Hf. apply orb_false_iff in Hf. destruct Hf as [Hok Hf].
    apply negb_false_iff in Hok. destruct i; cbn in Hn; [congruence|]. eapply (proj1 IH); eauto.
  - intros Hall. cbn [any_failed existsb snd]. apply orb_false_iff. split.
    + apply negb_false_iff. apply (Hall 0). reflexivity.
    + apply IH. intros i b Hn. apply (Hall (S i)). exact Hn.
Qed.

Theorem no_silent_loss_calls : forall (D : Type) (H : list byte -> D) Deqb tx target s maxop0 t,
  deltify_tx H Deqb true tx target s maxop0 = (DOk, t) ->
  (forall i, i < length t -> tx i = true) /\
  deltify_tx H Deqb true all_ok target s maxop0 = (DOk, t).
Proof.
  intros D H Deqb tx target s maxop0 t E.
  destruct (no_silent_loss D H Deqb tx target s maxop0 t E) as [Hn Eok]. split; [|exact Eok].
  intros i Hi.
  destruct (nth_error (map snd t) i) as [b|] eqn:En.
  - pose proof (log_faithful D H Deqb true tx target s maxop0 i b) as Hf. rewrite E in Hf. cbn [snd] in Hf.
    rewrite <- (Hf En). eapply (proj1 (any_failed_false_iff t)); eauto.
  - apply nth_error_None in En. rewrite map_length in En. lia.
Qed.

(* ---------- the checker check_C20 ---------- *)
Theorem check_C20_sound : forall (D : Type) (H : list byte -> D) base target blk err t,
  check_C20 H base target blk err t = true ->
  err = true \/
  (any_failed t = false /\ exists s, signature H base blk = Some s /\ patch base s (sent_of t) = Some target).
Proof.
  intros D H base target blk err t E. unfold check_C20 in E.
  destruct err; [left; reflexivity|right].
  apply andb_true_iff in E. destruct E as [Hn Hp]. apply negb_true_iff in Hn. split; [exact Hn|].
  destruct (signature H base blk) as [s|]; [|discriminate].
  exists s. split; [reflexivity|]. now apply olist_eqb_eq.
Qed.

(* the repaired model passes the checker under every oracle *)
Theorem fixed_model_passes_check_C20 : forall (D : Type) (H : list byte -> D) Deqb tx base target blk maxop0 s r t,
  (forall a b, Deqb a b = true <-> a = b) ->
  0 < blk -> signature H base blk = Some s -> collision_free H base blk target ->
  deltify_tx H Deqb true tx target s maxop0 = (r, t) ->
  check_C20 H base target blk (negb (dres_eqb r DOk)) t = true.
Proof.
  intros D H Deqb tx base target blk maxop0 s r t Hd Hb Hs Hcf E.
  destruct (either_error_or_target D H Deqb Hd tx base target blk maxop0 s r t Hb Hs Hcf E) as [Hr|[Hn Hp]].
  - unfold check_C20. destruct r; try reflexivity. congruence.
  - unfold check_C20. destruct (negb (dres_eqb r DOk)); [reflexivity|].
    rewrite Hn, Hs. cbn [negb andb]. now apply olist_eqb_eq.
Qed.

(* ---------- the unrepaired sendBlock is refuted by computation ---------- *)
Definition Hident (x : list byte) : list byte := x.
Definition wit_tx : nat -> bool := fun k => negb (k =? 0).
Definition wit_sig : sig (list byte) :=
  Eval vm_compute in match signature Hident [x61] 1 with Some s => s | None => mksig 0 0 [] end.
Definition wit_log : tlog :=
  Eval vm_compute in snd (deltify_tx Hident list_eqb false wit_tx [x61; x61] wit_sig 1).

Theorem unfixed_refuted :
  exists (tx : nat -> bool) (base target : list byte) (blk maxop : nat) (s : sig (list byte)) (t : tlog),
    signature Hident base blk = Some s /\
    deltify_tx Hident list_eqb false tx target s maxop = (DOk, t) /\
    any_failed t = true /\
    patch base s (sent_of t) <> Some target /\
    check_C20 Hident base target blk false t = false.
Proof.
  exists wit_tx, [x61], [x61; x61], 1, 1, wit_sig, wit_log.
  split; [vm_compute; reflexivity|]. split; [vm_compute; reflexivity|].
  split; [vm_compute; reflexivity|]. split; [vm_compute; discriminate|vm_compute; reflexivity].
Qed.

(* the same inputs under the repaired variant report the error *)
Theorem fixed_reports_witness :
  fst (deltify_tx Hident list_eqb true wit_tx [x61; x61] wit_sig 1) = DErr.
Proof. vm_compute. reflexivity. Qed.

(* ---------- rsync.Transmit ---------- *)
Lemma msgs_any_failed : forall t sz, existsb (fun x : tmsg * bool => negb (snd x)) (msgs_of sz t) = any_failed t.
Proof.
  induction t as [|[o ok] t IH]; intro sz; [reflexivity|].
  cbn [msgs_of existsb any_failed snd]. unfold any_failed in IH. now rewrite IH.
Qed.

Lemma msgs_delivered : forall t sz, any_failed t = false ->
  map fst (filter snd (msgs_of sz t)) = map fst (msgs_of sz t).
Proof.
  induction t as [|[o ok] t IH]; intros sz Hn; [reflexivity|].
  cbn [any_failed existsb snd] in Hn. apply orb_false_iff in Hn. destruct Hn as [Hok Hn].
  apply negb_false_iff in Hok. subst ok. cbn [msgs_of filter snd map fst]. f_equal. now apply IH.
Qed.

Lemma nofail_sent : forall t, any_failed t = false -> sent_of t = map fst t.
Proof.
  induction t as [|[o ok] t IH]; intro Hn; [reflexivity|].
  cbn [any_failed existsb snd] in Hn. apply orb_false_iff in Hn. destruct Hn as [Hok Hn].
  apply negb_false_iff in Hok. subst ok. unfold sent_of in *. cbn [filter snd map fst]. f_equal. now apply IH.
Qed.

Lemma split_files_file : forall t sz e rest cur,
  split_files (map fst (msgs_of sz t) ++ TDone e :: rest) cur = (cur ++ map fst t, e) :: split_files rest [].
Proof.
  induction t as [|[o ok] t IH]; intros sz e rest cur.
  - cbn. now rewrite app_nil_r.
  - cbn [msgs_of map fst app split_files]. rewrite IH. now rewrite <- app_assoc.
Qed.

Section TransmitProofs.
Variable D : Type.
Variable H : list byte -> D.
Variable Deqb : D -> D -> bool.
Variable rx : nat -> bool.

Definition rnofail (r : list (tmsg * bool)) : Prop := rx_any_failed r = false.

Lemma transmit_file_ok : forall r f r',
  transmit_file H Deqb true rx r f = (r', None) -> rnofail r ->
  rnofail r' /\ delivered r' = delivered r ++ expected_file H Deqb true f.
Proof.
  intros r f r' E Hn. unfold transmit_file in E. unfold expected_file.
  destruct (fst f) as [target|] eqn:Ef.
  - destruct (deltify_tx H Deqb true (fun k => rx (length r + k)) target (snd f) 0) as [res t] eqn:Ed.
    destruct (last_ok t) eqn:El; cbn [negb] in E; [|discriminate].
    destruct (last_call_tells D H Deqb _ _ _ _ _ _ Ed El) as [Hnt Eok]. rewrite Eok.
    unfold receive in E.
    destruct (rx (length (r ++ msgs_of (length target) t))); [|discriminate].
    inversion E; subst r'. clear E. split.
    + unfold rnofail, rx_any_failed in *. rewrite !existsb_app, Hn, msgs_any_failed, Hnt. reflexivity.
    + unfold delivered. rewrite !filter_app, !map_app. cbn [filter snd map fst].
      rewrite msgs_delivered by exact Hnt. now rewrite <- app_assoc.
  - unfold receive in E. destruct (rx (length r)); [|discriminate].
    inversion E; subst r'. clear E. split.
    + unfold rnofail, rx_any_failed in *. rewrite existsb_app, Hn. reflexivity.
    + unfold delivered. rewrite filter_app, map_app. reflexivity.
Qed.

Lemma transmit_file_never_ok : forall r f r', transmit_file H Deqb true rx r f <> (r', Some TOk).
Proof.
  intros r f r' E. unfold transmit_file in E.
  destruct (fst f).
  - destruct (deltify_tx H Deqb true _ l (snd f) 0) as [res t].
    destruct (negb (last_ok t)); [discriminate|].
    unfold receive in E. destruct (rx _); discriminate.
  - unfold receive in E. destruct (rx _); discriminate.
Qed.

Lemma transmit_loop_ok : forall fs r r',
  transmit_loop H Deqb true rx r fs = (r', TOk) -> rnofail r ->
  rnofail r' /\ delivered r' = delivered r ++ concat (map (expected_file H Deqb true) fs).
Proof.
  induction fs as [|f fs IH]; intros r r' E Hn; cbn [transmit_loop] in E.
  - inversion E; subst. split; [exact Hn|]. cbn. now rewrite app_nil_r.
  - destruct (transmit_file H Deqb true rx r f) as [r1 [e|]] eqn:Ef.
    + inversion E; subst. exfalso. eapply transmit_file_never_ok; eauto.
    + destruct (transmit_file_ok _ _ _ Ef Hn) as [Hn1 Hd1].
      destruct (IH _ _ E Hn1) as [Hn2 Hd2]. split; [exact Hn2|].
      rewrite Hd2, Hd1. cbn [map concat]. now rewrite <- app_assoc.
Qed.

(* Transmit reports success only if no Receive failed and the receiver was
   handed, file by file, exactly the failure-free delta or an explicit error *)
Theorem transmit_exact : forall fs r,
  transmit_files H Deqb true rx fs = (r, TOk) ->
  rx_any_failed r = false /\ delivered r = concat (map (expected_file H Deqb true) fs).
Proof.
  intros fs r E. unfold transmit_files in E.
  destruct (transmit_loop_ok fs [] r E eq_refl) as [Hn Hd]. split; [exact Hn|exact Hd].
Qed.

Hypothesis Deqb_spec : forall a b, Deqb a b = true <-> a = b.

(* files as the harness describes them (base, target or unreadable, block size)
   and the model's view of them (target, signature) *)
Definition file_rel (fl : list byte * option (list byte) * nat) (tf : tfile D) : Prop :=
  0 < snd fl /\ fst tf = snd (fst fl) /\ signature H (fst (fst fl)) (snd fl) = Some (snd tf) /\
  (forall target, snd (fst fl) = Some target -> collision_free H (fst (fst fl)) (snd fl) target).

Lemma files_ok_expected : forall files tfs, Forall2 file_rel files tfs ->
  files_ok H files (split_files (concat (map (expected_file H Deqb true) tfs)) []) = true.
Proof.
  induction 1 as [|fl tf files tfs Hrel _ IH]; [reflexivity|].
  destruct fl as [[base tgt] blk]. destruct tf as [tgt' s].
  destruct Hrel as [Hb [Et [Hs Hcf]]]. cbn [fst snd] in *. subst tgt'.
  cbn [map concat]. unfold expected_file at 1. cbn [fst snd].
  destruct tgt as [target|].
  - destruct (deltify_all_ok D H Deqb true base target blk 0 s (fun a b => proj1 (Deqb_spec a b)) Hb Hs)
      as [t [E [_ Hp]]].
    rewrite E. cbn [dres_eqb negb]. rewrite <- app_assoc. cbn [app].
    rewrite split_files_file. cbn [app files_ok].
    destruct (no_silent_loss D H Deqb all_ok target s 0 t E) as [Hn _].
    rewrite Hs. rewrite <- (nofail_sent t Hn). rewrite (Hp (Hcf target eq_refl)).
    replace (olist_eqb (Some target) (Some target)) with true by (symmetry; now apply olist_eqb_eq).
    exact IH.
  - cbn [app split_files files_ok]. exact IH.
Qed.

Definition is_terr (r : tres) : bool := match r with TOk => false | _ => true end.

(* with C19: whatever Receive calls fail, Transmit reports an error or every
   file's delivered operations rebuild its target (or carry the explicit
   per-file error): the repaired model passes check_C20_transmit *)
Theorem transmit_either : forall files tfs r res, Forall2 file_rel files tfs ->
  transmit_files H Deqb true rx tfs = (r, res) ->
  check_C20_transmit H files (is_terr res) r = true.
Proof.
  intros files tfs r res Hrel E. unfold check_C20_transmit.
  destruct res; try reflexivity. cbn [is_terr].
  destruct (transmit_exact tfs r E) as [Hn Hd]. rewrite Hn, Hd. cbn [negb andb].
  now apply files_ok_expected.
Qed.

End TransmitProofs.

(* ---------- under any oracle, Deltify returns nil or an error: it neither
   panics nor runs out of fuel ---------- *)
Definition okerr (r : dres) : Prop := r = DOk \/ r = DErr.

Section Results.
Variable D : Type.
Variable H : list byte -> D.
Variable Deqb : D -> D -> bool.
Variable fixed : bool.
Variable tx : nat -> bool.

Lemma send_chunks_res : forall fuel maxop t data, 0 < maxop -> length data <= fuel ->
  okerr (snd (send_chunks tx fuel maxop t data)).
Proof.
  induction fuel as [|f IH]; intros maxop t data Hm Hf.
  - destruct data; [left; reflexivity|cbn in Hf; lia].
  - destruct data as [|x r]; [left; reflexivity|]. cbn [send_chunks]. unfold transmit.
    destruct (tx (length t)); [|right; reflexivity].
    apply IH; [exact Hm|]. rewrite skipn_length. cbn [length] in *. lia.
Qed.

Lemma chunk_all_res : forall fuel maxop t tg, 0 < maxop -> length tg < fuel ->
  okerr (snd (chunk_all tx fuel maxop t tg)).
Proof.
  induction fuel as [|f IH]; intros maxop t tg Hm Hf; [lia|]. cbn [chunk_all].
  destruct tg as [|x r]; [left; reflexivity|].
  destruct (length (x :: r) <? maxop); unfold transmit; destruct (tx (length t));
    try (right; reflexivity); try (left; reflexivity).
  apply IH; [exact Hm|]. rewrite skipn_length. cbn [length] in *. lia.
Qed.

Lemma send_data_res : forall maxop e data, 0 < maxop -> okerr (snd (send_data tx maxop e data)).
Proof.
  intros maxop e data Hm. unfold send_data.
  destruct ((0 <? length data) && (0 <? ecc e)).
  - unfold transmit. destruct (tx (length (et e))); [|right; reflexivity].
    pose proof (send_chunks_res (length data) maxop (et e ++ [(block_op (ecs e) (ecc e), true)]) data Hm (le_n _)) as Hr.
    destruct (send_chunks tx (length data) maxop _ data) as [t'' r]. exact Hr.
  - pose proof (send_chunks_res (length data) maxop (et e) data Hm (le_n _)) as Hr.
    destruct (send_chunks tx (length data) maxop (et e) data) as [t'' r]. exact Hr.
Qed.

Lemma send_block_res : forall e idx, okerr (snd (send_block fixed tx e idx)).
Proof.
  intros e idx. unfold send_block.
  destruct (0 <? ecc e); [|left; reflexivity].
  destruct (ecs e + ecc e =? idx); [left; reflexivity|].
  unfold transmit. destruct (tx (length (et e))); [left; reflexivity|].
  destruct fixed; [right|left]; reflexivity.
Qed.

Variable base : list byte.
Variable blk : nat.
Variable s : sig D.
Variable maxop : nat.
Hypothesis Hblk : 0 < blk.
Hypothesis Hmax : 0 < maxop.
Hypothesis F : sig_facts H base blk s.
Hypothesis Hne : base <> [].

Lemma react_res : forall e buf w, blk <= length buf <= blk + maxop ->
  okerr (snd (fst (react H Deqb fixed tx s maxop e buf w))) /\
  (snd (fst (react H Deqb fixed tx s maxop e buf w)) = DOk ->
   let buf' := snd (react H Deqb fixed tx s maxop e buf w) in
   buf' = [] \/ blk <= length buf' < blk + maxop).
Proof.
  intros e buf w Hlen. unfold react, buf_cap. rewrite (sf_blk F Hne).
  destruct (find_match Deqb (full_hashes s) 0 w (H (skipn (length buf - blk) buf))) as [idx|].
  - pose proof (send_data_res maxop e (firstn (length buf - blk) buf) Hmax) as Hr1.
    destruct (send_data tx maxop e (firstn (length buf - blk) buf)) as [e1 r1]. cbn [snd] in Hr1.
    destruct Hr1 as [-> | ->]; [|split; [right; reflexivity|discriminate]].
    pose proof (send_block_res e1 idx) as Hr2.
    destruct (send_block fixed tx e1 idx) as [e2 r2]. cbn [snd] in Hr2.
    destruct Hr2 as [-> | ->]; cbn [fst snd].
    + split; [left; reflexivity|]. intros _. left. reflexivity.
    + split; [right; reflexivity|discriminate].
  - destruct (length buf =? blk + maxop) eqn:Ec.
    + pose proof (send_data_res maxop e (firstn (length buf - blk) buf) Hmax) as Hr1.
      destruct (send_data tx maxop e (firstn (length buf - blk) buf)) as [e1 r1]. cbn [snd] in Hr1.
      destruct Hr1 as [-> | ->]; cbn [fst snd].
      * split; [left; reflexivity|]. intros _. right. rewrite skipn_length. lia.
      * split; [right; reflexivity|discriminate].
    + apply Nat.eqb_neq in Ec. cbn [fst snd]. split; [left; reflexivity|]. intros _. right. lia.
Qed.

Lemma main_loop_res : forall fuel e buf r1 r2 rem, length rem < fuel ->
  (buf = [] \/ blk <= length buf < blk + maxop) ->
  okerr (snd (fst (main_loop H Deqb fixed tx s maxop fuel e buf r1 r2 rem))).
Proof.
  induction fuel as [|f IH]; intros e buf r1 r2 rem Hf Hb; [lia|]. cbn [main_loop].
  pose proof (advance_ok D H base blk s maxop Hblk Hmax F Hne buf r1 r2 rem Hb) as Ha.
  destruct (advance s maxop buf r1 r2 rem) as [buf'| |buf' w a c rem'].
  - left. reflexivity.
  - contradiction.
  - destruct Ha as [_ [Hlen Hrem]].
    destruct (react_res e buf' w Hlen) as [Hr Hb'].
    destruct (react H Deqb fixed tx s maxop e buf' w) as [[e' r] buf'']. cbn [fst snd] in *.
    destruct Hr as [-> | ->]; [|right; reflexivity].
    apply IH; [lia|]. apply Hb'. reflexivity.
Qed.

Lemma tail_res : forall e buf, okerr (snd (tail_phase H Deqb fixed tx s maxop e buf)).
Proof.
  intros e buf. unfold tail_phase. cbv zeta.
  match goal with |- context [if ?c then _ else (e, DOk, buf)] => set (hit := c) end.
  set (X := if hit then _ else (e, DOk, buf)).
  assert (HX : okerr (snd (fst X))).
  { subst X. destruct hit; [|left; reflexivity].
    pose proof (send_data_res maxop e (firstn (length buf - slast s) buf) Hmax) as Hr1.
    destruct (send_data tx maxop e (firstn (length buf - slast s) buf)) as [e1 r1]. cbn [snd] in Hr1.
    destruct Hr1 as [-> | ->]; [|right; reflexivity].
    pose proof (send_block_res e1 (last_index s)) as Hr2.
    destruct (send_block fixed tx e1 (last_index s)) as [e2 r2]. cbn [snd] in Hr2.
    destruct Hr2 as [-> | ->]; [left|right]; reflexivity. }
  clearbody X. clear hit. destruct X as [[e1 r1] buf1]. cbn [fst snd] in HX.
  destruct HX as [-> | ->]; [|right; reflexivity].
  pose proof (send_data_res maxop e1 buf1 Hmax) as Hr2.
  destruct (send_data tx maxop e1 buf1) as [e2 r2]. cbn [snd] in Hr2.
  destruct Hr2 as [-> | ->]; [|right; reflexivity].
  destruct (0 <? ecc e2); [|left; reflexivity].
  unfold transmit. destruct (tx (length (et e2))); [left|right]; reflexivity.
Qed.

End Results.

Theorem deltify_tx_returns : forall (D : Type) (H : list byte -> D) Deqb fixed tx base target blk maxop0 s,
  0 < blk -> signature H base blk = Some s ->
  okerr (fst (deltify_tx H Deqb fixed tx target s maxop0)).
Proof.
  intros D H Deqb fixed tx base target blk maxop0 s Hb Hs.
  pose proof (signature_facts H Hb Hs) as F. pose proof (eff_max_pos maxop0) as Hm.
  unfold deltify_tx. destruct base as [|x b].
  - pose proof (sf_empty F eq_refl) as Es. subst s. cbn [shashes].
    pose proof (chunk_all_res tx (S (length target)) (eff_max maxop0) [] target Hm (Nat.lt_succ_diag_r _)) as Hr.
    destruct (chunk_all tx _ _ [] target) as [t r]. exact Hr.
  - assert (Hne : x :: b <> []) by discriminate.
    pose proof (sf_nonempty F Hne) as Hnn.
    destruct (shashes s) as [|h0 hs] eqn:Eh; [congruence|]. rewrite <- Eh in *. clear Eh h0 hs Hnn.
    pose proof (main_loop_res D H Deqb fixed tx (x :: b) blk s (eff_max maxop0) Hb Hm F Hne
                  (S (length target)) (mkes [] 0 0) [] 0%Z 0%Z target (Nat.lt_succ_diag_r _) (or_introl eq_refl)) as Hr.
    destruct (main_loop H Deqb fixed tx s _ _ _ [] 0%Z 0%Z target) as [[e r] buf]. cbn [fst snd] in Hr.
    destruct Hr as [-> | ->]; [|right; reflexivity].
    pose proof (tail_res D H Deqb fixed tx s (eff_max maxop0) Hm e buf) as Hr2.
    destruct (tail_phase H Deqb fixed tx s _ e buf) as [e' r']. exact Hr2.
Qed.
