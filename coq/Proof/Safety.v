(* Lemmas about Model/Safety.v: the three safety predicates are exactly their
   specifications, the subset helper decides order-preserving sub-lists, and
   (with Model/Reconcile.v) a one-sided root deletion / root type change /
   emptying always produces a plan on which one of the checks fires. *)
From Coq Require Import List Bool Arith String Lia.
Import ListNotations.
From Mv Require Import Model.Entry Model.Reconcile Model.Safety.
Local Open Scope list_scope.

(* ------------------------------------------------------------------ *)
(* oneEndpointEmptiedRoot *)

Lemma length_zero_nil : forall (A : Type) (l : list A), Nat.eqb (List.length l) 0 = true <-> l = [].
Proof. intros A [|x l]; cbn; split; intro H; try reflexivity; discriminate. Qed.

Lemma emptied_iff : forall anc a b,
  one_endpoint_emptied_root anc a b = true <-> emptied_spec anc a b.
Proof.
  intros anc a b. unfold one_endpoint_emptied_root, emptied_spec. split.
  - destruct anc as [[ac| | | | |]|]; try discriminate.
    destruct a as [[lc| | | | |]|]; try discriminate.
    destruct b as [[bc| | | | |]|]; try discriminate.
    destruct (Nat.ltb (List.length ac) 2) eqn:Hlt; try discriminate.
    apply Nat.ltb_ge in Hlt. intro H.
    exists ac, lc, bc. repeat split; auto.
    destruct lc as [|x lc], bc as [|y bc]; cbn in H; try discriminate.
    + left. split; [reflexivity|discriminate].
    + right. split; [discriminate|reflexivity].
  - intros (ac & lc & bc & -> & -> & -> & Hlen & Hone).
    assert (Nat.ltb (List.length ac) 2 = false) as -> by (apply Nat.ltb_ge; exact Hlen).
    destruct Hone as [[-> Hb]|[Ha ->]].
    + destruct bc; [contradiction|reflexivity].
    + destruct lc; [contradiction|reflexivity].
Qed.

Lemma emptied_specb_iff : forall anc a b,
  emptied_specb anc a b = true <-> emptied_spec anc a b.
Proof.
  intros anc a b. unfold emptied_specb, emptied_spec, is_dir_with. split.
  - destruct anc as [[ac| | | | |]|]; try discriminate.
    destruct a as [[lc| | | | |]|]; try (rewrite andb_false_r; discriminate).
    destruct b as [[bc| | | | |]|]; try (rewrite andb_false_r; discriminate).
    rewrite !andb_true_r. intro H. apply andb_prop in H. destruct H as [Hlen Hx].
    apply Nat.leb_le in Hlen.
    exists ac, lc, bc. repeat split; auto.
    destruct lc as [|x lc], bc as [|y bc]; cbn in Hx; try discriminate.
    + left. split; [reflexivity|discriminate].
    + right. split; [discriminate|reflexivity].
  - intros (ac & lc & bc & -> & -> & -> & Hlen & Hone).
    apply Nat.leb_le in Hlen. rewrite Hlen. rewrite !andb_true_l.
    destruct Hone as [[-> Hb]|[Ha ->]].
    + destruct bc; [contradiction|reflexivity].
    + destruct lc; [contradiction|reflexivity].
Qed.

Lemma emptied_specb_eq : forall anc a b,
  emptied_specb anc a b = one_endpoint_emptied_root anc a b.
Proof.
  intros. apply eq_true_iff_eq. rewrite emptied_specb_iff, emptied_iff. reflexivity.
Qed.

(* ------------------------------------------------------------------ *)
(* containsRootDeletion / containsRootTypeChange *)

Lemma is_root_deletion_iff : forall c,
  is_root_deletion c = true <-> exists o, cpath c = [] /\ cold c = Some o /\ cnew c = None.
Proof.
  intros [p o n]. unfold is_root_deletion. cbn. split.
  - destruct p; try discriminate. destruct o as [o|]; try discriminate.
    destruct n; try discriminate. intros _. exists o. auto.
  - intros (o' & -> & -> & ->). reflexivity.
Qed.

Lemma kind_eqb_eq : forall a b, kind_eqb a b = true <-> a = b.
Proof. intros [] []; cbn; split; intro H; try reflexivity; discriminate. Qed.

Lemma is_root_type_change_iff : forall c,
  is_root_type_change c = true <->
  exists o n, cpath c = [] /\ cold c = Some o /\ cnew c = Some n /\ kind_of o <> kind_of n.
Proof.
  intros [p o n]. unfold is_root_type_change. cbn. split.
  - destruct p; try discriminate. destruct o as [o|]; try discriminate.
    destruct n as [n|]; try discriminate. intro H. exists o, n. repeat split; auto.
    intro E. apply kind_eqb_eq in E. rewrite E in H. discriminate.
  - intros (o' & n' & -> & -> & -> & Hk).
    destruct (kind_eqb (kind_of o') (kind_of n')) eqn:E; [|reflexivity].
    apply kind_eqb_eq in E. contradiction.
Qed.

Lemma root_del_iff : forall cs,
  contains_root_deletion cs = true <-> root_deletion_spec cs.
Proof.
  intro cs. unfold contains_root_deletion, root_deletion_spec. rewrite existsb_exists. split.
  - intros (c & Hin & H). apply is_root_deletion_iff in H. destruct H as (o & H1 & H2 & H3).
    exists c, o. auto.
  - intros (c & o & Hin & H1 & H2 & H3). exists c. split; [exact Hin|].
    apply is_root_deletion_iff. exists o. auto.
Qed.

Lemma root_type_iff : forall cs,
  contains_root_type_change cs = true <-> root_type_change_spec cs.
Proof.
  intro cs. unfold contains_root_type_change, root_type_change_spec. rewrite existsb_exists. split.
  - intros (c & Hin & H). apply is_root_type_change_iff in H.
    destruct H as (o & n & H1 & H2 & H3 & H4). exists c, o, n. auto.
  - intros (c & o & n & Hin & H1 & H2 & H3 & H4). exists c. split; [exact Hin|].
    apply is_root_type_change_iff. exists o, n. auto.
Qed.

Lemma root_del_specb_eq : forall c, root_del_specb c = is_root_deletion c.
Proof. intros [[|x p] [o|] [n|]]; reflexivity. Qed.

Lemma root_type_specb_eq : forall c, root_type_specb c = is_root_type_change c.
Proof. intros [[|x p] [o|] [n|]]; reflexivity. Qed.

Lemma existsb_ext_eq : forall (A : Type) (f g : A -> bool) l,
  (forall x, f x = g x) -> existsb f l = existsb g l.
Proof. intros A f g l H. induction l as [|x l IH]; cbn; [reflexivity|]. rewrite H, IH. reflexivity. Qed.

(* ------------------------------------------------------------------ *)
(* filteredPathsAreSubset *)

Lemma drop_through_some : forall x l r,
  drop_through x l = Some r -> exists pre, l = pre ++ x :: r /\ ~ In x pre.
Proof.
  intros x l. induction l as [|y t IH]; intros r H; cbn in H; [discriminate|].
  destruct (String.eqb y x) eqn:E.
  - apply String.eqb_eq in E. subst y. inversion H; subst. exists []. split; [reflexivity|intros []].
  - apply IH in H. destruct H as (pre & -> & Hn). exists (y :: pre). split; [reflexivity|].
    intros [Hy|Hin]; [|contradiction]. subst y. rewrite String.eqb_refl in E. discriminate.
Qed.

Lemma drop_through_none : forall x l, drop_through x l = None -> ~ In x l.
Proof.
  intros x l. induction l as [|y t IH]; intros H; cbn in H; [intros []|].
  destruct (String.eqb y x) eqn:E; [discriminate|].
  intros [Hy|Hin]; [|exact (IH H Hin)]. subst y. rewrite String.eqb_refl in E. discriminate.
Qed.

Lemma subseq_app_skip : forall pre f o, subseq f o -> subseq f (pre ++ o).
Proof. induction pre as [|y pre IH]; intros f o H; cbn; [exact H|]. apply subseq_skip, IH, H. Qed.

Lemma subseq_in : forall f o x, subseq (x :: f) o -> In x o.
Proof.
  intros f o x H. remember (x :: f) as l eqn:El. revert x f El.
  induction H as [l|y f' o' H IH|y f' o' H IH]; intros x f El.
  - discriminate.
  - inversion El; subst. left. reflexivity.
  - right. eapply IH. exact El.
Qed.

(* after the first occurrence of x: a sub-list that starts with x still fits *)
Lemma subseq_after_first : forall pre x f r,
  ~ In x pre -> subseq (x :: f) (pre ++ x :: r) -> subseq f r.
Proof.
  induction pre as [|y pre IH]; intros x f r Hn H; cbn in H.
  - inversion H; subst.
    + assumption.
    + (* skipped this x: x :: f fits in r, hence f fits in r *)
      clear - H2. remember (x :: f) as l eqn:El. revert x f El.
      induction H2 as [l|z f' o' H IH|z f' o' H IH]; intros x f El.
      * discriminate.
      * inversion El; subst. apply subseq_skip. exact H.
      * apply subseq_skip. eapply IH. exact El.
  - inversion H; subst.
    + exfalso. apply Hn. left. reflexivity.
    + eapply IH; [|exact H2]. intro Hin. apply Hn. right. exact Hin.
Qed.

Lemma subset_iff : forall f o,
  filtered_paths_are_subset f o = true <-> subseq f o.
Proof.
  induction f as [|x f IH]; intro o; cbn.
  - split; intro; [apply subseq_nil|reflexivity].
  - destruct (drop_through x o) as [r|] eqn:E.
    + apply drop_through_some in E. destruct E as (pre & -> & Hn). rewrite IH. split.
      * intro H. apply subseq_app_skip. apply subseq_take. exact H.
      * intro H. eapply subseq_after_first; eassumption.
    + apply drop_through_none in E. split; [discriminate|].
      intro H. exfalso. apply E. eapply subseq_in. exact H.
Qed.

Lemma subseqb_iff : forall o f, subseqb f o = true <-> subseq f o.
Proof.
  induction o as [|y o IH]; intro f; cbn.
  - destruct f; split; intro H; try reflexivity; try discriminate.
    + apply subseq_nil.
    + inversion H.
  - destruct f as [|x f].
    + split; intro; [apply subseq_nil|reflexivity].
    + rewrite orb_true_iff, andb_true_iff, !IH, String.eqb_eq. split.
      * intros [[-> H]|H]; [apply subseq_take|apply subseq_skip]; exact H.
      * intro H. inversion H; subst; [left|right]; auto.
Qed.

Lemma subseqb_eq : forall f o, subseqb f o = filtered_paths_are_subset f o.
Proof. intros. apply eq_true_iff_eq. rewrite subseqb_iff, subset_iff. reflexivity. Qed.

(* ------------------------------------------------------------------ *)
(* the checker applied to the implementation's results *)

Definition pred_result_ok (c : pred_case) : Prop :=
  match c with
  | PEmptied anc a b r => r = true <-> emptied_spec anc a b
  | PChanges cs d t => (d = true <-> root_deletion_spec cs) /\ (t = true <-> root_type_change_spec cs)
  | PSubset f o r => r = true <-> subseq f o
  end.

Lemma eqb_true_l : forall x r, Bool.eqb x r = true -> (r = true <-> x = true).
Proof. intros [] []; cbn; intro H; try discriminate; split; auto. Qed.

Lemma check_pred_sound : forall c, check_pred c = true -> pred_result_ok c.
Proof.
  intros [anc a b r|cs d t|f o r]; cbn; intro H.
  - apply eqb_true_l in H. rewrite H. apply emptied_specb_iff.
  - apply andb_prop in H. destruct H as [H1 H2]. apply eqb_true_l in H1, H2. split.
    + rewrite H1. rewrite (existsb_ext_eq _ root_del_specb is_root_deletion) by apply root_del_specb_eq.
      apply root_del_iff.
    + rewrite H2. rewrite (existsb_ext_eq _ root_type_specb is_root_type_change) by apply root_type_specb_eq.
      apply root_type_iff.
  - apply eqb_true_l in H. rewrite H. apply subseqb_iff.
Qed.

(* the model's own results pass the checker *)
Lemma check_pred_model :
  (forall anc a b, check_pred (PEmptied anc a b (one_endpoint_emptied_root anc a b)) = true) /\
  (forall cs, check_pred (PChanges cs (contains_root_deletion cs) (contains_root_type_change cs)) = true) /\
  (forall f o, check_pred (PSubset f o (filtered_paths_are_subset f o)) = true).
Proof.
  repeat split; intros; cbn.
  - rewrite emptied_specb_eq. apply Bool.eqb_reflx.
  - unfold contains_root_deletion, contains_root_type_change.
    rewrite (existsb_ext_eq _ root_del_specb is_root_deletion) by apply root_del_specb_eq.
    rewrite (existsb_ext_eq _ root_type_specb is_root_type_change) by apply root_type_specb_eq.
    rewrite !Bool.eqb_reflx. reflexivity.
  - rewrite subseqb_eq. apply Bool.eqb_reflx.
Qed.

(* ------------------------------------------------------------------ *)
(* the halt cannot be dodged: facts about reconcile at the root *)

Lemma shallow_eqb_refl : forall e, shallow_eqb e e = true.
Proof.
  intros [c|x d|t| |m|c]; cbn; try reflexivity.
  - rewrite Bool.eqb_reflx, String.eqb_refl. reflexivity.
  - apply String.eqb_refl.
  - apply String.eqb_refl.
Qed.

Lemma oshallow_eqb_refl : forall e, oshallow_eqb e e = true.
Proof. intros [e|]; cbn; [apply shallow_eqb_refl|reflexivity]. Qed.

Lemma flat_map_nil : forall (A B : Type) (f : A -> list B) l,
  (forall x, In x l -> f x = []) -> flat_map f l = [].
Proof.
  intros A B f l H. induction l as [|x l IH]; cbn; [reflexivity|].
  rewrite H by (left; reflexivity). rewrite IH; [reflexivity|].
  intros y Hy. apply H. right. exact Hy.
Qed.

Lemma diff_f_same : forall fuel p e, diff_f fuel p e e = [].
Proof.
  induction fuel as [|fuel IH]; intros p e; cbn [diff_f]; rewrite oshallow_eqb_refl; cbn [negb].
  - reflexivity.
  - apply flat_map_nil. intros n _. apply IH.
Qed.

Lemma diff_same : forall p e, diff p e e = [].
Proof. intros. unfold diff. apply diff_f_same. Qed.

Lemma diff_f_shallow_neq : forall fuel p b t,
  oshallow_eqb t b = false -> diff_f fuel p b t = [mk p b t].
Proof. intros [|fuel] p b t H; cbn [diff_f]; rewrite H; reflexivity. Qed.

Lemma diff_shallow_neq : forall p b t,
  oshallow_eqb t b = false -> diff p b t = [mk p b t].
Proof. intros. unfold diff. apply diff_f_shallow_neq. assumption. Qed.

(* a synchronizable (EnsureValid(true)) tree is its own synchronizable part *)
Section EntryInd.
  Variable P : entry -> Prop.
  Hypothesis Hdir : forall c, Forall (fun ne => P (snd ne)) c -> P (EDir c).
  Hypothesis Hfile : forall x d, P (EFile x d).
  Hypothesis Hlink : forall t, P (ELink t).
  Hypothesis Hun : P EUntracked.
  Hypothesis Hprob : forall m, P (EProblem m).
  Hypothesis Hph : forall c, Forall (fun ne => P (snd ne)) c -> P (EPhantom c).

  Fixpoint entry_nested_ind (e : entry) : P e :=
    let fix go (l : list (name * entry)) : Forall (fun ne => P (snd ne)) l :=
      match l with
      | [] => Forall_nil _
      | (n, x) :: t => Forall_cons (n, x) (entry_nested_ind x) (go t)
      end in
    match e with
    | EDir c => Hdir c (go c)
    | EFile x d => Hfile x d
    | ELink t => Hlink t
    | EUntracked => Hun
    | EProblem m => Hprob m
    | EPhantom c => Hph c (go c)
    end.
End EntryInd.

Lemma wf_sync_entry : forall e, wf_entry true e = true -> sync_entry e = Some e.
Proof.
  induction e as [c IH|x d|t| |m|c IH] using entry_nested_ind; intro H; try reflexivity;
    try (cbn in H; discriminate).
  cbn [wf_entry] in H. apply andb_prop in H. destruct H as [Hl _].
  cbn [sync_entry]. f_equal. f_equal.
  induction c as [|[n x] c IHc]; [reflexivity|].
  inversion IH as [|? ? Hx Hc]; subst.
  apply andb_prop in Hl. destruct Hl as [Hl Hrest]. apply andb_prop in Hl. destruct Hl as [_ Hwx].
  cbn in Hx. rewrite (Hx Hwx). f_equal. apply IHc; assumption.
Qed.

Lemma wf_synchronizable : forall e, wf true e = true -> synchronizable e = e.
Proof. intros [e|] H; [apply wf_sync_entry; exact H|reflexivity]. Qed.

Lemma wf_true_kind : forall e, wf_entry true e = true -> kind_sync (kind_of e) = true.
Proof. intros [c|x d|t| |m|c] H; cbn in *; try reflexivity; discriminate. Qed.

Lemma wf_true_not_problem : forall e, wf_entry true e = true -> is_problem (Some e) = false.
Proof. intros [c|x d|t| |m|c] H; cbn in *; try reflexivity; discriminate. Qed.

Lemma wf_true_not_untracked : forall e, wf_entry true e = true -> is_untracked (Some e) = false.
Proof. intros [c|x d|t| |m|c] H; cbn in *; try reflexivity; discriminate. Qed.

Lemma shallow_eqb_kind : forall a b, shallow_eqb a b = true -> kind_of a = kind_of b.
Proof. intros [] [] H; cbn in *; try reflexivity; discriminate. Qed.

(* one unfolding of reconcile at the root when the two sides disagree
   shallowly and neither is problematic *)
Lemma reconcile_root_disagree : forall m anc a b,
  is_problem a = false -> is_problem b = false ->
  ((is_none a || is_untracked a) && (is_none b || is_untracked b)) = false ->
  oshallow_eqb a b = false ->
  reconcile m anc a b =
  match m with
  | TwoWaySafe | TwoWayResolved => handle_bidirectional m [] anc a b
  | OneWaySafe => handle_one_way_safe [] anc a b
  | OneWayReplica => handle_one_way_replica [] anc a b
  end.
Proof.
  intros m anc a b Ha Hb Hn Hs. unfold reconcile. cbn [reconcile_f].
  rewrite Ha, Hb, Hn, Hs. reflexivity.
Qed.

(* alpha's root deleted, beta unchanged: every mode plans the deletion of
   beta's root *)
Lemma covers_alpha_deleted : forall m e,
  wf_entry true e = true ->
  contains_root_deletion (beta_ch (reconcile m (Some e) None (Some e))) = true.
Proof.
  intros m e Hwf.
  rewrite reconcile_root_disagree; try reflexivity.
  2: apply wf_true_not_problem; exact Hwf.
  2: { rewrite (wf_true_not_untracked e Hwf). reflexivity. }
  destruct m.
  - unfold handle_bidirectional.
    rewrite (wf_synchronizable (Some e)) by exact Hwf. cbn [synchronizable].
    rewrite !diff_same. cbn [is_nil negb]. reflexivity.
  - unfold handle_bidirectional.
    rewrite (wf_synchronizable (Some e)) by exact Hwf. cbn [synchronizable].
    rewrite !diff_same. cbn [is_nil negb]. reflexivity.
  - unfold handle_one_way_safe.
    rewrite (wf_synchronizable (Some e)) by exact Hwf. cbn [synchronizable].
    rewrite !diff_same. cbn [non_deletion filter is_nil negb]. reflexivity.
  - unfold handle_one_way_replica.
    rewrite (wf_synchronizable (Some e)) by exact Hwf.
    rewrite !diff_same. cbn [is_nil negb]. reflexivity.
Qed.

(* beta's root deleted, alpha unchanged: the two-way modes plan the deletion
   of alpha's root; the one-way modes never change alpha *)
Lemma covers_beta_deleted_two_way : forall m e,
  wf_entry true e = true -> (m = TwoWaySafe \/ m = TwoWayResolved) ->
  contains_root_deletion (alpha_ch (reconcile m (Some e) (Some e) None)) = true.
Proof.
  intros m e Hwf Hm.
  rewrite reconcile_root_disagree; try reflexivity.
  2: apply wf_true_not_problem; exact Hwf.
  2: { rewrite (wf_true_not_untracked e Hwf). reflexivity. }
  assert (handle_bidirectional m [] (Some e) (Some e) None = p_alpha (mk [] (Some e) None)) as E.
  { unfold handle_bidirectional.
    rewrite (wf_synchronizable (Some e)) by exact Hwf. cbn [synchronizable].
    rewrite !diff_same.
    rewrite (diff_shallow_neq [] (Some e) None) by reflexivity.
    cbn [is_nil negb]. reflexivity. }
  destruct Hm; subst m; rewrite E; reflexivity.
Qed.

Lemma covers_beta_deleted_one_way : forall m e,
  wf_entry true e = true -> (m = OneWaySafe \/ m = OneWayReplica) ->
  alpha_ch (reconcile m (Some e) (Some e) None) = [].
Proof.
  intros m e Hwf Hm.
  rewrite reconcile_root_disagree; try reflexivity.
  2: apply wf_true_not_problem; exact Hwf.
  2: { rewrite (wf_true_not_untracked e Hwf). reflexivity. }
  destruct Hm; subst m.
  - unfold handle_one_way_safe. cbn [synchronizable].
    rewrite (diff_shallow_neq [] (Some e) None) by reflexivity.
    cbn [non_deletion filter mk cnew is_nil]. rewrite !diff_same. cbn [is_nil negb]. reflexivity.
  - unfold handle_one_way_replica. cbn [synchronizable]. rewrite !diff_same. reflexivity.
Qed.

(* alpha's root changed its kind (to synchronizable content), beta unchanged:
   every mode plans the type change on beta's root *)
Lemma covers_alpha_type_changed : forall m e a,
  wf_entry true e = true -> wf_entry true a = true -> kind_of a <> kind_of e ->
  contains_root_type_change (beta_ch (reconcile m (Some e) (Some a) (Some e))) = true.
Proof.
  intros m e a Hwf Hwa Hk.
  assert (oshallow_eqb (Some a) (Some e) = false) as Hs.
  { cbn. destruct (shallow_eqb a e) eqn:E; [|reflexivity].
    apply shallow_eqb_kind in E. contradiction. }
  assert (is_root_type_change (mk [] (Some e) (Some a)) = true) as Ht.
  { apply is_root_type_change_iff. exists e, a. repeat split; auto. }
  rewrite reconcile_root_disagree; try assumption.
  2: apply wf_true_not_problem; exact Hwa.
  2: apply wf_true_not_problem; exact Hwf.
  2: { rewrite (wf_true_not_untracked a Hwa). reflexivity. }
  destruct m.
  - unfold handle_bidirectional.
    rewrite (wf_synchronizable (Some e)) by exact Hwf.
    rewrite (wf_synchronizable (Some a)) by exact Hwa.
    rewrite !diff_same. cbn [is_nil negb].
    cbn [beta_ch p_beta contains_root_type_change existsb]. rewrite Ht. reflexivity.
  - unfold handle_bidirectional.
    rewrite (wf_synchronizable (Some e)) by exact Hwf.
    rewrite (wf_synchronizable (Some a)) by exact Hwa.
    rewrite !diff_same. cbn [is_nil negb].
    cbn [beta_ch p_beta contains_root_type_change existsb]. rewrite Ht. reflexivity.
  - unfold handle_one_way_safe.
    rewrite (wf_synchronizable (Some e)) by exact Hwf.
    rewrite (wf_synchronizable (Some a)) by exact Hwa.
    rewrite !diff_same. cbn [non_deletion filter is_nil negb].
    cbn [beta_ch p_beta contains_root_type_change existsb]. rewrite Ht. reflexivity.
  - unfold handle_one_way_replica.
    rewrite (wf_synchronizable (Some e)) by exact Hwf.
    rewrite (wf_synchronizable (Some a)) by exact Hwa.
    rewrite !diff_same. cbn [is_nil negb].
    cbn [beta_ch p_beta contains_root_type_change existsb]. rewrite Ht. reflexivity.
Qed.

(* beta's root changed its kind, alpha unchanged: two-way modes plan the type
   change on alpha's root *)
Lemma covers_beta_type_changed_two_way : forall m e b,
  wf_entry true e = true -> wf_entry true b = true -> kind_of b <> kind_of e ->
  (m = TwoWaySafe \/ m = TwoWayResolved) ->
  contains_root_type_change (alpha_ch (reconcile m (Some e) (Some e) (Some b))) = true.
Proof.
  intros m e b Hwf Hwb Hk Hm.
  assert (oshallow_eqb (Some b) (Some e) = false) as Hs.
  { cbn. destruct (shallow_eqb b e) eqn:E; [|reflexivity].
    apply shallow_eqb_kind in E. contradiction. }
  assert (oshallow_eqb (Some e) (Some b) = false) as Hs'.
  { cbn. destruct (shallow_eqb e b) eqn:E; [|reflexivity].
    apply shallow_eqb_kind in E. symmetry in E. contradiction. }
  assert (is_root_type_change (mk [] (Some e) (Some b)) = true) as Ht.
  { apply is_root_type_change_iff. exists e, b. repeat split; auto. }
  rewrite reconcile_root_disagree; try assumption.
  2: apply wf_true_not_problem; exact Hwf.
  2: apply wf_true_not_problem; exact Hwb.
  2: { rewrite (wf_true_not_untracked e Hwf). reflexivity. }
  assert (handle_bidirectional m [] (Some e) (Some e) (Some b) = p_alpha (mk [] (Some e) (Some b))) as E.
  { unfold handle_bidirectional.
    rewrite (wf_synchronizable (Some e)) by exact Hwf.
    rewrite (wf_synchronizable (Some b)) by exact Hwb.
    rewrite !diff_same.
    rewrite (diff_shallow_neq [] (Some e) (Some b)) by exact Hs.
    cbn [is_nil negb]. reflexivity. }
  destruct Hm; subst m; rewrite E;
    cbn [alpha_ch p_alpha contains_root_type_change existsb]; rewrite Ht; reflexivity.
Qed.

(* whenever a predicate fires, the verdict is a halt *)
Lemma verdict_emptied : forall m anc a b,
  emptied_spec anc a b -> safety_verdict m anc a b = Some HaltEmptied.
Proof.
  intros m anc a b H. apply emptied_iff in H. unfold safety_verdict. rewrite H. reflexivity.
Qed.

Lemma verdict_some_iff : forall m anc a b,
  safety_verdict m anc a b <> None <->
  (one_endpoint_emptied_root anc a b = true
   \/ contains_root_deletion (alpha_ch (reconcile m anc a b)) = true
   \/ contains_root_deletion (beta_ch (reconcile m anc a b)) = true
   \/ contains_root_type_change (alpha_ch (reconcile m anc a b)) = true
   \/ contains_root_type_change (beta_ch (reconcile m anc a b)) = true).
Proof.
  intros m anc a b. unfold safety_verdict, plan_halts.
  destruct (one_endpoint_emptied_root anc a b); [split; [auto|discriminate]|].
  destruct (contains_root_deletion (alpha_ch (reconcile m anc a b))); cbn [orb];
    [split; [auto|discriminate]|].
  destruct (contains_root_deletion (beta_ch (reconcile m anc a b))); cbn [orb];
    [split; [auto 6|discriminate]|].
  destruct (contains_root_type_change (alpha_ch (reconcile m anc a b))); cbn [orb];
    [split; [auto 6|discriminate]|].
  destruct (contains_root_type_change (beta_ch (reconcile m anc a b))); cbn [orb];
    [split; [auto 6|discriminate]|].
  split; [intro H; contradiction|].
  intros [H|[H|[H|[H|H]]]]; discriminate.
Qed.

Lemma covers_beta_type_changed_one_way : forall m e b,
  wf_entry true e = true -> wf_entry true b = true -> kind_of b <> kind_of e ->
  (m = OneWaySafe \/ m = OneWayReplica) ->
  alpha_ch (reconcile m (Some e) (Some e) (Some b)) = [].
Proof.
  intros m e b Hwf Hwb Hk Hm.
  assert (oshallow_eqb (Some b) (Some e) = false) as Hs.
  { cbn. destruct (shallow_eqb b e) eqn:E; [|reflexivity].
    apply shallow_eqb_kind in E. contradiction. }
  assert (oshallow_eqb (Some e) (Some b) = false) as Hs'.
  { cbn. destruct (shallow_eqb e b) eqn:E; [|reflexivity].
    apply shallow_eqb_kind in E. symmetry in E. contradiction. }
  rewrite reconcile_root_disagree; try assumption.
  2: apply wf_true_not_problem; exact Hwf.
  2: apply wf_true_not_problem; exact Hwb.
  2: { rewrite (wf_true_not_untracked e Hwf). reflexivity. }
  destruct Hm; subst m.
  - unfold handle_one_way_safe.
    rewrite (wf_synchronizable (Some b)) by exact Hwb.
    rewrite (diff_shallow_neq [] (Some e) (Some b)) by exact Hs.
    cbn [non_deletion filter mk cnew is_nil].
    replace (is_none (Some e) || is_untracked (Some e)) with false
      by (rewrite (wf_true_not_untracked e Hwf); reflexivity).
    reflexivity.
  - unfold handle_one_way_replica.
    rewrite (wf_synchronizable (Some b)) by exact Hwb.
    rewrite !diff_same. reflexivity.
Qed.

Definition two_way (m : mode) : bool :=
  match m with TwoWaySafe | TwoWayResolved => true | _ => false end.

(* "the halt cannot be dodged": with the other side equal to the ancestor, a
   deleted root / a root of another kind yields a plan on which the root
   deletion / root type change check fires on the side that would be changed;
   where nothing fires (one-way modes, change on beta) nothing is propagated
   to alpha at all *)
Lemma covers_all : forall m e,
  wf_entry true e = true ->
  contains_root_deletion (beta_ch (reconcile m (Some e) None (Some e))) = true
  /\ (if two_way m
      then contains_root_deletion (alpha_ch (reconcile m (Some e) (Some e) None)) = true
      else alpha_ch (reconcile m (Some e) (Some e) None) = [])
  /\ (forall a, wf_entry true a = true -> kind_of a <> kind_of e ->
        contains_root_type_change (beta_ch (reconcile m (Some e) (Some a) (Some e))) = true)
  /\ (forall b, wf_entry true b = true -> kind_of b <> kind_of e ->
        if two_way m
        then contains_root_type_change (alpha_ch (reconcile m (Some e) (Some e) (Some b))) = true
        else alpha_ch (reconcile m (Some e) (Some e) (Some b)) = []).
Proof.
  intros m e Hwf. repeat split.
  - apply covers_alpha_deleted; exact Hwf.
  - destruct m; cbn [two_way].
    + apply covers_beta_deleted_two_way; auto.
    + apply covers_beta_deleted_two_way; auto.
    + apply covers_beta_deleted_one_way; auto.
    + apply covers_beta_deleted_one_way; auto.
  - intros a Ha Hk. apply covers_alpha_type_changed; assumption.
  - intros b Hb Hk. destruct m; cbn [two_way].
    + apply covers_beta_type_changed_two_way; auto.
    + apply covers_beta_type_changed_two_way; auto.
    + apply covers_beta_type_changed_one_way; auto.
    + apply covers_beta_type_changed_one_way; auto.
Qed.

(* the same as verdicts of the controller's check sequence *)
Lemma covers_verdict : forall m e,
  wf_entry true e = true ->
  safety_verdict m (Some e) None (Some e) <> None
  /\ (two_way m = true -> safety_verdict m (Some e) (Some e) None <> None)
  /\ (forall a, wf_entry true a = true -> kind_of a <> kind_of e ->
        safety_verdict m (Some e) (Some a) (Some e) <> None)
  /\ (forall b, wf_entry true b = true -> kind_of b <> kind_of e -> two_way m = true ->
        safety_verdict m (Some e) (Some e) (Some b) <> None)
  /\ (forall a b, emptied_spec (Some e) a b -> safety_verdict m (Some e) a b = Some HaltEmptied).
Proof.
  intros m e Hwf. destruct (covers_all m e Hwf) as (H1 & H2 & H3 & H4). repeat split.
  - apply verdict_some_iff. auto.
  - intro Ht. rewrite Ht in H2. apply verdict_some_iff. auto.
  - intros a Ha Hk. apply verdict_some_iff. specialize (H3 a Ha Hk). auto 6.
  - intros b Hb Hk Ht. specialize (H4 b Hb Hk). rewrite Ht in H4. apply verdict_some_iff. auto 6.
  - intros a b H. apply verdict_emptied. exact H.
Qed.
