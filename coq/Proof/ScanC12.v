(* Proofs for C12: a fresh scan passes the checker [check_node]; the checker is
   sound for the specification [describes]; the counters equal the folds over
   the returned content; temporary names are omitted. *)
From Coq Require Import List Bool Arith String Ascii NArith Lia.
From Mv Require Import Model.Entry Model.Fs Model.Scan Model.ScanSpec
     Proof.EntryFacts Proof.ScanFacts.
Import ListNotations.
Open Scope string_scope.

Definition hres_entry (r : hres) : option (option entry) :=
  match r with
  | HAbort => None
  | HVanished => Some None
  | HOk e _ _ _ => Some (Some e)
  end.

Section C12.
  Variable H : string -> string.
  Variable ign : path -> bool -> ival.
  Variable flt : path -> fop -> outcome.
  Variable cfg : config.
  Variable rootdev : N.

  (* ---------- one-step equations ---------- *)
  Lemma scan_dir_dir : forall oc oic dirty p m c bl mask,
    scan_dir H ign flt cfg rootdev oc oic dirty p (NDir m c) bl mask =
    if negb (N.eqb (m_dev m) rootdev) then problem "scan crossed filesystem boundary" else
    match flt p FOpenDir with
    | Cancelled => HAbort
    | Fail e => if is_not_exist e then HVanished
                else problem ("unable to open directory: " ++ errno_msg e)
    | Ok =>
      match flt p FReadContents with
      | Cancelled => HAbort
      | Fail e => problem ("unable to read directory contents: " ++ errno_msg e)
      | Ok =>
        match run_kids (map (fun ny => child_res H ign flt cfg oc oic dirty
                                         (scan_dir H ign flt cfg rootdev oc oic dirty)
                                         p mask bl (fst ny) (snd ny)) c) with
        | None => HAbort
        | Some (out, ics, cnts) =>
          HOk ((if mask then EPhantom else EDir) (amap fst out))
              (CT None (amap snd out)) ics (cnt_add cnts cnt_dir)
        end
      end
    end.
  Proof.
    intros oc oic dirty p m c bl mask. cbn [scan_dir].
    destruct (negb (N.eqb (m_dev m) rootdev)); [reflexivity|].
    destruct (flt p FOpenDir); [|reflexivity|reflexivity].
    destruct (flt p FReadContents); [|reflexivity|reflexivity].
    match goal with
    | |- match ?L c with _ => _ end = _ =>
      assert (EL : forall l, L l = run_kids (map (fun ny => child_res H ign flt cfg oc oic dirty
                                         (scan_dir H ign flt cfg rootdev oc oic dirty)
                                         p mask bl (fst ny) (snd ny)) l))
    end.
    { induction l as [|[n y] l IH]; [reflexivity|].
      cbn [map fst snd]. rewrite run_kids_cons. rewrite <- IH. reflexivity. }
    rewrite EL. reflexivity.
  Qed.

  Definition kids_ok (chk : path -> bool -> node -> option entry -> bool)
             (p : path) (mask : bool) (out : list (name * entry)) (l : list (name * node)) : bool :=
    forallb (fun ny => check_child ign chk p mask out (fst ny) (snd ny)) l.

  Lemma check_node_dir : forall p mask m c oe,
    check_node H ign flt cfg rootdev p mask (NDir m c) oe =
    if negb (N.eqb (m_dev m) rootdev) then
      oentry_eqb (Some (EProblem "scan crossed filesystem boundary")) oe
    else
      match flt p FOpenDir with
      | Cancelled => false
      | Fail e => if is_not_exist e then oentry_eqb None oe
                  else oentry_eqb (Some (EProblem ("unable to open directory: " ++ errno_msg e))) oe
      | Ok =>
        match flt p FReadContents with
        | Cancelled => false
        | Fail e => oentry_eqb (Some (EProblem ("unable to read directory contents: " ++ errno_msg e))) oe
        | Ok =>
          let body (out : list (name * entry)) : bool :=
            sorted_names (map fst out) && keys_covered c out &&
            kids_ok (check_node H ign flt cfg rootdev) p mask out c in
          match oe, mask with
          | Some (EDir out), false => body out
          | Some (EPhantom out), true => body out
          | _, _ => false
          end
        end
      end.
  Proof.
    intros p mask m c oe. cbn [check_node].
    destruct (negb (N.eqb (m_dev m) rootdev)); [reflexivity|].
    destruct (flt p FOpenDir); [|reflexivity|reflexivity].
    destruct (flt p FReadContents); [|reflexivity|reflexivity].
    assert (EK : forall out l,
      (fix kids (l0 : list (name * node)) : bool :=
         match l0 with
         | [] => true
         | (n, y) :: r =>
           check_child ign (fun q m' y' oe' => check_node H ign flt cfg rootdev q m' y' oe')
                       p mask out n y && kids r
         end) l = kids_ok (check_node H ign flt cfg rootdev) p mask out l).
    { intros out l. induction l as [|[n y] l IH]; [reflexivity|].
      cbn [kids_ok forallb fst snd]. rewrite IH. reflexivity. }
    destruct oe as [[out|? ?|?| |?|out]|]; destruct mask; try reflexivity;
      cbv zeta; rewrite EK; reflexivity.
  Qed.

  (* ---------- the handlers without caches ---------- *)
  Lemma ct_get_empty : forall p, ct_get p ct_empty = None.
  Proof. intros [|n q]; reflexivity. Qed.

  Lemma land_exec_bits : forall a, (a < 4096)%N -> N.land (S_IFREG + a) 73 = N.land a 73.
  Proof.
    intros a Ha. unfold S_IFREG.
    replace 73%N with (N.land (N.ones 15) 73) at 1 by reflexivity.
    rewrite N.land_assoc, N.land_ones.
    replace (32768 + a)%N with (a + 1 * 2 ^ 15)%N by (change (2 ^ 15)%N with 32768%N; lia).
    rewrite N.mod_add by (change (2 ^ 15)%N with 32768%N; lia).
    rewrite N.mod_small by (change (2 ^ 15)%N with 32768%N; lia). reflexivity.
  Qed.

  Lemma executable_spec : forall m,
    meta_wf m = true -> executable cfg (S_IFREG + m_mode m) = spec_exec cfg m.
  Proof.
    intros m Hm. unfold executable, spec_exec, any_exec.
    unfold meta_wf in Hm. apply N.ltb_lt in Hm. rewrite land_exec_bits by exact Hm. reflexivity.
  Qed.

  Lemma scan_file_spec : forall p m data,
    meta_wf m = true ->
    hres_entry (scan_file H flt cfg ct_empty p m data) = spec_file H flt cfg p m data.
  Proof.
    intros p m data Hm. unfold scan_file, spec_file. rewrite ct_get_empty.
    destruct (flt p FOpenFile) as [|e|]; [|destruct (is_not_exist e); reflexivity|reflexivity].
    destruct (flt p FReadData) as [|e|]; [|reflexivity|reflexivity].
    destruct (negb (N.eqb (strlen data) (m_size m))); [reflexivity|].
    unfold file_finish. destruct (negb (mtime_valid (m_mtime m))); [reflexivity|].
    cbn [hres_entry]. rewrite executable_spec by exact Hm. reflexivity.
  Qed.

  Lemma scan_link_spec : forall p t,
    hres_entry (scan_link_mode flt cfg p t) = spec_link flt cfg p t.
  Proof.
    intros p t. unfold scan_link_mode, spec_link, scan_link.
    destruct (c_sym cfg); [reflexivity| |].
    - destruct (flt p FReadLink) as [|e|]; [|destruct (is_not_exist e); reflexivity|reflexivity].
      destruct (normalize_link (c_fix16 cfg) p t); reflexivity.
    - destruct (flt p FReadLink) as [|e|]; [|destruct (is_not_exist e); reflexivity|reflexivity].
      destruct (String.eqb t ""); reflexivity.
  Qed.

  (* ---------- one content, by cases ---------- *)
  Definition handle (oc : ctree) (oic : icache) (dirty : path -> bool)
             (rec : path -> node -> option (list (name * entry)) -> bool -> hres)
             (cp : path) (bl : option (list (name * entry))) (n : name) (y : node) (mask' : bool) : hres :=
    match y with
    | NFile fm data => scan_file H flt cfg oc cp fm data
    | NLink _ target => scan_link_mode flt cfg cp target
    | NDir _ _ =>
      match dir_baseline bl n with
      | Some d => if reusable dirty cp d then reuse oc oic cp d else rec cp y (Some d) mask'
      | None => rec cp y None mask'
      end
    | NOther _ _ => HAbort
    end.

  Lemma child_res_eq : forall oc oic dirty rec p mask bl n y,
    child_res H ign flt cfg oc oic dirty rec p mask bl n y =
    match flt (p ++ [n])%list FCheck with
    | Cancelled => CAbort
    | _ =>
      if is_temp n then COmit
      else if negb (utf8_valid n) then CList (escape_name n) (nonutf8_entry mask) ct_empty [] cnt0
      else match y with
           | NOther _ _ => CList n EUntracked ct_empty [] cnt0
           | _ =>
             let v := ignore_of ign oic (p ++ [n])%list (is_dir y) in
             let key := [(((p ++ [n])%list, is_dir y), v)] in
             match decide mask v with
             | DUntracked => CList n EUntracked ct_empty key cnt0
             | DScan mask' => of_hres n key (handle oc oic dirty rec (p ++ [n])%list bl n y mask')
             end
           end
    end.
  Proof.
    intros oc oic dirty rec p mask bl n y. unfold child_res, child_pre, decide, handle, nonutf8_entry.
    destruct (flt (p ++ [n])%list FCheck); try reflexivity;
      destruct (is_temp n); try reflexivity;
      destruct (utf8_valid n); cbn [negb]; try reflexivity;
      destruct y; try reflexivity;
      cbv zeta; cbn [is_dir];
      destruct (ignore_of ign oic (p ++ [n])%list _) as [[| |] [|]]; cbn [fst snd negb andb];
      destruct mask; cbn [negb andb]; try reflexivity;
      destruct (dir_baseline bl n); reflexivity.
  Qed.

  Lemma of_hres_key : forall n ic r k e t ic' cnt,
    of_hres n ic r = CList k e t ic' cnt -> k = n.
  Proof. intros n ic [| |e0 t0 ic0 cnt0] k e t ic' cnt; cbn; congruence. Qed.

  (* a listed content is listed under its key *)
  Lemma child_key : forall oc oic dirty rec p mask bl n y k e t ic cnt,
    child_res H ign flt cfg oc oic dirty rec p mask bl n y = CList k e t ic cnt ->
    out_key n = Some k.
  Proof.
    intros oc oic dirty rec p mask bl n y k e t ic cnt. rewrite child_res_eq. unfold out_key.
    destruct (flt (p ++ [n])%list FCheck); try discriminate;
      destruct (is_temp n); try discriminate;
      destruct (utf8_valid n); cbn [negb]; try (intros [= <- _ _ _ _]; reflexivity);
      destruct y; try (intros [= <- _ _ _ _]; reflexivity);
      cbv zeta; destruct (decide mask _); try (intros [= <- _ _ _ _]; reflexivity);
      intro Hr; apply of_hres_key in Hr; subst; reflexivity.
  Qed.

  Lemma child_invalid : forall oc oic dirty rec p mask bl n y k e t ic cnt,
    utf8_valid n = false ->
    child_res H ign flt cfg oc oic dirty rec p mask bl n y = CList k e t ic cnt ->
    k = escape_name n /\ e = nonutf8_entry mask /\ t = ct_empty.
  Proof.
    intros oc oic dirty rec p mask bl n y k e t ic cnt Hv. rewrite child_res_eq. rewrite Hv.
    match goal with |- context [flt ?q FCheck] => destruct (flt q FCheck) end; try discriminate;
      destruct (is_temp n); try discriminate; cbn [negb];
      intro Hq; inversion Hq; auto.
  Qed.

  Lemma out_key_cases : forall n k,
    out_key n = Some k ->
    is_temp n = false /\ ((utf8_valid n = true /\ k = n) \/ (utf8_valid n = false /\ k = escape_name n)).
  Proof.
    intros n k. unfold out_key. destruct (is_temp n); [discriminate|].
    destruct (utf8_valid n); intros [= <-]; auto.
  Qed.

  (* outcomes of the children of a well-formed directory with equal keys carry
     equal values *)
  Lemma children_compat : forall oc oic dirty rec p mask bl m c,
    scan_wf (NDir m c) = true ->
    let rs := map (fun ny => child_res H ign flt cfg oc oic dirty rec p mask bl (fst ny) (snd ny)) c in
    forall k r1 r2, In r1 rs -> In r2 rs -> key_of r1 = Some k -> key_of r2 = Some k ->
                    val_of r1 = val_of r2.
  Proof.
    intros oc oic dirty rec p mask bl m c Hwf rs k r1 r2 H1 H2 K1 K2.
    unfold scan_wf in Hwf. apply andb_true_iff in Hwf. destruct Hwf as [Hw He].
    pose proof (wf_dir_sorted _ _ Hw) as Hs.
    apply in_map_iff in H1. destruct H1 as [[n1 y1] [E1 I1]].
    apply in_map_iff in H2. destruct H2 as [[n2 y2] [E2 I2]].
    cbn [fst snd] in E1, E2.
    destruct r1 as [| |k1 e1 t1 ic1 c1]; try discriminate.
    destruct r2 as [| |k2 e2 t2 ic2 c2]; try discriminate.
    cbn in K1, K2. inversion K1. inversion K2. subst k1 k2.
    pose proof (child_key _ _ _ _ _ _ _ _ _ _ _ _ _ _ E1) as O1.
    pose proof (child_key _ _ _ _ _ _ _ _ _ _ _ _ _ _ E2) as O2.
    apply out_key_cases in O1. apply out_key_cases in O2.
    destruct O1 as [T1 [[V1 N1]|[V1 N1]]]; destruct O2 as [T2 [[V2 N2]|[V2 N2]]].
    - subst n1 n2. pose proof (sorted_in_unique _ _ _ _ Hs I1 I2) as Ey. subst y2.
      rewrite E1 in E2. inversion E2. reflexivity.
    - exfalso. apply (escape_safe_sibling _ _ _ _ _ _ He I2 I1 V2 V1). congruence.
    - exfalso. apply (escape_safe_sibling _ _ _ _ _ _ He I1 I2 V1 V2). congruence.
    - destruct (child_invalid _ _ _ _ _ _ _ _ _ _ _ _ _ _ V1 E1) as [_ [-> ->]].
      destruct (child_invalid _ _ _ _ _ _ _ _ _ _ _ _ _ _ V2 E2) as [_ [-> ->]]. reflexivity.
  Qed.

  (* ---------- a fresh scan passes the checker ---------- *)
  Definition nocache : path -> bool := fun _ => false.
  Definition fdir := scan_dir H ign flt cfg rootdev ct_empty [] nocache.

  (* the handler that runs for a node (no baseline) *)
  Definition fnode (p : path) (x : node) (mask : bool) : hres :=
    match x with
    | NDir _ _ => fdir p x None mask
    | NFile m d => scan_file H flt cfg ct_empty p m d
    | NLink _ t => scan_link_mode flt cfg p t
    | NOther _ _ => HAbort
    end.

  Lemma handle_fresh : forall cp n y mask',
    handle ct_empty [] nocache fdir cp None n y mask' = fnode cp y mask'.
  Proof. intros cp n y mask'. destruct y; reflexivity. Qed.

  Definition is_other (y : node) : bool := match y with NOther _ _ => true | _ => false end.

  Lemma check_child_valid : forall chk p mask outc n y,
    is_temp n = false -> utf8_valid n = true -> is_other y = false ->
    check_child ign chk p mask outc n y =
    match decide mask (ign (p ++ [n])%list (is_dir y)) with
    | DUntracked => oentry_eqb (Some EUntracked) (lookup n outc)
    | DScan mask' => chk (p ++ [n])%list mask' y (lookup n outc)
    end.
  Proof.
    intros chk p mask outc n y Ht Hv Ho. unfold check_child. rewrite Ht, Hv. cbn [negb].
    destruct y; try reflexivity. discriminate.
  Qed.

  Lemma child_res_valid : forall oc oic dirty rec p mask bl n y,
    flt (p ++ [n])%list FCheck <> Cancelled ->
    is_temp n = false -> utf8_valid n = true -> is_other y = false ->
    child_res H ign flt cfg oc oic dirty rec p mask bl n y =
    let v := ignore_of ign oic (p ++ [n])%list (is_dir y) in
    let key := [(((p ++ [n])%list, is_dir y), v)] in
    match decide mask v with
    | DUntracked => CList n EUntracked ct_empty key cnt0
    | DScan mask' => of_hres n key (handle oc oic dirty rec (p ++ [n])%list bl n y mask')
    end.
  Proof.
    intros oc oic dirty rec p mask bl n y Hc Ht Hv Ho. rewrite child_res_eq. rewrite Ht, Hv.
    cbn [negb]. destruct (flt (p ++ [n])%list FCheck); try congruence;
      destruct y; try reflexivity; discriminate.
  Qed.

  Lemma fresh_check : forall x,
    scan_wf x = true ->
    forall p mask oe,
      hres_entry (fnode p x mask) = Some oe ->
      check_node H ign flt cfg rootdev p mask x oe = true.
  Proof.
    induction x as [m c IH|m d|m t|m ty] using node_nested_ind; intros Hwf p mask oe Hr.
    - (* directory *)
      cbn [fnode] in Hr. unfold fdir in Hr. rewrite scan_dir_dir in Hr. rewrite check_node_dir.
      destruct (negb (N.eqb (m_dev m) rootdev)).
      { cbn in Hr. inversion Hr. apply oentry_eqb_refl. }
      destruct (flt p FOpenDir) as [|e|]; [| |discriminate].
      2:{ destruct (is_not_exist e); cbn in Hr; inversion Hr; apply oentry_eqb_refl. }
      destruct (flt p FReadContents) as [|e|]; [| |discriminate].
      2:{ cbn in Hr. inversion Hr. apply oentry_eqb_refl. }
      fold fdir in Hr.
      set (rs := map (fun ny => child_res H ign flt cfg ct_empty [] nocache fdir p mask None (fst ny) (snd ny)) c) in *.
      destruct (run_kids rs) as [[[out ics] cnts]|] eqn:Erk; [|discriminate].
      cbn [hres_entry] in Hr. inversion Hr. subst oe. clear Hr.
      assert (Hlk : forall k, lookup k (amap fst out) = option_map fst (first_listed k rs)).
      { intro k. rewrite lookup_alookup, alookup_amap, (run_kids_lookup _ _ _ _ Erk). reflexivity. }
      pose proof (children_compat ct_empty [] nocache fdir p mask None m c Hwf) as Hcompat.
      cbv zeta in Hcompat. fold rs in Hcompat.
      assert (Hin_rs : forall n y, In (n, y) c ->
                In (child_res H ign flt cfg ct_empty [] nocache fdir p mask None n y) rs).
      { intros n y Hin. unfold rs. apply in_map_iff. exists (n, y). split; [reflexivity|exact Hin]. }
      assert (B : sorted_names (map fst (amap fst out)) && keys_covered c (amap fst out)
                  && kids_ok (check_node H ign flt cfg rootdev) p mask (amap fst out) c = true).
      { apply andb_true_intro. split; [apply andb_true_intro; split|].
        - rewrite amap_keys. apply (run_kids_sorted _ _ _ _ Erk).
        - unfold keys_covered. apply forallb_forall. intros k Hk. rewrite amap_keys in Hk.
          destruct (run_kids_keys _ _ _ _ _ Erk Hk) as [r [Hin Hkey]].
          unfold rs in Hin. apply in_map_iff in Hin. destruct Hin as [[n y] [Er Hin]].
          cbn [fst snd] in Er. destruct r as [| |k' e t ic cnt]; try discriminate.
          cbn in Hkey. inversion Hkey. subst k'.
          apply child_key in Er. apply existsb_exists. exists (n, y). split; [exact Hin|].
          cbn [fst]. rewrite Er. apply str_eqb_refl.
        - unfold kids_ok. apply forallb_forall. intros [n y] Hin. cbn [fst snd].
          pose proof (Hin_rs _ _ Hin) as Hr_in.
          pose proof (run_kids_no_abort _ _ Erk _ Hr_in) as Hna.
          assert (Hck : flt (p ++ [n])%list FCheck <> Cancelled).
          { intro Hc. apply Hna. rewrite child_res_eq. rewrite Hc. reflexivity. }
          destruct (is_temp n) eqn:Et.
          { unfold check_child. rewrite Et. reflexivity. }
          destruct (utf8_valid n) eqn:Ev.
          2:{ unfold check_child. rewrite Et, Ev. cbn [negb]. rewrite Hlk.
              assert (Er : child_res H ign flt cfg ct_empty [] nocache fdir p mask None n y =
                           CList (escape_name n) (nonutf8_entry mask) ct_empty [] cnt0).
              { rewrite child_res_eq. rewrite Et, Ev. cbn [negb].
                destruct (flt (p ++ [n])%list FCheck); try reflexivity. congruence. }
              rewrite Er in Hr_in.
              rewrite (first_listed_any _ _ _ (nonutf8_entry mask, ct_empty) (Hcompat _) Hr_in eq_refl eq_refl).
              cbn [option_map fst]. apply oentry_eqb_refl. }
          destruct (is_other y) eqn:Eo.
          { destruct y; try discriminate. unfold check_child. rewrite Et, Ev. cbn [negb]. rewrite Hlk.
            assert (Er : child_res H ign flt cfg ct_empty [] nocache fdir p mask None n (NOther m0 ty) =
                         CList n EUntracked ct_empty [] cnt0).
            { rewrite child_res_eq. rewrite Et, Ev. cbn [negb].
              destruct (flt (p ++ [n])%list FCheck); try reflexivity. congruence. }
            rewrite Er in Hr_in.
            rewrite (first_listed_any _ _ _ (EUntracked, ct_empty) (Hcompat _) Hr_in eq_refl eq_refl).
            cbn [option_map fst]. apply oentry_eqb_refl. }
          rewrite (check_child_valid _ _ _ _ _ _ Et Ev Eo).
          pose proof (child_res_valid ct_empty [] nocache fdir p mask None n y Hck Et Ev Eo) as Er.
          cbv zeta in Er. unfold ignore_of in Er. cbn [ic_lookup] in Er.
          destruct (decide mask (ign (p ++ [n])%list (is_dir y))) as [|mask'] eqn:Ed.
          { rewrite Er in Hr_in. rewrite Hlk.
            rewrite (first_listed_any _ _ _ (EUntracked, ct_empty) (Hcompat _) Hr_in eq_refl eq_refl).
            cbn [option_map fst]. apply oentry_eqb_refl. }
          rewrite handle_fresh in Er.
          assert (IHy : forall oe, hres_entry (fnode (p ++ [n])%list y mask') = Some oe ->
                                   check_node H ign flt cfg rootdev (p ++ [n])%list mask' y oe = true).
          { intros oe Hoe. rewrite Forall_forall in IH. apply (IH _ Hin); [|exact Hoe].
            apply (scan_wf_child _ _ _ _ Hwf Hin). }
          destruct (fnode (p ++ [n])%list y mask') as [| |e t ic cnt] eqn:Ef.
          + exfalso. apply Hna. rewrite Er. reflexivity.
          + (* vanished: nothing is listed under n *)
            rewrite Hlk. rewrite first_listed_none; [apply IHy; reflexivity|].
            intros r' Hr' Hk'. unfold rs in Hr'. apply in_map_iff in Hr'.
            destruct Hr' as [[n' y'] [Er' Hin']]. cbn [fst snd] in Er'.
            destruct r' as [| |k' e' t' ic' cnt']; try discriminate.
            cbn in Hk'. inversion Hk'. subst k'.
            pose proof (child_key _ _ _ _ _ _ _ _ _ _ _ _ _ _ Er') as Ok'.
            apply out_key_cases in Ok'. destruct Ok' as [_ [[V' N']|[V' N']]].
            * subst n'. unfold scan_wf in Hwf. apply andb_true_iff in Hwf. destruct Hwf as [Hw _].
              pose proof (sorted_in_unique _ _ _ _ (wf_dir_sorted _ _ Hw) Hin Hin') as Ey. subst y'.
              rewrite Er in Er'. cbn in Er'. discriminate.
            * unfold scan_wf in Hwf. apply andb_true_iff in Hwf. destruct Hwf as [_ He].
              apply (escape_safe_sibling _ _ _ _ _ _ He Hin' Hin V' Ev). exact N'.
          + rewrite Er in Hr_in. cbn [of_hres] in Hr_in. rewrite Hlk.
            rewrite (first_listed_any _ _ _ (e, t) (Hcompat _) Hr_in eq_refl eq_refl).
            cbn [option_map fst]. apply IHy. reflexivity. }
      destruct mask; exact B.
    - (* file *)
      cbn [fnode check_node] in *. unfold scan_wf in Hwf. apply andb_true_iff in Hwf.
      destruct Hwf as [Hw _]. cbn [wf_node node_meta] in Hw. apply andb_true_iff in Hw.
      destruct Hw as [Hm _]. rewrite scan_file_spec in Hr by exact Hm. rewrite Hr.
      unfold expect. apply oentry_eqb_refl.
    - (* link *)
      cbn [fnode check_node] in *. rewrite scan_link_spec in Hr. rewrite Hr.
      unfold expect. apply oentry_eqb_refl.
    - discriminate.
  Qed.

  (* ---------- the checker is sound for [describes] ---------- *)
  Lemma is_not_exist_true : forall e, is_not_exist e = true -> e = ENOENT.
  Proof. intros []; cbn; congruence. Qed.

  Lemma expect_eq : forall s oe, expect s oe = true -> s = Some oe.
  Proof.
    intros [s|] oe; cbn [expect]; [|discriminate]. intro He. apply oentry_eqb_eq in He. congruence.
  Qed.

  Lemma spec_file_sound : forall p mask m data oe,
    spec_file H flt cfg p m data = Some oe ->
    describes H ign flt cfg rootdev p mask (NFile m data) oe.
  Proof.
    intros p mask m data oe. unfold spec_file.
    destruct (flt p FOpenFile) as [|e|] eqn:Eo; [| |discriminate].
    2:{ destruct (is_not_exist e) eqn:En; intros [= <-].
        - apply is_not_exist_true in En. subst e. apply D_file_vanished. exact Eo.
        - apply (D_file_unopenable _ _ _ _ _ _ _ _ _ _ Eo En). }
    destruct (flt p FReadData) as [|e|] eqn:Er; [| |discriminate].
    2:{ intros [= <-]. apply (D_file_unreadable _ _ _ _ _ _ _ _ _ _ Eo Er). }
    destruct (N.eqb (strlen data) (m_size m)) eqn:Es; cbn [negb].
    2:{ intros [= <-]. apply N.eqb_neq in Es. apply (D_file_size _ _ _ _ _ _ _ _ _ Eo Er Es). }
    apply N.eqb_eq in Es.
    destruct (mtime_valid (m_mtime m)) eqn:Em; cbn [negb]; intros [= <-].
    - apply (D_file _ _ _ _ _ _ _ _ _ Eo Er Es Em).
    - apply (D_file_mtime _ _ _ _ _ _ _ _ _ Eo Er Es Em).
  Qed.

  Lemma spec_link_sound : forall p mask m t oe,
    spec_link flt cfg p t = Some oe ->
    describes H ign flt cfg rootdev p mask (NLink m t) oe.
  Proof.
    intros p mask m t oe. unfold spec_link.
    destruct (c_sym cfg) eqn:Ec.
    - intros [= <-]. apply D_link_ignored. exact Ec.
    - assert (Hn : c_sym cfg <> SLIgnore) by congruence.
      destruct (flt p FReadLink) as [|e|] eqn:Er; [| |discriminate].
      2:{ destruct (is_not_exist e) eqn:En; intros [= <-].
          - apply is_not_exist_true in En. subst e. apply (D_link_vanished _ _ _ _ _ _ _ _ _ Hn Er).
          - apply (D_link_unreadable _ _ _ _ _ _ _ _ _ _ Hn Er En). }
      destruct (normalize_link (c_fix16 cfg) p t) as [t'|msg] eqn:En; intros [= <-].
      + apply (D_link_portable _ _ _ _ _ _ _ _ _ _ Ec Er En).
      + apply (D_link_unportable _ _ _ _ _ _ _ _ _ _ Ec Er En).
    - assert (Hn : c_sym cfg <> SLIgnore) by congruence.
      destruct (flt p FReadLink) as [|e|] eqn:Er; [| |discriminate].
      2:{ destruct (is_not_exist e) eqn:En; intros [= <-].
          - apply is_not_exist_true in En. subst e. apply (D_link_vanished _ _ _ _ _ _ _ _ _ Hn Er).
          - apply (D_link_unreadable _ _ _ _ _ _ _ _ _ _ Hn Er En). }
      destruct (String.eqb t "") eqn:Et; intros [= <-].
      + apply str_eqb_eq in Et. subst t. apply (D_link_raw_empty _ _ _ _ _ _ _ _ Ec Er).
      + apply str_eqb_neq in Et. apply (D_link_raw _ _ _ _ _ _ _ _ _ Ec Er Et).
  Qed.

  Lemma not_other : forall y, is_other y = false -> forall m ty, y <> NOther m ty.
  Proof. intros y Ho m ty ->. discriminate. Qed.

  Lemma check_sound : forall x p mask oe,
    check_node H ign flt cfg rootdev p mask x oe = true ->
    describes H ign flt cfg rootdev p mask x oe.
  Proof.
    induction x as [m c IH|m d|m t|m ty] using node_nested_ind; intros p mask oe Hc.
    - rewrite check_node_dir in Hc.
      destruct (N.eqb (m_dev m) rootdev) eqn:Ed; cbn [negb] in Hc.
      2:{ apply oentry_eqb_eq in Hc. subst oe. apply N.eqb_neq in Ed. apply D_dir_crossing. exact Ed. }
      apply N.eqb_eq in Ed.
      destruct (flt p FOpenDir) as [|e|] eqn:Eo; [| |discriminate].
      2:{ destruct (is_not_exist e) eqn:En; apply oentry_eqb_eq in Hc; subst oe.
          - apply is_not_exist_true in En. subst e. apply (D_dir_vanished _ _ _ _ _ _ _ _ _ Ed Eo).
          - apply (D_dir_unopenable _ _ _ _ _ _ _ _ _ _ Ed Eo En). }
      destruct (flt p FReadContents) as [|e|] eqn:Er; [| |discriminate].
      2:{ apply oentry_eqb_eq in Hc. subst oe. apply (D_dir_unreadable _ _ _ _ _ _ _ _ _ _ Ed Eo Er). }
      cbv zeta in Hc.
      assert (Hbody : exists out, oe = Some ((if mask then EPhantom else EDir) out) /\
                sorted_names (map fst out) && keys_covered c out
                && kids_ok (check_node H ign flt cfg rootdev) p mask out c = true).
      { destruct oe as [[out|? ?|?| |?|out]|]; destruct mask; try discriminate;
          exists out; split; [reflexivity|exact Hc|reflexivity|exact Hc]. }
      destruct Hbody as [out [-> Hb]]. clear Hc.
      apply andb_true_iff in Hb. destruct Hb as [Hb Hk]. apply andb_true_iff in Hb. destruct Hb as [Hs Hcov].
      unfold kids_ok in Hk. rewrite forallb_forall in Hk.
      apply (D_dir _ _ _ _ _ _ _ _ _ _ Ed Eo Er). apply DK; [exact Hs| |].
      + (* everything listed is accounted for by a child *)
        intros k e Hl.
        assert (Hin : In k (map fst out)) by (apply lookup_in_keys; congruence).
        unfold keys_covered in Hcov. rewrite forallb_forall in Hcov. specialize (Hcov _ Hin).
        apply existsb_exists in Hcov. destruct Hcov as [[n y] [Hc Hkey]]. cbn [fst] in Hkey.
        exists n, y. split; [exact Hc|].
        destruct (out_key n) as [k'|] eqn:Eok; [|discriminate].
        apply str_eqb_eq in Hkey. subst k'. apply out_key_cases in Eok.
        specialize (Hk _ Hc). cbn [fst snd] in Hk.
        destruct Eok as [Et [[Ev ->]|[Ev ->]]].
        * destruct (is_other y) eqn:Eo'.
          { destruct y; try discriminate. unfold check_child in Hk. rewrite Et, Ev in Hk. cbn [negb] in Hk.
            apply oentry_eqb_eq in Hk. rewrite Hl in Hk. inversion Hk. apply (L_unsupported _ _ _ _ _ _ _ _ _ _ Et Ev). }
          rewrite (check_child_valid _ _ _ _ _ _ Et Ev Eo') in Hk.
          destruct (decide mask (ign (p ++ [n])%list (is_dir y))) as [|mask'] eqn:Edec.
          { apply oentry_eqb_eq in Hk. rewrite Hl in Hk. inversion Hk.
            apply (L_ignored _ _ _ _ _ _ _ _ _ Et Ev (not_other _ Eo') Edec). }
          rewrite Hl in Hk. apply (L_listed _ _ _ _ _ _ _ _ _ _ _ Et Ev (not_other _ Eo') Edec).
          rewrite Forall_forall in IH. apply (IH _ Hc). exact Hk.
        * unfold check_child in Hk. rewrite Et, Ev in Hk. cbn [negb] in Hk.
          apply oentry_eqb_eq in Hk. rewrite Hl in Hk. inversion Hk. apply (L_nonutf8 _ _ _ _ _ _ _ _ _ Et Ev).
      + (* every child is accounted for *)
        intros n y Hc. specialize (Hk _ Hc). cbn [fst snd] in Hk.
        destruct (is_temp n) eqn:Et.
        { exists LOmit. split; [apply L_temporary; exact Et|exact I]. }
        destruct (utf8_valid n) eqn:Ev.
        2:{ unfold check_child in Hk. rewrite Et, Ev in Hk. cbn [negb] in Hk. apply oentry_eqb_eq in Hk.
            exists (LEntry (escape_name n) (nonutf8_entry mask)).
            split; [apply (L_nonutf8 _ _ _ _ _ _ _ _ _ Et Ev)|symmetry; exact Hk]. }
        destruct (is_other y) eqn:Eo'.
        { destruct y; try discriminate. unfold check_child in Hk. rewrite Et, Ev in Hk. cbn [negb] in Hk.
          apply oentry_eqb_eq in Hk. exists (LEntry n EUntracked).
          split; [apply (L_unsupported _ _ _ _ _ _ _ _ _ _ Et Ev)|symmetry; exact Hk]. }
        rewrite (check_child_valid _ _ _ _ _ _ Et Ev Eo') in Hk.
        destruct (decide mask (ign (p ++ [n])%list (is_dir y))) as [|mask'] eqn:Edec.
        { apply oentry_eqb_eq in Hk. exists (LEntry n EUntracked).
          split; [apply (L_ignored _ _ _ _ _ _ _ _ _ Et Ev (not_other _ Eo') Edec)|symmetry; exact Hk]. }
        rewrite Forall_forall in IH. apply (IH _ Hc) in Hk.
        destruct (lookup n out) as [e|] eqn:El.
        * exists (LEntry n e). split; [|exact El].
          apply (L_listed _ _ _ _ _ _ _ _ _ _ _ Et Ev (not_other _ Eo') Edec Hk).
        * exists LOmit. split; [|exact I].
          apply (L_vanished _ _ _ _ _ _ _ _ _ _ Et Ev (not_other _ Eo') Edec Hk).
    - cbn [check_node] in Hc. apply expect_eq in Hc. apply spec_file_sound. exact Hc.
    - cbn [check_node] in Hc. apply expect_eq in Hc. apply spec_link_sound. exact Hc.
    - discriminate.
  Qed.
End C12.
